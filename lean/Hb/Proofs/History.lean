/-
History-level theorems about the `HashMap` model (`Hb/Model/MapOps.lean`: `MapOp`, `Map.step`,
`Map.run`, `Map.runFaults`).

Part A (C02, C05) — for EVERY environment (arbitrary, call-number dependent, possibly panicking
`Hash` / `Eq` / predicate / `Drop`, an allocator that may refuse):
  `step_safe` (one call: never `.fault`; `TInv` and `items = elems.length` on return and after an
  unwind; `.abort` only if `env.allocOk w.ac = false`), `run_safe` (histories from `new()`),
  `iteration_counts_len`, `every_call_terminates`, `hs_drain_forget`, `hs_ctrlAlign_ok`.

Part B (C03) — ledger of object identities and of allocator blocks. Vocabulary: `kidsOf`, `vidsOf`,
`droppedK/V` (of a log), `insertedK/V` (of a history), `hs_retK/V op r` and `returnedK/V` (of the
zipped `(op, obs)` list: identities handed back BY VALUE), `liveBlocks`, `freesMatched`,
`hs_blockOf`, `hs_AllocInv`, `hs_NoForget`, `hs_QueryOp`.
  `step_ledger` (one returned call), `run_ledger` (histories from `new()` without an observed
  panic), `dropAll_ledger` (plus drop of the collection: everything dropped or returned exactly
  once, allocator log balanced), `hs_nodup_parts`, `never_allocated_owns_nothing`, `hs_example`.
  No assumption on the environment is needed beyond "no panic was observed" (a call that returns was
  not unwound) and, for `dropAll_ledger`, non-panicking destructors.

Exact-log refinements of the per-operation specs (the specs of `ApiGrow.lean` only say `AllocOnly`):
`hs_AStep` (what a call did to the block, with the exact new log entries), `hs_reserveRehash_exact`,
`hs_reserve_exact`, `hs_fofis_exact`, `hs_insert_exact`, `hs_getMut_exact`, `hs_remove_exact`,
`hs_tryReserve_exact`, `hs_shrinkTo_exact`, `hs_elems_replace`; bucket mask under erase-while-
iterating: `hs_removeAt_mask`, `hs_retain_mask`, `hs_extractIf_mask`.
-/
import Hb.Model.MapOps
import Hb.Proofs.ApiGrow
import Hb.Proofs.ApiBulk
import Hb.Proofs.IterSpec
import Hb.Proofs.Probe
import Hb.Proofs.FindSpec
namespace Hb

variable {cfg : Cfg}

/-! ## exact allocator log of the growth path -/

/-- The allocator request for the block of `t`. -/
def hs_allocEv (cfg : Cfg) (t : Raw) : Ev :=
  Ev.alloc (layoutOf cfg t.buckets).size (layoutOf cfg t.buckets).align

/-- What one call did to the block of the table, with the exact new log entries `new`:
    nothing (same bucket mask), or a new block was obtained and the old one (if any) released, or
    the old block (if any) was released and the table is the unallocated singleton again. -/
def hs_AStep (cfg : Cfg) (w w' : World) (new : List Ev) : Prop :=
  w'.log = new ++ w.log ∧
  ((new = [] ∧ w'.t.mask = w.t.mask) ∨
   (w'.t.alloc = true ∧ new = freeEvs cfg w.t ++ [hs_allocEv cfg w'.t]) ∨
   (w'.t.alloc = false ∧ new = freeEvs cfg w.t))

theorem hs_AStep.refl (w : World) : hs_AStep cfg w w [] := ⟨rfl, Or.inl ⟨rfl, rfl⟩⟩

/-- Only the right-hand world's `log`, `t.mask`, `t.alloc` matter. -/
theorem hs_AStep.congr {w w1 w2 : World} {new : List Ev} (h : hs_AStep cfg w w1 new)
    (hl : w2.log = w1.log) (hm : w2.t.mask = w1.t.mask) (ha : w2.t.alloc = w1.t.alloc) :
    hs_AStep cfg w w2 new := by
  obtain ⟨h1, h2⟩ := h
  refine ⟨hl.trans h1, ?_⟩
  rcases h2 with ⟨a, b⟩ | ⟨a, b⟩ | ⟨a, b⟩
  · exact Or.inl ⟨a, hm.trans b⟩
  · refine Or.inr (Or.inl ⟨ha.trans a, ?_⟩)
    rw [b]; simp only [hs_allocEv, Raw.buckets, hm]
  · exact Or.inr (Or.inr ⟨ha.trans a, b⟩)

/-- Only the left-hand world's `log` and table matter. -/
theorem hs_AStep.congr_left {w0 w w1 : World} {new : List Ev} (h : hs_AStep cfg w w1 new)
    (hl : w0.log = w.log) (ht : w0.t = w.t) : hs_AStep cfg w0 w1 new := by
  unfold hs_AStep at h ⊢
  rw [hl, ht]; exact h

/-- `reserve_rehash_inner`: exact log on success, and the only reason for `.abort`. -/
theorem hs_reserveRehash_exact (hc : CfgOk cfg) (hp : ProbeCovers cfg) (env : Env)
    (additional : Nat) (fb : Fallibility) (w : World) (h : TInv cfg w.t)
    (hadd : w.t.alloc = true ∨ 0 < additional) :
    match reserveRehash cfg env additional fb w with
    | .ok (.ok (), w') => ∃ new, hs_AStep cfg w w' new
    | .ok (.error _, _) => True
    | .panic _ _ => True
    | .abort => env.allocOk w.ac = false
    | .fault _ => True := by
  obtain ⟨hinv, hlo⟩ := h
  unfold reserveRehash
  cases hca : checkedAdd cfg.bits w.t.items additional with
  | none => cases fb <;> simp [capacityOverflow]
  | some newItems =>
    have hn := ag_checkedAdd_some hca
    simp only
    by_cases hbr : newItems ≤ bucketMaskToCapacity w.t.mask / 2
    · rw [if_pos hbr]
      have ha : w.t.alloc = true := by
        rcases hadd with ha | hpos
        · exact ha
        · cases hal : w.t.alloc with
          | true => rfl
          | false =>
            have hs := ag_singleton_of_not_alloc hinv hal
            rw [hs.2.1] at hbr
            simp [bucketMaskToCapacity] at hbr
            omega
      have hsp := rehashInPlace_spec hc hp env w hinv ha
      cases hr : rehashInPlace cfg env w with
      | ok w' =>
        rw [hr] at hsp
        exact ⟨[], by simpa using hsp.2.2.2.2.2.2, Or.inl ⟨rfl, hsp.2.1⟩⟩
      | panic c w' => trivial
      | abort => rw [hr] at hsp; exact hsp.elim
      | fault f => trivial
    · rw [if_neg hbr]
      have hcap0 : max newItems (bucketMaskToCapacity w.t.mask + 1) ≠ 0 := by omega
      have hsp := resizeInner_post hc hp env (max newItems (bucketMaskToCapacity w.t.mask + 1)) fb w
        hinv hlo (by omega)
      cases hr : resizeInner cfg env (max newItems (bucketMaskToCapacity w.t.mask + 1)) fb w with
      | ok pr =>
        obtain ⟨r, w'⟩ := pr
        rw [hr] at hsp
        cases r with
        | ok u =>
          cases u
          obtain ⟨_, _, _, _, _, a6, _, _, a9, _⟩ := hsp
          rw [if_neg hcap0] at a6 a9
          exact ⟨_, a9, Or.inr (Or.inl ⟨a6.1, rfl⟩)⟩
        | error e => trivial
      | panic c w' => trivial
      | abort => rw [hr] at hsp; exact hsp.2
      | fault f => trivial

/-- `RawTable::reserve`. -/
theorem hs_reserve_exact (hc : CfgOk cfg) (hp : ProbeCovers cfg) (env : Env) (additional : Nat)
    (w : World) (h : TInv cfg w.t) :
    match reserve cfg env additional w with
    | .ok w' => ∃ new, hs_AStep cfg w w' new
    | .panic _ _ => True
    | .abort => env.allocOk w.ac = false
    | .fault _ => True := by
  unfold reserve
  by_cases hgt : additional > w.t.gl
  · rw [if_pos hgt]
    have hsp := hs_reserveRehash_exact hc hp env additional .infallible w h (Or.inr (by omega))
    cases hr : reserveRehash cfg env additional .infallible w with
    | ok pr =>
      obtain ⟨r, w'⟩ := pr
      rw [hr] at hsp
      cases r with
      | ok u => cases u; exact hsp
      | error e => trivial
    | panic c w' => trivial
    | abort => rw [hr] at hsp; exact hsp
    | fault f => trivial
  · rw [if_neg hgt]
    exact ⟨[], hs_AStep.refl w⟩

/-- `find_or_find_insert_slot`: `reserve(1)`, then a search that touches neither table nor log. -/
theorem hs_fofis_exact (hc : CfgOk cfg) (hp : ProbeCovers cfg) (env : Env) (hash q : Nat)
    (w : World) (h : TInv cfg w.t) :
    match findOrFindInsertSlot cfg env hash q w with
    | .ok (_, w') => ∃ new, hs_AStep cfg w w' new
    | .panic _ _ => True
    | .abort => env.allocOk w.ac = false
    | .fault _ => True := by
  unfold findOrFindInsertSlot
  have hres := reserve_spec hc hp env 1 w h
  have hm := hs_reserve_exact hc hp env 1 w h
  cases hr : reserve cfg env 1 w with
  | ok w1 =>
    rw [hr] at hres hm
    obtain ⟨new, hm⟩ := hm
    simp only
    rcases fofis_total hc hp env hash q (tagFull cfg.bits hash) (tagFull_lt_128 cfg.bits hash) w1
        hres.1.1 with ⟨idx, w', k1, k2, k3, _⟩ | ⟨slot, w', k1, k2, k3, _⟩ | ⟨w', k1, k2, _⟩
    · rw [k1]; exact ⟨new, hm.congr k3 (by rw [k2]) (by rw [k2])⟩
    · rw [k1]; exact ⟨new, hm.congr k3 (by rw [k2]) (by rw [k2])⟩
    · rw [k1]; trivial
  | panic c w' => trivial
  | abort => rw [hr] at hm; exact hm
  | fault f => trivial

/-! ## single-element operations: what exactly happens to the stored elements -/

/-- Overwriting the live slot `idx` (holding `old`) with `e'`. -/
theorem hs_elems_replace {t : Raw} {idx : Nat} {old : Elem}
    (ho : t.slots[idx]?.join = some old) (e' : Elem) :
    List.Perm (old :: Raw.elems { t with slots := t.slots.setIfInBounds idx (some e') })
      (e' :: t.elems) := by
  have hslot : t.slots[idx]? = some (some old) := ab_slot_eq ho
  have hidx : idx < t.slots.size := by
    by_contra hn
    rw [Array.getElem?_eq_none (by omega)] at hslot
    cases hslot
  have h1 : List.Perm (old :: Raw.elems { t with slots := t.slots.setIfInBounds idx none }) t.elems :=
    elems_take_perm (t' := { t with slots := t.slots.setIfInBounds idx none }) hslot rfl
  have h2 := elems_put (t := { t with slots := t.slots.setIfInBounds idx none }) (i := idx) e'
    (by show (t.slots.setIfInBounds idx none)[idx]? = some none
        rw [Array.getElem?_setIfInBounds, if_pos rfl, if_pos hidx])
  simp only [Array.setIfInBounds_setIfInBounds] at h2
  exact ((List.Perm.cons old h2).trans (List.Perm.swap e' old _)).trans (List.Perm.cons e' h1)

/-- `HashMap::insert`, exact accounting on `.ok`, reason for `.abort`. -/
theorem hs_insert_exact (hc : CfgOk cfg) (hp : ProbeCovers cfg) (env : Env) (e : Elem) (w : World)
    (h : TInv cfg w.t) :
    match Map.insert cfg env e w with
    | .ok (none, w') => List.Perm w'.t.elems (e :: w.t.elems) ∧ ∃ new, hs_AStep cfg w w' new
    | .ok (some (rv, _), w') =>
      ∃ old new w2, hs_AStep cfg w w2 new ∧ rv = old.vid ∧
        List.Perm (old :: w'.t.elems) ({ old with vid := e.vid, v := e.v } :: w.t.elems) ∧
        w'.t.mask = w2.t.mask ∧ w'.t.alloc = w2.t.alloc ∧
        w'.log = (if cfg.needsDrop then [Ev.dropK e.kid] else []) ++ w2.log
    | .panic _ _ => True
    | .abort => env.allocOk w.ac = false
    | .fault _ => True := by
  unfold Map.insert
  cases hh : env.hash w.hc e.k with
  | none =>
    simp only [ag_makeHash_none hh, bind, Res.bind, Res.onPanic]
  | some hv =>
    simp only [ag_makeHash_some hh, bind, Res.bind]
    have hf := findOrFindInsertSlot_spec hc hp env hv e.k { w with hc := w.hc + 1 } h
    have hm := hs_fofis_exact hc hp env hv e.k { w with hc := w.hc + 1 } h
    cases hr : findOrFindInsertSlot cfg env hv e.k { w with hc := w.hc + 1 } with
    | ok pr =>
      obtain ⟨r, w2⟩ := pr
      rw [hr] at hf hm
      obtain ⟨new, hm⟩ := hm
      have hm : hs_AStep cfg w w2 new := hm.congr_left rfl rfl
      cases r with
      | ok idx =>
        obtain ⟨a1, a2, a3, ⟨old, a4⟩, a5, a6, a7⟩ := hf
        simp only [pure, Res.onPanic, slotGet_ok a4]
        have hrep := hs_elems_replace a4 { old with vid := e.vid, v := e.v }
        obtain ⟨e', he'⟩ : ∃ e' : Elem, e' = { old with vid := e.vid, v := e.v } := ⟨_, rfl⟩
        rw [← he'] at hrep ⊢
        obtain ⟨t2, ht2⟩ : ∃ t2 : Raw,
            t2 = { w2.t with slots := w2.t.slots.setIfInBounds idx (some e') } := ⟨_, rfl⟩
        rw [← ht2] at hrep ⊢
        have hm2 : t2.mask = w2.t.mask := by rw [ht2]
        have ha2 : t2.alloc = w2.t.alloc := by rw [ht2]
        rcases ag_dropKeyR (cfg := cfg) env e.kid { w2 with t := t2 } with
          ⟨w3, d1, d2, d3⟩ | ⟨w3, d1, d2, d3⟩
        · rw [d1]
          refine ⟨old, new, w2, hm, rfl, ?_, by rw [d2]; exact hm2, by rw [d2]; exact ha2, d3⟩
          rw [d2, ← he']
          exact hrep.trans (List.Perm.cons e' a5)
        · rw [d1]; trivial
      | error slot =>
        obtain ⟨a1, a2, a3, a4, _, a6, a7, a8, a9⟩ := hf
        simp only [pure, Res.onPanic]
        obtain ⟨t', b1, b2, b3, b4, b5, b6, _, _⟩ := ag_insertInSlot hc a1 a6 a2 a3 a4 e hv
        simp only [b1]
        exact ⟨b6.trans (List.Perm.cons e a7), new, hm.congr rfl b3 (by rw [b4, a6])⟩
    | panic c w' => simp only [Res.onPanic]
    | abort =>
      rw [hr] at hm
      simp only [Res.onPanic]
      exact hm
    | fault f => simp only [Res.onPanic]

/-- `get_mut(k).map(|v| *v = nv)`: on `.ok` only a payload changed. -/
theorem hs_getMut_exact (hc : CfgOk cfg) (hp : ProbeCovers cfg) (env : Env) (k nv : Nat)
    (w : World) (h : TInv cfg w.t) :
    match Map.getMut cfg env k nv w with
    | .ok (_, w') => w'.log = w.log ∧ w'.t.mask = w.t.mask ∧
        List.Perm (w'.t.elems.map Elem.kid) (w.t.elems.map Elem.kid) ∧
        List.Perm (w'.t.elems.map Elem.vid) (w.t.elems.map Elem.vid)
    | .panic _ w' => w'.t = w.t ∧ w'.log = w.log
    | .abort => True
    | .fault _ => True := by
  unfold Map.getMut
  rcases ag_getInner hc hp env k w h.1 with ⟨r, w', k1, k2, k3, k4⟩ | ⟨c, w', k1, k2, k3, k4⟩
  · simp only [k1, bind, Res.bind]
    cases r with
    | none => exact ⟨k3, congrArg Raw.mask k2, by rw [k2], by rw [k2]⟩
    | some idx =>
      obtain ⟨_, _, x, hx⟩ := k4 idx rfl
      rw [← k2] at hx
      simp only [slotGet_ok hx, liftE, pure]
      have hrep := hs_elems_replace hx { x with v := nv }
      refine ⟨k3, congrArg Raw.mask k2, ?_, ?_⟩
      · have := hrep.map Elem.kid
        simp only [List.map_cons] at this
        rw [← k2]
        exact this.cons_inv
      · have := hrep.map Elem.vid
        simp only [List.map_cons] at this
        rw [← k2]
        exact this.cons_inv
  · simp only [k1, bind, Res.bind]
    exact ⟨k2, k3⟩

/-- `remove`: on `.ok (some (vid, _))` the returned value identity is that of the removed element,
    whose key was dropped. -/
theorem hs_remove_exact (hc : CfgOk cfg) (hp : ProbeCovers cfg) (env : Env) (k : Nat)
    (w : World) (h : TInv cfg w.t) :
    match Map.remove cfg env k w with
    | .ok (none, w') => w'.t = w.t ∧ w'.log = w.log
    | .ok (some (rv, _), w') =>
      ∃ x, rv = x.vid ∧ List.Perm (x :: w'.t.elems) w.t.elems ∧ w'.t.mask = w.t.mask ∧
        w'.log = (if cfg.needsDrop then [Ev.dropK x.kid] else []) ++ w.log
    | .panic _ _ => True
    | .abort => True
    | .fault _ => True := by
  unfold Map.remove
  have hre := Map.removeEntry_inv hc hp env k w h
  cases hr : Map.removeEntry cfg env k w with
  | ok pr =>
    obtain ⟨r, w1⟩ := pr
    rw [hr] at hre
    simp only [bind, Res.bind]
    cases r with
    | none => exact ⟨hre.1, hre.2.1⟩
    | some x =>
      obtain ⟨a1, a2, a3, a4, a5⟩ := hre
      rcases ag_dropKeyR (cfg := cfg) env x.kid w1 with ⟨w2, d1, d2, d3⟩ | ⟨w2, d1, d2, d3⟩
      · simp only [d1, pure]
        exact ⟨x, rfl, by rw [d2]; exact a4, by rw [d2]; exact a5, by rw [d3, a2]⟩
      · simp only [d1]
  | panic c w' => simp only [bind, Res.bind]
  | abort => simp only [bind, Res.bind]
  | fault f => simp only [bind, Res.bind]

/-- `try_reserve`. -/
theorem hs_tryReserve_exact (hc : CfgOk cfg) (hp : ProbeCovers cfg) (env : Env) (n : Nat)
    (w : World) (h : TInv cfg w.t) :
    match Map.tryReserve cfg env n w with
    | .ok (none, w') => ∃ new, hs_AStep cfg w w' new
    | .ok (some _, _) => True
    | .panic _ _ => True
    | .abort => True
    | .fault _ => True := by
  unfold Map.tryReserve Hb.tryReserve
  by_cases hgt : n > w.t.gl
  · rw [if_pos hgt]
    have hsp := hs_reserveRehash_exact hc hp env n .fallible w h (Or.inr (by omega))
    cases hr : reserveRehash cfg env n .fallible w with
    | ok pr =>
      obtain ⟨r, w'⟩ := pr
      rw [hr] at hsp
      simp only [bind, Res.bind]
      cases r with
      | ok u => cases u; exact hsp
      | error e => trivial
    | panic c w' => simp only [bind, Res.bind]
    | abort => simp only [bind, Res.bind]
    | fault f => simp only [bind, Res.bind]
  · rw [if_neg hgt]
    simp only [bind, Res.bind]
    exact ⟨[], hs_AStep.refl w⟩

/-- `shrink_to`: exact log on success, reason for `.abort`. -/
theorem hs_shrinkTo_exact (hc : CfgOk cfg) (hp : ProbeCovers cfg) (env : Env) (m : Nat) (w : World)
    (h : TInv cfg w.t) :
    match shrinkTo cfg env m w with
    | .ok w' => ∃ new, hs_AStep cfg w w' new
    | .panic _ _ => True
    | .abort => env.allocOk w.ac = false
    | .fault _ => True := by
  unfold shrinkTo
  simp only
  by_cases hz : max w.t.items m = 0
  · rw [if_pos hz]
    have hit : w.t.items = 0 := by omega
    rw [ag_dropInnerTable_empty h hit]
    exact ⟨freeEvs cfg w.t, rfl, Or.inr (Or.inr ⟨rfl, rfl⟩)⟩
  · rw [if_neg hz]
    cases hcb : capacityToBuckets cfg.bits cfg.W cfg.size (max w.t.items m) with
    | none => exact ⟨[], hs_AStep.refl w⟩
    | some mb =>
      simp only
      by_cases hlt : mb < w.t.buckets
      · rw [if_pos hlt]
        by_cases hit : w.t.items = 0
        · rw [if_pos hit]
          have hfw := fallibleWithCapacity_spec hc env (max w.t.items m) .infallible w
          cases hr : fallibleWithCapacity cfg env (max w.t.items m) .infallible w with
          | ok pr =>
            obtain ⟨r, w1⟩ := pr
            rw [hr] at hfw
            cases r with
            | ok new =>
              obtain ⟨a1, a2, a3, _, a5⟩ := hfw
              rw [if_neg hz] at a5
              obtain ⟨b1, _, _, _, _, _, l, hl, b8⟩ := a5
              have ht1 : w1.t = w.t := by rw [b8]
              simp only [ht1]
              rw [ag_dropInnerTable_empty h hit]
              refine ⟨freeEvs cfg w.t ++ [hs_allocEv cfg new], ?_, Or.inr (Or.inl ⟨b1, rfl⟩)⟩
              show freeEvs cfg w.t ++ w1.log = _
              rw [b8]
              simp only [hs_allocEv, layoutOf_eq hl, List.append_assoc, List.singleton_append]
            | error e => trivial
          | panic c w' => trivial
          | abort => rw [hr] at hfw; exact hfw.2.1
          | fault f => trivial
        · rw [if_neg hit]
          have hsp := resizeInner_post hc hp env (max w.t.items m) .infallible w h.1 h.2 (by omega)
          cases hr : resizeInner cfg env (max w.t.items m) .infallible w with
          | ok pr =>
            obtain ⟨r, w'⟩ := pr
            rw [hr] at hsp
            cases r with
            | ok u =>
              cases u
              obtain ⟨_, _, _, _, _, a6, _, _, a9, _⟩ := hsp
              rw [if_neg hz] at a6 a9
              exact ⟨_, a9, Or.inr (Or.inl ⟨a6.1, rfl⟩)⟩
            | error e => trivial
          | panic c w' => trivial
          | abort => rw [hr] at hsp; exact hsp.2
          | fault f => trivial
      · rw [if_neg hlt]
        exact ⟨[], hs_AStep.refl w⟩

/-! ## Part A — safety of every call, for every environment -/

/-- What every call guarantees, whatever the environment does: never `.fault`; the table is valid
    and `len` is the number of stored elements on return and after an unwind; `.abort` only when the
    allocator refused a request. -/
def hs_Safe (cfg : Cfg) (env : Env) (w : World) : Res (Ret × World) → Prop
  | .ok (_, w') => TInv cfg w'.t ∧ w'.t.items = w'.t.elems.length
  | .panic _ w' => TInv cfg w'.t ∧ w'.t.items = w'.t.elems.length
  | .abort => env.allocOk w.ac = false
  | .fault _ => False

theorem hs_good (hc : CfgOk cfg) {t : Raw} (h : TInv cfg t) :
    TInv cfg t ∧ t.items = t.elems.length := ⟨h, ag_items_eq_length hc h.1⟩

theorem hs_safe_insert (hc : CfgOk cfg) (hp : ProbeCovers cfg) (hg : GuardRuns cfg) (env : Env)
    (e : Elem) (w : World) (h : TInv cfg w.t) :
    hs_Safe cfg env w (Map.step cfg env (.insert e) w) := by
  have h1 := Map.insert_inv hc hp env e w h
  have h2 := hs_insert_exact hc hp env e w h
  simp only [Map.step]
  cases hr : Map.insert cfg env e w with
  | ok pr =>
    obtain ⟨r, w'⟩ := pr
    rw [hr] at h1
    cases r with
    | none => exact hs_good hc h1.1
    | some v => obtain ⟨a, b⟩ := v; exact hs_good hc h1.1
  | panic c w' => rw [hr] at h1; exact hs_good hc (h1.2 (fun _ => hg))
  | abort => rw [hr] at h2; exact h2
  | fault f => rw [hr] at h1; exact h1.elim

theorem hs_safe_get (hc : CfgOk cfg) (hp : ProbeCovers cfg) (env : Env)
    (k : Nat) (w : World) (h : TInv cfg w.t) :
    hs_Safe cfg env w (Map.step cfg env (.get k) w) := by
  have h1 := Map.get_inv hc hp env k w h
  simp only [Map.step]
  cases hr : Map.get cfg env k w with
  | ok pr => obtain ⟨r, w'⟩ := pr; rw [hr] at h1; exact hs_good hc h1.2.2.1
  | panic c w' => rw [hr] at h1; exact hs_good hc h1.2.2.2
  | abort => rw [hr] at h1; exact h1.elim
  | fault f => rw [hr] at h1; exact h1.elim

theorem hs_safe_getMut (hc : CfgOk cfg) (hp : ProbeCovers cfg) (env : Env)
    (k nv : Nat) (w : World) (h : TInv cfg w.t) :
    hs_Safe cfg env w (Map.step cfg env (.getMut k nv) w) := by
  have h1 := Map.getMut_inv hc hp env k nv w h
  simp only [Map.step]
  cases hr : Map.getMut cfg env k nv w with
  | ok pr => obtain ⟨r, w'⟩ := pr; rw [hr] at h1; exact hs_good hc h1.1
  | panic c w' => rw [hr] at h1; exact hs_good hc h1.2.2.2
  | abort => rw [hr] at h1; exact h1.elim
  | fault f => rw [hr] at h1; exact h1.elim

theorem hs_safe_remove (hc : CfgOk cfg) (hp : ProbeCovers cfg) (env : Env)
    (k : Nat) (w : World) (h : TInv cfg w.t) :
    hs_Safe cfg env w (Map.step cfg env (.remove k) w) := by
  have h1 := Map.remove_inv hc hp env k w h
  simp only [Map.step]
  cases hr : Map.remove cfg env k w with
  | ok pr =>
    obtain ⟨r, w'⟩ := pr
    rw [hr] at h1
    cases r with
    | none => exact hs_good hc h1.2.2
    | some v => exact hs_good hc h1.1
  | panic c w' =>
    rw [hr] at h1
    rcases h1 with ⟨_, _, _, a⟩ | ⟨_, a, _⟩
    · exact hs_good hc a
    · exact hs_good hc a
  | abort => rw [hr] at h1; exact h1.elim
  | fault f => rw [hr] at h1; exact h1.elim

theorem hs_safe_removeEntry (hc : CfgOk cfg) (hp : ProbeCovers cfg) (env : Env)
    (k : Nat) (w : World) (h : TInv cfg w.t) :
    hs_Safe cfg env w (Map.step cfg env (.removeEntry k) w) := by
  have h1 := Map.removeEntry_inv hc hp env k w h
  simp only [Map.step]
  cases hr : Map.removeEntry cfg env k w with
  | ok pr =>
    obtain ⟨r, w'⟩ := pr
    rw [hr] at h1
    cases r with
    | none => exact hs_good hc h1.2.2
    | some v => exact hs_good hc h1.1
  | panic c w' => rw [hr] at h1; exact hs_good hc h1.2.2.2
  | abort => rw [hr] at h1; exact h1.elim
  | fault f => rw [hr] at h1; exact h1.elim

theorem hs_safe_clear (hc : CfgOk cfg) (env : Env) (w : World) (h : TInv cfg w.t) :
    hs_Safe cfg env w (Map.step cfg env .clear w) := by
  have h1 := clear_spec hc env w h
  simp only [Map.step]
  cases hr : Hb.clear cfg env w with
  | ok w' => rw [hr] at h1; exact hs_good hc h1.1.1
  | panic c w' => rw [hr] at h1; exact hs_good hc h1.2.1.1
  | abort => rw [hr] at h1; exact h1.elim
  | fault f => rw [hr] at h1; exact h1.elim

theorem hs_safe_reserve (hc : CfgOk cfg) (hp : ProbeCovers cfg) (hg : GuardRuns cfg) (env : Env)
    (n : Nat) (w : World) (h : TInv cfg w.t) :
    hs_Safe cfg env w (Map.step cfg env (.reserve n) w) := by
  have h1 := reserve_spec hc hp env n w h
  have h2 := hs_reserve_exact hc hp env n w h
  simp only [Map.step, Map.reserve_eq]
  cases hr : Hb.reserve cfg env n w with
  | ok w' => rw [hr] at h1; exact hs_good hc h1.1
  | panic c w' =>
    rw [hr] at h1
    rcases h1 with ⟨_, a⟩ | ⟨_, _, a⟩
    · rw [a]; exact hs_good hc h
    · exact hs_good hc (a hg).1
  | abort => rw [hr] at h2; exact h2
  | fault f => rw [hr] at h1; exact h1.elim

theorem hs_safe_tryReserve (hc : CfgOk cfg) (hp : ProbeCovers cfg) (hg : GuardRuns cfg) (env : Env)
    (n : Nat) (w : World) (h : TInv cfg w.t) :
    hs_Safe cfg env w (Map.step cfg env (.tryReserve n) w) := by
  have h1 := Map.tryReserve_spec hc hp env n w h
  simp only [Map.step]
  cases hr : Map.tryReserve cfg env n w with
  | ok pr =>
    obtain ⟨r, w'⟩ := pr
    rw [hr] at h1
    cases r with
    | none => exact hs_good hc h1.1
    | some v =>
      have : w'.t = w.t := h1.1
      show TInv cfg w'.t ∧ w'.t.items = w'.t.elems.length
      rw [this]; exact hs_good hc h
  | panic c w' => rw [hr] at h1; exact hs_good hc (h1.2.2 hg).1
  | abort => rw [hr] at h1; exact h1.elim
  | fault f => rw [hr] at h1; exact h1.elim

theorem hs_safe_shrinkTo (hc : CfgOk cfg) (hp : ProbeCovers cfg) (env : Env)
    (m : Nat) (w : World) (h : TInv cfg w.t) :
    hs_Safe cfg env w (Map.step cfg env (.shrinkTo m) w) := by
  have h1 := shrinkTo_spec hc hp env m w h
  have h2 := hs_shrinkTo_exact hc hp env m w h
  simp only [Map.step]
  cases hr : Hb.shrinkTo cfg env m w with
  | ok w' => rw [hr] at h1; exact hs_good hc h1.1
  | panic c w' => rw [hr] at h1; exact hs_good hc h1.2.2
  | abort => rw [hr] at h2; exact h2
  | fault f => rw [hr] at h1; exact h1.elim

theorem hs_safe_retain (hc : CfgOk cfg) (env : Env) (w : World) (h : TInv cfg w.t) :
    hs_Safe cfg env w (Map.step cfg env .retain w) := by
  have h1 := retain_spec hc env w h
  simp only [Map.step]
  cases hr : Map.retain cfg env w with
  | ok w' => rw [hr] at h1; exact hs_good hc h1.1
  | panic c w' => rw [hr] at h1; exact hs_good hc h1.1
  | abort => rw [hr] at h1; exact h1.elim
  | fault f => rw [hr] at h1; exact h1.elim

theorem hs_safe_extractIf (hc : CfgOk cfg) (env : Env) (n : Nat) (w : World) (h : TInv cfg w.t) :
    hs_Safe cfg env w (Map.step cfg env (.extractIf n) w) := by
  have h1 := extractIf_spec hc env n w h
  simp only [Map.step]
  cases hr : Map.extractIf cfg env n w with
  | ok pr => obtain ⟨r, w'⟩ := pr; rw [hr] at h1; exact hs_good hc h1.1
  | panic c w' => rw [hr] at h1; exact hs_good hc h1.2.1
  | abort => rw [hr] at h1; exact h1.elim
  | fault f => rw [hr] at h1; exact h1.elim

theorem hs_safe_drain (hc : CfgOk cfg) (env : Env) (n : Nat) (fg : Bool) (w : World)
    (h : TInv cfg w.t) :
    hs_Safe cfg env w (Map.step cfg env (.drain n fg) w) := by
  have h1 := drain_spec hc env n fg w h
  simp only [Map.step]
  cases hr : Map.drain cfg env n fg w with
  | ok pr =>
    obtain ⟨r, w'⟩ := pr
    rw [hr] at h1
    show TInv cfg w'.t ∧ w'.t.items = w'.t.elems.length
    cases fg with
    | true =>
      rw [h1.2.2.1 rfl]
      exact hs_good hc (TInv.new hc)
    | false => exact hs_good hc (h1.2.2.2 rfl).1.2.1
  | panic c w' =>
    rw [hr] at h1
    show TInv cfg w'.t ∧ w'.t.items = w'.t.elems.length
    rw [h1.2.2.1]
    exact hs_good hc (TInv.new hc)
  | abort => rw [hr] at h1; exact h1.elim
  | fault f => rw [hr] at h1; exact h1.elim

/-- The observation made by `.iter p`: the first `p` stored elements, in bucket order. -/
theorem hs_step_iter (hc : CfgOk cfg) (env : Env) (p : Nat) (w : World) (h : Inv cfg w.t) :
    Map.step cfg env (.iter p) w = .ok (.elems (w.t.elems.take p), w) := by
  simp only [Map.step, iterObserve_spec hc h p]
  have : (w.t.fullList.take p).filterMap (fun i => w.t.slots[i]?.join) =
      (w.t.fullList.take p).map (ab_elem w.t) :=
    ab_filterMap_eq_map _ _ _ (fun i hi => h.ab_full hc (List.mem_of_mem_take hi))
  rw [this, ab_elems_map hc h, List.map_take]

theorem hs_safe_iter (hc : CfgOk cfg) (env : Env) (p : Nat) (w : World) (h : TInv cfg w.t) :
    hs_Safe cfg env w (Map.step cfg env (.iter p) w) := by
  rw [hs_step_iter hc env p w h.1]
  exact hs_good hc h

theorem hs_step_safe (hc : CfgOk cfg) (hg : GuardRuns cfg) (env : Env) (op : MapOp) (w : World)
    (h : TInv cfg w.t) : hs_Safe cfg env w (Map.step cfg env op w) := by
  have hp := probe_covers cfg hc.spec.width
  cases op with
  | insert e => exact hs_safe_insert hc hp hg env e w h
  | get k => exact hs_safe_get hc hp env k w h
  | getMut k nv => exact hs_safe_getMut hc hp env k nv w h
  | remove k => exact hs_safe_remove hc hp env k w h
  | removeEntry k => exact hs_safe_removeEntry hc hp env k w h
  | clear => exact hs_safe_clear hc env w h
  | reserve n => exact hs_safe_reserve hc hp hg env n w h
  | tryReserve n => exact hs_safe_tryReserve hc hp hg env n w h
  | shrinkTo m => exact hs_safe_shrinkTo hc hp env m w h
  | retain => exact hs_safe_retain hc env w h
  | extractIf n => exact hs_safe_extractIf hc env n w h
  | drain n fg => exact hs_safe_drain hc env n fg w h
  | iter p => exact hs_safe_iter hc env p w h

/-- **A1.** One call of the safe API, from any valid table, for EVERY environment (`Hash`/`Eq`/
    predicate answers arbitrary and call-number dependent, any callback or destructor may panic, the
    allocator may refuse): never `.fault` (no out-of-range control-byte access, no read of a dead
    slot, no write over a live slot, no `unwrap_unchecked(None)`, no underflow, no loop running out
    of fuel); on return AND after an unwind the table is valid and `len` is the number of stored
    elements; `.abort` (`handle_alloc_error`) only if the allocator refused request number `w.ac`. -/
theorem step_safe (hc : CfgOk cfg) (hg : GuardRuns cfg) (env : Env) (op : MapOp) (w : World)
    (h : TInv cfg w.t) :
    match Map.step cfg env op w with
    | .ok (_, w') => TInv cfg w'.t ∧ w'.t.items = w'.t.elems.length
    | .panic _ w' => TInv cfg w'.t ∧ w'.t.items = w'.t.elems.length
    | .abort => env.allocOk w.ac = false
    | .fault _ => False := by
  have := hs_step_safe hc hg env op w h
  generalize Map.step cfg env op w = r at this ⊢
  match r, this with
  | .ok (_, _), h => exact h
  | .panic _ _, h => exact h
  | .abort, h => exact h
  | .fault _, h => exact h

/-- Histories from any valid table. -/
theorem hs_run_inv (hc : CfgOk cfg) (hg : GuardRuns cfg) (env : Env) :
    ∀ (ops : List MapOp) (w : World), TInv cfg w.t →
      Map.runFaults cfg env ops w = false ∧
      (∀ obs wf, Map.run cfg env ops w = some (obs, wf) →
        TInv cfg wf.t ∧ wf.t.items = wf.t.elems.length) ∧
      ((∀ j, env.allocOk j = true) → ∃ obs wf, Map.run cfg env ops w = some (obs, wf)) := by
  intro ops
  induction ops with
  | nil =>
    intro w h
    refine ⟨rfl, ?_, fun _ => ⟨[], w, rfl⟩⟩
    intro obs wf hr
    simp only [Map.run, Option.some.injEq, Prod.mk.injEq] at hr
    rw [← hr.2]; exact hs_good hc h
  | cons op rest ih =>
    intro w h
    have hs := hs_step_safe hc hg env op w h
    cases hr : Map.step cfg env op w with
    | ok pr =>
      obtain ⟨r, w'⟩ := pr
      rw [hr] at hs
      obtain ⟨i1, i2, i3⟩ := ih w' hs.1
      simp only [Map.run, Map.runFaults, hr]
      refine ⟨i1, ?_, ?_⟩
      · intro obs wf hrun
        obtain ⟨⟨os, wf'⟩, h1, h2⟩ := Option.map_eq_some_iff.1 hrun
        simp only [Prod.mk.injEq] at h2
        rw [← h2.2]; exact i2 os wf' h1
      · intro ha
        obtain ⟨os, wf, h1⟩ := i3 ha
        exact ⟨_, _, by rw [h1]; rfl⟩
    | panic c w' =>
      rw [hr] at hs
      obtain ⟨i1, i2, i3⟩ := ih w' hs.1
      simp only [Map.run, Map.runFaults, hr]
      refine ⟨i1, ?_, ?_⟩
      · intro obs wf hrun
        obtain ⟨⟨os, wf'⟩, h1, h2⟩ := Option.map_eq_some_iff.1 hrun
        simp only [Prod.mk.injEq] at h2
        rw [← h2.2]; exact i2 os wf' h1
      · intro ha
        obtain ⟨os, wf, h1⟩ := i3 ha
        exact ⟨_, _, by rw [h1]; rfl⟩
    | abort =>
      rw [hr] at hs
      have hs' : env.allocOk w.ac = false := hs
      refine ⟨by simp only [Map.runFaults, hr], fun obs wf hn => ?_, fun ha => ?_⟩
      · simp [Map.run, hr] at hn
      · rw [ha] at hs'; cases hs'
    | fault f => rw [hr] at hs; exact hs.elim

/-- **A2.** Every history of safe-API calls on a fresh collection, for EVERY environment: no call
    reaches undefined behaviour; whenever the history runs to its end (panics are caught and the
    history goes on) the table is valid and `len` is the number of stored elements; the history is
    cut short only by `handle_alloc_error`, i.e. never if the allocator never refuses. -/
theorem run_safe (hc : CfgOk cfg) (hg : GuardRuns cfg) (env : Env) (ops : List MapOp) (w0 : World)
    (h0 : w0.t = Raw.new cfg.W) :
    Map.runFaults cfg env ops w0 = false ∧
    (∀ obs w, Map.run cfg env ops w0 = some (obs, w) →
      TInv cfg w.t ∧ w.t.items = w.t.elems.length) ∧
    ((∀ j, env.allocOk j = true) → ∃ obs w, Map.run cfg env ops w0 = some (obs, w)) :=
  hs_run_inv hc hg env ops w0 (by rw [h0]; exact TInv.new hc)

/-- **A3.** In every valid state `len()` is exactly the number of elements an iteration yields
    (`fullList` = the buckets an iterator visits; `.iter p` observes the first `p` of them) and the
    number a complete `drain` hands out — whatever `Hash`/`Eq` did before. -/
theorem iteration_counts_len (hc : CfgOk cfg) (env : Env) (w : World) (h : TInv cfg w.t) :
    w.t.fullList.length = w.t.items ∧ w.t.elems.length = w.t.items ∧
    (∀ p, Map.step cfg env (.iter p) w = .ok (.elems (w.t.elems.take p), w) ∧
      (w.t.items ≤ p → (w.t.elems.take p).length = w.t.items)) ∧
    (∀ k fg out w', Map.drain cfg env k fg w = .ok (out, w') →
      out = w.t.elems.take k ∧ out.length = min k w.t.items ∧ (w.t.items ≤ k → out.length = w.t.items)) := by
  have hl := ab_elems_length hc h.1
  refine ⟨fullList_length hc h.1, hl, fun p => ⟨hs_step_iter hc env p w h.1, fun hp => ?_⟩, ?_⟩
  · rw [List.length_take, hl]; omega
  · intro k fg out w' hd
    have := drain_spec hc env k fg w h
    rw [hd] at this
    exact ⟨this.1, this.2.1, fun hk => by rw [this.2.1]; omega⟩

/-- **A4.** Every loop of the model carries explicit fuel and ends in `.fault` when it runs out
    ("… does not terminate", "probe sequence exhausted …"); `step_safe` shows that never happens.
    Named corollary for look-ups: `find` on ANY valid table — e.g. an absent key in a table whose
    every non-full bucket is a tombstone — with ANY `Eq` returns or propagates the panic of `Eq`. -/
theorem every_call_terminates (hc : CfgOk cfg) (hg : GuardRuns cfg) (env : Env) :
    (∀ op w, TInv cfg w.t → ∀ f, Map.step cfg env op w ≠ .fault f) ∧
    (∀ hash q w, Inv cfg w.t →
      (∃ r w', find cfg env hash q w = .ok (r, w') ∧ w'.t = w.t ∧ w'.log = w.log ∧ w'.hc = w.hc ∧
        ∀ idx, r = some idx → idx < w.t.buckets ∧ isFull (w.t.ctrlAt idx) = true ∧
          ∃ e, w.t.slots[idx]?.join = some e) ∨
      (∃ w', find cfg env hash q w = .panic "eq" w' ∧ w'.t = w.t ∧ w'.log = w.log)) := by
  refine ⟨fun op w h f hf => ?_, fun hash q w h =>
    find_total hc (probe_covers cfg hc.spec.width) env hash q w h⟩
  have := hs_step_safe hc hg env op w h
  rw [hf] at this
  exact this

/-- A drain that is `mem::forget`-ed part-way: the call returns the elements taken so far and the
    collection is the valid empty singleton (the table moved into the drain is leaked, not freed). -/
theorem hs_drain_forget (hc : CfgOk cfg) (env : Env) (k : Nat) (w : World) (h : TInv cfg w.t) :
    Map.step cfg env (.drain k true) w =
      .ok (.elems (w.t.elems.take k), { w with t := Raw.new cfg.W }) := by
  have h1 := drain_spec hc env k true w h
  simp only [Map.step]
  cases hr : Map.drain cfg env k true w with
  | ok pr =>
    obtain ⟨out, w'⟩ := pr
    rw [hr] at h1
    simp only [h1.1, h1.2.2.1 rfl]
  | panic c w' => rw [hr] at h1; exact absurd h1.2.1 (by decide)
  | abort => rw [hr] at h1; exact h1.elim
  | fault f => rw [hr] at h1; exact h1.elim

/-- The alignment of the control bytes is a power of two and a multiple of the element alignment,
    when the element alignment is a power of two (as for every Rust type). -/
theorem hs_ctrlAlign_ok (hc : CfgOk cfg) {a : Nat} (hal : cfg.align = 2 ^ a) :
    (∃ b, ctrlAlignOf cfg = 2 ^ b) ∧ ctrlAlignOf cfg % cfg.align = 0 := by
  unfold ctrlAlignOf tableLayoutNew
  simp only
  by_cases hgt : cfg.align > cfg.W
  · rw [if_pos hgt]
    exact ⟨⟨a, hal⟩, Nat.mod_self _⟩
  · rw [if_neg hgt]
    rcases hc.W_cases with hW | hW
    · refine ⟨⟨3, by rw [hW]; rfl⟩, ?_⟩
      rw [hW, hal] at hgt ⊢
      have ha3 : a ≤ 3 := by
        by_contra hn
        have : 2 ^ 4 ≤ 2 ^ a := Nat.pow_le_pow_right (by decide) (by omega)
        omega
      exact Nat.mod_eq_zero_of_dvd (Nat.pow_dvd_pow 2 ha3)
    · refine ⟨⟨4, by rw [hW]; rfl⟩, ?_⟩
      rw [hW, hal] at hgt ⊢
      have ha4 : a ≤ 4 := by
        by_contra hn
        have : 2 ^ 5 ≤ 2 ^ a := Nat.pow_le_pow_right (by decide) (by omega)
        omega
      exact Nat.mod_eq_zero_of_dvd (Nat.pow_dvd_pow 2 ha4)

/-! ## Part B — ledger of object identities and allocator blocks -/

/-- Identities of the key objects / value objects of a list of elements. -/
def kidsOf (l : List Elem) : List Nat := l.map Elem.kid
def vidsOf (l : List Elem) : List Nat := l.map Elem.vid

/-- Key objects / value objects whose destructor the collection ran, as recorded in a log. -/
def droppedK : List Ev → List Nat
  | [] => []
  | .dropK k :: r => k :: droppedK r
  | .dropV _ :: r => droppedK r
  | .alloc _ _ :: r => droppedK r
  | .free _ _ :: r => droppedK r

def droppedV : List Ev → List Nat
  | [] => []
  | .dropV v :: r => v :: droppedV r
  | .dropK _ :: r => droppedV r
  | .alloc _ _ :: r => droppedV r
  | .free _ _ :: r => droppedV r

/-- Key / value objects passed into the collection by a history. -/
def insertedK : List MapOp → List Nat
  | [] => []
  | .insert e :: r => e.kid :: insertedK r
  | _ :: r => insertedK r

def insertedV : List MapOp → List Nat
  | [] => []
  | .insert e :: r => e.vid :: insertedV r
  | _ :: r => insertedV r

/-- Key objects handed back to the caller BY VALUE by call `op` returning `r` (`get`/`get_mut`/
    `iter` return references: nothing changes hands). -/
def hs_retK (op : MapOp) (r : Ret) : List Nat :=
  match op, r with
  | .removeEntry _, .elem (some e) => [e.kid]
  | .extractIf _, .elems l => kidsOf l
  | .drain _ _, .elems l => kidsOf l
  | _, _ => []

/-- Value objects handed back to the caller by value: the old value of an overwriting `insert`, the
    value of `remove`, the pair of `remove_entry`, the elements yielded by `extract_if` / `drain`. -/
def hs_retV (op : MapOp) (r : Ret) : List Nat :=
  match op, r with
  | .insert _, .val (some (vid, _)) => [vid]
  | .remove _, .val (some (vid, _)) => [vid]
  | .removeEntry _, .elem (some e) => [e.vid]
  | .extractIf _, .elems l => vidsOf l
  | .drain _ _, .elems l => vidsOf l
  | _, _ => []

def returnedK : List (MapOp × Map.Obs) → List Nat
  | [] => []
  | (op, .ret r) :: rest => hs_retK op r ++ returnedK rest
  | (_, .panic _) :: rest => returnedK rest

def returnedV : List (MapOp × Map.Obs) → List Nat
  | [] => []
  | (op, .ret r) :: rest => hs_retV op r ++ returnedV rest
  | (_, .panic _) :: rest => returnedV rest

/-- Blocks obtained from the allocator and not yet returned (the log is newest-first, so the
    recursion processes the events oldest-first: add on `alloc`, erase on `free`). -/
def liveBlocks : List Ev → List (Nat × Nat)
  | [] => []
  | .alloc s a :: r => (s, a) :: liveBlocks r
  | .free s a :: r => (liveBlocks r).erase (s, a)
  | .dropK _ :: r => liveBlocks r
  | .dropV _ :: r => liveBlocks r

/-- Every `free` returns a block that was live at that moment, with the layout it was requested
    with (no double free, no free of a foreign block, no layout mismatch). -/
def freesMatched : List Ev → Prop
  | [] => True
  | .free s a :: r => (s, a) ∈ liveBlocks r ∧ freesMatched r
  | .alloc _ _ :: r => freesMatched r
  | .dropK _ :: r => freesMatched r
  | .dropV _ :: r => freesMatched r

/-- The block owned by table `t` (none for the static singleton). -/
def hs_blockOf (cfg : Cfg) (t : Raw) : List (Nat × Nat) :=
  if t.alloc = true then [((layoutOf cfg t.buckets).size, (layoutOf cfg t.buckets).align)] else []

/-- Allocator invariant of a history: all frees matched, and the only live block is the table's. -/
def hs_AllocInv (cfg : Cfg) (w : World) : Prop :=
  freesMatched w.log ∧ liveBlocks w.log = hs_blockOf cfg w.t

/-- Log entries that are destructor calls only. -/
def hs_DropOnly (l : List Ev) : Prop := ∀ ev ∈ l, ∃ n, ev = .dropK n ∨ ev = .dropV n

theorem hs_droppedK_append (a b : List Ev) : droppedK (a ++ b) = droppedK a ++ droppedK b := by
  induction a with
  | nil => rfl
  | cons ev r ih => cases ev <;> simp [droppedK, ih]

theorem hs_droppedV_append (a b : List Ev) : droppedV (a ++ b) = droppedV a ++ droppedV b := by
  induction a with
  | nil => rfl
  | cons ev r ih => cases ev <;> simp [droppedV, ih]

theorem hs_dropped_dropEvs (hnd : cfg.needsDrop = true) (ds : List Elem) :
    droppedK (dropEvs cfg ds) = kidsOf ds ∧ droppedV (dropEvs cfg ds) = vidsOf ds := by
  unfold dropEvs
  rw [if_pos hnd]
  induction ds with
  | nil => exact ⟨rfl, rfl⟩
  | cons e r ih =>
    simp only [List.flatMap_cons, hs_droppedK_append, hs_droppedV_append, ih.1, ih.2]
    exact ⟨rfl, rfl⟩

theorem hs_dropOnly_dropEvs (ds : List Elem) : hs_DropOnly (dropEvs cfg ds) := by
  unfold dropEvs
  split
  · intro ev hev
    simp only [List.mem_flatMap, List.mem_cons, List.not_mem_nil, or_false] at hev
    obtain ⟨e, _, h | h⟩ := hev
    · exact ⟨_, Or.inr h⟩
    · exact ⟨_, Or.inl h⟩
  · intro ev hev; cases hev

theorem hs_dropOnly_key (c : Bool) (kid : Nat) :
    hs_DropOnly (if c then [Ev.dropK kid] else []) := by
  intro ev hev
  split at hev
  · rw [List.mem_singleton] at hev; exact ⟨_, Or.inl hev⟩
  · cases hev

/-- Destructor events are invisible to the allocator ledger. -/
theorem hs_alloc_dropOnly {ds : List Ev} (h : hs_DropOnly ds) (l : List Ev) :
    liveBlocks (ds ++ l) = liveBlocks l ∧ (freesMatched (ds ++ l) ↔ freesMatched l) := by
  induction ds with
  | nil => exact ⟨rfl, Iff.rfl⟩
  | cons ev r ih =>
    have ihr := ih (fun x hx => h x (List.mem_cons_of_mem _ hx))
    obtain ⟨n, hn | hn⟩ := h ev List.mem_cons_self
    · subst hn; exact ihr
    · subst hn; exact ihr

theorem hs_dropped_freeEvs (t : Raw) : droppedK (freeEvs cfg t) = [] ∧ droppedV (freeEvs cfg t) = [] := by
  unfold freeEvs
  split <;> exact ⟨rfl, rfl⟩

/-- An allocator step logs no destructor call. -/
theorem hs_AStep.dropped {w w' : World} {new : List Ev} (h : hs_AStep cfg w w' new) :
    droppedK new = [] ∧ droppedV new = [] := by
  rcases h.2 with ⟨a, _⟩ | ⟨_, a⟩ | ⟨_, a⟩
  · rw [a]; exact ⟨rfl, rfl⟩
  · rw [a, hs_droppedK_append, hs_droppedV_append, (hs_dropped_freeEvs w.t).1,
      (hs_dropped_freeEvs w.t).2]
    exact ⟨rfl, rfl⟩
  · rw [a]; exact hs_dropped_freeEvs w.t

/-- `blockOf` only depends on the bucket mask for valid tables. -/
theorem hs_blockOf_congr {t t' : Raw} (h : Inv cfg t) (h' : Inv cfg t') (hm : t'.mask = t.mask) :
    hs_blockOf cfg t' = hs_blockOf cfg t := by
  unfold hs_blockOf
  rw [ag_alloc_eq h h' hm]
  simp only [Raw.buckets, hm]

/-- Destructor calls on the same block keep the allocator invariant. -/
theorem hs_allocInv_drops {w w' : World} {ds : List Ev} (h : Inv cfg w.t) (h' : Inv cfg w'.t)
    (hl : w'.log = ds ++ w.log) (hd : hs_DropOnly ds) (hm : w'.t.mask = w.t.mask)
    (ha : hs_AllocInv cfg w) : hs_AllocInv cfg w' := by
  unfold hs_AllocInv at ha ⊢
  obtain ⟨e1, e2⟩ := hs_alloc_dropOnly hd w.log
  rw [hl, e1, e2, hs_blockOf_congr h h' hm]
  exact ha

/-- An allocator step keeps the allocator invariant. -/
theorem hs_allocInv_astep {w w' : World} {new : List Ev} (h : Inv cfg w.t) (h' : Inv cfg w'.t)
    (hs : hs_AStep cfg w w' new) (ha : hs_AllocInv cfg w) : hs_AllocInv cfg w' := by
  obtain ⟨hl, hcase⟩ := hs
  obtain ⟨a1, a2⟩ := ha
  unfold hs_AllocInv
  rcases hcase with ⟨hn, hm⟩ | ⟨hal, hn⟩ | ⟨hal, hn⟩
  · rw [hl, hn, List.nil_append, hs_blockOf_congr h h' hm]
    exact ⟨a1, a2⟩
  · rw [hl, hn]
    have hb' : hs_blockOf cfg w'.t =
        [((layoutOf cfg w'.t.buckets).size, (layoutOf cfg w'.t.buckets).align)] := by
      unfold hs_blockOf; rw [if_pos hal]
    rw [hb']
    unfold freeEvs
    cases hwa : w.t.alloc with
    | false =>
      have hb : hs_blockOf cfg w.t = [] := by unfold hs_blockOf; rw [hwa]; rfl
      simp only [Bool.false_eq_true, if_false, List.nil_append, List.singleton_append, hs_allocEv,
        freesMatched, liveBlocks, a2, hb]
      exact ⟨a1, trivial⟩
    | true =>
      have hb : hs_blockOf cfg w.t =
          [((layoutOf cfg w.t.buckets).size, (layoutOf cfg w.t.buckets).align)] := by
        unfold hs_blockOf; rw [if_pos hwa]
      simp only [if_true, List.cons_append, List.nil_append, hs_allocEv,
        freesMatched, liveBlocks, a2, hb]
      refine ⟨⟨by simp, a1⟩, ?_⟩
      by_cases heq : ((layoutOf cfg w'.t.buckets).size, (layoutOf cfg w'.t.buckets).align) =
          ((layoutOf cfg w.t.buckets).size, (layoutOf cfg w.t.buckets).align)
      · rw [heq]; simp
      · rw [List.erase_cons_tail (by simpa using heq)]
        simp
  · rw [hl, hn]
    have hb' : hs_blockOf cfg w'.t = [] := by unfold hs_blockOf; rw [hal]; rfl
    rw [hb']
    unfold freeEvs
    cases hwa : w.t.alloc with
    | false =>
      have hb : hs_blockOf cfg w.t = [] := by unfold hs_blockOf; rw [hwa]; rfl
      simp only [Bool.false_eq_true, if_false, List.nil_append, a2, hb]
      exact ⟨a1, trivial⟩
    | true =>
      have hb : hs_blockOf cfg w.t =
          [((layoutOf cfg w.t.buckets).size, (layoutOf cfg w.t.buckets).align)] := by
        unfold hs_blockOf; rw [if_pos hwa]
      simp only [if_true, List.singleton_append, freesMatched, liveBlocks, a2, hb]
      exact ⟨⟨by simp, a1⟩, by simp⟩

/-! ### the bucket mask under erase-while-iterating (`retain`, `extract_if`) -/

theorem hs_ctrlWr_mask {t t' : Raw} {i c : Nat} (h : ctrlWr t i c = .ok t') : t'.mask = t.mask := by
  unfold ctrlWr at h
  split at h
  · cases h
  · split at h
    · cases h; rfl
    · cases h

theorem hs_setCtrl_mask {t t' : Raw} {i c : Nat} (h : setCtrl cfg t i c = .ok t') :
    t'.mask = t.mask := by
  unfold setCtrl at h
  simp only at h
  split at h
  · cases h
  · rename_i t1 h1
    exact (hs_ctrlWr_mask h).trans (hs_ctrlWr_mask h1)

theorem hs_erase_mask {t t' : Raw} {i : Nat} (h : erase cfg t i = .ok t') : t'.mask = t.mask := by
  unfold erase at h
  simp only at h
  split at h
  · cases h
  · cases h
  · split at h
    · cases h
    · split at h
      · split at h
        · cases h
        · rename_i t1 h1
          cases h
          exact hs_setCtrl_mask (t' := t1) h1
      · split at h
        · cases h
        · rename_i t1 h1
          cases h
          have := hs_setCtrl_mask h1
          exact this

theorem hs_slotTake_mask {t t' : Raw} {i : Nat} {e : Elem} (h : slotTake t i = .ok (e, t')) :
    t'.mask = t.mask := by
  unfold slotTake at h
  split at h
  · cases h; rfl
  · cases h
  · cases h

theorem hs_removeAt_mask {t t' : Raw} {i : Nat} {e : Elem} (h : removeAt cfg t i = .ok (e, t')) :
    t'.mask = t.mask := by
  unfold removeAt at h
  split at h
  · cases h
  · split at h
    · cases h
    · split at h
      · cases h
      · rename_i t1 h1
        exact (hs_slotTake_mask h).trans (hs_erase_mask h1)

theorem hs_retainLoop_mask (env : Env) : ∀ (fuel : Nat) (it : RawIter) (w w' : World),
    Map.retainLoop cfg env fuel it w = .ok w' → w'.t.mask = w.t.mask := by
  intro fuel
  induction fuel with
  | zero => intro it w w' h; simp [Map.retainLoop] at h
  | succ n ih =>
    intro it w w' h
    rw [Map.retainLoop] at h
    split at h
    · cases h
    · cases h; rfl
    · split at h
      · cases h
      · split at h
        · cases h
        · rename_i keep nv hpred
          simp only at h
          split at h
          · have := ih _ _ _ h
            exact this
          · split at h
            · cases h
            · rename_i x t2 hrm
              have hm2 := hs_removeAt_mask hrm
              have hd := (ab_dropElem (cfg := cfg) env x
                { t := t2, hc := w.hc, ec := w.ec, cc := w.cc, pc := w.pc + 1, ac := w.ac,
                  dc := w.dc, log := w.log }).1
              split at h
              · cases h
              · have := ih _ _ _ h
                rw [this, hd]
                exact hm2

theorem hs_retain_mask (env : Env) {w w' : World} (h : Map.retain cfg env w = .ok w') :
    w'.t.mask = w.t.mask := by
  unfold Map.retain at h
  split at h
  · cases h
  · exact hs_retainLoop_mask env _ _ _ _ h

theorem hs_extractNext_mask (env : Env) : ∀ (fuel : Nat) (it it' : RawIter) (w w' : World)
    (r : Option Elem), Map.extractNext cfg env fuel it w = .ok (r, it', w') →
    w'.t.mask = w.t.mask := by
  intro fuel
  induction fuel with
  | zero => intro it it' w w' r h; simp [Map.extractNext] at h
  | succ n ih =>
    intro it it' w w' r h
    rw [Map.extractNext] at h
    split at h
    · cases h
    · cases h; rfl
    · split at h
      · cases h
      · split at h
        · cases h
        · simp only at h
          split at h
          · split at h
            · cases h
            · rename_i x t2 hrm
              have hm2 := hs_removeAt_mask hrm
              cases h
              exact hm2
          · have := ih _ _ _ _ _ h
            exact this

theorem hs_extractIfLoop_mask (env : Env) : ∀ (k : Nat) (it : RawIter) (w w' : World)
    (acc out : List Elem), Map.extractIfLoop cfg env k it w acc = .ok (out, w') →
    w'.t.mask = w.t.mask := by
  intro k
  induction k with
  | zero => intro it w w' acc out h; simp only [Map.extractIfLoop] at h; cases h; rfl
  | succ n ih =>
    intro it w w' acc out h
    rw [Map.extractIfLoop] at h
    split at h
    · rename_i it1 w1 hn
      cases h
      exact hs_extractNext_mask env _ _ _ _ _ _ hn
    · rename_i x it1 w1 hn
      exact (ih _ _ _ _ _ h).trans (hs_extractNext_mask env _ _ _ _ _ _ hn)
    · cases h
    · cases h
    · cases h

theorem hs_extractIf_mask (env : Env) {k : Nat} {w w' : World} {out : List Elem}
    (h : Map.extractIf cfg env k w = .ok (out, w')) : w'.t.mask = w.t.mask := by
  unfold Map.extractIf at h
  split at h
  · cases h
  · exact hs_extractIfLoop_mask env _ _ _ _ _ _ h

/-! ### B1. one call -/

/-- Ledger of one returned call `op ↦ r` taking `w` to `w'`: with `new` the log entries it wrote,
    every key object (resp. value object) that was stored before or was passed in is afterwards in
    exactly one of: the table, the destructor log of this call, the return value; and the allocator
    invariant is kept. -/
def hs_Ledger (cfg : Cfg) (op : MapOp) (r : Ret) (w w' : World) : Prop :=
  ∃ new, w'.log = new ++ w.log ∧
    List.Perm (kidsOf w'.t.elems ++ droppedK new ++ hs_retK op r)
      (kidsOf w.t.elems ++ insertedK [op]) ∧
    List.Perm (vidsOf w'.t.elems ++ droppedV new ++ hs_retV op r)
      (vidsOf w.t.elems ++ insertedV [op]) ∧
    (hs_AllocInv cfg w → hs_AllocInv cfg w')

/-- Calls that only permute the stored elements and (possibly) move the block. -/
theorem hs_ledger_perm {op : MapOp} {r : Ret} {w w' : World} {new : List Ev}
    (h : TInv cfg w.t) (h' : TInv cfg w'.t)
    (hK : hs_retK op r = []) (hV : hs_retV op r = [])
    (hiK : insertedK [op] = []) (hiV : insertedV [op] = [])
    (hperm : List.Perm w'.t.elems w.t.elems) (hA : hs_AStep cfg w w' new) :
    hs_Ledger cfg op r w w' := by
  refine ⟨new, hA.1, ?_, ?_, hs_allocInv_astep h.1 h'.1 hA⟩
  · rw [hK, hiK, hA.dropped.1]
    simp only [List.append_nil]
    exact hperm.map Elem.kid
  · rw [hV, hiV, hA.dropped.2]
    simp only [List.append_nil]
    exact hperm.map Elem.vid

theorem hs_ledger_insert (hc : CfgOk cfg) (hp : ProbeCovers cfg) (hnd : cfg.needsDrop = true)
    (env : Env) (e : Elem) (w : World) (h : TInv cfg w.t) {r : Ret} {w' : World}
    (hs : Map.step cfg env (.insert e) w = .ok (r, w')) (h' : TInv cfg w'.t) :
    hs_Ledger cfg (.insert e) r w w' := by
  have h2 := hs_insert_exact hc hp env e w h
  simp only [Map.step] at hs
  split at hs
  · rename_i r0 w0 hr
    cases hs
    rw [hr] at h2
    cases r0 with
    | none =>
      obtain ⟨hperm, new, hA⟩ := h2
      refine ⟨new, hA.1, ?_, ?_, hs_allocInv_astep h.1 h'.1 hA⟩
      · rw [hA.dropped.1]
        simp only [hs_retK, insertedK, List.append_nil]
        exact (hperm.map Elem.kid).trans (List.perm_append_singleton _ _).symm
      · rw [hA.dropped.2]
        simp only [hs_retV, insertedV, List.append_nil]
        exact (hperm.map Elem.vid).trans (List.perm_append_singleton _ _).symm
    | some v =>
      obtain ⟨rv, pl⟩ := v
      obtain ⟨old, new, w2, hA, hrv, hperm, hm, ha, hlog⟩ := h2
      rw [if_pos hnd] at hlog
      refine ⟨[Ev.dropK e.kid] ++ new, by rw [hlog, hA.1, List.append_assoc], ?_, ?_, ?_⟩
      · rw [hs_droppedK_append, hA.dropped.1]
        simp only [hs_retK, insertedK, droppedK, List.append_nil]
        have := hperm.map Elem.kid
        simp only [List.map_cons] at this
        exact List.Perm.append_right _ this.cons_inv
      · rw [hs_droppedV_append, hA.dropped.2]
        simp only [hs_retV, insertedV, droppedV, List.append_nil]
        have := hperm.map Elem.vid
        simp only [List.map_cons] at this
        rw [hrv]
        exact (List.perm_append_singleton _ _).trans
          (this.trans (List.perm_append_singleton _ _).symm)
      · intro hai
        have hA' : hs_AStep cfg w { w' with log := w2.log } new := hA.congr rfl hm ha
        have h1 := hs_allocInv_astep (w' := { w' with log := w2.log }) h.1 h'.1 hA' hai
        exact hs_allocInv_drops (w := { w' with log := w2.log }) (ds := [Ev.dropK e.kid]) h'.1 h'.1
          hlog (fun ev hev => ⟨e.kid, Or.inl (List.mem_singleton.1 hev)⟩) rfl h1
  all_goals cases hs

theorem hs_ledger_get (hc : CfgOk cfg) (hp : ProbeCovers cfg)
    (env : Env) (k : Nat) (w : World) (h : TInv cfg w.t) {r : Ret} {w' : World}
    (hs : Map.step cfg env (.get k) w = .ok (r, w')) (h' : TInv cfg w'.t) :
    hs_Ledger cfg (.get k) r w w' := by
  have h2 := Map.get_inv hc hp env k w h
  simp only [Map.step] at hs
  split at hs
  · rename_i r0 w0 hr
    cases hs
    rw [hr] at h2
    exact hs_ledger_perm h h' rfl rfl rfl rfl (by rw [h2.1])
      ((hs_AStep.refl w).congr h2.2.1 (by rw [h2.1]) (by rw [h2.1]))
  all_goals cases hs

theorem hs_ledger_getMut (hc : CfgOk cfg) (hp : ProbeCovers cfg)
    (env : Env) (k nv : Nat) (w : World) (h : TInv cfg w.t) {r : Ret} {w' : World}
    (hs : Map.step cfg env (.getMut k nv) w = .ok (r, w')) (h' : TInv cfg w'.t) :
    hs_Ledger cfg (.getMut k nv) r w w' := by
  have h2 := hs_getMut_exact hc hp env k nv w h
  simp only [Map.step] at hs
  split at hs
  · rename_i r0 w0 hr
    cases hs
    rw [hr] at h2
    obtain ⟨hl, hm, hk, hv⟩ := h2
    have hA : hs_AStep cfg w w' [] :=
      (hs_AStep.refl w).congr hl hm (ag_alloc_eq h.1 h'.1 hm)
    refine ⟨[], hA.1, ?_, ?_, hs_allocInv_astep h.1 h'.1 hA⟩
    · simpa [hs_retK, insertedK, droppedK, kidsOf] using hk
    · simpa [hs_retV, insertedV, droppedV, vidsOf] using hv
  all_goals cases hs

theorem hs_ledger_remove (hc : CfgOk cfg) (hp : ProbeCovers cfg) (hnd : cfg.needsDrop = true)
    (env : Env) (k : Nat) (w : World) (h : TInv cfg w.t) {r : Ret} {w' : World}
    (hs : Map.step cfg env (.remove k) w = .ok (r, w')) (h' : TInv cfg w'.t) :
    hs_Ledger cfg (.remove k) r w w' := by
  have h2 := hs_remove_exact hc hp env k w h
  simp only [Map.step] at hs
  split at hs
  · rename_i r0 w0 hr
    cases hs
    rw [hr] at h2
    cases r0 with
    | none =>
      exact hs_ledger_perm h h' rfl rfl rfl rfl (by rw [h2.1])
        ((hs_AStep.refl w).congr h2.2 (by rw [h2.1]) (by rw [h2.1]))
    | some v =>
      obtain ⟨rv, pl⟩ := v
      obtain ⟨x, hrv, hperm, hm, hlog⟩ := h2
      rw [if_pos hnd] at hlog
      refine ⟨[Ev.dropK x.kid], hlog, ?_, ?_, ?_⟩
      · simp only [hs_retK, insertedK, droppedK, List.append_nil]
        have := hperm.map Elem.kid
        simp only [List.map_cons] at this
        exact (List.perm_append_singleton _ _).trans this
      · simp only [hs_retV, insertedV, droppedV, List.append_nil]
        have := hperm.map Elem.vid
        simp only [List.map_cons] at this
        rw [hrv]
        exact (List.perm_append_singleton _ _).trans this
      · exact hs_allocInv_drops h.1 h'.1 hlog
          (fun ev hev => ⟨x.kid, Or.inl (List.mem_singleton.1 hev)⟩) hm
  all_goals cases hs

theorem hs_ledger_removeEntry (hc : CfgOk cfg) (hp : ProbeCovers cfg)
    (env : Env) (k : Nat) (w : World) (h : TInv cfg w.t) {r : Ret} {w' : World}
    (hs : Map.step cfg env (.removeEntry k) w = .ok (r, w')) (h' : TInv cfg w'.t) :
    hs_Ledger cfg (.removeEntry k) r w w' := by
  have h2 := Map.removeEntry_inv hc hp env k w h
  simp only [Map.step] at hs
  split at hs
  · rename_i r0 w0 hr
    cases hs
    rw [hr] at h2
    cases r0 with
    | none =>
      exact hs_ledger_perm h h' rfl rfl rfl rfl (by rw [h2.1])
        ((hs_AStep.refl w).congr h2.2.1 (by rw [h2.1]) (by rw [h2.1]))
    | some x =>
      obtain ⟨_, hlog, _, hperm, hm⟩ := h2
      have hA : hs_AStep cfg w w' [] :=
        (hs_AStep.refl w).congr hlog hm (ag_alloc_eq h.1 h'.1 hm)
      refine ⟨[], hA.1, ?_, ?_, hs_allocInv_astep h.1 h'.1 hA⟩
      · simp only [hs_retK, insertedK, droppedK, List.append_nil]
        have := hperm.map Elem.kid
        simp only [List.map_cons] at this
        exact (List.perm_append_singleton _ _).trans this
      · simp only [hs_retV, insertedV, droppedV, List.append_nil]
        have := hperm.map Elem.vid
        simp only [List.map_cons] at this
        exact (List.perm_append_singleton _ _).trans this
  all_goals cases hs

theorem hs_retain_split (env : Env) (l : List Elem) (pc : Nat)
    (hlen : (retainKept env pc l).length + (retainDropped env pc l).length = l.length) :
    List.Perm (kidsOf (retainKept env pc l) ++ kidsOf (retainDropped env pc l)) (kidsOf l) ∧
    List.Perm (vidsOf (retainKept env pc l) ++ vidsOf (retainDropped env pc l)) (vidsOf l) := by
  have hp := retain_partition env l pc hlen
  constructor
  · have := hp.map (fun p => p.2.1)
    simpa [kidsOf, List.map_map, Function.comp_def, ab_ident] using this
  · have := hp.map (fun p => p.2.2)
    simpa [vidsOf, List.map_map, Function.comp_def, ab_ident] using this

theorem hs_ledger_clear (hc : CfgOk cfg) (hnd : cfg.needsDrop = true)
    (env : Env) (w : World) (h : TInv cfg w.t) {r : Ret} {w' : World}
    (hs : Map.step cfg env .clear w = .ok (r, w')) (h' : TInv cfg w'.t) :
    hs_Ledger cfg .clear r w w' := by
  have h2 := clear_spec hc env w h
  simp only [Map.step] at hs
  split at hs
  · rename_i w0 hr
    cases hs
    rw [hr] at h2
    obtain ⟨⟨_, _, hel, hm, _⟩, hdr⟩ := h2
    obtain ⟨dk, dv⟩ := hs_dropped_dropEvs hnd w.t.elems.reverse
    refine ⟨dropEvs cfg w.t.elems.reverse, hdr.log, ?_, ?_,
      hs_allocInv_drops h.1 h'.1 hdr.log (hs_dropOnly_dropEvs _) hm⟩
    · rw [hel, dk]
      simp only [hs_retK, insertedK, kidsOf, List.map_nil, List.nil_append, List.append_nil]
      exact (List.reverse_perm _).map _
    · rw [hel, dv]
      simp only [hs_retV, insertedV, vidsOf, List.map_nil, List.nil_append, List.append_nil]
      exact (List.reverse_perm _).map _
  all_goals cases hs

theorem hs_ledger_reserve (hc : CfgOk cfg) (hp : ProbeCovers cfg)
    (env : Env) (n : Nat) (w : World) (h : TInv cfg w.t) {r : Ret} {w' : World}
    (hs : Map.step cfg env (.reserve n) w = .ok (r, w')) (h' : TInv cfg w'.t) :
    hs_Ledger cfg (.reserve n) r w w' := by
  have h1 := reserve_spec hc hp env n w h
  have h2 := hs_reserve_exact hc hp env n w h
  simp only [Map.step, Map.reserve_eq] at hs
  split at hs
  · rename_i w0 hr
    cases hs
    rw [hr] at h1 h2
    obtain ⟨new, hA⟩ := h2
    exact hs_ledger_perm h h' rfl rfl rfl rfl h1.2.2.1 hA
  all_goals cases hs

theorem hs_ledger_tryReserve (hc : CfgOk cfg) (hp : ProbeCovers cfg)
    (env : Env) (n : Nat) (w : World) (h : TInv cfg w.t) {r : Ret} {w' : World}
    (hs : Map.step cfg env (.tryReserve n) w = .ok (r, w')) (h' : TInv cfg w'.t) :
    hs_Ledger cfg (.tryReserve n) r w w' := by
  have h1 := Map.tryReserve_spec hc hp env n w h
  have h2 := hs_tryReserve_exact hc hp env n w h
  simp only [Map.step] at hs
  split at hs
  · rename_i r0 w0 hr
    cases hs
    rw [hr] at h1 h2
    cases r0 with
    | none =>
      obtain ⟨new, hA⟩ := h2
      exact hs_ledger_perm h h' rfl rfl rfl rfl h1.2.2.1 hA
    | some e =>
      exact hs_ledger_perm h h' rfl rfl rfl rfl (by rw [h1.1])
        ((hs_AStep.refl w).congr h1.2.1 (by rw [h1.1]) (by rw [h1.1]))
  all_goals cases hs

theorem hs_ledger_shrinkTo (hc : CfgOk cfg) (hp : ProbeCovers cfg)
    (env : Env) (m : Nat) (w : World) (h : TInv cfg w.t) {r : Ret} {w' : World}
    (hs : Map.step cfg env (.shrinkTo m) w = .ok (r, w')) (h' : TInv cfg w'.t) :
    hs_Ledger cfg (.shrinkTo m) r w w' := by
  have h1 := shrinkTo_spec hc hp env m w h
  have h2 := hs_shrinkTo_exact hc hp env m w h
  simp only [Map.step] at hs
  split at hs
  · rename_i w0 hr
    cases hs
    rw [hr] at h1 h2
    obtain ⟨new, hA⟩ := h2
    exact hs_ledger_perm h h' rfl rfl rfl rfl h1.2.1 hA
  all_goals cases hs

theorem hs_ledger_retain (hc : CfgOk cfg) (hnd : cfg.needsDrop = true)
    (env : Env) (w : World) (h : TInv cfg w.t) {r : Ret} {w' : World}
    (hs : Map.step cfg env .retain w = .ok (r, w')) (h' : TInv cfg w'.t) :
    hs_Ledger cfg .retain r w w' := by
  have h2 := retain_spec hc env w h
  simp only [Map.step] at hs
  split at hs
  · rename_i w0 hr
    cases hs
    rw [hr] at h2
    obtain ⟨_, hel, _, hlog, hlen⟩ := h2
    have hm := hs_retain_mask env hr
    obtain ⟨dk, dv⟩ := hs_dropped_dropEvs hnd (retainDropped env w.pc w.t.elems).reverse
    obtain ⟨sk, sv⟩ := hs_retain_split env w.t.elems w.pc (by rw [hlen, ab_elems_length hc h.1])
    refine ⟨_, hlog, ?_, ?_, hs_allocInv_drops h.1 h'.1 hlog (hs_dropOnly_dropEvs _) hm⟩
    · rw [hel, dk]
      simp only [hs_retK, insertedK, List.append_nil]
      exact (List.Perm.append_left _ ((List.reverse_perm _).map _)).trans sk
    · rw [hel, dv]
      simp only [hs_retV, insertedV, List.append_nil]
      exact (List.Perm.append_left _ ((List.reverse_perm _).map _)).trans sv
  all_goals cases hs

theorem hs_ledger_extractIf (hc : CfgOk cfg)
    (env : Env) (k : Nat) (w : World) (h : TInv cfg w.t) {r : Ret} {w' : World}
    (hs : Map.step cfg env (.extractIf k) w = .ok (r, w')) (h' : TInv cfg w'.t) :
    hs_Ledger cfg (.extractIf k) r w w' := by
  have h2 := extractIf_spec hc env k w h
  simp only [Map.step] at hs
  split at hs
  · rename_i out w0 hr
    cases hs
    rw [hr] at h2
    obtain ⟨_, hlog, n, hn, hout, hel, _, hlen, _, _⟩ := h2
    have hm := hs_extractIf_mask env hr
    have hA : hs_AStep cfg w w' [] :=
      (hs_AStep.refl w).congr hlog hm (ag_alloc_eq h.1 h'.1 hm)
    have hl := ab_elems_length hc h.1
    obtain ⟨sk, sv⟩ := hs_retain_split env (w.t.elems.take n) w.pc
      (by rw [← hout, hlen, List.length_take, hl]; omega)
    have htd : w.t.elems.take n ++ w.t.elems.drop n = w.t.elems := List.take_append_drop _ _
    refine ⟨[], hA.1, ?_, ?_, hs_allocInv_astep h.1 h'.1 hA⟩
    · simp only [hs_retK, insertedK, droppedK, List.append_nil]
      rw [hel, hout]
      have : kidsOf w.t.elems = kidsOf (w.t.elems.take n) ++ kidsOf (w.t.elems.drop n) := by
        rw [kidsOf, kidsOf, kidsOf, ← List.map_append, htd]
      rw [this, kidsOf, List.map_append]
      refine List.perm_append_comm.trans ?_
      rw [← List.append_assoc]
      exact List.Perm.append_right _ sk
    · simp only [hs_retV, insertedV, droppedV, List.append_nil]
      rw [hel, hout]
      have : vidsOf w.t.elems = vidsOf (w.t.elems.take n) ++ vidsOf (w.t.elems.drop n) := by
        rw [vidsOf, vidsOf, vidsOf, ← List.map_append, htd]
      rw [this, vidsOf, List.map_append]
      refine List.perm_append_comm.trans ?_
      rw [← List.append_assoc]
      exact List.Perm.append_right _ sv
  all_goals cases hs

theorem hs_ledger_drain (hc : CfgOk cfg) (hnd : cfg.needsDrop = true)
    (env : Env) (k : Nat) (w : World) (h : TInv cfg w.t) {r : Ret} {w' : World}
    (hs : Map.step cfg env (.drain k false) w = .ok (r, w')) (h' : TInv cfg w'.t) :
    hs_Ledger cfg (.drain k false) r w w' := by
  have h2 := drain_spec hc env k false w h
  simp only [Map.step] at hs
  split at hs
  · rename_i out w0 hr
    cases hs
    rw [hr] at h2
    obtain ⟨hout, _, _, hrest⟩ := h2
    obtain ⟨hem, hdr⟩ := hrest rfl
    obtain ⟨_, _, _, hel, hm, _⟩ := hem
    obtain ⟨dk, dv⟩ := hs_dropped_dropEvs hnd (w.t.elems.drop k).reverse
    have htd : w.t.elems.take k ++ w.t.elems.drop k = w.t.elems := List.take_append_drop _ _
    refine ⟨_, hdr.log, ?_, ?_, hs_allocInv_drops h.1 h'.1 hdr.log (hs_dropOnly_dropEvs _) hm⟩
    · rw [hel, dk, hout]
      simp only [hs_retK, insertedK, kidsOf, List.map_nil, List.nil_append, List.append_nil]
      refine List.perm_append_comm.trans ?_
      have e1 : List.map Elem.kid w.t.elems =
          List.map Elem.kid (w.t.elems.take k) ++ List.map Elem.kid (w.t.elems.drop k) := by
        rw [← List.map_append, htd]
      rw [e1]
      exact List.Perm.append_left _ ((List.reverse_perm _).map _)
    · rw [hel, dv, hout]
      simp only [hs_retV, insertedV, vidsOf, List.map_nil, List.nil_append, List.append_nil]
      refine List.perm_append_comm.trans ?_
      have e1 : List.map Elem.vid w.t.elems =
          List.map Elem.vid (w.t.elems.take k) ++ List.map Elem.vid (w.t.elems.drop k) := by
        rw [← List.map_append, htd]
      rw [e1]
      exact List.Perm.append_left _ ((List.reverse_perm _).map _)
  all_goals cases hs

theorem hs_ledger_iter (hc : CfgOk cfg)
    (env : Env) (p : Nat) (w : World) (h : TInv cfg w.t) {r : Ret} {w' : World}
    (hs : Map.step cfg env (.iter p) w = .ok (r, w')) :
    hs_Ledger cfg (.iter p) r w w' := by
  rw [hs_step_iter hc env p w h.1] at hs
  cases hs
  exact hs_ledger_perm h h rfl rfl rfl rfl (List.Perm.refl _) (hs_AStep.refl w)

/-- **B1.** One returned call (element type with drop glue, so that destructor calls are logged;
    any call except a `mem::forget`-ed drain; ANY environment — a call that returns has not been
    unwound by a callback): with `new` the log entries written by the call, every key object and
    every value object that was stored before the call or was passed in by it is afterwards in
    exactly one of {the table, dropped by the collection (once), returned to the caller}; and the
    allocator invariant (all frees matched, the only live block is the table's own) is kept. -/
theorem step_ledger (hc : CfgOk cfg) (hnd : cfg.needsDrop = true) (env : Env) (op : MapOp)
    (w : World) (h : TInv cfg w.t) (hop : ∀ n, op ≠ .drain n true) {r : Ret} {w' : World}
    (hs : Map.step cfg env op w = .ok (r, w')) :
    ∃ new, w'.log = new ++ w.log ∧
      List.Perm (kidsOf w'.t.elems ++ droppedK new ++ hs_retK op r)
        (kidsOf w.t.elems ++ insertedK [op]) ∧
      List.Perm (vidsOf w'.t.elems ++ droppedV new ++ hs_retV op r)
        (vidsOf w.t.elems ++ insertedV [op]) ∧
      (hs_AllocInv cfg w → hs_AllocInv cfg w') := by
  have hp := probe_covers cfg hc.spec.width
  have h' : TInv cfg w'.t := by
    have := hs_step_safe hc (Or.inl hnd) env op w h
    rw [hs] at this
    exact this.1
  cases op with
  | insert e => exact hs_ledger_insert hc hp hnd env e w h hs h'
  | get k => exact hs_ledger_get hc hp env k w h hs h'
  | getMut k nv => exact hs_ledger_getMut hc hp env k nv w h hs h'
  | remove k => exact hs_ledger_remove hc hp hnd env k w h hs h'
  | removeEntry k => exact hs_ledger_removeEntry hc hp env k w h hs h'
  | clear => exact hs_ledger_clear hc hnd env w h hs h'
  | reserve n => exact hs_ledger_reserve hc hp env n w h hs h'
  | tryReserve n => exact hs_ledger_tryReserve hc hp env n w h hs h'
  | shrinkTo m => exact hs_ledger_shrinkTo hc hp env m w h hs h'
  | retain => exact hs_ledger_retain hc hnd env w h hs h'
  | extractIf n => exact hs_ledger_extractIf hc env n w h hs h'
  | drain n fg =>
    cases fg with
    | true => exact absurd rfl (hop n)
    | false => exact hs_ledger_drain hc hnd env n w h hs h'
  | iter p => exact hs_ledger_iter hc env p w h hs

/-! ### B2. histories -/

/-- No call of the history is a `mem::forget`-ed drain. -/
def hs_NoForget (ops : List MapOp) : Prop := ∀ op ∈ ops, ∀ n, op ≠ .drain n true

theorem hs_insertedK_cons (op : MapOp) (rest : List MapOp) :
    insertedK (op :: rest) = insertedK [op] ++ insertedK rest := by
  cases op <;> simp [insertedK]

theorem hs_insertedV_cons (op : MapOp) (rest : List MapOp) :
    insertedV (op :: rest) = insertedV [op] ++ insertedV rest := by
  cases op <;> simp [insertedV]

/-- Gluing the ledger of the first call to the ledger of the rest of the history. -/
theorem hs_perm_glue {a b1 b2 c1 c2 m z i1 i2 : List Nat}
    (P1 : (m ++ b1 ++ c1).Perm (z ++ i1)) (P2 : (a ++ b2 ++ c2).Perm (m ++ i2)) :
    (a ++ (b2 ++ b1) ++ (c1 ++ c2)).Perm (z ++ (i1 ++ i2)) := by
  rw [List.perm_iff_count] at *
  intro x
  have h1 := P1 x
  have h2 := P2 x
  simp only [List.count_append] at *
  omega

/-- Ledger of a history from any valid table (`new` = the log entries the history wrote). -/
theorem hs_run_ledger (hc : CfgOk cfg) (hnd : cfg.needsDrop = true) (env : Env) :
    ∀ (ops : List MapOp) (w wf : World) (obs : List Map.Obs), TInv cfg w.t → hs_NoForget ops →
      Map.run cfg env ops w = some (obs, wf) → (∀ o ∈ obs, ∃ r, o = .ret r) →
      ∃ new, wf.log = new ++ w.log ∧
        List.Perm (kidsOf wf.t.elems ++ droppedK new ++ returnedK (ops.zip obs))
          (kidsOf w.t.elems ++ insertedK ops) ∧
        List.Perm (vidsOf wf.t.elems ++ droppedV new ++ returnedV (ops.zip obs))
          (vidsOf w.t.elems ++ insertedV ops) ∧
        (hs_AllocInv cfg w → hs_AllocInv cfg wf) ∧ TInv cfg wf.t := by
  intro ops
  induction ops with
  | nil =>
    intro w wf obs h _ hrun _
    simp only [Map.run, Option.some.injEq, Prod.mk.injEq] at hrun
    obtain ⟨h1, h2⟩ := hrun
    subst h1 h2
    exact ⟨[], rfl, by simp [droppedK, returnedK, insertedK],
      by simp [droppedV, returnedV, insertedV], fun x => x, h⟩
  | cons op rest ih =>
    intro w wf obs h hnf hrun hret
    have hop : ∀ n, op ≠ .drain n true := hnf op List.mem_cons_self
    have hnf' : hs_NoForget rest := fun o ho => hnf o (List.mem_cons_of_mem _ ho)
    cases hr : Map.step cfg env op w with
    | ok pr =>
      obtain ⟨r, w1⟩ := pr
      simp only [Map.run, hr] at hrun
      obtain ⟨⟨os, wf'⟩, h1, h2⟩ := Option.map_eq_some_iff.1 hrun
      simp only [Prod.mk.injEq] at h2
      obtain ⟨h2a, h2b⟩ := h2
      subst h2a h2b
      obtain ⟨new1, l1, k1, v1, a1⟩ := step_ledger hc hnd env op w h hop hr
      have h1' : TInv cfg w1.t := by
        have := hs_step_safe hc (Or.inl hnd) env op w h
        rw [hr] at this
        exact this.1
      obtain ⟨new2, l2, k2, v2, a2, t2⟩ := ih w1 wf' os h1' hnf' h1
        (fun o ho => hret o (List.mem_cons_of_mem _ ho))
      refine ⟨new2 ++ new1, by rw [l2, l1, List.append_assoc], ?_, ?_, fun x => a2 (a1 x), t2⟩
      · rw [hs_droppedK_append, hs_insertedK_cons]
        simp only [List.zip_cons_cons, returnedK]
        exact hs_perm_glue k1 k2
      · rw [hs_droppedV_append, hs_insertedV_cons]
        simp only [List.zip_cons_cons, returnedV]
        exact hs_perm_glue v1 v2
    | panic c w1 =>
      simp only [Map.run, hr] at hrun
      obtain ⟨⟨os, wf'⟩, h1, h2⟩ := Option.map_eq_some_iff.1 hrun
      simp only [Prod.mk.injEq] at h2
      obtain ⟨r, hr'⟩ := hret (.panic c) (by rw [← h2.1]; exact List.mem_cons_self)
      cases hr'
    | abort => simp [Map.run, hr] at hrun
    | fault f => simp [Map.run, hr] at hrun

theorem hs_allocInv_new (w0 : World) (h0 : w0.t = Raw.new cfg.W) (hl0 : w0.log = []) :
    hs_AllocInv cfg w0 := by
  unfold hs_AllocInv hs_blockOf
  rw [hl0, h0]
  exact ⟨trivial, rfl⟩

/-- **B2.** Every history on a fresh collection (drop glue, no forgotten drain) that runs to its end
    without an observed panic: every key object and every value object that was passed in is in
    exactly one of {still stored, dropped by the collection exactly once, returned to the caller
    exactly once}; all frees are matched and the only live block is the table's own. -/
theorem run_ledger (hc : CfgOk cfg) (hnd : cfg.needsDrop = true) (env : Env) (ops : List MapOp)
    (w0 : World) (h0 : w0.t = Raw.new cfg.W) (hl0 : w0.log = []) (hnf : hs_NoForget ops)
    {obs : List Map.Obs} {wf : World} (hrun : Map.run cfg env ops w0 = some (obs, wf))
    (hret : ∀ o ∈ obs, ∃ r, o = .ret r) :
    List.Perm (kidsOf wf.t.elems ++ droppedK wf.log ++ returnedK (ops.zip obs)) (insertedK ops) ∧
    List.Perm (vidsOf wf.t.elems ++ droppedV wf.log ++ returnedV (ops.zip obs)) (insertedV ops) ∧
    hs_AllocInv cfg wf ∧ TInv cfg wf.t := by
  have hel : w0.t.elems = [] := by rw [h0]; rfl
  obtain ⟨new, l, k, v, a, t⟩ := hs_run_ledger hc hnd env ops w0 wf obs
    (by rw [h0]; exact TInv.new hc) hnf hrun hret
  rw [hl0, List.append_nil] at l
  rw [hel] at k v
  rw [l]
  exact ⟨by simpa [kidsOf] using k, by simpa [vidsOf] using v, a (hs_allocInv_new w0 h0 hl0), t⟩

/-- **B2, drop of the collection.** After additionally dropping the collection (destructors do not
    panic): nothing is stored any more; every inserted key / value object was dropped exactly once
    or returned exactly once; the allocator log is balanced: nothing remains allocated and every
    `free` returned a block that was live, with the layout it was requested with. -/
theorem dropAll_ledger (hc : CfgOk cfg) (hnd : cfg.needsDrop = true) (env : Env)
    (hdp : ∀ c e, env.dropPanics c e = false) (ops : List MapOp)
    (w0 : World) (h0 : w0.t = Raw.new cfg.W) (hl0 : w0.log = []) (hnf : hs_NoForget ops)
    {obs : List Map.Obs} {wf : World} (hrun : Map.run cfg env ops w0 = some (obs, wf))
    (hret : ∀ o ∈ obs, ∃ r, o = .ret r) :
    ∃ wd, dropInnerTable cfg env wf.t { wf with t := Raw.new cfg.W } = .ok wd ∧
      wd.t = Raw.new cfg.W ∧
      List.Perm (droppedK wd.log ++ returnedK (ops.zip obs)) (insertedK ops) ∧
      List.Perm (droppedV wd.log ++ returnedV (ops.zip obs)) (insertedV ops) ∧
      liveBlocks wd.log = [] ∧ freesMatched wd.log := by
  obtain ⟨k, v, a, t⟩ := run_ledger hc hnd env ops w0 h0 hl0 hnf hrun hret
  have hsp := dropInnerTable_spec hc env wf.t { wf with t := Raw.new cfg.W } t
  cases hr : dropInnerTable cfg env wf.t { wf with t := Raw.new cfg.W } with
  | ok wd =>
    rw [hr] at hsp
    obtain ⟨ht, hlog, _⟩ := hsp
    have hlog' : wd.log = freeEvs cfg wf.t ++ (dropEvs cfg wf.t.elems.reverse ++ wf.log) := by
      rw [hlog, List.append_assoc]; rfl
    obtain ⟨dk, dv⟩ := hs_dropped_dropEvs hnd wf.t.elems.reverse
    refine ⟨wd, rfl, ht, ?_, ?_, ?_⟩
    · rw [hlog', hs_droppedK_append, hs_droppedK_append, (hs_dropped_freeEvs wf.t).1, dk,
        List.nil_append]
      exact (List.Perm.append_right _ (List.Perm.append_right _
        ((List.reverse_perm _).map Elem.kid))).trans k
    · rw [hlog', hs_droppedV_append, hs_droppedV_append, (hs_dropped_freeEvs wf.t).2, dv,
        List.nil_append]
      exact (List.Perm.append_right _ (List.Perm.append_right _
        ((List.reverse_perm _).map Elem.vid))).trans v
    · have a1 : hs_AllocInv cfg { wf with log := dropEvs cfg wf.t.elems.reverse ++ wf.log } :=
        hs_allocInv_drops (w := wf) t.1 t.1 rfl (hs_dropOnly_dropEvs _) rfl a
      have hA : hs_AStep cfg { wf with log := dropEvs cfg wf.t.elems.reverse ++ wf.log } wd
          (freeEvs cfg wf.t) :=
        ⟨hlog', Or.inr (Or.inr ⟨by rw [ht]; rfl, rfl⟩)⟩
      have a2 := hs_allocInv_astep
        (w := { wf with log := dropEvs cfg wf.t.elems.reverse ++ wf.log }) (w' := wd) t.1
        (by rw [ht]; exact (TInv.new hc).1) hA a1
      obtain ⟨f, l⟩ := a2
      refine ⟨?_, f⟩
      rw [l, ht]; rfl
  | panic c w' =>
    rw [hr] at hsp
    obtain ⟨_, _, _, _, ds, e, rest, _, _, hp⟩ := hsp
    rw [hdp] at hp; cases hp
  | abort => rw [hr] at hsp; exact hsp.elim
  | fault f => rw [hr] at hsp; exact hsp.elim

/-- With pairwise distinct identities, the three parts of a ledger are pairwise disjoint and free
    of repetitions. -/
theorem hs_nodup_parts {a b c i : List Nat} (h : (a ++ b ++ c).Perm i) (hn : i.Nodup) :
    a.Nodup ∧ b.Nodup ∧ c.Nodup ∧ (∀ x ∈ c, x ∉ b ∧ x ∉ a) ∧ (∀ x ∈ b, x ∉ a) := by
  have hnd := h.nodup_iff.2 hn
  obtain ⟨h1, h2, h3⟩ := List.nodup_append.1 hnd
  obtain ⟨h4, h5, h6⟩ := List.nodup_append.1 h1
  refine ⟨h4, h5, h2, fun x hx => ⟨fun hb => ?_, fun ha => ?_⟩, fun x hx ha => h6 x ha x hx rfl⟩
  · exact h3 x (List.mem_append_right _ hb) x hx rfl
  · exact h3 x (List.mem_append_left _ ha) x hx rfl

/-! ### a collection that was never given an element or a capacity -/

/-- Look-ups, removals, bulk removals and iteration (no `insert`, no `reserve`). -/
def hs_QueryOp : MapOp → Prop
  | .get _ => True
  | .getMut _ _ => True
  | .remove _ => True
  | .removeEntry _ => True
  | .clear => True
  | .retain => True
  | .extractIf _ => True
  | .drain _ _ => True
  | .iter _ => True
  | _ => False

theorem hs_eq_new_of_mask {t : Raw} (h : Inv cfg t) (hm : t.mask = 0) : t = Raw.new cfg.W := by
  have hse := h.isEmptySingleton_eq
  have ha : t.alloc = false := by
    simp only [Raw.isEmptySingleton, hm] at hse
    cases hal : t.alloc with
    | false => rfl
    | true => rw [hal] at hse; cases hse
  obtain ⟨s1, s2, s3, s4, s5, s6⟩ := ag_singleton_of_not_alloc h ha
  cases t
  simp only at s1 s2 s3 s4 s5 s6
  subst s1 s2 s3 s4 s5 s6
  rfl

/-- What a query call can do to a collection that is the unallocated singleton: nothing. -/
def hs_Untouched (cfg : Cfg) (w : World) : Res (Ret × World) → Prop
  | .ok (_, w') => w'.t = Raw.new cfg.W ∧ w'.log = w.log
  | .panic _ w' => w'.t = Raw.new cfg.W ∧ w'.log = w.log
  | .abort => False
  | .fault _ => False

theorem hs_query_step (hc : CfgOk cfg) (env : Env) (op : MapOp) (hq : hs_QueryOp op) (w : World)
    (hw : w.t = Raw.new cfg.W) : hs_Untouched cfg w (Map.step cfg env op w) := by
  have hp := probe_covers cfg hc.spec.width
  have h : TInv cfg w.t := by rw [hw]; exact TInv.new hc
  have hit : w.t.items = 0 := by rw [hw]; rfl
  have hel : w.t.elems = [] := by rw [hw]; rfl
  have hm0 : w.t.mask = 0 := by rw [hw]; rfl
  have hnew : ∀ {t' : Raw}, TInv cfg t' → t'.mask = w.t.mask → t' = Raw.new cfg.W :=
    fun ht hm => hs_eq_new_of_mask ht.1 (hm.trans hm0)
  cases op with
  | get k =>
    have h1 := Map.get_inv hc hp env k w h
    simp only [Map.step]
    cases hr : Map.get cfg env k w with
    | ok pr => obtain ⟨r, w'⟩ := pr; rw [hr] at h1; exact ⟨h1.1.trans hw, h1.2.1⟩
    | panic c w' => rw [hr] at h1; exact ⟨h1.2.1.trans hw, h1.2.2.1⟩
    | abort => rw [hr] at h1; exact h1.elim
    | fault f => rw [hr] at h1; exact h1.elim
  | getMut k nv =>
    have h1 := Map.getMut_inv hc hp env k nv w h
    have h2 := hs_getMut_exact hc hp env k nv w h
    simp only [Map.step]
    cases hr : Map.getMut cfg env k nv w with
    | ok pr =>
      obtain ⟨r, w'⟩ := pr
      rw [hr] at h1 h2
      exact ⟨hnew h1.1 h2.2.1, h2.1⟩
    | panic c w' => rw [hr] at h1; exact ⟨h1.2.1.trans hw, h1.2.2.1⟩
    | abort => rw [hr] at h1; exact h1.elim
    | fault f => rw [hr] at h1; exact h1.elim
  | remove k =>
    have h1 := Map.remove_inv hc hp env k w h
    simp only [Map.step]
    cases hr : Map.remove cfg env k w with
    | ok pr =>
      obtain ⟨r, w'⟩ := pr
      rw [hr] at h1
      cases r with
      | none => exact ⟨h1.1.trans hw, h1.2.1⟩
      | some v => have := h1.2.1; omega
    | panic c w' =>
      rw [hr] at h1
      rcases h1 with ⟨_, a, b, _⟩ | ⟨_, _, a, _⟩
      · exact ⟨a.trans hw, b⟩
      · omega
    | abort => rw [hr] at h1; exact h1.elim
    | fault f => rw [hr] at h1; exact h1.elim
  | removeEntry k =>
    have h1 := Map.removeEntry_inv hc hp env k w h
    simp only [Map.step]
    cases hr : Map.removeEntry cfg env k w with
    | ok pr =>
      obtain ⟨r, w'⟩ := pr
      rw [hr] at h1
      cases r with
      | none => exact ⟨h1.1.trans hw, h1.2.1⟩
      | some v => have := h1.2.2.1; omega
    | panic c w' => rw [hr] at h1; exact ⟨h1.2.1.trans hw, h1.2.2.1⟩
    | abort => rw [hr] at h1; exact h1.elim
    | fault f => rw [hr] at h1; exact h1.elim
  | clear =>
    have h1 := clear_spec hc env w h
    simp only [Map.step]
    cases hr : Hb.clear cfg env w with
    | ok w' =>
      rw [hr] at h1
      obtain ⟨⟨_, _, _, _, _, a, _⟩, hd⟩ := h1
      refine ⟨(a hit).trans hw, ?_⟩
      rw [hd.log, hel]; simp [dropEvs_nil]
    | panic c w' =>
      rw [hr] at h1
      obtain ⟨_, _, _, ds, e, rest, a, _⟩ := h1
      rw [hel] at a
      simp at a
    | abort => rw [hr] at h1; exact h1.elim
    | fault f => rw [hr] at h1; exact h1.elim
  | retain =>
    have h1 := retain_spec hc env w h
    simp only [Map.step]
    cases hr : Map.retain cfg env w with
    | ok w' =>
      rw [hr] at h1
      obtain ⟨a1, _, _, a4, _⟩ := h1
      refine ⟨hnew a1 (hs_retain_mask env hr), ?_⟩
      rw [a4, hel]; simp [retainDropped, dropEvs_nil]
    | panic c w' =>
      rw [hr] at h1
      obtain ⟨_, pre, x, post, a, _⟩ := h1
      rw [hel] at a
      simp at a
    | abort => rw [hr] at h1; exact h1.elim
    | fault f => rw [hr] at h1; exact h1.elim
  | extractIf n =>
    have h1 := extractIf_spec hc env n w h
    simp only [Map.step]
    cases hr : Map.extractIf cfg env n w with
    | ok pr =>
      obtain ⟨out, w'⟩ := pr
      rw [hr] at h1
      exact ⟨hnew h1.1 (hs_extractIf_mask env hr), h1.2.1⟩
    | panic c w' =>
      rw [hr] at h1
      obtain ⟨_, _, _, m, x, a, _⟩ := h1
      rw [hel] at a
      simp at a
    | abort => rw [hr] at h1; exact h1.elim
    | fault f => rw [hr] at h1; exact h1.elim
  | drain n fg =>
    have h1 := drain_spec hc env n fg w h
    simp only [Map.step]
    cases hr : Map.drain cfg env n fg w with
    | ok pr =>
      obtain ⟨out, w'⟩ := pr
      rw [hr] at h1
      show w'.t = Raw.new cfg.W ∧ w'.log = w.log
      cases fg with
      | true => rw [h1.2.2.1 rfl]; exact ⟨rfl, rfl⟩
      | false =>
        obtain ⟨hem, hd⟩ := h1.2.2.2 rfl
        refine ⟨hnew hem.2.1 hem.2.2.2.2.1, ?_⟩
        rw [hd.log, hel]; simp [dropEvs_nil]
    | panic c w' =>
      rw [hr] at h1
      obtain ⟨_, _, _, _, ds, e, rest, a, _⟩ := h1
      rw [hel] at a
      simp at a
    | abort => rw [hr] at h1; exact h1.elim
    | fault f => rw [hr] at h1; exact h1.elim
  | iter p =>
    rw [hs_step_iter hc env p w h.1]
    exact ⟨hw, rfl⟩
  | insert e => exact hq.elim
  | reserve n => exact hq.elim
  | tryReserve n => exact hq.elim
  | shrinkTo m => exact hq.elim

/-- A collection that was never given an element or a capacity owns no block: `new()` is the static
    singleton, and any history of look-ups / removals / bulk removals / iteration on it — for EVERY
    environment — runs to its end, leaves it the singleton and writes nothing to the log (in
    particular no allocator request). -/
theorem never_allocated_owns_nothing (hc : CfgOk cfg) (env : Env) :
    (Raw.new cfg.W).alloc = false ∧
    ∀ (ops : List MapOp) (w0 : World), (∀ op ∈ ops, hs_QueryOp op) → w0.t = Raw.new cfg.W →
      ∃ obs wf, Map.run cfg env ops w0 = some (obs, wf) ∧ wf.t = Raw.new cfg.W ∧ wf.log = w0.log := by
  refine ⟨rfl, ?_⟩
  intro ops
  induction ops with
  | nil => intro w0 _ h0; exact ⟨[], w0, rfl, h0, rfl⟩
  | cons op rest ih =>
    intro w0 hq h0
    have hs := hs_query_step hc env op (hq op List.mem_cons_self) w0 h0
    have hq' : ∀ o ∈ rest, hs_QueryOp o := fun o ho => hq o (List.mem_cons_of_mem _ ho)
    cases hr : Map.step cfg env op w0 with
    | ok pr =>
      obtain ⟨r, w1⟩ := pr
      rw [hr] at hs
      obtain ⟨os, wf, i1, i2, i3⟩ := ih w1 hq' hs.1
      exact ⟨.ret r :: os, wf, by simp only [Map.run, hr, i1]; rfl, i2, i3.trans hs.2⟩
    | panic c w1 =>
      rw [hr] at hs
      obtain ⟨os, wf, i1, i2, i3⟩ := ih w1 hq' hs.1
      exact ⟨.panic c :: os, wf, by simp only [Map.run, hr, i1]; rfl, i2, i3.trans hs.2⟩
    | abort => rw [hr] at hs; exact hs.elim
    | fault f => rw [hr] at hs; exact hs.elim

/-! ### non-vacuity: an evaluated history (SSE2 scanner) meeting the hypotheses of `run_ledger` -/

/-- A call-number dependent hasher, lawful `Eq`, a predicate answering by call parity. -/
def hsExEnv : Env :=
  { hash := fun c k => some (k * 2654435761 + c), eq := fun _ q e => some (q == e.k),
    clone := fun _ _ => none, pred := fun c _ => some (c % 2 == 0, 7),
    allocOk := fun _ => true, dropPanics := fun _ _ => false }

/-- insert, overwrite, remove, retain (drops one), extract_if × 1, drain × 1 then drop, shrink. -/
def hsExOps : List MapOp :=
  [.insert ⟨1, 10, 100, 0⟩, .insert ⟨2, 20, 200, 0⟩, .insert ⟨1, 11, 101, 5⟩, .remove 2,
   .insert ⟨3, 30, 300, 0⟩, .retain, .insert ⟨4, 40, 400, 0⟩, .insert ⟨5, 50, 500, 0⟩,
   .extractIf 1, .drain 1 false, .shrinkTo 0]

/-- (no panic observed, dropped keys, returned keys, dropped values, returned values, live blocks,
    allocator events newest first). -/
def hsExSummary :
    Option (Bool × List Nat × List Nat × List Nat × List Nat × List (Nat × Nat) × List Ev) :=
  match Map.run { ops := Sse2.ops } hsExEnv hsExOps { t := Raw.new 16 } with
  | some (obs, wf) =>
    some (obs.all (fun o => match o with | .ret _ => true | .panic _ => false),
      droppedK wf.log, returnedK (hsExOps.zip obs), droppedV wf.log, returnedV (hsExOps.zip obs),
      liveBlocks wf.log,
      wf.log.filter (fun ev => match ev with | .alloc _ _ => true | .free _ _ => true | _ => false))
  | none => none

/-- Six key objects and six value objects went in; each is dropped once or returned once; the one
    block was freed with its own layout. -/
theorem hs_example :
    hsExSummary = some (true, [50, 30, 20, 11], [10, 40], [500, 300], [100, 200, 101, 400], [],
      [.free 52 16, .alloc 52 16]) := by rfl

#print axioms step_safe
#print axioms run_safe
#print axioms iteration_counts_len
#print axioms every_call_terminates
#print axioms step_ledger
#print axioms run_ledger
#print axioms dropAll_ledger
#print axioms never_allocated_owns_nothing
#print axioms hs_example

end Hb
