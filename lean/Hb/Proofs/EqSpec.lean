/-
`clone`, `clone_from`, `==` of the `HashMap` model for LAWFUL environments (properties C11), plus a few
list-level facts about `retainKept` / `retainDropped` used by the C10 property file.

Everything here is built on `Hb/Proofs/ApiBulk.lean` (`cloneTable_spec`, `cloneFrom_spec`,
`getInner`-totality) and `Hb/Proofs/Refine.lean` (`rf_getInner_spec`, `elems_find`, `mem_elems`).

Contents
  A  `retainKept` / `retainDropped`: position-indexed form (`eq_retainKept_zipIdx`), pure predicates
     (`eq_retainKept_pure` = `AL.retain`), every sublist is the true-set of a pure predicate.
  B  `cloneList`: position-wise description, same keys / payloads, identities = the oracle's answers.
  C  `InvL` is carried over to a table with the same control bytes and the same keys in bucket order
     (`eq_invL_transfer`); `clone` (`eq_clone_invL`) and `clone_from` into any target
     (`eq_cloneFrom_ctrl`, `eq_cloneFrom_invL`).
  D  `==`: `eq_eqLoop_lawful`, `eq_spec`, finite-map form `eq_finmap_iff`, `eq_spec_finmap`, `eq_symm`;
     `PartialEq for HashSet` (`Set.setEq`): `eq_setEq_spec`, `eq_setEq_symm`;
     a clone compares equal to its source: `eq_of_same_kv`, `eq_clone`, `eq_cloneFrom`.
  E  `clone_from` paths (`eq_cloneFrom_unalloc`, `eq_cfBlockEvs_cases`), `HashTable::clone_from`
     (`Table.cloneFrom` = clone, drop old, move: `eq_tableCloneFrom_spec`, `eq_tableCloneFrom_invL`),
     value-semantics remark (`eq_independent`).
  F  non-vacuity (`decide +kernel`): `eqEx_tables`, `eqEx_compare`, `eqEx_clone`.

Hypotheses: `CfgOk cfg` throughout; `Lawful env H` (hash oracle = the function `H`, `Eq` = key
equality) for whichever map is hashed into; `InvL cfg H t` for that map; the other side of `==` needs
only `Inv` (structural) for the pair form and `InvL` (any hash function) for the finite-map form.
No hypothesis on the allocator, on `Clone` or on destructors: the statements are about `.ok`
outcomes; the other outcomes are characterised in `ApiBulk.lean`.

On "independently owned" / "unaffected by later changes": the model is value-semantic, a `Raw` value
cannot alias another one, so independence of clone and source is true by construction in the model
(`eq_independent` states it for the record). That the REAL code shares nothing between a clone and its
source is not a theorem about the model: that half is the business of the correspondence check
(histories that mutate source and clone after `clone` / `clone_from`, compared against the model),
supported by the drop accounting (identities of clones are the oracle's fresh answers:
`eq_cloneList_ids`, so a shared object would show up as a double drop in the event log).
-/
import Batteries.Data.List.Perm
import Hb.Proofs.ApiBulk
import Hb.Proofs.Refine
import Hb.Model.Set
import Hb.Model.Table
namespace Hb

variable {cfg : Cfg}

/-! ## A. `retainKept` / `retainDropped` -/

/-- Answer of predicate call number `c` on `e`, as "kept element". -/
def eq_keptAt (env : Env) (c : Nat) (e : Elem) : Option Elem :=
  match env.pred c e with
  | some (true, nv) => some { e with v := nv }
  | _ => none

/-- Answer of predicate call number `c` on `e`, as "rejected element". -/
def eq_droppedAt (env : Env) (c : Nat) (e : Elem) : Option Elem :=
  match env.pred c e with
  | some (false, nv) => some { e with v := nv }
  | _ => none

theorem eq_retainKept_zipIdx_aux (env : Env) (pc : Nat) : ∀ (l : List Elem) (n : Nat),
    retainKept env (pc + n) l = (l.zipIdx n).filterMap fun p => eq_keptAt env (pc + p.2) p.1 := by
  intro l
  induction l with
  | nil => intro n; rfl
  | cons e es ih =>
    intro n
    have := ih (n + 1)
    rw [← Nat.add_assoc] at this
    simp only [retainKept, List.zipIdx_cons, List.filterMap_cons, eq_keptAt]
    cases hp : env.pred (pc + n) e with
    | none => simpa [eq_keptAt] using this
    | some ans =>
      obtain ⟨b, nv⟩ := ans
      cases b
      · simpa [eq_keptAt] using this
      · simp only [List.cons.injEq, true_and]; simpa [eq_keptAt] using this

theorem eq_retainDropped_zipIdx_aux (env : Env) (pc : Nat) : ∀ (l : List Elem) (n : Nat),
    retainDropped env (pc + n) l = (l.zipIdx n).filterMap fun p => eq_droppedAt env (pc + p.2) p.1 := by
  intro l
  induction l with
  | nil => intro n; rfl
  | cons e es ih =>
    intro n
    have := ih (n + 1)
    rw [← Nat.add_assoc] at this
    simp only [retainDropped, List.zipIdx_cons, List.filterMap_cons, eq_droppedAt]
    cases hp : env.pred (pc + n) e with
    | none => simpa [eq_droppedAt] using this
    | some ans =>
      obtain ⟨b, nv⟩ := ans
      cases b
      · simp only [List.cons.injEq, true_and]; simpa [eq_droppedAt] using this
      · simpa [eq_droppedAt] using this

/-- The kept elements, position by position: element number `i` (bucket order) is judged by predicate
    call number `pc + i` and by no other call. -/
theorem eq_retainKept_zipIdx (env : Env) (pc : Nat) (l : List Elem) :
    retainKept env pc l = l.zipIdx.filterMap fun p => eq_keptAt env (pc + p.2) p.1 :=
  eq_retainKept_zipIdx_aux env pc l 0

theorem eq_retainDropped_zipIdx (env : Env) (pc : Nat) (l : List Elem) :
    retainDropped env pc l = l.zipIdx.filterMap fun p => eq_droppedAt env (pc + p.2) p.1 :=
  eq_retainDropped_zipIdx_aux env pc l 0

/-- If kept and dropped elements add up to the input, every predicate call returned. -/
theorem eq_retain_all_answered (env : Env) : ∀ (l : List Elem) (pc : Nat),
    (retainKept env pc l).length + (retainDropped env pc l).length = l.length →
    ∀ i e, l[i]? = some e → ∃ b nv, env.pred (pc + i) e = some (b, nv) := by
  intro l
  induction l with
  | nil => intro pc _ i e h; simp at h
  | cons a es ih =>
    intro pc hlen i e hi
    have hle := retain_lengths_le env es (pc + 1)
    simp only [retainKept, retainDropped] at hlen
    cases hp : env.pred pc a with
    | none =>
      rw [hp] at hlen
      simp only [List.length_cons] at hlen
      omega
    | some ans =>
      obtain ⟨b, nv⟩ := ans
      rw [hp] at hlen
      have hrest : (retainKept env (pc + 1) es).length + (retainDropped env (pc + 1) es).length =
          es.length := by
        cases b <;> simp only [List.length_cons] at hlen <;> omega
      cases i with
      | zero =>
        simp only [List.getElem?_cons_zero, Option.some.injEq] at hi
        subst hi
        exact ⟨b, nv, hp⟩
      | succ j =>
        simp only [List.getElem?_cons_succ] at hi
        have := ih (pc + 1) hrest j e hi
        rw [show pc + (j + 1) = pc + 1 + j by omega]
        exact this

/-- With a pure predicate `P` the kept elements are `AL.retain P` (a `filterMap`), whatever the call
    numbers. -/
theorem eq_retainKept_pure {env : Env} {P : AL.Pred} (hP : ∀ c e, env.pred c e = some (P e)) :
    ∀ (l : List Elem) (pc : Nat), retainKept env pc l = AL.retain P l := by
  intro l
  induction l with
  | nil => intro pc; rfl
  | cons e es ih =>
    intro pc
    rw [rf_retain_cons]
    simp only [retainKept, hP]
    cases h : P e with
    | mk b nv =>
      cases b
      · simpa using ih (pc + 1)
      · simpa using ih (pc + 1)

theorem eq_retainDropped_pure {env : Env} {P : AL.Pred} (hP : ∀ c e, env.pred c e = some (P e)) :
    ∀ (l : List Elem) (pc : Nat), retainDropped env pc l = AL.removed P l := by
  intro l
  induction l with
  | nil => intro pc; rfl
  | cons e es ih =>
    intro pc
    rw [rf_removed_cons]
    simp only [retainDropped, hP]
    cases h : P e with
    | mk b nv =>
      cases b
      · simpa using ih (pc + 1)
      · simpa using ih (pc + 1)

/-- A predicate that does not write: `retain` is `filter`. -/
theorem eq_retain_filter (S : Elem → Bool) (l : List Elem) :
    AL.retain (fun e => (S e, e.v)) l = l.filter S := by
  induction l with
  | nil => rfl
  | cons e es ih =>
    rw [rf_retain_cons, List.filter_cons, ih]

theorem eq_removed_filter (S : Elem → Bool) (l : List Elem) :
    AL.removed (fun e => (S e, e.v)) l = l.filter (fun e => !S e) := by
  induction l with
  | nil => rfl
  | cons e es ih =>
    rw [rf_removed_cons, List.filter_cons, ih]
    cases S e <;> rfl

/-- Every sublist of a duplicate-free list is what `filter` by membership keeps. -/
theorem eq_filter_mem_of_sublist {α} [DecidableEq α] {s l : List α} (hs : s.Sublist l) (hn : l.Nodup) :
    l.filter (fun x => decide (x ∈ s)) = s := by
  induction hs with
  | slnil => rfl
  | @cons s l a hs ih =>
    rw [List.nodup_cons] at hn
    have ha : a ∉ s := fun h => hn.1 (hs.subset h)
    rw [List.filter_cons]
    simp only [ha, decide_false, Bool.false_eq_true, if_false]
    exact ih hn.2
  | @cons_cons s l a hs ih =>
    rw [List.nodup_cons] at hn
    rw [List.filter_cons]
    simp only [List.mem_cons, true_or, decide_true, if_true, List.cons.injEq, true_and]
    rw [← ih hn.2]
    apply List.filter_congr
    intro x hx
    have hne : x ≠ a := fun h => hn.1 (h ▸ hx)
    simp only [hne, false_or]
    rw [ih hn.2]

/-! ## B. `cloneList` -/

theorem eq_cloneList_length_le (env : Env) : ∀ (l : List Elem) (cc : Nat),
    (cloneList env cc l).length ≤ l.length := by
  intro l
  induction l with
  | nil => intro cc; simp [cloneList]
  | cons a es ih =>
    intro cc
    simp only [cloneList]
    cases env.clone cc a with
    | none => simp
    | some p => simpa using ih (cc + 1)

/-- Clones made so far: element `i` of the result is element `i` of the input with the identities the
    clone oracle returned for call `cc + i`. -/
theorem eq_cloneList_mem (env : Env) : ∀ (l : List Elem) (cc : Nat) (c : Elem),
    c ∈ cloneList env cc l → ∃ i e, l[i]? = some e ∧ env.clone (cc + i) e = some (c.kid, c.vid) ∧
      c = { e with kid := c.kid, vid := c.vid } := by
  intro l
  induction l with
  | nil => intro cc c h; simp [cloneList] at h
  | cons a es ih =>
    intro cc c h
    simp only [cloneList] at h
    cases hcl : env.clone cc a with
    | none => rw [hcl] at h; cases h
    | some p =>
      obtain ⟨kid, vid⟩ := p
      rw [hcl] at h
      rcases List.mem_cons.mp h with rfl | h
      · exact ⟨0, a, rfl, hcl, rfl⟩
      · obtain ⟨i, e, h1, h2, h3⟩ := ih (cc + 1) c h
        refine ⟨i + 1, e, by simpa using h1, ?_, h3⟩
        rw [show cc + (i + 1) = cc + 1 + i by omega]; exact h2

/-- If no `Clone` call panicked (the result is as long as the input): position-wise description. -/
theorem eq_cloneList_get (env : Env) : ∀ (l : List Elem) (cc : Nat),
    (cloneList env cc l).length = l.length →
    ∀ i e, l[i]? = some e → ∃ kid vid, env.clone (cc + i) e = some (kid, vid) ∧
      (cloneList env cc l)[i]? = some { e with kid := kid, vid := vid } := by
  intro l
  induction l with
  | nil => intro cc _ i e h; simp at h
  | cons a es ih =>
    intro cc hlen i e hi
    simp only [cloneList] at hlen ⊢
    cases hcl : env.clone cc a with
    | none => rw [hcl] at hlen; simp at hlen
    | some p =>
      obtain ⟨kid, vid⟩ := p
      rw [hcl] at hlen
      simp only [List.length_cons, Nat.add_right_cancel_iff] at hlen
      cases i with
      | zero =>
        simp only [List.getElem?_cons_zero, Option.some.injEq] at hi
        subst hi
        exact ⟨kid, vid, hcl, rfl⟩
      | succ j =>
        simp only [List.getElem?_cons_succ] at hi ⊢
        rw [show cc + (j + 1) = cc + 1 + j by omega]
        exact ih (cc + 1) hlen j e hi

/-- Anything that does not look at the identities is unchanged by cloning. -/
theorem eq_cloneList_map {α} (f : Elem → α) (hf : ∀ e kid vid, f { e with kid := kid, vid := vid } = f e)
    (env : Env) : ∀ (l : List Elem) (cc : Nat), (cloneList env cc l).length = l.length →
    (cloneList env cc l).map f = l.map f := by
  intro l
  induction l with
  | nil => intro cc _; rfl
  | cons a es ih =>
    intro cc hlen
    simp only [cloneList] at hlen ⊢
    cases hcl : env.clone cc a with
    | none => rw [hcl] at hlen; simp at hlen
    | some p =>
      obtain ⟨kid, vid⟩ := p
      rw [hcl] at hlen
      simp only [List.length_cons, Nat.add_right_cancel_iff] at hlen
      simp only [List.map_cons, hf, ih (cc + 1) hlen]

/-- Clones have the same keys and the same payloads, position by position. -/
theorem eq_cloneList_kv (env : Env) (l : List Elem) (cc : Nat)
    (hlen : (cloneList env cc l).length = l.length) :
    (cloneList env cc l).map (fun e => (e.k, e.v)) = l.map (fun e => (e.k, e.v)) :=
  eq_cloneList_map _ (fun _ _ _ => rfl) env l cc hlen

theorem eq_cloneList_keys (env : Env) (l : List Elem) (cc : Nat)
    (hlen : (cloneList env cc l).length = l.length) :
    (cloneList env cc l).map (·.k) = l.map (·.k) :=
  eq_cloneList_map _ (fun _ _ _ => rfl) env l cc hlen

theorem eq_cloneList_ids_aux (env : Env) (cc : Nat) : ∀ (l : List Elem) (n : Nat),
    (cloneList env (cc + n) l).length = l.length →
    (cloneList env (cc + n) l).map (fun e => (e.kid, e.vid)) =
      (l.zipIdx n).filterMap fun p => env.clone (cc + p.2) p.1 := by
  intro l
  induction l with
  | nil => intro n _; rfl
  | cons a es ih =>
    intro n hlen
    simp only [cloneList] at hlen ⊢
    cases hcl : env.clone (cc + n) a with
    | none => rw [hcl] at hlen; simp at hlen
    | some p =>
      obtain ⟨kid, vid⟩ := p
      rw [hcl] at hlen
      simp only [List.length_cons, Nat.add_right_cancel_iff] at hlen
      have := ih (n + 1) (by rw [← Nat.add_assoc]; exact hlen)
      rw [← Nat.add_assoc] at this
      simp only [List.map_cons, List.zipIdx_cons, List.filterMap_cons, hcl, this]

/-- The identities of the clones are exactly the clone oracle's answers, call `cc + position`. -/
theorem eq_cloneList_ids (env : Env) (l : List Elem) (cc : Nat)
    (hlen : (cloneList env cc l).length = l.length) :
    (cloneList env cc l).map (fun e => (e.kid, e.vid)) =
      l.zipIdx.filterMap fun p => env.clone (cc + p.2) p.1 :=
  eq_cloneList_ids_aux env cc l 0 hlen

/-- If the oracle only hands out identities that are not in use (`used`), no clone shares a key or
    value object with an element whose objects are in use — in particular with the source's. -/
theorem eq_cloneList_fresh (env : Env) (l : List Elem) (cc : Nat) (used : Nat → Prop)
    (hfresh : ∀ c e kid vid, env.clone c e = some (kid, vid) → ¬ used kid ∧ ¬ used vid) :
    ∀ c ∈ cloneList env cc l, ∀ x : Elem, used x.kid → used x.vid →
      c.kid ≠ x.kid ∧ c.vid ≠ x.vid ∧ c.kid ≠ x.vid ∧ c.vid ≠ x.kid := by
  intro c hc x hk hv
  obtain ⟨i, e, _, h2, _⟩ := eq_cloneList_mem env l cc c hc
  obtain ⟨f1, f2⟩ := hfresh _ _ _ _ h2
  exact ⟨fun h => f1 (h ▸ hk), fun h => f2 (h ▸ hv), fun h => f1 (h ▸ hv), fun h => f2 (h ▸ hk)⟩

/-- If the oracle never hands out the same identity at two different calls, the clones' key objects
    are pairwise distinct, and so are their value objects. -/
theorem eq_cloneList_nodup (env : Env)
    (hinj : ∀ c c' e e' p p', env.clone c e = some p → env.clone c' e' = some p' → c ≠ c' →
      p.1 ≠ p'.1 ∧ p.2 ≠ p'.2) :
    ∀ (l : List Elem) (cc : Nat), ((cloneList env cc l).map (·.kid)).Nodup ∧
      ((cloneList env cc l).map (·.vid)).Nodup := by
  intro l
  induction l with
  | nil => intro cc; simp [cloneList]
  | cons a es ih =>
    intro cc
    simp only [cloneList]
    cases hcl : env.clone cc a with
    | none => simp
    | some p =>
      obtain ⟨kid, vid⟩ := p
      simp only [List.map_cons, List.nodup_cons]
      refine ⟨⟨?_, (ih (cc + 1)).1⟩, ⟨?_, (ih (cc + 1)).2⟩⟩
      · intro hm
        obtain ⟨c, hc, hk⟩ := List.mem_map.mp hm
        obtain ⟨i, e, _, h2, _⟩ := eq_cloneList_mem env es (cc + 1) c hc
        exact (hinj _ _ _ _ _ _ h2 hcl (by omega)).1 hk
      · intro hm
        obtain ⟨c, hc, hk⟩ := List.mem_map.mp hm
        obtain ⟨i, e, _, h2, _⟩ := eq_cloneList_mem env es (cc + 1) c hc
        exact (hinj _ _ _ _ _ _ h2 hcl (by omega)).2 hk

/-! ## C. `InvL` of clones -/

/-- The hash-dependent invariant only depends on the control bytes and on the KEYS in bucket order: a
    valid table with the control bytes of `src` and, bucket by bucket, the keys of `src` satisfies
    `InvL` for the same hash function. -/
theorem eq_invL_transfer (hc : CfgOk cfg) {H : Nat → Nat} {src nt : Raw} (hs : InvL cfg H src)
    (hn : Inv cfg nt) (hm : nt.mask = src.mask) (hct : nt.ctrl = src.ctrl)
    (hk : nt.elems.map (·.k) = src.elems.map (·.k)) : InvL cfg H nt := by
  have hfl : nt.fullList = src.fullList := ab_fullList_congr hm hct
  rw [ab_elems_map hc hn, ab_elems_map hc hs.toInv, hfl, List.map_map, List.map_map] at hk
  have hkey : ∀ i ∈ src.fullList, (ab_elem nt i).k = (ab_elem src i).k := List.map_inj_left.mp hk
  have hslot : ∀ (i : Nat) (e : Elem), nt.slots[i]?.join = some e →
      ∃ e0, src.slots[i]?.join = some e0 ∧ e0.k = e.k := by
    intro i e he
    have he' : ab_slot nt i = some e := he
    have hlt := ab_slot_lt he'
    have hib : i < nt.buckets := Nat.lt_of_lt_of_le hlt hn.ab_slots_le
    have hfull : isFull (nt.ctrlAt i) = true := by
      cases hf : isFull (nt.ctrlAt i) with
      | true => rfl
      | false => rw [hn.ab_dead hf] at he'; cases he'
    have hin : i ∈ src.fullList := by rw [← hfl]; exact (mem_fullList _ _).2 ⟨hib, hfull⟩
    have h0 : ab_slot src i = some (ab_elem src i) := hs.toInv.ab_full hc hin
    refine ⟨ab_elem src i, h0, ?_⟩
    rw [← hkey i hin, ab_elem_of he']
  refine InvL.of_lpart hn ⟨?_, ?_, ?_⟩
  · intro i e he
    obtain ⟨e0, h0, hk0⟩ := hslot i e he
    rw [ab_ctrlAt_congr hct, ← hk0]
    exact hs.tag i e0 h0
  · intro i e he
    obtain ⟨e0, h0, hk0⟩ := hslot i e he
    rw [Reachable_congr hm hct, ← hk0]
    exact hs.reach i e0 h0
  · intro i j e e2 h1 h2 hkk
    obtain ⟨e0, h0, hk0⟩ := hslot i e h1
    obtain ⟨e0', h0', hk0'⟩ := hslot j e2 h2
    exact hs.nodup i j e0 e0' h0 h0' (by rw [hk0, hk0', hkk])

/-- **`clone()` keeps the hash-dependent invariant**: the clone of a table in which every key sits
    where its hash says is such a table, for the same hash function. -/
theorem eq_clone_invL (hc : CfgOk cfg) (env : Env) {H : Nat → Nat} (w : World) (h : RI cfg H w.t)
    {nt : Raw} {w' : World} (hr : Map.cloneTable cfg env w = .ok (nt, w')) : RI cfg H nt := by
  have hs := cloneTable_spec hc env w ⟨h.1.toInv, h.2⟩
  rw [hr] at hs
  obtain ⟨a1, _, a3, a4, _, _, _, a8, a9, _⟩ := hs
  refine ⟨eq_invL_transfer hc h.1 a1.1 a3 a4 ?_, a1.2⟩
  rw [a8] at a9 ⊢
  exact eq_cloneList_keys env _ _ a9

/-! #### `clone_from`: the control bytes -/

theorem eq_cloneLoop_ctrl (env : Env) (src : Raw) :
    ∀ (idxs : List Nat) (dst : Raw) (w : World) (dst' : Raw) (w' : World),
      Map.cloneLoop env src idxs dst w = .ok (dst', w') → dst'.ctrl = dst.ctrl := by
  intro idxs
  induction idxs with
  | nil =>
    intro dst w dst' w' h
    simp only [Map.cloneLoop] at h
    cases h; rfl
  | cons i rest ih =>
    intro dst w dst' w' h
    simp only [Map.cloneLoop] at h
    split at h
    · cases h
    · split at h
      · cases h
      · split at h
        · have := ih _ _ _ _ h
          exact this
        · cases h
        · cases h

theorem eq_cfStep3_ctrl (env : Env) (src : Raw) (w4 w' : World)
    (h : cfStep3 cfg env src w4 = .ok w') : w'.t.ctrl = src.ctrl := by
  simp only [cfStep3] at h
  split at h
  · cases h
  · split at h
    · rename_i dst w5 heq
      cases h
      have := eq_cloneLoop_ctrl env src _ _ _ _ _ heq
      exact this
    · cases h
    · cases h
    · cases h

/-- `clone_from` copies the source's control bytes, whatever the target was. -/
theorem eq_cloneFrom_ctrl (hc : CfgOk cfg) (env : Env) (src : Raw) (w w' : World) (h : TInvB cfg w.t)
    (hs : TInvB cfg src) (hr : Map.cloneFrom cfg env src w = .ok w') : w'.t.ctrl = src.ctrl := by
  rw [cloneFrom_eq] at hr
  split at hr
  · rename_i hse
    have hd := dropInnerTable_spec hc env w.t { w with t := Raw.new cfg.W } h
    rw [hr] at hd
    have ht : w'.t = Raw.new cfg.W := hd.1
    have hal : src.alloc = false := by
      have := hs.1.isEmptySingleton_eq
      rw [hse] at this
      cases hx : src.alloc with
      | false => rfl
      | true => rw [hx] at this; cases this
    rcases hs.1.geom with hx | ha
    · rw [ht, hx.2.2.1]; rfl
    · rw [ha.1] at hal; cases hal
  · split at hr
    · cases hr
    · cases hr
    · cases hr
    · cases hr
    · split at hr
      · exact eq_cfStep3_ctrl env src _ _ hr
      · rename_i hne
        exact absurd hr (hne _)

/-- **`clone_from` into ANY target keeps the hash-dependent invariant of the source** (for the
    source's hash function; the target's old contents and hash-dependent state are irrelevant). -/
theorem eq_cloneFrom_invL (hc : CfgOk cfg) (env : Env) {H : Nat → Nat} (src : Raw) (w w' : World)
    (h : TInvB cfg w.t) (hs : RI cfg H src) (hr : Map.cloneFrom cfg env src w = .ok w') :
    RI cfg H w'.t := by
  have hsp := cloneFrom_spec hc env src w h ⟨hs.1.toInv, hs.2⟩
  have hct := eq_cloneFrom_ctrl hc env src w w' h ⟨hs.1.toInv, hs.2⟩ hr
  rw [hr] at hsp
  obtain ⟨a1, a2, _, a4, a5, _⟩ := hsp
  refine ⟨eq_invL_transfer hc hs.1 a1.1 a2 hct ?_, a1.2⟩
  rw [a4] at a5 ⊢
  exact eq_cloneList_keys env _ _ a5

/-! ## D. `==` for lawful environments -/

/-- The comparison loop of `PartialEq` over the buckets `idxs` of `a`, against a table `b` whose
    hasher / `Eq` are lawful: it returns, and the answer is `true` exactly when every listed element of
    `a` has an element of `b` with the same key and an equal value. -/
theorem eq_eqLoop_lawful (hc : CfgOk cfg) {env : Env} {H : Nat → Nat} (hl : Lawful env H) (a b : Raw)
    (hb : InvL cfg H b) :
    ∀ (idxs : List Nat) (w : World), (∀ i ∈ idxs, ∃ e, ab_slot a i = some e) →
      ∃ r w', Map.eqLoop cfg env a b idxs w = .ok (r, w') ∧ w'.log = w.log ∧
        (r = true ↔ ∀ i ∈ idxs, ∃ e' ∈ b.elems, e'.k = (ab_elem a i).k ∧ e'.v = (ab_elem a i).v) := by
  intro idxs
  induction idxs with
  | nil =>
    intro w _
    exact ⟨true, w, rfl, rfl, by simp⟩
  | cons i rest ih =>
    intro w hsl
    obtain ⟨e, he⟩ := hsl i List.mem_cons_self
    have hei := ab_elem_of he
    rw [Map.eqLoop, ab_slotGet he]
    simp only
    obtain ⟨r, w1, hg, _, hlog, h1, h2⟩ := rf_getInner_spec hc hl e.k { w with t := b } hb
    have h1' : ∀ idx, r = some idx ↔ ∃ x, b.slots[idx]?.join = some x ∧ x.k = e.k := h1
    have h2' : r = none ↔ ∀ (j : Nat) (x : Elem), b.slots[j]?.join = some x → x.k ≠ e.k := h2
    have hlog1 : w1.log = w.log := hlog
    rw [hg]
    cases r with
    | none =>
      refine ⟨false, w1, rfl, hlog1, ⟨(fun h => by cases h), fun hall => ?_⟩⟩
      obtain ⟨e', hm, hk, _⟩ := hall i List.mem_cons_self
      obtain ⟨j, hj⟩ := mem_elems.mp hm
      rw [hei] at hk
      exact absurd hk (h2'.mp rfl j e' hj)
    | some j =>
      obtain ⟨e', hj, hk⟩ := (h1' j).mp rfl
      simp only
      rw [slotGet_ok hj]
      simp only
      by_cases hv : e.v = e'.v
      · rw [if_pos hv]
        obtain ⟨r2, w', hrun, hlog', hiff⟩ := ih w1 (fun k hk => hsl k (List.mem_cons_of_mem _ hk))
        refine ⟨r2, w', hrun, hlog'.trans hlog1, ?_⟩
        rw [hiff]
        constructor
        · intro hall k hkm
          rcases List.mem_cons.mp hkm with rfl | hkm
          · exact ⟨e', mem_elems.mpr ⟨j, hj⟩, by rw [hei]; exact hk, by rw [hei]; exact hv.symm⟩
          · exact hall k hkm
        · intro hall k hkm
          exact hall k (List.mem_cons_of_mem _ hkm)
      · rw [if_neg hv]
        refine ⟨false, w1, rfl, hlog1, ⟨(fun h => by cases h), fun hall => ?_⟩⟩
        obtain ⟨e2, hm, hk2, hv2⟩ := hall i List.mem_cons_self
        obtain ⟨j', hj'⟩ := mem_elems.mp hm
        rw [hei] at hk2 hv2
        have hjj : j' = j := hb.nodup j' j e2 e' hj' hj (hk2.trans hk.symm)
        subst hjj
        rw [hj] at hj'
        cases hj'
        exact absurd hv2.symm hv

/-- **`PartialEq for HashMap`** with a lawful hasher / `Eq` on the right-hand map `b` (the only map
    that is hashed into): `a == b` returns (no panic, fault or abort), leaves both maps and the log
    alone, and is `true` exactly when the lengths agree and every `(k, v)` of `a` occurs in `b`.
    `a` only needs the structural invariant; layout, capacity, tombstones and the history of either
    map do not matter, nor does `a`'s hasher. -/
theorem eq_spec (hc : CfgOk cfg) {env : Env} {H : Nat → Nat} (hl : Lawful env H) (a b : Raw) (w : World)
    (ha : Inv cfg a) (hb : InvL cfg H b) :
    ∃ r w', Map.mapEq cfg env b { w with t := a } = .ok (r, w') ∧ w'.t = a ∧ w'.log = w.log ∧
      (r = true ↔ a.elems.length = b.elems.length ∧
        ∀ e ∈ a.elems, ∃ e' ∈ b.elems, e'.k = e.k ∧ e'.v = e.v) := by
  have hla := ab_elems_length hc ha
  have hlb := ab_elems_length hc hb.toInv
  by_cases hit : a.items ≠ b.items
  · have hres : Map.mapEq cfg env b { w with t := a } = .ok (false, { w with t := a }) := by
      simp only [Map.mapEq]
      rw [if_pos hit]
    refine ⟨false, { w with t := a }, hres, rfl, rfl, ⟨(fun h => by cases h), fun hx => ?_⟩⟩
    rw [hla, hlb] at hx
    exact absurd hx.1 hit
  · have hit' : a.items = b.items := by
      by_contra hne; exact hit hne
    obtain ⟨r, w', hrun, hlog, hiff⟩ :=
      eq_eqLoop_lawful hc hl a b hb a.fullList { w with t := a } (fun i hi => ⟨_, ha.ab_full hc hi⟩)
    have hres : Map.mapEq cfg env b { w with t := a } = .ok (r, { w' with t := a }) := by
      simp only [Map.mapEq]
      rw [if_neg hit, fullIndices_spec hc ha]
      simp only [hrun]
    refine ⟨r, { w' with t := a }, hres, rfl, hlog, ?_⟩
    rw [hiff, hla, hlb, ab_elems_map hc ha]
    constructor
    · intro hall
      refine ⟨hit', ?_⟩
      intro e he
      obtain ⟨i, hi, rfl⟩ := List.mem_map.mp he
      exact hall i hi
    · rintro ⟨_, hall⟩ i hi
      exact hall _ (List.mem_map_of_mem hi)

/-! ### the finite map `k ↦ v` -/

theorem eq_mem_keys_iff {l : AL} {k : Nat} : k ∈ l.map (·.k) ↔ AL.find l k ≠ none := by
  rw [Ne, AL.find_none_iff, List.mem_map]
  constructor
  · rintro ⟨e, he, hk⟩ hall; exact hall e he hk
  · intro hn
    by_contra hx
    exact hn (fun e he hk => hx ⟨e, he, hk⟩)

/-- For key-distinct lists: "same length and every pair of `l1` occurs in `l2`" says that both are the
    same finite map from keys to values (order, identities of the objects do not matter). -/
theorem eq_finmap_iff {l1 l2 : AL} (h1 : l1.keysNodup) (h2 : l2.keysNodup) :
    (l1.length = l2.length ∧ ∀ e ∈ l1, ∃ e' ∈ l2, e'.k = e.k ∧ e'.v = e.v) ↔
    ∀ k, (AL.find l1 k).map (·.v) = (AL.find l2 k).map (·.v) := by
  constructor
  · rintro ⟨hlen, hinc⟩ k
    have hsub : l1.map (·.k) ⊆ l2.map (·.k) := by
      intro x hx
      obtain ⟨e, he, rfl⟩ := List.mem_map.mp hx
      obtain ⟨e', he', hk, _⟩ := hinc e he
      exact List.mem_map.mpr ⟨e', he', hk⟩
    have hperm : (l1.map (·.k)).Perm (l2.map (·.k)) :=
      (List.subperm_of_subset h1 hsub).perm_of_length_le (by simp [hlen])
    cases hf : AL.find l1 k with
    | none =>
      have hk1 : ¬ k ∈ l1.map (·.k) := fun hm => eq_mem_keys_iff.mp hm hf
      have hk2 : ¬ k ∈ l2.map (·.k) := fun hm => hk1 (hperm.mem_iff.mpr hm)
      have : AL.find l2 k = none := by
        by_contra hne
        exact hk2 (eq_mem_keys_iff.mpr hne)
      rw [this]
    | some e =>
      obtain ⟨he, hk⟩ := (AL.find_some_iff h1).mp hf
      obtain ⟨e', he', hk', hv⟩ := hinc e he
      have : AL.find l2 k = some e' := (AL.find_some_iff h2).mpr ⟨he', hk'.trans hk⟩
      rw [this]
      simp [hv]
  · intro hall
    have hnone : ∀ k, AL.find l1 k = none ↔ AL.find l2 k = none := by
      intro k
      have := hall k
      constructor
      · intro h; rw [h] at this; simpa using this.symm
      · intro h; rw [h] at this; simpa using this
    have hperm : (l1.map (·.k)).Perm (l2.map (·.k)) := by
      rw [List.perm_ext_iff_of_nodup h1 h2]
      intro k
      rw [eq_mem_keys_iff, eq_mem_keys_iff, Ne, Ne, hnone]
    refine ⟨by simpa using hperm.length_eq, ?_⟩
    intro e he
    have hf : AL.find l1 e.k = some e := (AL.find_some_iff h1).mpr ⟨he, rfl⟩
    have := hall e.k
    rw [hf] at this
    simp only [Option.map_some] at this
    obtain ⟨e', hf', hv⟩ := Option.map_eq_some_iff.mp this.symm
    obtain ⟨he', hk'⟩ := (AL.find_some_iff h2).mp hf'
    exact ⟨e', he', hk', hv⟩

/-- **`==` is equality of the finite maps `k ↦ v`.** `a` and `b` may have been built by different
    histories, have different capacities, tombstones and iteration orders, and differently seeded
    hashers (`Ha`, `Hb`; only `b`'s hasher is called, through `env`). -/
theorem eq_spec_finmap (hc : CfgOk cfg) {env : Env} {Ha Hb : Nat → Nat} (hl : Lawful env Hb) (a b : Raw)
    (w : World) (ha : InvL cfg Ha a) (hb : InvL cfg Hb b) :
    ∃ r w', Map.mapEq cfg env b { w with t := a } = .ok (r, w') ∧ w'.t = a ∧ w'.log = w.log ∧
      (r = true ↔ ∀ k, (AL.find a.elems k).map (·.v) = (AL.find b.elems k).map (·.v)) := by
  obtain ⟨r, w', h1, h2, h3, h4⟩ := eq_spec hc hl a b w ha.toInv hb
  exact ⟨r, w', h1, h2, h3, h4.trans (eq_finmap_iff (elems_keysNodup ha) (elems_keysNodup hb))⟩

/-- **`==` is symmetric**: `a == b` (look-ups in `b` with `b`'s hasher) and `b == a` (look-ups in `a`
    with `a`'s hasher) both return, with the same Boolean. -/
theorem eq_symm (hc : CfgOk cfg) {envA envB : Env} {Ha Hb : Nat → Nat} (hlA : Lawful envA Ha)
    (hlB : Lawful envB Hb) (a b : Raw) (w1 w2 : World) (ha : InvL cfg Ha a) (hb : InvL cfg Hb b) :
    ∃ r w1' w2', Map.mapEq cfg envB b { w1 with t := a } = .ok (r, w1') ∧
      Map.mapEq cfg envA a { w2 with t := b } = .ok (r, w2') := by
  obtain ⟨r1, w1', h1, _, _, e1⟩ := eq_spec_finmap hc hlB a b w1 ha hb
  obtain ⟨r2, w2', h2, _, _, e2⟩ := eq_spec_finmap hc hlA b a w2 hb ha
  have : r1 = r2 := by
    rw [Bool.eq_iff_iff, e1, e2]
    exact ⟨fun h k => (h k).symm, fun h k => (h k).symm⟩
  subst this
  exact ⟨r1, w1', w2', h1, h2⟩

/-! ### `PartialEq for HashSet` -/

theorem eq_elemsOf (hc : CfgOk cfg) {t : Raw} (h : Inv cfg t) : Set.elemsOf cfg t = .ok t.elems := by
  have hfold : ∀ (F : Nat → Except String (List Elem) → Except String (List Elem)),
      (∀ i l e, slotGet t i = .ok e → F i (.ok l) = .ok (e :: l)) →
      ∀ idxs : List Nat, (∀ i ∈ idxs, ab_slot t i = some (ab_elem t i)) →
      idxs.foldr F (Except.ok []) = .ok (idxs.map (ab_elem t)) := by
    intro F hF idxs
    induction idxs with
    | nil => intro _; rfl
    | cons i rest ih =>
      intro hsl
      rw [List.foldr_cons, ih (fun k hk => hsl k (List.mem_cons_of_mem _ hk)),
        hF _ _ _ (ab_slotGet (hsl i List.mem_cons_self))]
      rfl
  simp only [Set.elemsOf, fullIndices_spec hc h]
  refine (hfold _ ?_ _ (fun i hi => h.ab_full hc hi)).trans (by rw [← ab_elems_map hc h])
  intro i l e he
  simp only [he]

/-- `xs.iter().all(|k| b.contains(k))` with a lawful hasher / `Eq` for `b`. -/
theorem eq_allIn_lawful (hc : CfgOk cfg) {env : Env} {H : Nat → Nat} (hl : Lawful env H) (b : Raw)
    (hb : InvL cfg H b) :
    ∀ (xs : List Elem) (w : World), ∃ r w', Set.allIn cfg env b xs w = .ok (r, w') ∧ w'.t = w.t ∧
      w'.log = w.log ∧ (r = true ↔ ∀ e ∈ xs, ∃ e' ∈ b.elems, e'.k = e.k) := by
  intro xs
  induction xs with
  | nil => intro w; exact ⟨true, w, rfl, rfl, rfl, by simp⟩
  | cons e rest ih =>
    intro w
    obtain ⟨r, w1, hg, _, hlog, h1, h2⟩ := rf_getInner_spec hc hl e.k { w with t := b } hb
    have h1' : ∀ idx, r = some idx ↔ ∃ x, b.slots[idx]?.join = some x ∧ x.k = e.k := h1
    have h2' : r = none ↔ ∀ (j : Nat) (x : Elem), b.slots[j]?.join = some x → x.k ≠ e.k := h2
    have hlog1 : w1.log = w.log := hlog
    have hci : Set.containsIn cfg env b e.k w = .ok (r.isSome, { w1 with t := w.t }) := by
      simp only [Set.containsIn, hg]
    rw [Set.allIn, hci]
    cases r with
    | none =>
      refine ⟨false, _, rfl, rfl, hlog1, ⟨(fun h => by cases h), fun hall => ?_⟩⟩
      obtain ⟨e', hm, hk⟩ := hall e List.mem_cons_self
      obtain ⟨j, hj⟩ := mem_elems.mp hm
      exact absurd hk (h2'.mp rfl j e' hj)
    | some j =>
      obtain ⟨e', hj, hk⟩ := (h1' j).mp rfl
      obtain ⟨r2, w', hrun, ht, hlog', hiff⟩ := ih { w1 with t := w.t }
      refine ⟨r2, w', hrun, ht, hlog'.trans hlog1, ?_⟩
      rw [hiff]
      constructor
      · intro hall x hx
        rcases List.mem_cons.mp hx with rfl | hx
        · exact ⟨e', mem_elems.mpr ⟨j, hj⟩, hk⟩
        · exact hall x hx
      · intro hall x hx
        exact hall x (List.mem_cons_of_mem _ hx)

/-- Same length and key inclusion is equality of the key sets (key-distinct lists). -/
theorem eq_keyset_iff {l1 l2 : AL} (h1 : l1.keysNodup) (h2 : l2.keysNodup) :
    (l1.length = l2.length ∧ ∀ e ∈ l1, ∃ e' ∈ l2, e'.k = e.k) ↔
    ∀ k, k ∈ l1.map (·.k) ↔ k ∈ l2.map (·.k) := by
  constructor
  · rintro ⟨hlen, hinc⟩
    have hsub : l1.map (·.k) ⊆ l2.map (·.k) := by
      intro x hx
      obtain ⟨e, he, rfl⟩ := List.mem_map.mp hx
      obtain ⟨e', he', hk⟩ := hinc e he
      exact List.mem_map.mpr ⟨e', he', hk⟩
    have hperm : (l1.map (·.k)).Perm (l2.map (·.k)) :=
      (List.subperm_of_subset h1 hsub).perm_of_length_le (by simp [hlen])
    exact fun k => hperm.mem_iff
  · intro hall
    have hperm : (l1.map (·.k)).Perm (l2.map (·.k)) :=
      (List.perm_ext_iff_of_nodup h1 h2).mpr hall
    refine ⟨by simpa using hperm.length_eq, ?_⟩
    intro e he
    obtain ⟨e', he', hk⟩ := List.mem_map.mp ((hall e.k).mp (List.mem_map.mpr ⟨e, he, rfl⟩))
    exact ⟨e', he', hk⟩

/-- **`PartialEq for HashSet`**: `a == b` returns, changes nothing, and is `true` exactly when both
    sets hold the same keys (hashers `Ha`, `Hb` may differ; only `b`'s is called). -/
theorem eq_setEq_spec (hc : CfgOk cfg) {env : Env} {Ha Hb : Nat → Nat} (hl : Lawful env Hb) (a b : Raw)
    (w : World) (ha : InvL cfg Ha a) (hb : InvL cfg Hb b) :
    ∃ r w', Set.setEq cfg env b { w with t := a } = .ok (r, w') ∧ w'.t = a ∧ w'.log = w.log ∧
      (r = true ↔ ∀ k, k ∈ a.elems.map (·.k) ↔ k ∈ b.elems.map (·.k)) := by
  have hla := ab_elems_length hc ha.toInv
  have hlb := ab_elems_length hc hb.toInv
  have hkey := eq_keyset_iff (elems_keysNodup ha) (elems_keysNodup hb)
  by_cases hit : a.items ≠ b.items
  · have hres : Set.setEq cfg env b { w with t := a } = .ok (false, { w with t := a }) := by
      simp only [Set.setEq]
      rw [if_pos hit]
    refine ⟨false, _, hres, rfl, rfl, ⟨(fun h => by cases h), fun hx => ?_⟩⟩
    have := (hkey.mpr hx).1
    rw [hla, hlb] at this
    exact absurd this hit
  · have hit' : a.items = b.items := by
      by_contra hne; exact hit hne
    obtain ⟨r, w', hrun, ht, hlog, hiff⟩ := eq_allIn_lawful hc hl b hb a.elems { w with t := a }
    have hres : Set.setEq cfg env b { w with t := a } = .ok (r, w') := by
      simp only [Set.setEq]
      rw [if_neg hit, eq_elemsOf hc ha.toInv]
      exact hrun
    refine ⟨r, w', hres, ht, hlog, ?_⟩
    rw [hiff, ← hkey, hla, hlb]
    exact ⟨fun h => ⟨hit', h⟩, fun h => h.2⟩

/-- `==` on sets is symmetric. -/
theorem eq_setEq_symm (hc : CfgOk cfg) {envA envB : Env} {Ha Hb : Nat → Nat} (hlA : Lawful envA Ha)
    (hlB : Lawful envB Hb) (a b : Raw) (w1 w2 : World) (ha : InvL cfg Ha a) (hb : InvL cfg Hb b) :
    ∃ r w1' w2', Set.setEq cfg envB b { w1 with t := a } = .ok (r, w1') ∧
      Set.setEq cfg envA a { w2 with t := b } = .ok (r, w2') := by
  obtain ⟨r1, w1', h1, _, _, e1⟩ := eq_setEq_spec hc hlB a b w1 ha hb
  obtain ⟨r2, w2', h2, _, _, e2⟩ := eq_setEq_spec hc hlA b a w2 hb ha
  have : r1 = r2 := by
    rw [Bool.eq_iff_iff, e1, e2]
    exact ⟨fun h k => (h k).symm, fun h k => (h k).symm⟩
  subst this
  exact ⟨r1, w1', w2', h1, h2⟩

/-! ### a clone compares equal to its source -/

theorem eq_incl_of_kv {l1 l2 : List Elem}
    (h : l1.map (fun e => (e.k, e.v)) = l2.map (fun e => (e.k, e.v))) :
    l1.length = l2.length ∧ ∀ e ∈ l1, ∃ e' ∈ l2, e'.k = e.k ∧ e'.v = e.v := by
  refine ⟨by simpa using congrArg List.length h, ?_⟩
  intro e he
  have hm : (e.k, e.v) ∈ l2.map (fun e => (e.k, e.v)) := by
    rw [← h]; exact List.mem_map.mpr ⟨e, he, rfl⟩
  obtain ⟨e', he', hkv⟩ := List.mem_map.mp hm
  simp only [Prod.mk.injEq] at hkv
  exact ⟨e', he', hkv.1, hkv.2⟩

/-- Two tables holding the same `(key, value)` pairs bucket by bucket compare equal (the identities of
    the objects are not looked at). -/
theorem eq_of_same_kv (hc : CfgOk cfg) {env : Env} {H : Nat → Nat} (hl : Lawful env H) (a b : Raw)
    (w : World) (ha : Inv cfg a) (hb : InvL cfg H b)
    (hkv : a.elems.map (fun e => (e.k, e.v)) = b.elems.map (fun e => (e.k, e.v))) :
    ∃ w', Map.mapEq cfg env b { w with t := a } = .ok (true, w') ∧ w'.t = a ∧ w'.log = w.log := by
  obtain ⟨r, w', h1, h2, h3, h4⟩ := eq_spec hc hl a b w ha hb
  have hr : r = true := h4.mpr (eq_incl_of_kv hkv)
  subst hr
  exact ⟨w', h1, h2, h3⟩

/-- **`clone()` compares equal to its source**, both ways round. -/
theorem eq_clone (hc : CfgOk cfg) {env : Env} {H : Nat → Nat} (hl : Lawful env H) (w : World)
    (h : RI cfg H w.t) {nt : Raw} {w' : World} (hr : Map.cloneTable cfg env w = .ok (nt, w'))
    (wq : World) :
    (∃ wf, Map.mapEq cfg env w.t { wq with t := nt } = .ok (true, wf)) ∧
    (∃ wf, Map.mapEq cfg env nt { wq with t := w.t } = .ok (true, wf)) := by
  have hnt := eq_clone_invL hc env w h hr
  have hs := cloneTable_spec hc env w ⟨h.1.toInv, h.2⟩
  rw [hr] at hs
  obtain ⟨_, _, _, _, _, _, _, a8, a9, _⟩ := hs
  have hkv : nt.elems.map (fun e => (e.k, e.v)) = w.t.elems.map (fun e => (e.k, e.v)) := by
    rw [a8] at a9 ⊢
    exact eq_cloneList_kv env _ _ a9
  obtain ⟨w1, e1, _⟩ := eq_of_same_kv hc hl nt w.t wq hnt.1.toInv h.1 hkv
  obtain ⟨w2, e2, _⟩ := eq_of_same_kv hc hl w.t nt wq h.1.toInv hnt.1 hkv.symm
  exact ⟨⟨w1, e1⟩, ⟨w2, e2⟩⟩

/-- **After `clone_from(src)` the target compares equal to `src`**, whatever the target held. -/
theorem eq_cloneFrom (hc : CfgOk cfg) {env : Env} {H : Nat → Nat} (hl : Lawful env H) (src : Raw)
    (w w' : World) (h : TInvB cfg w.t) (hs : RI cfg H src)
    (hr : Map.cloneFrom cfg env src w = .ok w') (wq : World) :
    (∃ wf, Map.mapEq cfg env src { wq with t := w'.t } = .ok (true, wf)) ∧
    (∃ wf, Map.mapEq cfg env w'.t { wq with t := src } = .ok (true, wf)) := by
  have hnt := eq_cloneFrom_invL hc env src w w' h hs hr
  have hsp := cloneFrom_spec hc env src w h ⟨hs.1.toInv, hs.2⟩
  rw [hr] at hsp
  obtain ⟨_, _, _, a4, a5, _⟩ := hsp
  have hkv : w'.t.elems.map (fun e => (e.k, e.v)) = src.elems.map (fun e => (e.k, e.v)) := by
    rw [a4] at a5 ⊢
    exact eq_cloneList_kv env _ _ a5
  obtain ⟨w1, e1, _⟩ := eq_of_same_kv hc hl w'.t src wq hnt.1.toInv hs.1 hkv
  obtain ⟨w2, e2, _⟩ := eq_of_same_kv hc hl src w'.t wq hs.1.toInv hnt.1 hkv.symm
  exact ⟨⟨w1, e1⟩, ⟨w2, e2⟩⟩

/-! ## E. `clone_from`: the paths; independence -/

/-- `clone_from` of an unallocated source leaves the unallocated singleton. -/
theorem eq_cloneFrom_unalloc (hc : CfgOk cfg) (env : Env) (src : Raw) (w w' : World)
    (h : TInvB cfg w.t) (hs : TInvB cfg src) (hal : src.alloc = false)
    (hr : Map.cloneFrom cfg env src w = .ok w') : w'.t = Raw.new cfg.W := by
  have hse := hs.1.isEmptySingleton_eq
  rw [hal] at hse
  rw [cloneFrom_eq, hse] at hr
  simp only [Bool.not_false, if_true] at hr
  have hd := dropInnerTable_spec hc env w.t { w with t := Raw.new cfg.W } h
  rw [hr] at hd
  exact hd.1

/-- Allocator traffic of `clone_from`, path by path. -/
theorem eq_cfBlockEvs_cases (t src : Raw) (ht : Inv cfg t) (hs : Inv cfg src) :
    (src.alloc = false → cfBlockEvs cfg t src =
      (if t.alloc = true then
        [Ev.free (layoutOf cfg t.buckets).size (layoutOf cfg t.buckets).align] else [])) ∧
    (src.alloc = true → t.buckets = src.buckets → cfBlockEvs cfg t src = [] ∧ t.alloc = true) ∧
    (src.alloc = true → t.buckets ≠ src.buckets → cfBlockEvs cfg t src =
      (if t.alloc = true then
        [Ev.free (layoutOf cfg t.buckets).size (layoutOf cfg t.buckets).align] else []) ++
      [Ev.alloc (layoutOf cfg src.buckets).size (layoutOf cfg src.buckets).align]) := by
  have hb4 : ∀ x : Raw, Inv cfg x → x.alloc = true → x.buckets ≠ 1 := by
    intro x hx ha
    obtain ⟨k, hk, hb, _⟩ := IsAllocated.mask_eq (hx.allocated ha)
    have : 2 ^ 2 ≤ 2 ^ k := Nat.pow_le_pow_right (by decide) hk
    omega
  have hb1 : ∀ x : Raw, Inv cfg x → x.alloc = false → x.buckets = 1 := by
    intro x hx ha
    rcases hx.geom with h1 | h2
    · simp [Raw.buckets, h1.2.1]
    · rw [h2.1] at ha; cases ha
  refine ⟨fun hal => ?_, fun hal hb => ?_, fun hal hb => ?_⟩
  · have hsb := hb1 src hs hal
    cases hta : t.alloc with
    | false =>
      have := hb1 t ht hta
      simp [cfBlockEvs, hsb, this]
    | true =>
      have := hb4 t ht hta
      simp [cfBlockEvs, hsb, this, hal, hta]
  · refine ⟨by simp [cfBlockEvs, hb], ?_⟩
    cases hta : t.alloc with
    | true => rfl
    | false =>
      have := hb1 t ht hta
      exact absurd (hb ▸ this) (hb4 src hs hal)
  · simp [cfBlockEvs, hb, hal]

/-! #### `HashTable::clone_from` (the default `*self = source.clone()`) -/

/-- `HashTable` has no specialised `clone_from`: the source is cloned first (a panicking `Clone` or a
    refusing allocator leaves the target untouched), then the old target is dropped — every old element
    exactly once, its block freed — and the clone moved in; if a destructor of the old target panics
    the assignment still completes (the target is the clone). The target may be in any state. -/
theorem eq_tableCloneFrom_spec (hc : CfgOk cfg) (env : Env) (src : Raw) (w : World) (h : TInvB cfg w.t)
    (hs : TInvB cfg src) :
    match Table.cloneFrom cfg env src w with
    | .ok w' => TInvB cfg w'.t ∧ w'.t.mask = src.mask ∧ w'.t.ctrl = src.ctrl ∧ w'.t.alloc = src.alloc ∧
        w'.t.elems = cloneList env w.cc src.elems ∧ w'.t.elems.length = src.elems.length ∧
        w'.log = (if w.t.alloc = true then
              [Ev.free (layoutOf cfg w.t.buckets).size (layoutOf cfg w.t.buckets).align] else []) ++
            dropEvs cfg w.t.elems.reverse ++
            ((if src.alloc = true then
              [Ev.alloc (layoutOf cfg src.buckets).size (layoutOf cfg src.buckets).align] else []) ++ w.log)
    | .panic c w' => (c = "clone" ∧ w'.t = w.t) ∨
        (c = "drop" ∧ TInvB cfg w'.t ∧ w'.t.mask = src.mask ∧ w'.t.ctrl = src.ctrl ∧
          w'.t.elems = cloneList env w.cc src.elems ∧ w'.t.elems.length = src.elems.length)
    | .abort => src.alloc = true ∧ env.allocOk w.ac = false
    | .fault _ => False := by
  have hs1 := cloneTable_spec hc env { w with t := src } hs
  unfold Table.cloneFrom
  generalize Map.cloneTable cfg env { w with t := src } = r at hs1 ⊢
  match r, hs1 with
  | .ok (nt, w1), ⟨a1, _, a3, a4, _, _, a7, a8, a9, _, a11⟩ =>
    simp only
    have hd := dropInnerTable_spec hc env w.t { w1 with t := nt } h
    generalize dropInnerTable cfg env w.t { w1 with t := nt } = r2 at hd ⊢
    match r2, hd with
    | .ok w', ⟨b1, b2, _⟩ =>
      have ht : w'.t = nt := b1
      refine ⟨by rw [ht]; exact a1, by rw [ht]; exact a3, by rw [ht]; exact a4, by rw [ht]; exact a7,
        by rw [ht]; exact a8, by rw [ht]; exact a9, ?_⟩
      rw [b2]
      show _ ++ _ ++ w1.log = _
      rw [a11]
    | .panic c w', ⟨b1, b2, _⟩ =>
      have ht : w'.t = nt := b2
      exact Or.inr ⟨b1, by rw [ht]; exact a1, by rw [ht]; exact a3, by rw [ht]; exact a4,
        by rw [ht]; exact a8, by rw [ht]; exact a9⟩
    | .abort, hd => exact hd.elim
    | .fault _, hd => exact hd.elim
  | .panic c w', ⟨a1, _⟩ => exact Or.inl ⟨a1, rfl⟩
  | .abort, hs1 => exact hs1
  | .fault _, hs1 => exact hs1.elim

/-- `HashTable::clone_from` into any target keeps the source's hash-dependent invariant and gives a
    table with the source's `(key, payload)` pairs bucket by bucket. -/
theorem eq_tableCloneFrom_invL (hc : CfgOk cfg) (env : Env) {H : Nat → Nat} (src : Raw) (w w' : World)
    (h : TInvB cfg w.t) (hs : RI cfg H src) (hr : Table.cloneFrom cfg env src w = .ok w') :
    RI cfg H w'.t ∧
    w'.t.elems.map (fun e => (e.k, e.v)) = src.elems.map (fun e => (e.k, e.v)) := by
  have hsp := eq_tableCloneFrom_spec hc env src w h ⟨hs.1.toInv, hs.2⟩
  rw [hr] at hsp
  obtain ⟨a1, a2, a3, _, a5, a6, _⟩ := hsp
  have hlen : (cloneList env w.cc src.elems).length = src.elems.length := by rw [← a5]; exact a6
  refine ⟨⟨eq_invL_transfer hc hs.1 a1.1 a2 a3 ?_, a1.2⟩, ?_⟩
  · rw [a5]; exact eq_cloneList_keys env _ _ hlen
  · rw [a5]; exact eq_cloneList_kv env _ _ hlen

/-- The model is value-semantic: a pair "source world, clone table" evolves component-wise. Whatever
    is done to the first collection leaves the second table value alone, and vice versa. (This is
    true by construction of the model; that the real code shares no memory between a clone and its
    source is what the correspondence runs check.) -/
def eq_onFirst (f : World → World) (p : World × Raw) : World × Raw := (f p.1, p.2)

/-- Run `f` on the second collection (the table `p.2`, sharing counters and log with the world). -/
def eq_onSecond (f : World → World) (p : World × Raw) : World × Raw :=
  let r := f { p.1 with t := p.2 }
  ({ r with t := p.1.t }, r.t)

theorem eq_independent (fs : List (World → World)) (p : World × Raw) :
    (fs.foldl (fun p f => eq_onFirst f p) p).2 = p.2 ∧
    (fs.foldl (fun p f => eq_onSecond f p) p).1.t = p.1.t := by
  induction fs generalizing p with
  | nil => exact ⟨rfl, rfl⟩
  | cons f fs ih =>
    simp only [List.foldl_cons]
    exact ⟨(ih (eq_onFirst f p)).1, (ih (eq_onSecond f p)).2⟩

/-! ## F. non-vacuity -/

/-- Lawful environment for the examples: `H k = k * 2^57 + k` (`rfH`), clones get identities
    `1000 + call`, `2000 + call`. -/
def eqExEnv : Env :=
  { hash := fun _ k => some (rfH k), eq := fun _ q e => some (q == e.k),
    clone := fun c _ => some (1000 + c, 2000 + c),
    pred := fun _ e => some (true, e.v), allocOk := fun _ => true, dropPanics := fun _ _ => false }

theorem eqExEnv_lawful : Lawful eqExEnv rfH := ⟨fun _ _ => rfl, fun _ _ _ => rfl⟩

def eqExCfg : Cfg := { ops := Generic.ops }

/-- The table a history leaves (portable scanner), starting from `new()`. -/
def eqExRun (ops : List MapOp) : Raw :=
  match Map.run eqExCfg eqExEnv ops { t := Raw.new 8 } with
  | some (_, w) => w.t
  | none => Raw.new 8

/-- `{1 ↦ 10, 5 ↦ 50, 2 ↦ 20}` inserted in this order: 4 buckets, keys 1 and 5 collide (iteration
    order 1, 5, 2), no tombstone. -/
def eqExA : Raw := eqExRun [.insert ⟨1, 1, 1, 10⟩, .insert ⟨5, 5, 5, 50⟩, .insert ⟨2, 2, 2, 20⟩]

/-- The same three pairs inserted in another order (other key / value objects), followed by six more
    keys that are removed again: 16 buckets, iteration order 1, 2, 5, different capacity, tombstones. -/
def eqExB : Raw :=
  eqExRun [.insert ⟨5, 15, 15, 50⟩, .insert ⟨2, 12, 12, 20⟩, .insert ⟨1, 11, 11, 10⟩,
    .insert ⟨3, 3, 3, 0⟩, .insert ⟨4, 4, 4, 0⟩, .insert ⟨6, 6, 6, 0⟩, .insert ⟨7, 7, 7, 0⟩,
    .insert ⟨8, 8, 8, 0⟩, .insert ⟨9, 9, 9, 0⟩,
    .remove 9, .remove 8, .remove 7, .remove 6, .remove 4, .remove 3]

/-- As `eqExA` with one value changed. -/
def eqExC : Raw := eqExRun [.insert ⟨1, 1, 1, 10⟩, .insert ⟨5, 5, 5, 51⟩, .insert ⟨2, 2, 2, 20⟩]

/-- Outcome of `a == b` as a number: 1 = `true`, 0 = `false`, 2 = anything else. -/
def eqExCmp (a b : Raw) : Nat :=
  match Map.mapEq eqExCfg eqExEnv b { t := a } with
  | .ok (true, _) => 1
  | .ok (false, _) => 0
  | _ => 2

/-- Both tables satisfy the (executable) hash-dependent invariant; they differ in bucket count and
    iteration order, and `eqExB` has tombstones. -/
theorem eqEx_tables :
    invLB eqExCfg rfH eqExA = true ∧ invLB eqExCfg rfH eqExB = true ∧ invLB eqExCfg rfH eqExC = true ∧
    eqExA.buckets = 4 ∧ eqExB.buckets = 16 ∧ eqExA.items = 3 ∧ eqExB.items = 3 ∧
    eqExA.elems.map (·.k) = [1, 5, 2] ∧ eqExB.elems.map (·.k) = [1, 2, 5] ∧
    eqExA.countCtrl (· == DELETED) = 0 ∧ 0 < eqExB.countCtrl (· == DELETED) := by
  decide +kernel

/-- Same pairs, different insertion order / removal history / capacity: equal, both ways round; one
    value changed: not equal, both ways round. -/
theorem eqEx_compare :
    eqExCmp eqExA eqExB = 1 ∧ eqExCmp eqExB eqExA = 1 ∧ eqExCmp eqExA eqExA = 1 ∧
    eqExCmp eqExA eqExC = 0 ∧ eqExCmp eqExC eqExA = 0 ∧ eqExCmp eqExB eqExC = 0 ∧
    eqExCmp eqExC eqExB = 0 := by
  decide +kernel

/-- `clone` / `clone_from` of the tombstoned table: same pairs, fresh identities, equal to the
    source; `clone_from` into a target of another size (`eqExC`, 4 buckets) drops the target's three
    elements and yields a 16-bucket table equal to the source. -/
theorem eqEx_clone :
    (match Map.cloneTable eqExCfg eqExEnv { t := eqExB } with
     | .ok (nt, _) =>
       nt.elems == [⟨1, 1000, 2000, 10⟩, ⟨2, 1001, 2001, 20⟩, ⟨5, 1002, 2002, 50⟩] &&
       invLB eqExCfg rfH nt && eqExCmp nt eqExB == 1 && eqExCmp eqExB nt == 1 && eqExCmp nt eqExA == 1
     | _ => false) = true ∧
    (match Map.cloneFrom eqExCfg eqExEnv eqExB { t := eqExC } with
     | .ok w' =>
       w'.t.elems == [⟨1, 1000, 2000, 10⟩, ⟨2, 1001, 2001, 20⟩, ⟨5, 1002, 2002, 50⟩] &&
       invLB eqExCfg rfH w'.t && w'.t.buckets == 16 && eqExCmp w'.t eqExB == 1 &&
       eqExCmp eqExA w'.t == 1 && w'.dc == 3
     | _ => false) = true := by
  decide +kernel

#print axioms eq_retainKept_zipIdx
#print axioms eq_retainKept_pure
#print axioms eq_cloneList_get
#print axioms eq_cloneList_ids
#print axioms eq_cloneList_fresh
#print axioms eq_cloneList_nodup
#print axioms eq_invL_transfer
#print axioms eq_clone_invL
#print axioms eq_cloneFrom_ctrl
#print axioms eq_cloneFrom_invL
#print axioms eq_eqLoop_lawful
#print axioms eq_spec
#print axioms eq_finmap_iff
#print axioms eq_spec_finmap
#print axioms eq_symm
#print axioms eq_setEq_spec
#print axioms eq_setEq_symm
#print axioms eq_clone
#print axioms eq_cloneFrom
#print axioms eq_cloneFrom_unalloc
#print axioms eq_cfBlockEvs_cases
#print axioms eq_tableCloneFrom_spec
#print axioms eq_tableCloneFrom_invL
#print axioms eq_independent
#print axioms eqEx_tables
#print axioms eqEx_compare
#print axioms eqEx_clone

end Hb
