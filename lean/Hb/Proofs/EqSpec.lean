/-
`clone`, `clone_from`, `==` of the `HashMap` model for LAWFUL environments (properties C11), plus a few
list-level facts about `retainKept` / `retainDropped` used by the C10 property file.

Everything here is built on `Hb/Proofs/ApiBulk.lean` (`cloneTable_spec`, `cloneFrom_spec`,
`getInner`-totality) and `Hb/Proofs/Refine.lean` (`rf_getInner_spec`, `elems_find`, `mem_elems`).

Contents
  A  `retainKept` / `retainDropped`: position-indexed form (`eq_retainKept_zipIdx`), pure predicates
     (`eq_retainKept_pure` = `AL.retain`), every sublist is the true-set of a pure predicate.
  B  `cloneList`: position-wise description, same keys / payloads, identities = the oracle's answers.
  C  `InvL` is carried over to a table with the same control bytes and the same keys in bucket order
     (`eq_invL_transfer`); `clone` (`eq_clone_invL`) and `clone_from` into any target
     (`eq_cloneFrom_ctrl`, `eq_cloneFrom_invL`).
  D  `==`: `eq_eqLoop_lawful`, `eq_spec`, finite-map form `eq_finmap_iff`, `eq_spec_finmap`, `eq_symm`,
     `eq_clone`.
  E  `clone_from` paths (`eq_cloneFrom_paths`), value-semantics remark (`eq_independent`).
  F  non-vacuity (`decide +kernel`).

On "independently owned" / "unaffected by later changes": the model is value-semantic, a `Raw` value
cannot alias another one, so independence of clone and source is true by construction in the model
(`eq_independent` states it for the record). That the REAL code shares nothing between a clone and its
source is not a theorem about the model: it is covered by the correspondence check (profiles that
mutate source and clone after `clone` / `clone_from` and compare both against the model), and by
the drop accounting (identities of clones are the oracle's fresh answers: `eq_cloneList_ids`).
-/
import Batteries.Data.List.Perm
import Hb.Proofs.ApiBulk
import Hb.Proofs.Refine
namespace Hb

variable {cfg : Cfg}

/-! ## A. `retainKept` / `retainDropped` -/

/-- Answer of predicate call number `c` on `e`, as "kept element". -/
def eq_keptAt (env : Env) (c : Nat) (e : Elem) : Option Elem :=
  match env.pred c e with
  | some (true, nv) => some { e with v := nv }
  | _ => none

/-- Answer of predicate call number `c` on `e`, as "rejected element". -/
def eq_droppedAt (env : Env) (c : Nat) (e : Elem) : Option Elem :=
  match env.pred c e with
  | some (false, nv) => some { e with v := nv }
  | _ => none

theorem eq_retainKept_zipIdx_aux (env : Env) (pc : Nat) : ∀ (l : List Elem) (n : Nat),
    retainKept env (pc + n) l = (l.zipIdx n).filterMap fun p => eq_keptAt env (pc + p.2) p.1 := by
  intro l
  induction l with
  | nil => intro n; rfl
  | cons e es ih =>
    intro n
    have := ih (n + 1)
    rw [← Nat.add_assoc] at this
    simp only [retainKept, List.zipIdx_cons, List.filterMap_cons, eq_keptAt]
    cases hp : env.pred (pc + n) e with
    | none => simpa [eq_keptAt] using this
    | some ans =>
      obtain ⟨b, nv⟩ := ans
      cases b
      · simpa [eq_keptAt] using this
      · simp only [List.cons.injEq, true_and]; simpa [eq_keptAt] using this

theorem eq_retainDropped_zipIdx_aux (env : Env) (pc : Nat) : ∀ (l : List Elem) (n : Nat),
    retainDropped env (pc + n) l = (l.zipIdx n).filterMap fun p => eq_droppedAt env (pc + p.2) p.1 := by
  intro l
  induction l with
  | nil => intro n; rfl
  | cons e es ih =>
    intro n
    have := ih (n + 1)
    rw [← Nat.add_assoc] at this
    simp only [retainDropped, List.zipIdx_cons, List.filterMap_cons, eq_droppedAt]
    cases hp : env.pred (pc + n) e with
    | none => simpa [eq_droppedAt] using this
    | some ans =>
      obtain ⟨b, nv⟩ := ans
      cases b
      · simp only [List.cons.injEq, true_and]; simpa [eq_droppedAt] using this
      · simpa [eq_droppedAt] using this

/-- The kept elements, position by position: element number `i` (bucket order) is judged by predicate
    call number `pc + i` and by no other call. -/
theorem eq_retainKept_zipIdx (env : Env) (pc : Nat) (l : List Elem) :
    retainKept env pc l = l.zipIdx.filterMap fun p => eq_keptAt env (pc + p.2) p.1 :=
  eq_retainKept_zipIdx_aux env pc l 0

theorem eq_retainDropped_zipIdx (env : Env) (pc : Nat) (l : List Elem) :
    retainDropped env pc l = l.zipIdx.filterMap fun p => eq_droppedAt env (pc + p.2) p.1 :=
  eq_retainDropped_zipIdx_aux env pc l 0

/-- If kept and dropped elements add up to the input, every predicate call returned. -/
theorem eq_retain_all_answered (env : Env) : ∀ (l : List Elem) (pc : Nat),
    (retainKept env pc l).length + (retainDropped env pc l).length = l.length →
    ∀ i e, l[i]? = some e → ∃ b nv, env.pred (pc + i) e = some (b, nv) := by
  intro l
  induction l with
  | nil => intro pc _ i e h; simp at h
  | cons a es ih =>
    intro pc hlen i e hi
    have hle := retain_lengths_le env es (pc + 1)
    simp only [retainKept, retainDropped] at hlen
    cases hp : env.pred pc a with
    | none =>
      rw [hp] at hlen
      simp only [List.length_cons] at hlen
      omega
    | some ans =>
      obtain ⟨b, nv⟩ := ans
      rw [hp] at hlen
      have hrest : (retainKept env (pc + 1) es).length + (retainDropped env (pc + 1) es).length =
          es.length := by
        cases b <;> simp only [List.length_cons] at hlen <;> omega
      cases i with
      | zero =>
        simp only [List.getElem?_cons_zero, Option.some.injEq] at hi
        subst hi
        exact ⟨b, nv, hp⟩
      | succ j =>
        simp only [List.getElem?_cons_succ] at hi
        have := ih (pc + 1) hrest j e hi
        rw [show pc + (j + 1) = pc + 1 + j by omega]
        exact this

/-- With a pure predicate `P` the kept elements are `AL.retain P` (a `filterMap`), whatever the call
    numbers. -/
theorem eq_retainKept_pure {env : Env} {P : AL.Pred} (hP : ∀ c e, env.pred c e = some (P e)) :
    ∀ (l : List Elem) (pc : Nat), retainKept env pc l = AL.retain P l := by
  intro l
  induction l with
  | nil => intro pc; rfl
  | cons e es ih =>
    intro pc
    rw [rf_retain_cons]
    simp only [retainKept, hP]
    cases h : P e with
    | mk b nv =>
      cases b
      · simpa using ih (pc + 1)
      · simpa using ih (pc + 1)

theorem eq_retainDropped_pure {env : Env} {P : AL.Pred} (hP : ∀ c e, env.pred c e = some (P e)) :
    ∀ (l : List Elem) (pc : Nat), retainDropped env pc l = AL.removed P l := by
  intro l
  induction l with
  | nil => intro pc; rfl
  | cons e es ih =>
    intro pc
    rw [rf_removed_cons]
    simp only [retainDropped, hP]
    cases h : P e with
    | mk b nv =>
      cases b
      · simpa using ih (pc + 1)
      · simpa using ih (pc + 1)

/-- A predicate that does not write: `retain` is `filter`. -/
theorem eq_retain_filter (S : Elem → Bool) (l : List Elem) :
    AL.retain (fun e => (S e, e.v)) l = l.filter S := by
  induction l with
  | nil => rfl
  | cons e es ih =>
    rw [rf_retain_cons, List.filter_cons, ih]

theorem eq_removed_filter (S : Elem → Bool) (l : List Elem) :
    AL.removed (fun e => (S e, e.v)) l = l.filter (fun e => !S e) := by
  induction l with
  | nil => rfl
  | cons e es ih =>
    rw [rf_removed_cons, List.filter_cons, ih]
    cases S e <;> rfl

/-- Every sublist of a duplicate-free list is what `filter` by membership keeps. -/
theorem eq_filter_mem_of_sublist {α} [DecidableEq α] {s l : List α} (hs : s.Sublist l) (hn : l.Nodup) :
    l.filter (fun x => decide (x ∈ s)) = s := by
  induction hs with
  | slnil => rfl
  | @cons s l a hs ih =>
    rw [List.nodup_cons] at hn
    have ha : a ∉ s := fun h => hn.1 (hs.subset h)
    rw [List.filter_cons]
    simp only [ha, decide_false, Bool.false_eq_true, if_false]
    exact ih hn.2
  | @cons_cons s l a hs ih =>
    rw [List.nodup_cons] at hn
    rw [List.filter_cons]
    simp only [List.mem_cons, true_or, decide_true, if_true, List.cons.injEq, true_and]
    rw [← ih hn.2]
    apply List.filter_congr
    intro x hx
    have hne : x ≠ a := fun h => hn.1 (h ▸ hx)
    simp only [hne, false_or]
    rw [ih hn.2]

end Hb
