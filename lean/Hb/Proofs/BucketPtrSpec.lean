/-
Theorems about the `Bucket<T>` pointer encoding (`Hb/Model/BucketPtr.lean`): for EVERY element size
(zero and non-zero), every base address and every index.

Side conditions.  The source's safety comments (`Bucket::from_base_index`, `Bucket::next_n`,
`RawTable::bucket`) require `index <= bucket_mask` and, for a sized `T`, that `base` is
`data_end()` of a table whose data part `[base - buckets * size, base)` lies inside one allocation —
in address terms `Fits c base mask : (mask + 1) * size ≤ base` (no wrap below 0; with
`FitsStrict` the block does not start at the null address, `NonNull::new_unchecked`).  The pseudo-pointer
`index + 1` of a zero-sized `T` needs `index + 1 ≤ usize::MAX`, which follows from `index ≤ mask < 2^bits`
(`fromBaseIndex_lt`).  Where a statement holds without a side condition (the model's `-` is truncated)
it is stated without one.
-/
import Hb.Model.BucketPtr
import Hb.Model.Iter
namespace Hb.BucketPtr

/-- The data part `[base - (mask + 1) * size, base)` does not wrap below address 0. -/
def Fits (c : BCfg) (base mask : Nat) : Prop := (mask + 1) * c.size ≤ base

/-- … and does not start at the null address. -/
def FitsStrict (c : BCfg) (base mask : Nat) : Prop := (mask + 1) * c.size < base

theorem FitsStrict.fits {c : BCfg} {base mask : Nat} (h : FitsStrict c base mask) : Fits c base mask :=
  Nat.le_of_lt h

private theorem mul_le_of_le_mask {i mask s base : Nat} (hf : (mask + 1) * s ≤ base) (hi : i ≤ mask) :
    i * s + s ≤ base := by
  have h1 : (i + 1) * s ≤ (mask + 1) * s := Nat.mul_le_mul_right s (by omega)
  rw [Nat.add_mul, Nat.one_mul] at h1
  omega

/-! ### `from_base_index` / `to_base_index` -/

theorem fromBaseIndex_zst {c : BCfg} (hz : c.size = 0) (base i : Nat) : fromBaseIndex c base i = i + 1 := by
  simp [fromBaseIndex, hz]

theorem fromBaseIndex_sized {c : BCfg} (hs : 0 < c.size) (base i : Nat) :
    fromBaseIndex c base i = base - i * c.size := by
  have : c.size ≠ 0 := by omega
  simp [fromBaseIndex, this]

/-- Round trip, both encodings: `bucket.to_base_index(base) = index` for `bucket = from_base_index(base, index)`. -/
theorem toBaseIndex_fromBaseIndex (c : BCfg) {base mask i : Nat} (hf : Fits c base mask) (hi : i ≤ mask) :
    toBaseIndex c base (fromBaseIndex c base i) = i := by
  unfold toBaseIndex fromBaseIndex
  by_cases hz : c.size = 0
  · simp [hz]
  · simp only [hz, if_false]
    have hb := mul_le_of_le_mask hf hi
    have : base - (base - i * c.size) = i * c.size := by omega
    rw [this]
    exact Nat.mul_div_cancel _ (by omega)

/-- `from_base_index` is injective on the indices of the table — for BOTH encodings (also for a
    zero-sized `T`, whose buckets are told apart only by the pseudo-pointer). -/
theorem fromBaseIndex_injective (c : BCfg) {base mask i j : Nat} (hf : Fits c base mask)
    (hi : i ≤ mask) (hj : j ≤ mask) (h : fromBaseIndex c base i = fromBaseIndex c base j) : i = j := by
  have h1 := toBaseIndex_fromBaseIndex c hf hi
  have h2 := toBaseIndex_fromBaseIndex c hf hj
  rw [h] at h1
  omega

/-- The bucket pointer is non-null (`NonNull::new_unchecked`) … -/
theorem fromBaseIndex_pos (c : BCfg) {base mask i : Nat} (hf : FitsStrict c base mask) (hi : i ≤ mask) :
    0 < fromBaseIndex c base i := by
  unfold fromBaseIndex
  by_cases hz : c.size = 0
  · simp [hz]
  · simp only [hz, if_false]
    have := mul_le_of_le_mask (Nat.le_of_lt hf) hi
    unfold FitsStrict at hf
    have h1 : (i + 1) * c.size ≤ (mask + 1) * c.size := Nat.mul_le_mul_right _ (by omega)
    rw [Nat.add_mul, Nat.one_mul] at h1
    omega

/-- … and fits a `usize` (`index + 1` does not overflow for a zero-sized `T`). -/
theorem fromBaseIndex_lt (c : BCfg) {bits base mask i : Nat} (hb : base < 2 ^ bits) (hm : mask < 2 ^ bits - 1)
    (hi : i ≤ mask) : fromBaseIndex c base i < 2 ^ bits := by
  unfold fromBaseIndex
  split <;> omega

/-- Sized `T`: the bucket pointers of the table lie in `(base - buckets * size, base]`. -/
theorem fromBaseIndex_range {c : BCfg} (hs : 0 < c.size) {base mask i : Nat} (hf : Fits c base mask) (hi : i ≤ mask) :
    base - (mask + 1) * c.size < fromBaseIndex c base i ∧ fromBaseIndex c base i ≤ base := by
  rw [fromBaseIndex_sized hs]
  have h1 : (i + 1) * c.size ≤ (mask + 1) * c.size := Nat.mul_le_mul_right _ (by omega)
  rw [Nat.add_mul, Nat.one_mul] at h1
  unfold Fits at hf
  omega

/-! ### `as_ptr` -/

theorem asPtr_fromBaseIndex_sized {c : BCfg} (hs : 0 < c.size) (base i : Nat) :
    asPtr c (fromBaseIndex c base i) = base - (i + 1) * c.size := by
  have : c.size ≠ 0 := by omega
  simp only [asPtr, fromBaseIndex, this, if_false, Nat.add_mul, Nat.one_mul]
  omega

/-- Sized `T`: the element of bucket `i` occupies `[as_ptr, as_ptr + size)` inside the data part, and the
    bucket pointer is its END (one past the element). -/
theorem asPtr_region {c : BCfg} (hs : 0 < c.size) {base mask i : Nat} (hf : Fits c base mask) (hi : i ≤ mask) :
    base - (mask + 1) * c.size ≤ asPtr c (fromBaseIndex c base i) ∧
    asPtr c (fromBaseIndex c base i) + c.size = fromBaseIndex c base i ∧
    fromBaseIndex c base i ≤ base := by
  rw [asPtr_fromBaseIndex_sized hs, fromBaseIndex_sized hs]
  have h1 : (i + 1) * c.size ≤ (mask + 1) * c.size := Nat.mul_le_mul_right _ (by omega)
  have h2 := mul_le_of_le_mask hf hi
  have e1 := Nat.add_one_mul i c.size
  unfold Fits at hf
  omega

/-- Sized `T`: consecutive elements are exactly `size` apart (growing DOWNWARDS). -/
theorem asPtr_succ {c : BCfg} (hs : 0 < c.size) {base mask i : Nat} (hf : Fits c base mask) (hi : i + 1 ≤ mask) :
    asPtr c (fromBaseIndex c base (i + 1)) + c.size = asPtr c (fromBaseIndex c base i) := by
  rw [asPtr_fromBaseIndex_sized hs, asPtr_fromBaseIndex_sized hs]
  have h2 := mul_le_of_le_mask hf hi
  simp only [Nat.add_mul, Nat.one_mul] at h2 ⊢
  omega

/-- Sized `T`: element regions of distinct buckets are disjoint (`j`'s region ends where or before `i`'s
    begins for `i < j`). -/
theorem asPtr_disjoint {c : BCfg} (hs : 0 < c.size) {base mask i j : Nat} (hf : Fits c base mask)
    (hij : i < j) (hj : j ≤ mask) :
    asPtr c (fromBaseIndex c base j) + c.size ≤ asPtr c (fromBaseIndex c base i) := by
  rw [asPtr_fromBaseIndex_sized hs, asPtr_fromBaseIndex_sized hs]
  have h2 := mul_le_of_le_mask hf hj
  have h3 : (i + 1) * c.size ≤ j * c.size := Nat.mul_le_mul_right _ (by omega)
  have e1 := Nat.add_one_mul i c.size
  have e2 := Nat.add_one_mul j c.size
  omega

/-- Sized `T`: element addresses of distinct buckets are distinct. -/
theorem asPtr_injective_sized {c : BCfg} (hs : 0 < c.size) {base mask i j : Nat} (hf : Fits c base mask)
    (hi : i ≤ mask) (hj : j ≤ mask)
    (h : asPtr c (fromBaseIndex c base i) = asPtr c (fromBaseIndex c base j)) : i = j := by
  rcases Nat.lt_trichotomy i j with hlt | heq | hgt
  · have := asPtr_disjoint hs hf hlt hj; omega
  · exact heq
  · have := asPtr_disjoint hs hf hgt hi; omega

/-- Zero-sized `T`: `as_ptr` is the SAME dangling address for every bucket (defect F2: `get_many_mut`
    compared these addresses to detect duplicates) … -/
theorem asPtr_zst {c : BCfg} (hz : c.size = 0) (b : Nat) : asPtr c b = danglingAddr c := by
  simp [asPtr, hz]

/-- … so `as_ptr` cannot tell buckets apart, while the `Bucket` pointers themselves still can. -/
theorem asPtr_zst_collides {c : BCfg} (hz : c.size = 0) (base i j : Nat) :
    asPtr c (fromBaseIndex c base i) = asPtr c (fromBaseIndex c base j) ∧
    (i ≠ j → fromBaseIndex c base i ≠ fromBaseIndex c base j) := by
  refine ⟨by rw [asPtr_zst hz, asPtr_zst hz], fun hne h => hne ?_⟩
  rw [fromBaseIndex_zst hz, fromBaseIndex_zst hz] at h
  omega

/-! ### `next_n` -/

/-- `from_base_index(base, i).next_n(k) = from_base_index(base, i + k)` — BOTH encodings.  (No side
    condition: truncated subtraction composes; that the result is in bounds is `fromBaseIndex_range`.) -/
theorem nextN_fromBaseIndex (c : BCfg) (base i k : Nat) :
    nextN c (fromBaseIndex c base i) k = fromBaseIndex c base (i + k) := by
  unfold nextN fromBaseIndex
  by_cases hz : c.size = 0
  · simp only [hz, if_true]; omega
  · simp only [hz, if_false, Nat.add_mul]; omega

theorem nextN_nextN (c : BCfg) (b j k : Nat) : nextN c (nextN c b j) k = nextN c b (j + k) := by
  unfold nextN
  by_cases hz : c.size = 0
  · simp only [hz, if_true]; omega
  · simp only [hz, if_false, Nat.add_mul]; omega

theorem nextN_zero (c : BCfg) (b : Nat) : nextN c b 0 = b := by
  unfold nextN; split <;> simp

/-- `next_n` in index terms. -/
theorem toBaseIndex_nextN (c : BCfg) {base mask i k : Nat} (hf : Fits c base mask) (hik : i + k ≤ mask) :
    toBaseIndex c base (nextN c (fromBaseIndex c base i) k) = i + k := by
  rw [nextN_fromBaseIndex, toBaseIndex_fromBaseIndex c hf hik]

/-- The "de-duplicated" `next_n` (seeded change C01-e): `Self::from_base_index(self.ptr, offset)`. -/
def nextNDedup (c : BCfg) (b offset : Nat) : Nat := fromBaseIndex c b offset

/-- It is the same function for a sized `T` (why no test with sized elements notices) … -/
theorem nextNDedup_sized {c : BCfg} (hs : 0 < c.size) (b k : Nat) : nextNDedup c b k = nextN c b k := by
  have : c.size ≠ 0 := by omega
  simp [nextNDedup, nextN, fromBaseIndex, this]

/-- … and wrong for a zero-sized `T` from EVERY bucket except the first: it forgets where it started. -/
theorem nextNDedup_zst_wrong {c : BCfg} (hz : c.size = 0) (base : Nat) {i : Nat} (hi : 0 < i) (k : Nat) :
    nextNDedup c (fromBaseIndex c base i) k ≠ fromBaseIndex c base (i + k) := by
  simp only [nextNDedup, fromBaseIndex, hz, if_true]
  omega

/-- Machine-checked witness: zero-sized `T`, bucket 1, offset 1 — the broken variant lands on bucket 1
    again (pseudo-pointer 2), the real `next_n` on bucket 2 (pseudo-pointer 3). -/
theorem nextNDedup_witness :
    nextNDedup { size := 0 } (fromBaseIndex { size := 0 } 4096 1) 1 = 2 ∧
    fromBaseIndex { size := 0 } 4096 (1 + 1) = 3 ∧
    nextN { size := 0 } (fromBaseIndex { size := 0 } 4096 1) 1 = 3 := by decide

/-- The `wrapping_add` variant (seeded change C06-e): for a zero-sized `T` pointer arithmetic in units of
    `T` does not move the pointer at all. -/
def nextNWrapAdd (c : BCfg) (b offset : Nat) : Nat :=
  if c.size = 0 then b + offset * c.size else b - offset * c.size

theorem nextNWrapAdd_zst_wrong {c : BCfg} (hz : c.size = 0) (base i : Nat) {k : Nat} (hk : 0 < k) :
    nextNWrapAdd c (fromBaseIndex c base i) k ≠ fromBaseIndex c base (i + k) := by
  simp only [nextNWrapAdd, fromBaseIndex, hz, if_true]
  omega

/-! ### `bucket`, `bucket_ptr`, `bucket_index`, `data_start`, `into_allocation` -/

/-- `table.bucket_index(&table.bucket(i)) = i`. -/
theorem bucketIndex_bucket (c : BCfg) {ctrl mask i : Nat} (hf : Fits c (dataEnd ctrl) mask) (hi : i ≤ mask) :
    bucketIndex c ctrl (bucket c ctrl i) = i :=
  toBaseIndex_fromBaseIndex c hf hi

/-- `bucket_ptr(i, size_of::<T>())` is the address of element `i`, i.e. `bucket(i).as_ptr()` (sized `T`). -/
theorem bucketPtr_eq_asPtr {c : BCfg} (hs : 0 < c.size) (ctrl i : Nat) :
    bucketPtr ctrl i c.size = asPtr c (bucket c ctrl i) := by
  rw [bucket, asPtr_fromBaseIndex_sized hs]; rfl

/-- `bucket_index` of the `Bucket` whose element starts at `bucket_ptr(i, size)` is `i` (sized `T`;
    the `Bucket` pointer is one element past `bucket_ptr`). -/
theorem bucketIndex_bucketPtr {c : BCfg} (hs : 0 < c.size) {ctrl mask i : Nat} (hf : Fits c (dataEnd ctrl) mask)
    (hi : i ≤ mask) : bucketIndex c ctrl (bucketPtr ctrl i c.size + c.size) = i := by
  have h := (asPtr_region hs hf hi).2.1
  rw [bucketPtr_eq_asPtr hs, bucket, h]
  exact toBaseIndex_fromBaseIndex c hf hi

/-- `data_start()` is the lowest element address: `bucket(mask).as_ptr()` (sized `T`). -/
theorem dataStart_eq {c : BCfg} (hs : 0 < c.size) (ctrl mask : Nat) :
    dataStart c ctrl (mask + 1) = asPtr c (bucket c ctrl mask) := by
  rw [bucket, asPtr_fromBaseIndex_sized hs]; rfl

/-- The start of the block handed back by `into_allocation` is `ctrl - ctrl_offset`; it is NOT in general
    `data_end() - buckets` elements (seeded change C02-c): they differ by the leading padding. -/
theorem allocStart_le_dataStart (c : BCfg) {ctrl ctrlOffset buckets : Nat} (h : buckets * c.size ≤ ctrlOffset) :
    allocStart ctrl ctrlOffset ≤ dataStart c ctrl buckets := by
  unfold allocStart dataStart dataEnd; omega

/-- Witness (`T = u8`, generic 8-byte groups, 4 buckets: `ctrl_offset = 8`): the block starts 4 bytes
    before the lowest element. -/
theorem allocStart_ne_dataStart_witness :
    allocStart 4104 8 = 4096 ∧ dataStart { size := 1 } 4104 4 = 4100 := by decide

/-! ### The data pointer of `RawIterRange` -/

/-- Invariant of the pointer state: `data` is the bucket of lane 0 of the group under the cursor. -/
def RangeInv (c : BCfg) (base W : Nat) (r : RangePtr) : Prop :=
  r.data = fromBaseIndex c base (r.groupIdx * W)

theorem rangeInv_new (c : BCfg) (base W g : Nat) :
    RangeInv c base W (RangePtr.new (fromBaseIndex c base (g * W)) g) := rfl

/-- `RawTableInner::iter` establishes it (group 0, `data = from_base_index(data_end(), 0)`). -/
theorem rangeInv_start (c : BCfg) (ctrl W : Nat) : RangeInv c (dataEnd ctrl) W (RangePtr.start c ctrl) := by
  simp [RangeInv, RangePtr.start, RangePtr.new]

/-- The reload step of `next_impl` / `fold_impl` preserves it. -/
theorem rangeInv_advanceGroup {c : BCfg} {base W : Nat} {r : RangePtr} (h : RangeInv c base W r) :
    RangeInv c base W (r.advanceGroup c W) := by
  unfold RangeInv at h ⊢
  simp only [RangePtr.advanceGroup, h, nextN_fromBaseIndex, Nat.add_mul, Nat.one_mul]

theorem advanceGroups_groupIdx (c : BCfg) (W k : Nat) (r : RangePtr) :
    (RangePtr.advanceGroups c W k r).groupIdx = r.groupIdx + k := by
  induction k generalizing r with
  | zero => rfl
  | succ n ih => simp only [RangePtr.advanceGroups, ih, RangePtr.advanceGroup]; omega

theorem rangeInv_advanceGroups {c : BCfg} {base W : Nat} (k : Nat) {r : RangePtr} (h : RangeInv c base W r) :
    RangeInv c base W (RangePtr.advanceGroups c W k r) := by
  induction k generalizing r with
  | zero => exact h
  | succ n ih => exact ih (rangeInv_advanceGroup h)

/-- After `g` reloads from the start, `data = from_base_index(base, g * WIDTH)`. -/
theorem advanceGroups_start_data (c : BCfg) (ctrl W g : Nat) :
    (RangePtr.advanceGroups c W g (RangePtr.start c ctrl)).data = fromBaseIndex c (dataEnd ctrl) (g * W) := by
  have h := rangeInv_advanceGroups g (rangeInv_start c ctrl W)
  unfold RangeInv at h
  rw [h, advanceGroups_groupIdx]
  simp [RangePtr.start, RangePtr.new]

/-- The bucket yielded for bit `bit` of group `g` is the bucket of index `g * WIDTH + bit`. -/
theorem yieldAt_eq {c : BCfg} {base W : Nat} {r : RangePtr} (h : RangeInv c base W r) (bit : Nat) :
    r.yieldAt c bit = fromBaseIndex c base (r.groupIdx * W + bit) := by
  unfold RangeInv at h
  simp only [RangePtr.yieldAt, h, nextN_fromBaseIndex]

theorem yieldAt_start (c : BCfg) (ctrl W g bit : Nat) :
    (RangePtr.advanceGroups c W g (RangePtr.start c ctrl)).yieldAt c bit
      = bucket c ctrl (g * W + bit) := by
  rw [yieldAt_eq (rangeInv_advanceGroups g (rangeInv_start c ctrl W)), advanceGroups_groupIdx]
  simp [RangePtr.start, RangePtr.new, bucket]

/-- … so `bucket_index` of what the iterator yields is `g * WIDTH + bit`. -/
theorem bucketIndex_yieldAt (c : BCfg) {ctrl mask W g bit : Nat} (hf : Fits c (dataEnd ctrl) mask)
    (hi : g * W + bit ≤ mask) :
    bucketIndex c ctrl ((RangePtr.advanceGroups c W g (RangePtr.start c ctrl)).yieldAt c bit) = g * W + bit := by
  rw [yieldAt_start]; exact bucketIndex_bucket c hf hi

/-- The tail built by `RawIterRange::split` satisfies it (`mid` a multiple of `WIDTH`). -/
theorem rangeInv_split {c : BCfg} {base W : Nat} {r : RangePtr} (h : RangeInv c base W r)
    {mid : Nat} (hmid : mid % W = 0) : RangeInv c base W (r.split c W mid) := by
  unfold RangeInv at h ⊢
  have hm : mid / W * W = mid := by
    have := Nat.div_add_mod mid W
    rw [hmid, Nat.add_zero, Nat.mul_comm] at this
    exact this
  simp only [RangePtr.split, RangePtr.new, h, nextN_fromBaseIndex, Nat.add_mul, Nat.one_mul, hm]

/-- `RawIterRange::clone` / `RawIter::clone` copy the pointer state unchanged. -/
theorem cloneRaw_eq (r : RangePtr) : r.cloneRaw = r := rfl

theorem rangeInv_cloneRaw {c : BCfg} {base W : Nat} {r : RangePtr} (h : RangeInv c base W r) :
    RangeInv c base W r.cloneRaw := h

/-- The re-built copy of seeded change C09-d: `RawIterRange::new(iter.next_ctrl, iter.data.clone(), len)` —
    control pointer of the NEXT group, data pointer of the CURRENT one. -/
def RangePtr.cloneReload (r : RangePtr) : RangePtr := RangePtr.new (cloneBucket r.data) (r.groupIdx + 1)

/-- It breaks the invariant for every element size: `data` is one group too early. -/
theorem rangeInv_cloneReload_broken {c : BCfg} {base mask W : Nat} {r : RangePtr} (h : RangeInv c base W r)
    (hW : 0 < W) (hf : Fits c base mask) (hin : (r.groupIdx + 1) * W ≤ mask) :
    ¬ RangeInv c base W r.cloneReload := by
  unfold RangeInv at h ⊢
  simp only [RangePtr.cloneReload, RangePtr.new, cloneBucket, h]
  intro heq
  have hle : r.groupIdx * W ≤ mask := by rw [Nat.add_mul, Nat.one_mul] at hin; omega
  have := fromBaseIndex_injective c hf hle hin heq
  rw [Nat.add_mul, Nat.one_mul] at this
  omega

/-- … every bucket it yields is `WIDTH` buckets before the one whose control byte was tested. -/
theorem cloneReload_yields_wrong {c : BCfg} {base W : Nat} {r : RangePtr} (h : RangeInv c base W r) (bit : Nat) :
    r.cloneReload.yieldAt c bit = fromBaseIndex c base (r.groupIdx * W + bit) ∧
    r.cloneReload.groupIdx * W + bit = (r.groupIdx * W + bit) + W := by
  unfold RangeInv at h
  refine ⟨by simp only [RangePtr.yieldAt, RangePtr.cloneReload, RangePtr.new, cloneBucket, h, nextN_fromBaseIndex], ?_⟩
  simp only [RangePtr.cloneReload, RangePtr.new, Nat.add_mul, Nat.one_mul]; omega

/-! ### Refinement: pointer state ⟷ the index state of `Hb/Model/Iter.lean` -/

/-- The pointer state `p` and the index-level iterator `r` describe the same position:
    `r.base` (bucket index of lane 0) is group `p.groupIdx`, `next_ctrl` is one group further, and
    `p.data` is the `Bucket` pointer of index `r.base`. -/
def Refines (c : BCfg) (base W : Nat) (p : RangePtr) (r : Hb.RawIterRange) : Prop :=
  r.base = p.groupIdx * W ∧ r.nextCtrl = (p.groupIdx + 1) * W ∧ p.data = fromBaseIndex c base r.base

theorem Refines.rangeInv {c : BCfg} {base W : Nat} {p : RangePtr} {r : Hb.RawIterRange}
    (h : Refines c base W p r) : RangeInv c base W p := by
  unfold RangeInv; rw [h.2.2, h.1]

/-- Changing only the lanes still to yield / the end pointer keeps the relation. -/
theorem Refines.congr {c : BCfg} {base W : Nat} {p : RangePtr} {r r' : Hb.RawIterRange}
    (h : Refines c base W p r) (hb : r'.base = r.base) (hn : r'.nextCtrl = r.nextCtrl) : Refines c base W p r' := by
  unfold Refines at h ⊢; rw [hb, hn]; exact h

/-- The reload step on both sides (`base += WIDTH`, `next_ctrl += WIDTH` ⟷ `advanceGroup`). -/
theorem Refines.reload {c : BCfg} {base W : Nat} {p : RangePtr} {r : Hb.RawIterRange} (h : Refines c base W p r)
    (cur : List Nat) :
    Refines c base W (p.advanceGroup c W)
      { r with cur := cur, base := r.base + W, nextCtrl := r.nextCtrl + W } := by
  obtain ⟨h1, h2, h3⟩ := h
  refine ⟨?_, ?_, ?_⟩
  · simp only [RangePtr.advanceGroup, h1, Nat.add_mul, Nat.one_mul]
  · simp only [RangePtr.advanceGroup, h2, Nat.add_mul, Nat.one_mul]
  · simp only [RangePtr.advanceGroup, h3, nextN_fromBaseIndex]

/-- `RawIterRange::new(ctrl + g * WIDTH, from_base_index(base, g * WIDTH), len)`. -/
theorem refines_new (c : BCfg) (base : Nat) (cfg : Hb.Cfg) (t : Hb.Raw) (g len : Nat) {r : Hb.RawIterRange}
    (h : Hb.RawIterRange.new cfg t (g * cfg.W) len = .ok r) :
    Refines c base cfg.W (RangePtr.new (fromBaseIndex c base (g * cfg.W)) g) r := by
  unfold Hb.RawIterRange.new at h
  split at h
  · cases h
  · cases h
    exact ⟨rfl, by simp only [RangePtr.new, Nat.add_mul, Nat.one_mul], rfl⟩

/-- `RawTableInner::iter`: the fresh iterator. -/
theorem refines_iter (c : BCfg) (ctrl : Nat) (cfg : Hb.Cfg) (t : Hb.Raw) {it : Hb.RawIter}
    (h : Hb.RawIter.new cfg t = .ok it) : Refines c (dataEnd ctrl) cfg.W (RangePtr.start c ctrl) it.range := by
  unfold Hb.RawIter.new at h
  split at h
  · cases h
  · rename_i r hr
    cases h
    have := refines_new c (dataEnd ctrl) cfg t 0 t.buckets (r := r) (by simpa using hr)
    simpa [RangePtr.start] using this

/-- `next_impl`: whatever the index-level iterator does, the pointer state follows by some number `k` of
    `advanceGroup`s, and the index `i` it yields is the index of the `Bucket` the real code hands out:
    `self.data.next_n(bit)` with `i = r'.base + bit` is `from_base_index(base, i)`. -/
theorem refines_nextImpl (c : BCfg) (base : Nat) (cfg : Hb.Cfg) (t : Hb.Raw) (check : Bool) :
    ∀ (fuel : Nat) (p : RangePtr) (r r' : Hb.RawIterRange) (o : Option Nat),
      Refines c base cfg.W p r → Hb.RawIterRange.nextImpl cfg t check fuel r = .ok (o, r') →
      ∃ k, Refines c base cfg.W (RangePtr.advanceGroups c cfg.W k p) r' ∧
        ∀ i, o = some i → ∃ bit, i = r'.base + bit ∧
          (RangePtr.advanceGroups c cfg.W k p).yieldAt c bit = fromBaseIndex c base i := by
  intro fuel
  induction fuel with
  | zero => intro p r r' o _ h; simp [Hb.RawIterRange.nextImpl] at h
  | succ n ih =>
    intro p r r' o hR h
    unfold Hb.RawIterRange.nextImpl at h
    split at h
    · rename_i lane rest hcur
      cases h
      refine ⟨0, hR.congr rfl rfl, ?_⟩
      intro i hi
      cases hi
      refine ⟨lane, rfl, ?_⟩
      simp only [RangePtr.advanceGroups, RangePtr.yieldAt, hR.2.2, nextN_fromBaseIndex]
    · split at h
      · cases h
        exact ⟨0, hR, fun i hi => by cases hi⟩
      · split at h
        · cases h
        · rename_i g hg
          obtain ⟨k, hk, hy⟩ := ih (p.advanceGroup c cfg.W) _ r' o (hR.reload (cfg.ops.matchFull g)) h
          exact ⟨k + 1, hk, hy⟩

/-- `RawIterRange::split`: the head keeps its pointer state, the tail's is `RangePtr.split` with the `mid`
    the real code computes (`(len / 2) & !(WIDTH - 1)`). -/
theorem refines_split (c : BCfg) (base : Nat) (cfg : Hb.Cfg) (t : Hb.Raw) (hW : 0 < cfg.W)
    {p : RangePtr} {r r1 tail : Hb.RawIterRange} (hR : Refines c base cfg.W p r)
    (h : Hb.RawIterRange.split cfg t r = .ok (r1, some tail)) :
    Refines c base cfg.W p r1 ∧
    Refines c base cfg.W (p.split c cfg.W ((r.end_ - r.nextCtrl) / 2 / cfg.W * cfg.W)) tail := by
  unfold Hb.RawIterRange.split at h
  split at h
  · cases h
  · simp only [] at h
    split at h
    · cases h
    · cases h
      refine ⟨hR.congr rfl rfl, ?_⟩
      obtain ⟨h1, h2, h3⟩ := hR
      have hm : (r.end_ - r.nextCtrl) / 2 / cfg.W * cfg.W / cfg.W = (r.end_ - r.nextCtrl) / 2 / cfg.W :=
        Nat.mul_div_cancel _ hW
      refine ⟨?_, ?_, ?_⟩
      · simp only [RangePtr.split, RangePtr.new, hm, h1, Nat.add_mul, Nat.one_mul]
      · simp only [RangePtr.split, RangePtr.new]
        rw [hm, h2]
        simp only [Nat.add_mul, Nat.one_mul]
      · simp only [RangePtr.split, RangePtr.new, h3, nextN_fromBaseIndex, Nat.add_assoc]

/-- When `split` declines (`end <= next_ctrl`) nothing changes. -/
theorem refines_split_none (c : BCfg) (base : Nat) (cfg : Hb.Cfg) (t : Hb.Raw)
    {p : RangePtr} {r r1 : Hb.RawIterRange} (hR : Refines c base cfg.W p r)
    (h : Hb.RawIterRange.split cfg t r = .ok (r1, none)) : Refines c base cfg.W p r1 := by
  unfold Hb.RawIterRange.split at h
  split at h
  · cases h; exact hR
  · simp only [] at h
    split at h <;> cases h

/-- `clone`: the copy refines the same index state. -/
theorem refines_cloneRaw {c : BCfg} {base W : Nat} {p : RangePtr} {r : Hb.RawIterRange}
    (h : Refines c base W p r) : Refines c base W p.cloneRaw r := h

#print axioms toBaseIndex_fromBaseIndex
#print axioms fromBaseIndex_injective
#print axioms fromBaseIndex_pos
#print axioms fromBaseIndex_lt
#print axioms fromBaseIndex_range
#print axioms asPtr_region
#print axioms asPtr_succ
#print axioms asPtr_disjoint
#print axioms asPtr_injective_sized
#print axioms asPtr_zst
#print axioms asPtr_zst_collides
#print axioms nextN_fromBaseIndex
#print axioms nextN_nextN
#print axioms toBaseIndex_nextN
#print axioms nextNDedup_sized
#print axioms nextNDedup_zst_wrong
#print axioms nextNDedup_witness
#print axioms nextNWrapAdd_zst_wrong
#print axioms bucketIndex_bucket
#print axioms bucketPtr_eq_asPtr
#print axioms bucketIndex_bucketPtr
#print axioms dataStart_eq
#print axioms allocStart_le_dataStart
#print axioms allocStart_ne_dataStart_witness
#print axioms rangeInv_start
#print axioms rangeInv_advanceGroup
#print axioms rangeInv_advanceGroups
#print axioms advanceGroups_start_data
#print axioms yieldAt_eq
#print axioms yieldAt_start
#print axioms bucketIndex_yieldAt
#print axioms rangeInv_split
#print axioms rangeInv_cloneRaw
#print axioms rangeInv_cloneReload_broken
#print axioms cloneReload_yields_wrong
#print axioms refines_new
#print axioms refines_iter
#print axioms refines_nextImpl
#print axioms refines_split
#print axioms refines_split_none
#print axioms refines_cloneRaw

end Hb.BucketPtr
