/-
Raw iterators (`fullIndices`, `RawIter::next`, `RawIter::fold`, `Map.iterObserve`) yield exactly the
full buckets of the table, in ascending order, each exactly once, and report exact lengths.
-/
import Hb.Proofs.Defs
namespace Hb

/-- The indices of the full buckets, ascending. -/
def Raw.fullList (t : Raw) : List Nat := (List.range t.buckets).filter fun i => isFull (t.ctrlAt i)

/-- The full buckets in `[a, n)`, ascending. -/
def Raw.fullFrom (t : Raw) (a : Nat) : List Nat :=
  (List.range' a (t.buckets - a)).filter fun i => isFull (t.ctrlAt i)

theorem fullFrom_zero (t : Raw) : t.fullFrom 0 = t.fullList := by
  simp [Raw.fullFrom, Raw.fullList, List.range_eq_range']

theorem fullFrom_of_le (t : Raw) (a : Nat) (h : t.buckets ≤ a) : t.fullFrom a = [] := by
  have : t.buckets - a = 0 := by omega
  simp [Raw.fullFrom, this]

theorem fullList_sorted (t : Raw) : t.fullList.Pairwise (· < ·) := by
  unfold Raw.fullList
  exact List.Pairwise.filter _ List.pairwise_lt_range

theorem mem_fullList (t : Raw) (i : Nat) :
    i ∈ t.fullList ↔ i < t.buckets ∧ isFull (t.ctrlAt i) = true := by
  simp [Raw.fullList]

/-! ### what the iterators need from the invariant -/

/-- The part of `Inv` + `CfgOk` used by the aligned-group walk. -/
structure IterGeo (cfg : Cfg) (t : Raw) : Prop where
  wpos : 0 < cfg.W
  size0 : cfg.W ≤ t.ctrl.size
  pad : t.buckets < cfg.W → ∀ j, t.buckets ≤ j → j < cfg.W → isFull (t.ctrlAt j) = false
  big : cfg.W ≤ t.buckets → cfg.W ∣ t.buckets ∧ t.ctrl.size = t.buckets + cfg.W
  valid : ∀ i, i < t.ctrl.size → ValidCtrl (t.ctrlAt i)
  spec : GroupSpec cfg.ops
  items : t.items = t.fullList.length

theorem IterGeo.buckets_le_size {cfg : Cfg} {t : Raw} (g : IterGeo cfg t) :
    t.buckets ≤ t.ctrl.size := by
  by_cases h : cfg.W ≤ t.buckets
  · have := (g.big h).2; omega
  · have := g.size0; omega

theorem width_dvd_pow (W k : Nat) (hW : W = 8 ∨ W = 16) (hle : W ≤ 2 ^ k) : W ∣ 2 ^ k := by
  rcases hW with rfl | rfl
  · have h3 : 3 ≤ k := by
      have : (2 : Nat) ^ 3 ≤ 2 ^ k := by simpa using hle
      exact (Nat.pow_le_pow_iff_right (by decide)).1 this
    simpa using Nat.pow_dvd_pow 2 h3
  · have h4 : 4 ≤ k := by
      have : (2 : Nat) ^ 4 ≤ 2 ^ k := by simpa using hle
      exact (Nat.pow_le_pow_iff_right (by decide)).1 this
    simpa using Nat.pow_dvd_pow 2 h4

theorem iterGeo_of_inv {cfg : Cfg} {t : Raw} (hc : CfgOk cfg) (h : Inv cfg t) : IterGeo cfg t := by
  have hW : cfg.W = 8 ∨ cfg.W = 16 := hc.spec.width
  have hitems : t.items = t.fullList.length := by
    rw [h.items_eq, Raw.countCtrl, List.countP_eq_length_filter, Raw.fullList]
  rcases h.geom with hs | ha
  · obtain ⟨hal, hm, hctrl, _, _, _⟩ := hs
    have hb : t.buckets = 1 := by simp [Raw.buckets, hm]
    refine ⟨by omega, by simp [hctrl], ?_, ?_, h.valid, hc.spec, hitems⟩
    · intro _ j _ hj
      have : t.ctrlAt j = EMPTY := by
        simp [Raw.ctrlAt, hctrl, Array.getD_eq_getD_getElem?, hj]
      rw [this]; decide
    · intro hle; omega
  · obtain ⟨hal, ⟨k, hk, hn⟩, hsz, _, _⟩ := ha
    refine ⟨by omega, by omega, ?_, ?_, h.valid, hc.spec, hitems⟩
    · intro hlt j hj1 hj2
      rw [((h.mirror hal).2 hlt).1 j hj1 hj2]; decide
    · intro hle
      exact ⟨by rw [hn] at hle ⊢; exact width_dvd_pow _ _ hW hle, hsz⟩

/-! ### one aligned group -/

theorem loadGroup_lanes {cfg : Cfg} {t : Raw} (g : IterGeo cfg t) (a : Nat)
    (ha : a + cfg.W ≤ t.ctrl.size) :
    ∃ grp, loadGroup cfg.W t a = .ok grp ∧
      (cfg.ops.matchFull grp).map (a + ·) =
        (List.range' a cfg.W).filter fun i => isFull (t.ctrlAt i) := by
  refine ⟨(List.range cfg.W).map fun j => t.ctrl.getD (a + j) 0, by simp [loadGroup, ha], ?_⟩
  have hv : ValidGroup cfg.ops.W ((List.range cfg.W).map fun j => t.ctrl.getD (a + j) 0) := by
    refine ⟨by simp [Cfg.W], ?_⟩
    intro b hb
    simp only [List.mem_map, List.mem_range] at hb
    obtain ⟨j, hj, rfl⟩ := hb
    exact g.valid (a + j) (by omega)
  rw [g.spec.matchFull _ hv, Spec.matchFull, Spec.lanesWhere, List.range'_eq_map_range,
    List.filter_map]
  congr 1
  simp only [List.length_map, List.length_range]
  apply List.filter_congr
  intro i hi
  simp only [List.mem_range] at hi
  simp [List.getD_eq_getElem?_getD, hi, Raw.ctrlAt]

/-- The group walk step: the aligned group at `a` lists exactly the full buckets in `[a, a+W)`, and
    the rest of the table starts at `a + W`. -/
theorem group_step {cfg : Cfg} {t : Raw} (g : IterGeo cfg t) (a : Nat) (hd : cfg.W ∣ a)
    (ha : a < t.buckets ∨ a = 0) :
    ∃ grp, loadGroup cfg.W t a = .ok grp ∧
      t.fullFrom a = (cfg.ops.matchFull grp).map (a + ·) ++ t.fullFrom (a + cfg.W) := by
  have hwpos := g.wpos
  by_cases hbig : cfg.W ≤ t.buckets
  · obtain ⟨hdn, hsz⟩ := g.big hbig
    have hle : a + cfg.W ≤ t.buckets := by
      rcases ha with ha | rfl
      · have h1 : cfg.W ∣ t.buckets - a := Nat.dvd_sub hdn hd
        have := Nat.le_of_dvd (by omega) h1
        omega
      · omega
    obtain ⟨grp, hl, hm⟩ := loadGroup_lanes g a (by omega)
    refine ⟨grp, hl, ?_⟩
    rw [hm, Raw.fullFrom, Raw.fullFrom, ← List.filter_append]
    congr 1
    have : t.buckets - a = cfg.W + (t.buckets - (a + cfg.W)) := by omega
    rw [this, ← List.range'_append]
    simp
  · have ha0 : a = 0 := by
      rcases ha with ha | rfl
      · rcases hd with ⟨c, rfl⟩
        rcases c with _ | c
        · rfl
        · exfalso
          have : cfg.W * (c + 1) = cfg.W * c + cfg.W := by rw [Nat.mul_succ]
          omega
      · rfl
    subst ha0
    obtain ⟨grp, hl, hm⟩ := loadGroup_lanes g 0 (by have := g.size0; omega)
    refine ⟨grp, hl, ?_⟩
    rw [hm, fullFrom_of_le t (0 + cfg.W) (by omega), List.append_nil, Raw.fullFrom]
    have : cfg.W = (t.buckets - 0) + (cfg.W - t.buckets) := by omega
    rw [this, ← List.range'_append, List.filter_append]
    have hnil : (List.filter (fun i => isFull (t.ctrlAt i))
        (List.range' (0 + 1 * (t.buckets - 0)) (cfg.W - t.buckets))) = [] := by
      rw [List.filter_eq_nil_iff]
      intro j hj
      simp only [List.mem_range'_1] at hj
      rw [g.pad (by omega) j (by omega) (by omega)]
      decide
    rw [hnil]
    simp

theorem fullFrom_lt {t : Raw} {a : Nat} (h : t.fullFrom a ≠ []) : a < t.buckets := by
  by_cases hlt : a < t.buckets
  · exact hlt
  · exact absurd (fullFrom_of_le t a (by omega)) h

/-! ### 1. lengths -/

theorem fullList_length {cfg : Cfg} {t : Raw} (hc : CfgOk cfg) (h : Inv cfg t) :
    t.fullList.length = t.items := (iterGeo_of_inv hc h).items.symm

theorem fullList_length_le (t : Raw) : t.fullList.length ≤ t.buckets := by
  unfold Raw.fullList
  have := List.length_filter_le (fun i => isFull (t.ctrlAt i)) (List.range t.buckets)
  simpa using this


/-! ### 2. `fullIndices` -/

theorem fullWalk_spec {cfg : Cfg} {t : Raw} (g : IterGeo cfg t) :
    ∀ (fuel base : Nat) (acc : List Nat), cfg.W ∣ base → t.buckets - base < fuel →
      fullWalk cfg t fuel base (t.fullFrom base).length acc =
        .ok (acc.reverse ++ t.fullFrom base) := by
  intro fuel
  induction fuel with
  | zero => intro base acc _ h; omega
  | succ fuel ih =>
    intro base acc hd hf
    by_cases hnil : t.fullFrom base = []
    · rw [hnil]; simp [fullWalk]
    · have hlt := fullFrom_lt hnil
      obtain ⟨grp, hl, hstep⟩ := group_step g base hd (Or.inl hlt)
      obtain ⟨k, hk⟩ : ∃ k, (t.fullFrom base).length = k + 1 := by
        cases hx : t.fullFrom base with
        | nil => exact absurd hx hnil
        | cons x xs => exact ⟨xs.length, by simp⟩
      have hwpos := g.wpos
      rw [hk, fullWalk, hl]
      rotate_left
      · exact Nat.succ_ne_zero k
      simp only []
      rw [← hk]
      have hlen : (t.fullFrom base).length =
          ((cfg.ops.matchFull grp).map (base + ·)).length + (t.fullFrom (base + cfg.W)).length := by
        rw [hstep, List.length_append]
      rw [List.take_of_length_le (by omega)]
      have : (t.fullFrom base).length - ((cfg.ops.matchFull grp).map (base + ·)).length =
          (t.fullFrom (base + cfg.W)).length := by omega
      rw [this, ih (base + cfg.W) _ (Nat.dvd_add hd (Nat.dvd_refl _)) (by omega), hstep]
      simp

theorem fullIndices_spec {cfg : Cfg} {t : Raw} (hc : CfgOk cfg) (h : Inv cfg t) :
    fullIndices cfg t t.items = .ok t.fullList := by
  have g := iterGeo_of_inv hc h
  have hsz := g.buckets_le_size
  rw [fullIndices, g.items, ← fullFrom_zero,
    fullWalk_spec g _ 0 [] (Nat.dvd_zero _) (by omega)]
  simp

/-! ### 3./4. iterator states -/

/-- What an iterator range positioned at `r` will still yield. -/
def RawIterRange.rem (t : Raw) (r : RawIterRange) : List Nat :=
  r.cur.map (r.base + ·) ++ t.fullFrom r.nextCtrl

/-- What an iterator in state `it` will still yield. -/
def RawIter.rem (t : Raw) (it : RawIter) : List Nat := it.range.rem t

structure RangeOk (cfg : Cfg) (t : Raw) (r : RawIterRange) : Prop where
  next_eq : r.nextCtrl = r.base + cfg.W
  dvd : cfg.W ∣ r.base
  /-- the remaining elements are a final segment of the full-bucket list -/
  suffix : ∃ k, r.rem t = t.fullList.drop k

structure IterOk (cfg : Cfg) (t : Raw) (it : RawIter) : Prop where
  range : RangeOk cfg t it.range
  items : it.items = (it.rem t).length

/-- Consequences of `IterOk` for the lanes still pending in the current group. -/
theorem IterOk.rem_sorted {cfg : Cfg} {t : Raw} {it : RawIter} (h : IterOk cfg t it) :
    (it.rem t).Pairwise (· < ·) := by
  obtain ⟨k, hk⟩ := h.range.suffix
  rw [RawIter.rem, hk]
  exact (fullList_sorted t).sublist (List.drop_sublist _ _)

theorem IterOk.rem_full {cfg : Cfg} {t : Raw} {it : RawIter} (h : IterOk cfg t it) :
    ∀ i ∈ it.rem t, i < t.buckets ∧ isFull (t.ctrlAt i) = true := by
  obtain ⟨k, hk⟩ := h.range.suffix
  intro i hi
  rw [RawIter.rem, hk] at hi
  exact (mem_fullList t i).1 (List.mem_of_mem_drop hi)

theorem IterOk.cur_full {cfg : Cfg} {t : Raw} {it : RawIter} (h : IterOk cfg t it) :
    ∀ lane ∈ it.range.cur, it.range.base + lane < t.buckets ∧
      isFull (t.ctrlAt (it.range.base + lane)) = true := by
  intro lane hl
  apply h.rem_full
  simp only [RawIter.rem, RawIterRange.rem, List.mem_append, List.mem_map]
  exact Or.inl ⟨lane, hl, rfl⟩

theorem rawIter_new_spec' {cfg : Cfg} {t : Raw} (g : IterGeo cfg t) :
    ∃ it, RawIter.new cfg t = .ok it ∧ it.items = t.items ∧ IterOk cfg t it ∧
      it.rem t = t.fullList := by
  obtain ⟨grp, hl, hstep⟩ := group_step g 0 (Nat.dvd_zero _) (Or.inr rfl)
  have hrem : (List.map (fun x => 0 + x) (cfg.ops.matchFull grp) ++ t.fullFrom (0 + cfg.W)) =
      t.fullList := by rw [← hstep, fullFrom_zero]
  refine ⟨⟨⟨cfg.ops.matchFull grp, 0, 0 + cfg.W, 0 + t.buckets⟩, t.items⟩,
    by simp only [RawIter.new, RawIterRange.new, hl], rfl, ⟨⟨rfl, Nat.dvd_zero _, 0, ?_⟩, ?_⟩, ?_⟩
  · simpa [RawIterRange.rem] using hrem
  · simp only [RawIter.rem, RawIterRange.rem, hrem, g.items]
  · simpa [RawIter.rem, RawIterRange.rem] using hrem

theorem rawIter_new_spec {cfg : Cfg} {t : Raw} (hc : CfgOk cfg) (h : Inv cfg t) :
    ∃ it, RawIter.new cfg t = .ok it ∧ IterOk cfg t it ∧ it.rem t = t.fullList := by
  obtain ⟨it, h1, _, h3, h4⟩ := rawIter_new_spec' (iterGeo_of_inv hc h)
  exact ⟨it, h1, h3, h4⟩

theorem rawIter_new_ok {cfg : Cfg} {t : Raw} (hc : CfgOk cfg) (h : Inv cfg t) :
    ∃ it, RawIter.new cfg t = .ok it ∧ it.items = t.items := by
  obtain ⟨it, h1, h2, _, _⟩ := rawIter_new_spec' (iterGeo_of_inv hc h)
  exact ⟨it, h1, h2⟩

/-- `next_impl::<false>` with explicit fuel: from a good range with something left it yields the
    head of the remaining list, provided the fuel covers the groups still ahead. -/
theorem nextImpl_spec {cfg : Cfg} {t : Raw} (g : IterGeo cfg t) :
    ∀ (fuel : Nat) (r : RawIterRange), RangeOk cfg t r → r.rem t ≠ [] →
      t.buckets - r.nextCtrl < fuel →
      ∃ x r', RawIterRange.nextImpl cfg t false fuel r = .ok (some x, r') ∧ RangeOk cfg t r' ∧
        r.rem t = x :: r'.rem t := by
  intro fuel
  induction fuel with
  | zero => intro r _ _ h; omega
  | succ fuel ih =>
    intro r hr hne hf
    obtain ⟨k, hk⟩ := hr.suffix
    cases hcur : r.cur with
    | cons lane rest =>
      have hrem : r.rem t = (r.base + lane) :: RawIterRange.rem t { r with cur := rest } := by
        simp [RawIterRange.rem, hcur]
      refine ⟨r.base + lane, { r with cur := rest }, by simp [RawIterRange.nextImpl, hcur],
        ⟨hr.next_eq, hr.dvd, k + 1, ?_⟩, hrem⟩
      rw [← List.tail_drop, ← hk, hrem, List.tail_cons]
    | nil =>
      have hrem : r.rem t = t.fullFrom r.nextCtrl := by simp [RawIterRange.rem, hcur]
      rw [hrem] at hne
      have hlt := fullFrom_lt hne
      have hwpos := g.wpos
      have hd : cfg.W ∣ r.nextCtrl := by
        rw [hr.next_eq]; exact Nat.dvd_add hr.dvd (Nat.dvd_refl _)
      obtain ⟨grp, hl, hstep⟩ := group_step g r.nextCtrl hd (Or.inl hlt)
      have hr2 : RangeOk cfg t
          ⟨cfg.ops.matchFull grp, r.base + cfg.W, r.nextCtrl + cfg.W, r.end_⟩ := by
        refine ⟨by simp [hr.next_eq], Nat.dvd_add hr.dvd (Nat.dvd_refl _), k, ?_⟩
        rw [← hk, hrem, hstep]
        simp [RawIterRange.rem, hr.next_eq]
      have hrem2 : RawIterRange.rem t
          ⟨cfg.ops.matchFull grp, r.base + cfg.W, r.nextCtrl + cfg.W, r.end_⟩ = r.rem t := by
        rw [hrem, hstep]
        simp [RawIterRange.rem, hr.next_eq]
      obtain ⟨x, r', h1, h2, h3⟩ := ih _ hr2 (by rw [hrem2, hrem]; exact hne) (by simp only; omega)
      refine ⟨x, r', ?_, h2, by rw [← hrem2, h3]⟩
      rw [RawIterRange.nextImpl]
      simp only [hcur, hl, Bool.false_and]
      exact h1

theorem iterFuel_ok {cfg : Cfg} {t : Raw} (g : IterGeo cfg t) (a : Nat) :
    t.buckets - a < iterFuel t := by
  have := g.buckets_le_size
  unfold iterFuel
  omega

theorem rawIter_next_spec' {cfg : Cfg} {t : Raw} (g : IterGeo cfg t) (it : RawIter)
    (hok : IterOk cfg t it) :
    ∃ it', RawIter.next cfg t it = .ok ((it.rem t).head?, it') ∧ IterOk cfg t it' ∧
      it'.rem t = (it.rem t).tail ∧ (it.rem t = [] → it' = it) := by
  by_cases h0 : it.items = 0
  · have hnil : it.rem t = [] := by
      have := hok.items; rw [h0] at this
      exact List.eq_nil_of_length_eq_zero this.symm
    exact ⟨it, by simp [RawIter.next, h0, hnil], hok, by simp [hnil], fun _ => rfl⟩
  · have hne : it.range.rem t ≠ [] := by
      intro hnil
      have := hok.items
      rw [RawIter.rem, hnil] at this
      exact h0 this
    obtain ⟨x, r', h1, h2, h3⟩ := nextImpl_spec g (iterFuel t) it.range hok.range hne (iterFuel_ok g _)
    refine ⟨{ range := r', items := it.items - 1 }, ?_, ⟨h2, ?_⟩, ?_, ?_⟩
    · simp [RawIter.next, h0, h1, RawIter.rem, h3]
    · have := hok.items
      simp only [RawIter.rem] at this ⊢
      rw [h3] at this
      simp at this
      omega
    · simp [RawIter.rem, h3]
    · intro hnil; exact absurd hnil hne

/-- 4. `RawIter::next` on a good state yields the head of the remaining list (never an error), and
    leaves a good state whose remaining list is the tail. -/
theorem rawIter_next_spec {cfg : Cfg} {t : Raw} (hc : CfgOk cfg) (h : Inv cfg t) (it : RawIter)
    (hok : IterOk cfg t it) :
    ∃ it', RawIter.next cfg t it = .ok ((it.rem t).head?, it') ∧ IterOk cfg t it' ∧
      it'.rem t = (it.rem t).tail := by
  obtain ⟨it', h1, h2, h3, _⟩ := rawIter_next_spec' (iterGeo_of_inv hc h) it hok
  exact ⟨it', h1, h2, h3⟩

/-- 5b. Once the remaining list is exhausted, `next` keeps returning `None` and does not move. -/
theorem rawIter_exhausted {cfg : Cfg} {t : Raw} (hc : CfgOk cfg) (h : Inv cfg t) (it : RawIter)
    (hok : IterOk cfg t it) (hnil : it.rem t = []) : RawIter.next cfg t it = .ok (none, it) := by
  obtain ⟨it', h1, _, _, h4⟩ := rawIter_next_spec' (iterGeo_of_inv hc h) it hok
  rw [h1, hnil, h4 hnil]
  rfl


/-! ### 5. draining with `next` -/

theorem drainAll_spec' {cfg : Cfg} {t : Raw} (g : IterGeo cfg t) :
    ∀ (fuel : Nat) (it : RawIter) (acc : List Nat), IterOk cfg t it → (it.rem t).length < fuel →
      RawIter.drainAll cfg t fuel it acc = .ok (acc.reverse ++ it.rem t) := by
  intro fuel
  induction fuel with
  | zero => intro it acc _ h; omega
  | succ fuel ih =>
    intro it acc hok hf
    obtain ⟨it', h1, h2, h3, _⟩ := rawIter_next_spec' g it hok
    rw [RawIter.drainAll, h1]
    cases hrem : it.rem t with
    | nil => simp
    | cons x xs =>
      rw [hrem] at h3 hf
      simp only [List.head?_cons]
      rw [ih it' (x :: acc) h2 (by rw [h3]; simpa using hf), h3]
      simp

/-- 5a. Draining a fresh iterator with `next` yields every full bucket exactly once, ascending, and
    nothing else. -/
theorem rawIter_drainAll_spec {cfg : Cfg} {t : Raw} (hc : CfgOk cfg) (h : Inv cfg t) :
    ∀ it, RawIter.new cfg t = .ok it →
      RawIter.drainAll cfg t (t.buckets + 2) it [] = .ok t.fullList := by
  intro it hnew
  have g := iterGeo_of_inv hc h
  obtain ⟨it0, h1, _, h3, h4⟩ := rawIter_new_spec' g
  obtain rfl : it0 = it := by rw [h1] at hnew; cases hnew; rfl
  have := fullList_length_le t
  rw [drainAll_spec' g _ it0 [] h3 (by rw [h4]; omega), h4]
  simp

/-! ### 6. `fold` -/

theorem foldImpl_spec {cfg : Cfg} {t : Raw} (g : IterGeo cfg t) :
    ∀ (fuel : Nat) (r : RawIterRange) (acc : List Nat), RangeOk cfg t r →
      t.buckets - r.nextCtrl < fuel →
      RawIterRange.foldImpl cfg t fuel r (r.rem t).length acc = .ok (acc.reverse ++ r.rem t) := by
  intro fuel
  induction fuel with
  | zero => intro r acc _ h; omega
  | succ fuel ih =>
    intro r acc hr hf
    obtain ⟨k, hk⟩ := hr.suffix
    have hlen : (r.rem t).length = r.cur.length + (t.fullFrom r.nextCtrl).length := by
      simp [RawIterRange.rem]
    rw [RawIterRange.foldImpl, if_neg (by omega)]
    have hsub : (r.rem t).length - r.cur.length = (t.fullFrom r.nextCtrl).length := by omega
    simp only [hsub]
    by_cases hnil : t.fullFrom r.nextCtrl = []
    · simp [hnil, RawIterRange.rem]
    · have hlt := fullFrom_lt hnil
      have hwpos := g.wpos
      have hd : cfg.W ∣ r.nextCtrl := by
        rw [hr.next_eq]; exact Nat.dvd_add hr.dvd (Nat.dvd_refl _)
      obtain ⟨grp, hl, hstep⟩ := group_step g r.nextCtrl hd (Or.inl hlt)
      have hr2 : RangeOk cfg t
          ⟨cfg.ops.matchFull grp, r.base + cfg.W, r.nextCtrl + cfg.W, r.end_⟩ := by
        refine ⟨by simp [hr.next_eq], Nat.dvd_add hr.dvd (Nat.dvd_refl _), k + r.cur.length, ?_⟩
        have hstep' := hstep
        rw [hr.next_eq] at hstep'
        rw [← List.drop_drop, ← hk]
        simp [RawIterRange.rem, hr.next_eq, hstep']
      have hrem2 : RawIterRange.rem t
          ⟨cfg.ops.matchFull grp, r.base + cfg.W, r.nextCtrl + cfg.W, r.end_⟩ =
          t.fullFrom r.nextCtrl := by
        rw [hstep]
        simp [RawIterRange.rem, hr.next_eq]
      have hpos : (t.fullFrom r.nextCtrl).length ≠ 0 := by
        intro h0; exact hnil (List.eq_nil_of_length_eq_zero h0)
      rw [if_neg hpos, hl]
      simp only []
      have := ih ⟨cfg.ops.matchFull grp, r.base + cfg.W, r.nextCtrl + cfg.W, r.end_⟩
        ((r.cur.map (r.base + ·)).reverse ++ acc) hr2 (by simp only; omega)
      rw [hrem2] at this
      rw [this]
      simp [RawIterRange.rem]

/-- `fold` from any good state returns exactly the remaining list. -/
theorem rawIter_fold_rem' {cfg : Cfg} {t : Raw} (g : IterGeo cfg t) (it : RawIter)
    (hok : IterOk cfg t it) : it.fold cfg t = .ok (it.rem t) := by
  rw [RawIter.fold, hok.items, RawIter.rem,
    foldImpl_spec g _ it.range [] hok.range (iterFuel_ok g _)]
  simp

theorem rawIter_fold_rem {cfg : Cfg} {t : Raw} (hc : CfgOk cfg) (h : Inv cfg t) (it : RawIter)
    (hok : IterOk cfg t it) : it.fold cfg t = .ok (it.rem t) :=
  rawIter_fold_rem' (iterGeo_of_inv hc h) it hok

/-- 6a. Folding a fresh iterator visits exactly the full buckets, ascending. -/
theorem rawIter_fold_spec {cfg : Cfg} {t : Raw} (hc : CfgOk cfg) (h : Inv cfg t) :
    ∀ it, RawIter.new cfg t = .ok it → it.fold cfg t = .ok t.fullList := by
  intro it hnew
  have g := iterGeo_of_inv hc h
  obtain ⟨it0, h1, _, h3, h4⟩ := rawIter_new_spec' g
  obtain rfl : it0 = it := by rw [h1] at hnew; cases hnew; rfl
  rw [rawIter_fold_rem' g it0 h3, h4]

/-- `p` calls of `next`, results discarded. -/
def RawIter.nextN (cfg : Cfg) (t : Raw) : Nat → RawIter → Except String RawIter
  | 0, it => .ok it
  | p + 1, it =>
    match it.next cfg t with
    | .error f => .error f
    | .ok (_, it') => RawIter.nextN cfg t p it'

theorem nextN_spec' {cfg : Cfg} {t : Raw} (g : IterGeo cfg t) :
    ∀ (p : Nat) (it : RawIter), IterOk cfg t it →
      ∃ it', RawIter.nextN cfg t p it = .ok it' ∧ IterOk cfg t it' ∧
        it'.rem t = (it.rem t).drop p := by
  intro p
  induction p with
  | zero => intro it hok; exact ⟨it, rfl, hok, by simp⟩
  | succ p ih =>
    intro it hok
    obtain ⟨it1, h1, h2, h3, _⟩ := rawIter_next_spec' g it hok
    obtain ⟨it', h4, h5, h6⟩ := ih it1 h2
    refine ⟨it', by rw [RawIter.nextN, h1]; exact h4, h5, ?_⟩
    rw [h6, h3, List.drop_tail]

/-- 6b. After `p` calls of `next` on a fresh iterator (whatever `p`), the state is good, what remains
    is `fullList.drop p`, the reported length is exact, and `fold` returns exactly what remains. -/
theorem rawIter_fold_after {cfg : Cfg} {t : Raw} (hc : CfgOk cfg) (h : Inv cfg t) (p : Nat) :
    ∀ it, RawIter.new cfg t = .ok it →
      ∃ it', RawIter.nextN cfg t p it = .ok it' ∧ IterOk cfg t it' ∧
        it'.rem t = t.fullList.drop p ∧ it'.items = t.items - p ∧
        it'.fold cfg t = .ok (t.fullList.drop p) := by
  intro it hnew
  have g := iterGeo_of_inv hc h
  obtain ⟨it0, h1, _, h3, h4⟩ := rawIter_new_spec' g
  obtain rfl : it0 = it := by rw [h1] at hnew; cases hnew; rfl
  obtain ⟨it', h5, h6, h7⟩ := nextN_spec' g p it0 h3
  rw [h4] at h7
  refine ⟨it', h5, h6, h7, ?_, ?_⟩
  · rw [h6.items, h7, List.length_drop, g.items]
  · rw [rawIter_fold_rem' g it' h6, h7]

/-- 5b (from a fresh iterator). After at least `items` calls of `next`, `next` keeps returning
    `None` without moving. -/
theorem rawIter_exhausted_after {cfg : Cfg} {t : Raw} (hc : CfgOk cfg) (h : Inv cfg t) (p : Nat)
    (hp : t.items ≤ p) : ∀ it, RawIter.new cfg t = .ok it →
      ∃ it', RawIter.nextN cfg t p it = .ok it' ∧ RawIter.next cfg t it' = .ok (none, it') := by
  intro it hnew
  obtain ⟨it', h1, h2, h3, _, _⟩ := rawIter_fold_after hc h p it hnew
  refine ⟨it', h1, rawIter_exhausted hc h it' h2 ?_⟩
  rw [h3, List.drop_eq_nil_iff, fullList_length hc h]
  exact hp

/-! ### 7. `Map.iterObserve` -/

/-- Size hints recorded by the prefix loop of `iterObserve`: `k` calls requested, `m` elements left. -/
def hintsPre : Nat → Nat → List Nat
  | 0, _ => []
  | _ + 1, 0 => [0]
  | k + 1, m + 1 => (m + 1) :: hintsPre k m

theorem hintsPre_closed : ∀ (p m : Nat),
    hintsPre p m ++ [m - p] = (List.range (min p (m + 1) + 1)).map (m - ·) := by
  intro p
  induction p with
  | zero => intro m; simp [hintsPre]
  | succ p ih =>
    intro m
    cases m with
    | zero =>
      have : min (p + 1) (0 + 1) + 1 = 2 := by omega
      rw [this]; simp [hintsPre, List.range_succ]
    | succ m =>
      have : min (p + 1) (m + 1 + 1) + 1 = (min p (m + 1) + 1) + 1 := by omega
      rw [this, List.range_succ_eq_map, List.map_cons, List.map_map, hintsPre, List.cons_append,
        show m + 1 - (p + 1) = m - p by omega, ih m]
      congr 1
      apply List.map_congr_left
      intro a _
      simp

theorem pre_spec {cfg : Cfg} {t : Raw} (g : IterGeo cfg t) :
    ∀ (k : Nat) (it : RawIter) (acc hints : List Nat), IterOk cfg t it →
      ∃ it', Map.iterObserve.pre cfg t k it acc hints =
          .ok (acc.reverse ++ (it.rem t).take k,
               hints.reverse ++ hintsPre k (it.rem t).length, it') ∧
        IterOk cfg t it' ∧ it'.rem t = (it.rem t).drop k := by
  intro k
  induction k with
  | zero => intro it acc hints hok; exact ⟨it, by simp [Map.iterObserve.pre, hintsPre], hok, by simp⟩
  | succ k ih =>
    intro it acc hints hok
    obtain ⟨it1, h1, h2, h3, _⟩ := rawIter_next_spec' g it hok
    rw [Map.iterObserve.pre, h1]
    have hit := hok.items
    cases hrem : it.rem t with
    | nil =>
      rw [hrem] at h3 hit
      refine ⟨it1, ?_, h2, by simpa using h3⟩
      simp at hit
      simp [hintsPre, hit]
    | cons x xs =>
      rw [hrem] at h3 hit
      obtain ⟨it', h4, h5, h6⟩ := ih it1 (x :: acc) (it.items :: hints) h2
      refine ⟨it', ?_, h5, by rw [h6, h3]; simp⟩
      simp only [List.head?_cons]
      rw [h4, h3, hit]
      simp [hintsPre]

/-- 7. `iterObserve`: the prefix is the first `p` full buckets, both the `fold` of the original and
    the `next`-drain of the clone return the rest, and the recorded size hints are the exact numbers
    of elements not yet yielded: `items, items-1, …` before each `next` of the prefix (including the
    `next` that returned `None` when `p > items`), followed by the count after the prefix.
    Entry `j` of the hint list is `items - j` (truncated), there are `min p (items+1) + 1` entries. -/
theorem iterObserve_spec {cfg : Cfg} {t : Raw} (hc : CfgOk cfg) (h : Inv cfg t) (p : Nat) :
    Map.iterObserve cfg t p =
      .ok (t.fullList.take p, t.fullList.drop p, t.fullList.drop p,
           (List.range (min p (t.items + 1) + 1)).map (t.items - ·)) := by
  have g := iterGeo_of_inv hc h
  obtain ⟨it0, h1, _, h3, h4⟩ := rawIter_new_spec' g
  obtain ⟨it1, h5, h6, h7⟩ := pre_spec g p it0 [] [] h3
  rw [h4] at h5 h7
  have hfold := rawIter_fold_rem' g it1 h6
  have hlen := fullList_length_le t
  have hdrain := drainAll_spec' g (t.buckets + 2) it1 [] h6 (by rw [h7, List.length_drop]; omega)
  have hitems : it1.items = t.items - p := by rw [h6.items, h7, List.length_drop, g.items]
  rw [Map.iterObserve, h1]
  simp only [h5, hfold, hdrain, h7, hitems, ← g.items, List.reverse_nil, List.nil_append,
    hintsPre_closed]

/-- Every recorded hint is the true number of elements not yet yielded at that moment. -/
theorem iterObserve_hints_exact {cfg : Cfg} {t : Raw} (hc : CfgOk cfg) (h : Inv cfg t) (p : Nat) :
    ∃ pre rest1 rest2 hints, Map.iterObserve cfg t p = .ok (pre, rest1, rest2, hints) ∧
      ∀ j (hj : j < hints.length), hints[j] = (t.fullList.drop j).length := by
  refine ⟨_, _, _, _, iterObserve_spec hc h p, ?_⟩
  intro j hj
  simp [fullList_length hc h]


/-! ### 8. non-vacuity: a concrete allocated table (8 buckets, 3 full, SSE2 scanner) -/

/-- 8 buckets, group width 16: bytes `8..16` are EMPTY padding, bytes `16..24` mirror `0..8`. -/
def exampleTable : Raw :=
  { mask := 7
    ctrl := #[255, 5, 255, 255, 17, 255, 100, 255,
              255, 255, 255, 255, 255, 255, 255, 255,
              255, 5, 255, 255, 17, 255, 100, 255]
    slots := #[none, some ⟨10, 1, 1, 0⟩, none, none, some ⟨20, 2, 2, 0⟩, none, some ⟨30, 3, 3, 0⟩, none]
    items := 3
    gl := 4
    alloc := true }

example : invB { ops := Sse2.ops } exampleTable = true := by decide
example : exampleTable.fullList = [1, 4, 6] := by decide
example : fullIndices { ops := Sse2.ops } exampleTable exampleTable.items = .ok [1, 4, 6] := by rfl
example : fullIndices { ops := Sse2.ops } exampleTable exampleTable.items =
    .ok exampleTable.fullList := by rfl
example : Map.iterObserve { ops := Sse2.ops } exampleTable 2 = .ok ([1, 4], [6], [6], [3, 2, 1]) := by
  rfl
example : Map.iterObserve { ops := Sse2.ops } exampleTable 5 =
    .ok ([1, 4, 6], [], [], [3, 2, 1, 0, 0]) := by rfl

#print axioms fullList_length
#print axioms fullIndices_spec
#print axioms rawIter_new_ok
#print axioms rawIter_next_spec
#print axioms rawIter_drainAll_spec
#print axioms rawIter_exhausted
#print axioms rawIter_fold_spec
#print axioms rawIter_fold_after
#print axioms iterObserve_spec
#print axioms iterObserve_hints_exact

end Hb
