/-
C11 / C01 / C03 — ONE history theorem over a PAIR of `HashMap`s (`Hb/Model/MapPairOps.lean`:
`PairOp`, `PairCall`, `Map.Pair`, `Map.step2`, `Map.run2`, `Map.run2Faults`, `Map.states2`): every
single-map call of `MapOpX` on either map, interleaved in any order and in both directions with
`other = target.clone()`, `target.clone_from(&other)`, `target == other`, `target.into_iter()`,
`target = HashMap::from_iter(..)`, `drop(mem::take(target))`. State = the driver's: two tables, ONE
world (one log, one set of call counters).

§1 SAFETY, EVERY environment (arbitrary call-number dependent `Hash` / `Eq` / `Clone` / predicate
   answers, panicking callbacks and destructors, refusing allocator), `CfgOk cfg`, `GuardRuns cfg`:
   `ph_call2_safe` (one call `target.op(other)`; per call `ph_safe_on`, `ph_safe_cloneToOther`,
   `ph_safe_cloneFrom`, `ph_safe_eq`, `ph_safe_intoIter`, `ph_safe_fromIter`, `ph_safe_take`),
   `step2_safe`, `run2_safe`, `run2_safe_from`, `ph_run2_inv`, `states2_of_run2`. New facts needed
   for the reason of an abort: `ph_cloneFrom_abort` (`clone_from` aborts only if the allocator
   refuses), `hx_fromIter_safe`, `hx_withCapacity_safe`, `hx_dropInnerTable_safe`.
§2 REFINEMENT, lawful environments (`LawfulP env H P`, as `historyX_refines`; `Clone` may panic):
   reference `AL.PCall` / `AL.PStep` / `AL.PTrace` on pairs of association lists, `AL.PCall.perm`
   (independent of list order), `AL.kv_perm_same_map` / `AL.PCall.clone_then_eq` (the `k ↦ v`
   formulation of `clone` is the finite-map equality `==` decides); `call2_refines` (per call
   `ph_ref_*`), `step2_refines`, `pair_history_refines_from`, `pair_history_refines`.
§3 corollaries in the words of C11: `run2_other_unchanged`, `AL.PTrace.other_unchanged`,
   `clone_then_diverge` (every environment), `clone_then_diverge_ref`, `ph_step2_eq`,
   `eq_ignores_history`.
§4 LEDGER (C03), every environment, drop glue: `ph_Led` / `ph_Led2`, per call `ph_led_*`,
   `step2_ledger`, `ph_run2_ledger`, `run2_ledger` (objects only: the allocator invariant
   `hs_AllocInv` of `runX_ledger` speaks about ONE table and is not restated for the pair).
-/
import Hb.Model.MapPairOps
import Hb.Proofs.HistoryX
import Hb.Proofs.RefineX
import Hb.Proofs.EqSpec
import Hb.Proofs.LedgerX
namespace Hb
open Map (Pair)

variable {cfg : Cfg}

/-! ## 1. SAFETY, every environment -/

/-- What one call on a pair guarantees, whatever the environment does: never `.fault`; target and
    other map are valid on return and after an unwind; `.abort` only for the reason `A`. -/
def ph_SafeC (cfg : Cfg) (A : Prop) (op : PairOp) (other : Raw) :
    Res ((RetX × Raw) × World) → Prop
  | .ok ((_, o'), w') => TInv cfg w'.t ∧ TInv cfg o'
  | .panic _ w' => TInv cfg w'.t ∧ TInv cfg (Map.otherOnPanic cfg op other)
  | .abort => A
  | .fault _ => False

theorem ph_safe_on (hc : CfgOk cfg) (hg : GuardRuns cfg) (env : Env) (op : MapOpX) (other : Raw)
    (w : World) (h : TInv cfg w.t) (ho : TInv cfg other) :
    ph_SafeC cfg (∃ j, env.allocOk j = false) (.on op) other
      (Map.call2 cfg env (.on op) other w) := by
  have hs := hx_stepX_safe hc hg env op w h
  simp only [Map.call2]
  cases hr : Map.stepX cfg env op w with
  | ok pr => obtain ⟨r, w'⟩ := pr; rw [hr] at hs; exact ⟨hs.1, ho⟩
  | panic c w' => rw [hr] at hs; exact ⟨hs.1, ho⟩
  | abort => rw [hr] at hs; exact hs
  | fault f => rw [hr] at hs; exact hs.elim

theorem ph_safe_cloneToOther (hc : CfgOk cfg) (env : Env) (other : Raw)
    (w : World) (h : TInv cfg w.t) (ho : TInv cfg other) :
    ph_SafeC cfg (∃ j, env.allocOk j = false) .cloneToOther other
      (Map.call2 cfg env .cloneToOther other w) := by
  have hd := dropInnerTable_spec hc env other w ho
  simp only [Map.call2, Map.cloneToOther]
  cases hr : dropInnerTable cfg env other w with
  | ok w1 =>
    rw [hr] at hd
    have h1 : TInv cfg w1.t := by rw [hd.1]; exact h
    have hcl := cloneTable_spec hc env w1 h1
    simp only [en_bind_ok]
    cases hr2 : Map.cloneTable cfg env w1 with
    | ok pr =>
      obtain ⟨nt, w'⟩ := pr
      rw [hr2] at hcl
      exact ⟨by show TInv cfg w'.t; rw [hcl.2.1]; exact h1, hcl.1⟩
    | panic c w' =>
      rw [hr2] at hcl
      exact ⟨by show TInv cfg w'.t; rw [hcl.2.1]; exact h1, TInv.new hc⟩
    | abort => rw [hr2] at hcl; exact ⟨_, hcl.2⟩
    | fault f => rw [hr2] at hcl; exact hcl.elim
  | panic c w' =>
    rw [hr] at hd
    exact ⟨by show TInv cfg w'.t; rw [hd.2.1]; exact h, TInv.new hc⟩
  | abort => rw [hr] at hd; exact hd.elim
  | fault f => rw [hr] at hd; exact hd.elim

/-- `clone_from` calls `handle_alloc_error` only if the allocator refuses a request. -/
theorem ph_cloneFrom_abort (hc : CfgOk cfg) (env : Env) (src : Raw) (w : World)
    (h : TInvB cfg w.t) (hs : TInvB cfg src) (hab : Map.cloneFrom cfg env src w = .abort) :
    ∃ j, env.allocOk j = false := by
  cases hal : src.alloc with
  | false =>
    have hsp := cloneFrom_spec hc env src w h hs
    rw [hab] at hsp
    rw [hal] at hsp
    cases hsp.1
  | true =>
    have hse := hs.1.isEmptySingleton_eq
    rw [hal] at hse
    have hsall := hs.1.allocated hal
    obtain ⟨p, w1, ds, rest, h1, a1, a2, a3, a4, a5, a6, a7, a8, a9, a10, a11⟩ :=
      dropElements_spec hc env w h.1
    rw [cloneFrom_eq, hse, h1] at hab
    simp only [Bool.not_true, Bool.false_eq_true, if_false] at hab
    cases p with
    | true => simp only at hab; cases hab
    | false =>
      simp only at hab
      revert hab
      generalize hv : ({ w1 with t := { w1.t with slots := Array.replicate w1.t.slots.size none } } : World) = v
      intro hab
      have hvm : v.t.mask = w.t.mask := by rw [← hv]; exact a1
      have hva : v.t.alloc = w.t.alloc := by rw [← hv]; exact a5
      have hvb : v.t.buckets = w.t.buckets := by simp only [Raw.buckets, hvm]
      have hvsz : v.t.slots.size = w.t.slots.size := by rw [← hv]; simpa using a6
      have hvse : v.t.isEmptySingleton = !v.t.alloc := by
        have := h.1.isEmptySingleton_eq
        simp only [Raw.isEmptySingleton] at this ⊢
        rw [hvm, hva]; exact this
      have hstep2 := cfStep2_spec (cfg := cfg) env v hs hal hvse (h.2.of_eq hvm hva)
        (by
          intro hb
          rw [hvb] at hb
          have hmm : w.t.mask = src.mask := by simpa [Raw.buckets] using hb
          have hwa : w.t.alloc = true := by
            have h1 := h.1.isEmptySingleton_eq
            simp only [Raw.isEmptySingleton] at h1 hse
            rw [hmm, hse] at h1
            cases hx : w.t.alloc with
            | true => rfl
            | false => rw [hx] at h1; cases h1
          refine ⟨hva.trans hwa, ?_⟩
          rw [hvsz, (h.1.allocated hwa).2.2.2.1, hsall.2.2.2.1]; exact hb)
        hsall.2.2.2.1
        (fun j => by rw [← hv]; exact ab_slot_replicate _ _ rfl j)
      rcases hstep2 with ⟨w4, s1, s2, s3, s4, s5, s6, s7⟩ | ⟨s1, s2, s3⟩
      · rw [s1] at hab
        simp only at hab
        rcases cfStep3_spec hc env w4 hs hal s2 s3 s4 s5 with
          ⟨w', r1, _⟩ | ⟨w', n, x, r1, _⟩
        · rw [r1] at hab; cases hab
        · rw [r1] at hab; cases hab
      · exact ⟨_, s3⟩

theorem ph_safe_cloneFrom (hc : CfgOk cfg) (env : Env) (other : Raw)
    (w : World) (h : TInv cfg w.t) (ho : TInv cfg other) :
    ph_SafeC cfg (∃ j, env.allocOk j = false) .cloneFrom other
      (Map.call2 cfg env .cloneFrom other w) := by
  have hs := cloneFrom_spec hc env other w h ho
  have hab := ph_cloneFrom_abort hc env other w h ho
  simp only [Map.call2]
  cases hr : Map.cloneFrom cfg env other w with
  | ok w' => rw [hr] at hs; exact ⟨hs.1, ho⟩
  | panic c w' => rw [hr] at hs; exact ⟨hs.1, ho⟩
  | abort => exact hab hr
  | fault f => rw [hr] at hs; exact hs.elim

theorem ph_safe_eq (hc : CfgOk cfg) (env : Env) (other : Raw)
    (w : World) (h : TInv cfg w.t) (ho : TInv cfg other) {A : Prop} :
    ph_SafeC cfg A .eq other (Map.call2 cfg env .eq other w) := by
  have hs := mapEq_spec hc hc.probe env other w h.1 ho.1
  simp only [Map.call2]
  cases hr : Map.mapEq cfg env other w with
  | ok pr =>
    obtain ⟨r, w'⟩ := pr
    rw [hr] at hs
    exact ⟨by show TInv cfg w'.t; rw [hs.1]; exact h, ho⟩
  | panic c w' =>
    rw [hr] at hs
    exact ⟨by show TInv cfg w'.t; rw [hs.2.1]; exact h, ho⟩
  | abort => rw [hr] at hs; exact hs.elim
  | fault f => rw [hr] at hs; exact hs.elim

theorem ph_safe_intoIter (hc : CfgOk cfg) (env : Env) (k : Nat) (other : Raw)
    (w : World) (h : TInv cfg w.t) (ho : TInv cfg other) {A : Prop} :
    ph_SafeC cfg A (.intoIter k) other (Map.call2 cfg env (.intoIter k) other w) := by
  have hs := intoIter_spec hc env k w h
  simp only [Map.call2]
  cases hr : Map.intoIter cfg env k w with
  | ok pr =>
    obtain ⟨out, w'⟩ := pr
    rw [hr] at hs
    exact ⟨by show TInv cfg w'.t; rw [hs.2.2.1]; exact TInv.new hc, ho⟩
  | panic c w' =>
    rw [hr] at hs
    exact ⟨by show TInv cfg w'.t; rw [hs.2.1]; exact TInv.new hc, ho⟩
  | abort => rw [hr] at hs; exact hs.elim
  | fault f => rw [hr] at hs; exact hs.elim

/-- Dropping a detached table never aborts and leaves the collection's own table alone. -/
theorem hx_dropInnerTable_safe (hc : CfgOk cfg) (env : Env) (old : Raw) (w : World)
    (hold : TInv cfg old) (h : TInv cfg w.t) {A : Prop} :
    hx_Safe cfg A id (dropInnerTable cfg env old w) := by
  have hsp := dropInnerTable_spec hc env old w hold
  cases hr : dropInnerTable cfg env old w with
  | ok w' => rw [hr] at hsp; show TInv cfg w'.t; rw [hsp.1]; exact h
  | panic c w' => rw [hr] at hsp; show TInv cfg w'.t; rw [hsp.2.1]; exact h
  | abort => rw [hr] at hsp; exact hsp.elim
  | fault f => rw [hr] at hsp; exact hsp.elim

theorem hx_withCapacity_safe (hc : CfgOk cfg) (env : Env) (n : Nat) (w : World) (h : TInv cfg w.t) :
    hx_Safe cfg (∃ j, env.allocOk j = false) id (withCapacity cfg env n w) := by
  have hsp := withCapacity_spec hc env n w
  cases hr : withCapacity cfg env n w with
  | ok w' => rw [hr] at hsp; exact hsp.1
  | panic c w' => rw [hr] at hsp; show TInv cfg w'.t; rw [hsp.2]; exact h
  | abort => rw [hr] at hsp; exact ⟨_, hsp⟩
  | fault f => rw [hr] at hsp; exact hsp.elim

/-- `*m = HashMap::from_iter(vec)`, every environment, with the reason for `.abort`. -/
theorem hx_fromIter_safe (hc : CfgOk cfg) (hg : GuardRuns cfg) (env : Env) (items : List Elem)
    (w : World) (h : TInv cfg w.t) :
    hx_Safe cfg (∃ j, env.allocOk j = false) id (Map.fromIter cfg env items w) := by
  unfold Map.fromIter
  refine ((hx_dropInnerTable_safe hc env w.t { w with t := Raw.new cfg.W } h (TInv.new hc)).onPanic
    (en_dropAllQuiet_t items)).bind ?_
  intro w1 h1
  refine ((hx_withCapacity_safe hc env items.length w1 h1).onPanic (en_dropAllQuiet_t items)).bind ?_
  intro w2 h2
  have hm := hx_insertMany_safe hc hg env items w2 h2
  cases hr : Map.insertMany cfg env items w2 with
  | ok w3 => rw [hr] at hm; exact hm
  | panic c w' =>
    rw [hr] at hm
    have hd := hx_dropInnerTable_safe (A := ∃ j, env.allocOk j = false) hc (Map.quietEnv env) w'.t
      { w' with t := Raw.new cfg.W } hm (TInv.new hc)
    simp only
    cases hr2 : dropInnerTable cfg (Map.quietEnv env) w'.t { w' with t := Raw.new cfg.W } with
    | ok w'' => rw [hr2] at hd; exact hd
    | panic c2 w'' => rw [hr2] at hd; exact hd
    | abort => rw [hr2] at hd; exact hd
    | fault f => rw [hr2] at hd; exact hd.elim
  | abort => rw [hr] at hm; exact hm
  | fault f => rw [hr] at hm; exact hm.elim

theorem ph_safe_fromIter (hc : CfgOk cfg) (hg : GuardRuns cfg) (env : Env) (items : List Elem)
    (other : Raw) (w : World) (h : TInv cfg w.t) (ho : TInv cfg other) :
    ph_SafeC cfg (∃ j, env.allocOk j = false) (.fromIter items) other
      (Map.call2 cfg env (.fromIter items) other w) := by
  have hs := hx_fromIter_safe hc hg env items w h
  simp only [Map.call2]
  cases hr : Map.fromIter cfg env items w with
  | ok w' => rw [hr] at hs; exact ⟨hs, ho⟩
  | panic c w' => rw [hr] at hs; exact ⟨hs, ho⟩
  | abort => rw [hr] at hs; exact hs
  | fault f => rw [hr] at hs; exact hs.elim

theorem ph_safe_take (hc : CfgOk cfg) (env : Env) (other : Raw)
    (w : World) (h : TInv cfg w.t) (ho : TInv cfg other) {A : Prop} :
    ph_SafeC cfg A .take other (Map.call2 cfg env .take other w) := by
  have hs := hx_dropInnerTable_safe (A := A) hc env w.t { w with t := Raw.new cfg.W } h (TInv.new hc)
  simp only [Map.call2, Map.takeDrop]
  cases hr : dropInnerTable cfg env w.t { w with t := Raw.new cfg.W } with
  | ok w' => rw [hr] at hs; exact ⟨hs, ho⟩
  | panic c w' => rw [hr] at hs; exact ⟨hs, ho⟩
  | abort => rw [hr] at hs; exact hs
  | fault f => rw [hr] at hs; exact hs.elim

theorem ph_SafeC.mono {A B : Prop} {op : PairOp} {other : Raw} {r : Res ((RetX × Raw) × World)}
    (hr : ph_SafeC cfg A op other r) (hab : A → B) : ph_SafeC cfg B op other r := by
  match r, hr with
  | .ok ((_, _), _), h => exact h
  | .panic _ _, h => exact h
  | .abort, h => exact hab h
  | .fault _, h => exact h.elim

/-- One call `target.op(other)` from any two valid tables, every environment. -/
theorem ph_call2_safe (hc : CfgOk cfg) (hg : GuardRuns cfg) (env : Env) (op : PairOp) (other : Raw)
    (w : World) (h : TInv cfg w.t) (ho : TInv cfg other) :
    ph_SafeC cfg (∃ j, env.allocOk j = false) op other (Map.call2 cfg env op other w) := by
  cases op with
  | on op => exact ph_safe_on hc hg env op other w h ho
  | cloneToOther => exact ph_safe_cloneToOther hc env other w h ho
  | cloneFrom => exact ph_safe_cloneFrom hc env other w h ho
  | eq => exact ph_safe_eq hc env other w h ho
  | intoIter k => exact ph_safe_intoIter hc env k other w h ho
  | fromIter items => exact ph_safe_fromIter hc hg env items other w h ho
  | take => exact ph_safe_take hc env other w h ho

/-! ### one call on a pair, whole histories -/

/-- Both maps of a pair are valid tables whose `len` is the number of stored elements. -/
def PairGood (cfg : Cfg) (s : Pair) : Prop :=
  (TInv cfg s.a ∧ s.a.items = s.a.elems.length) ∧ (TInv cfg s.b ∧ s.b.items = s.b.elems.length)

theorem PairGood.of_tinv (hc : CfgOk cfg) {s : Pair} (ha : TInv cfg s.a) (hb : TInv cfg s.b) :
    PairGood cfg s := ⟨hs_good hc ha, hs_good hc hb⟩

theorem PairGood.new (hc : CfgOk cfg) {s0 : Pair} (ha : s0.a = Raw.new cfg.W)
    (hb : s0.b = Raw.new cfg.W) : PairGood cfg s0 :=
  PairGood.of_tinv hc (by rw [ha]; exact TInv.new hc) (by rw [hb]; exact TInv.new hc)

/-- Outcome predicate of one call on a pair. -/
def ph_Safe2 (cfg : Cfg) (A : Prop) : Map.Out2 → Prop
  | .ret _ s' => PairGood cfg s'
  | .panic _ s' => PairGood cfg s'
  | .abort => A
  | .fault _ => False

theorem ph_step2_safe (hc : CfgOk cfg) (hg : GuardRuns cfg) (env : Env) (c : PairCall) (s : Pair)
    (ha : TInv cfg s.a) (hb : TInv cfg s.b) :
    ph_Safe2 cfg (∃ j, env.allocOk j = false) (Map.step2 cfg env c s) := by
  obtain ⟨side, op⟩ := c
  cases side with
  | a =>
    have hs := ph_call2_safe hc hg env op s.b s.w ha hb
    have hst : Map.step2 cfg env ⟨.a, op⟩ s =
        match Map.call2 cfg env op s.b s.w with
        | .ok ((r, o'), w') => .ret r { w := w', b := o' }
        | .panic cls w' => .panic cls { w := w', b := Map.otherOnPanic cfg op s.b }
        | .abort => .abort
        | .fault f => .fault f := rfl
    rw [hst]
    cases hcall : Map.call2 cfg env op s.b s.w with
    | ok pr =>
      obtain ⟨⟨r, o'⟩, w'⟩ := pr
      rw [hcall] at hs
      exact PairGood.of_tinv hc hs.1 hs.2
    | panic cls w' =>
      rw [hcall] at hs
      exact PairGood.of_tinv hc hs.1 hs.2
    | abort => rw [hcall] at hs; exact hs
    | fault f => rw [hcall] at hs; exact hs.elim
  | b =>
    have hs := ph_call2_safe hc hg env op s.w.t { s.w with t := s.b } hb ha
    have hst : Map.step2 cfg env ⟨.b, op⟩ s =
        match Map.call2 cfg env op s.w.t { s.w with t := s.b } with
        | .ok ((r, o'), w') => .ret r { w := { w' with t := o' }, b := w'.t }
        | .panic cls w' =>
          .panic cls { w := { w' with t := Map.otherOnPanic cfg op s.w.t }, b := w'.t }
        | .abort => .abort
        | .fault f => .fault f := rfl
    rw [hst]
    cases hcall : Map.call2 cfg env op s.w.t { s.w with t := s.b } with
    | ok pr =>
      obtain ⟨⟨r, o'⟩, w'⟩ := pr
      rw [hcall] at hs
      exact PairGood.of_tinv hc hs.2 hs.1
    | panic cls w' =>
      rw [hcall] at hs
      exact PairGood.of_tinv hc hs.2 hs.1
    | abort => rw [hcall] at hs; exact hs
    | fault f => rw [hcall] at hs; exact hs.elim

/-- **P1.** One call on a pair of maps (any `PairOp` on either side), from any two valid tables, for
    EVERY environment (`Hash`/`Eq`/`Clone`/predicate answers arbitrary and call-number dependent, any
    callback or destructor may panic, the allocator may refuse): never `.fault`; on return AND after
    an unwind BOTH tables are valid and `len` is the number of stored elements; `.abort`
    (`handle_alloc_error`) only if the allocator refuses some request. -/
theorem step2_safe (hc : CfgOk cfg) (hg : GuardRuns cfg) (env : Env) (c : PairCall) (s : Pair)
    (ha : TInv cfg s.a) (hb : TInv cfg s.b) :
    match Map.step2 cfg env c s with
    | .ret _ s' => (TInv cfg s'.a ∧ s'.a.items = s'.a.elems.length) ∧
        (TInv cfg s'.b ∧ s'.b.items = s'.b.elems.length)
    | .panic _ s' => (TInv cfg s'.a ∧ s'.a.items = s'.a.elems.length) ∧
        (TInv cfg s'.b ∧ s'.b.items = s'.b.elems.length)
    | .abort => ∃ j, env.allocOk j = false
    | .fault _ => False := by
  have := ph_step2_safe hc hg env c s ha hb
  generalize Map.step2 cfg env c s = r at this ⊢
  match r, this with
  | .ret _ _, h => exact h
  | .panic _ _, h => exact h
  | .abort, h => exact h
  | .fault _, h => exact h

/-- Pair histories from any two valid tables. -/
theorem ph_run2_inv (hc : CfgOk cfg) (hg : GuardRuns cfg) (env : Env) :
    ∀ (cs : List PairCall) (s : Pair), PairGood cfg s →
      Map.run2Faults cfg env cs s = false ∧
      (∀ s' ∈ Map.states2 cfg env cs s, PairGood cfg s') ∧
      (∀ obs sf, Map.run2 cfg env cs s = some (obs, sf) → PairGood cfg sf) ∧
      ((∀ j, env.allocOk j = true) → ∃ obs sf, Map.run2 cfg env cs s = some (obs, sf)) := by
  intro cs
  induction cs with
  | nil =>
    intro s h
    refine ⟨rfl, ?_, ?_, fun _ => ⟨[], s, rfl⟩⟩
    · intro s' hs'
      simp only [Map.states2, List.mem_singleton] at hs'
      rw [hs']; exact h
    · intro obs sf hr
      simp only [Map.run2, Option.some.injEq, Prod.mk.injEq] at hr
      rw [← hr.2]; exact h
  | cons c rest ih =>
    intro s h
    have hs := ph_step2_safe hc hg env c s h.1.1 h.2.1
    cases hr : Map.step2 cfg env c s with
    | ret r s1 =>
      rw [hr] at hs
      obtain ⟨i1, i2, i3, i4⟩ := ih s1 hs
      simp only [Map.run2, Map.run2Faults, Map.states2, hr]
      refine ⟨i1, ?_, ?_, ?_⟩
      · intro s' hs'
        rcases List.mem_cons.mp hs' with rfl | hs'
        · exact h
        · exact i2 s' hs'
      · intro obs sf hrun
        obtain ⟨⟨os, sf'⟩, h1, h2⟩ := Option.map_eq_some_iff.1 hrun
        simp only [Prod.mk.injEq] at h2
        rw [← h2.2]; exact i3 os sf' h1
      · intro hal
        obtain ⟨os, sf, h1⟩ := i4 hal
        exact ⟨_, _, by rw [h1]; rfl⟩
    | panic cls s1 =>
      rw [hr] at hs
      obtain ⟨i1, i2, i3, i4⟩ := ih s1 hs
      simp only [Map.run2, Map.run2Faults, Map.states2, hr]
      refine ⟨i1, ?_, ?_, ?_⟩
      · intro s' hs'
        rcases List.mem_cons.mp hs' with rfl | hs'
        · exact h
        · exact i2 s' hs'
      · intro obs sf hrun
        obtain ⟨⟨os, sf'⟩, h1, h2⟩ := Option.map_eq_some_iff.1 hrun
        simp only [Prod.mk.injEq] at h2
        rw [← h2.2]; exact i3 os sf' h1
      · intro hal
        obtain ⟨os, sf, h1⟩ := i4 hal
        exact ⟨_, _, by rw [h1]; rfl⟩
    | abort =>
      rw [hr] at hs
      obtain ⟨j, hj⟩ : ∃ j, env.allocOk j = false := hs
      refine ⟨by simp only [Map.run2Faults, hr], ?_, fun obs sf hn => ?_, fun hal => ?_⟩
      · intro s' hs'
        simp only [Map.states2, hr, List.mem_singleton] at hs'
        rw [hs']; exact h
      · simp [Map.run2, hr] at hn
      · rw [hal] at hj; cases hj
    | fault f => rw [hr] at hs; exact hs.elim

/-- **P2.** Every history of calls on a pair `(HashMap::new(), HashMap::new())` — single-map calls on
    either map interleaved with `clone`, `clone_from`, `==`, `into_iter`, `from_iter`, `mem::take` in
    both directions — for EVERY environment: no call reaches undefined behaviour (`run2Faults`);
    after every call, returned or unwound (panics are caught and the history goes on), BOTH tables
    satisfy the API invariant `TInv cfg` and `items = elems.length` (`states2` lists the pair after
    every prefix); the history is cut short only by `handle_alloc_error`, i.e. never if the allocator
    never refuses. The world `s0.w` may start with any counters and log. -/
theorem run2_safe (hc : CfgOk cfg) (hg : GuardRuns cfg) (env : Env) (cs : List PairCall) (s0 : Pair)
    (ha : s0.a = Raw.new cfg.W) (hb : s0.b = Raw.new cfg.W) :
    Map.run2Faults cfg env cs s0 = false ∧
    (∀ s ∈ Map.states2 cfg env cs s0,
      (TInv cfg s.a ∧ s.a.items = s.a.elems.length) ∧ (TInv cfg s.b ∧ s.b.items = s.b.elems.length)) ∧
    (∀ obs sf, Map.run2 cfg env cs s0 = some (obs, sf) →
      (TInv cfg sf.a ∧ sf.a.items = sf.a.elems.length) ∧
      (TInv cfg sf.b ∧ sf.b.items = sf.b.elems.length)) ∧
    ((∀ j, env.allocOk j = true) → ∃ obs sf, Map.run2 cfg env cs s0 = some (obs, sf)) :=
  ph_run2_inv hc hg env cs s0 (PairGood.new hc ha hb)

/-- **P2'.** The same from any two valid tables. -/
theorem run2_safe_from (hc : CfgOk cfg) (hg : GuardRuns cfg) (env : Env) (cs : List PairCall)
    (s0 : Pair) (ha : TInv cfg s0.a) (hb : TInv cfg s0.b) :
    Map.run2Faults cfg env cs s0 = false ∧
    (∀ s ∈ Map.states2 cfg env cs s0,
      (TInv cfg s.a ∧ s.a.items = s.a.elems.length) ∧ (TInv cfg s.b ∧ s.b.items = s.b.elems.length)) ∧
    (∀ obs sf, Map.run2 cfg env cs s0 = some (obs, sf) →
      (TInv cfg sf.a ∧ sf.a.items = sf.a.elems.length) ∧
      (TInv cfg sf.b ∧ sf.b.items = sf.b.elems.length)) ∧
    ((∀ j, env.allocOk j = true) → ∃ obs sf, Map.run2 cfg env cs s0 = some (obs, sf)) :=
  ph_run2_inv hc hg env cs s0 (PairGood.of_tinv hc ha hb)

/-- `states2` really lists the pair after every prefix: its last entry is the final pair of `run2`
    and it has one entry per call plus the initial pair whenever the run completes. -/
theorem states2_of_run2 (env : Env) : ∀ (cs : List PairCall) (s : Pair) (obs : List Map.ObsX) (sf : Pair),
    Map.run2 cfg env cs s = some (obs, sf) →
      (Map.states2 cfg env cs s).length = cs.length + 1 ∧
      (Map.states2 cfg env cs s).getLast? = some sf ∧ obs.length = cs.length := by
  intro cs
  induction cs with
  | nil =>
    intro s obs sf hr
    simp only [Map.run2, Option.some.injEq, Prod.mk.injEq] at hr
    obtain ⟨rfl, rfl⟩ := hr
    exact ⟨rfl, rfl, rfl⟩
  | cons c rest ih =>
    intro s obs sf hr
    cases hst : Map.step2 cfg env c s with
    | ret r s1 =>
      simp only [Map.run2, hst] at hr
      obtain ⟨⟨os, sf'⟩, h1, h2⟩ := Option.map_eq_some_iff.1 hr
      simp only [Prod.mk.injEq] at h2
      obtain ⟨rfl, rfl⟩ := h2
      obtain ⟨j1, j2, j3⟩ := ih s1 os sf' h1
      simp only [Map.states2, hst, List.length_cons, j1, j3, true_and, and_true]
      rw [List.getLast?_cons, j2]; rfl
    | panic cls s1 =>
      simp only [Map.run2, hst] at hr
      obtain ⟨⟨os, sf'⟩, h1, h2⟩ := Option.map_eq_some_iff.1 hr
      simp only [Prod.mk.injEq] at h2
      obtain ⟨rfl, rfl⟩ := h2
      obtain ⟨j1, j2, j3⟩ := ih s1 os sf' h1
      simp only [Map.states2, hst, List.length_cons, j1, j3, true_and, and_true]
      rw [List.getLast?_cons, j2]; rfl
    | abort => simp [Map.run2, hst] at hr
    | fault f => simp [Map.run2, hst] at hr

/-! ## 2. REFINEMENT, lawful environments -/

/-- Contract / coverage side conditions of the single-map calls inside a pair history (those of
    `historyX_refines`); `True` for the two-collection calls. -/
def PairOp.contract (H : Nat → Nat) : PairOp → Prop
  | .on op => op.contract H
  | _ => True

def PairOp.basicOk : PairOp → Bool
  | .on op => op.basicOk
  | _ => true

namespace AL

/-- The finite map `key ↦ payload` of an abstract map, as a list of pairs (object identities
    forgotten). -/
def kv (l : AL) : List (Nat × Nat) := l.map fun e => (e.k, e.v)

/-- One call `target.op(&other)` on a pair of abstract maps: `PCall P H op T O obs T' O'` = "with
    target `T` and other map `O`, call `op` may be observed as `obs` and leave `T'`, `O'`".
    * `on`: the single-map reference `AL.StepX` on the target;
    * `cloneToOther`: `other := target` as a finite map `k ↦ v` (the key / value OBJECTS of the clone
      are whatever `Clone` produced — fresh identities —, so the relation is stated modulo
      identities, exactly as `clone_equal_contents` / `eq_clone` do); if `Clone` panics the old
      `other` is already gone: `other = {}`;
    * `cloneFrom`: `target := other` likewise; if `Clone` panics the guard leaves `target = {}`;
    * `eq`: `true` iff both are the same finite map `k ↦ v`;
    * `intoIter k`: the first `k` pairs of SOME order of the target; the target is left empty;
    * `fromIter items`: fold of `insert` over the empty map (last value wins, first key object
      kept); on capacity overflow the half-built map is dropped and the target stays empty;
    * `take`: the target is left empty. -/
inductive PCall (P : Pred) (H : Nat → Nat) : PairOp → AL → AL → Map.ObsX → AL → AL → Prop where
  | on {op : MapOpX} {T T' : AL} {o : Map.ObsX} (O : AL) (hs : StepX P H op T o T') :
      PCall P H (.on op) T O o T' O
  | cloneToOther {T O' : AL} (O : AL) (h : List.Perm (kv O') (kv T)) :
      PCall P H .cloneToOther T O (.ret .unit) T O'
  | cloneToOtherPanic (T O : AL) : PCall P H .cloneToOther T O (.panic "clone") T []
  | cloneFrom {O T' : AL} (T : AL) (h : List.Perm (kv T') (kv O)) :
      PCall P H .cloneFrom T O (.ret .unit) T' O
  | cloneFromPanic (T O : AL) : PCall P H .cloneFrom T O (.panic "clone") [] O
  | eq (T O : AL) (r : Bool)
      (h : r = true ↔ ∀ k, (T.find k).map (·.v) = (O.find k).map (·.v)) :
      PCall P H .eq T O (.ret (.base (.bool r))) T O
  | intoIter (k : Nat) {T T1 : AL} (O : AL) (hp : List.Perm T1 T) :
      PCall P H (.intoIter k) T O (.ret (.base (.elems (T1.take k)))) [] O
  | fromIter (items : List Elem) (T O : AL) :
      PCall P H (.fromIter items) T O (.ret .unit) (AL.insertAll [] items) O
  | fromIterOverflow (items : List Elem) (T O : AL) :
      PCall P H (.fromIter items) T O (.panic "capacity") [] O
  | take (T O : AL) : PCall P H .take T O (.ret .unit) [] O

/-- One call of a pair history on the pair of abstract maps `(a, b)`. -/
def PStep (P : Pred) (H : Nat → Nat) (c : PairCall) (s : AL × AL) (o : Map.ObsX) (s' : AL × AL) :
    Prop :=
  match c.side with
  | .a => PCall P H c.op s.1 s.2 o s'.1 s'.2
  | .b => PCall P H c.op s.2 s.1 o s'.2 s'.1

/-- A history on the pair of abstract maps: one `PStep` per call, panics included. -/
inductive PTrace (P : Pred) (H : Nat → Nat) :
    List PairCall → AL × AL → List Map.ObsX → AL × AL → Prop where
  | nil (s : AL × AL) : PTrace P H [] s [] s
  | cons {c : PairCall} {cs : List PairCall} {s s' sf : AL × AL} {o : Map.ObsX}
      {os : List Map.ObsX} (hs : PStep P H c s o s') (ht : PTrace P H cs s' os sf) :
      PTrace P H (c :: cs) s (o :: os) sf

/-- A pair call can be replayed from any permutation of the two abstract maps: same observation,
    results up to permutation. -/
theorem PCall.perm {P : Pred} {H : Nat → Nat} {op : PairOp} {T O T' O' T2 O2 : AL} {o : Map.ObsX}
    (h : PCall P H op T O o T' O') (hT : List.Perm T T2) (hO : List.Perm O O2)
    (hnT : T.keysNodup) (hnO : O.keysNodup) :
    ∃ T2' O2', PCall P H op T2 O2 o T2' O2' ∧ List.Perm T' T2' ∧ List.Perm O' O2' := by
  cases h with
  | on _ hs =>
    obtain ⟨l1', hs', hp'⟩ := hs.perm hT hnT
    exact ⟨l1', O2, .on O2 hs', hp', hO⟩
  | cloneToOther _ h =>
    exact ⟨T2, O', .cloneToOther O2 (h.trans (hT.map _)), hT, List.Perm.refl _⟩
  | cloneToOtherPanic => exact ⟨T2, [], .cloneToOtherPanic T2 O2, hT, List.Perm.refl _⟩
  | cloneFrom _ h =>
    exact ⟨T', O2, .cloneFrom T2 (h.trans (hO.map _)), List.Perm.refl _, hO⟩
  | cloneFromPanic => exact ⟨[], O2, .cloneFromPanic T2 O2, List.Perm.refl _, hO⟩
  | eq _ _ r h =>
    refine ⟨T2, O2, .eq T2 O2 r ?_, hT, hO⟩
    rw [h]
    refine forall_congr' fun k => ?_
    rw [perm_find hT hnT k, perm_find hO hnO k]
  | intoIter k _ hp => exact ⟨[], O2, .intoIter k O2 (hp.trans hT), List.Perm.refl _, hO⟩
  | fromIter items => exact ⟨_, O2, .fromIter items T2 O2, List.Perm.refl _, hO⟩
  | fromIterOverflow items => exact ⟨[], O2, .fromIterOverflow items T2 O2, List.Perm.refl _, hO⟩
  | take => exact ⟨[], O2, .take T2 O2, List.Perm.refl _, hO⟩

/-- The `key ↦ payload` pairs determine the keys: a map with the same pairs as a key-distinct map
    is key-distinct. -/
theorem keysNodup_of_kv {l1 l2 : AL} (hp : List.Perm (kv l1) (kv l2)) (h2 : l2.keysNodup) :
    l1.keysNodup := by
  have h := hp.map Prod.fst
  unfold kv at h
  rw [List.map_map, List.map_map] at h
  exact h.symm.nodup h2

/-- Holding the same `key ↦ payload` pairs (as multisets) is being the same finite map — the
    relation `==` decides (`AL.PCall.eq`). -/
theorem kv_perm_same_map {l1 l2 : AL} (hp : List.Perm (kv l1) (kv l2)) (h2 : l2.keysNodup) (k : Nat) :
    (l1.find k).map (·.v) = (l2.find k).map (·.v) := by
  have h1 := keysNodup_of_kv hp h2
  refine (eq_finmap_iff h1 h2).1 ⟨by simpa [kv] using hp.length_eq, ?_⟩ k
  intro e he
  have hm : (e.k, e.v) ∈ kv l2 := hp.subset (List.mem_map.mpr ⟨e, he, rfl⟩)
  obtain ⟨e', he', hkv⟩ := List.mem_map.mp hm
  simp only [Prod.mk.injEq] at hkv
  exact ⟨e', he', hkv.1, hkv.2⟩

/-- In the reference: right after a returned `clone_to_other` (or `clone_from`), `==` answers `true`. -/
theorem PCall.clone_then_eq {P : Pred} {H : Nat → Nat} {T O T' O' T2 O2 : AL} {r : RetX} {b : Bool}
    (hn : T.keysNodup) (h : PCall P H .cloneToOther T O (.ret r) T' O')
    (he : PCall P H .eq T' O' (.ret (.base (.bool b))) T2 O2) : b = true := by
  cases h with
  | cloneToOther _ hp =>
    cases he with
    | eq _ _ _ hiff =>
      rw [hiff]
      intro k
      exact (kv_perm_same_map hp hn k).symm

end AL

/-- "Call `target.op(other)` from world `w` refines one `AL.PCall`": it returns or panics, the
    observation and both tables afterwards are those of the specification (contents up to bucket
    order), invariant `RI` kept on both. -/
def ph_Ref (cfg : Cfg) (env : Env) (P : AL.Pred) (H : Nat → Nat) (op : PairOp) (other : Raw)
    (w : World) : Prop :=
  (∃ r o' w' T' O', Map.call2 cfg env op other w = .ok ((r, o'), w') ∧
    AL.PCall P H op w.t.elems other.elems (.ret r) T' O' ∧
    List.Perm w'.t.elems T' ∧ List.Perm o'.elems O' ∧ RI cfg H w'.t ∧ RI cfg H o') ∨
  (∃ c w' T' O', Map.call2 cfg env op other w = .panic c w' ∧
    AL.PCall P H op w.t.elems other.elems (.panic c) T' O' ∧
    List.Perm w'.t.elems T' ∧ List.Perm (Map.otherOnPanic cfg op other).elems O' ∧
    RI cfg H w'.t ∧ RI cfg H (Map.otherOnPanic cfg op other))

variable {env : Env} {H : Nat → Nat} {P : AL.Pred}

theorem ph_new_elems (W : Nat) : (Raw.new W).elems = [] := rfl

theorem ph_ref_on (hc : CfgOk cfg) (hlp : LawfulP env H P) (op : MapOpX) (hct : op.contract H)
    (hb : op.basicOk = true) (other : Raw) (w : World) (h : RI cfg H w.t) (ho : RI cfg H other) :
    ph_Ref cfg env P H (.on op) other w := by
  rcases stepX_refines hc hlp op hct hb w h with
    ⟨r, w', l', hstep, hs, hp', hRI'⟩ | ⟨c, w', l', hstep, hs, hp', hRI'⟩
  · exact .inl ⟨r, other, w', l', other.elems, by simp only [Map.call2, hstep, Map.wrap2, id],
      .on _ hs, hp', List.Perm.refl _, hRI', ho⟩
  · exact .inr ⟨c, w', l', other.elems, by simp only [Map.call2, hstep, Map.wrap2],
      .on _ hs, hp', List.Perm.refl _, hRI', ho⟩

theorem ph_ref_cloneToOther (hc : CfgOk cfg) (hlp : LawfulP env H P) (other : Raw) (w : World)
    (h : RI cfg H w.t) (ho : RI cfg H other) : ph_Ref cfg env P H .cloneToOther other w := by
  have hd := dropInnerTable_spec hc env other w ⟨ho.1.toInv, ho.2⟩
  cases hr : dropInnerTable cfg env other w with
  | ok w1 =>
    rw [hr] at hd
    have ht1 : w1.t = w.t := hd.1
    have h1 : RI cfg H w1.t := by rw [ht1]; exact h
    have hcl := cloneTable_spec hc env w1 ⟨h1.1.toInv, h1.2⟩
    cases hr2 : Map.cloneTable cfg env w1 with
    | ok pr =>
      obtain ⟨nt, w'⟩ := pr
      have hnt := eq_clone_invL hc env w1 h1 hr2
      rw [hr2] at hcl
      obtain ⟨_, a2, _, _, _, _, _, a8, a9, _⟩ := hcl
      have hkv : AL.kv nt.elems = AL.kv w.t.elems := by
        rw [← ht1]
        rw [a8] at a9 ⊢
        exact eq_cloneList_kv env _ _ a9
      refine .inl ⟨.unit, nt, w', w.t.elems, nt.elems, ?_, .cloneToOther _ (List.Perm.of_eq hkv), ?_,
        List.Perm.refl _, ?_, hnt⟩
      · simp only [Map.call2, Map.cloneToOther, hr, en_bind_ok, hr2]
      · rw [a2, ht1]
      · rw [a2]; exact h1
    | panic c w' =>
      rw [hr2] at hcl
      obtain ⟨rfl, a2, _⟩ := hcl
      refine .inr ⟨"clone", w', w.t.elems, [], ?_, .cloneToOtherPanic _ _, ?_, List.Perm.refl _, ?_,
        RI_new hc H⟩
      · simp only [Map.call2, Map.cloneToOther, hr, en_bind_ok, hr2]
      · rw [a2, ht1]
      · rw [a2]; exact h1
    | abort =>
      rw [hr2] at hcl
      have := hcl.2
      rw [hlp.alloc] at this; cases this
    | fault f => rw [hr2] at hcl; exact hcl.elim
  | panic c w' =>
    rw [hr] at hd
    obtain ⟨_, _, _, _, ds, e, rest, _, _, hpan⟩ := hd
    rw [hlp.nodropPanic] at hpan; cases hpan
  | abort => rw [hr] at hd; exact hd.elim
  | fault f => rw [hr] at hd; exact hd.elim

theorem ph_ref_cloneFrom (hc : CfgOk cfg) (hlp : LawfulP env H P) (other : Raw) (w : World)
    (h : RI cfg H w.t) (ho : RI cfg H other) : ph_Ref cfg env P H .cloneFrom other w := by
  have hT : TInvB cfg w.t := ⟨h.1.toInv, h.2⟩
  have hO : TInvB cfg other := ⟨ho.1.toInv, ho.2⟩
  have hsp := cloneFrom_spec hc env other w hT hO
  cases hr : Map.cloneFrom cfg env other w with
  | ok w' =>
    have hnt := eq_cloneFrom_invL hc env other w w' hT ho hr
    rw [hr] at hsp
    obtain ⟨_, _, _, a4, a5, _⟩ := hsp
    have hkv : AL.kv w'.t.elems = AL.kv other.elems := by
      rw [a4] at a5 ⊢
      exact eq_cloneList_kv env _ _ a5
    exact .inl ⟨.unit, other, w', w'.t.elems, other.elems,
      by simp only [Map.call2, hr, Map.wrapU2], .cloneFrom _ (List.Perm.of_eq hkv),
      List.Perm.refl _, List.Perm.refl _, hnt, ho⟩
  | panic c w' =>
    rw [hr] at hsp
    obtain ⟨a1, a2, _, a4⟩ := hsp
    rcases a4 with ⟨_, ds, e, rest, _, _, hpan⟩ | ⟨rfl, _⟩
    · rw [hlp.nodropPanic] at hpan; cases hpan
    · exact .inr ⟨"clone", w', [], other.elems, by simp only [Map.call2, hr, Map.wrapU2],
        .cloneFromPanic _ _, by rw [a2], List.Perm.refl _, ⟨invL_of_empty H a1.1 a2, a1.2⟩, ho⟩
  | abort =>
    obtain ⟨j, hj⟩ := ph_cloneFrom_abort hc env other w hT hO hr
    rw [hlp.alloc] at hj; cases hj
  | fault f => rw [hr] at hsp; exact hsp.elim

theorem ph_ref_eq (hc : CfgOk cfg) (hlp : LawfulP env H P) (other : Raw) (w : World)
    (h : RI cfg H w.t) (ho : RI cfg H other) : ph_Ref cfg env P H .eq other w := by
  obtain ⟨r, w', h1, h2, _, h4⟩ := eq_spec_finmap hc hlp.toLawful w.t other w h.1 ho.1
  have h1' : Map.mapEq cfg env other w = .ok (r, w') := h1
  exact .inl ⟨.base (.bool r), other, w', w.t.elems, other.elems,
    by simp only [Map.call2, h1', Map.wrap2], .eq _ _ r h4, by rw [h2], List.Perm.refl _,
    by rw [h2]; exact h, ho⟩

theorem ph_ref_intoIter (hc : CfgOk cfg) (hlp : LawfulP env H P) (k : Nat) (other : Raw) (w : World)
    (h : RI cfg H w.t) (ho : RI cfg H other) : ph_Ref cfg env P H (.intoIter k) other w := by
  have hsp := intoIter_spec hc env k w ⟨h.1.toInv, h.2⟩
  cases hr : Map.intoIter cfg env k w with
  | ok pr =>
    obtain ⟨out, w'⟩ := pr
    rw [hr] at hsp
    obtain ⟨rfl, _, a3, _⟩ := hsp
    exact .inl ⟨_, other, w', [], other.elems, by simp only [Map.call2, hr, Map.wrap2],
      .intoIter k _ (List.Perm.refl _), by rw [a3]; exact List.Perm.refl _, List.Perm.refl _,
      by rw [a3]; exact RI_new hc H, ho⟩
  | panic c w' =>
    rw [hr] at hsp
    obtain ⟨_, _, _, ds, e, rest, _, _, hpan⟩ := hsp
    rw [hlp.nodropPanic] at hpan; cases hpan
  | abort => rw [hr] at hsp; exact hsp.elim
  | fault f => rw [hr] at hsp; exact hsp.elim

theorem ph_ref_fromIter (hc : CfgOk cfg) (hlp : LawfulP env H P) (items : List Elem) (other : Raw)
    (w : World) (h : RI cfg H w.t) (ho : RI cfg H other) :
    ph_Ref cfg env P H (.fromIter items) other w := by
  rcases fromIter_spec hc hlp.toLawful hlp.alloc hlp.nodropPanic items w h with
    ⟨w', hr, hRI, hp, _⟩ | ⟨w', hr, ht⟩
  · exact .inl ⟨.unit, other, w', _, other.elems, by simp only [Map.call2, hr, Map.wrapU2],
      .fromIter items _ _, hp, List.Perm.refl _, hRI, ho⟩
  · exact .inr ⟨"capacity", w', [], other.elems, by simp only [Map.call2, hr, Map.wrapU2],
      .fromIterOverflow items _ _, by rw [ht]; exact List.Perm.refl _, List.Perm.refl _,
      by rw [ht]; exact RI_new hc H, ho⟩

theorem ph_ref_take (hc : CfgOk cfg) (hlp : LawfulP env H P) (other : Raw)
    (w : World) (h : RI cfg H w.t) (ho : RI cfg H other) : ph_Ref cfg env P H .take other w := by
  have hd := dropInnerTable_spec hc env w.t { w with t := Raw.new cfg.W } ⟨h.1.toInv, h.2⟩
  cases hr : dropInnerTable cfg env w.t { w with t := Raw.new cfg.W } with
  | ok w' =>
    rw [hr] at hd
    have ht : w'.t = Raw.new cfg.W := hd.1
    exact .inl ⟨.unit, other, w', [], other.elems, by simp only [Map.call2, Map.takeDrop, hr, Map.wrapU2],
      .take _ _, by rw [ht]; exact List.Perm.refl _, List.Perm.refl _,
      by rw [ht]; exact RI_new hc H, ho⟩
  | panic c w' =>
    rw [hr] at hd
    obtain ⟨_, _, _, _, ds, e, rest, _, _, hpan⟩ := hd
    rw [hlp.nodropPanic] at hpan; cases hpan
  | abort => rw [hr] at hd; exact hd.elim
  | fault f => rw [hr] at hd; exact hd.elim

/-- **One call `target.op(other)` refines the reference `AL.PCall`**, from any two tables satisfying
    `RI`, lawful environment. -/
theorem call2_refines (hc : CfgOk cfg) (hlp : LawfulP env H P) (op : PairOp) (hct : op.contract H)
    (hb : op.basicOk = true) (other : Raw) (w : World) (h : RI cfg H w.t) (ho : RI cfg H other) :
    ph_Ref cfg env P H op other w := by
  cases op with
  | on op => exact ph_ref_on hc hlp op hct hb other w h ho
  | cloneToOther => exact ph_ref_cloneToOther hc hlp other w h ho
  | cloneFrom => exact ph_ref_cloneFrom hc hlp other w h ho
  | eq => exact ph_ref_eq hc hlp other w h ho
  | intoIter k => exact ph_ref_intoIter hc hlp k other w h ho
  | fromIter items => exact ph_ref_fromIter hc hlp items other w h ho
  | take => exact ph_ref_take hc hlp other w h ho

/-! ### one call on a pair, whole histories -/

/-- What the client observes of one call on a pair, and the pair afterwards (`none` = `fault` or
    `abort`). -/
def Map.Out2.observe : Map.Out2 → Option (Map.ObsX × Pair)
  | .ret r s => some (.ret r, s)
  | .panic c s => some (.panic c, s)
  | .abort => none
  | .fault _ => none

/-- The abstract pair: the stored pairs of both maps in bucket order. -/
def Map.Pair.abs (s : Pair) : AL × AL := (s.a.elems, s.b.elems)

/-- Both maps of a pair satisfy the hash-dependent invariant `RI` (= `InvL` + computable block
    layout), the invariant `historyX_refines` maintains for one map. -/
structure PairRI (cfg : Cfg) (H : Nat → Nat) (s : Pair) : Prop where
  a : RI cfg H s.a
  b : RI cfg H s.b

theorem PairRI.new (hc : CfgOk cfg) (H : Nat → Nat) {s0 : Pair} (ha : s0.a = Raw.new cfg.W)
    (hb : s0.b = Raw.new cfg.W) : PairRI cfg H s0 :=
  ⟨by rw [ha]; exact RI_new hc H, by rw [hb]; exact RI_new hc H⟩

theorem AL.PStep.perm {P : AL.Pred} {H : Nat → Nat} {c : PairCall} {s s' l : AL × AL} {o : Map.ObsX}
    (h : AL.PStep P H c s o s') (h1 : List.Perm s.1 l.1) (h2 : List.Perm s.2 l.2)
    (hn1 : s.1.keysNodup) (hn2 : s.2.keysNodup) :
    ∃ l', AL.PStep P H c l o l' ∧ List.Perm s'.1 l'.1 ∧ List.Perm s'.2 l'.2 := by
  obtain ⟨side, op⟩ := c
  cases side with
  | a =>
    obtain ⟨T', O', hc', p1, p2⟩ := AL.PCall.perm (show AL.PCall P H op s.1 s.2 o s'.1 s'.2 from h)
      h1 h2 hn1 hn2
    exact ⟨(T', O'), hc', p1, p2⟩
  | b =>
    obtain ⟨T', O', hc', p1, p2⟩ := AL.PCall.perm (show AL.PCall P H op s.2 s.1 o s'.2 s'.1 from h)
      h2 h1 hn2 hn1
    exact ⟨(O', T'), hc', p2, p1⟩

/-- **One call of a pair history refines the reference**, from ANY pair of tables satisfying `RI`:
    the call returns what the reference returns (or panics with the class the reference allows),
    never `fault` / `abort`; both tables satisfy `RI` afterwards and their contents are the
    reference's up to bucket order. -/
theorem step2_refines (hc : CfgOk cfg) (hlp : LawfulP env H P) (c : PairCall)
    (hct : c.op.contract H) (hb : c.op.basicOk = true) (s : Pair) (hs : PairRI cfg H s) :
    ∃ o s' l', (Map.step2 cfg env c s).observe = some (o, s') ∧ AL.PStep P H c s.abs o l' ∧
      List.Perm s'.a.elems l'.1 ∧ List.Perm s'.b.elems l'.2 ∧ PairRI cfg H s' := by
  obtain ⟨side, op⟩ := c
  cases side with
  | a =>
    have hst : Map.step2 cfg env ⟨.a, op⟩ s =
        match Map.call2 cfg env op s.b s.w with
        | .ok ((r, o'), w') => .ret r { w := w', b := o' }
        | .panic cls w' => .panic cls { w := w', b := Map.otherOnPanic cfg op s.b }
        | .abort => .abort
        | .fault f => .fault f := rfl
    rw [hst]
    rcases call2_refines hc hlp op hct hb s.b s.w hs.a hs.b with
      ⟨r, o', w', T', O', hr, hp, p1, p2, r1, r2⟩ | ⟨cls, w', T', O', hr, hp, p1, p2, r1, r2⟩
    · rw [hr]
      exact ⟨.ret r, _, (T', O'), rfl, hp, p1, p2, ⟨r1, r2⟩⟩
    · rw [hr]
      exact ⟨.panic cls, _, (T', O'), rfl, hp, p1, p2, ⟨r1, r2⟩⟩
  | b =>
    have hst : Map.step2 cfg env ⟨.b, op⟩ s =
        match Map.call2 cfg env op s.w.t { s.w with t := s.b } with
        | .ok ((r, o'), w') => .ret r { w := { w' with t := o' }, b := w'.t }
        | .panic cls w' =>
          .panic cls { w := { w' with t := Map.otherOnPanic cfg op s.w.t }, b := w'.t }
        | .abort => .abort
        | .fault f => .fault f := rfl
    rw [hst]
    rcases call2_refines hc hlp op hct hb s.w.t { s.w with t := s.b } hs.b hs.a with
      ⟨r, o', w', T', O', hr, hp, p1, p2, r1, r2⟩ | ⟨cls, w', T', O', hr, hp, p1, p2, r1, r2⟩
    · rw [hr]
      exact ⟨.ret r, _, (O', T'), rfl, hp, p2, p1, ⟨r2, r1⟩⟩
    · rw [hr]
      exact ⟨.panic cls, _, (O', T'), rfl, hp, p2, p1, ⟨r2, r1⟩⟩

/-- Pair histories from any good pair related to a pair of abstract maps `l`. -/
theorem pair_history_refines_from (hc : CfgOk cfg) (hlp : LawfulP env H P) :
    ∀ (cs : List PairCall) (s : Pair) (l : AL × AL), (∀ c ∈ cs, c.op.contract H) →
      (∀ c ∈ cs, c.op.basicOk = true) → PairRI cfg H s →
      List.Perm s.a.elems l.1 → List.Perm s.b.elems l.2 →
      ∃ os sf lf, Map.run2 cfg env cs s = some (os, sf) ∧ AL.PTrace P H cs l os lf ∧
        List.Perm sf.a.elems lf.1 ∧ List.Perm sf.b.elems lf.2 ∧
        lf.1.keysNodup ∧ lf.2.keysNodup ∧ PairRI cfg H sf ∧
        ∀ s' ∈ Map.states2 cfg env cs s, PairRI cfg H s' := by
  intro cs
  induction cs with
  | nil =>
    intro s l _ _ hs h1 h2
    refine ⟨[], s, l, rfl, .nil l, h1, h2, AL.keysNodup_perm h1 (elems_keysNodup hs.a.1),
      AL.keysNodup_perm h2 (elems_keysNodup hs.b.1), hs, ?_⟩
    intro s' hs'
    simp only [Map.states2, List.mem_singleton] at hs'
    rw [hs']; exact hs
  | cons c cs ih =>
    intro s l hct hb hs h1 h2
    obtain ⟨o, s1, l', hobs, hstep, p1, p2, hs1⟩ :=
      step2_refines hc hlp c (hct c List.mem_cons_self) (hb c List.mem_cons_self) s hs
    obtain ⟨l1, hstep1, q1, q2⟩ := hstep.perm (s := s.abs) h1 h2 (elems_keysNodup hs.a.1)
      (elems_keysNodup hs.b.1)
    obtain ⟨os, sf, lf, hrun, htr, f1, f2, n1, n2, hsf, hall⟩ :=
      ih s1 l1 (fun x hx => hct x (List.mem_cons_of_mem _ hx))
        (fun x hx => hb x (List.mem_cons_of_mem _ hx)) hs1 (p1.trans q1) (p2.trans q2)
    refine ⟨o :: os, sf, lf, ?_, .cons hstep1 htr, f1, f2, n1, n2, hsf, ?_⟩
    · cases hst : Map.step2 cfg env c s with
      | ret r s2 =>
        rw [hst] at hobs
        simp only [Map.Out2.observe, Option.some.injEq, Prod.mk.injEq] at hobs
        obtain ⟨rfl, rfl⟩ := hobs
        simp only [Map.run2, hst, hrun, Option.map_some]
      | panic cls s2 =>
        rw [hst] at hobs
        simp only [Map.Out2.observe, Option.some.injEq, Prod.mk.injEq] at hobs
        obtain ⟨rfl, rfl⟩ := hobs
        simp only [Map.run2, hst, hrun, Option.map_some]
      | abort => rw [hst] at hobs; cases hobs
      | fault f => rw [hst] at hobs; cases hobs
    · intro s' hs'
      cases hst : Map.step2 cfg env c s with
      | ret r s2 =>
        rw [hst] at hobs
        simp only [Map.Out2.observe, Option.some.injEq, Prod.mk.injEq] at hobs
        obtain ⟨rfl, rfl⟩ := hobs
        simp only [Map.states2, hst, List.mem_cons] at hs'
        rcases hs' with rfl | hs'
        · exact hs
        · exact hall s' hs'
      | panic cls s2 =>
        rw [hst] at hobs
        simp only [Map.Out2.observe, Option.some.injEq, Prod.mk.injEq] at hobs
        obtain ⟨rfl, rfl⟩ := hobs
        simp only [Map.states2, hst, List.mem_cons] at hs'
        rcases hs' with rfl | hs'
        · exact hs
        · exact hall s' hs'
      | abort => rw [hst] at hobs; cases hobs
      | fault f => rw [hst] at hobs; cases hobs

/-- **C11 / C01 over a PAIR of maps.** Every finite history of calls on
    `(HashMap::new(), HashMap::new())` — every `MapOpX` call on either map, `other = target.clone()`,
    `target.clone_from(&other)`, `target == other`, `target.into_iter()`, `HashMap::from_iter`,
    `mem::take`, in both directions and in any interleaving — for every lawful environment
    (`LawfulP env H P`: `Hash` is the function `H`, `Eq` is key equality, pure predicate `P`, the
    allocator never refuses, destructors never panic; `Clone` MAY panic), either scanner: the run
    never faults or aborts; what each call returns (or the documented panic it raises) is, call by
    call, what the reference on a pair of association lists prescribes (`AL.PTrace`); the final
    contents of each table are, up to bucket order, its final reference map, whose keys are pairwise
    distinct; both tables satisfy `RI cfg H` (`InvL` + layout) — at the end and after EVERY prefix
    (`states2`; and since a prefix of a history is a history, everything said about the final pair
    holds after every prefix). -/
theorem pair_history_refines (hc : CfgOk cfg) (hlp : LawfulP env H P) (cs : List PairCall)
    (hct : ∀ c ∈ cs, c.op.contract H) (hb : ∀ c ∈ cs, c.op.basicOk = true) (s0 : Pair)
    (ha : s0.a = Raw.new cfg.W) (hb0 : s0.b = Raw.new cfg.W) :
    ∃ os sf la lb, Map.run2 cfg env cs s0 = some (os, sf) ∧
      AL.PTrace P H cs ([], []) os (la, lb) ∧
      List.Perm sf.a.elems la ∧ List.Perm sf.b.elems lb ∧ la.keysNodup ∧ lb.keysNodup ∧
      RI cfg H sf.a ∧ RI cfg H sf.b ∧
      ∀ s ∈ Map.states2 cfg env cs s0, RI cfg H s.a ∧ RI cfg H s.b := by
  obtain ⟨os, sf, lf, hrun, htr, f1, f2, n1, n2, hsf, hall⟩ :=
    pair_history_refines_from hc hlp cs s0 ([], []) hct hb (PairRI.new hc H ha hb0)
      (by rw [ha]; exact List.Perm.refl _) (by rw [hb0]; exact List.Perm.refl _)
  exact ⟨os, sf, lf.1, lf.2, hrun, htr, f1, f2, n1, n2, hsf.a, hsf.b,
    fun s hs => ⟨(hall s hs).a, (hall s hs).b⟩⟩

/-! ## 3. corollaries in the words of C11 -/

/-- The other side. -/
def Side.flip : Side → Side
  | .a => .b
  | .b => .a

@[simp] theorem Side.flip_flip (sd : Side) : sd.flip.flip = sd := by cases sd <;> rfl

/-- The table of one side of a pair. -/
def Map.Pair.tbl (s : Pair) : Side → Raw
  | .a => s.a
  | .b => s.b

/-- One side of a pair of abstract maps. -/
def AL.side (l : AL × AL) : Side → AL
  | .a => l.1
  | .b => l.2

/-- Only `clone_to_other` ever writes the other map. -/
theorem ph_call2_other (env : Env) {op : PairOp} (hne : op ≠ .cloneToOther) (other : Raw) (w : World) :
    (∀ r o' w', Map.call2 cfg env op other w = .ok ((r, o'), w') → o' = other) ∧
    Map.otherOnPanic cfg op other = other := by
  cases op with
  | cloneToOther => exact absurd rfl hne
  | on op =>
    refine ⟨fun r o' w' h => ?_, rfl⟩
    simp only [Map.call2, Map.wrap2] at h
    split at h <;> first | (cases h; done) | (cases h; rfl)
  | cloneFrom =>
    refine ⟨fun r o' w' h => ?_, rfl⟩
    simp only [Map.call2, Map.wrapU2] at h
    split at h <;> first | (cases h; done) | (cases h; rfl)
  | eq =>
    refine ⟨fun r o' w' h => ?_, rfl⟩
    simp only [Map.call2, Map.wrap2] at h
    split at h <;> first | (cases h; done) | (cases h; rfl)
  | intoIter k =>
    refine ⟨fun r o' w' h => ?_, rfl⟩
    simp only [Map.call2, Map.wrap2] at h
    split at h <;> first | (cases h; done) | (cases h; rfl)
  | fromIter items =>
    refine ⟨fun r o' w' h => ?_, rfl⟩
    simp only [Map.call2, Map.wrapU2] at h
    split at h <;> first | (cases h; done) | (cases h; rfl)
  | take =>
    refine ⟨fun r o' w' h => ?_, rfl⟩
    simp only [Map.call2, Map.wrapU2] at h
    split at h <;> first | (cases h; done) | (cases h; rfl)

/-- A call on side `sd` other than `clone_to_other` leaves the table of the OTHER side literally
    unchanged (value semantics of the pair model; every environment, returned or unwound). -/
theorem ph_step2_other (env : Env) (c : PairCall) (hne : c.op ≠ .cloneToOther) (s : Pair)
    {o : Map.ObsX} {s' : Pair} (h : (Map.step2 cfg env c s).observe = some (o, s')) :
    s'.tbl c.side.flip = s.tbl c.side.flip := by
  obtain ⟨side, op⟩ := c
  cases side with
  | a =>
    obtain ⟨h1, h2⟩ := ph_call2_other (cfg := cfg) env hne s.b s.w
    have hst : Map.step2 cfg env ⟨.a, op⟩ s =
        match Map.call2 cfg env op s.b s.w with
        | .ok ((r, o'), w') => .ret r { w := w', b := o' }
        | .panic cls w' => .panic cls { w := w', b := Map.otherOnPanic cfg op s.b }
        | .abort => .abort
        | .fault f => .fault f := rfl
    rw [hst] at h
    cases hcall : Map.call2 cfg env op s.b s.w with
    | ok pr =>
      obtain ⟨⟨r, o'⟩, w'⟩ := pr
      rw [hcall] at h
      simp only [Map.Out2.observe, Option.some.injEq, Prod.mk.injEq] at h
      rw [← h.2]
      exact h1 r o' w' hcall
    | panic cls w' =>
      rw [hcall] at h
      simp only [Map.Out2.observe, Option.some.injEq, Prod.mk.injEq] at h
      rw [← h.2]
      exact h2
    | abort => rw [hcall] at h; cases h
    | fault f => rw [hcall] at h; cases h
  | b =>
    obtain ⟨h1, h2⟩ := ph_call2_other (cfg := cfg) env hne s.w.t { s.w with t := s.b }
    have hst : Map.step2 cfg env ⟨.b, op⟩ s =
        match Map.call2 cfg env op s.w.t { s.w with t := s.b } with
        | .ok ((r, o'), w') => .ret r { w := { w' with t := o' }, b := w'.t }
        | .panic cls w' =>
          .panic cls { w := { w' with t := Map.otherOnPanic cfg op s.w.t }, b := w'.t }
        | .abort => .abort
        | .fault f => .fault f := rfl
    rw [hst] at h
    cases hcall : Map.call2 cfg env op s.w.t { s.w with t := s.b } with
    | ok pr =>
      obtain ⟨⟨r, o'⟩, w'⟩ := pr
      rw [hcall] at h
      simp only [Map.Out2.observe, Option.some.injEq, Prod.mk.injEq] at h
      rw [← h.2]
      exact h1 r o' w' hcall
    | panic cls w' =>
      rw [hcall] at h
      simp only [Map.Out2.observe, Option.some.injEq, Prod.mk.injEq] at h
      rw [← h.2]
      exact h2
    | abort => rw [hcall] at h; cases h
    | fault f => rw [hcall] at h; cases h

theorem ph_run2_cons (env : Env) {c : PairCall} {cs : List PairCall} {s sf : Pair}
    {obs : List Map.ObsX} (h : Map.run2 cfg env (c :: cs) s = some (obs, sf)) :
    ∃ o s1 os, (Map.step2 cfg env c s).observe = some (o, s1) ∧
      Map.run2 cfg env cs s1 = some (os, sf) ∧ obs = o :: os := by
  cases hst : Map.step2 cfg env c s with
  | ret r s1 =>
    simp only [Map.run2, hst] at h
    obtain ⟨⟨os, sf'⟩, h1, h2⟩ := Option.map_eq_some_iff.1 h
    simp only [Prod.mk.injEq] at h2
    obtain ⟨rfl, rfl⟩ := h2
    exact ⟨.ret r, s1, os, rfl, h1, rfl⟩
  | panic cls s1 =>
    simp only [Map.run2, hst] at h
    obtain ⟨⟨os, sf'⟩, h1, h2⟩ := Option.map_eq_some_iff.1 h
    simp only [Prod.mk.injEq] at h2
    obtain ⟨rfl, rfl⟩ := h2
    exact ⟨.panic cls, s1, os, rfl, h1, rfl⟩
  | abort => simp [Map.run2, hst] at h
  | fault f => simp [Map.run2, hst] at h

/-- **Independence, tables.** Any history of calls on ONE side `x` (none of them `clone_to_other`,
    the only call that assigns the other map) leaves the table of the other side literally unchanged
    — whatever the environment does, panics included. -/
theorem run2_other_unchanged (env : Env) (x : Side) :
    ∀ (cs : List PairCall) (s sf : Pair) (obs : List Map.ObsX),
      (∀ c ∈ cs, c.side = x ∧ c.op ≠ .cloneToOther) →
      Map.run2 cfg env cs s = some (obs, sf) → sf.tbl x.flip = s.tbl x.flip := by
  intro cs
  induction cs with
  | nil =>
    intro s sf obs _ h
    simp only [Map.run2, Option.some.injEq, Prod.mk.injEq] at h
    rw [h.2]
  | cons c cs ih =>
    intro s sf obs hall h
    obtain ⟨o, s1, os, h1, h2, _⟩ := ph_run2_cons env h
    obtain ⟨hx, hne⟩ := hall c List.mem_cons_self
    have := ph_step2_other env c hne s h1
    rw [hx] at this
    rw [ih s1 sf os (fun c' hc' => hall c' (List.mem_cons_of_mem _ hc')) h2, this]

/-- **Independence, reference.** The same for the reference: a trace of calls on one side `x` (none
    of them `clone_to_other`) leaves the other side's abstract map unchanged. -/
theorem AL.PTrace.other_unchanged {P : AL.Pred} {H : Nat → Nat} (x : Side) {cs : List PairCall}
    {l lf : AL × AL} {os : List Map.ObsX} (h : AL.PTrace P H cs l os lf)
    (hall : ∀ c ∈ cs, c.side = x ∧ c.op ≠ .cloneToOther) : AL.side lf x.flip = AL.side l x.flip := by
  induction h with
  | nil => rfl
  | @cons c cs s s' sf o os hs _ ih =>
    obtain ⟨hx, hne⟩ := hall c List.mem_cons_self
    rw [ih (fun c' hc' => hall c' (List.mem_cons_of_mem _ hc'))]
    obtain ⟨side, op⟩ := c
    simp only at hx hne
    subst hx
    obtain ⟨sa, sb⟩ := s
    obtain ⟨sa', sb'⟩ := s'
    cases side with
    | a =>
      have hc : AL.PCall P H op sa sb o sa' sb' := hs
      show sb' = sb
      cases hc with
      | cloneToOther => exact absurd rfl hne
      | cloneToOtherPanic => exact absurd rfl hne
      | _ => rfl
    | b =>
      have hc : AL.PCall P H op sb sa o sb' sa' := hs
      show sa' = sa
      cases hc with
      | cloneToOther => exact absurd rfl hne
      | cloneToOtherPanic => exact absurd rfl hne
      | _ => rfl

/-- `other = target.clone()` that returned, from any two valid tables, every environment: the target
    table is literally unchanged and the new other table holds the same `key ↦ payload` pairs, in the
    same bucket order. -/
theorem ph_step2_clone (hc : CfgOk cfg) (env : Env) (sd : Side) (s : Pair)
    (ha : TInv cfg s.a) (hb : TInv cfg s.b) {r : RetX} {s1 : Pair}
    (h : Map.step2 cfg env ⟨sd, .cloneToOther⟩ s = .ret r s1) :
    s1.tbl sd = s.tbl sd ∧ AL.kv (s1.tbl sd.flip).elems = AL.kv (s.tbl sd).elems := by
  have key : ∀ (other : Raw) (w : World), TInv cfg w.t → TInv cfg other → ∀ r o' w',
      Map.call2 cfg env .cloneToOther other w = .ok ((r, o'), w') →
      w'.t = w.t ∧ AL.kv o'.elems = AL.kv w.t.elems := by
    intro other w hw ho r o' w' hcall
    have hd := dropInnerTable_spec hc env other w ho
    simp only [Map.call2, Map.cloneToOther] at hcall
    cases hr : dropInnerTable cfg env other w with
    | ok w1 =>
      rw [hr] at hd hcall
      have ht1 : w1.t = w.t := hd.1
      have hcl := cloneTable_spec hc env w1 (by rw [ht1]; exact hw)
      simp only [en_bind_ok] at hcall
      cases hr2 : Map.cloneTable cfg env w1 with
      | ok pr =>
        obtain ⟨nt, w2⟩ := pr
        rw [hr2] at hcl hcall
        simp only [Res.ok.injEq, Prod.mk.injEq] at hcall
        obtain ⟨⟨_, rfl⟩, rfl⟩ := hcall
        obtain ⟨_, a2, _, _, _, _, _, a8, a9, _⟩ := hcl
        refine ⟨a2.trans ht1, ?_⟩
        rw [← ht1]
        rw [a8] at a9 ⊢
        exact eq_cloneList_kv env _ _ a9
      | panic c w2 => rw [hr2] at hcall; cases hcall
      | abort => rw [hr2] at hcall; cases hcall
      | fault f => rw [hr2] at hcall; cases hcall
    | panic c w1 => rw [hr] at hcall; cases hcall
    | abort => rw [hr] at hcall; cases hcall
    | fault f => rw [hr] at hcall; cases hcall
  cases sd with
  | a =>
    have hst : Map.step2 cfg env ⟨.a, .cloneToOther⟩ s =
        match Map.call2 cfg env .cloneToOther s.b s.w with
        | .ok ((r, o'), w') => .ret r { w := w', b := o' }
        | .panic cls w' => .panic cls { w := w', b := Map.otherOnPanic cfg .cloneToOther s.b }
        | .abort => .abort
        | .fault f => .fault f := rfl
    rw [hst] at h
    cases hcall : Map.call2 cfg env .cloneToOther s.b s.w with
    | ok pr =>
      obtain ⟨⟨r', o'⟩, w'⟩ := pr
      rw [hcall] at h
      simp only [Map.Out2.ret.injEq] at h
      rw [← h.2]
      exact key s.b s.w ha hb r' o' w' hcall
    | panic cls w' => rw [hcall] at h; cases h
    | abort => rw [hcall] at h; cases h
    | fault f => rw [hcall] at h; cases h
  | b =>
    have hst : Map.step2 cfg env ⟨.b, .cloneToOther⟩ s =
        match Map.call2 cfg env .cloneToOther s.w.t { s.w with t := s.b } with
        | .ok ((r, o'), w') => .ret r { w := { w' with t := o' }, b := w'.t }
        | .panic cls w' =>
          .panic cls { w := { w' with t := Map.otherOnPanic cfg .cloneToOther s.w.t }, b := w'.t }
        | .abort => .abort
        | .fault f => .fault f := rfl
    rw [hst] at h
    cases hcall : Map.call2 cfg env .cloneToOther s.w.t { s.w with t := s.b } with
    | ok pr =>
      obtain ⟨⟨r', o'⟩, w'⟩ := pr
      rw [hcall] at h
      simp only [Map.Out2.ret.injEq] at h
      rw [← h.2]
      exact key s.w.t { s.w with t := s.b } hb ha r' o' w' hcall
    | panic cls w' => rw [hcall] at h; cases h
    | abort => rw [hcall] at h; cases h
    | fault f => rw [hcall] at h; cases h

/-- **Clone, then diverge (tables, EVERY environment).** From any two valid tables: after
    `other = target.clone()` on side `sd` returned, ANY further history `cs` on one side `x` — the
    original (`x = sd`) or the clone (`x = sd.flip`) —, panics included, leaves the untouched side
    holding exactly the `key ↦ payload` pairs the original had when it was cloned, in the same bucket
    order: mutating either of clone / source never shows in the other. -/
theorem clone_then_diverge (hc : CfgOk cfg) (env : Env) (sd x : Side) (cs : List PairCall)
    (s sf : Pair) (ha : TInv cfg s.a) (hb : TInv cfg s.b) {r : RetX} {os : List Map.ObsX}
    (hcs : ∀ c ∈ cs, c.side = x ∧ c.op ≠ .cloneToOther)
    (hrun : Map.run2 cfg env (⟨sd, .cloneToOther⟩ :: cs) s = some (.ret r :: os, sf)) :
    AL.kv (sf.tbl x.flip).elems = AL.kv (s.tbl sd).elems := by
  obtain ⟨o, s1, os', h1, h2, h3⟩ := ph_run2_cons env hrun
  simp only [List.cons.injEq] at h3
  obtain ⟨rfl, rfl⟩ := h3
  have hst : Map.step2 cfg env ⟨sd, .cloneToOther⟩ s = .ret r s1 := by
    cases hq : Map.step2 cfg env ⟨sd, .cloneToOther⟩ s with
    | ret r' s' =>
      rw [hq] at h1
      simp only [Map.Out2.observe, Option.some.injEq, Prod.mk.injEq, Map.ObsX.ret.injEq] at h1
      rw [h1.1, h1.2]
    | panic cls s' => rw [hq] at h1; simp [Map.Out2.observe] at h1
    | abort => rw [hq] at h1; cases h1
    | fault f => rw [hq] at h1; cases h1
  obtain ⟨c1, c2⟩ := ph_step2_clone hc env sd s ha hb hst
  rw [run2_other_unchanged env x cs s1 sf os hcs h2]
  cases sd <;> cases x
  · exact c2
  · exact congrArg (fun t => AL.kv t.elems) c1
  · exact congrArg (fun t => AL.kv t.elems) c1
  · exact c2

/-- **Clone, then diverge (reference).** In the reference semantics: after a returned
    `clone_to_other` on side `sd`, any trace of further calls on one side `x` leaves the other side
    holding the finite map `key ↦ payload` the original held when it was cloned. -/
theorem clone_then_diverge_ref {P : AL.Pred} {H : Nat → Nat} (sd x : Side) {cs : List PairCall}
    {l lf : AL × AL} {r : RetX} {os : List Map.ObsX}
    (h : AL.PTrace P H (⟨sd, .cloneToOther⟩ :: cs) l (.ret r :: os) lf)
    (hcs : ∀ c ∈ cs, c.side = x ∧ c.op ≠ .cloneToOther) :
    List.Perm (AL.kv (AL.side lf x.flip)) (AL.kv (AL.side l sd)) := by
  cases h with
  | @cons _ _ _ s' _ _ _ hs ht =>
    rw [ht.other_unchanged x hcs]
    obtain ⟨l1, l2⟩ := l
    obtain ⟨m1, m2⟩ := s'
    cases sd with
    | a =>
      have hc : AL.PCall P H .cloneToOther l1 l2 (.ret r) m1 m2 := hs
      cases hc with
      | cloneToOther _ hp =>
        cases x
        · exact hp
        · exact List.Perm.refl _
    | b =>
      have hc : AL.PCall P H .cloneToOther l2 l1 (.ret r) m2 m1 := hs
      cases hc with
      | cloneToOther _ hp =>
        cases x
        · exact List.Perm.refl _
        · exact hp

/-- `target == other` at any pair of `RI` tables, both ways round: both calls return the same
    Boolean, change nothing, and it is `true` exactly when the two tables hold the same finite map
    `key ↦ payload`. -/
theorem ph_step2_eq (hc : CfgOk cfg) (hl : Lawful env H) (s : Pair) (hs : PairRI cfg H s) :
    ∃ r sa sb, Map.step2 cfg env ⟨.a, .eq⟩ s = .ret (.base (.bool r)) sa ∧
      Map.step2 cfg env ⟨.b, .eq⟩ s = .ret (.base (.bool r)) sb ∧
      sa.a = s.a ∧ sa.b = s.b ∧ sb.a = s.a ∧ sb.b = s.b ∧
      (r = true ↔ ∀ k, (AL.find s.a.elems k).map (·.v) = (AL.find s.b.elems k).map (·.v)) := by
  obtain ⟨r1, w1, e1, t1, _, i1⟩ := eq_spec_finmap hc hl s.w.t s.b s.w hs.a.1 hs.b.1
  obtain ⟨r2, w2, e2, t2, _, i2⟩ := eq_spec_finmap hc hl s.b s.w.t s.w hs.b.1 hs.a.1
  have hr : r1 = r2 := by
    rw [Bool.eq_iff_iff, i1, i2]
    exact ⟨fun h k => (h k).symm, fun h k => (h k).symm⟩
  subst hr
  have e1' : Map.mapEq cfg env s.b s.w = .ok (r1, w1) := e1
  refine ⟨r1, { w := w1, b := s.b }, { w := { w2 with t := s.w.t }, b := w2.t }, ?_, ?_, t1, rfl, rfl,
    t2, i1⟩
  · show (match Map.call2 cfg env .eq s.b s.w with
        | .ok ((r, o'), w') => Map.Out2.ret r { w := w', b := o' }
        | .panic cls w' => .panic cls { w := w', b := Map.otherOnPanic cfg .eq s.b }
        | .abort => .abort
        | .fault f => .fault f) = _
    simp only [Map.call2, e1', Map.wrap2]
  · show (match Map.call2 cfg env .eq s.w.t { s.w with t := s.b } with
        | .ok ((r, o'), w') => Map.Out2.ret r { w := { w' with t := o' }, b := w'.t }
        | .panic cls w' =>
          .panic cls { w := { w' with t := Map.otherOnPanic cfg .eq s.w.t }, b := w'.t }
        | .abort => .abort
        | .fault f => .fault f) = _
    simp only [Map.call2, e2, Map.wrap2]

/-- **`==` ignores the histories.** After ANY pair history from `(new(), new())` (lawful
    environment; the two maps may have been built by entirely different calls, have different
    capacities, tombstones, bucket orders): `a == b` and `b == a` both return, return the SAME
    Boolean (symmetry), leave both tables as they are, and the Boolean is `true` exactly when the
    two reference maps are the same finite map `key ↦ payload` — in particular it IS `true` whenever
    they are. -/
theorem eq_ignores_history (hc : CfgOk cfg) (hlp : LawfulP env H P) (cs : List PairCall)
    (hct : ∀ c ∈ cs, c.op.contract H) (hb : ∀ c ∈ cs, c.op.basicOk = true) (s0 : Pair)
    (ha : s0.a = Raw.new cfg.W) (hb0 : s0.b = Raw.new cfg.W) :
    ∃ os sf la lb, Map.run2 cfg env cs s0 = some (os, sf) ∧
      AL.PTrace P H cs ([], []) os (la, lb) ∧
      List.Perm sf.a.elems la ∧ List.Perm sf.b.elems lb ∧
      ∃ r sa sb, Map.step2 cfg env ⟨.a, .eq⟩ sf = .ret (.base (.bool r)) sa ∧
        Map.step2 cfg env ⟨.b, .eq⟩ sf = .ret (.base (.bool r)) sb ∧
        sa.a = sf.a ∧ sa.b = sf.b ∧ sb.a = sf.a ∧ sb.b = sf.b ∧
        (r = true ↔ ∀ k, (la.find k).map (·.v) = (lb.find k).map (·.v)) := by
  obtain ⟨os, sf, la, lb, hrun, htr, p1, p2, _, _, r1, r2, _⟩ :=
    pair_history_refines hc hlp cs hct hb s0 ha hb0
  obtain ⟨r, sa, sb, q1, q2, q3, q4, q5, q6, q7⟩ := ph_step2_eq hc hlp.toLawful sf ⟨r1, r2⟩
  refine ⟨os, sf, la, lb, hrun, htr, p1, p2, r, sa, sb, q1, q2, q3, q4, q5, q6, ?_⟩
  rw [q7]
  refine forall_congr' fun k => ?_
  rw [AL.perm_find p1 (elems_keysNodup r1.1) k, AL.perm_find p2 (elems_keysNodup r2.1) k]

/-! ## 4. LEDGER (C03), every environment, element type with drop glue -/

/-- Key objects entering the accounting with a call, given the pair the call left behind: what the
    caller passes in (`insertedKX`, the items of `from_iter`) and the CLONES the call created — they
    are counted as inserted when created (`clone_to_other`: the new other map; `clone_from`: the new
    target). -/
def PairCall.insK (c : PairCall) (s' : Pair) : List Nat :=
  match c.op with
  | .on op => insertedKX op
  | .cloneToOther => kidsOf (s'.tbl c.side.flip).elems
  | .cloneFrom => kidsOf (s'.tbl c.side).elems
  | .fromIter items => kidsOf items
  | _ => []

def PairCall.insV (c : PairCall) (s' : Pair) : List Nat :=
  match c.op with
  | .on op => insertedVX op
  | .cloneToOther => vidsOf (s'.tbl c.side.flip).elems
  | .cloneFrom => vidsOf (s'.tbl c.side).elems
  | .fromIter items => vidsOf items
  | _ => []

/-- Key objects handed back BY VALUE: `retKX` of the single-map calls, the pairs `into_iter` yielded. -/
def PairOp.retK (op : PairOp) (r : RetX) : List Nat :=
  match op, r with
  | .on op, r => retKX op r
  | .intoIter _, .base (.elems l) => kidsOf l
  | _, _ => []

def PairOp.retV (op : PairOp) (r : RetX) : List Nat :=
  match op, r with
  | .on op, r => retVX op r
  | .intoIter _, .base (.elems l) => vidsOf l
  | _, _ => []

/-- Calls covered by the ledger: everything except the `mem::forget`-ed drain. -/
def PairOp.ledgerCovered : PairOp → Bool
  | .on op => op.ledgerCovered
  | _ => true

/-- Object ledger of one call `target.op(other)`: `(w, other) ⟶ (w', o')` wrote the log entries
    `new`; every key / value object stored in either map before, or entering (`iK`, `iV`), is
    afterwards stored in one of the two maps, dropped (in `new`) or has left (`oK`, `oV`). -/
def ph_Led (w : World) (other : Raw) (w' : World) (o' : Raw) (iK oK iV oV : List Nat) : Prop :=
  ∃ new, w'.log = new ++ w.log ∧
    List.Perm (kidsOf w'.t.elems ++ kidsOf o'.elems ++ droppedK new ++ oK)
      (kidsOf w.t.elems ++ kidsOf other.elems ++ iK) ∧
    List.Perm (vidsOf w'.t.elems ++ vidsOf o'.elems ++ droppedV new ++ oV)
      (vidsOf w.t.elems ++ vidsOf other.elems ++ iV)

theorem ph_droppedK_alloc (c : Prop) [Decidable c] (sz al : Nat) :
    droppedK (if c then [Ev.alloc sz al] else []) = [] := by split <;> rfl
theorem ph_droppedK_free (c : Prop) [Decidable c] (sz al : Nat) :
    droppedK (if c then [Ev.free sz al] else []) = [] := by split <;> rfl
theorem ph_droppedV_alloc (c : Prop) [Decidable c] (sz al : Nat) :
    droppedV (if c then [Ev.alloc sz al] else []) = [] := by split <;> rfl
theorem ph_droppedV_free (c : Prop) [Decidable c] (sz al : Nat) :
    droppedV (if c then [Ev.free sz al] else []) = [] := by split <;> rfl

theorem ph_dropped_rev (hnd : cfg.needsDrop = true) (l : List Elem) :
    List.Perm (droppedK (dropEvs cfg l.reverse)) (kidsOf l) ∧
    List.Perm (droppedV (dropEvs cfg l.reverse)) (vidsOf l) := by
  rw [(hs_dropped_dropEvs hnd l.reverse).1, (hs_dropped_dropEvs hnd l.reverse).2]
  exact ⟨(List.reverse_perm l).map _, (List.reverse_perm l).map _⟩

theorem ph_take_drop (k : Nat) (l : List Elem) :
    List.Perm (kidsOf (l.take k) ++ kidsOf (l.drop k)) (kidsOf l) ∧
    List.Perm (vidsOf (l.take k) ++ vidsOf (l.drop k)) (vidsOf l) := by
  unfold kidsOf vidsOf
  rw [← List.map_append, ← List.map_append, List.take_append_drop]
  exact ⟨List.Perm.refl _, List.Perm.refl _⟩

theorem ph_kidsOf_nil : kidsOf [] = [] := rfl
theorem ph_vidsOf_nil : vidsOf [] = [] := rfl
theorem ph_droppedK_nil : droppedK [] = [] := rfl
theorem ph_droppedV_nil : droppedV [] = [] := rfl

/-- Closing tactic for the balance goals: count occurrences, using the listed `Perm` facts. -/
macro "ph_count" "[" hs:term,* "]" : tactic => do
  let tacs ← hs.getElems.mapM fun h => `(tactic| have := (List.perm_iff_count.1 $h) x)
  `(tactic| (rw [List.perm_iff_count]; intro x; $[$tacs]*;
             simp only [List.count_append, List.count_nil, List.append_nil, List.nil_append,
               hs_droppedK_append, hs_droppedV_append, ph_droppedK_alloc, ph_droppedK_free,
               ph_droppedV_alloc, ph_droppedV_free, ph_kidsOf_nil, ph_vidsOf_nil, ph_droppedK_nil,
               ph_droppedV_nil] at *;
             omega))

theorem ph_led_on (hc : CfgOk cfg) (hnd : cfg.needsDrop = true) (env : Env) (op : MapOpX)
    (other : Raw) (w : World) (h : TInv cfg w.t) (hcov : op.ledgerCovered = true)
    {r : RetX} {o' : Raw} {w' : World}
    (hr : Map.call2 cfg env (.on op) other w = .ok ((r, o'), w')) :
    o' = other ∧ ph_Led w other w' o' (insertedKX op) (retKX op r) (insertedVX op) (retVX op r) := by
  simp only [Map.call2, Map.wrap2] at hr
  cases hs : Map.stepX cfg env op w with
  | ok pr =>
    obtain ⟨r0, w0⟩ := pr
    rw [hs] at hr
    simp only [Res.ok.injEq, Prod.mk.injEq, id] at hr
    obtain ⟨⟨rfl, rfl⟩, rfl⟩ := hr
    obtain ⟨new, l, k, v, _⟩ := stepX_ledger_partial hc hnd env op w h hcov hs
    refine ⟨rfl, new, l, ?_, ?_⟩
    · ph_count [k]
    · ph_count [v]
  | panic c w0 => rw [hs] at hr; cases hr
  | abort => rw [hs] at hr; cases hr
  | fault f => rw [hs] at hr; cases hr

theorem ph_led_cloneToOther (hc : CfgOk cfg) (hnd : cfg.needsDrop = true) (env : Env)
    (other : Raw) (w : World) (h : TInv cfg w.t) (ho : TInv cfg other)
    {r : RetX} {o' : Raw} {w' : World}
    (hr : Map.call2 cfg env .cloneToOther other w = .ok ((r, o'), w')) :
    w'.t = w.t ∧ ph_Led w other w' o' (kidsOf o'.elems) [] (vidsOf o'.elems) [] := by
  have hd := dropInnerTable_spec hc env other w ho
  simp only [Map.call2, Map.cloneToOther] at hr
  cases hq : dropInnerTable cfg env other w with
  | ok w1 =>
    rw [hq] at hd hr
    obtain ⟨ht1, hl1, _⟩ := hd
    have hcl := cloneTable_spec hc env w1 (by rw [ht1]; exact h)
    simp only [en_bind_ok] at hr
    cases hq2 : Map.cloneTable cfg env w1 with
    | ok pr =>
      obtain ⟨nt, w2⟩ := pr
      rw [hq2] at hcl hr
      simp only [Res.ok.injEq, Prod.mk.injEq] at hr
      obtain ⟨⟨_, hnt⟩, hw2⟩ := hr
      subst hnt hw2
      obtain ⟨_, a2, _, _, _, _, _, _, _, _, a11⟩ := hcl
      obtain ⟨dk, dv⟩ := ph_dropped_rev (cfg := cfg) hnd other.elems
      refine ⟨a2.trans ht1, _, by rw [a11, hl1, ← List.append_assoc], ?_, ?_⟩
      · rw [a2, ht1]
        ph_count [dk]
      · rw [a2, ht1]
        ph_count [dv]
    | panic c w2 => rw [hq2] at hr; cases hr
    | abort => rw [hq2] at hr; cases hr
    | fault f => rw [hq2] at hr; cases hr
  | panic c w1 => rw [hq] at hr; cases hr
  | abort => rw [hq] at hr; cases hr
  | fault f => rw [hq] at hr; cases hr

theorem ph_dropped_cfBlockEvs (t src : Raw) :
    droppedK (cfBlockEvs cfg t src) = [] ∧ droppedV (cfBlockEvs cfg t src) = [] := by
  unfold cfBlockEvs
  split
  · rw [hs_droppedK_append, hs_droppedV_append, ph_droppedK_free, ph_droppedK_alloc,
      ph_droppedV_free, ph_droppedV_alloc]
    exact ⟨rfl, rfl⟩
  · exact ⟨rfl, rfl⟩

theorem ph_led_cloneFrom (hc : CfgOk cfg) (hnd : cfg.needsDrop = true) (env : Env)
    (other : Raw) (w : World) (h : TInv cfg w.t) (ho : TInv cfg other)
    {r : RetX} {o' : Raw} {w' : World}
    (hr : Map.call2 cfg env .cloneFrom other w = .ok ((r, o'), w')) :
    o' = other ∧ ph_Led w other w' o' (kidsOf w'.t.elems) [] (vidsOf w'.t.elems) [] := by
  have hsp := cloneFrom_spec hc env other w h ho
  simp only [Map.call2, Map.wrapU2] at hr
  cases hq : Map.cloneFrom cfg env other w with
  | ok w1 =>
    rw [hq] at hsp hr
    simp only [Res.ok.injEq, Prod.mk.injEq] at hr
    obtain ⟨⟨_, ho'⟩, hw'⟩ := hr
    subst ho' hw'
    obtain ⟨_, _, _, _, _, _, a7⟩ := hsp
    obtain ⟨dk, dv⟩ := ph_dropped_rev (cfg := cfg) hnd w.t.elems
    refine ⟨rfl, _, by rw [a7, ← List.append_assoc], ?_, ?_⟩
    · rw [hs_droppedK_append, (ph_dropped_cfBlockEvs _ _).1]
      ph_count [dk]
    · rw [hs_droppedV_append, (ph_dropped_cfBlockEvs _ _).2]
      ph_count [dv]
  | panic c w1 => rw [hq] at hr; cases hr
  | abort => rw [hq] at hr; cases hr
  | fault f => rw [hq] at hr; cases hr

theorem ph_led_eq (hc : CfgOk cfg) (env : Env)
    (other : Raw) (w : World) (h : TInv cfg w.t) (ho : TInv cfg other)
    {r : RetX} {o' : Raw} {w' : World}
    (hr : Map.call2 cfg env .eq other w = .ok ((r, o'), w')) :
    o' = other ∧ w'.t = w.t ∧ ph_Led w other w' o' [] [] [] [] := by
  have hsp := mapEq_spec hc hc.probe env other w h.1 ho.1
  simp only [Map.call2, Map.wrap2] at hr
  cases hq : Map.mapEq cfg env other w with
  | ok pr =>
    obtain ⟨b, w1⟩ := pr
    rw [hq] at hsp hr
    simp only [Res.ok.injEq, Prod.mk.injEq] at hr
    obtain ⟨⟨_, ho'⟩, hw'⟩ := hr
    subst ho' hw'
    obtain ⟨a1, a2, _⟩ := hsp
    refine ⟨rfl, a1, [], by rw [a2]; rfl, ?_, ?_⟩
    · rw [a1]; simp only [ph_droppedK_nil, List.append_nil]; exact List.Perm.refl _
    · rw [a1]; simp only [ph_droppedV_nil, List.append_nil]; exact List.Perm.refl _
  | panic c w1 => rw [hq] at hr; cases hr
  | abort => rw [hq] at hr; cases hr
  | fault f => rw [hq] at hr; cases hr

theorem ph_led_intoIter (hc : CfgOk cfg) (hnd : cfg.needsDrop = true) (env : Env) (k : Nat)
    (other : Raw) (w : World) (h : TInv cfg w.t)
    {r : RetX} {o' : Raw} {w' : World}
    (hr : Map.call2 cfg env (.intoIter k) other w = .ok ((r, o'), w')) :
    o' = other ∧ ∃ out, r = .base (.elems out) ∧
      ph_Led w other w' o' [] (kidsOf out) [] (vidsOf out) := by
  have hsp := intoIter_spec hc env k w h
  simp only [Map.call2, Map.wrap2] at hr
  cases hq : Map.intoIter cfg env k w with
  | ok pr =>
    obtain ⟨out, w1⟩ := pr
    rw [hq] at hsp hr
    simp only [Res.ok.injEq, Prod.mk.injEq] at hr
    obtain ⟨⟨hr', ho'⟩, hw'⟩ := hr
    subst hr' ho' hw'
    obtain ⟨hout, _, a3, a4, _⟩ := hsp
    subst hout
    obtain ⟨dk, dv⟩ := ph_dropped_rev (cfg := cfg) hnd (w.t.elems.drop k)
    obtain ⟨tk, tv⟩ := ph_take_drop k w.t.elems
    refine ⟨rfl, _, rfl, _, a4, ?_, ?_⟩
    · rw [a3, ph_new_elems]
      ph_count [dk, tk]
    · rw [a3, ph_new_elems]
      ph_count [dv, tv]
  | panic c w1 => rw [hq] at hr; cases hr
  | abort => rw [hq] at hr; cases hr
  | fault f => rw [hq] at hr; cases hr

theorem ph_led_take (hc : CfgOk cfg) (hnd : cfg.needsDrop = true) (env : Env)
    (other : Raw) (w : World) (h : TInv cfg w.t)
    {r : RetX} {o' : Raw} {w' : World}
    (hr : Map.call2 cfg env .take other w = .ok ((r, o'), w')) :
    o' = other ∧ ph_Led w other w' o' [] [] [] [] := by
  have hd := dropInnerTable_spec hc env w.t { w with t := Raw.new cfg.W } h
  simp only [Map.call2, Map.takeDrop, Map.wrapU2] at hr
  cases hq : dropInnerTable cfg env w.t { w with t := Raw.new cfg.W } with
  | ok w1 =>
    rw [hq] at hd hr
    simp only [Res.ok.injEq, Prod.mk.injEq] at hr
    obtain ⟨⟨_, ho'⟩, hw'⟩ := hr
    subst ho' hw'
    obtain ⟨a1, a2, _⟩ := hd
    have a1' : w1.t = Raw.new cfg.W := a1
    obtain ⟨dk, dv⟩ := ph_dropped_rev (cfg := cfg) hnd w.t.elems
    refine ⟨rfl, _, a2, ?_, ?_⟩
    · rw [a1', ph_new_elems]
      ph_count [dk]
    · rw [a1', ph_new_elems]
      ph_count [dv]
  | panic c w1 => rw [hq] at hr; cases hr
  | abort => rw [hq] at hr; cases hr
  | fault f => rw [hq] at hr; cases hr

/-- `with_capacity` that returned: a valid empty table, and the log only gained an allocation. -/
theorem ph_withCapacity_log (hc : CfgOk cfg) (env : Env) (n : Nat) (w : World) {w' : World}
    (hr : withCapacity cfg env n w = .ok w') :
    TInv cfg w'.t ∧ w'.t.elems = [] ∧
      ∃ A, w'.log = A ++ w.log ∧ droppedK A = [] ∧ droppedV A = [] := by
  have hsp := withCapacity_spec hc env n w
  rw [hr] at hsp
  refine ⟨hsp.1, hsp.2.2.2.1, ?_⟩
  unfold withCapacity at hr
  have hfw := fallibleWithCapacity_spec hc env n .infallible w
  cases hq : fallibleWithCapacity cfg env n .infallible w with
  | ok pr =>
    obtain ⟨res, w1⟩ := pr
    rw [hq] at hfw hr
    cases res with
    | ok new =>
      simp only [Res.ok.injEq] at hr
      subst hr
      obtain ⟨_, _, _, _, a5⟩ := hfw
      by_cases h0 : n = 0
      · rw [if_pos h0] at a5
        exact ⟨[], by rw [a5.2]; rfl, rfl, rfl⟩
      · rw [if_neg h0] at a5
        obtain ⟨_, _, _, _, _, _, l, _, b8⟩ := a5
        exact ⟨[.alloc l.size l.align], by rw [b8]; rfl, rfl, rfl⟩
    | error e => cases hr
  | panic c w1 => rw [hq] at hr; cases hr
  | abort => rw [hq] at hr; cases hr
  | fault f => rw [hq] at hr; cases hr

theorem ph_led_fromIter (hc : CfgOk cfg) (hnd : cfg.needsDrop = true) (env : Env)
    (items : List Elem) (other : Raw) (w : World) (h : TInv cfg w.t)
    {r : RetX} {o' : Raw} {w' : World}
    (hr : Map.call2 cfg env (.fromIter items) other w = .ok ((r, o'), w')) :
    o' = other ∧ ph_Led w other w' o' (kidsOf items) [] (vidsOf items) [] := by
  simp only [Map.call2, Map.wrapU2] at hr
  cases hq : Map.fromIter cfg env items w with
  | ok w3 =>
    rw [hq] at hr
    simp only [Res.ok.injEq, Prod.mk.injEq] at hr
    obtain ⟨⟨_, ho'⟩, hw'⟩ := hr
    subst ho' hw'
    refine ⟨rfl, ?_⟩
    simp only [Map.fromIter] at hq
    have hd := dropInnerTable_spec hc env w.t { w with t := Raw.new cfg.W } h
    cases hq1 : dropInnerTable cfg env w.t { w with t := Raw.new cfg.W } with
    | ok w1 =>
      rw [hq1] at hd hq
      obtain ⟨_, hl1, _⟩ := hd
      have hl1' : w1.log = (if w.t.alloc = true then
            [Ev.free (layoutOf cfg w.t.buckets).size (layoutOf cfg w.t.buckets).align] else []) ++
          dropEvs cfg w.t.elems.reverse ++ w.log := hl1
      simp only [Res.onPanic, en_bind_ok] at hq
      cases hq2 : withCapacity cfg env items.length w1 with
      | ok w2 =>
        rw [hq2] at hq
        simp only [en_bind_ok] at hq
        obtain ⟨hT2, hel2, A, hA, hAk, hAv⟩ := ph_withCapacity_log hc env _ w1 hq2
        have hm := lx_insertMany hc hnd env items w2 hT2
        cases hq3 : Map.insertMany cfg env items w2 with
        | ok w4 =>
          rw [hq3] at hq hm
          simp only [Res.ok.injEq] at hq
          subst hq
          obtain ⟨_, new3, l3, k3, v3, _⟩ := hm
          rw [hel2] at k3 v3
          obtain ⟨dk, dv⟩ := ph_dropped_rev (cfg := cfg) hnd w.t.elems
          refine ⟨new3 ++ (A ++ ((if w.t.alloc = true then
            [Ev.free (layoutOf cfg w.t.buckets).size (layoutOf cfg w.t.buckets).align] else []) ++
            dropEvs cfg w.t.elems.reverse)), ?_, ?_, ?_⟩
          · rw [l3, hA, hl1']
            simp only [List.append_assoc]
          · rw [hs_droppedK_append, hs_droppedK_append, hAk]
            ph_count [k3, dk]
          · rw [hs_droppedV_append, hs_droppedV_append, hAv]
            ph_count [v3, dv]
        | panic c w4 =>
          rw [hq3] at hq
          simp only at hq
          split at hq
          · cases hq
          · rename_i hne
            exact absurd hq (hne _)
        | abort => rw [hq3] at hq; cases hq
        | fault f => rw [hq3] at hq; cases hq
      | panic c w2 => rw [hq2] at hq; cases hq
      | abort => rw [hq2] at hq; cases hq
      | fault f => rw [hq2] at hq; cases hq
    | panic c w1 => rw [hq1] at hq; cases hq
    | abort => rw [hq1] at hq; cases hq
    | fault f => rw [hq1] at hq; cases hq
  | panic c w1 => rw [hq] at hr; cases hr
  | abort => rw [hq] at hr; cases hr
  | fault f => rw [hq] at hr; cases hr

/-! ### one returned call on a pair, whole histories -/

/-- Object ledger between two pairs: `s ⟶ s'` wrote the log entries `new`; every key / value object
    stored in `a` or `b` before, or entering (`iK`, `iV`), is afterwards stored in `a` or `b`, dropped
    (in `new`) or has left (`oK`, `oV`) — as multisets of object identities. -/
def ph_Led2 (s s' : Pair) (iK oK iV oV : List Nat) : Prop :=
  ∃ new, s'.w.log = new ++ s.w.log ∧
    List.Perm (kidsOf s'.a.elems ++ kidsOf s'.b.elems ++ droppedK new ++ oK)
      (kidsOf s.a.elems ++ kidsOf s.b.elems ++ iK) ∧
    List.Perm (vidsOf s'.a.elems ++ vidsOf s'.b.elems ++ droppedV new ++ oV)
      (vidsOf s.a.elems ++ vidsOf s.b.elems ++ iV)

theorem ph_Led2.refl (s : Pair) : ph_Led2 s s [] [] [] [] :=
  ⟨[], rfl, by simp only [ph_droppedK_nil, List.append_nil]; exact List.Perm.refl _,
    by simp only [ph_droppedV_nil, List.append_nil]; exact List.Perm.refl _⟩

theorem ph_Led2.trans {a b c : Pair} {i1 o1 j1 p1 i2 o2 j2 p2 : List Nat}
    (h1 : ph_Led2 a b i1 o1 j1 p1) (h2 : ph_Led2 b c i2 o2 j2 p2) :
    ph_Led2 a c (i1 ++ i2) (o1 ++ o2) (j1 ++ j2) (p1 ++ p2) := by
  obtain ⟨n1, l1, k1, v1⟩ := h1
  obtain ⟨n2, l2, k2, v2⟩ := h2
  refine ⟨n2 ++ n1, by rw [l2, l1, List.append_assoc], ?_, ?_⟩
  · ph_count [k1, k2]
  · ph_count [v1, v2]

/-- The in-lists of a call, from target world and other map afterwards. -/
def PairOp.insK' (op : PairOp) (w' : World) (o' : Raw) : List Nat :=
  match op with
  | .on op => insertedKX op
  | .cloneToOther => kidsOf o'.elems
  | .cloneFrom => kidsOf w'.t.elems
  | .fromIter items => kidsOf items
  | _ => []

def PairOp.insV' (op : PairOp) (w' : World) (o' : Raw) : List Nat :=
  match op with
  | .on op => insertedVX op
  | .cloneToOther => vidsOf o'.elems
  | .cloneFrom => vidsOf w'.t.elems
  | .fromIter items => vidsOf items
  | _ => []

/-- Ledger of one returned call `target.op(other)`. -/
theorem ph_led_call2 (hc : CfgOk cfg) (hnd : cfg.needsDrop = true) (env : Env) (op : PairOp)
    (other : Raw) (w : World) (h : TInv cfg w.t) (ho : TInv cfg other)
    (hcov : op.ledgerCovered = true) {r : RetX} {o' : Raw} {w' : World}
    (hr : Map.call2 cfg env op other w = .ok ((r, o'), w')) :
    ph_Led w other w' o' (op.insK' w' o') (op.retK r) (op.insV' w' o') (op.retV r) := by
  cases op with
  | on op => exact (ph_led_on hc hnd env op other w h hcov hr).2
  | cloneToOther => exact (ph_led_cloneToOther hc hnd env other w h ho hr).2
  | cloneFrom => exact (ph_led_cloneFrom hc hnd env other w h ho hr).2
  | eq => exact (ph_led_eq hc env other w h ho hr).2.2
  | intoIter k =>
    obtain ⟨_, out, rfl, hl⟩ := ph_led_intoIter hc hnd env k other w h hr
    exact hl
  | fromIter items => exact (ph_led_fromIter hc hnd env items other w h hr).2
  | take => exact (ph_led_take hc hnd env other w h hr).2

/-- **L1 — ledger of one returned call on a pair.** Element type with drop glue, EVERY environment,
    any two valid tables, any call (except the forgotten drain) that returns `r`: every key object
    (resp. value object) that was stored in either map before, was passed in, or was created by
    `Clone` during the call is afterwards in exactly one of {map `a`, map `b`, the destructor log of
    this call, the return value}. -/
theorem step2_ledger (hc : CfgOk cfg) (hnd : cfg.needsDrop = true) (env : Env) (c : PairCall)
    (s : Pair) (ha : TInv cfg s.a) (hb : TInv cfg s.b) (hcov : c.op.ledgerCovered = true)
    {r : RetX} {s' : Pair} (hst : Map.step2 cfg env c s = .ret r s') :
    ph_Led2 s s' (c.insK s') (c.op.retK r) (c.insV s') (c.op.retV r) := by
  obtain ⟨side, op⟩ := c
  cases side with
  | a =>
    have hst' : Map.step2 cfg env ⟨.a, op⟩ s =
        match Map.call2 cfg env op s.b s.w with
        | .ok ((r, o'), w') => .ret r { w := w', b := o' }
        | .panic cls w' => .panic cls { w := w', b := Map.otherOnPanic cfg op s.b }
        | .abort => .abort
        | .fault f => .fault f := rfl
    rw [hst'] at hst
    cases hcall : Map.call2 cfg env op s.b s.w with
    | ok pr =>
      obtain ⟨⟨r', o'⟩, w'⟩ := pr
      rw [hcall] at hst
      simp only [Map.Out2.ret.injEq] at hst
      obtain ⟨rfl, rfl⟩ := hst
      have hl := ph_led_call2 hc hnd env op s.b s.w ha hb hcov hcall
      have e1 : PairCall.insK ⟨.a, op⟩ { w := w', b := o' } = op.insK' w' o' := by cases op <;> rfl
      have e2 : PairCall.insV ⟨.a, op⟩ { w := w', b := o' } = op.insV' w' o' := by cases op <;> rfl
      rw [e1, e2]
      exact hl
    | panic cls w' => rw [hcall] at hst; cases hst
    | abort => rw [hcall] at hst; cases hst
    | fault f => rw [hcall] at hst; cases hst
  | b =>
    have hst' : Map.step2 cfg env ⟨.b, op⟩ s =
        match Map.call2 cfg env op s.w.t { s.w with t := s.b } with
        | .ok ((r, o'), w') => .ret r { w := { w' with t := o' }, b := w'.t }
        | .panic cls w' =>
          .panic cls { w := { w' with t := Map.otherOnPanic cfg op s.w.t }, b := w'.t }
        | .abort => .abort
        | .fault f => .fault f := rfl
    rw [hst'] at hst
    cases hcall : Map.call2 cfg env op s.w.t { s.w with t := s.b } with
    | ok pr =>
      obtain ⟨⟨r', o'⟩, w'⟩ := pr
      rw [hcall] at hst
      simp only [Map.Out2.ret.injEq] at hst
      obtain ⟨rfl, rfl⟩ := hst
      obtain ⟨new, l, k, v⟩ := ph_led_call2 hc hnd env op s.w.t { s.w with t := s.b } hb ha hcov hcall
      have e1 : PairCall.insK ⟨.b, op⟩ { w := { w' with t := o' }, b := w'.t } = op.insK' w' o' := by
        cases op <;> rfl
      have e2 : PairCall.insV ⟨.b, op⟩ { w := { w' with t := o' }, b := w'.t } = op.insV' w' o' := by
        cases op <;> rfl
      rw [e1, e2]
      refine ⟨new, l, ?_, ?_⟩
      · show List.Perm (kidsOf o'.elems ++ kidsOf w'.t.elems ++ droppedK new ++ _)
          (kidsOf s.w.t.elems ++ kidsOf s.b.elems ++ _)
        have k' : List.Perm (kidsOf w'.t.elems ++ kidsOf o'.elems ++ droppedK new ++ op.retK r')
          (kidsOf s.b.elems ++ kidsOf s.w.t.elems ++ op.insK' w' o') := k
        ph_count [k']
      · show List.Perm (vidsOf o'.elems ++ vidsOf w'.t.elems ++ droppedV new ++ _)
          (vidsOf s.w.t.elems ++ vidsOf s.b.elems ++ _)
        have v' : List.Perm (vidsOf w'.t.elems ++ vidsOf o'.elems ++ droppedV new ++ op.retV r')
          (vidsOf s.b.elems ++ vidsOf s.w.t.elems ++ op.insV' w' o') := v
        ph_count [v']
    | panic cls w' => rw [hcall] at hst; cases hst
    | abort => rw [hcall] at hst; cases hst
    | fault f => rw [hcall] at hst; cases hst

/-- Key / value objects entering the accounting during a pair history: passed in by the caller, or
    created by `Clone` (counted when created). -/
def Map.insK2 (cfg : Cfg) (env : Env) : List PairCall → Pair → List Nat
  | [], _ => []
  | c :: rest, s =>
    match Map.step2 cfg env c s with
    | .ret _ s' => c.insK s' ++ Map.insK2 cfg env rest s'
    | .panic _ s' => c.insK s' ++ Map.insK2 cfg env rest s'
    | .abort => []
    | .fault _ => []

def Map.insV2 (cfg : Cfg) (env : Env) : List PairCall → Pair → List Nat
  | [], _ => []
  | c :: rest, s =>
    match Map.step2 cfg env c s with
    | .ret _ s' => c.insV s' ++ Map.insV2 cfg env rest s'
    | .panic _ s' => c.insV s' ++ Map.insV2 cfg env rest s'
    | .abort => []
    | .fault _ => []

/-- Key / value objects handed back to the caller by the returned calls of a pair history. -/
def returnedK2 : List (PairCall × Map.ObsX) → List Nat
  | [] => []
  | (c, .ret r) :: rest => c.op.retK r ++ returnedK2 rest
  | (_, .panic _) :: rest => returnedK2 rest

def returnedV2 : List (PairCall × Map.ObsX) → List Nat
  | [] => []
  | (c, .ret r) :: rest => c.op.retV r ++ returnedV2 rest
  | (_, .panic _) :: rest => returnedV2 rest

/-- Ledger of a pair history from any two valid tables. -/
theorem ph_run2_ledger (hc : CfgOk cfg) (hnd : cfg.needsDrop = true) (env : Env) :
    ∀ (cs : List PairCall) (s sf : Pair) (obs : List Map.ObsX), TInv cfg s.a → TInv cfg s.b →
      (∀ c ∈ cs, c.op.ledgerCovered = true) →
      Map.run2 cfg env cs s = some (obs, sf) → (∀ o ∈ obs, ∃ r, o = .ret r) →
      ph_Led2 s sf (Map.insK2 cfg env cs s) (returnedK2 (cs.zip obs)) (Map.insV2 cfg env cs s)
        (returnedV2 (cs.zip obs)) := by
  intro cs
  induction cs with
  | nil =>
    intro s sf obs _ _ _ hrun _
    simp only [Map.run2, Option.some.injEq, Prod.mk.injEq] at hrun
    obtain ⟨h1, h2⟩ := hrun
    subst h1 h2
    exact ph_Led2.refl s
  | cons c rest ih =>
    intro s sf obs ha hb hcov hrun hret
    cases hr : Map.step2 cfg env c s with
    | ret r s1 =>
      simp only [Map.run2, hr] at hrun
      obtain ⟨⟨os, sf'⟩, h1, h2⟩ := Option.map_eq_some_iff.1 hrun
      simp only [Prod.mk.injEq] at h2
      obtain ⟨h2a, h2b⟩ := h2
      subst h2a h2b
      have e1 := step2_ledger hc hnd env c s ha hb (hcov c List.mem_cons_self) hr
      have hg := ph_step2_safe hc (Or.inl hnd) env c s ha hb
      rw [hr] at hg
      have e2 := ih s1 sf' os hg.1.1 hg.2.1 (fun x hx => hcov x (List.mem_cons_of_mem _ hx)) h1
        (fun o ho => hret o (List.mem_cons_of_mem _ ho))
      simp only [List.zip_cons_cons, returnedK2, returnedV2, Map.insK2, Map.insV2, hr]
      exact e1.trans e2
    | panic cls s1 =>
      simp only [Map.run2, hr] at hrun
      obtain ⟨⟨os, sf'⟩, h1, h2⟩ := Option.map_eq_some_iff.1 hrun
      simp only [Prod.mk.injEq] at h2
      obtain ⟨r, hr'⟩ := hret (.panic cls) (by rw [← h2.1]; exact List.mem_cons_self)
      cases hr'
    | abort => simp [Map.run2, hr] at hrun
    | fault f => simp [Map.run2, hr] at hrun

/-- **L2 — ledger of a pair history (C03).** Every history of calls on a fresh pair
    `(HashMap::new(), HashMap::new())` with an empty log (element type with drop glue, no forgotten
    drain, EVERY environment) that runs to its end with every call returning: as multisets of object
    identities,
      `stored(a) ++ stored(b) ++ dropped ++ returned = inserted`
    for key objects and for value objects — where `inserted` (`Map.insK2` / `insV2`) are the objects
    passed in by the caller plus the clones `clone` / `clone_from` created (counted when created),
    `dropped` are all destructor calls in the log and `returned` what the calls handed back by value
    (`returnedK2` / `returnedV2`: `retKX` / `retVX` of the single-map calls, the pairs `into_iter`
    yielded). Nothing is dropped twice, leaked or duplicated across the two maps. -/
theorem run2_ledger (hc : CfgOk cfg) (hnd : cfg.needsDrop = true) (env : Env) (cs : List PairCall)
    (s0 : Pair) (ha : s0.a = Raw.new cfg.W) (hb : s0.b = Raw.new cfg.W) (hl0 : s0.w.log = [])
    (hcov : ∀ c ∈ cs, c.op.ledgerCovered = true)
    {obs : List Map.ObsX} {sf : Pair} (hrun : Map.run2 cfg env cs s0 = some (obs, sf))
    (hret : ∀ o ∈ obs, ∃ r, o = .ret r) :
    List.Perm (kidsOf sf.a.elems ++ kidsOf sf.b.elems ++ droppedK sf.w.log ++ returnedK2 (cs.zip obs))
      (Map.insK2 cfg env cs s0) ∧
    List.Perm (vidsOf sf.a.elems ++ vidsOf sf.b.elems ++ droppedV sf.w.log ++ returnedV2 (cs.zip obs))
      (Map.insV2 cfg env cs s0) := by
  obtain ⟨new, l, k, v⟩ := ph_run2_ledger hc hnd env cs s0 sf obs (by rw [ha]; exact TInv.new hc)
    (by rw [hb]; exact TInv.new hc) hcov hrun hret
  rw [hl0, List.append_nil] at l
  rw [ha, hb, ph_new_elems] at k v
  rw [l]
  exact ⟨by simpa [kidsOf] using k, by simpa [vidsOf] using v⟩

#print axioms step2_safe
#print axioms run2_safe
#print axioms run2_safe_from
#print axioms states2_of_run2
#print axioms ph_cloneFrom_abort
#print axioms AL.PCall.perm
#print axioms AL.kv_perm_same_map
#print axioms AL.PCall.clone_then_eq
#print axioms call2_refines
#print axioms step2_refines
#print axioms pair_history_refines_from
#print axioms pair_history_refines
#print axioms run2_other_unchanged
#print axioms AL.PTrace.other_unchanged
#print axioms clone_then_diverge
#print axioms clone_then_diverge_ref
#print axioms ph_step2_eq
#print axioms eq_ignores_history
#print axioms step2_ledger
#print axioms run2_ledger

end Hb
