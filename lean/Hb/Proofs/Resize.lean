/-
`fallible_with_capacity` and `resize_inner` (`Hb/Model/Raw.lean`: `fallibleWithCapacity`, `newTable`,
`resizeLoop`, `resizeInner`).

Main results: `fallibleWithCapacity_spec`, `resizeLoop_spec`, `resizeInner_spec_partial`
(= `resizeInner_post` in `match` form).

`resizeInner_spec_partial` has ONE hypothesis more than requested: `Raw.LayoutOk cfg w.t` (the block
of the old table has a computable layout). Without it "never `.fault`" is false, because `Inv` does
not mention `cfg.size` and `free_buckets` recomputes the old layout
(`resizeInner_fault_without_layoutOk`: `size_of::<T>() = 2^64`, 4 allocated empty buckets, resize
to capacity 0 faults with "unreachable_unchecked in allocation_info"). `LayoutOk` holds for
`Raw.new`, for every table returned by `fallibleWithCapacity` (`fallibleWithCapacity_layoutOk`),
depends only on `mask`/`alloc` (`Raw.LayoutOk.of_eq`) and is re-established by `resizeInner`.

Proof idea for the loop: the table under construction has stale `items = 0` / full `growth_left`,
so it does not satisfy `Inv`; but `Raw.patch` (recompute both fields from the control bytes) does,
and `find_insert_slot` reads only mask and control bytes (`findInsertSlot_patch`).
-/
import Hb.Proofs.Arith
import Hb.Proofs.InvStep
import Hb.Proofs.FindSlot
import Hb.Proofs.IterSpec
namespace Hb

variable {cfg : Cfg}

/-- The layout `calculate_layout_for` computes for a block of `buckets` buckets (a dummy if the
    computation overflows). -/
def layoutOf (cfg : Cfg) (buckets : Nat) : Layout :=
  (calculateLayoutFor cfg.bits cfg.W cfg.size (ctrlAlignOf cfg) buckets).getD ⟨0, 0, 0⟩

/-- The block of an allocated table has a computable layout. True of every table produced by
    `newTable`; *not* implied by `Inv` (which does not mention `cfg.size`). -/
def Raw.LayoutOk (cfg : Cfg) (t : Raw) : Prop :=
  t.alloc = true →
    (calculateLayoutFor cfg.bits cfg.W cfg.size (ctrlAlignOf cfg) t.buckets).isSome = true

theorem layoutOf_eq {b : Nat} {l : Layout}
    (h : calculateLayoutFor cfg.bits cfg.W cfg.size (ctrlAlignOf cfg) b = some l) :
    layoutOf cfg b = l := by
  simp only [layoutOf, h, Option.getD_some]

/-- `LayoutOk` only depends on `alloc` and the bucket count, so every operation that keeps the block
    (insert, erase, rehash in place, clear, ...) preserves it. -/
theorem Raw.LayoutOk.of_eq {t t' : Raw} (h : t.LayoutOk cfg) (hm : t'.mask = t.mask)
    (ha : t'.alloc = t.alloc) : t'.LayoutOk cfg := by
  intro hal
  have := h (by rw [← ha]; exact hal)
  simpa only [Raw.buckets, hm] using this

theorem Raw.new_layoutOk (cfg : Cfg) : (Raw.new cfg.W).LayoutOk cfg := by
  intro h; cases h

theorem fallibleWithCapacity_spec (hc : CfgOk cfg) (env : Env) (capacity : Nat) (fb : Fallibility)
    (w : World) :
    match fallibleWithCapacity cfg env capacity fb w with
    | .ok (.ok new, w') =>
      Inv cfg new ∧ new.items = 0 ∧ new.elems = [] ∧
      (capacity ≤ bucketMaskToCapacity new.mask ∨ (capacity = 0 ∧ new = Raw.new cfg.W)) ∧
      (if capacity = 0 then new = Raw.new cfg.W ∧ w' = w
       else
        new.alloc = true ∧ capacity ≤ new.gl ∧ new.gl = bucketMaskToCapacity new.mask ∧
        (∀ j, j < new.buckets → new.ctrlAt j = EMPTY) ∧
        capacityToBuckets cfg.bits cfg.W cfg.size capacity = some new.buckets ∧
        env.allocOk w.ac = true ∧
        ∃ l, calculateLayoutFor cfg.bits cfg.W cfg.size (ctrlAlignOf cfg) new.buckets = some l ∧
          w' = { w with ac := w.ac + 1, log := .alloc l.size l.align :: w.log })
    | .ok (.error e, w') =>
      fb = .fallible ∧ w'.t = w.t ∧ w'.log = w.log ∧ capacity ≠ 0 ∧
      ((e = .capacityOverflow ∧ w' = w) ∨
       (∃ b l, capacityToBuckets cfg.bits cfg.W cfg.size capacity = some b ∧
          calculateLayoutFor cfg.bits cfg.W cfg.size (ctrlAlignOf cfg) b = some l ∧
          e = .allocError l.size l.align ∧ env.allocOk w.ac = false ∧
          w' = { w with ac := w.ac + 1 }))
    | .panic c w' => c = "capacity" ∧ w' = w ∧ fb = .infallible ∧ capacity ≠ 0
    | .abort => fb = .infallible ∧ env.allocOk w.ac = false ∧ capacity ≠ 0
    | .fault _ => False := by
  unfold fallibleWithCapacity
  by_cases h0 : capacity = 0
  · rw [if_pos h0]
    exact ⟨Raw.new_inv hc, rfl, rfl, Or.inr ⟨h0, rfl⟩, by rw [if_pos h0]; exact ⟨rfl, rfl⟩⟩
  · rw [if_neg h0]
    cases hb : capacityToBuckets cfg.bits cfg.W cfg.size capacity with
    | none =>
      cases fb <;> simp [capacityOverflow, h0]
    | some b =>
      obtain ⟨k, hk, hbk, hcap, _, _⟩ :=
        capacityToBuckets_spec cfg.bits cfg.W cfg.size capacity b hc.bits h0 hb
      have hpos : 0 < b := by rw [hbk]; exact Nat.two_pow_pos k
      have hb1 : b - 1 + 1 = b := by omega
      simp only [newTable]
      cases hl : calculateLayoutFor cfg.bits cfg.W cfg.size (ctrlAlignOf cfg) b with
      | none => cases fb <;> simp [capacityOverflow, h0]
      | some l =>
        simp only [doAlloc]
        cases ha : env.allocOk w.ac with
        | false =>
          rw [if_neg (by decide)]
          cases fb
          · exact ⟨rfl, rfl, rfl, h0, Or.inr ⟨b, l, rfl, hl, rfl, rfl, rfl⟩⟩
          · exact ⟨rfl, rfl, h0⟩
        | true =>
          rw [if_pos rfl]
          have hlt := calculateLayoutFor_bound hl
          refine ⟨newTable_inv hbk hk hlt, rfl, ?_, Or.inl hcap, ?_⟩
          · simp [Raw.elems]
          · rw [if_neg h0]
            refine ⟨rfl, hcap, rfl, ?_, ?_, rfl, l, ?_, rfl⟩
            · intro j hj
              exact ctrlAt_replicate rfl (by simp only [Raw.buckets_eq] at hj; omega)
            · simp only [Raw.buckets_eq, hb1]
            · simp only [Raw.buckets_eq, hb1]; exact hl

/-- Every table returned by `fallible_with_capacity` has a computable layout. -/
theorem fallibleWithCapacity_layoutOk (hc : CfgOk cfg) {env : Env} {capacity : Nat}
    {fb : Fallibility} {w w' : World} {new : Raw}
    (h : fallibleWithCapacity cfg env capacity fb w = .ok (.ok new, w')) : new.LayoutOk cfg := by
  have hfw := fallibleWithCapacity_spec hc env capacity fb w
  rw [h] at hfw
  obtain ⟨_, _, _, _, hrest⟩ := hfw
  by_cases h0 : capacity = 0
  · rw [if_pos h0] at hrest
    rw [hrest.1]
    exact Raw.new_layoutOk cfg
  · rw [if_neg h0] at hrest
    obtain ⟨_, _, _, _, _, _, l, hl, _⟩ := hrest
    intro _
    rw [hl]; rfl

/-! ### tables whose `items` / `growth_left` are stale -/

/-- `t` with `items` and `growth_left` recomputed from the control bytes (assuming no `DELETED`). -/
def Raw.patch (t : Raw) : Raw :=
  { t with items := t.countCtrl isFull, gl := bucketMaskToCapacity t.mask - t.countCtrl isFull }

theorem findInsertSlotLoop_congr {t t' : Raw} (hm : t'.mask = t.mask) (hct : t'.ctrl = t.ctrl) :
    ∀ (fuel : Nat) (p : ProbeSeq), findInsertSlotLoop cfg t' fuel p = findInsertSlotLoop cfg t fuel p
  | 0, _ => rfl
  | fuel + 1, p => by
    have hl : ∀ pos, loadGroup cfg.W t' pos = loadGroup cfg.W t pos := by
      intro pos; simp only [loadGroup, hct]
    have hf : ∀ i, fixInsertSlot cfg t' i = fixInsertSlot cfg t i := by
      intro i; simp only [fixInsertSlot, ctrlRd, hct, hl]
    simp only [findInsertSlotLoop, hl, findInsertSlotInGroup, hm, hf,
      findInsertSlotLoop_congr hm hct fuel]

/-- `find_insert_slot` reads only the mask and the control bytes. -/
theorem findInsertSlot_congr {t t' : Raw} (hm : t'.mask = t.mask) (hct : t'.ctrl = t.ctrl)
    (hash : Nat) : findInsertSlot cfg t' hash = findInsertSlot cfg t hash := by
  simp only [findInsertSlot, probeFuel, hm, findInsertSlotLoop_congr hm hct]

theorem findInsertSlot_patch (t : Raw) (hash : Nat) :
    findInsertSlot cfg t.patch hash = findInsertSlot cfg t hash :=
  findInsertSlot_congr (t := t) (t' := t.patch) rfl rfl hash

/-- Loop invariant of `resize_inner` for the table under construction: correct structure, `n` full
    buckets, no tombstone, but `items = 0` and `growth_left` still the full capacity. -/
structure ResizeInv (cfg : Cfg) (t : Raw) (n : Nat) : Prop where
  inv : Inv cfg t.patch
  alloc : t.alloc = true
  items : t.items = 0
  gl : t.gl = bucketMaskToCapacity t.mask
  full : t.countCtrl isFull = n
  le : n ≤ bucketMaskToCapacity t.mask

theorem ResizeInv.nodel {t : Raw} {n : Nat} (h : ResizeInv cfg t n) :
    t.countCtrl (· == DELETED) = 0 := by
  have := h.inv.count h.alloc
  have h1 := h.full
  have h2 := h.le
  simp only [Raw.patch] at this
  change bucketMaskToCapacity t.mask - t.countCtrl isFull + t.countCtrl isFull +
    t.countCtrl (· == DELETED) = bucketMaskToCapacity t.mask at this
  omega

theorem Raw.patch_eq_self {t : Raw} (h1 : t.items = t.countCtrl isFull)
    (h2 : t.gl = bucketMaskToCapacity t.mask - t.countCtrl isFull) : t.patch = t := by
  cases t with
  | mk m c s i g a =>
    simp only [Raw.patch, Raw.mk.injEq, true_and, and_true]
    exact ⟨h1.symm, h2.symm⟩

theorem ResizeInv.init {t : Raw} (h : Inv cfg t) (ha : t.alloc = true) (hi : t.items = 0)
    (hg : t.gl = bucketMaskToCapacity t.mask) : ResizeInv cfg t 0 := by
  have hf : t.countCtrl isFull = 0 := by rw [← h.items_eq, hi]
  have : t.patch = t := Raw.patch_eq_self (by rw [hf, hi]) (by rw [hf, hg]; rfl)
  exact ⟨by rw [this]; exact h, ha, hi, hg, hf, Nat.zero_le _⟩

/-! ### `Raw.elems` -/

private theorem filterMap_set_none {α} (l : List (Option α)) (i : Nat) (e : α) (h : l[i]? = some none) :
    ((l.set i (some e)).filterMap id).Perm (e :: l.filterMap id) := by
  induction l generalizing i with
  | nil => simp at h
  | cons a l ih =>
    cases i with
    | zero =>
      simp only [List.getElem?_cons_zero, Option.some.injEq] at h
      subst h
      simp
    | succ i =>
      simp only [List.getElem?_cons_succ] at h
      have := ih i h
      cases a with
      | none => simpa using this
      | some x =>
        simp only [List.set_cons_succ, List.filterMap_cons, id]
        exact (this.cons x).trans (List.Perm.swap _ _ _)

private theorem map_getElem?_range {α} (l : List α) :
    (List.range l.length).map (fun i => l[i]?) = l.map some := by
  apply List.ext_getElem?
  intro k
  by_cases hk : k < l.length
  · simp [hk]
  · simp [hk]

private theorem filterMap_id_eq_range {α} (l : List (Option α)) :
    l.filterMap id = (List.range l.length).filterMap (fun i => l[i]?.join) := by
  have : (fun i : Nat => l[i]?.join) = Option.join ∘ (fun i : Nat => l[i]?) := rfl
  rw [this, ← List.filterMap_map, map_getElem?_range, List.filterMap_map]
  congr 1

private theorem filterMap_congr_mem {α β} {f g : α → Option β} {l : List α} (h : ∀ x ∈ l, f x = g x) :
    l.filterMap f = l.filterMap g := by
  induction l with
  | nil => rfl
  | cons a l ih =>
    simp only [List.filterMap_cons, h a List.mem_cons_self,
      ih (fun x hx => h x (List.mem_cons_of_mem _ hx))]

/-- Writing an element into a dead slot adds it to the abstract contents. -/
theorem elems_put {t : Raw} {i : Nat} (e : Elem) (h : t.slots[i]? = some none) :
    (Raw.elems { t with slots := t.slots.setIfInBounds i (some e) }).Perm (e :: t.elems) := by
  simp only [Raw.elems, Array.toList_setIfInBounds]
  apply filterMap_set_none
  rw [Array.getElem?_toList]
  exact h

/-- The abstract contents, read off through the iteration order of `fullIndices`. -/
theorem elems_eq_fullList {t : Raw} (h : Inv cfg t) :
    t.elems = t.fullList.filterMap (fun i => t.slots[i]?.join) := by
  rw [Raw.elems, filterMap_id_eq_range, Raw.fullList, List.filterMap_filter]
  simp only [Array.length_toList, Array.getElem?_toList]
  rcases h.geom with hs | ha
  · obtain ⟨_, hm, _, hsl, _⟩ := hs
    simp [hsl, Raw.buckets, hm]
  · rw [ha.2.2.2.1]
    apply filterMap_congr_mem
    intro i hi
    have hi' : i < t.slots.size := by rw [ha.2.2.2.1]; exact List.mem_range.mp hi
    have hl := h.live i hi'
    cases hf : isFull (t.ctrlAt i) with
    | true => simp
    | false =>
      rw [hf] at hl
      cases hj : t.slots[i]?.join with
      | none => simp
      | some x => rw [hj] at hl; simp at hl

/-! ### one iteration of the move loop -/

theorem resizeStep (hc : CfgOk cfg) (hp : ProbeCovers cfg) {new : Raw} {n : Nat}
    (h : ResizeInv cfg new n) (hn : n < bucketMaskToCapacity new.mask) (hash : Nat) (e : Elem) :
    ∃ ni oc new1 new2, prepareInsertSlot cfg new hash = .ok (ni, oc, new1) ∧
      slotPut new1 ni e = .ok new2 ∧ ResizeInv cfg new2 (n + 1) ∧ new2.mask = new.mask ∧
      new2.elems.Perm (e :: new.elems) := by
  have hinv := h.inv
  have hall : new.IsAllocated cfg := hinv.allocated h.alloc
  obtain ⟨idx, hfind, hidx, hsp⟩ := findInsertSlot_ok hc hp hinv hash
  rw [findInsertSlot_patch] at hfind
  have hidx' : idx < new.buckets := hidx
  have hsp' : isSpecial (new.ctrlAt idx) = true := hsp
  have hsz : idx < new.ctrl.size := by have := hall.2.2.1; omega
  have hssz : idx < new.slots.size := by have := hall.2.2.2.1; omega
  have hnf := isFull_false_of_special hsp'
  have hslot : new.slots[idx]? = some none := (slot_of_live hinv (t := new.patch) hssz).1 hnf
  have hnd : (new.ctrlAt idx == DELETED) = false := by
    cases hd : (new.ctrlAt idx == DELETED) with
    | false => rfl
    | true =>
      have := countCtrl_pos hidx' (· == DELETED) hd
      have := h.nodel
      omega
  obtain ⟨new1, he, h1, h2, h3, h4, h5, h6, h7⟩ := setCtrl_ok hc hall hidx' (tagFull cfg.bits hash)
  have htf := isFull_of_lt (tagFull_lt cfg.bits hash)
  have htd : (tagFull cfg.bits hash == DELETED) = false := by
    have := tagFull_lt cfg.bits hash
    simp only [DELETED, beq_eq_false_iff_ne, ne_eq]; omega
  have hctn := ctrlAt_bucket hc hall hidx' h7
  have hF := countCtrl_set (t := new)
    (t' := { new1 with slots := new1.slots.setIfInBounds idx (some e) })
    (tagFull cfg.bits hash) h1 hidx' hctn isFull
  rw [hnf, htf, h.full] at hF
  simp only [Bool.false_eq_true, if_false, if_true, Nat.add_zero] at hF
  refine ⟨idx, new.ctrlAt idx, new1, { new1 with slots := new1.slots.setIfInBounds idx (some e) },
    ?_, ?_, ⟨?_, by simp only [h5, h.alloc], by simp only [h3, h.items], ?_, hF, ?_⟩, h1, ?_⟩
  · simp only [prepareInsertSlot, hfind, ctrlRd_eq hsz, setCtrlHash, he]
  · simp only [slotPut, h2, hslot]
  · refine hinv.update hc (t' := Raw.patch { new1 with slots := new1.slots.setIfInBounds idx (some e) })
      hall hidx' (Or.inl (tagFull_lt cfg.bits hash)) h1 (by simp only [Raw.patch, h5, h.alloc]) h6 h7
      (some e) (by simp only [Raw.patch, h2]) (by simp [htf]) ?_ ?_ (fun _ => htd)
    · show Raw.countCtrl { new1 with slots := new1.slots.setIfInBounds idx (some e) } isFull +
          (if isFull (new.ctrlAt idx) = true then 1 else 0) =
        new.countCtrl isFull + (if isFull (tagFull cfg.bits hash) = true then 1 else 0)
      rw [hF, hnf, htf, h.full]
      simp
    · show bucketMaskToCapacity new1.mask -
            Raw.countCtrl { new1 with slots := new1.slots.setIfInBounds idx (some e) } isFull +
          (if isFull (tagFull cfg.bits hash) = true then 1 else 0) +
          (if (tagFull cfg.bits hash == DELETED) = true then 1 else 0) =
        bucketMaskToCapacity new.mask - new.countCtrl isFull +
          (if isFull (new.ctrlAt idx) = true then 1 else 0) +
          (if (new.ctrlAt idx == DELETED) = true then 1 else 0)
      rw [hF, hnf, htf, htd, hnd, h.full, h1]
      simp only [Bool.false_eq_true, if_false, if_true]
      omega
  · simp only [h4, h.gl, h1]
  · simp only [h1]; omega
  · simp only [Raw.elems, h2]
    exact elems_put e hslot

/-! ### the move loop -/

/-- Postcondition of `resizeLoop old idxs new w` started with `n` elements already moved. -/
def LoopPost (cfg : Cfg) (old : Raw) (ln : Layout) (idxs : List Nat) (new : Raw) (w : World)
    (n : Nat) : Res (Raw × World) → Prop
  | .ok (new', w') =>
    ResizeInv cfg new' (n + idxs.length) ∧ new'.mask = new.mask ∧
    w' = { w with hc := w.hc + idxs.length } ∧
    new'.elems.Perm (idxs.filterMap (fun i => old.slots[i]?.join) ++ new.elems)
  | .panic c w' =>
    c = "hash" ∧ ∃ k, k < idxs.length ∧
      w' = { w with hc := w.hc + (k + 1), log := .free ln.size ln.align :: w.log }
  | .abort => False
  | .fault _ => False

theorem LoopPost.cons {old : Raw} {ln : Layout} {i : Nat} {rest : List Nat} {new new2 : Raw}
    {w : World} {n : Nat} {e : Elem} {r : Res (Raw × World)}
    (he : old.slots[i]? = some (some e)) (hm : new2.mask = new.mask)
    (hperm : new2.elems.Perm (e :: new.elems))
    (h : LoopPost cfg old ln rest new2 { w with hc := w.hc + 1 } (n + 1) r) :
    LoopPost cfg old ln (i :: rest) new w n r := by
  match r, h with
  | .ok (new', w'), ⟨a1, a2, a3, a4⟩ =>
    refine ⟨?_, a2.trans hm, ?_, ?_⟩
    · rw [List.length_cons, show n + (rest.length + 1) = n + 1 + rest.length by omega]; exact a1
    · rw [a3, List.length_cons]
      simp only [World.mk.injEq, true_and, and_true]
      omega
    · rw [List.filterMap_cons, he]
      simp only [Option.join_some, List.cons_append]
      refine a4.trans ?_
      exact (List.Perm.append_left _ hperm).trans List.perm_middle
  | .panic c w', ⟨a1, k, hk, a3⟩ =>
    refine ⟨a1, k + 1, by rw [List.length_cons]; omega, ?_⟩
    rw [a3]
    simp only [World.mk.injEq, true_and, and_true]
    omega

theorem resizeLoop_spec (hc : CfgOk cfg) (hp : ProbeCovers cfg) (env : Env) (old : Raw)
    (ln : Layout) :
    ∀ (idxs : List Nat) (new : Raw) (w : World) (n : Nat),
      ResizeInv cfg new n → n + idxs.length ≤ bucketMaskToCapacity new.mask →
      calculateLayoutFor cfg.bits cfg.W cfg.size (ctrlAlignOf cfg) (new.mask + 1) = some ln →
      (∀ i ∈ idxs, ∃ e, old.slots[i]? = some (some e)) →
      LoopPost cfg old ln idxs new w n (resizeLoop cfg env old idxs new w) := by
  intro idxs
  induction idxs with
  | nil =>
    intro new w n h _ _ _
    exact ⟨h, rfl, rfl, List.Perm.refl _⟩
  | cons i rest ih =>
    intro new w n h hle hlay hsl
    obtain ⟨e, he⟩ := hsl i List.mem_cons_self
    have hget : slotGet old i = .ok e := by simp only [slotGet, he]
    have hall : new.IsAllocated cfg := h.inv.allocated h.alloc
    have hm0 : new.isEmptySingleton = false := by
      obtain ⟨k, hk, _, hm⟩ := IsAllocated.mask_eq hall
      have : 2 ^ 2 ≤ 2 ^ k := Nat.pow_le_pow_right (by decide) hk
      simp only [Raw.isEmptySingleton, beq_eq_false_iff_ne, ne_eq]
      omega
    rw [List.length_cons] at hle
    cases hh : env.hash w.hc e.k with
    | none =>
      simp only [resizeLoop, hget, World.hashCall, hh, hm0, freeBuckets, hlay]
      exact ⟨rfl, 0, by rw [List.length_cons]; omega, rfl⟩
    | some hash =>
      obtain ⟨ni, oc, new1, new2, hprep, hput, hinv2, hmask, hperm⟩ :=
        resizeStep hc hp h (by omega) hash e
      have := ih new2 { w with hc := w.hc + 1 } (n + 1) hinv2 (by rw [hmask]; omega)
        (by rw [hmask]; exact hlay) (fun j hj => hsl j (List.mem_cons_of_mem _ hj))
      simp only [resizeLoop, hget, World.hashCall, hh, hprep, hput]
      exact LoopPost.cons he hmask hperm this

/-! ### `resize_inner` -/

theorem Inv.isEmptySingleton_eq {t : Raw} (h : Inv cfg t) : t.isEmptySingleton = !t.alloc := by
  rcases h.geom with hs | ha
  · simp only [Raw.isEmptySingleton, hs.1, hs.2.1]; rfl
  · obtain ⟨k, hk, _, hm⟩ := IsAllocated.mask_eq ha
    have : 2 ^ 2 ≤ 2 ^ k := Nat.pow_le_pow_right (by decide) hk
    have hne : (t.mask == 0) = false := by
      simp only [beq_eq_false_iff_ne, ne_eq]; omega
    simp only [Raw.isEmptySingleton, ha.1, hne]; rfl

theorem freeBuckets_ok {t : Raw} (hlo : t.LayoutOk cfg) (ha : t.alloc = true) (w : World) :
    freeBuckets cfg t.mask w =
      .ok { w with log := .free (layoutOf cfg t.buckets).size (layoutOf cfg t.buckets).align :: w.log } := by
  have := hlo ha
  cases hl : calculateLayoutFor cfg.bits cfg.W cfg.size (ctrlAlignOf cfg) t.buckets with
  | none => rw [hl] at this; cases this
  | some l =>
    have hl' : calculateLayoutFor cfg.bits cfg.W cfg.size (ctrlAlignOf cfg) (t.mask + 1) = some l := hl
    simp only [freeBuckets, hl', layoutOf_eq hl]

theorem ResizeInv.finish {t : Raw} {n : Nat} (h : ResizeInv cfg t n) :
    ({ t with gl := t.gl - n, items := n } : Raw) = t.patch := by
  simp only [Raw.patch, h.full, h.gl]

/-- Postcondition of `resizeInner cfg env capacity fb w`. -/
def ResizePost (cfg : Cfg) (env : Env) (capacity : Nat) (fb : Fallibility) (w : World) :
    TR Unit → Prop
  | .ok (.ok (), w') =>
    Inv cfg w'.t ∧ w'.t.LayoutOk cfg ∧ w'.t.items = w.t.items ∧
    w'.t.countCtrl (· == DELETED) = 0 ∧
    (capacity = 0 ∨ capacity ≤ w'.t.items + w'.t.gl) ∧
    (if capacity = 0 then w'.t = Raw.new cfg.W
     else w'.t.alloc = true ∧
      capacityToBuckets cfg.bits cfg.W cfg.size capacity = some w'.t.buckets ∧
      w'.t.items + w'.t.gl = bucketMaskToCapacity w'.t.mask ∧ env.allocOk w.ac = true) ∧
    List.Perm w'.t.elems w.t.elems ∧
    (∀ ev ∈ w'.log, ev ∈ w.log ∨ ∃ s a, ev = .alloc s a ∨ ev = .free s a) ∧
    w'.log =
      (if w.t.alloc = true then
        [Ev.free (layoutOf cfg w.t.buckets).size (layoutOf cfg w.t.buckets).align] else []) ++
      (if capacity = 0 then []
       else [Ev.alloc (layoutOf cfg w'.t.buckets).size (layoutOf cfg w'.t.buckets).align]) ++
      w.log ∧
    w' = { w with t := w'.t, hc := w.hc + w.t.items,
                  ac := w.ac + (if capacity = 0 then 0 else 1), log := w'.log }
  | .ok (.error e, w') =>
    fb = .fallible ∧ w'.t = w.t ∧ w'.log = w.log ∧ capacity ≠ 0 ∧
    ((e = .capacityOverflow ∧ w' = w) ∨
     (∃ b, capacityToBuckets cfg.bits cfg.W cfg.size capacity = some b ∧
        e = .allocError (layoutOf cfg b).size (layoutOf cfg b).align ∧
        env.allocOk w.ac = false ∧ w' = { w with ac := w.ac + 1 }))
  | .panic c w' =>
    (c = "capacity" ∧ fb = .infallible ∧ w' = w) ∨
    (c = "hash" ∧ capacity ≠ 0 ∧ w'.t = w.t ∧
      ∃ b k, capacityToBuckets cfg.bits cfg.W cfg.size capacity = some b ∧ k < w.t.items ∧
        w'.log = .free (layoutOf cfg b).size (layoutOf cfg b).align ::
                 .alloc (layoutOf cfg b).size (layoutOf cfg b).align :: w.log ∧
        w' = { w with hc := w.hc + (k + 1), ac := w.ac + 1, log := w'.log })
  | .abort => fb = .infallible ∧ env.allocOk w.ac = false
  | .fault _ => False

theorem resizeInner_zero (hc : CfgOk cfg) (env : Env) (fb : Fallibility) (w : World)
    (h : Inv cfg w.t) (hlo : w.t.LayoutOk cfg) (hit : w.t.items = 0) :
    ResizePost cfg env 0 fb w (resizeInner cfg env 0 fb w) := by
  have hfi := fullIndices_spec hc h
  have hlen := fullList_length hc h
  have hnil : w.t.fullList = [] := List.eq_nil_of_length_eq_zero (by rw [hlen, hit])
  rw [hnil, hit] at hfi
  have hse := h.isEmptySingleton_eq
  have hel : w.t.elems = [] := by rw [elems_eq_fullList h, hnil]; rfl
  have hW : 1 < cfg.W := by rcases hc.W_cases with hW | hW <;> omega
  have hdel : (Raw.new cfg.W).countCtrl (· == DELETED) = 0 := (Raw.new_inv hc).smallClean hW
  cases ha : w.t.alloc with
  | false =>
    rw [ha] at hse
    simp only [resizeInner, fallibleWithCapacity, if_true, hfi, resizeLoop, hse, hit,
      Nat.not_lt_zero, if_false, Bool.not_false]
    refine ⟨Raw.new_inv hc, (fun hx => by cases hx), hit.symm, hdel, Or.inl rfl, (by rw [if_pos rfl]; rfl),
      (by rw [hel]; exact List.Perm.nil), fun ev hev => Or.inl hev, ?_, ?_⟩
    · simp only [ha, Bool.false_eq_true, if_false, if_true, List.nil_append]
    · simp only [hit, Nat.add_zero, if_true]
  | true =>
    rw [ha] at hse
    simp only [resizeInner, fallibleWithCapacity, if_true, hfi, resizeLoop, hse, hit,
      freeBuckets_ok hlo ha, Nat.not_lt_zero, if_false, Bool.not_true, Bool.false_eq_true]
    refine ⟨Raw.new_inv hc, (fun hx => by cases hx), hit.symm, hdel, Or.inl rfl, (by rw [if_pos rfl]; rfl),
      (by rw [hel]; exact List.Perm.nil), ?_, ?_, ?_⟩
    · intro ev hev
      rcases List.mem_cons.mp hev with rfl | hev
      · exact Or.inr ⟨_, _, Or.inr rfl⟩
      · exact Or.inl hev
    · simp only [ha, if_true, List.nil_append, List.append_nil, List.cons_append]
    · simp only [hit, Nat.add_zero, if_true]

theorem resizeInner_pos (hc : CfgOk cfg) (hp : ProbeCovers cfg) (env : Env) (capacity : Nat)
    (fb : Fallibility) (w : World) (h : Inv cfg w.t) (hlo : w.t.LayoutOk cfg)
    (hcap : w.t.items ≤ capacity) (h0 : capacity ≠ 0) {new : Raw} {w1 : World}
    (hr : fallibleWithCapacity cfg env capacity fb w = .ok (.ok new, w1)) :
    ResizePost cfg env capacity fb w (resizeInner cfg env capacity fb w) := by
  have hfw := fallibleWithCapacity_spec hc env capacity fb w
  rw [hr] at hfw
  obtain ⟨hinv, hit, hel, _, hrest⟩ := hfw
  rw [if_neg h0] at hrest
  obtain ⟨hal, hcg, hgl, _, hctb, hao, l, hl, hw1⟩ := hrest
  have hfi := fullIndices_spec hc h
  have hlen := fullList_length hc h
  have hse := h.isEmptySingleton_eq
  have hlof := layoutOf_eq hl
  have hslots : ∀ i ∈ w.t.fullList, ∃ e, w.t.slots[i]? = some (some e) := by
    intro i hi
    obtain ⟨hib, hif⟩ := (mem_fullList _ _).1 hi
    have hall := h.allocated (h.alloc_of_full hc hib hif)
    exact (slot_of_live h (by rw [hall.2.2.2.1]; exact hib)).2 hif
  have ht : w1.t = w.t := by rw [hw1]
  have hloop := resizeLoop_spec hc hp env w.t l w.t.fullList new w1 0
    (ResizeInv.init hinv hal hit hgl) (by omega) hl hslots
  simp only [resizeInner, hr, ht, hfi]
  cases hrl : resizeLoop cfg env w.t w.t.fullList new w1 with
  | fault f => rw [hrl] at hloop; exact hloop.elim
  | abort => rw [hrl] at hloop; exact hloop.elim
  | panic c w' =>
    rw [hrl] at hloop
    obtain ⟨hcc, k, hk, hw'⟩ := hloop
    subst hw' hw1
    exact Or.inr ⟨hcc, h0, rfl, new.buckets, k, hctb, by omega, by rw [hlof], rfl⟩
  | ok pr =>
    obtain ⟨new1, w2⟩ := pr
    rw [hrl] at hloop
    obtain ⟨a1, a2, a3, a4⟩ := hloop
    rw [show 0 + w.t.fullList.length = w.t.items by omega] at a1
    rw [hel, List.append_nil, ← elems_eq_fullList h] at a4
    have hb : new1.patch.buckets = new.buckets := by
      show new1.mask + 1 = new.mask + 1
      rw [a2]
    have hge : ¬ new1.gl < w.t.items := by
      have := a1.gl; have := a1.le; omega
    have hle := a1.le
    have hfull := a1.full
    rw [a2] at hle
    subst a3 hw1
    simp only [hge, if_false, a1.finish]
    have hmain : Inv cfg new1.patch ∧ new1.patch.LayoutOk cfg ∧ new1.patch.items = w.t.items ∧
        new1.patch.countCtrl (· == DELETED) = 0 ∧
        (capacity = 0 ∨ capacity ≤ new1.patch.items + new1.patch.gl) ∧
        (if capacity = 0 then new1.patch = Raw.new cfg.W
         else new1.patch.alloc = true ∧
          capacityToBuckets cfg.bits cfg.W cfg.size capacity = some new1.patch.buckets ∧
          new1.patch.items + new1.patch.gl = bucketMaskToCapacity new1.patch.mask ∧
          env.allocOk w.ac = true) ∧
        List.Perm new1.patch.elems w.t.elems := by
      have hsum : new1.patch.items + new1.patch.gl = bucketMaskToCapacity new.mask := by
        show new1.countCtrl isFull + (bucketMaskToCapacity new1.mask - new1.countCtrl isFull) = _
        rw [a2]; omega
      refine ⟨a1.inv, fun _ => by rw [hb, hl]; rfl, hfull, a1.nodel, Or.inr (by omega), ?_, a4⟩
      rw [if_neg h0]
      exact ⟨a1.alloc, by rw [hb]; exact hctb, by rw [hsum]; show _ = bucketMaskToCapacity new1.mask; rw [a2], hao⟩
    obtain ⟨m1, m2, m3, m4, m5, m6, m7⟩ := hmain
    cases ha : w.t.alloc with
    | false =>
      rw [ha] at hse
      simp only [hse, Bool.not_false, if_true]
      refine ⟨m1, m2, m3, m4, m5, m6, m7, ?_, ?_, ?_⟩
      · intro ev hev
        rcases List.mem_cons.mp hev with rfl | hev
        · exact Or.inr ⟨_, _, Or.inl rfl⟩
        · exact Or.inl hev
      · simp only [ha, Bool.false_eq_true, if_false, h0, List.nil_append, List.cons_append, hb, hlof]
      · simp only [h0, if_false, hlen]
    | true =>
      rw [ha] at hse
      simp only [hse, Bool.not_true, Bool.false_eq_true, if_false, freeBuckets_ok hlo ha]
      refine ⟨m1, m2, m3, m4, m5, m6, m7, ?_, ?_, ?_⟩
      · intro ev hev
        rcases List.mem_cons.mp hev with rfl | hev
        · exact Or.inr ⟨_, _, Or.inr rfl⟩
        rcases List.mem_cons.mp hev with rfl | hev
        · exact Or.inr ⟨_, _, Or.inl rfl⟩
        · exact Or.inl hev
      · simp only [ha, if_true, h0, if_false, List.nil_append, List.cons_append, hb, hlof]
      · simp only [h0, if_false, hlen]

theorem resizeInner_post (hc : CfgOk cfg) (hp : ProbeCovers cfg) (env : Env) (capacity : Nat)
    (fb : Fallibility) (w : World) (h : Inv cfg w.t) (hlo : w.t.LayoutOk cfg)
    (hcap : w.t.items ≤ capacity) :
    ResizePost cfg env capacity fb w (resizeInner cfg env capacity fb w) := by
  have hfw := fallibleWithCapacity_spec hc env capacity fb w
  cases hr : fallibleWithCapacity cfg env capacity fb w with
  | panic c w' =>
    rw [hr] at hfw
    simp only [resizeInner, hr]
    exact Or.inl ⟨hfw.1, hfw.2.2.1, hfw.2.1⟩
  | abort =>
    rw [hr] at hfw
    simp only [resizeInner, hr]
    exact ⟨hfw.1, hfw.2.1⟩
  | fault f => rw [hr] at hfw; exact hfw.elim
  | ok pr =>
    obtain ⟨r, w1⟩ := pr
    cases r with
    | error e =>
      rw [hr] at hfw
      obtain ⟨a1, a2, a3, a4, a5⟩ := hfw
      simp only [resizeInner, hr]
      refine ⟨a1, a2, a3, a4, ?_⟩
      rcases a5 with a5 | ⟨b, l, hb, hl, he, ha, hw⟩
      · exact Or.inl a5
      · exact Or.inr ⟨b, hb, by rw [layoutOf_eq hl]; exact he, ha, hw⟩
    | ok new =>
      by_cases h0 : capacity = 0
      · subst h0
        exact resizeInner_zero hc env fb w h hlo (by omega)
      · exact resizeInner_pos hc hp env capacity fb w h hlo hcap h0 hr

/-- `resize_inner`. Compared with the requested statement there is ONE added hypothesis, `hlo`:
    the old table's own block layout is computable (`Raw.LayoutOk`). It is needed because
    `free_buckets` recomputes the layout of the old block and the model faults
    (`unreachable_unchecked`) if that overflows; `Inv` does not mention `cfg.size`, see
    `resizeInner_fault_without_layoutOk` below. `LayoutOk` is re-established for the new table.

    `layoutOf cfg n` is the layout `calculate_layout_for` yields for `n` buckets. -/
theorem resizeInner_spec_partial (hc : CfgOk cfg) (hp : ProbeCovers cfg) (env : Env)
    (capacity : Nat) (fb : Fallibility) (w : World) (h : Inv cfg w.t) (hlo : w.t.LayoutOk cfg)
    (hcap : w.t.items ≤ capacity) :
    match resizeInner cfg env capacity fb w with
    | .ok (.ok (), w') =>
      Inv cfg w'.t ∧ w'.t.LayoutOk cfg ∧ w'.t.items = w.t.items ∧
      w'.t.countCtrl (· == DELETED) = 0 ∧
      (capacity = 0 ∨ capacity ≤ w'.t.items + w'.t.gl) ∧
      (if capacity = 0 then w'.t = Raw.new cfg.W
       else w'.t.alloc = true ∧
        capacityToBuckets cfg.bits cfg.W cfg.size capacity = some w'.t.buckets ∧
        w'.t.items + w'.t.gl = bucketMaskToCapacity w'.t.mask ∧ env.allocOk w.ac = true) ∧
      List.Perm w'.t.elems w.t.elems ∧
      (∀ ev ∈ w'.log, ev ∈ w.log ∨ ∃ s a, ev = .alloc s a ∨ ev = .free s a) ∧
      w'.log =
        (if w.t.alloc = true then
          [Ev.free (layoutOf cfg w.t.buckets).size (layoutOf cfg w.t.buckets).align] else []) ++
        (if capacity = 0 then []
         else [Ev.alloc (layoutOf cfg w'.t.buckets).size (layoutOf cfg w'.t.buckets).align]) ++
        w.log ∧
      w' = { w with t := w'.t, hc := w.hc + w.t.items,
                    ac := w.ac + (if capacity = 0 then 0 else 1), log := w'.log }
    | .ok (.error e, w') =>
      fb = .fallible ∧ w'.t = w.t ∧ w'.log = w.log ∧ capacity ≠ 0 ∧
      ((e = .capacityOverflow ∧ w' = w) ∨
       (∃ b, capacityToBuckets cfg.bits cfg.W cfg.size capacity = some b ∧
          e = .allocError (layoutOf cfg b).size (layoutOf cfg b).align ∧
          env.allocOk w.ac = false ∧ w' = { w with ac := w.ac + 1 }))
    | .panic c w' =>
      (c = "capacity" ∧ fb = .infallible ∧ w' = w) ∨
      (c = "hash" ∧ capacity ≠ 0 ∧ w'.t = w.t ∧
        ∃ b k, capacityToBuckets cfg.bits cfg.W cfg.size capacity = some b ∧ k < w.t.items ∧
          w'.log = .free (layoutOf cfg b).size (layoutOf cfg b).align ::
                   .alloc (layoutOf cfg b).size (layoutOf cfg b).align :: w.log ∧
          w' = { w with hc := w.hc + (k + 1), ac := w.ac + 1, log := w'.log })
    | .abort => fb = .infallible ∧ env.allocOk w.ac = false
    | .fault _ => False := by
  have hpost := resizeInner_post hc hp env capacity fb w h hlo hcap
  generalize resizeInner cfg env capacity fb w = r at hpost ⊢
  match r, hpost with
  | .ok (.ok (), w'), hpost => exact hpost
  | .ok (.error e, w'), hpost => exact hpost
  | .panic c w', hpost => exact hpost
  | .abort, hpost => exact hpost
  | .fault _, hpost => exact hpost

/-! ### non-vacuity and the counterexample for the statement without `LayoutOk` -/

/-- An environment whose hasher returns the constant `hv` and whose allocator always succeeds. -/
def resizeExEnv (hv : Nat) : Env :=
  { hash := fun _ _ => some hv, eq := fun _ _ _ => some false, clone := fun _ _ => none,
    pred := fun _ _ => none, allocOk := fun _ => true, dropPanics := fun _ _ => false }

/-- 4 buckets, 3 elements (SSE2 width 16). -/
def resizeExTable : Raw :=
  { mask := 3
    ctrl := #[0x11, 0x12, 0x22, 255, 255, 255, 255, 255, 255, 255, 255, 255, 255, 255, 255, 255,
              0x11, 0x12, 0x22, 255]
    slots := #[some ⟨1, 1, 1, 1⟩, some ⟨2, 2, 2, 2⟩, some ⟨3, 3, 3, 3⟩, none]
    items := 3, gl := 0, alloc := true }

/-- Growing the 4-bucket table with 3 elements to capacity 4: success, 8 buckets, 3 items,
    `growth_left = 7 - 3`, the executable invariant holds, the contents are unchanged, one `alloc`
    of the new block (8*8 + 8 + 16 = 88 bytes, align 16) followed by one `free` of the old block
    (4*8 + 4 + 16 = 52 bytes), three hasher calls, one allocator call. -/
example :
    (match resizeInner { ops := Sse2.ops } (resizeExEnv (5 * 2 ^ 57)) 4 .infallible { t := resizeExTable } with
     | .ok (.ok (), w') =>
       w'.t.buckets == 8 && w'.t.items == 3 && w'.t.gl == 4 && invB { ops := Sse2.ops } w'.t &&
       w'.t.elems == [⟨1, 1, 1, 1⟩, ⟨2, 2, 2, 2⟩, ⟨3, 3, 3, 3⟩] &&
       w'.log == [.free 52 16, .alloc 88 16] && w'.hc == 3 && w'.ac == 1
     | _ => false) = true := by
  rfl

/-- The old table satisfies the executable invariant. -/
example : invB { ops := Sse2.ops } resizeExTable = true := by decide

/-- Without `LayoutOk` the statement "never `.fault`" is false: `Inv` does not constrain
    `cfg.size`, and `free_buckets` of the old block faults when its layout overflows. -/
def resizeCexCfg : Cfg := { ops := Sse2.ops, size := 2 ^ 64 }

def resizeCexTable : Raw :=
  { mask := 3, ctrl := Array.replicate 20 EMPTY, slots := Array.replicate 4 none,
    items := 0, gl := 3, alloc := true }

theorem resizeInner_fault_without_layoutOk :
    invB resizeCexCfg resizeCexTable = true ∧
    (match resizeInner resizeCexCfg (resizeExEnv 0) 0 .infallible { t := resizeCexTable } with
     | .fault _ => true
     | _ => false) = true := ⟨by decide, by rfl⟩

#print axioms fallibleWithCapacity_spec
#print axioms resizeLoop_spec
#print axioms resizeInner_post
#print axioms resizeInner_spec_partial
#print axioms resizeInner_fault_without_layoutOk

end Hb
