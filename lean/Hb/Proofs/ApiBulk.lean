/-
Bulk operations of the `HashMap` model: `clear` / drop, `retain`, `extract_if`, `drain`, `into_iter`,
`clone`, `clone_from`, `==` (`Hb/Model/Raw.lean`: `dropElements`, `clear`, `dropInnerTable`;
`Hb/Model/Api.lean`: `Map.retain`, `Map.extractIf`, `Map.drain`, `Map.intoIter`, `Map.cloneTable`,
`Map.cloneFrom`, `Map.mapEq`).

They preserve the structural invariant and account for every element exactly once, for EVERY
environment (arbitrary predicate answers, panicking predicate / `Clone` / `Drop`, any hasher).

Vocabulary
* `TInvB cfg t`      : `Inv cfg t ∧ t.LayoutOk cfg` (same as `TInv` of `ApiGrow.lean`).
* `ab_slot t i`      : the element stored in slot `i`, if any; `ab_elem t i` its `getD default`.
* `t.elems = t.fullList.map (ab_elem t)` under `Inv` (`ab_elems_map`).
* `dropEvs cfg ds`   : (from `Rehash.lean`) the log entries of dropping `ds`, LAST DROPPED FIRST. Hence
                       dropping `l` front to back prepends `dropEvs cfg l.reverse` to the log.
* `DropsRel cfg w w' ds` : `w'` differs from `w` (apart from the table) only by the destructor calls
                       for `ds` (newest first): counters `hc ec cc pc ac` equal, `dc` advanced,
                       `log = dropEvs cfg ds ++ w.log`.
* `ClearedOn t t' L` / `FilledOn t t' L` : same control bytes and counters, slots in `L` emptied / filled.
* `Raw.cleared t`    : the table `clear_no_drop` leaves; `EmptiedOf cfg t t'` its properties.
* `retainKept` / `retainDropped env pc l` : elements answered `(true, nv)` / `(false, nv)` by predicate
                       calls `pc, pc+1, …` (payload `nv`); `cloneList env cc l` : position-wise clones.

Main theorems (all "never `.fault`"; `#print axioms` at the end)
  1 `dropElements_spec`   2 `clear_spec` (+ `clear_keeps_tombstones`)   3 `dropInnerTable_spec`
  4 `iterOk_erase_not_pending`, `erase_yielded`, `erase_behind_iterator`, `retain_spec`, `retain_accounting`
  5 `extractIf_spec`      6 `drain_spec`      7 `intoIter_spec`
  8 `cloneTable_spec`, `cloneFrom_spec`       9 `mapEq_spec`      10 examples by `rfl`/`decide`.

Deviations from the requested statements (all forced by the model, i.e. by hashbrown's behaviour)
* `clear`: `items + growth_left = capacity` afterwards holds only when `items ≠ 0` on entry: an empty
  table is returned untouched, tombstones included (`clear_keeps_tombstones`).
* `clone` / `clone_from` can also end in `.abort` (the allocator refuses the new block).
* `==` can propagate a panic of the hasher or of `Eq` (`.panic "hash"` / `.panic "eq"`).
-/
import Hb.Proofs.Rehash
import Hb.Proofs.Resize
import Hb.Proofs.FindSpec
import Hb.Proofs.IterSpec
namespace Hb

variable {cfg : Cfg} {t : Raw}

/-- Structural invariant plus computable layout of the block (same definition as `TInv`). -/
def TInvB (cfg : Cfg) (t : Raw) : Prop := Inv cfg t ∧ t.LayoutOk cfg

/-! ### slots -/

/-- The element stored in slot `i`, if any. -/
def ab_slot (t : Raw) (i : Nat) : Option Elem := t.slots[i]?.join

/-- The element stored in slot `i` (a dummy if there is none). -/
def ab_elem (t : Raw) (i : Nat) : Elem := (ab_slot t i).getD default

theorem ab_slot_eq {t : Raw} {i : Nat} {e : Elem} (h : ab_slot t i = some e) :
    t.slots[i]? = some (some e) := by
  unfold ab_slot at h
  cases hx : t.slots[i]? with
  | none => rw [hx] at h; cases h
  | some o => rw [hx] at h; simp only [Option.join_some] at h; rw [h]

theorem ab_slot_of_eq {t : Raw} {i : Nat} {o : Option Elem} (h : t.slots[i]? = some o) :
    ab_slot t i = o := by
  simp only [ab_slot, h, Option.join_some]

theorem ab_slot_lt {t : Raw} {i : Nat} {e : Elem} (h : ab_slot t i = some e) : i < t.slots.size := by
  have := ab_slot_eq h
  by_contra hn
  rw [Array.getElem?_eq_none (by omega)] at this
  cases this

theorem ab_slot_none_of_ge {t : Raw} {i : Nat} (h : t.slots.size ≤ i) : ab_slot t i = none := by
  simp only [ab_slot, Array.getElem?_eq_none h, Option.join_none]

theorem ab_elem_of {t : Raw} {i : Nat} {e : Elem} (h : ab_slot t i = some e) : ab_elem t i = e := by
  simp only [ab_elem, h, Option.getD_some]

theorem ab_slotGet {t : Raw} {i : Nat} {e : Elem} (h : ab_slot t i = some e) : slotGet t i = .ok e := by
  simp only [slotGet, ab_slot_eq h]

theorem ab_slotTake {t : Raw} {i : Nat} {e : Elem} (h : ab_slot t i = some e) :
    slotTake t i = .ok (e, { t with slots := t.slots.setIfInBounds i none }) := by
  simp only [slotTake, ab_slot_eq h]

theorem ab_slot_set (s : Array (Option Elem)) (t : Raw) (i j : Nat) (x : Option Elem)
    (hs : t.slots = s.setIfInBounds i x) :
    ab_slot t j = if i = j ∧ i < s.size then x else s[j]?.join := by
  simp only [ab_slot, hs, Array.getElem?_setIfInBounds]
  by_cases h1 : i = j
  · by_cases h2 : i < s.size
    · subst h1; simp [h2]
    · subst h1
      simp [h2]
  · simp [h1]

/-! ### `elems` through the full-bucket list -/

theorem ab_map_getElem?_range {α} (l : List α) :
    (List.range l.length).map (fun i => l[i]?) = l.map some := by
  apply List.ext_getElem?
  intro k
  by_cases hk : k < l.length
  · simp [hk]
  · simp [hk]

theorem ab_filterMap_id_range {α} (l : List (Option α)) :
    l.filterMap id = (List.range l.length).filterMap (fun i => l[i]?.join) := by
  have : (fun i : Nat => l[i]?.join) = Option.join ∘ (fun i : Nat => l[i]?) := rfl
  rw [this, ← List.filterMap_map, ab_map_getElem?_range, List.filterMap_map]
  congr 1

theorem ab_elems_range (t : Raw) : t.elems = (List.range t.slots.size).filterMap (ab_slot t) := by
  rw [Raw.elems, ab_filterMap_id_range]
  simp only [Array.length_toList, Array.getElem?_toList]
  rfl

/-- The stored elements read through the full-bucket list; needs only that dead buckets hold
    nothing (so it also applies to tables whose slots were partially taken or partially filled). -/
theorem ab_elems_of (t : Raw) (hsz : t.slots.size ≤ t.buckets)
    (hdead : ∀ i, i < t.buckets → isFull (t.ctrlAt i) = false → ab_slot t i = none) :
    t.elems = t.fullList.filterMap (ab_slot t) := by
  rw [ab_elems_range, Raw.fullList, List.filterMap_filter]
  have hsplit : List.range t.buckets =
      List.range t.slots.size ++ List.range' t.slots.size (t.buckets - t.slots.size) := by
    have e : t.buckets = t.slots.size + (t.buckets - t.slots.size) := by omega
    rw [List.range_eq_range', List.range_eq_range']
    conv => lhs; rw [e]
    rw [← List.range'_append_1]; simp
  have hcongr : (List.range t.buckets).filterMap
        (fun i => if isFull (t.ctrlAt i) = true then ab_slot t i else none) =
      (List.range t.buckets).filterMap (ab_slot t) := by
    apply List.filterMap_congr
    intro i hi
    cases hf : isFull (t.ctrlAt i) with
    | true => simp
    | false => simp [hdead i (List.mem_range.mp hi) hf]
  rw [hcongr, hsplit, List.filterMap_append]
  have hnil : (List.range' t.slots.size (t.buckets - t.slots.size)).filterMap (ab_slot t) = [] := by
    rw [List.filterMap_eq_nil_iff]
    intro i hi
    simp only [List.mem_range'_1] at hi
    exact ab_slot_none_of_ge hi.1
  rw [hnil, List.append_nil]

theorem ab_filterMap_eq_map {α β} (f : α → Option β) (g : α → β) (l : List α)
    (h : ∀ x ∈ l, f x = some (g x)) : l.filterMap f = l.map g := by
  rw [← List.filterMap_eq_map]
  exact List.filterMap_congr h

theorem Inv.ab_slots_le (h : Inv cfg t) : t.slots.size ≤ t.buckets := by
  rcases h.geom with hs | ha
  · rw [hs.2.2.2.1]; simp
  · rw [ha.2.2.2.1]

theorem Inv.ab_dead (h : Inv cfg t) {i : Nat} (hf : isFull (t.ctrlAt i) = false) :
    ab_slot t i = none := by
  by_cases hi : i < t.slots.size
  · have := (slot_of_live h hi).1 hf
    exact ab_slot_of_eq this
  · exact ab_slot_none_of_ge (by omega)

theorem Inv.ab_full (hc : CfgOk cfg) (h : Inv cfg t) {i : Nat} (hi : i ∈ t.fullList) :
    ab_slot t i = some (ab_elem t i) := by
  obtain ⟨hib, hif⟩ := (mem_fullList _ _).1 hi
  have hall := h.allocated (h.alloc_of_full hc hib hif)
  obtain ⟨e, he⟩ := (slot_of_live h (by rw [hall.2.2.2.1]; exact hib)).2 hif
  have := ab_slot_of_eq he
  rw [this, ab_elem_of this]

/-- Under `Inv`, the abstract contents are the payloads of the full buckets, in bucket order. -/
theorem ab_elems_map (hc : CfgOk cfg) (h : Inv cfg t) : t.elems = t.fullList.map (ab_elem t) := by
  rw [ab_elems_of t h.ab_slots_le (fun i _ hf => h.ab_dead hf)]
  exact ab_filterMap_eq_map _ _ _ (fun i hi => h.ab_full hc hi)

theorem ab_elems_length (hc : CfgOk cfg) (h : Inv cfg t) : t.elems.length = t.items := by
  rw [ab_elems_map hc h, List.length_map, fullList_length hc h]

/-! ### destructor bookkeeping -/

/-- `w'` differs from `w`, apart from the table, only by the destructor calls for the elements `ds`
    (listed newest first, as in `dropEvs`). -/
def DropsRel (cfg : Cfg) (w w' : World) (ds : List Elem) : Prop :=
  w'.hc = w.hc ∧ w'.ec = w.ec ∧ w'.cc = w.cc ∧ w'.pc = w.pc ∧ w'.ac = w.ac ∧
  w'.dc = w.dc + (if cfg.needsDrop then ds.length else 0) ∧ w'.log = dropEvs cfg ds ++ w.log

theorem DropsRel.log {w w' : World} {ds : List Elem} (h : DropsRel cfg w w' ds) :
    w'.log = dropEvs cfg ds ++ w.log := h.2.2.2.2.2.2

theorem DropsRel.dc {w w' : World} {ds : List Elem} (h : DropsRel cfg w w' ds) :
    w'.dc = w.dc + (if cfg.needsDrop then ds.length else 0) := h.2.2.2.2.2.1

theorem DropsRel.refl (w : World) (t : Raw) : DropsRel cfg w { w with t := t } [] := by
  refine ⟨rfl, rfl, rfl, rfl, rfl, ?_, ?_⟩
  · simp
  · rw [dropEvs_nil]; rfl

theorem DropsRel.trans {a b c : World} {d1 d2 : List Elem} (h1 : DropsRel cfg a b d1)
    (h2 : DropsRel cfg b c d2) : DropsRel cfg a c (d2 ++ d1) := by
  obtain ⟨a1, a2, a3, a4, a5, a6, a7⟩ := h1
  obtain ⟨b1, b2, b3, b4, b5, b6, b7⟩ := h2
  refine ⟨b1.trans a1, b2.trans a2, b3.trans a3, b4.trans a4, b5.trans a5, ?_, ?_⟩
  · rw [b6, a6, List.length_append]; split <;> omega
  · rw [b7, a7, dropEvs_append, List.append_assoc]

theorem DropsRel.set_t {w w' : World} {ds : List Elem} (h : DropsRel cfg w w' ds) (t : Raw) :
    DropsRel cfg w { w' with t := t } ds := h

theorem DropsRel.of_set_t {w w' : World} {ds : List Elem} (t : Raw)
    (h : DropsRel cfg { w with t := t } w' ds) : DropsRel cfg w w' ds := h

/-- One destructor call. -/
theorem ab_dropElem (env : Env) (e : Elem) (w : World) :
    (dropElem cfg env e w).2.t = w.t ∧ DropsRel cfg w (dropElem cfg env e w).2 [e] ∧
    (dropElem cfg env e w).1 = (cfg.needsDrop && env.dropPanics w.dc e) := by
  unfold dropElem DropsRel dropEvs
  cases cfg.needsDrop <;> simp

/-! ### tables with some slots taken -/

/-- `t'` is `t` with the slots in `L` emptied (control bytes and counters untouched). -/
structure ClearedOn (t t' : Raw) (L : List Nat) : Prop where
  mask : t'.mask = t.mask
  ctrl : t'.ctrl = t.ctrl
  items : t'.items = t.items
  gl : t'.gl = t.gl
  alloc : t'.alloc = t.alloc
  size : t'.slots.size = t.slots.size
  slot : ∀ j, ab_slot t' j = if j ∈ L then none else ab_slot t j

theorem ClearedOn.refl (t : Raw) : ClearedOn t t [] :=
  ⟨rfl, rfl, rfl, rfl, rfl, rfl, fun j => by simp⟩

theorem ClearedOn.trans {a b c : Raw} {L1 L2 : List Nat} (h1 : ClearedOn a b L1)
    (h2 : ClearedOn b c L2) : ClearedOn a c (L1 ++ L2) := by
  refine ⟨h2.mask.trans h1.mask, h2.ctrl.trans h1.ctrl, h2.items.trans h1.items, h2.gl.trans h1.gl,
    h2.alloc.trans h1.alloc, h2.size.trans h1.size, ?_⟩
  intro j
  rw [h2.slot, h1.slot]
  by_cases m1 : j ∈ L1 <;> by_cases m2 : j ∈ L2 <;> simp [m1, m2]

theorem ClearedOn.take {t : Raw} {i : Nat} {e : Elem} (h : ab_slot t i = some e) :
    ClearedOn t { t with slots := t.slots.setIfInBounds i none } [i] := by
  refine ⟨rfl, rfl, rfl, rfl, rfl, by simp, ?_⟩
  intro j
  rw [ab_slot_set t.slots _ i j none rfl]
  have := ab_slot_lt h
  by_cases hij : i = j
  · subst hij; simp [this]
  · have : ¬ j = i := fun h => hij h.symm
    simp [hij, this, ab_slot]

theorem ClearedOn.buckets {t t' : Raw} {L : List Nat} (h : ClearedOn t t' L) :
    t'.buckets = t.buckets := by simp only [Raw.buckets, h.mask]

theorem ab_fullFrom_congr {t t' : Raw} (hm : t'.mask = t.mask) (hct : t'.ctrl = t.ctrl) (a : Nat) :
    t'.fullFrom a = t.fullFrom a := by
  simp only [Raw.fullFrom, Raw.buckets, Raw.ctrlAt, hm, hct]

theorem ab_fullList_congr {t t' : Raw} (hm : t'.mask = t.mask) (hct : t'.ctrl = t.ctrl) :
    t'.fullList = t.fullList := by
  simp only [Raw.fullList, Raw.buckets, Raw.ctrlAt, hm, hct]

theorem ab_ctrlAt_congr {t t' : Raw} (hct : t'.ctrl = t.ctrl) (j : Nat) : t'.ctrlAt j = t.ctrlAt j := by
  simp only [Raw.ctrlAt, hct]

theorem ab_nodup_fullList (t : Raw) : t.fullList.Nodup :=
  (fullList_sorted t).imp (fun h => Nat.ne_of_lt h)

/-- The stored elements of a table some of whose (full) slots were taken. -/
theorem ab_elems_cleared (hc : CfgOk cfg) (h : Inv cfg t) {t' : Raw} {pre post : List Nat}
    (hcl : ClearedOn t t' pre) (hfl : t.fullList = pre ++ post) :
    t'.elems = post.map (ab_elem t) := by
  have hnd := ab_nodup_fullList t
  rw [hfl] at hnd
  have hdisj := (List.nodup_append.mp hnd).2.2
  rw [ab_elems_of t' (by rw [hcl.size, hcl.buckets]; exact h.ab_slots_le), ab_fullList_congr hcl.mask hcl.ctrl,
    hfl, List.filterMap_append]
  · have h1 : pre.filterMap (ab_slot t') = [] := by
      rw [List.filterMap_eq_nil_iff]
      intro i hi
      rw [hcl.slot, if_pos hi]
    rw [h1, List.nil_append]
    apply ab_filterMap_eq_map
    intro i hi
    have hnot : i ∉ pre := fun hp => hdisj i hp i hi rfl
    rw [hcl.slot, if_neg hnot]
    exact h.ab_full hc (by rw [hfl]; exact List.mem_append_right _ hi)
  · intro i _ hf
    rw [ab_ctrlAt_congr hcl.ctrl] at hf
    rw [hcl.slot]
    split
    · rfl
    · exact h.ab_dead hf

theorem ab_slots_none_of {t : Raw} (h : ∀ j, ab_slot t j = none) :
    ∀ i, i < t.slots.size → t.slots[i]? = some none := by
  intro i hi
  have := h i
  unfold ab_slot at this
  rw [Array.getElem?_eq_getElem hi] at this ⊢
  simp only [Option.join_some] at this
  rw [this]

/-! ### 1. `drop_elements` -/

theorem dropElementsLoop_spec (env : Env) :
    ∀ (idxs : List Nat) (w : World), idxs.Nodup → (∀ i ∈ idxs, ∃ e, ab_slot w.t i = some e) →
      ∃ p w' pre post, dropElementsLoop cfg env idxs w = .ok (p, w') ∧ idxs = pre ++ post ∧
        ClearedOn w.t w'.t pre ∧ DropsRel cfg w w' (pre.map (ab_elem w.t)).reverse ∧
        (p = false → post = []) ∧
        (p = true → cfg.needsDrop = true ∧ ∃ pre' i, pre = pre' ++ [i] ∧
          env.dropPanics (w.dc + pre'.length) (ab_elem w.t i) = true) := by
  intro idxs
  induction idxs with
  | nil =>
    intro w _ _
    exact ⟨false, w, [], [], rfl, rfl, ClearedOn.refl _, DropsRel.refl w w.t, fun _ => rfl,
      fun h => by cases h⟩
  | cons i rest ih =>
    intro w hnd hsl
    obtain ⟨e, he⟩ := hsl i List.mem_cons_self
    have hei := ab_elem_of he
    obtain ⟨d1, d2, d3⟩ := ab_dropElem (cfg := cfg) env e { w with t := { w.t with slots := w.t.slots.setIfInBounds i none } }
    have hcl1 := ClearedOn.take he
    rw [dropElementsLoop, ab_slotTake he]
    simp only
    generalize hde : dropElem cfg env e { w with t := { w.t with slots := w.t.slots.setIfInBounds i none } } = r at d1 d2 d3
    obtain ⟨p, w1⟩ := r
    simp only at d1 d2 d3 ⊢
    have hd2 : DropsRel cfg w w1 [e] := d2
    cases p with
    | true =>
      simp only [if_true]
      refine ⟨true, w1, [i], rest, rfl, rfl, by rw [d1]; exact hcl1, by simpa [hei] using hd2,
        (fun h => by cases h), fun _ => ?_⟩
      have : cfg.needsDrop = true ∧ env.dropPanics w.dc e = true := by
        simpa using d3.symm
      exact ⟨this.1, [], i, rfl, by simpa [hei] using this.2⟩
    | false =>
      simp only [Bool.false_eq_true, if_false]
      have hnd' := (List.nodup_cons.mp hnd)
      have hsl' : ∀ j ∈ rest, ∃ e, ab_slot w1.t j = some e := by
        intro j hj
        have hne : j ≠ i := fun h => hnd'.1 (h ▸ hj)
        rw [d1]
        obtain ⟨e', he'⟩ := hsl j (List.mem_cons_of_mem _ hj)
        refine ⟨e', ?_⟩
        rw [hcl1.slot, if_neg (by simpa using hne)]
        exact he'
      obtain ⟨p, w', pre, post, h1, h2, h3, h4, h5, h6⟩ := ih w1 hnd'.2 hsl'
      have hpre : ∀ j ∈ pre, ab_elem w1.t j = ab_elem w.t j := by
        intro j hj
        have hjr : j ∈ rest := by rw [h2]; exact List.mem_append_left _ hj
        have hne : j ≠ i := fun h => hnd'.1 (h ▸ hjr)
        unfold ab_elem
        rw [d1, hcl1.slot, if_neg (by simpa using hne)]
      have hmap : pre.map (ab_elem w1.t) = pre.map (ab_elem w.t) := List.map_congr_left hpre
      refine ⟨p, w', i :: pre, post, h1, by rw [h2]; rfl, ?_, ?_, h5, ?_⟩
      · have := hcl1.trans (by rw [d1] at h3; exact h3)
        simpa using this
      · have := hd2.trans h4
        rw [hmap] at this
        simpa [hei] using this
      · intro hp
        obtain ⟨hn, pre', k, hk1, hk2⟩ := h6 hp
        refine ⟨hn, i :: pre', k, by rw [hk1]; rfl, ?_⟩
        have hkp : k ∈ pre := by rw [hk1]; simp
        rw [← hpre k hkp]
        have := hd2.dc
        rw [hn] at this
        simp only [if_true, List.length_singleton] at this
        rw [this] at hk2
        rw [List.length_cons]
        rw [show w.dc + (pre'.length + 1) = w.dc + 1 + pre'.length by omega]
        exact hk2

theorem ab_elems_replicate (t : Raw) (n : Nat) (hs : t.slots = Array.replicate n none) : t.elems = [] := by
  rw [ab_elems_range, List.filterMap_eq_nil_iff]
  intro i _
  simp only [ab_slot, hs, Array.getElem?_replicate]
  split <;> rfl

/-- **1.** `drop_elements` never faults. It drops a prefix `ds` of the elements, in bucket order, each
    exactly once (`DropsRel … ds.reverse`: the log gains `dropEvs cfg ds.reverse`, nothing else
    changes), empties their slots and leaves control bytes and counters alone. Without a panicking
    destructor (`p = false`) the prefix is everything and all slots are empty; otherwise
    (`p = true`) the last element of `ds` is the one whose destructor panicked and the elements of
    `rest` are still in their slots. -/
theorem dropElements_spec (hc : CfgOk cfg) (env : Env) (w : World) (h : Inv cfg w.t) :
    ∃ p w' ds rest, dropElements cfg env w = .ok (p, w') ∧
      w'.t.mask = w.t.mask ∧ w'.t.ctrl = w.t.ctrl ∧ w'.t.items = w.t.items ∧ w'.t.gl = w.t.gl ∧
      w'.t.alloc = w.t.alloc ∧ w'.t.slots.size = w.t.slots.size ∧
      w.t.elems = ds ++ rest ∧ w'.t.elems = rest ∧ DropsRel cfg w w' ds.reverse ∧
      (p = false → rest = [] ∧ ∀ i, i < w'.t.slots.size → w'.t.slots[i]? = some none) ∧
      (p = true → cfg.needsDrop = true ∧ ∃ ds' e, ds = ds' ++ [e] ∧
        env.dropPanics (w.dc + ds'.length) e = true) := by
  by_cases hcond : cfg.needsDrop = true ∧ w.t.items ≠ 0
  · have hsl : ∀ i ∈ w.t.fullList, ∃ e, ab_slot w.t i = some e :=
      fun i hi => ⟨_, h.ab_full hc hi⟩
    obtain ⟨p, w', pre, post, h1, h2, h3, h4, h5, h6⟩ :=
      dropElementsLoop_spec (cfg := cfg) env w.t.fullList w (ab_nodup_fullList _) hsl
    refine ⟨p, w', pre.map (ab_elem w.t), post.map (ab_elem w.t), ?_, h3.mask, h3.ctrl, h3.items, h3.gl,
      h3.alloc, h3.size, ?_, ab_elems_cleared hc h h3 h2, h4, ?_, ?_⟩
    · simp only [dropElements, if_pos hcond, fullIndices_spec hc h, h1]
    · rw [ab_elems_map hc h, h2, List.map_append]
    · intro hp
      have hpost := h5 hp
      refine ⟨by rw [hpost]; rfl, ab_slots_none_of ?_⟩
      intro j
      rw [h3.slot]
      split
      · rfl
      · rename_i hj
        rw [hpost, List.append_nil] at h2
        rw [← h2, mem_fullList] at hj
        cases hf : isFull (w.t.ctrlAt j) with
        | false => exact h.ab_dead hf
        | true =>
          have : ¬ j < w.t.buckets := fun hlt => hj ⟨hlt, hf⟩
          exact ab_slot_none_of_ge (by have := h.ab_slots_le; omega)
    · intro hp
      obtain ⟨hn, pre', i, hk1, hk2⟩ := h6 hp
      refine ⟨hn, pre'.map (ab_elem w.t), ab_elem w.t i, by rw [hk1]; simp, ?_⟩
      rw [List.length_map]; exact hk2
  · have hel : cfg.needsDrop = false ∨ w.t.elems = [] := by
      cases hn : cfg.needsDrop with
      | false => exact Or.inl rfl
      | true =>
        right
        have : w.t.items = 0 := by
          by_contra h0; exact hcond ⟨hn, h0⟩
        exact List.eq_nil_of_length_eq_zero (by rw [ab_elems_length hc h, this])
    refine ⟨false, { w with t := { w.t with slots := Array.replicate w.t.slots.size none } }, w.t.elems, [],
      ?_, rfl, rfl, rfl, rfl, rfl, by simp, by simp, ab_elems_replicate _ _ rfl, ?_, ?_, fun hp => by cases hp⟩
    · simp only [dropElements, if_neg hcond]
    · refine ⟨rfl, rfl, rfl, rfl, rfl, ?_, ?_⟩
      · rcases hel with hn | he
        · simp [hn]
        · simp [he]
      · rcases hel with hn | he
        · simp [dropEvs, hn]
        · rw [he]; simp [dropEvs_nil]
    · intro _
      refine ⟨rfl, ?_⟩
      intro i hi
      simp only [Array.size_replicate] at hi
      simp [hi]

/-! ### 2. `clear` -/

theorem ab_clearNoDrop_congr {t t' : Raw} (hm : t'.mask = t.mask) (hct : t'.ctrl = t.ctrl)
    (hal : t'.alloc = t.alloc) (hsz : t'.slots.size = t.slots.size) :
    clearNoDrop { t' with slots := Array.replicate t'.slots.size none } =
      clearNoDrop { t with slots := Array.replicate t.slots.size none } := by
  cases t; cases t'
  simp only at hm hct hal hsz
  simp only [clearNoDrop, Raw.isEmptySingleton, hm, hct, hal, hsz]
  rfl

/-- The table `clear_no_drop` leaves behind. -/
def Raw.cleared (t : Raw) : Raw := clearNoDrop { t with slots := Array.replicate t.slots.size none }

/-- The emptied table: same block, no elements, every control byte EMPTY, full `growth_left`. -/
theorem ab_cleared_facts (hc : CfgOk cfg) (h : TInvB cfg t) :
    TInvB cfg t.cleared ∧ t.cleared.items = 0 ∧ t.cleared.elems = [] ∧ t.cleared.mask = t.mask ∧
    t.cleared.alloc = t.alloc ∧ t.cleared.gl = bucketMaskToCapacity t.mask ∧
    t.cleared.items + t.cleared.gl = bucketMaskToCapacity t.mask ∧
    (∀ j, j < t.cleared.ctrl.size → t.cleared.ctrlAt j = EMPTY) := by
  have hinv := clearNoDrop_inv hc h.1
  refine ⟨⟨hinv, h.2.of_eq rfl rfl⟩, rfl, ab_elems_replicate _ _ rfl, rfl, rfl, rfl, by simp [Raw.cleared, clearNoDrop], ?_⟩
  intro j hj
  rcases h.1.geom with hs | ha
  · have : t.cleared.ctrl = Array.replicate cfg.W EMPTY := by
      simp only [Raw.cleared, clearNoDrop, Raw.isEmptySingleton, hs.2.1, hs.2.2.1]
      rfl
    rw [this, Array.size_replicate] at hj
    exact ctrlAt_replicate this hj
  · obtain ⟨k, hk, _, hm⟩ := IsAllocated.mask_eq ha
    have h4 : 2 ^ 2 ≤ 2 ^ k := Nat.pow_le_pow_right (by decide) hk
    have hne : (t.mask == 0) = false := by simp only [beq_eq_false_iff_ne, ne_eq]; omega
    have : t.cleared.ctrl = Array.replicate t.ctrl.size EMPTY := by
      simp only [Raw.cleared, clearNoDrop, Raw.isEmptySingleton, hne]
      rfl
    rw [this, Array.size_replicate] at hj
    exact ctrlAt_replicate this hj

/-- What `clear` guarantees on every exit. With `items = 0` on entry nothing is touched (in
    particular tombstones stay, see `clear_keeps_tombstones`); otherwise the table is `t.cleared`. -/
def ClearPost (cfg : Cfg) (w w' : World) : Prop :=
  TInvB cfg w'.t ∧ w'.t.items = 0 ∧ w'.t.elems = [] ∧ w'.t.mask = w.t.mask ∧ w'.t.alloc = w.t.alloc ∧
  (w.t.items = 0 → w'.t = w.t) ∧
  (w.t.items ≠ 0 → w'.t = w.t.cleared ∧ w'.t.items + w'.t.gl = bucketMaskToCapacity w.t.mask)

/-- **2.** `clear` never faults; on both exits (`.ok`, or `.panic "drop"` when a destructor panicked)
    the table is a valid empty table on the same allocation; every element is dropped at most once
    (a prefix `ds` in bucket order), all of them on `.ok`. -/
theorem clear_spec (hc : CfgOk cfg) (env : Env) (w : World) (h : TInvB cfg w.t) :
    match clear cfg env w with
    | .ok w' => ClearPost cfg w w' ∧ DropsRel cfg w w' w.t.elems.reverse
    | .panic c w' => c = "drop" ∧ ClearPost cfg w w' ∧ cfg.needsDrop = true ∧
        ∃ ds e rest, w.t.elems = ds ++ e :: rest ∧ DropsRel cfg w w' (ds ++ [e]).reverse ∧
          env.dropPanics (w.dc + ds.length) e = true
    | .abort => False
    | .fault _ => False := by
  by_cases h0 : w.t.items = 0
  · have hel : w.t.elems = [] := List.eq_nil_of_length_eq_zero (by rw [ab_elems_length hc h.1, h0])
    simp only [clear, if_pos h0]
    refine ⟨⟨h, h0, hel, rfl, rfl, fun _ => rfl, fun hn => absurd h0 hn⟩, ?_⟩
    rw [hel]
    exact DropsRel.refl w w.t
  · obtain ⟨p, w1, ds, rest, h1, a1, a2, a3, a4, a5, a6, a7, a8, a9, a10, a11⟩ :=
      dropElements_spec hc env w h.1
    have hcl := ab_clearNoDrop_congr a1 a2 a5 a6
    obtain ⟨c1, c2, c3, c4, c5, _, c7, _⟩ := ab_cleared_facts hc h
    have hpost : ∀ w2 : World, w2.t = w.t.cleared → ClearPost cfg w w2 := by
      intro w2 ht
      rw [ClearPost, ht]
      exact ⟨c1, c2, c3, c4, c5, fun hn => absurd hn h0, fun _ => ⟨rfl, c7⟩⟩
    simp only [clear, if_neg h0, h1, hcl]
    cases p with
    | false =>
      simp only [Bool.false_eq_true, if_false]
      refine ⟨hpost _ rfl, ?_⟩
      rw [a7, (a10 rfl).1, List.append_nil]
      exact a9
    | true =>
      simp only [if_true]
      obtain ⟨hn, ds', e, hds, hpan⟩ := a11 rfl
      refine ⟨(by first | rfl | trivial), hpost _ rfl, hn, ds', e, rest, by rw [a7, hds]; simp, ?_, hpan⟩
      rw [← hds]; exact a9

/-- **3.** Dropping a detached table `old`: on `.ok` the collection's own table is untouched, every
    element of `old` was dropped exactly once (bucket order) and the block is freed exactly once,
    with `old`'s own layout, iff `old` was allocated. On `.panic "drop"` a destructor panicked after a
    prefix was dropped; the block is NOT freed (the log only gained the drops). -/
theorem dropInnerTable_spec (hc : CfgOk cfg) (env : Env) (old : Raw) (w : World)
    (h : TInvB cfg old) :
    match dropInnerTable cfg env old w with
    | .ok w' => w'.t = w.t ∧
        w'.log = (if old.alloc = true then
            [Ev.free (layoutOf cfg old.buckets).size (layoutOf cfg old.buckets).align] else []) ++
          dropEvs cfg old.elems.reverse ++ w.log ∧
        ∃ w1, DropsRel cfg w w1 old.elems.reverse ∧ w' = { w1 with t := w.t, log := w'.log }
    | .panic c w' => c = "drop" ∧ w'.t = w.t ∧ cfg.needsDrop = true ∧ old.alloc = true ∧
        ∃ ds e rest, old.elems = ds ++ e :: rest ∧ DropsRel cfg w w' (ds ++ [e]).reverse ∧
          env.dropPanics (w.dc + ds.length) e = true
    | .abort => False
    | .fault _ => False := by
  have hse := h.1.isEmptySingleton_eq
  cases hal : old.alloc with
  | false =>
    rw [hal] at hse
    have hit : old.items = 0 := by
      rcases h.1.geom with hs | ha
      · exact hs.2.2.2.2.1
      · rw [ha.1] at hal; cases hal
    have hel : old.elems = [] := List.eq_nil_of_length_eq_zero (by rw [ab_elems_length hc h.1, hit])
    simp only [dropInnerTable, hse, Bool.not_false, if_true, hel]
    refine ⟨(by first | rfl | trivial), by simp [dropEvs_nil], w, DropsRel.refl w w.t, rfl⟩
  | true =>
    rw [hal] at hse
    obtain ⟨p, w1, ds, rest, h1, a1, a2, a3, a4, a5, a6, a7, a8, a9, a10, a11⟩ :=
      dropElements_spec hc env { w with t := old } h.1
    simp only [dropInnerTable, hse, Bool.not_true, Bool.false_eq_true, if_false, h1]
    cases p with
    | false =>
      simp only [Bool.false_eq_true, if_false]
      have hds : ds = old.elems := by
        have := (a10 rfl).1
        rw [this, List.append_nil] at a7
        exact a7.symm
      rw [hds] at a9
      have hfb := freeBuckets_ok h.2 hal { w1 with t := w.t }
      rw [hfb]
      simp only [if_true]
      refine ⟨(by first | rfl | trivial), ?_, w1, a9, ?_⟩
      · rw [a9.log]; simp
      · rfl
    | true =>
      simp only [if_true]
      obtain ⟨hn, ds', e, hds, hpan⟩ := a11 rfl
      have a7' : old.elems = ds ++ rest := a7
      refine ⟨(by first | rfl | trivial), (by first | rfl | trivial), hn, (by first | rfl | trivial), ds', e, rest, by rw [a7', hds]; simp, ?_, hpan⟩
      rw [← hds]
      exact a9

/-! ### iterators over a table whose slots (not control bytes) change -/

theorem IterGeo.ab_congr {t t' : Raw} (g : IterGeo cfg t) (hm : t'.mask = t.mask)
    (hct : t'.ctrl = t.ctrl) (hi : t'.items = t.items) : IterGeo cfg t' := by
  cases t; cases t'
  simp only at hm hct hi
  subst hm hct hi
  exact ⟨g.wpos, g.size0, g.pad, g.big, g.valid, g.spec, g.items⟩

theorem ab_rem_congr {t t' : Raw} (hm : t'.mask = t.mask) (hct : t'.ctrl = t.ctrl) (it : RawIter) :
    it.rem t' = it.rem t := by
  simp only [RawIter.rem, RawIterRange.rem, ab_fullFrom_congr hm hct]

theorem IterOk.ab_congr {t t' : Raw} {it : RawIter} (h : IterOk cfg t it) (hm : t'.mask = t.mask)
    (hct : t'.ctrl = t.ctrl) : IterOk cfg t' it := by
  have hr := ab_rem_congr hm hct it
  obtain ⟨k, hk⟩ := h.range.suffix
  refine ⟨⟨h.range.next_eq, h.range.dvd, k, ?_⟩, by rw [hr]; exact h.items⟩
  have : it.range.rem t' = it.range.rem t := hr
  rw [this, ab_fullList_congr hm hct]; exact hk

theorem ab_sorted_cons_ne {x : Nat} {xs : List Nat} (h : (x :: xs).Pairwise (· < ·)) :
    ∀ j ∈ xs, j ≠ x := by
  intro j hj
  have := (List.pairwise_cons.mp h).1 j hj
  omega

/-- `RawDrain::next` / `RawIntoIter::next` × `k`: the first `k` pending elements are moved out in
    order, their slots emptied; the iterator stays good for the new table. -/
theorem takeLoop_spec :
    ∀ (k : Nat) (it : RawIter) (t : Raw) (acc : List Elem), IterGeo cfg t → IterOk cfg t it →
      (∀ i ∈ it.rem t, ∃ e, ab_slot t i = some e) →
      ∃ it' t', Map.takeLoop cfg k it t acc =
          .ok (acc.reverse ++ ((it.rem t).take k).map (ab_elem t), it', t') ∧
        ClearedOn t t' ((it.rem t).take k) ∧ IterOk cfg t' it' ∧ it'.rem t' = (it.rem t).drop k := by
  intro k
  induction k with
  | zero =>
    intro it t acc _ hok _
    exact ⟨it, t, by simp [Map.takeLoop], by simpa using ClearedOn.refl t, hok, by simp⟩
  | succ k ih =>
    intro it t acc g hok hsl
    obtain ⟨it1, h1, h2, h3, _⟩ := rawIter_next_spec' g it hok
    have hsorted := hok.rem_sorted
    rw [Map.takeLoop, h1]
    cases hrem : it.rem t with
    | nil =>
      simp only [List.head?_nil]
      rw [hrem] at h3
      exact ⟨it1, t, by simp, by simpa using ClearedOn.refl t, h2, by simpa using h3⟩
    | cons x xs =>
      rw [hrem] at h3 hsorted hsl
      simp only [List.head?_cons, List.tail_cons] at h3 ⊢
      obtain ⟨e, he⟩ := hsl x List.mem_cons_self
      have hne := ab_sorted_cons_ne hsorted
      have hcl1 := ClearedOn.take he
      rw [ab_slotTake he]
      simp only
      generalize ht1 : ({ t with slots := t.slots.setIfInBounds x none } : Raw) = t1 at hcl1
      have g1 : IterGeo cfg t1 := g.ab_congr hcl1.mask hcl1.ctrl hcl1.items
      have hok1 : IterOk cfg t1 it1 := h2.ab_congr hcl1.mask hcl1.ctrl
      have hrem1 : it1.rem t1 = xs := by rw [ab_rem_congr hcl1.mask hcl1.ctrl, h3]
      have hsl1 : ∀ i ∈ it1.rem t1, ∃ e, ab_slot t1 i = some e := by
        intro i hi
        rw [hrem1] at hi
        obtain ⟨e', he'⟩ := hsl i (List.mem_cons_of_mem _ hi)
        refine ⟨e', ?_⟩
        rw [hcl1.slot, if_neg (by simpa using hne i hi)]
        exact he'
      obtain ⟨it', t', a1, a2, a3, a4⟩ := ih it1 t1 (e :: acc) g1 hok1 hsl1
      rw [hrem1] at a1 a2 a4
      have hmap : (xs.take k).map (ab_elem t1) = (xs.take k).map (ab_elem t) := by
        apply List.map_congr_left
        intro j hj
        have hjx := hne j (List.mem_of_mem_take hj)
        unfold ab_elem
        rw [hcl1.slot, if_neg (by simpa using hjx)]
      refine ⟨it', t', ?_, ?_, a3, by simpa using a4⟩
      · rw [a1, hmap]
        simp [ab_elem_of he]
      · have := hcl1.trans a2
        simpa using this

/-- `RawIter::drop_elements` over a detached table: the pending elements are dropped in order until a
    destructor panics. -/
theorem iterDropLoop_spec (env : Env) :
    ∀ (fuel : Nat) (it : RawIter) (t : Raw) (w : World), IterGeo cfg t → IterOk cfg t it →
      (∀ i ∈ it.rem t, ∃ e, ab_slot t i = some e) → (it.rem t).length < fuel →
      ∃ p t' w' pre post, Map.iterDropLoop cfg env fuel it t w = .ok (p, t', w') ∧
        it.rem t = pre ++ post ∧ ClearedOn t t' pre ∧ w'.t = w.t ∧
        DropsRel cfg w w' (pre.map (ab_elem t)).reverse ∧ (p = false → post = []) ∧
        (p = true → cfg.needsDrop = true ∧ ∃ pre' i, pre = pre' ++ [i] ∧
          env.dropPanics (w.dc + pre'.length) (ab_elem t i) = true) := by
  intro fuel
  induction fuel with
  | zero => intro it t w _ _ _ h; omega
  | succ fuel ih =>
    intro it t w g hok hsl hf
    obtain ⟨it1, h1, h2, h3, _⟩ := rawIter_next_spec' g it hok
    have hsorted := hok.rem_sorted
    rw [Map.iterDropLoop, h1]
    cases hrem : it.rem t with
    | nil =>
      simp only [List.head?_nil]
      exact ⟨false, t, w, [], [], rfl, rfl, ClearedOn.refl t, rfl, DropsRel.refl w w.t, fun _ => rfl,
        fun h => by cases h⟩
    | cons x xs =>
      rw [hrem] at h3 hsorted hsl hf
      simp only [List.head?_cons, List.tail_cons] at h3 ⊢
      obtain ⟨e, he⟩ := hsl x List.mem_cons_self
      have hei := ab_elem_of he
      have hne := ab_sorted_cons_ne hsorted
      have hcl1 := ClearedOn.take he
      rw [ab_slotTake he]
      simp only
      generalize ht1 : ({ t with slots := t.slots.setIfInBounds x none } : Raw) = t1 at hcl1
      obtain ⟨d1, d2, d3⟩ := ab_dropElem (cfg := cfg) env e w
      generalize hde : dropElem cfg env e w = r at d1 d2 d3
      obtain ⟨p, w1⟩ := r
      simp only at d1 d2 d3 ⊢
      cases p with
      | true =>
        simp only [if_true]
        have : cfg.needsDrop = true ∧ env.dropPanics w.dc e = true := by simpa using d3.symm
        refine ⟨true, t1, w1, [x], xs, rfl, rfl, hcl1, d1, by simpa [hei] using d2,
          (fun h => by cases h), fun _ => ⟨this.1, [], x, rfl, by simpa [hei] using this.2⟩⟩
      | false =>
        simp only [Bool.false_eq_true, if_false]
        have g1 : IterGeo cfg t1 := g.ab_congr hcl1.mask hcl1.ctrl hcl1.items
        have hok1 : IterOk cfg t1 it1 := h2.ab_congr hcl1.mask hcl1.ctrl
        have hrem1 : it1.rem t1 = xs := by rw [ab_rem_congr hcl1.mask hcl1.ctrl, h3]
        have hsl1 : ∀ i ∈ it1.rem t1, ∃ e, ab_slot t1 i = some e := by
          intro i hi
          rw [hrem1] at hi
          obtain ⟨e', he'⟩ := hsl i (List.mem_cons_of_mem _ hi)
          refine ⟨e', ?_⟩
          rw [hcl1.slot, if_neg (by simpa using hne i hi)]
          exact he'
        obtain ⟨p, t', w', pre, post, a1, a2, a3, a4, a5, a6, a7⟩ :=
          ih it1 t1 w1 g1 hok1 hsl1 (by rw [hrem1]; simpa using hf)
        rw [hrem1] at a2
        have hpre : ∀ j ∈ pre, ab_elem t1 j = ab_elem t j := by
          intro j hj
          have hjx := hne j (by rw [a2]; exact List.mem_append_left _ hj)
          unfold ab_elem
          rw [hcl1.slot, if_neg (by simpa using hjx)]
        have hmap : pre.map (ab_elem t1) = pre.map (ab_elem t) := List.map_congr_left hpre
        refine ⟨p, t', w', x :: pre, post, a1, by rw [a2]; rfl, ?_, a4.trans d1, ?_, a6, ?_⟩
        · simpa using hcl1.trans a3
        · have := DropsRel.trans d2 a5
          rw [hmap] at this
          simpa [hei] using this
        · intro hp
          obtain ⟨hn, pre', i, hk1, hk2⟩ := a7 hp
          refine ⟨hn, x :: pre', i, by rw [hk1]; rfl, ?_⟩
          have hkp : i ∈ pre := by rw [hk1]; simp
          rw [← hpre i hkp]
          have := DropsRel.dc d2
          rw [hn] at this
          simp only [if_true, List.length_singleton] at this
          rw [this] at hk2
          rw [List.length_cons, show w.dc + (pre'.length + 1) = w.dc + 1 + pre'.length by omega]
          exact hk2

theorem iterDropElements_spec (env : Env) (it : RawIter) (t : Raw) (w : World) (g : IterGeo cfg t)
    (hok : IterOk cfg t it) (hsl : ∀ i ∈ it.rem t, ∃ e, ab_slot t i = some e) :
    ∃ p t' w' pre post, Map.iterDropElements cfg env it t w = .ok (p, t', w') ∧
      it.rem t = pre ++ post ∧ t'.mask = t.mask ∧ t'.ctrl = t.ctrl ∧ t'.alloc = t.alloc ∧
      t'.slots.size = t.slots.size ∧ w'.t = w.t ∧
      DropsRel cfg w w' (pre.map (ab_elem t)).reverse ∧ (p = false → post = []) ∧
      (p = true → cfg.needsDrop = true ∧ ∃ pre' i, pre = pre' ++ [i] ∧
        env.dropPanics (w.dc + pre'.length) (ab_elem t i) = true) := by
  by_cases hcond : cfg.needsDrop = true ∧ it.items ≠ 0
  · have hlen : (it.rem t).length < t.buckets + 2 := by
      obtain ⟨k, hk⟩ := hok.range.suffix
      have := fullList_length_le t
      rw [RawIter.rem, hk, List.length_drop]; omega
    obtain ⟨p, t', w', pre, post, a1, a2, a3, a4, a5, a6, a7⟩ :=
      iterDropLoop_spec (cfg := cfg) env _ it t w g hok hsl hlen
    exact ⟨p, t', w', pre, post, by simp only [Map.iterDropElements, if_pos hcond, a1], a2, a3.mask,
      a3.ctrl, a3.alloc, a3.size, a4, a5, a6, a7⟩
  · refine ⟨false, t, w, it.rem t, [], by simp only [Map.iterDropElements, if_neg hcond], by simp, rfl,
      rfl, rfl, rfl, rfl, ?_, fun _ => rfl, fun h => by cases h⟩
    cases hn : cfg.needsDrop with
    | false =>
      refine ⟨rfl, rfl, rfl, rfl, rfl, by simp [hn], by simp [dropEvs, hn]⟩
    | true =>
      have : it.items = 0 := by
        by_contra h0; exact hcond ⟨hn, h0⟩
      have hnil : it.rem t = [] := List.eq_nil_of_length_eq_zero (by rw [← hok.items, this])
      rw [hnil]
      exact DropsRel.refl w w.t

/-- A fresh iterator, then `next` × `k` with the elements moved out. -/
theorem ab_take_start (hc : CfgOk cfg) (h : Inv cfg t) (k : Nat) :
    ∃ it it' t', RawIter.new cfg t = .ok it ∧
      Map.takeLoop cfg k it t [] = .ok (t.elems.take k, it', t') ∧
      ClearedOn t t' (t.fullList.take k) ∧ IterGeo cfg t' ∧ IterOk cfg t' it' ∧
      it'.rem t' = t.fullList.drop k ∧ (∀ i ∈ it'.rem t', ∃ e, ab_slot t' i = some e) ∧
      (t.fullList.drop k).map (ab_elem t') = t.elems.drop k := by
  have g := iterGeo_of_inv hc h
  obtain ⟨it, h1, _, h3, h4⟩ := rawIter_new_spec' g
  have hsl : ∀ i ∈ it.rem t, ∃ e, ab_slot t i = some e := by
    intro i hi; rw [h4] at hi; exact ⟨_, h.ab_full hc hi⟩
  obtain ⟨it', t', a1, a2, a3, a4⟩ := takeLoop_spec k it t [] g h3 hsl
  rw [h4] at a1 a2 a4
  have hnd := ab_nodup_fullList t
  rw [← List.take_append_drop k t.fullList] at hnd
  have hdisj := (List.nodup_append.mp hnd).2.2
  have hslot : ∀ i ∈ t.fullList.drop k, ab_slot t' i = some (ab_elem t i) := by
    intro i hi
    have hnot : i ∉ t.fullList.take k := fun hp => hdisj i hp i hi rfl
    rw [a2.slot, if_neg hnot]
    exact h.ab_full hc (List.mem_of_mem_drop hi)
  refine ⟨it, it', t', h1, ?_, a2, g.ab_congr a2.mask a2.ctrl a2.items, a3, a4, ?_, ?_⟩
  · rw [a1, ab_elems_map hc h, ← List.map_take]; rfl
  · intro i hi
    rw [a4] at hi
    exact ⟨_, hslot i hi⟩
  · rw [ab_elems_map hc h, ← List.map_drop]
    apply List.map_congr_left
    intro i hi
    exact ab_elem_of (hslot i hi)

/-- `t'` is `t` emptied by `clear_no_drop`: same block, valid, no elements, all bytes EMPTY. -/
def EmptiedOf (cfg : Cfg) (t t' : Raw) : Prop :=
  t' = t.cleared ∧ TInvB cfg t' ∧ t'.items = 0 ∧ t'.elems = [] ∧ t'.mask = t.mask ∧
  t'.alloc = t.alloc ∧ t'.gl = bucketMaskToCapacity t.mask ∧
  t'.items + t'.gl = bucketMaskToCapacity t.mask ∧ ∀ j, j < t'.ctrl.size → t'.ctrlAt j = EMPTY

theorem emptiedOf_cleared (hc : CfgOk cfg) (h : TInvB cfg t) : EmptiedOf cfg t t.cleared :=
  ⟨rfl, ab_cleared_facts hc h⟩

/-- **6.** `drain()`, `next` × `k`, then drop of the `Drain` (`forget = false`) or `mem::forget`. -/
theorem drain_spec (hc : CfgOk cfg) (env : Env) (k : Nat) (forget : Bool) (w : World)
    (h : TInvB cfg w.t) :
    match Map.drain cfg env k forget w with
    | .ok (out, w') =>
      out = w.t.elems.take k ∧ out.length = min k w.t.items ∧
      (forget = true → w' = { w with t := Raw.new cfg.W }) ∧
      (forget = false → EmptiedOf cfg w.t w'.t ∧ DropsRel cfg w w' (w.t.elems.drop k).reverse)
    | .panic c w' => c = "drop" ∧ forget = false ∧ w'.t = Raw.new cfg.W ∧ cfg.needsDrop = true ∧
        ∃ ds e rest, w.t.elems.drop k = ds ++ e :: rest ∧ DropsRel cfg w w' (ds ++ [e]).reverse ∧
          env.dropPanics (w.dc + ds.length) e = true
    | .abort => False
    | .fault _ => False := by
  obtain ⟨it, it', t', h1, h2, h3, h4, h5, h6, h7, h8⟩ := ab_take_start hc h.1 k
  have hlen : (w.t.elems.take k).length = min k w.t.items := by
    rw [List.length_take, ab_elems_length hc h.1]
  cases forget with
  | true =>
    have hres : Map.drain cfg env k true w = .ok (w.t.elems.take k, { w with t := Raw.new cfg.W }) := by
      simp only [Map.drain, h1, h2, if_true]
    rw [hres]
    exact ⟨rfl, hlen, fun _ => rfl, fun hf => by cases hf⟩
  | false =>
    obtain ⟨p, t'', w1, pre, post, a1, a2, a3, a4, a5, a6, a7, a8, a9, a10⟩ :=
      iterDropElements_spec (cfg := cfg) env it' t' { w with t := Raw.new cfg.W } h4 h5 h7
    have a8' : DropsRel cfg w w1 (pre.map (ab_elem t')).reverse := a8
    have hcl : clearNoDrop { t'' with slots := Array.replicate t''.slots.size none } = w.t.cleared :=
      ab_clearNoDrop_congr (a3.trans h3.mask) (a4.trans h3.ctrl) (a5.trans h3.alloc) (a6.trans h3.size)
    rw [h6] at a2
    have hmap : pre.map (ab_elem t') ++ post.map (ab_elem t') = w.t.elems.drop k := by
      rw [← List.map_append, ← a2, h8]
    cases p with
    | false =>
      have hres : Map.drain cfg env k false w =
          .ok (w.t.elems.take k, { w1 with t := w.t.cleared }) := by
        simp only [Map.drain, h1, h2, Bool.false_eq_true, if_false, a1, hcl]
      rw [hres]
      refine ⟨rfl, hlen, (fun hf => by cases hf), fun _ => ⟨emptiedOf_cleared hc h, ?_⟩⟩
      rw [a9 rfl, List.map_nil, List.append_nil] at hmap
      rw [← hmap]
      exact a8'
    | true =>
      have hres : Map.drain cfg env k false w = .panic "drop" w1 := by
        simp only [Map.drain, h1, h2, Bool.false_eq_true, if_false, a1, if_true]
      rw [hres]
      obtain ⟨hn, pre', i, hk1, hk2⟩ := a10 rfl
      refine ⟨rfl, rfl, a7, hn, pre'.map (ab_elem t'), ab_elem t' i, post.map (ab_elem t'), ?_, ?_, ?_⟩
      · rw [← hmap, hk1]; simp
      · rw [hk1] at a8'
        simpa using a8'
      · rw [List.length_map]; exact hk2

/-- **7.** `into_iter()`, `next` × `k`, then drop of the `IntoIter`: the collection holds a fresh
    `new()`; the first `min k items` elements are moved out, the rest is dropped exactly once in
    bucket order and the block is freed exactly once with its own layout (iff it was allocated),
    unless a destructor panicked (then the block is leaked: the log only gained drops). -/
theorem intoIter_spec (hc : CfgOk cfg) (env : Env) (k : Nat) (w : World) (h : TInvB cfg w.t) :
    match Map.intoIter cfg env k w with
    | .ok (out, w') =>
      out = w.t.elems.take k ∧ out.length = min k w.t.items ∧ w'.t = Raw.new cfg.W ∧
      w'.log = (if w.t.alloc = true then
            [Ev.free (layoutOf cfg w.t.buckets).size (layoutOf cfg w.t.buckets).align] else []) ++
          dropEvs cfg (w.t.elems.drop k).reverse ++ w.log ∧
      ∃ w1, DropsRel cfg w w1 (w.t.elems.drop k).reverse ∧
        w' = { w1 with t := Raw.new cfg.W, log := w'.log }
    | .panic c w' => c = "drop" ∧ w'.t = Raw.new cfg.W ∧ cfg.needsDrop = true ∧
        ∃ ds e rest, w.t.elems.drop k = ds ++ e :: rest ∧ DropsRel cfg w w' (ds ++ [e]).reverse ∧
          env.dropPanics (w.dc + ds.length) e = true
    | .abort => False
    | .fault _ => False := by
  obtain ⟨it, it', t', h1, h2, h3, h4, h5, h6, h7, h8⟩ := ab_take_start hc h.1 k
  have hlen : (w.t.elems.take k).length = min k w.t.items := by
    rw [List.length_take, ab_elems_length hc h.1]
  obtain ⟨p, t'', w1, pre, post, a1, a2, a3, a4, a5, a6, a7, a8, a9, a10⟩ :=
    iterDropElements_spec (cfg := cfg) env it' t' { w with t := Raw.new cfg.W } h4 h5 h7
  have a8' : DropsRel cfg w w1 (pre.map (ab_elem t')).reverse := a8
  rw [h6] at a2
  have hmap : pre.map (ab_elem t') ++ post.map (ab_elem t') = w.t.elems.drop k := by
    rw [← List.map_append, ← a2, h8]
  have hse := h.1.isEmptySingleton_eq
  cases p with
  | true =>
    have hres : Map.intoIter cfg env k w = .panic "drop" w1 := by
      simp only [Map.intoIter, h1, h2, a1, if_true]
    rw [hres]
    obtain ⟨hn, pre', i, hk1, hk2⟩ := a10 rfl
    refine ⟨rfl, a7, hn, pre'.map (ab_elem t'), ab_elem t' i, post.map (ab_elem t'), ?_, ?_, ?_⟩
    · rw [← hmap, hk1]; simp
    · rw [hk1] at a8'
      simpa using a8'
    · rw [List.length_map]; exact hk2
  | false =>
    rw [a9 rfl, List.map_nil, List.append_nil] at hmap
    rw [hmap] at a8'
    have hw1 : w1 = { w1 with t := Raw.new cfg.W } := by
      cases w1; simp only at a7; subst a7; rfl
    cases hal : w.t.alloc with
    | false =>
      rw [hal] at hse
      have hres : Map.intoIter cfg env k w = .ok (w.t.elems.take k, w1) := by
        simp only [Map.intoIter, h1, h2, a1, Bool.false_eq_true, if_false, hse, Bool.not_false, if_true]
      rw [hres]
      refine ⟨rfl, hlen, a7, ?_, w1, a8', ?_⟩
      · rw [a8'.log]; simp
      · cases w1; simp only at a7; subst a7; rfl
    | true =>
      rw [hal] at hse
      have hres : Map.intoIter cfg env k w = .ok (w.t.elems.take k,
          { w1 with log := .free (layoutOf cfg w.t.buckets).size (layoutOf cfg w.t.buckets).align :: w1.log }) := by
        simp only [Map.intoIter, h1, h2, a1, Bool.false_eq_true, if_false, hse, Bool.not_true,
          freeBuckets_ok h.2 hal]
      rw [hres]
      refine ⟨rfl, hlen, a7, ?_, w1, a8', ?_⟩
      · show _ :: w1.log = _
        rw [a8'.log]; simp
      · cases w1; simp only at a7; subst a7; rfl

/-! ### 4. erasing behind a live iterator -/

theorem ab_filter_drop {α} (p : α → Bool) (l : List α) (k : Nat) :
    (l.filter p).drop ((l.take k).filter p).length = (l.drop k).filter p := by
  have e : l.filter p = (l.take k).filter p ++ (l.drop k).filter p := by
    rw [← List.filter_append, List.take_append_drop]
  rw [e, List.drop_left]

/-- Erasing a bucket the iterator will not visit any more (its control byte becomes non-full, every
    other real control byte is unchanged) leaves the iterator in a good state for the new table, with
    the same remaining yield sequence; the full-bucket list just loses that bucket. The iterator only
    reads control bytes of groups at positions `≥ nextCtrl` (through `fullFrom`), and its pending
    lanes were captured before. -/
theorem iterOk_erase_not_pending {t t' : Raw} {it : RawIter} {idx : Nat} (hok : IterOk cfg t it)
    (hnot : idx ∉ it.rem t) (hm : t'.mask = t.mask)
    (hct : ∀ j, j < t.buckets → j ≠ idx → t'.ctrlAt j = t.ctrlAt j)
    (hnf : isFull (t'.ctrlAt idx) = false) :
    IterOk cfg t' it ∧ it.rem t' = it.rem t ∧ t'.fullList = t.fullList.filter (· != idx) := by
  have hb : t'.buckets = t.buckets := by simp only [Raw.buckets, hm]
  have hbyte : ∀ i, i < t.buckets →
      isFull (t'.ctrlAt i) = ((i != idx) && isFull (t.ctrlAt i)) := by
    intro i hi
    by_cases hii : i = idx
    · subst hii; simp [hnf]
    · rw [hct i hi hii]; simp [hii]
  have hfl : t'.fullList = t.fullList.filter (· != idx) := by
    rw [Raw.fullList, Raw.fullList, List.filter_filter, hb]
    apply List.filter_congr
    intro i hi
    exact hbyte i (List.mem_range.mp hi)
  have hff : ∀ a, t'.fullFrom a = (t.fullFrom a).filter (· != idx) := by
    intro a
    rw [Raw.fullFrom, Raw.fullFrom, List.filter_filter, hb]
    apply List.filter_congr
    intro i hi
    simp only [List.mem_range'_1] at hi
    exact hbyte i (by omega)
  have hself : ∀ l : List Nat, idx ∉ l → l.filter (· != idx) = l := by
    intro l hl
    rw [List.filter_eq_self]
    intro a ha
    simp only [bne_iff_ne, ne_eq]
    intro h; exact hl (h ▸ ha)
  have hrem : it.rem t' = it.rem t := by
    simp only [RawIter.rem, RawIterRange.rem, hff]
    rw [hself]
    intro hin
    exact hnot (by simp only [RawIter.rem, RawIterRange.rem]; exact List.mem_append_right _ hin)
  obtain ⟨k, hk⟩ := hok.range.suffix
  refine ⟨⟨⟨hok.range.next_eq, hok.range.dvd, ((t.fullList.take k).filter (· != idx)).length, ?_⟩,
    by rw [hrem]; exact hok.items⟩, hrem, hfl⟩
  have h1 : it.range.rem t' = it.range.rem t := hrem
  rw [h1, hfl, ab_filter_drop, ← hk]
  exact (hself _ hnot).symm

/-- Overwriting the payload of a live slot keeps the invariant. -/
theorem ab_inv_set_payload (h : Inv cfg t) {idx : Nat} {e : Elem} (he : ab_slot t idx = some e)
    (e' : Elem) : Inv cfg { t with slots := t.slots.setIfInBounds idx (some e') } := by
  have hlt := ab_slot_lt he
  have ha : t.IsAllocated cfg := by
    rcases h.geom with hs | ha
    · rw [hs.2.2.2.1] at hlt; simp at hlt
    · exact ha
  refine ⟨Or.inr ⟨ha.1, ha.2.1, ha.2.2.1, ?_, ha.2.2.2.2⟩, h.valid, h.mirror, h.items_eq, h.count, ?_,
    h.smallClean⟩
  · show (t.slots.setIfInBounds idx (some e')).size = t.buckets
    rw [Array.size_setIfInBounds]; exact ha.2.2.2.1
  · intro i hi
    have hi' : i < t.slots.size := by simpa using hi
    show ((t.slots.setIfInBounds idx (some e'))[i]?.join).isSome ↔ isFull (t.ctrlAt i) = true
    rw [Array.getElem?_setIfInBounds]
    by_cases hii : idx = i
    · subst hii
      have := (h.live idx hi').mp (by rw [show t.slots[idx]?.join = some e from he]; rfl)
      simp [hlt, this]
    · rw [if_neg hii]; exact h.live i hi'

/-- Removing a full bucket that is not pending in the iterator. -/
theorem erase_yielded (hc : CfgOk cfg) (h : Inv cfg t) {it' : RawIter} {idx : Nat}
    (hok : IterOk cfg t it') (hnot : idx ∉ it'.rem t) (hib : idx < t.buckets)
    (hif : isFull (t.ctrlAt idx) = true) :
    ∃ e t', removeAt cfg t idx = .ok (e, t') ∧ ab_slot t idx = some e ∧ Inv cfg t' ∧
      t'.mask = t.mask ∧ t'.alloc = t.alloc ∧ t'.items + 1 = t.items ∧
      t'.slots = t.slots.setIfInBounds idx none ∧
      IterOk cfg t' it' ∧ it'.rem t' = it'.rem t ∧ t'.fullList = t.fullList.filter (· != idx) := by
  obtain ⟨e, t', r1, r2, r3, r4, r5, r6, r7, r8, r9, _⟩ := removeAt_inv hc h hib hif
  have hnf : isFull (t'.ctrlAt idx) = false := by
    rcases r9 with r | r <;> rw [r] <;> rfl
  obtain ⟨e1, e2, e3⟩ := iterOk_erase_not_pending hok hnot r4 r8 hnf
  exact ⟨e, t', r1, r2, r3, r4, r5, r6, r7, e1, e2, e3⟩

/-- What `next` returning `some idx` means for a good iterator. -/
theorem ab_next_some (hc : CfgOk cfg) (h : Inv cfg t) {it it' : RawIter} {idx : Nat}
    (hok : IterOk cfg t it) (hnext : RawIter.next cfg t it = .ok (some idx, it')) :
    IterOk cfg t it' ∧ it.rem t = idx :: it'.rem t ∧ idx ∉ it'.rem t ∧ idx < t.buckets ∧
      isFull (t.ctrlAt idx) = true := by
  obtain ⟨it1, h1, h2, h3, _⟩ := rawIter_next_spec' (iterGeo_of_inv hc h) it hok
  rw [hnext] at h1
  simp only [Except.ok.injEq, Prod.mk.injEq] at h1
  obtain ⟨hhead, rfl⟩ := h1
  have hrem : it.rem t = idx :: it'.rem t := by
    cases hr : it.rem t with
    | nil => rw [hr] at hhead; cases hhead
    | cons x xs =>
      rw [hr] at hhead h3
      simp only [List.head?_cons, Option.some.injEq] at hhead
      rw [h3, ← hhead]; rfl
  have hsorted := hok.rem_sorted
  rw [hrem] at hsorted
  have hnot : idx ∉ it'.rem t := fun hin => ab_sorted_cons_ne hsorted idx hin rfl
  obtain ⟨hib, hif⟩ := hok.rem_full idx (by rw [hrem]; exact List.mem_cons_self)
  exact ⟨h2, hrem, hnot, hib, hif⟩

/-- **Key lemma.** After `next` yielded bucket `idx`, removing bucket `idx` (`RawTable::remove`,
    i.e. `erase` + move out) succeeds, keeps `Inv`, and leaves the iterator in a good state w.r.t.
    the new table with the same remaining yield sequence. -/
theorem erase_behind_iterator (hc : CfgOk cfg) (h : Inv cfg t) {it it' : RawIter} {idx : Nat}
    (hok : IterOk cfg t it) (hnext : RawIter.next cfg t it = .ok (some idx, it')) :
    ∃ e t', removeAt cfg t idx = .ok (e, t') ∧ ab_slot t idx = some e ∧ Inv cfg t' ∧
      t'.mask = t.mask ∧ t'.alloc = t.alloc ∧ t'.items + 1 = t.items ∧
      t'.slots = t.slots.setIfInBounds idx none ∧
      IterOk cfg t it' ∧ it.rem t = idx :: it'.rem t ∧
      IterOk cfg t' it' ∧ it'.rem t' = it'.rem t ∧ t'.fullList = t.fullList.filter (· != idx) := by
  obtain ⟨h2, hrem, hnot, hib, hif⟩ := ab_next_some hc h hok hnext
  obtain ⟨e, t', r1, r2, r3, r4, r5, r6, r7, e1, e2, e3⟩ := erase_yielded hc h h2 hnot hib hif
  exact ⟨e, t', r1, r2, r3, r4, r5, r6, r7, h2, hrem, e1, e2, e3⟩

/-! ### 4. `retain` -/

/-- Elements kept by `retain`: those whose predicate call (number `pc + position`) answered
    `(true, nv)`, with the payload `nv` written through the `&mut`. -/
def retainKept (env : Env) : Nat → List Elem → List Elem
  | _, [] => []
  | pc, e :: es =>
    match env.pred pc e with
    | some (true, nv) => { e with v := nv } :: retainKept env (pc + 1) es
    | _ => retainKept env (pc + 1) es

/-- Elements erased and dropped by `retain` (bucket order): predicate answered `(false, nv)`. -/
def retainDropped (env : Env) : Nat → List Elem → List Elem
  | _, [] => []
  | pc, e :: es =>
    match env.pred pc e with
    | some (false, nv) => { e with v := nv } :: retainDropped env (pc + 1) es
    | _ => retainDropped env (pc + 1) es

/-- Postcondition of `retain` running over the pending elements `l`, with `Pel` the elements already
    decided to stay. -/
def RetainPost (cfg : Cfg) (env : Env) (w : World) (Pel l : List Elem) : Res World → Prop
  | .ok w' => TInvB cfg w'.t ∧ w'.t.elems = Pel ++ retainKept env w.pc l ∧ w'.pc = w.pc + l.length ∧
      w'.log = dropEvs cfg (retainDropped env w.pc l).reverse ++ w.log ∧
      (retainKept env w.pc l).length + (retainDropped env w.pc l).length = l.length
  | .panic c w' => TInvB cfg w'.t ∧ ∃ pre x post, l = pre ++ x :: post ∧
      w'.pc = w.pc + pre.length + 1 ∧
      (retainKept env w.pc pre).length + (retainDropped env w.pc pre).length = pre.length ∧
      ((c = "pred" ∧ env.pred (w.pc + pre.length) x = none ∧
          w'.t.elems = Pel ++ retainKept env w.pc pre ++ x :: post ∧
          w'.log = dropEvs cfg (retainDropped env w.pc pre).reverse ++ w.log) ∨
       (c = "drop" ∧ cfg.needsDrop = true ∧ ∃ nv, env.pred (w.pc + pre.length) x = some (false, nv) ∧
          w'.t.elems = Pel ++ retainKept env w.pc pre ++ post ∧
          w'.log = dropEvs cfg ({ x with v := nv } :: (retainDropped env w.pc pre).reverse) ++ w.log))
  | .abort => False
  | .fault _ => False

theorem RetainPost.keep {env : Env} {w w1 : World} {Pel es : List Elem} {e : Elem} {nv : Nat}
    {r : Res World} (hp : env.pred w.pc e = some (true, nv)) (hpc : w1.pc = w.pc + 1)
    (hlog : w1.log = w.log)
    (h : RetainPost cfg env w1 (Pel ++ [{ e with v := nv }]) es r) :
    RetainPost cfg env w Pel (e :: es) r := by
  match r, h with
  | .ok w', ⟨a1, a2, a3, a4, a5⟩ =>
    refine ⟨a1, ?_, ?_, ?_, ?_⟩
    · rw [a2, hpc]; simp [retainKept, hp]
    · rw [a3, hpc, List.length_cons]; omega
    · rw [a4, hpc, hlog]; simp [retainDropped, hp]
    · rw [hpc] at a5; simp [retainKept, retainDropped, hp]; omega
  | .panic c w', ⟨a1, pre, x, post, b1, b2, bp, b3⟩ =>
    refine ⟨a1, e :: pre, x, post, by rw [b1]; rfl, by rw [b2, hpc, List.length_cons]; omega,
      (by rw [hpc] at bp; simp [retainKept, retainDropped, hp]; omega), ?_⟩
    have hidx : w.pc + (e :: pre).length = w1.pc + pre.length := by rw [hpc, List.length_cons]; omega
    rw [hidx]
    rcases b3 with ⟨c1, c2, c3, c4⟩ | ⟨c1, c2, nv', c3, c4, c5⟩
    · refine Or.inl ⟨c1, c2, ?_, ?_⟩
      · rw [c3, hpc]; simp [retainKept, hp]
      · rw [c4, hpc, hlog]; simp [retainDropped, hp]
    · refine Or.inr ⟨c1, c2, nv', c3, ?_, ?_⟩
      · rw [c4, hpc]; simp [retainKept, hp]
      · rw [c5, hpc, hlog]; simp [retainDropped, hp]

theorem RetainPost.drop {env : Env} {w w2 : World} {Pel es : List Elem} {e : Elem} {nv : Nat}
    {r : Res World} (hp : env.pred w.pc e = some (false, nv)) (hpc : w2.pc = w.pc + 1)
    (hlog : w2.log = dropEvs cfg [{ e with v := nv }] ++ w.log)
    (h : RetainPost cfg env w2 Pel es r) :
    RetainPost cfg env w Pel (e :: es) r := by
  match r, h with
  | .ok w', ⟨a1, a2, a3, a4, a5⟩ =>
    refine ⟨a1, ?_, ?_, ?_, ?_⟩
    · rw [a2, hpc]; simp [retainKept, hp]
    · rw [a3, hpc, List.length_cons]; omega
    · rw [a4, hpc, hlog]; simp [retainDropped, hp, dropEvs_append]
    · rw [hpc] at a5; simp [retainKept, retainDropped, hp]; omega
  | .panic c w', ⟨a1, pre, x, post, b1, b2, bp, b3⟩ =>
    refine ⟨a1, e :: pre, x, post, by rw [b1]; rfl, by rw [b2, hpc, List.length_cons]; omega,
      (by rw [hpc] at bp; simp [retainKept, retainDropped, hp]; omega), ?_⟩
    have hidx : w.pc + (e :: pre).length = w2.pc + pre.length := by rw [hpc, List.length_cons]; omega
    rw [hidx]
    rcases b3 with ⟨c1, c2, c3, c4⟩ | ⟨c1, c2, nv', c3, c4, c5⟩
    · refine Or.inl ⟨c1, c2, ?_, ?_⟩
      · rw [c3, hpc]; simp [retainKept, hp]
      · rw [c4, hpc, hlog]; simp [retainDropped, hp, dropEvs_append]
    · refine Or.inr ⟨c1, c2, nv', c3, ?_, ?_⟩
      · rw [c4, hpc]; simp [retainKept, hp]
      · rw [c5, hpc, hlog]
        simp only [retainDropped, hp, List.reverse_cons]
        rw [← List.cons_append, dropEvs_append, List.append_assoc]

theorem retainLoop_step_none {env : Env} {fuel : Nat} {it it1 : RawIter} {w : World} {idx : Nat}
    {e : Elem} (h1 : it.next cfg w.t = .ok (some idx, it1)) (he : slotGet w.t idx = .ok e)
    (hp : env.pred w.pc e = none) :
    Map.retainLoop cfg env (fuel + 1) it w = .panic "pred" { w with pc := w.pc + 1 } := by
  simp only [Map.retainLoop, h1, he, hp]

theorem retainLoop_step_keep {env : Env} {fuel : Nat} {it it1 : RawIter} {w : World} {idx : Nat}
    {e : Elem} {nv : Nat} (h1 : it.next cfg w.t = .ok (some idx, it1)) (he : slotGet w.t idx = .ok e)
    (hp : env.pred w.pc e = some (true, nv)) :
    Map.retainLoop cfg env (fuel + 1) it w =
      Map.retainLoop cfg env fuel it1
        { w with pc := w.pc + 1,
                 t := { w.t with slots := w.t.slots.setIfInBounds idx (some { e with v := nv }) } } := by
  simp only [Map.retainLoop, h1, he, hp, if_true]

theorem retainLoop_step_drop {env : Env} {fuel : Nat} {it it1 : RawIter} {w : World} {idx : Nat}
    {e x : Elem} {nv : Nat} {t2 : Raw} (h1 : it.next cfg w.t = .ok (some idx, it1))
    (he : slotGet w.t idx = .ok e) (hp : env.pred w.pc e = some (false, nv))
    (hr : removeAt cfg { w.t with slots := w.t.slots.setIfInBounds idx (some { e with v := nv }) } idx =
      .ok (x, t2)) :
    Map.retainLoop cfg env (fuel + 1) it w =
      if (dropElem cfg env x { w with pc := w.pc + 1, t := t2 }).1 = true then
        .panic "drop" (dropElem cfg env x { w with pc := w.pc + 1, t := t2 }).2
      else Map.retainLoop cfg env fuel it1 (dropElem cfg env x { w with pc := w.pc + 1, t := t2 }).2 := by
  simp only [Map.retainLoop, h1, he, hp, hr, Bool.false_eq_true, if_false]

theorem ab_nodup_mid {P xs : List Nat} {idx : Nat} (h : (P ++ idx :: xs).Nodup) :
    idx ∉ P ∧ idx ∉ xs := by
  have h2 := List.nodup_append.mp h
  refine ⟨fun hin => h2.2.2 idx hin idx List.mem_cons_self rfl, (List.nodup_cons.mp h2.2.1).1⟩

theorem ab_filter_mid {P xs : List Nat} {idx : Nat} (h1 : idx ∉ P) (h2 : idx ∉ xs) :
    (P ++ idx :: xs).filter (· != idx) = P ++ xs := by
  have hself : ∀ l : List Nat, idx ∉ l → l.filter (· != idx) = l := by
    intro l hl
    rw [List.filter_eq_self]
    intro a ha
    simp only [bne_iff_ne, ne_eq]
    intro h; exact hl (h ▸ ha)
  rw [List.filter_append, List.filter_cons, hself P h1, hself xs h2]
  simp

theorem ab_map_elem_congr {t t' : Raw} {idx : Nat} (l : List Nat) (hl : idx ∉ l)
    (h : ∀ j, j ≠ idx → ab_slot t' j = ab_slot t j) : l.map (ab_elem t') = l.map (ab_elem t) := by
  apply List.map_congr_left
  intro j hj
  have : j ≠ idx := fun hh => hl (hh ▸ hj)
  unfold ab_elem
  rw [h j this]

theorem retainLoop_spec (hc : CfgOk cfg) (env : Env) :
    ∀ (fuel : Nat) (it : RawIter) (w : World) (P : List Nat), TInvB cfg w.t → IterOk cfg w.t it →
      w.t.fullList = P ++ it.rem w.t → (it.rem w.t).length < fuel →
      RetainPost cfg env w (P.map (ab_elem w.t)) ((it.rem w.t).map (ab_elem w.t))
        (Map.retainLoop cfg env fuel it w) := by
  intro fuel
  induction fuel with
  | zero => intro it w P _ _ _ h; omega
  | succ fuel ih =>
    intro it w P h hok hdec hf
    obtain ⟨it1, h1, _, _, _⟩ := rawIter_next_spec' (iterGeo_of_inv hc h.1) it hok
    cases hrem : it.rem w.t with
    | nil =>
      rw [hrem] at h1
      rw [Map.retainLoop, h1]
      rw [hrem, List.append_nil] at hdec
      exact ⟨h, by rw [ab_elems_map hc h.1, hdec]; simp [retainKept], by simp,
        by simp [retainDropped, dropEvs_nil], by simp [retainKept, retainDropped]⟩
    | cons idx xs =>
      rw [hrem] at h1
      simp only [List.head?_cons] at h1
      obtain ⟨h2, hrem', hnot, hib, hif⟩ := ab_next_some hc h.1 hok h1
      have hxs : it1.rem w.t = xs := by
        rw [hrem] at hrem'; exact (List.cons.inj hrem').2.symm
      rw [hrem] at hdec hf
      rw [hxs] at hnot
      have hmem : idx ∈ w.t.fullList := by rw [hdec]; simp
      have he := h.1.ab_full hc hmem
      have hget := ab_slotGet he
      have hnd := ab_nodup_fullList w.t
      rw [hdec] at hnd
      obtain ⟨hnotP, _⟩ := ab_nodup_mid hnd
      have hels : w.t.elems = P.map (ab_elem w.t) ++ ab_elem w.t idx :: xs.map (ab_elem w.t) := by
        rw [ab_elems_map hc h.1, hdec]; simp
      simp only [List.map_cons]
      cases hpred : env.pred w.pc (ab_elem w.t idx) with
      | none =>
        rw [retainLoop_step_none h1 hget hpred]
        refine ⟨h, [], ab_elem w.t idx, xs.map (ab_elem w.t), rfl, rfl, by simp [retainKept, retainDropped],
          Or.inl ⟨rfl, by simpa using hpred, ?_, by simp [retainDropped, dropEvs_nil]⟩⟩
        show w.t.elems = _
        rw [hels]; simp [retainKept]
      | some ans =>
        obtain ⟨keep, nv⟩ := ans
        generalize hE : ({ ab_elem w.t idx with v := nv } : Elem) = e'
        -- the table with the payload written through the `&mut`
        generalize ht1 : ({ w.t with slots := w.t.slots.setIfInBounds idx (some e') } : Raw) = t1
        have hinv1 : Inv cfg t1 := by rw [← ht1]; exact ab_inv_set_payload h.1 he e'
        have hm1 : t1.mask = w.t.mask := by rw [← ht1]
        have hc1 : t1.ctrl = w.t.ctrl := by rw [← ht1]
        have hlo1 : t1.LayoutOk cfg := h.2.of_eq hm1 (by rw [← ht1])
        have hfl1 : t1.fullList = w.t.fullList := ab_fullList_congr hm1 hc1
        have hok1 : IterOk cfg t1 it1 := h2.ab_congr hm1 hc1
        have hrem1 : it1.rem t1 = xs := by rw [ab_rem_congr hm1 hc1, hxs]
        have hslot1 : ∀ j, j ≠ idx → ab_slot t1 j = ab_slot w.t j := by
          intro j hj
          rw [ab_slot_set w.t.slots t1 idx j (some e') (by rw [← ht1]), if_neg (by omega)]
          rfl
        have hslot1i : ab_slot t1 idx = some e' := by
          rw [ab_slot_set w.t.slots t1 idx idx (some e') (by rw [← ht1]),
            if_pos ⟨rfl, ab_slot_lt he⟩]
        cases keep with
        | true =>
          rw [retainLoop_step_keep h1 hget hpred, hE, ht1]
          have hdec1 : t1.fullList = (P ++ [idx]) ++ it1.rem t1 := by
            rw [hfl1, hdec, hrem1]; simp
          have := ih it1 { w with pc := w.pc + 1, t := t1 } (P ++ [idx]) ⟨hinv1, hlo1⟩ hok1 hdec1
            (by rw [hrem1]; simpa using hf)
          simp only [hrem1, List.map_append, List.map_cons, List.map_nil, ab_elem_of hslot1i,
            ab_map_elem_congr P hnotP hslot1, ab_map_elem_congr xs hnot hslot1] at this
          rw [← hE] at this
          exact RetainPost.keep (w1 := { w with pc := w.pc + 1, t := t1 }) hpred rfl rfl this
        | false =>
          obtain ⟨x, t2, r1, r2, r3, r4, r5, r6, r7, e1, e2, e3⟩ :=
            erase_yielded hc hinv1 hok1 (by rw [hrem1]; exact hnot) (by rw [Raw.buckets, hm1]; exact hib)
              (by rw [ab_ctrlAt_congr hc1]; exact hif)
          have hx : x = e' := by rw [hslot1i] at r2; exact (Option.some.inj r2).symm
          subst hx
          have hlo2 : t2.LayoutOk cfg := hlo1.of_eq r4 r5
          have hfl2 : t2.fullList = P ++ xs := by
            rw [e3, hfl1, hdec]; exact ab_filter_mid hnotP hnot
          have hrem2 : it1.rem t2 = xs := by rw [e2, hrem1]
          have hslot2 : ∀ j, j ≠ idx → ab_slot t2 j = ab_slot w.t j := by
            intro j hj
            rw [ab_slot_set t1.slots t2 idx j none r7, if_neg (by omega)]
            exact hslot1 j hj
          rw [← ht1, ← hE] at r1
          rw [retainLoop_step_drop h1 hget hpred r1, hE]
          obtain ⟨d1, d2, d3⟩ := ab_dropElem (cfg := cfg) env x { w with pc := w.pc + 1, t := t2 }
          generalize dropElem cfg env x { w with pc := w.pc + 1, t := t2 } = r at d1 d2 d3
          obtain ⟨p, w2⟩ := r
          simp only at d1 d2 d3 ⊢
          have hpc2 : w2.pc = w.pc + 1 := d2.2.2.2.1
          have hlog2 : w2.log = dropEvs cfg [x] ++ w.log := d2.log
          have hels2 : w2.t.elems = P.map (ab_elem w.t) ++ xs.map (ab_elem w.t) := by
            rw [d1]
            show t2.elems = _
            rw [ab_elems_map hc r3, hfl2, List.map_append, ab_map_elem_congr P hnotP hslot2,
              ab_map_elem_congr xs hnot hslot2]
          cases p with
          | true =>
            simp only [if_true]
            have hnd' : cfg.needsDrop = true := by
              have : cfg.needsDrop = true ∧ env.dropPanics w.dc x = true := by simpa using d3.symm
              exact this.1
            refine ⟨by rw [d1]; exact ⟨r3, hlo2⟩, [], ab_elem w.t idx, xs.map (ab_elem w.t), rfl,
              by rw [hpc2]; rfl, by simp [retainKept, retainDropped],
              Or.inr ⟨rfl, hnd', nv, by simpa using hpred, ?_, ?_⟩⟩
            · rw [hels2]; simp [retainKept]
            · rw [hlog2, hE]; simp [retainDropped]
          | false =>
            simp only [Bool.false_eq_true, if_false]
            have := ih it1 w2 P (by rw [d1]; exact ⟨r3, hlo2⟩) (by rw [d1]; exact e1)
              (by rw [d1]; show t2.fullList = P ++ it1.rem t2; rw [hfl2, hrem2])
              (by rw [d1]; show (it1.rem t2).length < fuel; rw [hrem2]; simpa using hf)
            rw [d1] at this
            simp only [hrem2,
              ab_map_elem_congr P hnotP hslot2, ab_map_elem_congr xs hnot hslot2] at this
            rw [← hE] at hlog2
            exact RetainPost.drop hpred hpc2 hlog2 this

theorem retain_post (hc : CfgOk cfg) (env : Env) (w : World) (h : TInvB cfg w.t) :
    RetainPost cfg env w [] w.t.elems (Map.retain cfg env w) := by
  obtain ⟨it, h1, _, h3, h4⟩ := rawIter_new_spec' (iterGeo_of_inv hc h.1)
  have hlen := fullList_length_le w.t
  have := retainLoop_spec hc env (w.t.buckets + 2) it w [] h h3 (by rw [h4]; rfl) (by rw [h4]; omega)
  rw [h4, ← ab_elems_map hc h.1] at this
  simp only [Map.retain, h1]
  exact this

/-- **4.** `retain` never faults. The predicate is called once per element in bucket order (call
    number `w.pc + position`). On `.ok` the table holds exactly the elements answered `(true, nv)`
    (`retainKept`, payload `nv`), the others (`retainDropped`) were dropped exactly once, in order, and
    each element is in exactly one of the two lists. On a panic (`"pred"`: the predicate panicked on
    `x`; `"drop"`: the destructor of the rejected `x` panicked) the table is valid, the elements before
    `x` were handled as above and those after `x` are untouched. -/
theorem retain_spec (hc : CfgOk cfg) (env : Env) (w : World) (h : TInvB cfg w.t) :
    match Map.retain cfg env w with
    | .ok w' => TInvB cfg w'.t ∧ w'.t.elems = retainKept env w.pc w.t.elems ∧
        w'.pc = w.pc + w.t.items ∧
        w'.log = dropEvs cfg (retainDropped env w.pc w.t.elems).reverse ++ w.log ∧
        (retainKept env w.pc w.t.elems).length + (retainDropped env w.pc w.t.elems).length =
          w.t.items
    | .panic c w' => TInvB cfg w'.t ∧ ∃ pre x post, w.t.elems = pre ++ x :: post ∧
        w'.pc = w.pc + pre.length + 1 ∧
        (retainKept env w.pc pre).length + (retainDropped env w.pc pre).length = pre.length ∧
        ((c = "pred" ∧ env.pred (w.pc + pre.length) x = none ∧
            w'.t.elems = retainKept env w.pc pre ++ x :: post ∧
            w'.log = dropEvs cfg (retainDropped env w.pc pre).reverse ++ w.log) ∨
         (c = "drop" ∧ cfg.needsDrop = true ∧ ∃ nv, env.pred (w.pc + pre.length) x = some (false, nv) ∧
            w'.t.elems = retainKept env w.pc pre ++ post ∧
            w'.log = dropEvs cfg ({ x with v := nv } :: (retainDropped env w.pc pre).reverse) ++ w.log))
    | .abort => False
    | .fault _ => False := by
  have hpost := retain_post hc env w h
  have hlen := ab_elems_length hc h.1
  generalize Map.retain cfg env w = r at hpost ⊢
  match r, hpost with
  | .ok w', ⟨a1, a2, a3, a4, a5⟩ =>
    exact ⟨a1, by simpa using a2, by rw [a3, hlen], a4, by rw [a5, hlen]⟩
  | .panic c w', ⟨a1, pre, x, post, b1, b2, bp, b3⟩ =>
    refine ⟨a1, pre, x, post, b1, b2, bp, ?_⟩
    simpa using b3
  | .abort, hpost => exact hpost
  | .fault _, hpost => exact hpost


/-- Identity of an element (everything but the mutable payload). -/
def ab_ident (e : Elem) : Nat × Nat × Nat := (e.k, e.kid, e.vid)

theorem retain_lengths_le (env : Env) : ∀ (l : List Elem) (pc : Nat),
    (retainKept env pc l).length + (retainDropped env pc l).length ≤ l.length := by
  intro l
  induction l with
  | nil => intro pc; simp [retainKept, retainDropped]
  | cons e es ih =>
    intro pc
    have := ih (pc + 1)
    simp only [retainKept, retainDropped]
    cases env.pred pc e with
    | none => simp only [List.length_cons]; omega
    | some ans =>
      obtain ⟨b, nv⟩ := ans
      cases b <;> simp only [List.length_cons] <;> omega

/-- If every predicate call answered, kept and dropped elements partition the input (up to the
    payloads the predicate rewrote). -/
theorem retain_partition (env : Env) : ∀ (l : List Elem) (pc : Nat),
    (retainKept env pc l).length + (retainDropped env pc l).length = l.length →
    ((retainKept env pc l ++ retainDropped env pc l).map ab_ident).Perm (l.map ab_ident) := by
  intro l
  induction l with
  | nil => intro pc _; simp [retainKept, retainDropped]
  | cons e es ih =>
    intro pc hlen
    have hle := retain_lengths_le env es (pc + 1)
    simp only [retainKept, retainDropped] at hlen ⊢
    cases hp : env.pred pc e with
    | none =>
      rw [hp] at hlen
      simp only [List.length_cons] at hlen
      omega
    | some ans =>
      obtain ⟨b, nv⟩ := ans
      rw [hp] at hlen
      cases b with
      | true =>
        simp only [List.length_cons] at hlen
        have := ih (pc + 1) (by omega)
        simp only [List.cons_append, List.map_cons]
        exact List.Perm.cons _ this
      | false =>
        simp only [List.length_cons] at hlen
        have := ih (pc + 1) (by omega)
        simp only [List.map_append, List.map_cons]
        refine List.perm_middle.trans ?_
        rw [← List.map_append]
        exact List.Perm.cons _ this

/-- `retain`, `.ok`: every element is still present or was dropped, exactly once. -/
theorem retain_accounting (hc : CfgOk cfg) (env : Env) (w w' : World) (h : TInvB cfg w.t)
    (hr : Map.retain cfg env w = .ok w') :
    ∃ ds, w'.log = dropEvs cfg ds.reverse ++ w.log ∧
      ((w'.t.elems ++ ds).map ab_ident).Perm (w.t.elems.map ab_ident) := by
  have := retain_spec hc env w h
  rw [hr] at this
  obtain ⟨_, a2, _, a4, a5⟩ := this
  refine ⟨retainDropped env w.pc w.t.elems, a4, ?_⟩
  rw [a2]
  exact retain_partition env _ _ (by rw [a5, ab_elems_length hc h.1])

/-! ### 5. `extract_if` -/

theorem retainKept_append (env : Env) : ∀ (a b : List Elem) (pc : Nat),
    retainKept env pc (a ++ b) = retainKept env pc a ++ retainKept env (pc + a.length) b := by
  intro a
  induction a with
  | nil => intro b pc; simp [retainKept]
  | cons e es ih =>
    intro b pc
    have hl : pc + (e :: es).length = pc + 1 + es.length := by rw [List.length_cons]; omega
    rw [hl, List.cons_append]
    simp only [retainKept]
    cases env.pred pc e with
    | none => simp only; exact ih b (pc + 1)
    | some ans =>
      obtain ⟨bb, nv⟩ := ans
      cases bb with
      | true => simp only [List.cons_append, ih b (pc + 1)]
      | false => simp only; exact ih b (pc + 1)

theorem retainDropped_append (env : Env) : ∀ (a b : List Elem) (pc : Nat),
    retainDropped env pc (a ++ b) = retainDropped env pc a ++ retainDropped env (pc + a.length) b := by
  intro a
  induction a with
  | nil => intro b pc; simp [retainDropped]
  | cons e es ih =>
    intro b pc
    have hl : pc + (e :: es).length = pc + 1 + es.length := by rw [List.length_cons]; omega
    rw [hl, List.cons_append]
    simp only [retainDropped]
    cases env.pred pc e with
    | none => simp only; exact ih b (pc + 1)
    | some ans =>
      obtain ⟨bb, nv⟩ := ans
      cases bb with
      | false => simp only [List.cons_append, ih b (pc + 1)]
      | true => simp only; exact ih b (pc + 1)

/-- Outcome of one `ExtractIf::next` over the pending elements `l` (prefix `Pel` already decided to
    stay): a run `pre` of elements answered `false` (they stay, with their new payload), then the end
    of the table, a predicate panic, or an element answered `true` (moved out). -/
def ExtractNextPost (cfg : Cfg) (env : Env) (w : World) (Pel l : List Elem) :
    Res (Option Elem × RawIter × World) → Prop
  | .ok (none, _, w') => TInvB cfg w'.t ∧ w'.log = w.log ∧ w'.pc = w.pc + l.length ∧
      retainKept env w.pc l = [] ∧ (retainDropped env w.pc l).length = l.length ∧
      w'.t.elems = Pel ++ retainDropped env w.pc l
  | .ok (some x, it', w') => ∃ pre e post nv, l = pre ++ e :: post ∧ retainKept env w.pc pre = [] ∧
      (retainDropped env w.pc pre).length = pre.length ∧
      env.pred (w.pc + pre.length) e = some (true, nv) ∧ x = { e with v := nv } ∧
      w'.pc = w.pc + pre.length + 1 ∧ TInvB cfg w'.t ∧ w'.log = w.log ∧ IterOk cfg w'.t it' ∧
      ∃ P', w'.t.fullList = P' ++ it'.rem w'.t ∧
        P'.map (ab_elem w'.t) = Pel ++ retainDropped env w.pc pre ∧
        (it'.rem w'.t).map (ab_elem w'.t) = post
  | .panic c w' => c = "pred" ∧ ∃ pre e post, l = pre ++ e :: post ∧ retainKept env w.pc pre = [] ∧
      (retainDropped env w.pc pre).length = pre.length ∧ env.pred (w.pc + pre.length) e = none ∧
      w'.pc = w.pc + pre.length + 1 ∧ TInvB cfg w'.t ∧ w'.log = w.log ∧
      w'.t.elems = Pel ++ retainDropped env w.pc pre ++ e :: post
  | .abort => False
  | .fault _ => False

theorem ExtractNextPost.skip {env : Env} {w w1 : World} {Pel es : List Elem} {e : Elem} {nv : Nat}
    {r : Res (Option Elem × RawIter × World)} (hp : env.pred w.pc e = some (false, nv))
    (hpc : w1.pc = w.pc + 1) (hlog : w1.log = w.log)
    (h : ExtractNextPost cfg env w1 (Pel ++ [{ e with v := nv }]) es r) :
    ExtractNextPost cfg env w Pel (e :: es) r := by
  have hk : ∀ l, retainKept env w.pc (e :: l) = retainKept env w1.pc l := by
    intro l; rw [hpc]; simp [retainKept, hp]
  have hd : ∀ l, retainDropped env w.pc (e :: l) = { e with v := nv } :: retainDropped env w1.pc l := by
    intro l; rw [hpc]; simp [retainDropped, hp]
  match r, h with
  | .ok (none, it', w'), ⟨a1, a2, a3, a4, a5, a6⟩ =>
    refine ⟨a1, a2.trans hlog, by rw [a3, hpc, List.length_cons]; omega, by rw [hk, a4],
      by rw [hd, List.length_cons, a5, List.length_cons], by rw [a6, hd]; simp⟩
  | .ok (some x, it', w'), ⟨pre, e0, post, nv0, b1, b2, b3, b4, b5, b6, b7, b8, b9, P', c1, c2, c3⟩ =>
    refine ⟨e :: pre, e0, post, nv0, by rw [b1]; rfl, by rw [hk, b2],
      by rw [hd, List.length_cons, b3, List.length_cons], ?_, b5, ?_, b7, b8.trans hlog, b9, P', c1, ?_, c3⟩
    · rw [← b4, hpc, List.length_cons]; congr 1; omega
    · rw [b6, hpc, List.length_cons]; omega
    · rw [c2, hd]; simp
  | .panic c w', ⟨c0, pre, e0, post, b1, b2, b3, b4, b5, b6, b7, b8⟩ =>
    refine ⟨c0, e :: pre, e0, post, by rw [b1]; rfl, by rw [hk, b2],
      by rw [hd, List.length_cons, b3, List.length_cons], ?_, ?_, b6, b7.trans hlog, ?_⟩
    · rw [← b4, hpc, List.length_cons]; congr 1; omega
    · rw [b5, hpc, List.length_cons]; omega
    · rw [b8, hd]; simp

theorem extractNext_step_none {env : Env} {fuel : Nat} {it it1 : RawIter} {w : World} {idx : Nat}
    {e : Elem} (h1 : it.next cfg w.t = .ok (some idx, it1)) (he : slotGet w.t idx = .ok e)
    (hp : env.pred w.pc e = none) :
    Map.extractNext cfg env (fuel + 1) it w = .panic "pred" { w with pc := w.pc + 1 } := by
  simp only [Map.extractNext, h1, he, hp]

theorem extractNext_step_skip {env : Env} {fuel : Nat} {it it1 : RawIter} {w : World} {idx : Nat}
    {e : Elem} {nv : Nat} (h1 : it.next cfg w.t = .ok (some idx, it1)) (he : slotGet w.t idx = .ok e)
    (hp : env.pred w.pc e = some (false, nv)) :
    Map.extractNext cfg env (fuel + 1) it w =
      Map.extractNext cfg env fuel it1
        { w with pc := w.pc + 1,
                 t := { w.t with slots := w.t.slots.setIfInBounds idx (some { e with v := nv }) } } := by
  simp only [Map.extractNext, h1, he, hp, Bool.false_eq_true, if_false]

theorem extractNext_step_take {env : Env} {fuel : Nat} {it it1 : RawIter} {w : World} {idx : Nat}
    {e x : Elem} {nv : Nat} {t2 : Raw} (h1 : it.next cfg w.t = .ok (some idx, it1))
    (he : slotGet w.t idx = .ok e) (hp : env.pred w.pc e = some (true, nv))
    (hr : removeAt cfg { w.t with slots := w.t.slots.setIfInBounds idx (some { e with v := nv }) } idx =
      .ok (x, t2)) :
    Map.extractNext cfg env (fuel + 1) it w = .ok (some x, it1, { w with pc := w.pc + 1, t := t2 }) := by
  simp only [Map.extractNext, h1, he, hp, hr, if_true]

theorem extractNext_spec (hc : CfgOk cfg) (env : Env) :
    ∀ (fuel : Nat) (it : RawIter) (w : World) (P : List Nat), TInvB cfg w.t → IterOk cfg w.t it →
      w.t.fullList = P ++ it.rem w.t → (it.rem w.t).length < fuel →
      ExtractNextPost cfg env w (P.map (ab_elem w.t)) ((it.rem w.t).map (ab_elem w.t))
        (Map.extractNext cfg env fuel it w) := by
  intro fuel
  induction fuel with
  | zero => intro it w P _ _ _ h; omega
  | succ fuel ih =>
    intro it w P h hok hdec hf
    obtain ⟨it1, h1, _, _, _⟩ := rawIter_next_spec' (iterGeo_of_inv hc h.1) it hok
    cases hrem : it.rem w.t with
    | nil =>
      rw [hrem] at h1
      rw [Map.extractNext, h1]
      rw [hrem, List.append_nil] at hdec
      exact ⟨h, rfl, by simp, by simp [retainKept], by simp [retainDropped],
        by rw [ab_elems_map hc h.1, hdec]; simp [retainDropped]⟩
    | cons idx xs =>
      rw [hrem] at h1
      simp only [List.head?_cons] at h1
      obtain ⟨h2, hrem', hnot, hib, hif⟩ := ab_next_some hc h.1 hok h1
      have hxs : it1.rem w.t = xs := by
        rw [hrem] at hrem'; exact (List.cons.inj hrem').2.symm
      rw [hrem] at hdec hf
      rw [hxs] at hnot
      have hmem : idx ∈ w.t.fullList := by rw [hdec]; simp
      have he := h.1.ab_full hc hmem
      have hget := ab_slotGet he
      have hnd := ab_nodup_fullList w.t
      rw [hdec] at hnd
      obtain ⟨hnotP, _⟩ := ab_nodup_mid hnd
      have hels : w.t.elems = P.map (ab_elem w.t) ++ ab_elem w.t idx :: xs.map (ab_elem w.t) := by
        rw [ab_elems_map hc h.1, hdec]; simp
      simp only [List.map_cons]
      cases hpred : env.pred w.pc (ab_elem w.t idx) with
      | none =>
        rw [extractNext_step_none h1 hget hpred]
        refine ⟨rfl, [], ab_elem w.t idx, xs.map (ab_elem w.t), rfl, rfl, rfl, by simpa using hpred, rfl,
          h, rfl, ?_⟩
        show w.t.elems = _
        rw [hels]; simp [retainDropped]
      | some ans =>
        obtain ⟨take, nv⟩ := ans
        generalize hE : ({ ab_elem w.t idx with v := nv } : Elem) = e'
        generalize ht1 : ({ w.t with slots := w.t.slots.setIfInBounds idx (some e') } : Raw) = t1
        have hinv1 : Inv cfg t1 := by rw [← ht1]; exact ab_inv_set_payload h.1 he e'
        have hm1 : t1.mask = w.t.mask := by rw [← ht1]
        have hc1 : t1.ctrl = w.t.ctrl := by rw [← ht1]
        have hlo1 : t1.LayoutOk cfg := h.2.of_eq hm1 (by rw [← ht1])
        have hfl1 : t1.fullList = w.t.fullList := ab_fullList_congr hm1 hc1
        have hok1 : IterOk cfg t1 it1 := h2.ab_congr hm1 hc1
        have hrem1 : it1.rem t1 = xs := by rw [ab_rem_congr hm1 hc1, hxs]
        have hslot1 : ∀ j, j ≠ idx → ab_slot t1 j = ab_slot w.t j := by
          intro j hj
          rw [ab_slot_set w.t.slots t1 idx j (some e') (by rw [← ht1]), if_neg (by omega)]
          rfl
        have hslot1i : ab_slot t1 idx = some e' := by
          rw [ab_slot_set w.t.slots t1 idx idx (some e') (by rw [← ht1]),
            if_pos ⟨rfl, ab_slot_lt he⟩]
        cases take with
        | false =>
          rw [extractNext_step_skip h1 hget hpred, hE, ht1]
          have hdec1 : t1.fullList = (P ++ [idx]) ++ it1.rem t1 := by
            rw [hfl1, hdec, hrem1]; simp
          have := ih it1 { w with pc := w.pc + 1, t := t1 } (P ++ [idx]) ⟨hinv1, hlo1⟩ hok1 hdec1
            (by rw [hrem1]; simpa using hf)
          simp only [hrem1, List.map_append, List.map_cons, List.map_nil, ab_elem_of hslot1i,
            ab_map_elem_congr P hnotP hslot1, ab_map_elem_congr xs hnot hslot1] at this
          rw [← hE] at this
          exact ExtractNextPost.skip (w1 := { w with pc := w.pc + 1, t := t1 }) hpred rfl rfl this
        | true =>
          obtain ⟨x, t2, r1, r2, r3, r4, r5, r6, r7, e1, e2, e3⟩ :=
            erase_yielded hc hinv1 hok1 (by rw [hrem1]; exact hnot) (by rw [Raw.buckets, hm1]; exact hib)
              (by rw [ab_ctrlAt_congr hc1]; exact hif)
          have hx : x = e' := by rw [hslot1i] at r2; exact (Option.some.inj r2).symm
          subst hx
          have hlo2 : t2.LayoutOk cfg := hlo1.of_eq r4 r5
          have hfl2 : t2.fullList = P ++ xs := by
            rw [e3, hfl1, hdec]; exact ab_filter_mid hnotP hnot
          have hrem2 : it1.rem t2 = xs := by rw [e2, hrem1]
          have hslot2 : ∀ j, j ≠ idx → ab_slot t2 j = ab_slot w.t j := by
            intro j hj
            rw [ab_slot_set t1.slots t2 idx j none r7, if_neg (by omega)]
            exact hslot1 j hj
          rw [← ht1, ← hE] at r1
          rw [extractNext_step_take h1 hget hpred r1]
          refine ⟨[], ab_elem w.t idx, xs.map (ab_elem w.t), nv, rfl, rfl, rfl, by simpa using hpred,
            rfl, rfl, ⟨r3, hlo2⟩, rfl, e1, P, ?_, ?_, ?_⟩
          · show t2.fullList = P ++ it1.rem t2
            rw [hfl2, hrem2]
          · show P.map (ab_elem t2) = _
            rw [ab_map_elem_congr P hnotP hslot2]; simp [retainDropped]
          · show (it1.rem t2).map (ab_elem t2) = _
            rw [hrem2, ab_map_elem_congr xs hnot hslot2]

theorem ab_take_mid {α} (pre : List α) (e : α) (post : List α) (n : Nat) :
    (pre ++ e :: post).take (pre.length + 1 + n) = pre ++ e :: post.take n := by
  induction pre with
  | nil => simp [show 0 + 1 + n = n + 1 by omega]
  | cons a pre ih =>
    simp only [List.cons_append, List.length_cons]
    rw [show pre.length + 1 + 1 + n = (pre.length + 1 + n) + 1 by omega, List.take_succ_cons, ih]

theorem ab_drop_mid {α} (pre : List α) (e : α) (post : List α) (n : Nat) :
    (pre ++ e :: post).drop (pre.length + 1 + n) = post.drop n := by
  induction pre with
  | nil => simp [show 0 + 1 + n = n + 1 by omega]
  | cons a pre ih =>
    simp only [List.cons_append, List.length_cons]
    rw [show pre.length + 1 + 1 + n = (pre.length + 1 + n) + 1 by omega, List.drop_succ_cons, ih]

/-- Postcondition of `extract_if` + `next` × `k` over the pending elements `l`: `n` elements were
    visited; those answered `true` (`retainKept … (l.take n)`, new payload) were moved out to the
    caller in order, those answered `false` (`retainDropped … (l.take n)`) stay with their new payload,
    the unvisited `l.drop n` stay untouched; nothing is dropped (log unchanged). -/
def ExtractPost (cfg : Cfg) (env : Env) (w : World) (Pel l : List Elem) (k : Nat) (acc : List Elem) :
    Res (List Elem × World) → Prop
  | .ok (out, w') => TInvB cfg w'.t ∧ w'.log = w.log ∧ ∃ n, n ≤ l.length ∧
      out = acc.reverse ++ retainKept env w.pc (l.take n) ∧
      w'.t.elems = Pel ++ retainDropped env w.pc (l.take n) ++ l.drop n ∧ w'.pc = w.pc + n ∧
      (retainKept env w.pc (l.take n)).length + (retainDropped env w.pc (l.take n)).length = n ∧
      (retainKept env w.pc (l.take n)).length ≤ k ∧
      ((retainKept env w.pc (l.take n)).length < k → n = l.length)
  | .panic c w' => c = "pred" ∧ TInvB cfg w'.t ∧ w'.log = w.log ∧ ∃ n x, l[n]? = some x ∧
      env.pred (w.pc + n) x = none ∧
      w'.t.elems = Pel ++ retainDropped env w.pc (l.take n) ++ l.drop n ∧ w'.pc = w.pc + n + 1 ∧
      (retainKept env w.pc (l.take n)).length + (retainDropped env w.pc (l.take n)).length = n ∧
      (retainKept env w.pc (l.take n)).length < k
  | .abort => False
  | .fault _ => False

theorem ExtractPost.after_take {env : Env} {w w1 : World} {Pel pre post acc : List Elem} {e : Elem}
    {nv k : Nat} {r : Res (List Elem × World)}
    (hk0 : retainKept env w.pc pre = []) (hd0 : (retainDropped env w.pc pre).length = pre.length)
    (hp : env.pred (w.pc + pre.length) e = some (true, nv)) (hpc : w1.pc = w.pc + pre.length + 1)
    (hlog : w1.log = w.log)
    (h : ExtractPost cfg env w1 (Pel ++ retainDropped env w.pc pre) post k ({ e with v := nv } :: acc) r) :
    ExtractPost cfg env w Pel (pre ++ e :: post) (k + 1) acc r := by
  have hK : ∀ T, retainKept env w.pc (pre ++ e :: T) = { e with v := nv } :: retainKept env w1.pc T := by
    intro T
    rw [retainKept_append, hk0, hpc]
    simp [retainKept, hp]
  have hD : ∀ T, retainDropped env w.pc (pre ++ e :: T) =
      retainDropped env w.pc pre ++ retainDropped env w1.pc T := by
    intro T
    rw [retainDropped_append, hpc]
    simp [retainDropped, hp]
  match r, h with
  | .ok (out, w'), ⟨a1, a2, n, b1, b2, b3, b4, b5, b6, b7⟩ =>
    refine ⟨a1, a2.trans hlog, pre.length + 1 + n, by simp; omega, ?_, ?_, by rw [b4, hpc]; omega, ?_, ?_, ?_⟩
    · rw [ab_take_mid, hK, b2]; simp
    · rw [ab_take_mid, ab_drop_mid, hD, b3]; simp
    · rw [ab_take_mid, hK, hD, List.length_cons, List.length_append, hd0]; omega
    · rw [ab_take_mid, hK, List.length_cons]; omega
    · rw [ab_take_mid, hK, List.length_cons]
      intro hlt
      have := b7 (by omega)
      simp; omega
  | .panic c w', ⟨c0, a1, a2, n, x, b1, b2, b3, b4, b5, b6⟩ =>
    refine ⟨c0, a1, a2.trans hlog, pre.length + 1 + n, x, ?_, ?_, ?_, by rw [b4, hpc]; omega, ?_, ?_⟩
    · rw [List.getElem?_append_right (by omega)]
      rw [show pre.length + 1 + n - pre.length = n + 1 by omega]
      simpa using b1
    · rw [← b2, hpc]; congr 1; omega
    · rw [ab_take_mid, ab_drop_mid, hD, b3]; simp
    · rw [ab_take_mid, hK, hD, List.length_cons, List.length_append, hd0]; omega
    · rw [ab_take_mid, hK, List.length_cons]; omega

theorem extractIfLoop_spec (hc : CfgOk cfg) (env : Env) :
    ∀ (k : Nat) (it : RawIter) (w : World) (P : List Nat) (acc : List Elem), TInvB cfg w.t →
      IterOk cfg w.t it → w.t.fullList = P ++ it.rem w.t →
      ExtractPost cfg env w (P.map (ab_elem w.t)) ((it.rem w.t).map (ab_elem w.t)) k acc
        (Map.extractIfLoop cfg env k it w acc) := by
  intro k
  induction k with
  | zero =>
    intro it w P acc h hok hdec
    rw [Map.extractIfLoop]
    refine ⟨h, rfl, 0, by simp, by simp [retainKept], ?_, rfl, by simp [retainKept, retainDropped],
      by simp [retainKept], by simp⟩
    rw [ab_elems_map hc h.1, hdec]; simp [retainDropped]
  | succ k ih =>
    intro it w P acc h hok hdec
    have hlen : (it.rem w.t).length < w.t.buckets + 2 := by
      have := fullList_length_le w.t
      have : (it.rem w.t).length ≤ w.t.fullList.length := by rw [hdec]; simp
      omega
    have hnext := extractNext_spec hc env (w.t.buckets + 2) it w P h hok hdec hlen
    rw [Map.extractIfLoop]
    generalize Map.extractNext cfg env (w.t.buckets + 2) it w = r at hnext
    generalize hl : (it.rem w.t).map (ab_elem w.t) = l at hnext ⊢
    match r, hnext with
    | .ok (none, it', w'), ⟨a1, a2, a3, a4, a5, a6⟩ =>
      refine ⟨a1, a2, l.length, Nat.le_refl _, by simp [a4], by simpa using a6, a3,
        by simp [a4, a5], by simp [a4], fun _ => rfl⟩
    | .ok (some x, it', w'), ⟨pre, e, post, nv, b1, b2, b3, b4, b5, b6, b7, b8, b9, P', c1, c2, c3⟩ =>
      subst b5
      have := ih it' w' P' ({ e with v := nv } :: acc) b7 b9 c1
      rw [c2, c3] at this
      rw [b1]
      exact ExtractPost.after_take b2 b3 b4 b6 b8 this
    | .panic c w', ⟨c0, pre, e, post, b1, b2, b3, b4, b5, b6, b7, b8⟩ =>
      refine ⟨c0, b6, b7, pre.length, e, by rw [b1]; simp, b4, ?_, b5, ?_, ?_⟩
      · rw [b1, b8]; simp
      · rw [b1]; simp [b2, b3]
      · rw [b1]; simp [b2]

/-- **5.** `extract_if` with `next` called up to `k` times, then dropped: never faults, never drops
    anything (log unchanged). `n` elements were visited (predicate call numbers `w.pc + position`):
    the returned list is exactly the visited elements answered `true`, with their new payload, in
    order, at most `k`, and if fewer than `k` were returned the whole table was visited; the visited
    elements answered `false` stay with their new payload, the unvisited ones stay untouched; the
    table is valid afterwards. A panicking predicate leaves a valid table with every element not yet
    handed out still present. -/
theorem extractIf_spec (hc : CfgOk cfg) (env : Env) (k : Nat) (w : World) (h : TInvB cfg w.t) :
    match Map.extractIf cfg env k w with
    | .ok (out, w') => TInvB cfg w'.t ∧ w'.log = w.log ∧ ∃ n, n ≤ w.t.items ∧
        out = retainKept env w.pc (w.t.elems.take n) ∧
        w'.t.elems = retainDropped env w.pc (w.t.elems.take n) ++ w.t.elems.drop n ∧
        w'.pc = w.pc + n ∧
        out.length + (retainDropped env w.pc (w.t.elems.take n)).length = n ∧
        out.length ≤ k ∧ (out.length < k → n = w.t.items)
    | .panic c w' => c = "pred" ∧ TInvB cfg w'.t ∧ w'.log = w.log ∧ ∃ n x, w.t.elems[n]? = some x ∧
        env.pred (w.pc + n) x = none ∧
        w'.t.elems = retainDropped env w.pc (w.t.elems.take n) ++ w.t.elems.drop n ∧
        w'.pc = w.pc + n + 1 ∧
        (retainKept env w.pc (w.t.elems.take n)).length +
          (retainDropped env w.pc (w.t.elems.take n)).length = n ∧
        (retainKept env w.pc (w.t.elems.take n)).length < k
    | .abort => False
    | .fault _ => False := by
  obtain ⟨it, h1, _, h3, h4⟩ := rawIter_new_spec' (iterGeo_of_inv hc h.1)
  have hpost := extractIfLoop_spec hc env k it w [] [] h h3 (by rw [h4]; rfl)
  rw [h4, ← ab_elems_map hc h.1] at hpost
  have hlen := ab_elems_length hc h.1
  have hres : Map.extractIf cfg env k w = Map.extractIfLoop cfg env k it w [] := by
    simp only [Map.extractIf, h1]
  rw [hres]
  generalize Map.extractIfLoop cfg env k it w [] = r at hpost ⊢
  match r, hpost with
  | .ok (out, w'), ⟨a1, a2, n, b1, b2, b3, b4, b5, b6, b7⟩ =>
    have hout : out = retainKept env w.pc (w.t.elems.take n) := by simpa using b2
    refine ⟨a1, a2, n, by rw [← hlen]; exact b1, hout, by simpa using b3, b4, by rw [hout]; exact b5,
      by rw [hout]; exact b6, by rw [hout, ← hlen]; exact b7⟩
  | .panic c w', ⟨c0, a1, a2, n, x, b1, b2, b3, b4, b5, b6⟩ =>
    exact ⟨c0, a1, a2, n, x, b1, b2, by simpa using b3, b4, b5, b6⟩
  | .abort, hpost => exact hpost
  | .fault _, hpost => exact hpost

/-! ### 8. `clone` / `clone_from` -/

/-- The clones of `l` made with clone-oracle calls `cc, cc+1, …` (same key and payload, fresh
    identities); stops at the first panicking `Clone`. -/
def cloneList (env : Env) : Nat → List Elem → List Elem
  | _, [] => []
  | cc, e :: es =>
    match env.clone cc e with
    | some (kid, vid) => { e with kid := kid, vid := vid } :: cloneList env (cc + 1) es
    | none => []

/-- `dst'` is `dst` with the slots in `L` filled (control bytes and counters untouched). -/
structure FilledOn (dst dst' : Raw) (L : List Nat) : Prop where
  mask : dst'.mask = dst.mask
  ctrl : dst'.ctrl = dst.ctrl
  items : dst'.items = dst.items
  gl : dst'.gl = dst.gl
  alloc : dst'.alloc = dst.alloc
  size : dst'.slots.size = dst.slots.size
  other : ∀ j, j ∉ L → ab_slot dst' j = ab_slot dst j
  filled : ∀ j, j ∈ L → ab_slot dst' j = some (ab_elem dst' j)

theorem ab_slot_none_get {t : Raw} {i : Nat} (hi : i < t.slots.size) (h : ab_slot t i = none) :
    t.slots[i]? = some none := by
  unfold ab_slot at h
  rw [Array.getElem?_eq_getElem hi] at h ⊢
  simp only [Option.join_some] at h
  rw [h]

theorem cloneLoop_step_some {env : Env} {src dst : Raw} {w : World} {i : Nat} {rest : List Nat}
    {e : Elem} {kid vid : Nat} (he : slotGet src i = .ok e) (hcl : env.clone w.cc e = some (kid, vid))
    (hs : dst.slots[i]? = some none) :
    Map.cloneLoop env src (i :: rest) dst w =
      Map.cloneLoop env src rest
        { dst with slots := dst.slots.setIfInBounds i (some { e with kid := kid, vid := vid }) }
        { w with cc := w.cc + 1 } := by
  simp only [Map.cloneLoop, he, hcl, hs]

theorem cloneLoop_step_none {env : Env} {src dst : Raw} {w : World} {i : Nat} {rest : List Nat}
    {e : Elem} (he : slotGet src i = .ok e) (hcl : env.clone w.cc e = none) :
    Map.cloneLoop env src (i :: rest) dst w = .panic "clone" { w with cc := w.cc + 1, t := dst } := by
  simp only [Map.cloneLoop, he, hcl]

theorem cloneLoop_spec (env : Env) (src : Raw) :
    ∀ (idxs : List Nat) (dst : Raw) (w : World), idxs.Nodup →
      (∀ i ∈ idxs, ∃ e, ab_slot src i = some e) →
      (∀ i ∈ idxs, i < dst.slots.size ∧ ab_slot dst i = none) →
      ∃ n dst', n ≤ idxs.length ∧ FilledOn dst dst' (idxs.take n) ∧
        (idxs.take n).map (ab_elem dst') = cloneList env w.cc (idxs.map (ab_elem src)) ∧
        ((n = idxs.length ∧ Map.cloneLoop env src idxs dst w = .ok (dst', { w with cc := w.cc + n })) ∨
         (n < idxs.length ∧ (∃ i, idxs[n]? = some i ∧ env.clone (w.cc + n) (ab_elem src i) = none) ∧
           Map.cloneLoop env src idxs dst w =
             .panic "clone" { w with cc := w.cc + n + 1, t := dst' })) := by
  intro idxs
  induction idxs with
  | nil =>
    intro dst w _ _ _
    exact ⟨0, dst, Nat.le_refl _, ⟨rfl, rfl, rfl, rfl, rfl, rfl, fun _ _ => rfl, fun _ hj => by cases hj⟩,
      rfl, Or.inl ⟨rfl, rfl⟩⟩
  | cons i rest ih =>
    intro dst w hnd hsrc hdst
    obtain ⟨e, he⟩ := hsrc i List.mem_cons_self
    have hei := ab_elem_of he
    have hget := ab_slotGet he
    obtain ⟨hisz, hinone⟩ := hdst i List.mem_cons_self
    have hnd' := List.nodup_cons.mp hnd
    cases hcl : env.clone w.cc e with
    | none =>
      refine ⟨0, dst, Nat.zero_le _,
        ⟨rfl, rfl, rfl, rfl, rfl, rfl, fun _ _ => rfl, fun _ hj => by simp at hj⟩, ?_,
        Or.inr ⟨by simp, ⟨i, by simp, by rw [hei]; simpa using hcl⟩, ?_⟩⟩
      · simp [cloneList, hei, hcl]
      · rw [cloneLoop_step_none hget hcl]
    | some ids =>
      obtain ⟨kid, vid⟩ := ids
      have hs := ab_slot_none_get hisz hinone
      rw [cloneLoop_step_some hget hcl hs]
      generalize hC : ({ e with kid := kid, vid := vid } : Elem) = c
      generalize hd1 : ({ dst with slots := dst.slots.setIfInBounds i (some c) } : Raw) = dst1
      have hslot1 : ∀ j, ab_slot dst1 j = if i = j ∧ i < dst.slots.size then some c else ab_slot dst j := by
        intro j
        rw [ab_slot_set dst.slots dst1 i j (some c) (by rw [← hd1])]
        rfl
      have hsz1 : dst1.slots.size = dst.slots.size := by rw [← hd1]; simp
      have hdst1 : ∀ j ∈ rest, j < dst1.slots.size ∧ ab_slot dst1 j = none := by
        intro j hj
        have hne : i ≠ j := fun h => hnd'.1 (h ▸ hj)
        obtain ⟨a, b⟩ := hdst j (List.mem_cons_of_mem _ hj)
        refine ⟨by rw [hsz1]; exact a, ?_⟩
        rw [hslot1, if_neg (fun h => hne h.1)]; exact b
      obtain ⟨n, dst', hn, hf, hmap, hres⟩ := ih dst1 { w with cc := w.cc + 1 } hnd'.2
        (fun j hj => hsrc j (List.mem_cons_of_mem _ hj)) hdst1
      have hinot : i ∉ rest.take n := fun h => hnd'.1 (List.mem_of_mem_take h)
      have hsl_i : ab_slot dst' i = some c := by
        rw [hf.other i hinot, hslot1, if_pos ⟨rfl, hisz⟩]
      refine ⟨n + 1, dst', by simp; omega, ?_, ?_, ?_⟩
      · refine ⟨hf.mask.trans (by rw [← hd1]), hf.ctrl.trans (by rw [← hd1]), hf.items.trans (by rw [← hd1]),
          hf.gl.trans (by rw [← hd1]), hf.alloc.trans (by rw [← hd1]), hf.size.trans hsz1, ?_, ?_⟩
        · intro j hj
          simp only [List.take_succ_cons, List.mem_cons, not_or] at hj
          rw [hf.other j hj.2, hslot1, if_neg (fun h => hj.1 h.1.symm)]
        · intro j hj
          simp only [List.take_succ_cons, List.mem_cons] at hj
          rcases hj with rfl | hj
          · rw [hsl_i, ab_elem_of hsl_i]
          · exact hf.filled j hj
      · simp only [List.take_succ_cons, List.map_cons, cloneList, hei, hcl, hC]
        rw [ab_elem_of hsl_i, hmap]
      · rcases hres with ⟨h1, h2⟩ | ⟨h1, ⟨j, hj1, hj2⟩, h3⟩
        · refine Or.inl ⟨by simp [h1], ?_⟩
          rw [h2]
          simp only [Nat.add_assoc, Nat.add_comm 1 n]
        · refine Or.inr ⟨by simp; omega, ⟨j, by simpa using hj1, ?_⟩, ?_⟩
          · rw [← hj2]; congr 1; simp only; omega
          · rw [h3]
            simp only [Nat.add_assoc, Nat.add_comm 1 n]

theorem ab_dropElemQuiet (w : World) (e : Elem) :
    (w.dropElemQuiet cfg e).t = w.t ∧ DropsRel cfg w (w.dropElemQuiet cfg e) [e] := by
  unfold World.dropElemQuiet DropsRel dropEvs
  cases cfg.needsDrop <;> simp

theorem ab_guard_fold (l : List (Option Elem)) : ∀ (w : World),
    (l.foldl (fun w s => match s with | some e => w.dropElemQuiet cfg e | none => w) w).t = w.t ∧
    DropsRel cfg w (l.foldl (fun w s => match s with | some e => w.dropElemQuiet cfg e | none => w) w)
      (l.filterMap id).reverse := by
  induction l with
  | nil => intro w; exact ⟨rfl, DropsRel.refl w w.t⟩
  | cons a l ih =>
    intro w
    cases a with
    | none => simpa using ih w
    | some e =>
      obtain ⟨q1, q2⟩ := ab_dropElemQuiet (cfg := cfg) w e
      obtain ⟨i1, i2⟩ := ih (w.dropElemQuiet cfg e)
      refine ⟨by simpa using i1.trans q1, ?_⟩
      have := q2.trans i2
      simpa using this

/-- The guard of `clone_from_impl` drops every live slot of `dst` exactly once, in bucket order. -/
theorem cloneGuardDrop_spec (dst : Raw) (w : World) :
    (Map.cloneGuardDrop cfg dst w).t = w.t ∧
    DropsRel cfg w (Map.cloneGuardDrop cfg dst w) dst.elems.reverse := by
  unfold Map.cloneGuardDrop Raw.elems
  rw [← Array.foldl_toList]
  exact ab_guard_fold dst.slots.toList w

/-- Contents of a table being filled by `cloneLoop`: empty except for the first `n` full buckets. -/
theorem ab_elems_filled {src dst dst' : Raw} {n : Nat} (hf : FilledOn dst dst' (src.fullList.take n))
    (hm : dst.mask = src.mask) (hct : dst.ctrl = src.ctrl) (hsz : dst.slots.size ≤ dst.buckets)
    (hnone : ∀ j, ab_slot dst j = none) :
    dst'.elems = (src.fullList.take n).map (ab_elem dst') := by
  have hfl : dst'.fullList = src.fullList := ab_fullList_congr (hf.mask.trans hm) (hf.ctrl.trans hct)
  have hb : dst'.buckets = dst.buckets := by simp only [Raw.buckets, hf.mask]
  rw [ab_elems_of dst' (by rw [hf.size, hb]; exact hsz), hfl]
  · conv => lhs; rw [← List.take_append_drop n src.fullList]
    rw [List.filterMap_append]
    have hnd := ab_nodup_fullList src
    rw [← List.take_append_drop n src.fullList] at hnd
    have hdisj := (List.nodup_append.mp hnd).2.2
    have h2 : (src.fullList.drop n).filterMap (ab_slot dst') = [] := by
      rw [List.filterMap_eq_nil_iff]
      intro j hj
      have hnot : j ∉ src.fullList.take n := fun hp => hdisj j hp j hj rfl
      rw [hf.other j hnot]; exact hnone j
    rw [h2, List.append_nil]
    exact ab_filterMap_eq_map _ _ _ (fun j hj => hf.filled j hj)
  · intro j hj hnf
    have hnot : j ∉ src.fullList.take n := by
      intro hin
      have h2 := (mem_fullList dst' j).1 (by rw [hfl]; exact List.mem_of_mem_take hin)
      rw [h2.2] at hnf; cases hnf
    rw [hf.other j hnot]; exact hnone j

/-- A table with the control bytes, mask and counters of a valid allocated table and live slots exactly
    at the full buckets is valid. -/
theorem ab_inv_of_same_ctrl {t t' : Raw} (h : Inv cfg t) (ha : t.alloc = true) (hm : t'.mask = t.mask)
    (hct : t'.ctrl = t.ctrl) (hal : t'.alloc = true) (hit : t'.items = t.items) (hgl : t'.gl = t.gl)
    (hsz : t'.slots.size = t.slots.size)
    (hlive : ∀ i, i < t'.slots.size → ((ab_slot t' i).isSome ↔ isFull (t'.ctrlAt i) = true)) :
    Inv cfg t' := by
  have st := h.struct.transfer ha hct hm hal hsz
  have hF : t'.countCtrl isFull = t.countCtrl isFull :=
    countCtrl_congr hm (fun j _ => by rw [ab_ctrlAt_congr hct])
  have hD : t'.countCtrl (· == DELETED) = t.countCtrl (· == DELETED) :=
    countCtrl_congr hm (fun j _ => by rw [ab_ctrlAt_congr hct])
  refine ⟨st.geom, st.valid, st.mirror, by rw [hit, hF]; exact h.items_eq, ?_, hlive, ?_⟩
  · intro _
    rw [hgl, hF, hD, hm]; exact h.count ha
  · intro hlt
    rw [hD]
    apply h.smallClean
    simpa only [Raw.buckets, hm] using hlt

/-- The block `new_uninitialized` + `fill_empty` produces for `b` buckets. -/
def freshTable (cfg : Cfg) (b : Nat) : Raw :=
  { mask := b - 1, ctrl := Array.replicate (b + cfg.W) EMPTY, slots := Array.replicate b none,
    items := 0, gl := bucketMaskToCapacity (b - 1), alloc := true }

theorem newTable_infallible {env : Env} {b : Nat} {l : Layout} (w : World)
    (hl : calculateLayoutFor cfg.bits cfg.W cfg.size (ctrlAlignOf cfg) b = some l) :
    (env.allocOk w.ac = false → newTable cfg env b .infallible w = .abort) ∧
    (env.allocOk w.ac = true → newTable cfg env b .infallible w =
      .ok (.ok (freshTable cfg b), { w with ac := w.ac + 1, log := .alloc l.size l.align :: w.log })) := by
  constructor
  · intro ha
    simp only [newTable, hl, doAlloc, ha, Bool.false_eq_true, if_false, allocErr]
  · intro ha
    simp only [newTable, hl, doAlloc, ha, if_true, freshTable]

theorem ab_slot_replicate (t : Raw) (n : Nat) (hs : t.slots = Array.replicate n none) (j : Nat) :
    ab_slot t j = none := by
  simp only [ab_slot, hs, Array.getElem?_replicate]
  split <;> rfl

/-- Cloning every element of a valid allocated `src` into an empty block `dst0` with the same
    geometry and control bytes (`clone_from_impl` after the control bytes were copied). -/
theorem cloneInto_spec (hc : CfgOk cfg) (env : Env) {src dst0 : Raw} (w : World) (h : Inv cfg src)
    (hal : src.alloc = true) (hm : dst0.mask = src.mask) (hct : dst0.ctrl = src.ctrl)
    (hal0 : dst0.alloc = true) (hsz : dst0.slots.size = src.slots.size)
    (hnone : ∀ j, ab_slot dst0 j = none) :
    (∃ dst', Map.cloneLoop env src src.fullList dst0 w = .ok (dst', { w with cc := w.cc + src.items }) ∧
      Inv cfg { dst' with items := src.items, gl := src.gl } ∧
      dst'.elems = cloneList env w.cc src.elems ∧ dst'.elems.length = src.elems.length ∧
      dst'.mask = src.mask ∧ dst'.ctrl = src.ctrl ∧ dst'.alloc = true) ∨
    (∃ dst' n x, Map.cloneLoop env src src.fullList dst0 w =
        .panic "clone" { w with cc := w.cc + n + 1, t := dst' } ∧
      src.elems[n]? = some x ∧ env.clone (w.cc + n) x = none ∧
      dst'.elems = cloneList env w.cc src.elems ∧ dst'.elems.length = n ∧
      dst'.mask = src.mask ∧ dst'.ctrl = src.ctrl ∧ dst'.alloc = true ∧
      dst'.slots.size = dst0.slots.size) := by
  have hall := h.allocated hal
  have hsrc : ∀ i ∈ src.fullList, ∃ e, ab_slot src i = some e := fun i hi => ⟨_, h.ab_full hc hi⟩
  have hdst : ∀ i ∈ src.fullList, i < dst0.slots.size ∧ ab_slot dst0 i = none := by
    intro i hi
    refine ⟨?_, hnone i⟩
    rw [hsz, hall.2.2.2.1]; exact ((mem_fullList _ _).1 hi).1
  obtain ⟨n, dst', hn, hf, hmap, hres⟩ :=
    cloneLoop_spec env src src.fullList dst0 w (ab_nodup_fullList src) hsrc hdst
  have hsz0 : dst0.slots.size ≤ dst0.buckets := by
    rw [hsz, hall.2.2.2.1]; simp only [Raw.buckets, hm]; exact Nat.le_refl _
  have hel := ab_elems_filled hf hm hct hsz0 hnone
  rw [hmap, ← ab_elems_map hc h] at hel
  have hlen : dst'.elems.length = n := by
    rw [ab_elems_filled hf hm hct hsz0 hnone, List.length_map, List.length_take]; omega
  have hflen := fullList_length hc h
  rcases hres with ⟨h1, h2⟩ | ⟨h1, ⟨i, hi1, hi2⟩, h3⟩
  · left
    rw [h1, hflen] at h2
    have htake : src.fullList.take n = src.fullList := by rw [h1]; exact List.take_length
    rw [htake] at hf
    refine ⟨dst', h2, ?_, hel, by rw [hlen, h1, ab_elems_length hc h, hflen], hf.mask.trans hm,
      hf.ctrl.trans hct, hf.alloc.trans hal0⟩
    apply ab_inv_of_same_ctrl (t' := { dst' with items := src.items, gl := src.gl }) h hal
      (hf.mask.trans hm) (hf.ctrl.trans hct) (hf.alloc.trans hal0) rfl rfl (hf.size.trans hsz)
    intro j hj
    have hj' : j < src.buckets := by
      have : j < dst'.slots.size := hj
      rw [hf.size, hsz, hall.2.2.2.1] at this; exact this
    show (ab_slot dst' j).isSome ↔ isFull (dst'.ctrlAt j) = true
    rw [ab_ctrlAt_congr (hf.ctrl.trans hct)]
    by_cases hin : j ∈ src.fullList
    · rw [hf.filled j hin]
      simp [((mem_fullList _ _).1 hin).2]
    · rw [hf.other j hin, hnone j]
      have : ¬ isFull (src.ctrlAt j) = true := fun hfull => hin ((mem_fullList _ _).2 ⟨hj', hfull⟩)
      simp [this]
  · right
    refine ⟨dst', n, ab_elem src i, h3, ?_, hi2, hel, hlen, hf.mask.trans hm, hf.ctrl.trans hct,
      hf.alloc.trans hal0, hf.size⟩
    rw [ab_elems_map hc h, List.getElem?_map, hi1]; rfl

/-- **8a.** `RawTable::clone`: never faults. `.ok (nt, w')`: the source is untouched, `nt` is a valid
    table with the same mask, control bytes and counters whose elements are the clones of the source's
    elements position-wise (`cloneList`: same `k`, `v`; identities from the clone oracle's answer for
    call `w.cc + position`), one `alloc` of the block. `.panic "clone"`: the source is untouched,
    every clone made so far was dropped exactly once and the new block was freed (the log gained
    `alloc L`, the drops, `free L` with the same layout). `.abort`: the allocator failed. -/
theorem cloneTable_spec (hc : CfgOk cfg) (env : Env) (w : World) (h : TInvB cfg w.t) :
    match Map.cloneTable cfg env w with
    | .ok (nt, w') => TInvB cfg nt ∧ w'.t = w.t ∧ nt.mask = w.t.mask ∧ nt.ctrl = w.t.ctrl ∧
        nt.items = w.t.items ∧ nt.gl = w.t.gl ∧ nt.alloc = w.t.alloc ∧
        nt.elems = cloneList env w.cc w.t.elems ∧ nt.elems.length = w.t.elems.length ∧
        w'.cc = w.cc + w.t.items ∧
        w'.log = (if w.t.alloc = true then
            [Ev.alloc (layoutOf cfg w.t.buckets).size (layoutOf cfg w.t.buckets).align] else []) ++ w.log
    | .panic c w' => c = "clone" ∧ w'.t = w.t ∧ w.t.alloc = true ∧ ∃ n x, w.t.elems[n]? = some x ∧
        env.clone (w.cc + n) x = none ∧ (cloneList env w.cc w.t.elems).length = n ∧
        w'.cc = w.cc + n + 1 ∧
        w'.log = Ev.free (layoutOf cfg w.t.buckets).size (layoutOf cfg w.t.buckets).align ::
          (dropEvs cfg (cloneList env w.cc w.t.elems).reverse ++
            Ev.alloc (layoutOf cfg w.t.buckets).size (layoutOf cfg w.t.buckets).align :: w.log)
    | .abort => w.t.alloc = true ∧ env.allocOk w.ac = false
    | .fault _ => False := by
  have hse := h.1.isEmptySingleton_eq
  cases hal : w.t.alloc with
  | false =>
    rw [hal] at hse
    have hres : Map.cloneTable cfg env w = .ok (Raw.new cfg.W, w) := by
      simp only [Map.cloneTable, hse, Bool.not_false, if_true]
    rw [hres]
    have hs : w.t.IsSingleton cfg := by
      rcases h.1.geom with hs | ha
      · exact hs
      · rw [ha.1] at hal; cases hal
    obtain ⟨s1, s2, s3, s4, s5, s6⟩ := hs
    have hel : w.t.elems = [] := by rw [Raw.elems, s4]; rfl
    refine ⟨⟨Raw.new_inv hc, Raw.new_layoutOk cfg⟩, rfl, s2.symm, s3.symm, s5.symm, s6.symm, rfl, ?_, ?_,
      by rw [s5]; rfl, by simp⟩
    · rw [hel]; rfl
    · rw [hel]; rfl
  | true =>
    rw [hal] at hse
    have hlo := h.2 hal
    cases hl : calculateLayoutFor cfg.bits cfg.W cfg.size (ctrlAlignOf cfg) w.t.buckets with
    | none => rw [hl] at hlo; cases hlo
    | some l =>
      have hlof := layoutOf_eq hl
      obtain ⟨nt1, nt2⟩ := newTable_infallible (env := env) w hl
      cases hao : env.allocOk w.ac with
      | false =>
        have hres : Map.cloneTable cfg env w = .abort := by
          simp only [Map.cloneTable, hse, Bool.not_true, Bool.false_eq_true, if_false, nt1 hao]
        rw [hres]
        exact ⟨rfl, rfl⟩
      | true =>
        have hall := h.1.allocated hal
        have hbm : w.t.buckets - 1 = w.t.mask := by simp [Raw.buckets]
        generalize hw1 : ({ w with ac := w.ac + 1, log := .alloc l.size l.align :: w.log } : World) = w1 at nt2
        have hinto := cloneInto_spec hc env (src := w.t)
          (dst0 := { freshTable cfg w.t.buckets with ctrl := w.t.ctrl }) w1 h.1 hal hbm rfl rfl
          (by simp [freshTable, hall.2.2.2.1])
          (fun j => ab_slot_replicate _ w.t.buckets rfl j)
        have hfi := fullIndices_spec hc h.1
        rcases hinto with ⟨dst', c1, c2, c3, c4, c5, c6, c7⟩ | ⟨dst', n, x, c1, c2, c3, c4, c5, c6, c7, c8, c9⟩
        · have hres : Map.cloneTable cfg env w =
              .ok ({ dst' with items := w.t.items, gl := w.t.gl },
                   { w1 with cc := w1.cc + w.t.items, t := w.t }) := by
            simp only [Map.cloneTable, hse, Bool.not_true, Bool.false_eq_true, if_false, nt2 hao, hfi, c1]
          rw [hres]
          refine ⟨⟨c2, ?_⟩, rfl, c5, c6, rfl, rfl, c7, c3.trans (by rw [← hw1]), c4, by rw [← hw1], ?_⟩
          · intro _
            show (calculateLayoutFor cfg.bits cfg.W cfg.size (ctrlAlignOf cfg) (dst'.mask + 1)).isSome = true
            rw [c5]; exact hlo
          · rw [← hw1, hlof]; simp
        · have hg := cloneGuardDrop_spec (cfg := cfg) dst' { w1 with cc := w1.cc + n + 1, t := dst' }
          generalize hwg : Map.cloneGuardDrop cfg dst' { w1 with cc := w1.cc + n + 1, t := dst' } = wg at hg
          have hfb := freeBuckets_ok h.2 hal { wg with t := w.t }
          have hres : Map.cloneTable cfg env w = .panic "clone"
              { wg with t := w.t, log := .free (layoutOf cfg w.t.buckets).size (layoutOf cfg w.t.buckets).align :: wg.log } := by
            simp only [Map.cloneTable, hse, Bool.not_true, Bool.false_eq_true, if_false, nt2 hao, hfi, c1, hwg, hfb]
          rw [hres]
          refine ⟨rfl, rfl, rfl, n, x, c2, by rw [← hw1] at c3; exact c3, ?_, ?_, ?_⟩
          · rw [c4, ← hw1] at c5; exact c5
          · show wg.cc = _
            rw [hg.2.2.2.1, ← hw1]
          · show _ :: wg.log = _
            rw [hg.2.log, c4, ← hw1, hlof]

/-! #### `clone_from` -/

def cfGuard (w : World) : World :=
  { w with t := clearNoDrop { w.t with slots := Array.replicate w.t.slots.size none } }

def cfStep2 (cfg : Cfg) (env : Env) (src : Raw) (w1 : World) : Res World :=
  if w1.t.buckets ≠ src.buckets then
    match newTable cfg env src.buckets .infallible w1 with
    | .ok (.error _, _) => .fault "unreachable_unchecked in clone_from"
    | .panic c w' => .panic c (cfGuard w')
    | .abort => .abort
    | .fault f => .fault f
    | .ok (.ok fresh, w2) =>
      let old := w2.t
      let w3 := { w2 with t := fresh }
      if old.isEmptySingleton then .ok w3 else freeBuckets cfg old.mask w3
  else .ok w1

def cfStep3 (cfg : Cfg) (env : Env) (src : Raw) (w4 : World) : Res World :=
  let dst0 := { w4.t with ctrl := src.ctrl }
  match fullIndices cfg src src.items with
  | .error f => .fault f
  | .ok idxs =>
    match Map.cloneLoop env src idxs dst0 w4 with
    | .ok (dst, w5) => .ok { w5 with t := { dst with items := src.items, gl := src.gl } }
    | .panic c w' => .panic c (cfGuard (Map.cloneGuardDrop cfg w'.t w'))
    | .abort => .abort
    | .fault f => .fault f

theorem cloneFrom_eq (env : Env) (src : Raw) (w : World) :
    Map.cloneFrom cfg env src w =
      if src.isEmptySingleton then dropInnerTable cfg env w.t { w with t := Raw.new cfg.W }
      else
        match dropElements cfg env w with
        | .panic c w' => .panic c (cfGuard w')
        | .abort => .abort
        | .fault f => .fault f
        | .ok (true, w1) => .panic "drop" (cfGuard w1)
        | .ok (false, w1) =>
          match cfStep2 cfg env src
              { w1 with t := { w1.t with slots := Array.replicate w1.t.slots.size none } } with
          | .ok w4 => cfStep3 cfg env src w4
          | r => r := by
  rfl
theorem cfGuard_t {w : World} {src : Raw} (hm : w.t.mask = src.mask) (hct : w.t.ctrl = src.ctrl)
    (hal : w.t.alloc = src.alloc) (hsz : w.t.slots.size = src.slots.size) :
    (cfGuard w).t = src.cleared := ab_clearNoDrop_congr hm hct hal hsz

theorem cfStep3_spec (hc : CfgOk cfg) (env : Env) {src : Raw} (w4 : World) (hs : TInvB cfg src)
    (hal : src.alloc = true) (hm : w4.t.mask = src.mask) (hal4 : w4.t.alloc = true)
    (hsz : w4.t.slots.size = src.slots.size) (hnone : ∀ j, ab_slot w4.t j = none) :
    (∃ w', cfStep3 cfg env src w4 = .ok w' ∧ TInvB cfg w'.t ∧ w'.t.mask = src.mask ∧
      w'.t.alloc = true ∧ w'.t.elems = cloneList env w4.cc src.elems ∧
      w'.t.elems.length = src.elems.length ∧ w'.log = w4.log ∧ w'.cc = w4.cc + src.items) ∨
    (∃ w' n x, cfStep3 cfg env src w4 = .panic "clone" w' ∧ w'.t = src.cleared ∧
      src.elems[n]? = some x ∧ env.clone (w4.cc + n) x = none ∧
      (cloneList env w4.cc src.elems).length = n ∧
      w'.log = dropEvs cfg (cloneList env w4.cc src.elems).reverse ++ w4.log ∧ w'.cc = w4.cc + n + 1) := by
  have hfi := fullIndices_spec hc hs.1
  have hinto := cloneInto_spec hc env (src := src) (dst0 := { w4.t with ctrl := src.ctrl }) w4 hs.1 hal
    hm rfl hal4 hsz hnone
  rcases hinto with ⟨dst', c1, c2, c3, c4, c5, c6, c7⟩ | ⟨dst', n, x, c1, c2, c3, c4, c5, c6, c7, c8, c9⟩
  · left
    refine ⟨{ w4 with cc := w4.cc + src.items, t := { dst' with items := src.items, gl := src.gl } }, ?_,
      ⟨c2, ?_⟩, c5, c7, c3, c4, rfl, rfl⟩
    · simp only [cfStep3, hfi, c1]
    · intro _
      show (calculateLayoutFor cfg.bits cfg.W cfg.size (ctrlAlignOf cfg) (dst'.mask + 1)).isSome = true
      rw [c5]; exact hs.2 hal
  · right
    have hg := cloneGuardDrop_spec (cfg := cfg) dst' { w4 with cc := w4.cc + n + 1, t := dst' }
    refine ⟨cfGuard (Map.cloneGuardDrop cfg dst' { w4 with cc := w4.cc + n + 1, t := dst' }), n, x, ?_, ?_,
      c2, c3, by rw [← c4]; exact c5, ?_, ?_⟩
    · simp only [cfStep3, hfi, c1]
    · apply cfGuard_t
      · rw [hg.1]; exact c6
      · rw [hg.1]; exact c7
      · rw [hg.1]; exact c8.trans hal.symm
      · rw [hg.1]; exact c9.trans hsz
    · show (Map.cloneGuardDrop cfg dst' _).log = _
      rw [hg.2.log, c4]
    · show (Map.cloneGuardDrop cfg dst' _).cc = _
      rw [hg.2.2.2.1]

/-- Step 2 of `clone_from`: make the target block have the source's bucket count. -/
theorem cfStep2_spec (env : Env) {src : Raw} (v : World) (hs : TInvB cfg src) (hal : src.alloc = true)
    (hse : v.t.isEmptySingleton = !v.t.alloc) (hlo : v.t.LayoutOk cfg)
    (heq : v.t.buckets = src.buckets → v.t.alloc = true ∧ v.t.slots.size = src.slots.size)
    (hsrcsz : src.slots.size = src.buckets)
    (hnone : ∀ j, ab_slot v.t j = none) :
    (∃ w4, cfStep2 cfg env src v = .ok w4 ∧ w4.t.mask = src.mask ∧ w4.t.alloc = true ∧
      w4.t.slots.size = src.slots.size ∧ (∀ j, ab_slot w4.t j = none) ∧ w4.cc = v.cc ∧
      w4.log = (if v.t.buckets ≠ src.buckets then
          (if v.t.alloc = true then
            [Ev.free (layoutOf cfg v.t.buckets).size (layoutOf cfg v.t.buckets).align] else []) ++
          [Ev.alloc (layoutOf cfg src.buckets).size (layoutOf cfg src.buckets).align] else []) ++ v.log) ∨
    (cfStep2 cfg env src v = .abort ∧ v.t.buckets ≠ src.buckets ∧ env.allocOk v.ac = false) := by
  by_cases hb : v.t.buckets = src.buckets
  · left
    obtain ⟨a1, a2⟩ := heq hb
    refine ⟨v, by simp only [cfStep2, hb, ne_eq, not_true_eq_false, if_false], ?_, a1, a2, hnone, rfl,
      by simp [hb]⟩
    simpa [Raw.buckets] using hb
  · have hlo' := hs.2 hal
    cases hl : calculateLayoutFor cfg.bits cfg.W cfg.size (ctrlAlignOf cfg) src.buckets with
    | none => rw [hl] at hlo'; cases hlo'
    | some l =>
      have hlof := layoutOf_eq hl
      obtain ⟨nt1, nt2⟩ := newTable_infallible (env := env) v hl
      cases hao : env.allocOk v.ac with
      | false =>
        right
        exact ⟨by simp only [cfStep2, ne_eq, hb, not_false_eq_true, if_true, nt1 hao], hb, rfl⟩
      | true =>
        left
        have hfresh : (freshTable cfg src.buckets).mask = src.mask := by simp [freshTable, Raw.buckets]
        have hfsz : (freshTable cfg src.buckets).slots.size = src.slots.size := by
          simp [freshTable, hsrcsz]
        cases hva : v.t.alloc with
        | false =>
          rw [hva] at hse
          refine ⟨{ v with ac := v.ac + 1, log := .alloc l.size l.align :: v.log, t := freshTable cfg src.buckets },
            ?_, hfresh, rfl, hfsz, fun j => ab_slot_replicate _ src.buckets rfl j, rfl, ?_⟩
          · simp only [cfStep2, ne_eq, hb, not_false_eq_true, if_true, nt2 hao, hse, Bool.not_false]
          · simp [hb, hlof]
        | true =>
          rw [hva] at hse
          have hfb := freeBuckets_ok hlo hva
            { v with ac := v.ac + 1, log := .alloc l.size l.align :: v.log, t := freshTable cfg src.buckets }
          refine ⟨{ v with ac := v.ac + 1, t := freshTable cfg src.buckets,
                           log := .free (layoutOf cfg v.t.buckets).size (layoutOf cfg v.t.buckets).align ::
                             .alloc l.size l.align :: v.log },
            ?_, hfresh, rfl, hfsz, fun j => ab_slot_replicate _ src.buckets rfl j, rfl, ?_⟩
          · simp only [cfStep2, ne_eq, hb, not_false_eq_true, if_true, nt2 hao, hse, Bool.not_true,
              Bool.false_eq_true, if_false, hfb]
          · simp [hb, hlof]
/-- Allocator traffic of `clone_from`: when the bucket counts differ the target's old block is freed
    (if it was allocated) and a block with the source's layout is allocated (if the source is
    allocated); listed newest first. -/
def cfBlockEvs (cfg : Cfg) (t src : Raw) : List Ev :=
  if t.buckets ≠ src.buckets then
    (if t.alloc = true then [Ev.free (layoutOf cfg t.buckets).size (layoutOf cfg t.buckets).align] else []) ++
    (if src.alloc = true then
      [Ev.alloc (layoutOf cfg src.buckets).size (layoutOf cfg src.buckets).align] else [])
  else []

/-- Postcondition of `clone_from` (see `cloneFrom_spec`). -/
def CloneFromPost (cfg : Cfg) (env : Env) (src : Raw) (w : World) : Res World → Prop
  | .ok w' => TInvB cfg w'.t ∧ w'.t.mask = src.mask ∧ w'.t.alloc = src.alloc ∧
      w'.t.elems = cloneList env w.cc src.elems ∧ w'.t.elems.length = src.elems.length ∧
      w'.cc = w.cc + src.items ∧
      w'.log = cfBlockEvs cfg w.t src ++ (dropEvs cfg w.t.elems.reverse ++ w.log)
  | .panic c w' => TInvB cfg w'.t ∧ w'.t.elems = [] ∧ w'.t.items = 0 ∧
      ((c = "drop" ∧ ∃ ds e rest, w.t.elems = ds ++ e :: rest ∧
          w'.log = dropEvs cfg (ds ++ [e]).reverse ++ w.log ∧
          env.dropPanics (w.dc + ds.length) e = true) ∨
       (c = "clone" ∧ src.alloc = true ∧ ∃ n x, src.elems[n]? = some x ∧
          env.clone (w.cc + n) x = none ∧ (cloneList env w.cc src.elems).length = n ∧
          w'.log = dropEvs cfg (cloneList env w.cc src.elems).reverse ++
            (cfBlockEvs cfg w.t src ++ (dropEvs cfg w.t.elems.reverse ++ w.log))))
  | .abort => src.alloc = true ∧ w.t.buckets ≠ src.buckets
  | .fault _ => False

theorem cloneFrom_post_singleton (hc : CfgOk cfg) (env : Env) (src : Raw) (w : World)
    (h : TInvB cfg w.t) (hs : TInvB cfg src) (hal : src.alloc = false) :
    CloneFromPost cfg env src w (Map.cloneFrom cfg env src w) := by
  have hse := hs.1.isEmptySingleton_eq
  rw [hal] at hse
  have hsing : src.IsSingleton cfg := by
    rcases hs.1.geom with hx | ha
    · exact hx
    · rw [ha.1] at hal; cases hal
  obtain ⟨_, s2, _, s4, s5, _⟩ := hsing
  have hel : src.elems = [] := by rw [Raw.elems, s4]; rfl
  have hblk : cfBlockEvs cfg w.t src =
      (if w.t.alloc = true then
        [Ev.free (layoutOf cfg w.t.buckets).size (layoutOf cfg w.t.buckets).align] else []) := by
    have hsb : src.buckets = 1 := by simp [Raw.buckets, s2]
    rcases h.1.geom with hx | ha
    · have : w.t.buckets = 1 := by simp [Raw.buckets, hx.2.1]
      simp [cfBlockEvs, hsb, this, hx.1]
    · obtain ⟨k, hk, hb, _⟩ := IsAllocated.mask_eq ha
      have : 2 ^ 2 ≤ 2 ^ k := Nat.pow_le_pow_right (by decide) hk
      have hne : w.t.buckets ≠ 1 := by omega
      simp [cfBlockEvs, hsb, hne, ha.1, hal]
  have hd := dropInnerTable_spec hc env w.t { w with t := Raw.new cfg.W } h
  rw [cloneFrom_eq, hse]
  simp only [Bool.not_false, if_true]
  generalize dropInnerTable cfg env w.t { w with t := Raw.new cfg.W } = r at hd ⊢
  match r, hd with
  | .ok w', ⟨a1, a2, w1, a3, a4⟩ =>
    have ht : w'.t = Raw.new cfg.W := a1
    refine ⟨by rw [ht]; exact ⟨Raw.new_inv hc, Raw.new_layoutOk cfg⟩, by rw [ht, s2]; rfl,
      by rw [ht, hal]; rfl, by rw [ht, hel]; rfl, by rw [ht, hel]; rfl, ?_, ?_⟩
    · rw [a4, s5]; exact a3.2.2.1
    · rw [a2, hblk]; simp
  | .panic c w', ⟨a1, a2, a3, a4, ds, e, rest, b1, b2, b3⟩ =>
    have ht : w'.t = Raw.new cfg.W := a2
    exact ⟨by rw [ht]; exact ⟨Raw.new_inv hc, Raw.new_layoutOk cfg⟩, by rw [ht]; rfl, by rw [ht]; rfl,
      Or.inl ⟨a1, ds, e, rest, b1, b2.log, b3⟩⟩
  | .abort, hd => exact hd.elim
  | .fault _, hd => exact hd.elim

theorem cloneFrom_post_alloc (hc : CfgOk cfg) (env : Env) (src : Raw) (w : World)
    (h : TInvB cfg w.t) (hs : TInvB cfg src) (hal : src.alloc = true) :
    CloneFromPost cfg env src w (Map.cloneFrom cfg env src w) := by
  have hse := hs.1.isEmptySingleton_eq
  rw [hal] at hse
  have hsall := hs.1.allocated hal
  obtain ⟨p, w1, ds, rest, h1, a1, a2, a3, a4, a5, a6, a7, a8, a9, a10, a11⟩ :=
    dropElements_spec hc env w h.1
  obtain ⟨c1, c2, c3, _⟩ := ab_cleared_facts hc h
  rw [cloneFrom_eq, hse, h1]
  simp only [Bool.not_true, Bool.false_eq_true, if_false]
  cases p with
  | true =>
    simp only
    have ht : (cfGuard w1).t = w.t.cleared := cfGuard_t a1 a2 a5 a6
    obtain ⟨_, ds', e, hds, hpan⟩ := a11 rfl
    refine ⟨by rw [ht]; exact c1, by rw [ht]; exact c3, by rw [ht]; exact c2,
      Or.inl ⟨rfl, ds', e, rest, by rw [a7, hds]; simp, ?_, hpan⟩⟩
    show w1.log = _
    rw [a9.log, hds]
  | false =>
    simp only
    have hds : ds = w.t.elems := by
      have := (a10 rfl).1
      rw [this, List.append_nil] at a7
      exact a7.symm
    rw [hds] at a9
    generalize hv : ({ w1 with t := { w1.t with slots := Array.replicate w1.t.slots.size none } } : World) = v
    have hvm : v.t.mask = w.t.mask := by rw [← hv]; exact a1
    have hva : v.t.alloc = w.t.alloc := by rw [← hv]; exact a5
    have hvb : v.t.buckets = w.t.buckets := by simp only [Raw.buckets, hvm]
    have hvsz : v.t.slots.size = w.t.slots.size := by rw [← hv]; simpa using a6
    have hvlog : v.log = dropEvs cfg w.t.elems.reverse ++ w.log := by rw [← hv]; exact a9.log
    have hvcc : v.cc = w.cc := by rw [← hv]; exact a9.2.2.1
    have hvse : v.t.isEmptySingleton = !v.t.alloc := by
      have := h.1.isEmptySingleton_eq
      simp only [Raw.isEmptySingleton] at this ⊢
      rw [hvm, hva]; exact this
    have hstep2 := cfStep2_spec (cfg := cfg) env v hs hal hvse (h.2.of_eq hvm hva)
      (by
        intro hb
        rw [hvb] at hb
        have hmm : w.t.mask = src.mask := by simpa [Raw.buckets] using hb
        have hwa : w.t.alloc = true := by
          have h1 := h.1.isEmptySingleton_eq
          simp only [Raw.isEmptySingleton] at h1 hse
          rw [hmm, hse] at h1
          cases hx : w.t.alloc with
          | true => rfl
          | false => rw [hx] at h1; cases h1
        refine ⟨hva.trans hwa, ?_⟩
        rw [hvsz, (h.1.allocated hwa).2.2.2.1, hsall.2.2.2.1]; exact hb)
      hsall.2.2.2.1
      (fun j => by rw [← hv]; exact ab_slot_replicate _ _ rfl j)
    rcases hstep2 with ⟨w4, s1, s2, s3, s4, s5, s6, s7⟩ | ⟨s1, s2, _⟩
    · rw [s1]
      simp only
      have hblk : w4.log = cfBlockEvs cfg w.t src ++ (dropEvs cfg w.t.elems.reverse ++ w.log) := by
        rw [s7, hvb, hva, hvlog]
        simp [cfBlockEvs, hal]
      rcases cfStep3_spec hc env w4 hs hal s2 s3 s4 s5 with
        ⟨w', r1, r2, r3, r4, r5, r6, r7, r8⟩ | ⟨w', n, x, r1, r2, r3, r4, r5, r6, r7⟩
      · rw [r1]
        exact ⟨r2, r3, by rw [r4, hal], by rw [r5, s6, hvcc], r6, by rw [r8, s6, hvcc], by rw [r7, hblk]⟩
      · rw [r1]
        obtain ⟨d1, d2, d3, _⟩ := ab_cleared_facts hc hs
        rw [s6, hvcc] at r4 r5 r6
        exact ⟨by rw [r2]; exact d1, by rw [r2]; exact d3, by rw [r2]; exact d2,
          Or.inr ⟨rfl, hal, n, x, r3, r4, r5, by rw [r6, hblk]⟩⟩
    · rw [s1]
      exact ⟨hal, by rw [← hvb]; exact s2⟩

/-- **8b.** `RawTable::clone_from` (target `w.t` in any valid state, source `src` valid): never faults.
    `.ok`: the target is a valid table with the source's mask whose elements are the clones of the
    source's elements position-wise (`cloneList`, clone-oracle calls `w.cc + position`); the target's
    old elements were dropped exactly once, in bucket order; the old block was freed iff the bucket
    counts differ and it was allocated (`cfBlockEvs`). `.panic "drop"` (a destructor of an old element
    panicked) / `.panic "clone"` (`Clone` panicked; the clones made so far are dropped exactly once):
    the guard leaves a valid EMPTY table, and the log shows that no element is dropped twice.
    `.abort`: the allocator refused the new block. -/
theorem cloneFrom_spec (hc : CfgOk cfg) (env : Env) (src : Raw) (w : World) (h : TInvB cfg w.t)
    (hs : TInvB cfg src) :
    match Map.cloneFrom cfg env src w with
    | .ok w' => TInvB cfg w'.t ∧ w'.t.mask = src.mask ∧ w'.t.alloc = src.alloc ∧
        w'.t.elems = cloneList env w.cc src.elems ∧ w'.t.elems.length = src.elems.length ∧
        w'.cc = w.cc + src.items ∧
        w'.log = cfBlockEvs cfg w.t src ++ (dropEvs cfg w.t.elems.reverse ++ w.log)
    | .panic c w' => TInvB cfg w'.t ∧ w'.t.elems = [] ∧ w'.t.items = 0 ∧
        ((c = "drop" ∧ ∃ ds e rest, w.t.elems = ds ++ e :: rest ∧
            w'.log = dropEvs cfg (ds ++ [e]).reverse ++ w.log ∧
            env.dropPanics (w.dc + ds.length) e = true) ∨
         (c = "clone" ∧ src.alloc = true ∧ ∃ n x, src.elems[n]? = some x ∧
            env.clone (w.cc + n) x = none ∧ (cloneList env w.cc src.elems).length = n ∧
            w'.log = dropEvs cfg (cloneList env w.cc src.elems).reverse ++
              (cfBlockEvs cfg w.t src ++ (dropEvs cfg w.t.elems.reverse ++ w.log))))
    | .abort => src.alloc = true ∧ w.t.buckets ≠ src.buckets
    | .fault _ => False := by
  have hpost : CloneFromPost cfg env src w (Map.cloneFrom cfg env src w) := by
    cases hal : src.alloc with
    | false => exact cloneFrom_post_singleton hc env src w h hs hal
    | true => exact cloneFrom_post_alloc hc env src w h hs hal
  generalize Map.cloneFrom cfg env src w = r at hpost ⊢
  match r, hpost with
  | .ok w', hpost => exact hpost
  | .panic c w', hpost => exact hpost
  | .abort, hpost => exact hpost
  | .fault _, hpost => exact hpost

/-! ### 9. `==` -/

theorem getInner_total (hc : CfgOk cfg) (hp : ProbeCovers cfg) (env : Env) (k : Nat) (wq : World)
    (hb : Inv cfg wq.t) :
    (∃ r w', Map.getInner cfg env k wq = .ok (r, w') ∧ w'.t = wq.t ∧ w'.log = wq.log ∧
      ∀ idx, r = some idx → idx ∈ wq.t.fullList) ∨
    (∃ c w', Map.getInner cfg env k wq = .panic c w' ∧ (c = "hash" ∨ c = "eq") ∧ w'.t = wq.t ∧
      w'.log = wq.log) := by
  by_cases h0 : wq.t.items = 0
  · left
    exact ⟨none, wq, by simp only [Map.getInner, if_pos h0], rfl, rfl, fun _ h => by cases h⟩
  · cases hh : env.hash wq.hc k with
    | none =>
      right
      refine ⟨"hash", { wq with hc := wq.hc + 1 }, ?_, Or.inl rfl, rfl, rfl⟩
      simp only [Map.getInner, if_neg h0, bind, Res.bind, makeHash, World.hashCall, hh]
    | some hv =>
      have hres : Map.getInner cfg env k wq = find cfg env hv k { wq with hc := wq.hc + 1 } := by
        simp only [Map.getInner, if_neg h0, bind, Res.bind, makeHash, World.hashCall, hh]
      rw [hres]
      rcases find_total hc hp env hv k { wq with hc := wq.hc + 1 } hb with
        ⟨r, w', f1, f2, f3, _, f5⟩ | ⟨w', f1, f2, f3⟩
      · left
        refine ⟨r, w', f1, f2, f3, ?_⟩
        intro idx hr
        obtain ⟨a, b, _⟩ := f5 idx hr
        exact (mem_fullList _ _).2 ⟨a, b⟩
      · right
        exact ⟨"eq", w', f1, Or.inr rfl, f2, f3⟩
/-- Postcondition of the comparison loop over the buckets `idxs` of `a`. -/
def EqPost (cfg : Cfg) (env : Env) (a b : Raw) (idxs : List Nat) (w : World) :
    Res (Bool × World) → Prop
  | .ok (r, w') => w'.log = w.log ∧
      (r = true → ∀ i ∈ idxs, ∃ e' ∈ b.elems, e'.v = (ab_elem a i).v) ∧
      (r = false → ∃ i ∈ idxs, ∃ wq r' wq', wq.t = b ∧ wq.log = w.log ∧
        Map.getInner cfg env (ab_elem a i).k wq = .ok (r', wq') ∧
        (r' = none ∨ ∃ j, r' = some j ∧ (ab_elem b j).v ≠ (ab_elem a i).v))
  | .panic c w' => (c = "hash" ∨ c = "eq") ∧ w'.log = w.log
  | .abort => False
  | .fault _ => False

theorem eqLoop_spec (hc : CfgOk cfg) (hp : ProbeCovers cfg) (env : Env) (a b : Raw) (hb : Inv cfg b) :
    ∀ (idxs : List Nat) (w : World), (∀ i ∈ idxs, ∃ e, ab_slot a i = some e) →
      EqPost cfg env a b idxs w (Map.eqLoop cfg env a b idxs w) := by
  intro idxs
  induction idxs with
  | nil =>
    intro w _
    exact ⟨rfl, (fun _ i hi => by cases hi), (fun h => by cases h)⟩
  | cons i rest ih =>
    intro w hsl
    obtain ⟨e, he⟩ := hsl i List.mem_cons_self
    have hei := ab_elem_of he
    rw [Map.eqLoop, ab_slotGet he]
    simp only
    rcases getInner_total hc hp env e.k { w with t := b } hb with
      ⟨r, w1, g1, g2, g3, g4⟩ | ⟨c, w1, g1, g2, _, g3⟩
    · rw [g1]
      cases r with
      | none =>
        simp only
        refine ⟨g3, (fun h => by cases h), fun _ => ⟨i, List.mem_cons_self, { w with t := b }, none, w1, rfl,
          rfl, by rw [hei]; exact g1, Or.inl rfl⟩⟩
      | some j =>
        simp only
        have hjf := g4 j rfl
        have hjs := hb.ab_full hc hjf
        rw [ab_slotGet hjs]
        simp only
        by_cases hv : e.v = (ab_elem b j).v
        · rw [if_pos hv]
          have hrec := ih w1 (fun k hk => hsl k (List.mem_cons_of_mem _ hk))
          have hlog1 : w1.log = w.log := g3
          generalize Map.eqLoop cfg env a b rest w1 = res at hrec ⊢
          match res, hrec with
          | .ok (r, w'), ⟨q1, q2, q3⟩ =>
            refine ⟨q1.trans hlog1, ?_, ?_⟩
            · intro hr k hk
              rcases List.mem_cons.mp hk with rfl | hk
              · refine ⟨ab_elem b j, ?_, by rw [hei]; exact hv.symm⟩
                rw [ab_elems_map hc hb]; exact List.mem_map_of_mem hjf
              · exact q2 hr k hk
            · intro hr
              obtain ⟨k, hk, wq, r', wq', z1, z2, z3, z4⟩ := q3 hr
              exact ⟨k, List.mem_cons_of_mem _ hk, wq, r', wq', z1, z2.trans hlog1, z3, z4⟩
          | .panic c w', ⟨q1, q2⟩ => exact ⟨q1, q2.trans hlog1⟩
          | .abort, hrec => exact hrec.elim
          | .fault _, hrec => exact hrec.elim
        · rw [if_neg hv]
          refine ⟨g3, (fun h => by cases h), fun _ => ⟨i, List.mem_cons_self, { w with t := b }, some j, w1, rfl,
            rfl, by rw [hei]; exact g1, Or.inr ⟨j, rfl, by rw [hei]; exact fun h => hv h.symm⟩⟩⟩
    · rw [g1]
      exact ⟨g2, g3⟩

/-- **9.** `PartialEq`: never faults (for any, possibly unlawful, hasher / `Eq`); table and log are
    untouched; unequal lengths give `false`; `true` implies equal lengths and that every element of
    `a = w.t` has an element with equal payload in `b` (the one the environment's `find` returned);
    `false` with equal lengths means that for some element of `a` a look-up in `b` (some `get_inner`
    call against `b`) found nothing or an element with a different payload. A panicking hasher / `Eq`
    propagates. -/
theorem mapEq_spec (hc : CfgOk cfg) (hp : ProbeCovers cfg) (env : Env) (b : Raw) (w : World)
    (ha : Inv cfg w.t) (hb : Inv cfg b) :
    match Map.mapEq cfg env b w with
    | .ok (r, w') => w'.t = w.t ∧ w'.log = w.log ∧ (w.t.items ≠ b.items → r = false) ∧
        (r = true → w.t.items = b.items ∧ ∀ e ∈ w.t.elems, ∃ e' ∈ b.elems, e'.v = e.v) ∧
        (r = false → w.t.items ≠ b.items ∨ ∃ e ∈ w.t.elems, ∃ wq r' wq', wq.t = b ∧ wq.log = w.log ∧
          Map.getInner cfg env e.k wq = .ok (r', wq') ∧
          (r' = none ∨ ∃ j, r' = some j ∧ (ab_elem b j).v ≠ e.v))
    | .panic c w' => (c = "hash" ∨ c = "eq") ∧ w'.t = w.t ∧ w'.log = w.log
    | .abort => False
    | .fault _ => False := by
  by_cases hit : w.t.items ≠ b.items
  · have hres : Map.mapEq cfg env b w = .ok (false, w) := by
      simp only [Map.mapEq, if_pos hit]
    rw [hres]
    exact ⟨rfl, rfl, fun _ => rfl, (fun h => by cases h), fun _ => Or.inl hit⟩
  · have hit' : w.t.items = b.items := by
      by_contra hne; exact hit hne
    have hloop := eqLoop_spec hc hp env w.t b hb w.t.fullList w (fun i hi => ⟨_, ha.ab_full hc hi⟩)
    have hel := ab_elems_map hc ha
    have hres : Map.mapEq cfg env b w =
        match Map.eqLoop cfg env w.t b w.t.fullList w with
        | .ok (r, w') => .ok (r, { w' with t := w.t })
        | .panic c w' => .panic c { w' with t := w.t }
        | .abort => .abort
        | .fault f => .fault f := by
      simp only [Map.mapEq, if_neg hit, fullIndices_spec hc ha]
      rfl
    rw [hres]
    generalize Map.eqLoop cfg env w.t b w.t.fullList w = res at hloop ⊢
    match res, hloop with
    | .ok (r, w'), ⟨q1, q2, q3⟩ =>
      refine ⟨rfl, q1, fun hne => absurd hne hit, ?_, ?_⟩
      · intro hr
        refine ⟨hit', ?_⟩
        intro e he
        rw [hel] at he
        obtain ⟨i, hi, rfl⟩ := List.mem_map.mp he
        exact q2 hr i hi
      · intro hr
        right
        obtain ⟨i, hi, rest⟩ := q3 hr
        exact ⟨ab_elem w.t i, by rw [hel]; exact List.mem_map_of_mem hi, rest⟩
    | .panic c w', ⟨q1, q2⟩ => exact ⟨q1, rfl, q2⟩
    | .abort, hloop => exact hloop.elim
    | .fault _, hloop => exact hloop.elim

/-! ### 10. non-vacuity -/

/-- Environment for the examples: keep odd keys and add 10 to every payload; clones get identities
    `100 + call`, `200 + call`; nothing panics. -/
def bulkExEnv : Env :=
  { hash := fun _ _ => some 0, eq := fun _ _ _ => some false,
    clone := fun c _ => some (100 + c, 200 + c),
    pred := fun _ e => some (e.k % 2 == 1, e.v + 10), allocOk := fun _ => true,
    dropPanics := fun _ _ => false }

/-- The 4-bucket table with 3 elements of `Resize.lean` satisfies `TInvB`'s executable part. -/
example : invB { ops := Sse2.ops } resizeExTable = true := by decide

/-- Drain 2 of 3 elements, then drop the `Drain`: the third element is dropped once, the table is
    the same block emptied. -/
example :
    (match Map.drain { ops := Sse2.ops } bulkExEnv 2 false { t := resizeExTable } with
     | .ok (out, w') =>
       out == [⟨1, 1, 1, 1⟩, ⟨2, 2, 2, 2⟩] && w'.log == [.dropV 3, .dropK 3] && w'.dc == 1 &&
       w'.t.items == 0 && w'.t.gl == 3 && w'.t.mask == 3 && w'.t.alloc &&
       invB { ops := Sse2.ops } w'.t
     | _ => false) = true := by
  rfl

/-- `into_iter`, 2 of 3 taken: the third is dropped, the block (52 bytes, align 16) freed. -/
example :
    (match Map.intoIter { ops := Sse2.ops } bulkExEnv 2 { t := resizeExTable } with
     | .ok (out, w') =>
       out == [⟨1, 1, 1, 1⟩, ⟨2, 2, 2, 2⟩] && w'.log == [.free 52 16, .dropV 3, .dropK 3] &&
       w'.t.mask == 0 && !w'.t.alloc
     | _ => false) = true := by
  rfl

/-- `retain(|k, v| { *v += 10; k % 2 == 1 })`: keys 1 and 3 stay with payloads 11 and 13, key 2 is
    dropped once with payload 12. -/
example :
    (match Map.retain { ops := Sse2.ops } bulkExEnv { t := resizeExTable } with
     | .ok w' =>
       w'.t.elems == [⟨1, 1, 1, 11⟩, ⟨3, 3, 3, 13⟩] && w'.log == [.dropV 2, .dropK 2] && w'.pc == 3 &&
       invB { ops := Sse2.ops } w'.t
     | _ => false) = true := by
  rfl

example : retainKept bulkExEnv 0 resizeExTable.elems = [⟨1, 1, 1, 11⟩, ⟨3, 3, 3, 13⟩] := by decide
example : retainDropped bulkExEnv 0 resizeExTable.elems = [⟨2, 2, 2, 12⟩] := by decide

/-- `extract_if` with one `next`: key 1 is handed out (payload 11), the others are untouched. -/
example :
    (match Map.extractIf { ops := Sse2.ops } bulkExEnv 1 { t := resizeExTable } with
     | .ok (out, w') =>
       out == [⟨1, 1, 1, 11⟩] && w'.t.elems == [⟨2, 2, 2, 2⟩, ⟨3, 3, 3, 3⟩] && w'.log == [] &&
       invB { ops := Sse2.ops } w'.t
     | _ => false) = true := by
  rfl

/-- `clone`: same keys and payloads, fresh identities, one allocation. -/
example :
    (match Map.cloneTable { ops := Sse2.ops } bulkExEnv { t := resizeExTable } with
     | .ok (nt, w') =>
       nt.elems == [⟨1, 100, 200, 1⟩, ⟨2, 101, 201, 2⟩, ⟨3, 102, 202, 3⟩] && w'.log == [.alloc 52 16] &&
       invB { ops := Sse2.ops } nt
     | _ => false) = true := by
  rfl

/-- 8 buckets (portable scanner, width 8), no element, one tombstone: a state `erase` can leave. -/
def tombstoneTable : Raw :=
  { mask := 7
    ctrl := #[128, 255, 255, 255, 255, 255, 255, 255, 128, 255, 255, 255, 255, 255, 255, 255]
    slots := Array.replicate 8 none, items := 0, gl := 6, alloc := true }

/-- `clear` on an EMPTY table returns early (`if self.is_empty() { return }`), so tombstones stay and
    `items + growth_left` stays below the capacity: the requested clause
    `w'.t.items + w'.t.gl = bucketMaskToCapacity w.t.mask` of `clear_spec` holds only for
    `w.t.items ≠ 0`. -/
theorem clear_keeps_tombstones :
    invB { ops := Generic.ops } tombstoneTable = true ∧
    (match clear { ops := Generic.ops } bulkExEnv { t := tombstoneTable } with
     | .ok w' => w'.t.items + w'.t.gl == 6 && bucketMaskToCapacity tombstoneTable.mask == 7
     | _ => false) = true := ⟨by decide, by rfl⟩


#print axioms dropElements_spec
#print axioms clear_spec
#print axioms dropInnerTable_spec
#print axioms drain_spec
#print axioms intoIter_spec
#print axioms iterOk_erase_not_pending
#print axioms erase_behind_iterator
#print axioms retain_spec
#print axioms retain_accounting
#print axioms extractIf_spec
#print axioms cloneTable_spec
#print axioms cloneFrom_spec
#print axioms mapEq_spec
#print axioms clear_keeps_tombstones

end Hb
