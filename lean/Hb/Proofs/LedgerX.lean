/-
C03 over the EXTENDED API — ownership ledger ("every element and allocation released exactly once")
for the calls of `MapOpX` (`Hb/Model/MapOpsX.lean`): the basic calls of `MapOp` plus `entry`,
`entry_ref`, `rustc_entry`, `raw_entry_mut` (one complete chain each), `raw_entry`, `try_insert`,
`extend`, `get_many_mut`, `Index`. Extends `step_ledger` / `run_ledger` / `dropAll_ledger` of
`Hb/Proofs/History.lean` (same definitions `kidsOf`, `vidsOf`, `droppedK/V`, `hs_AllocInv`).

Tables (worked out from `Hb/Model/Entry.lean`; cross-checked on the evaluated history `lx_example`):
* `insertedKX / insertedVX : MapOpX → List Nat` — objects the caller passes in: the key object of
  `entry` / `rustc_entry` / `try_insert`, the value object held by the chain (`EChain.heldVid`), the
  key and value objects held by a raw chain (`RawChain.held`), the pairs of `extend`, the element of
  a basic `insert`. `entry_ref(&Q)`: no key object exists before the call; `newkid` names the object
  `K::from(&Q)` makes IF the conversion runs (vacant entry + `insert` / `or_insert` /
  `and_modify().or_insert`, `EChain.refInserts`). It is accounted as passed in, and as handed back
  by `retKX` when the conversion did not run, so that the requested shape of the statement holds.
* `retKX / retVX : MapOpX → RetX → List Nat` — objects handed back BY VALUE: `remove_entry` (pair),
  `OccupiedEntry::remove` (value; the key is dropped), `OccupiedEntry::insert` (replaced value),
  `VacantEntry::into_key` (key), `RawOccupiedEntryMut::insert_key` (replaced key), the rejected
  value of `try_insert`'s `OccupiedError`, and the basic calls' `hs_retK/V`. All other chain results
  are references or nothing. They depend on the chain (from the call) and the `EOut` it produced:
  `EChain.occRetK/occRetV/vacRetK`, `RawChain.occRetK/occRetV`. Every chain is expressible (the
  `EOut` of each chain that hands something back identifies the object), so
  `MapOpX.ledgerCovered` only excludes the `mem::forget`-ed drain — the exclusion `step_ledger`
  already has (`hs_NoForget`).

Main results (element type with drop glue `cfg.needsDrop = true`, `CfgOk cfg`, EVERY environment):
* `stepX_ledger` (= `stepX_ledger_partial` with `op.ledgerCovered = true`): one returned call;
* `runX_ledger_from`, `runX_ledger`: histories whose observations are all returns, from any valid
  table / from `new()`;
* `dropAllX_ledger`: after dropping the collection everything passed in was dropped exactly once or
  returned exactly once, nothing remains allocated, all frees matched;
* `runX_no_double_drop`: with pairwise distinct identities nothing is dropped twice / dropped and
  returned / stored and dropped;
* `lx_example`, `lx_example_ledger`: evaluated 19-call history, hypotheses satisfiable.

Per call: `lx_Eff` (composable effect of a part of a returned call), `lx_chainOcc`, `lx_chainVac`,
`lx_entry`, `lx_tryInsert`, `lx_entryRef`, `lx_rustcEntry`, `lx_rawEntry`, `lx_rawGet`, `lx_index`,
`lx_getManyMut`, `lx_insertMany`, `lx_extend`; primitives `lx_rawInsert`, `lx_reserve`,
`lx_insNoGrow`, `lx_removeAt`, `lx_setVal`, `lx_setKey`, `lx_setPayload`, `lx_dropVal`,
`lx_dropKeyR`; look-ups `lx_entryLook`, `lx_rawLook`, `lx_rustcLook`.
-/
import Hb.Proofs.HistoryX
namespace Hb

variable {cfg : Cfg}

/-! ## tables: what each call takes in and hands back -/

/-- Key object handed back BY VALUE by a chain that ran on an occupied entry and produced `o`
    (`OccupiedEntry::remove_entry`; every other chain returns references, or nothing). -/
def Map.EChain.occRetK (c : Map.EChain) (o : Map.EOut) : List Nat :=
  match c, o with
  | .occRemoveEntry, .elem e => [e.kid]
  | _, _ => []

/-- Value object handed back by value by a chain on an occupied entry: `remove` (the value),
    `remove_entry` (the pair), `OccupiedEntry::insert` (the replaced value). -/
def Map.EChain.occRetV (c : Map.EChain) (o : Map.EOut) : List Nat :=
  match c, o with
  | .occRemove, .val vid _ => [vid]
  | .occRemoveEntry, .elem e => [e.vid]
  | .occInsert _ _, .val vid _ => [vid]
  | _, _ => []

/-- Key object handed back by a chain on a vacant entry: `VacantEntry::into_key`. -/
def Map.EChain.vacRetK (c : Map.EChain) (o : Map.EOut) : List Nat :=
  match c, o with
  | .vacIntoKey, .key _ kid => [kid]
  | _, _ => []

/-- Chains whose vacant side of `entry_ref` converts `&Q` into a key object and stores it. -/
def Map.EChain.refInserts : Map.EChain → Bool
  | .insert _ _ | .orInsert _ _ | .andModifyOrInsert _ _ _ => true
  | _ => false

/-- `RawOccupiedEntryMut::remove_entry` (the pair), `insert_key` (the replaced key object). -/
def Map.RawChain.occRetK (c : Map.RawChain) (o : Map.EOut) : List Nat :=
  match c, o with
  | .occRemoveEntry, .elem e => [e.kid]
  | .occInsertKey _, .key _ kid => [kid]
  | _, _ => []

def Map.RawChain.occRetV (c : Map.RawChain) (o : Map.EOut) : List Nat :=
  match c, o with
  | .occRemove, .val vid _ => [vid]
  | .occRemoveEntry, .elem e => [e.vid]
  | .occInsert _ _, .val vid _ => [vid]
  | _, _ => []

/-- Key objects the caller passes into one extended call. For `entry_ref` no key object exists
    before the call: `newkid` is the identity the object made by `K::from(&Q)` gets IF the
    conversion runs; it is accounted as passed in here and as handed back (`retKX`) when the
    conversion did not run. -/
def insertedKX : MapOpX → List Nat
  | .base op => insertedK [op]
  | .entry _ kid _ => [kid]
  | .entryRef _ newkid _ => [newkid]
  | .rustcEntry _ kid _ => [kid]
  | .rawEntry _ _ _ c => c.held.1.toList
  | .rawGet _ _ _ => []
  | .tryInsert e => [e.kid]
  | .extend items => kidsOf items
  | .getManyMut _ => []
  | .index _ => []

/-- Value objects the caller passes into one extended call. -/
def insertedVX : MapOpX → List Nat
  | .base op => insertedV [op]
  | .entry _ _ c => c.heldVid.toList
  | .entryRef _ _ c => c.heldVid.toList
  | .rustcEntry _ _ c => c.heldVid.toList
  | .rawEntry _ _ _ c => c.held.2.toList
  | .rawGet _ _ _ => []
  | .tryInsert e => [e.vid]
  | .extend items => vidsOf items
  | .getManyMut _ => []
  | .index _ => []

/-- Key objects handed back to the caller by value by call `op` returning `r`. -/
def retKX (op : MapOpX) (r : RetX) : List Nat :=
  match op, r with
  | .base op, .base r => hs_retK op r
  | .entry _ _ c, .ent b o => if b then c.occRetK o else c.vacRetK o
  | .rustcEntry _ _ c, .ent b o => if b then c.occRetK o else c.vacRetK o
  | .entryRef _ newkid c, .ent b o =>
    if b then newkid :: c.occRetK o else if c.refInserts then [] else [newkid]
  | .rawEntry _ _ _ c, .ent b o => if b then c.occRetK o else []
  | _, _ => []

/-- Value objects handed back to the caller by value by call `op` returning `r` (`try_insert` on
    an occupied key: the rejected value travels back inside the `OccupiedError`). -/
def retVX (op : MapOpX) (r : RetX) : List Nat :=
  match op, r with
  | .base op, .base r => hs_retV op r
  | .entry _ _ c, .ent b o => if b then c.occRetV o else []
  | .rustcEntry _ _ c, .ent b o => if b then c.occRetV o else []
  | .entryRef _ _ c, .ent b o => if b then c.occRetV o else []
  | .rawEntry _ _ _ c, .ent b o => if b then c.occRetV o else []
  | .tryInsert e, .ent b _ => if b then [] else [e.vid]
  | _, _ => []

/-! ## 0. the effect of (a part of) a returned call on the ledger -/

/-- Permutation goals between short concrete lists of identities. -/
macro "lx_perm" : tactic =>
  `(tactic| (rw [List.perm_iff_count]; intro x;
             (try simp only [List.count_append, List.count_cons, List.count_nil, Option.toList,
               List.append_nil, List.nil_append]) <;>
             omega))

/-- `w ⟶ w'` wrote the log entries `new`; with `iK`/`iV` the key/value objects that entered the
    accounting (passed in by the caller) and `oK`/`oV` those that left it (handed back to the
    caller): every object stored before or entered is afterwards stored, dropped (in `new`) or has
    left; the allocator invariant is kept. -/
def lx_Eff (cfg : Cfg) (w w' : World) (iK oK iV oV : List Nat) : Prop :=
  ∃ new, w'.log = new ++ w.log ∧
    List.Perm (kidsOf w'.t.elems ++ droppedK new ++ oK) (kidsOf w.t.elems ++ iK) ∧
    List.Perm (vidsOf w'.t.elems ++ droppedV new ++ oV) (vidsOf w.t.elems ++ iV) ∧
    (hs_AllocInv cfg w → hs_AllocInv cfg w')

theorem lx_Eff.trans {a b c : World} {i1 o1 j1 p1 i2 o2 j2 p2 : List Nat}
    (h1 : lx_Eff cfg a b i1 o1 j1 p1) (h2 : lx_Eff cfg b c i2 o2 j2 p2) :
    lx_Eff cfg a c (i1 ++ i2) (o1 ++ o2) (j1 ++ j2) (p1 ++ p2) := by
  obtain ⟨n1, l1, k1, v1, a1⟩ := h1
  obtain ⟨n2, l2, k2, v2, a2⟩ := h2
  refine ⟨n2 ++ n1, by rw [l2, l1, List.append_assoc], ?_, ?_, fun x => a2 (a1 x)⟩
  · rw [hs_droppedK_append]; exact hs_perm_glue k1 k2
  · rw [hs_droppedV_append]; exact hs_perm_glue v1 v2

/-- The in/out lists may be replaced by others with the same balance. -/
theorem lx_Eff.congr {w w' : World} {iK oK iV oV iK' oK' iV' oV' : List Nat}
    (h : lx_Eff cfg w w' iK oK iV oV)
    (hK : List.Perm (oK' ++ iK) (oK ++ iK')) (hV : List.Perm (oV' ++ iV) (oV ++ iV')) :
    lx_Eff cfg w w' iK' oK' iV' oV' := by
  obtain ⟨n, l, k, v, a⟩ := h
  refine ⟨n, l, ?_, ?_, a⟩
  · rw [List.perm_iff_count] at *
    intro x
    have h1 := k x
    have h2 := hK x
    simp only [List.count_append] at *
    omega
  · rw [List.perm_iff_count] at *
    intro x
    have h1 := v x
    have h2 := hV x
    simp only [List.count_append] at *
    omega

/-- Only `t` and `log` of the right-hand world matter. -/
theorem lx_Eff.right {w w1 w2 : World} {iK oK iV oV : List Nat} (h : lx_Eff cfg w w1 iK oK iV oV)
    (ht : w2.t = w1.t) (hl : w2.log = w1.log) : lx_Eff cfg w w2 iK oK iV oV := by
  unfold lx_Eff hs_AllocInv at *
  rw [ht, hl]; exact h

/-- Only `t` and `log` of the left-hand world matter. -/
theorem lx_Eff.left {w0 w w1 : World} {iK oK iV oV : List Nat} (h : lx_Eff cfg w w1 iK oK iV oV)
    (ht : w0.t = w.t) (hl : w0.log = w.log) : lx_Eff cfg w0 w1 iK oK iV oV := by
  unfold lx_Eff hs_AllocInv at *
  rw [ht, hl]; exact h

theorem lx_same {w w' : World} (ht : w'.t = w.t) (hl : w'.log = w.log) :
    lx_Eff cfg w w' [] [] [] [] := by
  refine ⟨[], by rw [hl]; rfl, by rw [ht]; simp [droppedK], by rw [ht]; simp [droppedV], ?_⟩
  unfold hs_AllocInv
  rw [ht, hl]; exact id

/-- Destructor calls on objects that were not stored. -/
theorem lx_drops {w w' : World} {ds : List Ev} (h : Inv cfg w.t) (ht : w'.t = w.t)
    (hl : w'.log = ds ++ w.log) (hd : hs_DropOnly ds) :
    lx_Eff cfg w w' (droppedK ds) [] (droppedV ds) [] := by
  refine ⟨ds, hl, by rw [ht]; simp, by rw [ht]; simp, ?_⟩
  exact hs_allocInv_drops h (by rw [ht]; exact h) hl hd (by rw [ht])

/-- An allocator step (or none) together with a change of the stored elements. -/
theorem lx_astep {w w' : World} {new : List Ev} {iK oK iV oV : List Nat}
    (h : Inv cfg w.t) (h' : Inv cfg w'.t) (hA : hs_AStep cfg w w' new)
    (hK : List.Perm (kidsOf w'.t.elems ++ oK) (kidsOf w.t.elems ++ iK))
    (hV : List.Perm (vidsOf w'.t.elems ++ oV) (vidsOf w.t.elems ++ iV)) :
    lx_Eff cfg w w' iK oK iV oV := by
  refine ⟨new, hA.1, ?_, ?_, hs_allocInv_astep h h' hA⟩
  · rw [hA.dropped.1, List.append_nil]; exact hK
  · rw [hA.dropped.2, List.append_nil]; exact hV

/-- A change of the stored elements inside the same block, nothing logged. -/
theorem lx_inplace {w w' : World} {iK oK iV oV : List Nat}
    (h : Inv cfg w.t) (h' : Inv cfg w'.t) (hl : w'.log = w.log) (hm : w'.t.mask = w.t.mask)
    (hK : List.Perm (kidsOf w'.t.elems ++ oK) (kidsOf w.t.elems ++ iK))
    (hV : List.Perm (vidsOf w'.t.elems ++ oV) (vidsOf w.t.elems ++ iV)) :
    lx_Eff cfg w w' iK oK iV oV :=
  lx_astep h h' ((hs_AStep.refl w).congr hl hm (ag_alloc_eq h h' hm)) hK hV

/-- Predicate on the `.ok` outcome of a computation (nothing is claimed about the others). -/
def lx_R {α : Type} (r : Res α) (P : α → Prop) : Prop :=
  match r with
  | .ok a => P a
  | _ => True

theorem lx_R.bind {α β : Type} {r : Res α} {f : α → Res β} {P : α → Prop} {Q : β → Prop}
    (hr : lx_R r P) (hf : ∀ a, P a → lx_R (f a) Q) : lx_R (r.bind f) Q := by
  cases r with
  | ok a => exact hf a hr
  | panic c w => trivial
  | abort => trivial
  | fault f => trivial

theorem lx_R.onPanic {α : Type} {r : Res α} {P : α → Prop} {g : World → World}
    (hr : lx_R r P) : lx_R (r.onPanic g) P := by
  cases r with
  | ok a => exact hr
  | panic c w => trivial
  | abort => trivial
  | fault f => trivial

theorem lx_R.mono {α : Type} {r : Res α} {P Q : α → Prop} (hr : lx_R r P) (h : ∀ a, P a → Q a) :
    lx_R r Q := by
  cases r with
  | ok a => exact h a hr
  | panic c w => trivial
  | abort => trivial
  | fault f => trivial

theorem lx_R.elim {α : Type} {r : Res α} {P : α → Prop} (hr : lx_R r P) {a : α}
    (h : r = .ok a) : P a := by
  rw [h] at hr; exact hr

/-! ## 1. primitive steps (element type with drop glue) -/

theorem lx_dropVal (hnd : cfg.needsDrop = true) (vid : Nat) (w : World) (h : Inv cfg w.t) :
    lx_Eff cfg w (Map.dropVal cfg vid w) [] [] [vid] [] := by
  have hl : (Map.dropVal cfg vid w).log = [Ev.dropV vid] ++ w.log := by
    unfold Map.dropVal; rw [if_pos hnd]; rfl
  exact lx_drops h (en_dropVal_t vid w) hl
    (fun ev hev => ⟨vid, Or.inr (List.mem_singleton.1 hev)⟩)

theorem lx_dropValOpt (hnd : cfg.needsDrop = true) (vid : Option Nat) (w : World)
    (h : Inv cfg w.t) : lx_Eff cfg w (Map.dropValOpt cfg vid w) [] [] vid.toList [] := by
  cases vid with
  | none => exact lx_same rfl rfl
  | some v => exact lx_dropVal hnd v w h

theorem lx_dropKeyR (hnd : cfg.needsDrop = true) (env : Env) (kid : Nat) (w : World)
    (h : Inv cfg w.t) :
    lx_R (dropKeyR cfg env kid w) (fun w' => w'.t = w.t ∧ lx_Eff cfg w w' [kid] [] [] []) := by
  rcases ag_dropKeyR (cfg := cfg) env kid w with ⟨w', d1, d2, d3⟩ | ⟨w', d1, d2, d3⟩
  · rw [d1]
    rw [if_pos hnd] at d3
    exact ⟨d2, lx_drops h d2 d3 (fun ev hev => ⟨kid, Or.inl (List.mem_singleton.1 hev)⟩)⟩
  · rw [d1]; trivial

/-- `dropKeyR` followed by a return of the resulting world. -/
theorem lx_dropKeyR_ret {α : Type} (hnd : cfg.needsDrop = true) (env : Env) (kid : Nat)
    (w : World) (h : Inv cfg w.t) (out : α) :
    lx_R ((dropKeyR cfg env kid w).bind fun w' => (.ok (out, w') : Res (α × World)))
      (fun a => a.1 = out ∧ a.2.t = w.t ∧ lx_Eff cfg w a.2 [kid] [] [] []) :=
  (lx_dropKeyR hnd env kid w h).bind (fun _ ha => ⟨rfl, ha.1, ha.2⟩)

/-- Overwriting the live slot `idx` (holding `old`) with `e'`. -/
theorem lx_slotSet {w : World} (h : TInv cfg w.t) {idx : Nat} {old : Elem}
    (he : w.t.slots[idx]?.join = some old) (e' : Elem) :
    lx_Eff cfg w { w with t := Map.slotSet w.t idx e' } [e'.kid] [old.kid] [e'.vid] [old.vid] := by
  have hrep := hs_elems_replace he e'
  have hT := en_slotSet_TInv h he e'
  refine lx_inplace h.1 hT.1 rfl rfl ?_ ?_
  · have := hrep.map Elem.kid
    simp only [List.map_cons] at this
    exact (List.perm_append_singleton _ _).trans (this.trans (List.perm_append_singleton _ _).symm)
  · have := hrep.map Elem.vid
    simp only [List.map_cons] at this
    exact (List.perm_append_singleton _ _).trans (this.trans (List.perm_append_singleton _ _).symm)

/-- `*value = new` / `mem::replace(value, new)`. -/
theorem lx_setVal {w : World} (h : TInv cfg w.t) {idx : Nat} {old : Elem}
    (he : w.t.slots[idx]?.join = some old) (vid v : Nat) :
    lx_Eff cfg w { w with t := Map.slotSet w.t idx { old with vid := vid, v := v } }
      [] [] [vid] [old.vid] :=
  (lx_slotSet h he { old with vid := vid, v := v }).congr (by lx_perm) (by lx_perm)

/-- A write through `&mut V` that keeps the value object. -/
theorem lx_setPayload {w : World} (h : TInv cfg w.t) {idx : Nat} {old : Elem}
    (he : w.t.slots[idx]?.join = some old) (nv : Nat) :
    lx_Eff cfg w { w with t := Map.slotSet w.t idx { old with v := nv } } [] [] [] [] :=
  (lx_slotSet h he { old with v := nv }).congr (by lx_perm) (by lx_perm)

/-- `mem::replace(key, new_key)`. -/
theorem lx_setKey {w : World} (h : TInv cfg w.t) {idx : Nat} {old : Elem}
    (he : w.t.slots[idx]?.join = some old) (k kid : Nat) :
    lx_Eff cfg w { w with t := Map.slotSet w.t idx { old with k := k, kid := kid } }
      [kid] [old.kid] [] [] :=
  (lx_slotSet h he { old with k := k, kid := kid }).congr (by lx_perm) (by lx_perm)

/-- `RawTable::remove(bucket)`: the pair leaves the table. -/
theorem lx_removeAt (hc : CfgOk cfg) {w : World} (h : TInv cfg w.t) {idx : Nat} {old : Elem}
    (he : w.t.slots[idx]?.join = some old) :
    ∃ t', removeAt cfg w.t idx = .ok (old, t') ∧ TInv cfg t' ∧ t'.mask = w.t.mask ∧
      lx_Eff cfg w { w with t := t' } [] [old.kid] [] [old.vid] := by
  obtain ⟨hi, hf⟩ := en_live h.1 he
  obtain ⟨x, t', r1, r2, r3, r4, _, r6, r7, _⟩ := removeAt_inv hc h.1 hi hf
  rw [he] at r2
  cases r2
  have hperm : List.Perm (old :: t'.elems) w.t.elems := elems_take_perm (rf_join_some.mp he) r7
  refine ⟨t', r1, h.of_inv r3 r4, r4, lx_inplace h.1 r3 rfl r4 ?_ ?_⟩
  · have := hperm.map Elem.kid
    simp only [List.map_cons] at this
    simpa [kidsOf] using (List.perm_append_singleton _ _).trans this
  · have := hperm.map Elem.vid
    simp only [List.map_cons] at this
    simpa [vidsOf] using (List.perm_append_singleton _ _).trans this

theorem lx_ins_perm {l' l : List Elem} {e : Elem} (hp : List.Perm l' (e :: l)) :
    List.Perm (kidsOf l' ++ []) (kidsOf l ++ [e.kid]) ∧
    List.Perm (vidsOf l' ++ []) (vidsOf l ++ [e.vid]) := by
  constructor
  · have := hp.map Elem.kid
    simp only [List.map_cons] at this
    simpa [kidsOf] using this.trans (List.perm_append_singleton _ _).symm
  · have := hp.map Elem.vid
    simp only [List.map_cons] at this
    simpa [vidsOf] using this.trans (List.perm_append_singleton _ _).symm

theorem lx_perm_same {l' l : List Elem} (hp : List.Perm l' l) :
    List.Perm (kidsOf l' ++ []) (kidsOf l ++ []) ∧ List.Perm (vidsOf l' ++ []) (vidsOf l ++ []) := by
  simp only [List.append_nil]
  exact ⟨hp.map Elem.kid, hp.map Elem.vid⟩

/-- `RawTable::reserve`: same elements, at most an allocator step. -/
theorem lx_reserve (hc : CfgOk cfg) (env : Env) (n : Nat) (w : World) (h : TInv cfg w.t) :
    lx_R (Hb.reserve cfg env n w) (fun w' => TInv cfg w'.t ∧ (0 < n → 0 < w'.t.gl) ∧
      lx_Eff cfg w w' [] [] [] []) := by
  have hres := reserve_spec hc hc.probe env n w h
  have hex := hs_reserve_exact hc hc.probe env n w h
  cases hr : Hb.reserve cfg env n w with
  | ok w1 =>
    rw [hr] at hres hex
    obtain ⟨a1, _, a3, _, a5, _⟩ := hres
    obtain ⟨new, hA⟩ := hex
    exact ⟨a1, fun hn => by omega, lx_astep h.1 a1.1 hA (lx_perm_same a3).1 (lx_perm_same a3).2⟩
  | panic c w' => trivial
  | abort => trivial
  | fault f => trivial

/-- `RawTable::insert`: the element is stored; at most an allocator step is logged. -/
theorem lx_rawInsert (hc : CfgOk cfg) (env : Env) (hash : Nat) (e : Elem) (w : World)
    (h : TInv cfg w.t) :
    lx_R (rawInsert cfg env hash e w)
      (fun a => TInv cfg a.2.t ∧ lx_Eff cfg w a.2 [e.kid] [] [e.vid] []) := by
  have hp := hc.probe
  obtain ⟨slot, hfs, hlt, hsp⟩ := findInsertSlot_ok hc hp h.1 hash
  have hsz : slot < w.t.ctrl.size := by have := h.1.buckets_le_size hc; omega
  unfold rawInsert
  simp only [hfs, ctrlRd_ok hsz]
  by_cases hbr : w.t.gl = 0 ∧ specialIsEmpty (w.t.ctrlAt slot) = true
  · rw [if_pos hbr]
    have hres := reserve_spec hc hp env 1 w h
    have hex := hs_reserve_exact hc hp env 1 w h
    cases hr : reserve cfg env 1 w with
    | ok w1 =>
      rw [hr] at hres hex
      obtain ⟨a1, a2, a3, _, a5, a6, a7, _⟩ := hres
      obtain ⟨new, hA⟩ := hex
      obtain ⟨slot', hfs', hlt', hsp'⟩ := findInsertSlot_ok hc hp a1.1 hash
      obtain ⟨t', b1, b2, b3, b4, _, b6, _⟩ :=
        ag_insertInSlot hc a1 (a6 (by omega)) hlt' hsp' (fun _ => by omega) e hash
      simp only [hfs', b1]
      have hperm := b6.trans (List.Perm.cons e a3)
      have hA' : hs_AStep cfg w { w1 with t := t' } new :=
        hA.congr rfl b3 (by rw [b4, a6 (by omega)])
      exact ⟨b2, lx_astep h.1 b2.1 hA' (lx_ins_perm hperm).1 (lx_ins_perm hperm).2⟩
    | panic c w' => trivial
    | abort => trivial
    | fault f => trivial
  · rw [if_neg hbr]
    have hold := special_cases (h.1.validAt slot) hsp
    have hge : w.t.ctrlAt slot = EMPTY → 0 < w.t.gl := by
      intro he
      have : specialIsEmpty (w.t.ctrlAt slot) = true := by rw [he]; decide
      by_contra hn
      exact hbr ⟨by omega, this⟩
    have ha : w.t.alloc = true := by
      cases hal : w.t.alloc with
      | true => rfl
      | false =>
        exfalso
        have hs := ag_singleton_of_not_alloc h.1 hal
        have h0 : slot = 0 := by have := hs.2.1; simp only [Raw.buckets] at hlt; omega
        have hW : 0 < cfg.W := by rcases hc.W_cases with hW | hW <;> omega
        have hE : w.t.ctrlAt slot = EMPTY := by
          rw [h0]; simp [Raw.ctrlAt, hs.2.2.1, hW]
        have := hge hE
        have := hs.2.2.2.2.2
        omega
    obtain ⟨t', b1, b2, b3, _, _, b6, _⟩ := ag_insertInSlot hc h ha hlt hsp hge e hash
    simp only [b1]
    exact ⟨b2, lx_inplace h.1 b2.1 rfl b3 (lx_ins_perm b6).1 (lx_ins_perm b6).2⟩

/-- The insertion primitive of the vacant entries, followed by a return of the resulting world. -/
theorem lx_insOwned_ret (hc : CfgOk cfg) (env : Env) (hash : Nat) (e : Elem) (w : World)
    (h : TInv cfg w.t) (out : Bool × Map.EOut) :
    lx_R ((Map.insOwned cfg env hash e w).bind fun x => (.ok (out, x.2) : Map.EntRes))
      (fun a => a.1 = out ∧ lx_Eff cfg w a.2 [e.kid] [] [e.vid] []) :=
  ((lx_rawInsert hc env hash e w h).onPanic).bind (fun _ ha => ⟨rfl, ha.2⟩)

theorem lx_insNoGrow (hc : CfgOk cfg) (hash : Nat) (e : Elem) (w : World)
    (h : TInv cfg w.t) (hgl : 0 < w.t.gl) :
    lx_R (Map.insNoGrow cfg hash e w)
      (fun a => TInv cfg a.2.t ∧ lx_Eff cfg w a.2 [e.kid] [] [e.vid] []) := by
  obtain ⟨idx, t', hr, hT, hm, _, hperm, _⟩ := insertNoGrow_spec hc hc.probe h hgl hash e
  simp only [Map.insNoGrow, hr]
  exact ⟨hT, lx_inplace h.1 hT.1 rfl hm (lx_ins_perm hperm).1 (lx_ins_perm hperm).2⟩

/-! ## 2. look-ups -/

/-- `entry()`'s look-up: on the occupied side the key passed in has been dropped. -/
theorem lx_entryLook (hc : CfgOk cfg) (hnd : cfg.needsDrop = true) (env : Env) (k kid : Nat)
    (w : World) (h : Inv cfg w.t) :
    match Map.entryLook cfg env k kid w with
    | .ok ((_, some idx), w') =>
      w'.t = w.t ∧ (∃ e, w.t.slots[idx]?.join = some e) ∧ lx_Eff cfg w w' [kid] [] [] []
    | .ok ((_, none), w') => w'.t = w.t ∧ w'.log = w.log
    | _ => True := by
  rw [en_entryLook_eq]
  rcases en_search_total hc env k w h with ⟨hv, r, w2, k1, k2, k3, k4⟩ | ⟨c, w', k1, k2, _⟩
  · rw [k1]
    simp only [Res.onPanic, Res.bind]
    cases r with
    | none => exact ⟨k2, k3⟩
    | some idx =>
      simp only
      have hd := lx_dropKeyR hnd env kid w2 (by rw [k2]; exact h)
      cases hr : dropKeyR cfg env kid w2 with
      | ok w3 =>
        rw [hr] at hd
        exact ⟨hd.1.trans k2, k4 idx rfl, hd.2.left k2.symm k3.symm⟩
      | panic c w3 => trivial
      | abort => trivial
      | fault f => trivial
  · rw [k1]; trivial

/-- `raw_entry_mut().from_*()`'s look-up: nothing changes hands. -/
theorem lx_rawLook (hc : CfgOk cfg) (env : Env) (mode : Map.RawMode) (ph k : Nat) (w : World)
    (h : Inv cfg w.t) :
    match Map.rawLook cfg env mode ph k w with
    | .ok (some idx, w') => w'.t = w.t ∧ w'.log = w.log ∧ ∃ e, w.t.slots[idx]?.join = some e
    | .ok (none, w') => w'.t = w.t ∧ w'.log = w.log
    | _ => True := by
  have key : ∀ (hv : Nat) (w0 : World), w0.t = w.t → w0.log = w.log →
      match find cfg env hv k w0 with
      | .ok (some idx, w') => w'.t = w.t ∧ w'.log = w.log ∧ ∃ e, w.t.slots[idx]?.join = some e
      | .ok (none, w') => w'.t = w.t ∧ w'.log = w.log
      | _ => True := by
    intro hv w0 h0 hl0
    rcases find_total hc hc.probe env hv k w0 (by rw [h0]; exact h) with
      ⟨r, w', k1, k2, k3, _, k5⟩ | ⟨w', k1, k2, _⟩
    · rw [k1]
      cases r with
      | none => exact ⟨k2.trans h0, k3.trans hl0⟩
      | some idx => exact ⟨k2.trans h0, k3.trans hl0, by rw [← h0]; exact (k5 idx rfl).2.2⟩
    · rw [k1]; trivial
  unfold Map.rawLook
  by_cases hm : mode = .fromKey
  · simp only [hm, if_true]
    cases hh : env.hash w.hc k with
    | none => simp only [ag_makeHash_none hh, rf_bind_panic]
    | some hv =>
      simp only [ag_makeHash_some hh, rf_bind_ok]
      exact key hv _ rfl rfl
  · simp only [hm, if_false, rf_pure, rf_bind_ok]
    exact key ph w rfl rfl

/-- `rustc_entry()`'s look-up: occupied ⇒ the key passed in has been dropped; vacant ⇒
    `reserve(1)` has run (same elements, at most an allocator step). -/
theorem lx_rustcLook (hc : CfgOk cfg) (hnd : cfg.needsDrop = true) (env : Env) (k kid : Nat)
    (w : World) (h : TInv cfg w.t) :
    match Map.rustcLook cfg env k kid w with
    | .ok ((_, some idx), w') =>
      w'.t = w.t ∧ (∃ e, w.t.slots[idx]?.join = some e) ∧ lx_Eff cfg w w' [kid] [] [] []
    | .ok ((_, none), w') => TInv cfg w'.t ∧ 0 < w'.t.gl ∧ lx_Eff cfg w w' [] [] [] []
    | _ => True := by
  rw [en_rustcLook_eq]
  rcases en_search_total hc env k w h.1 with ⟨hv, r, w2, k1, k2, k3, k4⟩ | ⟨c, w', k1, k2, _⟩
  · rw [k1]
    cases r with
    | none =>
      simp only [Res.bind]
      have h2 : TInv cfg w2.t := by rw [k2]; exact h
      have hres := lx_reserve hc env 1 w2 h2
      cases hr : Hb.reserve cfg env 1 w2 with
      | ok w3 =>
        rw [hr] at hres
        simp only [Res.onPanic]
        exact ⟨hres.1, hres.2.1 (by omega), hres.2.2.left k2.symm k3.symm⟩
      | panic c w' => simp only [Res.onPanic]
      | abort => simp only [Res.onPanic]
      | fault f => simp only [Res.onPanic]
    | some idx =>
      simp only [Res.onPanic, Res.bind]
      have hd := lx_dropKeyR hnd env kid w2 (by rw [k2]; exact h.1)
      cases hr : dropKeyR cfg env kid w2 with
      | ok w3 =>
        rw [hr] at hd
        exact ⟨hd.1.trans k2, k4 idx rfl, hd.2.left k2.symm k3.symm⟩
      | panic c w3 => trivial
      | abort => trivial
      | fault f => trivial
  · rw [k1]; trivial

/-! ## 3. chains -/

theorem lx_Eff.to {w w' : World} {iK oK iV oV : List Nat} (h : lx_Eff cfg w w' iK oK iV oV)
    (iK' oK' iV' oV' : List Nat)
    (hK : List.Perm (oK' ++ iK) (oK ++ iK')) (hV : List.Perm (oV' ++ iV) (oV ++ iV')) :
    lx_Eff cfg w w' iK' oK' iV' oV' := h.congr hK hV

/-- Chains on an occupied entry: the held value object (if any) is stored or dropped; `remove`,
    `remove_entry`, `OccupiedEntry::insert` hand objects back. -/
theorem lx_chainOcc (hc : CfgOk cfg) (hnd : cfg.needsDrop = true) (env : Env) (idx : Nat)
    (c : Map.EChain) (w : World) (h : TInv cfg w.t) {old : Elem}
    (he : w.t.slots[idx]?.join = some old) :
    lx_R (Map.chainOcc cfg env idx c w) (fun a => a.1.1 = true ∧
      lx_Eff cfg w a.2 [] (c.occRetK a.1.2) c.heldVid.toList (c.occRetV a.1.2)) := by
  obtain ⟨hi, hf⟩ := en_live h.1 he
  have hsz : idx < w.t.ctrl.size := by have := h.1.buckets_le_size hc; omega
  obtain ⟨t', hr, hT', hm', hrem⟩ := lx_removeAt hc h he
  have hset : ∀ e' : Elem, TInv cfg (Map.slotSet w.t idx e') := fun e' => en_slotSet_TInv h he e'
  unfold Map.chainOcc
  simp only [slotGet_ok he, liftE, rf_bind_ok]
  cases c with
  | insert vid v =>
    exact ⟨rfl, ((lx_setVal h he vid v).trans (lx_dropVal hnd old.vid _ (hset _).1)).to
      [] [] [vid] [] (by lx_perm) (by lx_perm)⟩
  | orInsert vid v => exact ⟨rfl, lx_dropVal hnd vid w h.1⟩
  | orInsertWithKey vid v => exact ⟨rfl, lx_dropVal hnd vid w h.1⟩
  | andModifyOrInsert nv vid v =>
    exact ⟨rfl, ((lx_setPayload h he nv).trans (lx_dropVal hnd vid _ (hset _).1)).to
      [] [] [vid] [] (by lx_perm) (by lx_perm)⟩
  | key => exact ⟨rfl, lx_same rfl rfl⟩
  | drop => exact ⟨rfl, lx_same rfl rfl⟩
  | occRemove =>
    simp only [hr, rf_bind_ok]
    exact (lx_dropKeyR hnd env _ _ hT'.1).bind (fun a ha =>
      ⟨rfl, (hrem.trans ha.2).to [] [] [] [old.vid] (by lx_perm) (by lx_perm)⟩)
  | occRemoveEntry =>
    simp only [hr, rf_bind_ok]
    exact ⟨rfl, hrem⟩
  | occInsert vid v => exact ⟨rfl, lx_setVal h he vid v⟩
  | occGetMut nv => exact ⟨rfl, lx_setPayload h he nv⟩
  | replaceEntryWith keep nv =>
    cases keep with
    | true =>
      simp only [↓reduceIte, en_replace_keep hc h.1 he (fun it => { it with v := nv }), rf_bind_ok]
      exact ⟨rfl, lx_setPayload h he nv⟩
    | false =>
      simp only [Bool.false_eq_true, ↓reduceIte, en_replace_none hsz hr, rf_bind_ok]
      exact (lx_dropKeyR hnd env _ _ (by rw [en_dropVal_t]; exact hT'.1)).bind (fun a ha =>
        ⟨rfl, ((hrem.trans (lx_dropVal hnd old.vid _ hT'.1)).trans ha.2).to [] [] [] []
          (by lx_perm) (by lx_perm)⟩)
  | andReplaceEntryWith keep nv =>
    cases keep with
    | true =>
      simp only [↓reduceIte, en_replace_keep hc h.1 he (fun it => { it with v := nv }), rf_bind_ok]
      exact ⟨rfl, lx_setPayload h he nv⟩
    | false =>
      simp only [Bool.false_eq_true, ↓reduceIte, en_replace_none hsz hr, rf_bind_ok]
      exact (lx_dropKeyR hnd env _ _ (by rw [en_dropVal_t]; exact hT'.1)).bind (fun a ha =>
        ⟨rfl, ((hrem.trans (lx_dropVal hnd old.vid _ hT'.1)).trans ha.2).to [] [] [] []
          (by lx_perm) (by lx_perm)⟩)
  | vacInsert vid v => exact ⟨rfl, lx_dropVal hnd vid w h.1⟩
  | vacInsertEntry vid v => exact ⟨rfl, lx_dropVal hnd vid w h.1⟩
  | vacIntoKey => exact ⟨rfl, lx_same rfl rfl⟩

/-- Chains on a vacant entry holding the key object `kid`: key and held value are stored together,
    or dropped, or (`into_key`) the key is handed back. -/
theorem lx_chainVac (hnd : cfg.needsDrop = true) (env : Env)
    (ins : Elem → World → Res (Nat × World)) (k kid : Nat) (c : Map.EChain) (w : World)
    (h : TInv cfg w.t)
    (hins : ∀ e, lx_R (ins e w)
      (fun a => TInv cfg a.2.t ∧ lx_Eff cfg w a.2 [e.kid] [] [e.vid] [])) :
    lx_R (Map.chainVac cfg env ins k kid c w) (fun a => a.1.1 = false ∧
      lx_Eff cfg w a.2 [kid] (c.vacRetK a.1.2) c.heldVid.toList []) := by
  have hput : ∀ (e : Elem) (out : Map.EOut),
      lx_R ((ins e w).bind fun x => (.ok ((false, out), x.2) : Map.EntRes))
        (fun a => a.1 = (false, out) ∧ lx_Eff cfg w a.2 [e.kid] [] [e.vid] []) :=
    fun e out => (hins e).bind (fun a ha => ⟨rfl, ha.2⟩)
  have hdrop : ∀ (out : Map.EOut) (w0 : World), w0.t = w.t →
      lx_R ((dropKeyR cfg env kid w0).bind fun w' => (.ok ((false, out), w') : Map.EntRes))
        (fun a => a.1 = (false, out) ∧ lx_Eff cfg w0 a.2 [kid] [] [] []) :=
    fun out w0 h0 => (lx_dropKeyR hnd env kid w0 (by rw [h0]; exact h.1)).bind
      (fun a ha => ⟨rfl, ha.2⟩)
  cases c <;> simp only [Map.chainVac]
  case insert vid v => exact (hput _ _).mono (fun a ha => by rw [ha.1]; exact ⟨rfl, ha.2⟩)
  case vacInsertEntry vid v => exact (hput _ _).mono (fun a ha => by rw [ha.1]; exact ⟨rfl, ha.2⟩)
  case orInsert vid v => exact (hput _ _).mono (fun a ha => by rw [ha.1]; exact ⟨rfl, ha.2⟩)
  case vacInsert vid v => exact (hput _ _).mono (fun a ha => by rw [ha.1]; exact ⟨rfl, ha.2⟩)
  case andModifyOrInsert nv vid v =>
    exact (hput _ _).mono (fun a ha => by rw [ha.1]; exact ⟨rfl, ha.2⟩)
  case orInsertWithKey vid v =>
    exact (hput _ _).mono (fun a ha => by rw [ha.1]; exact ⟨rfl, ha.2⟩)
  case key => exact (hdrop _ _ rfl).mono (fun a ha => by rw [ha.1]; exact ⟨rfl, ha.2⟩)
  case drop => exact (hdrop _ _ rfl).mono (fun a ha => by rw [ha.1]; exact ⟨rfl, ha.2⟩)
  case occRemove => exact (hdrop _ _ rfl).mono (fun a ha => by rw [ha.1]; exact ⟨rfl, ha.2⟩)
  case occRemoveEntry => exact (hdrop _ _ rfl).mono (fun a ha => by rw [ha.1]; exact ⟨rfl, ha.2⟩)
  case occGetMut nv => exact (hdrop _ _ rfl).mono (fun a ha => by rw [ha.1]; exact ⟨rfl, ha.2⟩)
  case replaceEntryWith keep nv =>
    exact (hdrop _ _ rfl).mono (fun a ha => by rw [ha.1]; exact ⟨rfl, ha.2⟩)
  case andReplaceEntryWith keep nv =>
    exact (hdrop _ _ rfl).mono (fun a ha => by rw [ha.1]; exact ⟨rfl, ha.2⟩)
  case occInsert vid v =>
    exact (hdrop _ _ (en_dropVal_t _ _)).mono (fun a ha => by
      rw [ha.1]; exact ⟨rfl, (lx_dropVal hnd vid w h.1).trans ha.2⟩)
  case vacIntoKey =>
    exact ⟨rfl, (lx_same rfl rfl).to [kid] [kid] [] [] (by lx_perm) (by lx_perm)⟩

/-! ## 4. `entry`, `try_insert`, `entry_ref`, `rustc_entry` -/

theorem lx_entry (hc : CfgOk cfg) (hnd : cfg.needsDrop = true) (env : Env) (k kid : Nat)
    (c : Map.EChain) (w : World) (h : TInv cfg w.t) :
    lx_R (Map.entry cfg env k kid c w) (fun a =>
      lx_Eff cfg w a.2 [kid] (if a.1.1 then c.occRetK a.1.2 else c.vacRetK a.1.2)
        c.heldVid.toList (if a.1.1 then c.occRetV a.1.2 else [])) := by
  have hl := lx_entryLook hc hnd env k kid w h.1
  unfold Map.entry
  cases hr : Map.entryLook cfg env k kid w with
  | ok x =>
    obtain ⟨⟨hv, r⟩, w1⟩ := x
    rw [hr] at hl
    simp only [Res.onPanic, Res.bind]
    cases r with
    | none =>
      have a1 : TInv cfg w1.t := by rw [hl.1]; exact h
      refine (lx_chainVac hnd env _ k kid c w1 a1
        (fun e => (lx_rawInsert hc env hv e w1 a1).onPanic)).mono (fun a ha => ?_)
      simp only [ha.1, Bool.false_eq_true, if_false]
      exact ha.2.left hl.1.symm hl.2.symm
    | some idx =>
      obtain ⟨a1, ⟨e, a2⟩, eff⟩ := hl
      refine (lx_chainOcc hc hnd env idx c w1 (by rw [a1]; exact h) (by rw [a1]; exact a2)).mono
        (fun a ha => ?_)
      simp only [ha.1, if_true]
      exact eff.trans ha.2
  | panic c' w' => trivial
  | abort => trivial
  | fault f => trivial

theorem lx_tryInsert (hc : CfgOk cfg) (hnd : cfg.needsDrop = true) (env : Env) (e : Elem)
    (w : World) (h : TInv cfg w.t) :
    lx_R (Map.tryInsert cfg env e w) (fun a =>
      lx_Eff cfg w a.2 [e.kid] [] [e.vid] (if a.1.1 then [] else [e.vid])) := by
  have hl := lx_entryLook hc hnd env e.k e.kid w h.1
  unfold Map.tryInsert
  cases hr : Map.entryLook cfg env e.k e.kid w with
  | ok x =>
    obtain ⟨⟨hv, r⟩, w1⟩ := x
    rw [hr] at hl
    simp only [Res.onPanic, Res.bind]
    cases r with
    | none =>
      have a1 : TInv cfg w1.t := by rw [hl.1]; exact h
      refine (lx_insOwned_ret hc env hv e w1 a1 _).mono (fun a ha => ?_)
      simp only [ha.1, if_true]
      exact ha.2.left hl.1.symm hl.2.symm
    | some idx =>
      obtain ⟨a1, ⟨x, a2⟩, eff⟩ := hl
      have a2' : w1.t.slots[idx]?.join = some x := by rw [a1]; exact a2
      simp only [slotGet_ok a2', liftE]
      exact eff.to [e.kid] [] [e.vid] [e.vid] (by lx_perm) (by lx_perm)
  | panic c' w' => trivial
  | abort => trivial
  | fault f => trivial

theorem lx_entryRef (hc : CfgOk cfg) (hnd : cfg.needsDrop = true) (env : Env) (k newkid : Nat)
    (c : Map.EChain) (w : World) (h : TInv cfg w.t) :
    lx_R (Map.entryRef cfg env k newkid c w) (fun a =>
      lx_Eff cfg w a.2 [newkid]
        (if a.1.1 then newkid :: c.occRetK a.1.2 else if c.refInserts then [] else [newkid])
        c.heldVid.toList (if a.1.1 then c.occRetV a.1.2 else [])) := by
  rw [en_entryRef_eq]
  rcases en_search_total hc env k w h.1 with ⟨hv, r, w1, k1, k2, k3, k4⟩ | ⟨c', w', k1, k2, _⟩
  · rw [k1]
    simp only [Res.onPanic, en_bind_ok]
    have a1 : TInv cfg w1.t := by rw [k2]; exact h
    have sh : ∀ {w' : World} {iK oK iV oV : List Nat}, lx_Eff cfg w1 w' iK oK iV oV →
        lx_Eff cfg w w' iK oK iV oV := fun e => e.left k2.symm k3.symm
    have hins : ∀ (e : Elem) (out : Bool × Map.EOut),
        lx_R ((Map.insOwned cfg env hv e w1).bind fun x => (.ok (out, x.2) : Map.EntRes))
          (fun a => a.1 = out ∧ lx_Eff cfg w a.2 [e.kid] [] [e.vid] []) :=
      fun e out => (lx_insOwned_ret hc env hv e w1 a1 out).mono (fun a ha => ⟨ha.1, sh ha.2⟩)
    cases r with
    | some idx =>
      obtain ⟨x, hx⟩ := k4 idx rfl
      have hx1 : w1.t.slots[idx]?.join = some x := by rw [k2]; exact hx
      have hocc := (lx_chainOcc hc hnd env idx c w1 a1 hx1).mono (Q := fun a =>
        lx_Eff cfg w a.2 [newkid]
          (if a.1.1 then newkid :: c.occRetK a.1.2 else if c.refInserts then [] else [newkid])
          c.heldVid.toList (if a.1.1 then c.occRetV a.1.2 else [])) (fun a ha => by
        simp only [ha.1, if_true]
        exact (sh ha.2).to _ _ _ _ (by lx_perm) (by lx_perm))
      cases c
      case key =>
        simp only [en_refCont, slotGet_ok hx1, liftE, en_bind_ok]
        exact (sh (lx_same rfl rfl)).to [newkid] [newkid] [] [] (by lx_perm) (by lx_perm)
      all_goals exact hocc
    | none =>
      cases c
      case key =>
        exact (sh (lx_same rfl rfl)).to [newkid] [newkid] [] [] (by lx_perm) (by lx_perm)
      case insert vid v => exact (hins _ _).mono (fun a ha => by rw [ha.1]; exact ha.2)
      case orInsert vid v => exact (hins _ _).mono (fun a ha => by rw [ha.1]; exact ha.2)
      case andModifyOrInsert nv vid v =>
        exact (hins _ _).mono (fun a ha => by rw [ha.1]; exact ha.2)
      all_goals
        exact (sh (lx_dropValOpt hnd _ w1 a1.1)).to [newkid] [newkid] _ [] (by lx_perm) (by lx_perm)
  · rw [k1]; trivial

theorem lx_rustcEntry (hc : CfgOk cfg) (hnd : cfg.needsDrop = true) (env : Env) (k kid : Nat)
    (c : Map.EChain) (w : World) (h : TInv cfg w.t) :
    lx_R (Map.rustcEntry cfg env k kid c w) (fun a =>
      lx_Eff cfg w a.2 [kid] (if a.1.1 then c.occRetK a.1.2 else c.vacRetK a.1.2)
        c.heldVid.toList (if a.1.1 then c.occRetV a.1.2 else [])) := by
  have hl := lx_rustcLook hc hnd env k kid w h
  unfold Map.rustcEntry
  cases hr : Map.rustcLook cfg env k kid w with
  | ok x =>
    obtain ⟨⟨hv, r⟩, w1⟩ := x
    rw [hr] at hl
    simp only [Res.onPanic, Res.bind]
    cases r with
    | none =>
      obtain ⟨a1, a2, eff⟩ := hl
      refine (lx_chainVac hnd env _ k kid c w1 a1
        (fun e => lx_insNoGrow hc hv e w1 a1 a2)).mono (fun a ha => ?_)
      simp only [ha.1, Bool.false_eq_true, if_false]
      exact eff.trans ha.2
    | some idx =>
      obtain ⟨a1, ⟨e, a2⟩, eff⟩ := hl
      refine (lx_chainOcc hc hnd env idx c w1 (by rw [a1]; exact h) (by rw [a1]; exact a2)).mono
        (fun a ha => ?_)
      simp only [ha.1, if_true]
      exact eff.trans ha.2
  | panic c' w' => trivial
  | abort => trivial
  | fault f => trivial

/-! ## 5. `raw_entry_mut`, `raw_entry` -/

theorem lx_rawEntry (hc : CfgOk cfg) (hnd : cfg.needsDrop = true) (env : Env) (mode : Map.RawMode)
    (ph k : Nat) (c : Map.RawChain) (w : World) (h : TInv cfg w.t) :
    lx_R (Map.rawEntry cfg env mode ph k c w) (fun a =>
      lx_Eff cfg w a.2 c.held.1.toList (if a.1.1 then c.occRetK a.1.2 else [])
        c.held.2.toList (if a.1.1 then c.occRetV a.1.2 else [])) := by
  have hl := lx_rawLook hc env mode ph k w h.1
  unfold Map.rawEntry
  cases hr : Map.rawLook cfg env mode ph k w with
  | ok x =>
    obtain ⟨r, w1⟩ := x
    rw [hr] at hl
    simp only [Res.onPanic, en_bind_ok]
    cases r with
    | some idx =>
      obtain ⟨a1, alog, old, a2⟩ := hl
      have hT : TInv cfg w1.t := by rw [a1]; exact h
      have he : w1.t.slots[idx]?.join = some old := by rw [a1]; exact a2
      have sh : ∀ {w' : World} {iK oK iV oV : List Nat}, lx_Eff cfg w1 w' iK oK iV oV →
          lx_Eff cfg w w' iK oK iV oV := fun e => e.left a1.symm alog.symm
      obtain ⟨hi, hf⟩ := en_live hT.1 he
      have hsz : idx < w1.t.ctrl.size := by have := hT.1.buckets_le_size hc; omega
      obtain ⟨t', hrm, hT', hm', hrem⟩ := lx_removeAt hc hT he
      have hset : ∀ e' : Elem, TInv cfg (Map.slotSet w1.t idx e') := fun e' => en_slotSet_TInv hT he e'
      simp only [slotGet_ok he, liftE, rf_bind_ok]
      cases c with
      | insert kid vid v =>
        exact (lx_dropKeyR hnd env _ _ (by rw [en_dropVal_t]; exact (hset _).1)).bind (fun a ha =>
          (sh (((lx_setVal hT he vid v).trans (lx_dropVal hnd old.vid _ (hset _).1)).trans ha.2)).to
            [kid] [] [vid] [] (by lx_perm) (by lx_perm))
      | orInsert kid vid v =>
        exact (lx_dropKeyR hnd env _ _ (by rw [en_dropVal_t]; exact hT.1)).bind (fun a ha =>
          (sh ((lx_dropVal hnd vid _ hT.1).trans ha.2)).to [kid] [] [vid] []
            (by lx_perm) (by lx_perm))
      | vacInsert kid vid v =>
        exact (lx_dropKeyR hnd env _ _ (by rw [en_dropVal_t]; exact hT.1)).bind (fun a ha =>
          (sh ((lx_dropVal hnd vid _ hT.1).trans ha.2)).to [kid] [] [vid] []
            (by lx_perm) (by lx_perm))
      | vacInsertHashed kid vid v =>
        exact (lx_dropKeyR hnd env _ _ (by rw [en_dropVal_t]; exact hT.1)).bind (fun a ha =>
          (sh ((lx_dropVal hnd vid _ hT.1).trans ha.2)).to [kid] [] [vid] []
            (by lx_perm) (by lx_perm))
      | occRemove =>
        simp only [hrm, rf_bind_ok]
        exact (lx_dropKeyR hnd env _ _ hT'.1).bind (fun a ha =>
          (sh (hrem.trans ha.2)).to [] [] [] [old.vid] (by lx_perm) (by lx_perm))
      | occRemoveEntry =>
        simp only [hrm, rf_bind_ok]
        exact sh hrem
      | occInsert vid v => exact sh (lx_setVal hT he vid v)
      | occInsertKey kid => exact sh (lx_setKey hT he k kid)
      | andModify nv => exact sh (lx_setPayload hT he nv)
      | replaceEntryWith keep nv =>
        cases keep with
        | true =>
          simp only [↓reduceIte, en_replace_keep hc hT.1 he (fun it => { it with v := nv }), rf_bind_ok]
          exact sh (lx_setPayload hT he nv)
        | false =>
          simp only [Bool.false_eq_true, ↓reduceIte, en_replace_none hsz hrm, rf_bind_ok]
          exact (lx_dropKeyR hnd env _ _ (by rw [en_dropVal_t]; exact hT'.1)).bind (fun a ha =>
            (sh ((hrem.trans (lx_dropVal hnd old.vid _ hT'.1)).trans ha.2)).to [] [] [] []
              (by lx_perm) (by lx_perm))
      | drop => exact sh (lx_same rfl rfl)
    | none =>
      obtain ⟨a1, alog⟩ := hl
      have hT : TInv cfg w1.t := by rw [a1]; exact h
      have sh : ∀ {w' : World} {iK oK iV oV : List Nat}, lx_Eff cfg w1 w' iK oK iV oV →
          lx_Eff cfg w w' iK oK iV oV := fun e => e.left a1.symm alog.symm
      have hhash : ∀ (e : Elem), lx_R
          (((makeHash env k w1).onPanic (·.dropElemQuiet cfg e)).bind fun x =>
            (Map.insOwned cfg env x.1 e x.2).bind fun y =>
              (.ok ((false, .elem e), y.2) : Map.EntRes))
          (fun a => a.1.1 = false ∧ lx_Eff cfg w a.2 [e.kid] [] [e.vid] []) := by
        intro e
        cases hh : env.hash w1.hc k with
        | none => rw [ag_makeHash_none hh]; trivial
        | some hv =>
          rw [ag_makeHash_some hh]
          simp only [Res.onPanic, en_bind_ok]
          exact (lx_insOwned_ret hc env hv e { w1 with hc := w1.hc + 1 } hT _).mono
            (fun a ha => ⟨by rw [ha.1], sh (ha.2.left rfl rfl)⟩)
      cases c with
      | insert kid vid v =>
        exact (hhash _).mono (fun a ha => by simp only [ha.1, Bool.false_eq_true, if_false]; exact ha.2)
      | orInsert kid vid v =>
        exact (hhash _).mono (fun a ha => by simp only [ha.1, Bool.false_eq_true, if_false]; exact ha.2)
      | vacInsert kid vid v =>
        exact (hhash _).mono (fun a ha => by simp only [ha.1, Bool.false_eq_true, if_false]; exact ha.2)
      | vacInsertHashed kid vid v =>
        exact (lx_insOwned_ret hc env ph _ w1 hT _).mono (fun a ha => by
          simp only [ha.1, Bool.false_eq_true, if_false]; exact sh ha.2)
      | occInsert vid v => exact sh (lx_dropVal hnd vid w1 hT.1)
      | occInsertKey kid =>
        exact (lx_dropKeyR hnd env kid w1 hT.1).bind (fun a ha => sh ha.2)
      | occRemove => exact sh (lx_same rfl rfl)
      | occRemoveEntry => exact sh (lx_same rfl rfl)
      | andModify nv => exact sh (lx_same rfl rfl)
      | replaceEntryWith keep nv => exact sh (lx_same rfl rfl)
      | drop => exact sh (lx_same rfl rfl)
  | panic c' w' => trivial
  | abort => trivial
  | fault f => trivial

/-- `raw_entry().from_*(..)`: nothing changes hands. -/
theorem lx_rawGet (hc : CfgOk cfg) (env : Env) (mode : Map.RawMode) (ph k : Nat) (w : World)
    (h : TInv cfg w.t) :
    lx_R (Map.rawGet cfg env mode ph k w) (fun a => lx_Eff cfg w a.2 [] [] [] []) := by
  have hl := lx_rawLook hc env mode ph k w h.1
  unfold Map.rawGet
  cases hr : Map.rawLook cfg env mode ph k w with
  | ok x =>
    obtain ⟨r, w1⟩ := x
    rw [hr] at hl
    simp only [bind, Res.bind]
    cases r with
    | none => exact lx_same hl.1 hl.2
    | some idx =>
      obtain ⟨a1, alog, e, a2⟩ := hl
      have he : w1.t.slots[idx]?.join = some e := by rw [a1]; exact a2
      simp only [slotGet_ok he, liftE]
      exact lx_same a1 alog
  | panic c' w' => trivial
  | abort => trivial
  | fault f => trivial

/-! ## 6. `Index`, `get_many_mut`, `extend` -/

theorem lx_index (hc : CfgOk cfg) (env : Env) (k : Nat) (w : World) (h : TInv cfg w.t) :
    lx_R (Map.index cfg env k w) (fun a => lx_Eff cfg w a.2 [] [] [] []) := by
  have h1 := Map.get_inv hc hc.probe env k w h
  unfold Map.index
  cases hr : Map.get cfg env k w with
  | ok pr =>
    obtain ⟨r, w'⟩ := pr
    rw [hr] at h1
    simp only [bind, Res.bind]
    cases r with
    | none => trivial
    | some e => exact lx_same h1.1 h1.2.1
  | panic c w' => trivial
  | abort => trivial
  | fault f => trivial

theorem lx_slotGet_inv {t : Raw} {p : Nat} {e : Elem} (h : slotGet t p = .ok e) :
    t.slots[p]?.join = some e := by
  unfold slotGet at h
  cases hs : t.slots[p]? with
  | none => rw [hs] at h; cases h
  | some o =>
    cases o with
    | none => rw [hs] at h; cases h
    | some x => rw [hs] at h; cases h; rfl

/-- The writes through the references returned by `get_many_mut` keep every object identity. -/
theorem lx_bumpAll : ∀ (l : List (Option Nat)) (i : Nat) (t t' : Raw) (out : List (Option Elem)),
    Map.bumpAll t l i = .ok (out, t') →
    t'.mask = t.mask ∧ List.Perm (kidsOf t'.elems) (kidsOf t.elems) ∧
      List.Perm (vidsOf t'.elems) (vidsOf t.elems) := by
  intro l
  induction l with
  | nil =>
    intro i t t' out h
    simp only [Map.bumpAll] at h
    cases h
    exact ⟨rfl, List.Perm.refl _, List.Perm.refl _⟩
  | cons o rest ih =>
    intro i t t' out h
    cases o with
    | none =>
      simp only [Map.bumpAll] at h
      cases hb : Map.bumpAll t rest (i + 1) with
      | error f => rw [hb] at h; cases h
      | ok pr =>
        obtain ⟨es, t1⟩ := pr
        rw [hb] at h
        cases h
        exact ih (i + 1) t t' es hb
    | some p =>
      simp only [Map.bumpAll] at h
      cases hg : slotGet t p with
      | error f => rw [hg] at h; cases h
      | ok e =>
        rw [hg] at h
        simp only at h
        cases hb : Map.bumpAll (Map.slotSet t p { e with v := e.v + 1000 * (i + 1) }) rest (i + 1) with
        | error f => rw [hb] at h; cases h
        | ok pr =>
          obtain ⟨es, t1⟩ := pr
          rw [hb] at h
          cases h
          obtain ⟨m1, k1, v1⟩ := ih (i + 1) _ t' es hb
          have hrep := hs_elems_replace (lx_slotGet_inv hg) { e with v := e.v + 1000 * (i + 1) }
          refine ⟨m1, k1.trans ?_, v1.trans ?_⟩
          · have := hrep.map Elem.kid
            simp only [List.map_cons] at this
            exact this.cons_inv
          · have := hrep.map Elem.vid
            simp only [List.map_cons] at this
            exact this.cons_inv

theorem lx_getManyMut (hc : CfgOk cfg) (env : Env) (ks : List Nat) (w : World)
    (h : TInv cfg w.t) :
    lx_R (Map.getManyMut cfg env ks w) (fun a => lx_Eff cfg w a.2 [] [] [] []) := by
  have hsafe := hx_getManyMut_safe (A := True) hc env ks w h
  unfold Map.getManyMut at hsafe ⊢
  rcases ts_hashAll_spec env ks w with ⟨hs, w0, a1, a2, a3, _, _⟩ | ⟨w', a1, _⟩
  · simp only [a1, bind, Res.bind] at hsafe ⊢
    rcases ts_findAll_spec hc hc.probe env w.t h.1 (hs.zip ks) w0 a2 with
      ⟨idxs, w1, b1, b2, b3, _, _⟩ | ⟨w', b1, _⟩
    · simp only [b1] at hsafe ⊢
      by_cases hd : Map.hasDup idxs [] = true
      · simp only [hd, if_true]; trivial
      · simp only [hd] at hsafe ⊢
        cases hb : Map.bumpAll w1.t idxs 0 with
        | error f => simp only [liftE]; trivial
        | ok pr =>
          obtain ⟨es, t'⟩ := pr
          rw [hb] at hsafe
          have hT' : TInv cfg t' := hsafe
          obtain ⟨m1, k1, v1⟩ := lx_bumpAll idxs 0 w1.t t' es hb
          simp only [liftE, pure]
          refine (lx_inplace (w := w1) (w' := { w1 with t := t' }) (by rw [b2]; exact h.1) hT'.1
            rfl m1 ?_ ?_).left b2.symm (b3.trans a3).symm
          · simpa using k1
          · simpa using v1
    · simp only [b1]; trivial
  · simp only [a1, bind, Res.bind]; trivial

/-- `HashMap::insert` as used by `extend`, the replaced value dropped at once: the new pair is
    stored, or its value is stored and its key dropped together with the replaced value. -/
theorem lx_insertDrop (hc : CfgOk cfg) (hnd : cfg.needsDrop = true) (env : Env) (e : Elem)
    (w : World) (h : TInv cfg w.t) {old : Option (Nat × Nat)} {w1 : World}
    (hr : Map.insert cfg env e w = .ok (old, w1)) :
    TInv cfg (Map.dropValOpt cfg (old.map (·.1)) w1).t ∧
    lx_Eff cfg w (Map.dropValOpt cfg (old.map (·.1)) w1) [e.kid] [] [e.vid] [] := by
  have hst : Map.step cfg env (.insert e) w = .ok (.val old, w1) := by
    simp only [Map.step, hr]
  have hT1 : TInv cfg w1.t := by
    have := hs_step_safe hc (Or.inl hnd) env (.insert e) w h
    rw [hst] at this
    exact this.1
  have hl : lx_Eff cfg w w1 [e.kid] [] [e.vid] (old.map (·.1)).toList := by
    have := step_ledger hc hnd env (.insert e) w h (fun n hn => by cases hn) hst
    cases old with
    | none => exact this
    | some p => obtain ⟨a, b⟩ := p; exact this
  refine ⟨by rw [en_dropValOpt_t]; exact hT1, ?_⟩
  exact (hl.trans (lx_dropValOpt hnd _ w1 hT1.1)).to [e.kid] [] [e.vid] [] (by lx_perm) (by lx_perm)

theorem lx_insertMany (hc : CfgOk cfg) (hnd : cfg.needsDrop = true) (env : Env) :
    ∀ (items : List Elem) (w : World), TInv cfg w.t →
      lx_R (Map.insertMany cfg env items w) (fun w' => TInv cfg w'.t ∧
        lx_Eff cfg w w' (kidsOf items) [] (vidsOf items) []) := by
  intro items
  induction items with
  | nil => intro w h; exact ⟨h, lx_same rfl rfl⟩
  | cons e rest ih =>
    intro w h
    rw [Map.insertMany]
    cases hr : Map.insert cfg env e w with
    | ok x =>
      obtain ⟨old, w1⟩ := x
      obtain ⟨hT, eff⟩ := lx_insertDrop hc hnd env e w h hr
      simp only
      refine (ih _ hT).mono (fun w' ha => ⟨ha.1, ?_⟩)
      exact (eff.trans ha.2).to _ _ _ _ (by simp [kidsOf]) (by simp [vidsOf])
    | panic c w' => trivial
    | abort => trivial
    | fault f => trivial

/-- `extend`: every pair passed in is stored, or its key / the value it replaces is dropped. -/
theorem lx_extend (hc : CfgOk cfg) (hnd : cfg.needsDrop = true) (env : Env) (items : List Elem)
    (w : World) (h : TInv cfg w.t) :
    lx_R (Map.extend cfg env items w)
      (fun w' => lx_Eff cfg w w' (kidsOf items) [] (vidsOf items) []) := by
  unfold Map.extend
  refine ((lx_reserve hc env _ w h).onPanic).bind (fun w1 h1 => ?_)
  refine (lx_insertMany hc hnd env items w1 h1.1).mono (fun w' ha => ?_)
  exact (h1.2.2.trans ha.2).to _ _ _ _ (by simp) (by simp)

/-! ## 7. one extended call -/

/-- Calls covered by the ledger: everything except the `mem::forget`-ed drain (which leaks by
    design; the same exclusion as in `step_ledger` / `hs_NoForget`). Every chain of every entry API
    is covered: the `EOut` of the chains that hand objects back identifies them. -/
def MapOpX.ledgerCovered : MapOpX → Bool
  | .base (.drain _ true) => false
  | _ => true

theorem MapOpX.ledgerCovered_iff (op : MapOpX) :
    op.ledgerCovered = true ↔ ∀ n, op ≠ .base (.drain n true) := by
  constructor
  · intro h n hn
    rw [hn] at h
    cases h
  · intro h
    cases op with
    | base b =>
      cases b with
      | drain n fg =>
        cases fg with
        | true => exact absurd rfl (h n)
        | false => rfl
      | _ => rfl
    | _ => rfl

/-- **LX1 — ledger of one returned extended call.** Element type with drop glue, EVERY environment,
    any valid table, any call of `MapOpX` (except the forgotten drain) that returns `r`: with `new`
    the log entries the call wrote, every key object (resp. value object) that was stored before or
    was passed in is afterwards in exactly one of {the table, the destructor log of this call, the
    return value}; the allocator invariant is kept. -/
theorem stepX_ledger (hc : CfgOk cfg) (hnd : cfg.needsDrop = true) (env : Env) (op : MapOpX)
    (w : World) (h : TInv cfg w.t) (hop : ∀ n, op ≠ .base (.drain n true)) {r : RetX} {w' : World}
    (hs : Map.stepX cfg env op w = .ok (r, w')) :
    ∃ new, w'.log = new ++ w.log ∧
      List.Perm (kidsOf w'.t.elems ++ droppedK new ++ retKX op r)
        (kidsOf w.t.elems ++ insertedKX op) ∧
      List.Perm (vidsOf w'.t.elems ++ droppedV new ++ retVX op r)
        (vidsOf w.t.elems ++ insertedVX op) ∧
      (hs_AllocInv cfg w → hs_AllocInv cfg w') := by
  show lx_Eff cfg w w' (insertedKX op) (retKX op r) (insertedVX op) (retVX op r)
  cases op with
  | base b =>
    simp only [Map.stepX] at hs
    cases hr : Map.step cfg env b w with
    | ok pr =>
      obtain ⟨r0, w0⟩ := pr
      rw [hr] at hs
      cases hs
      exact step_ledger hc hnd env b w h (fun n hn => hop n (by rw [hn])) hr
    | panic c w0 => rw [hr] at hs; cases hs
    | abort => rw [hr] at hs; cases hs
    | fault f => rw [hr] at hs; cases hs
  | entry k kid c =>
    have hl := lx_entry hc hnd env k kid c w h
    simp only [Map.stepX] at hs
    cases hr : Map.entry cfg env k kid c w with
    | ok pr =>
      obtain ⟨⟨b, o⟩, w0⟩ := pr
      rw [hr] at hs hl
      cases hs
      exact hl
    | panic c w0 => rw [hr] at hs; cases hs
    | abort => rw [hr] at hs; cases hs
    | fault f => rw [hr] at hs; cases hs
  | entryRef k newkid c =>
    have hl := lx_entryRef hc hnd env k newkid c w h
    simp only [Map.stepX] at hs
    cases hr : Map.entryRef cfg env k newkid c w with
    | ok pr =>
      obtain ⟨⟨b, o⟩, w0⟩ := pr
      rw [hr] at hs hl
      cases hs
      exact hl
    | panic c w0 => rw [hr] at hs; cases hs
    | abort => rw [hr] at hs; cases hs
    | fault f => rw [hr] at hs; cases hs
  | rustcEntry k kid c =>
    have hl := lx_rustcEntry hc hnd env k kid c w h
    simp only [Map.stepX] at hs
    cases hr : Map.rustcEntry cfg env k kid c w with
    | ok pr =>
      obtain ⟨⟨b, o⟩, w0⟩ := pr
      rw [hr] at hs hl
      cases hs
      exact hl
    | panic c w0 => rw [hr] at hs; cases hs
    | abort => rw [hr] at hs; cases hs
    | fault f => rw [hr] at hs; cases hs
  | rawEntry mode ph k c =>
    have hl := lx_rawEntry hc hnd env mode ph k c w h
    simp only [Map.stepX] at hs
    cases hr : Map.rawEntry cfg env mode ph k c w with
    | ok pr =>
      obtain ⟨⟨b, o⟩, w0⟩ := pr
      rw [hr] at hs hl
      cases hs
      exact hl
    | panic c w0 => rw [hr] at hs; cases hs
    | abort => rw [hr] at hs; cases hs
    | fault f => rw [hr] at hs; cases hs
  | rawGet mode ph k =>
    have hl := lx_rawGet hc env mode ph k w h
    simp only [Map.stepX] at hs
    cases hr : Map.rawGet cfg env mode ph k w with
    | ok pr =>
      obtain ⟨r0, w0⟩ := pr
      rw [hr] at hs hl
      cases hs
      exact hl
    | panic c w0 => rw [hr] at hs; cases hs
    | abort => rw [hr] at hs; cases hs
    | fault f => rw [hr] at hs; cases hs
  | tryInsert e =>
    have hl := lx_tryInsert hc hnd env e w h
    simp only [Map.stepX] at hs
    cases hr : Map.tryInsert cfg env e w with
    | ok pr =>
      obtain ⟨⟨b, o⟩, w0⟩ := pr
      rw [hr] at hs hl
      cases hs
      exact hl
    | panic c w0 => rw [hr] at hs; cases hs
    | abort => rw [hr] at hs; cases hs
    | fault f => rw [hr] at hs; cases hs
  | extend items =>
    have hl := lx_extend hc hnd env items w h
    simp only [Map.stepX] at hs
    cases hr : Map.extend cfg env items w with
    | ok w0 =>
      rw [hr] at hs hl
      cases hs
      exact hl
    | panic c w0 => rw [hr] at hs; cases hs
    | abort => rw [hr] at hs; cases hs
    | fault f => rw [hr] at hs; cases hs
  | getManyMut ks =>
    have hl := lx_getManyMut hc env ks w h
    simp only [Map.stepX] at hs
    cases hr : Map.getManyMut cfg env ks w with
    | ok pr =>
      obtain ⟨l, w0⟩ := pr
      rw [hr] at hs hl
      cases hs
      exact hl
    | panic c w0 => rw [hr] at hs; cases hs
    | abort => rw [hr] at hs; cases hs
    | fault f => rw [hr] at hs; cases hs
  | index k =>
    have hl := lx_index hc env k w h
    simp only [Map.stepX] at hs
    cases hr : Map.index cfg env k w with
    | ok pr =>
      obtain ⟨⟨vid, v⟩, w0⟩ := pr
      rw [hr] at hs hl
      cases hs
      exact hl
    | panic c w0 => rw [hr] at hs; cases hs
    | abort => rw [hr] at hs; cases hs
    | fault f => rw [hr] at hs; cases hs

/-- The same with the coverage predicate as hypothesis. -/
theorem stepX_ledger_partial (hc : CfgOk cfg) (hnd : cfg.needsDrop = true) (env : Env) (op : MapOpX)
    (w : World) (h : TInv cfg w.t) (hcov : op.ledgerCovered = true) {r : RetX} {w' : World}
    (hs : Map.stepX cfg env op w = .ok (r, w')) :
    ∃ new, w'.log = new ++ w.log ∧
      List.Perm (kidsOf w'.t.elems ++ droppedK new ++ retKX op r)
        (kidsOf w.t.elems ++ insertedKX op) ∧
      List.Perm (vidsOf w'.t.elems ++ droppedV new ++ retVX op r)
        (vidsOf w.t.elems ++ insertedVX op) ∧
      (hs_AllocInv cfg w → hs_AllocInv cfg w') :=
  stepX_ledger hc hnd env op w h ((MapOpX.ledgerCovered_iff op).1 hcov) hs

/-! ## 8. extended histories -/

/-- Key / value objects passed into the collection by an extended history. -/
def insertedKXs : List MapOpX → List Nat
  | [] => []
  | op :: r => insertedKX op ++ insertedKXs r

def insertedVXs : List MapOpX → List Nat
  | [] => []
  | op :: r => insertedVX op ++ insertedVXs r

/-- Key / value objects handed back to the caller by the returned calls of an extended history. -/
def returnedKX : List (MapOpX × Map.ObsX) → List Nat
  | [] => []
  | (op, .ret r) :: rest => retKX op r ++ returnedKX rest
  | (_, .panic _) :: rest => returnedKX rest

def returnedVX : List (MapOpX × Map.ObsX) → List Nat
  | [] => []
  | (op, .ret r) :: rest => retVX op r ++ returnedVX rest
  | (_, .panic _) :: rest => returnedVX rest

/-- No call of the extended history is a `mem::forget`-ed drain. -/
def hx_NoForget (ops : List MapOpX) : Prop := ∀ op ∈ ops, ∀ n, op ≠ .base (.drain n true)

/-- Ledger of an extended history from any valid table. -/
theorem lx_runX_ledger (hc : CfgOk cfg) (hnd : cfg.needsDrop = true) (env : Env) :
    ∀ (ops : List MapOpX) (w wf : World) (obs : List Map.ObsX), TInv cfg w.t → hx_NoForget ops →
      Map.runX cfg env ops w = some (obs, wf) → (∀ o ∈ obs, ∃ r, o = .ret r) →
      lx_Eff cfg w wf (insertedKXs ops) (returnedKX (ops.zip obs)) (insertedVXs ops)
        (returnedVX (ops.zip obs)) ∧ TInv cfg wf.t := by
  intro ops
  induction ops with
  | nil =>
    intro w wf obs h _ hrun _
    simp only [Map.runX, Option.some.injEq, Prod.mk.injEq] at hrun
    obtain ⟨h1, h2⟩ := hrun
    subst h1 h2
    exact ⟨lx_same rfl rfl, h⟩
  | cons op rest ih =>
    intro w wf obs h hnf hrun hret
    have hop : ∀ n, op ≠ .base (.drain n true) := hnf op List.mem_cons_self
    have hnf' : hx_NoForget rest := fun o ho => hnf o (List.mem_cons_of_mem _ ho)
    cases hr : Map.stepX cfg env op w with
    | ok pr =>
      obtain ⟨r, w1⟩ := pr
      simp only [Map.runX, hr] at hrun
      obtain ⟨⟨os, wf'⟩, h1, h2⟩ := Option.map_eq_some_iff.1 hrun
      simp only [Prod.mk.injEq] at h2
      obtain ⟨h2a, h2b⟩ := h2
      subst h2a h2b
      have e1 : lx_Eff cfg w w1 (insertedKX op) (retKX op r) (insertedVX op) (retVX op r) :=
        stepX_ledger hc hnd env op w h hop hr
      have h1' : TInv cfg w1.t := by
        have := hx_stepX_safe hc (Or.inl hnd) env op w h
        rw [hr] at this
        exact this.1
      obtain ⟨e2, t2⟩ := ih w1 wf' os h1' hnf' h1
        (fun o ho => hret o (List.mem_cons_of_mem _ ho))
      refine ⟨?_, t2⟩
      simp only [List.zip_cons_cons, returnedKX, returnedVX, insertedKXs, insertedVXs]
      exact e1.trans e2
    | panic c w1 =>
      simp only [Map.runX, hr] at hrun
      obtain ⟨⟨os, wf'⟩, h1, h2⟩ := Option.map_eq_some_iff.1 hrun
      simp only [Prod.mk.injEq] at h2
      obtain ⟨r, hr'⟩ := hret (.panic c) (by rw [← h2.1]; exact List.mem_cons_self)
      cases hr'
    | abort => simp [Map.runX, hr] at hrun
    | fault f => simp [Map.runX, hr] at hrun

/-- **LX2 — ledger of an extended history from any valid table**, in the shape of `hs_run_ledger`. -/
theorem runX_ledger_from (hc : CfgOk cfg) (hnd : cfg.needsDrop = true) (env : Env)
    (ops : List MapOpX) (w wf : World) (obs : List Map.ObsX) (h : TInv cfg w.t)
    (hnf : hx_NoForget ops) (hrun : Map.runX cfg env ops w = some (obs, wf))
    (hret : ∀ o ∈ obs, ∃ r, o = .ret r) :
    ∃ new, wf.log = new ++ w.log ∧
      List.Perm (kidsOf wf.t.elems ++ droppedK new ++ returnedKX (ops.zip obs))
        (kidsOf w.t.elems ++ insertedKXs ops) ∧
      List.Perm (vidsOf wf.t.elems ++ droppedV new ++ returnedVX (ops.zip obs))
        (vidsOf w.t.elems ++ insertedVXs ops) ∧
      (hs_AllocInv cfg w → hs_AllocInv cfg wf) ∧ TInv cfg wf.t := by
  obtain ⟨⟨new, l, k, v, a⟩, t⟩ := lx_runX_ledger hc hnd env ops w wf obs h hnf hrun hret
  exact ⟨new, l, k, v, a, t⟩

/-- **LX2.** Every extended history on a fresh collection (drop glue, no forgotten drain) that runs
    to its end without an observed panic: every key object and every value object that was passed
    in is in exactly one of {still stored, dropped by the collection exactly once, returned to the
    caller exactly once}; all frees are matched and the only live block is the table's own. -/
theorem runX_ledger (hc : CfgOk cfg) (hnd : cfg.needsDrop = true) (env : Env) (ops : List MapOpX)
    (w0 : World) (h0 : w0.t = Raw.new cfg.W) (hl0 : w0.log = []) (hnf : hx_NoForget ops)
    {obs : List Map.ObsX} {wf : World} (hrun : Map.runX cfg env ops w0 = some (obs, wf))
    (hret : ∀ o ∈ obs, ∃ r, o = .ret r) :
    List.Perm (kidsOf wf.t.elems ++ droppedK wf.log ++ returnedKX (ops.zip obs))
      (insertedKXs ops) ∧
    List.Perm (vidsOf wf.t.elems ++ droppedV wf.log ++ returnedVX (ops.zip obs))
      (insertedVXs ops) ∧
    hs_AllocInv cfg wf ∧ TInv cfg wf.t := by
  have hel : w0.t.elems = [] := by rw [h0]; rfl
  obtain ⟨new, l, k, v, a, t⟩ := runX_ledger_from hc hnd env ops w0 wf obs
    (by rw [h0]; exact TInv.new hc) hnf hrun hret
  rw [hl0, List.append_nil] at l
  rw [hel] at k v
  rw [l]
  exact ⟨by simpa [kidsOf] using k, by simpa [vidsOf] using v, a (hs_allocInv_new w0 h0 hl0), t⟩

/-- **LX2, drop of the collection.** After additionally dropping the collection (destructors do not
    panic): nothing is stored any more; every key / value object passed in was dropped exactly once
    or returned exactly once; nothing remains allocated and every `free` returned a block that was
    live, with the layout it was requested with. -/
theorem dropAllX_ledger (hc : CfgOk cfg) (hnd : cfg.needsDrop = true) (env : Env)
    (hdp : ∀ c e, env.dropPanics c e = false) (ops : List MapOpX)
    (w0 : World) (h0 : w0.t = Raw.new cfg.W) (hl0 : w0.log = []) (hnf : hx_NoForget ops)
    {obs : List Map.ObsX} {wf : World} (hrun : Map.runX cfg env ops w0 = some (obs, wf))
    (hret : ∀ o ∈ obs, ∃ r, o = .ret r) :
    ∃ wd, dropInnerTable cfg env wf.t { wf with t := Raw.new cfg.W } = .ok wd ∧
      wd.t = Raw.new cfg.W ∧
      List.Perm (droppedK wd.log ++ returnedKX (ops.zip obs)) (insertedKXs ops) ∧
      List.Perm (droppedV wd.log ++ returnedVX (ops.zip obs)) (insertedVXs ops) ∧
      liveBlocks wd.log = [] ∧ freesMatched wd.log := by
  obtain ⟨k, v, a, t⟩ := runX_ledger hc hnd env ops w0 h0 hl0 hnf hrun hret
  have hsp := dropInnerTable_spec hc env wf.t { wf with t := Raw.new cfg.W } t
  cases hr : dropInnerTable cfg env wf.t { wf with t := Raw.new cfg.W } with
  | ok wd =>
    rw [hr] at hsp
    obtain ⟨ht, hlog, _⟩ := hsp
    have hlog' : wd.log = freeEvs cfg wf.t ++ (dropEvs cfg wf.t.elems.reverse ++ wf.log) := by
      rw [hlog, List.append_assoc]; rfl
    obtain ⟨dk, dv⟩ := hs_dropped_dropEvs hnd wf.t.elems.reverse
    refine ⟨wd, rfl, ht, ?_, ?_, ?_⟩
    · rw [hlog', hs_droppedK_append, hs_droppedK_append, (hs_dropped_freeEvs wf.t).1, dk,
        List.nil_append]
      exact (List.Perm.append_right _ (List.Perm.append_right _
        ((List.reverse_perm _).map Elem.kid))).trans k
    · rw [hlog', hs_droppedV_append, hs_droppedV_append, (hs_dropped_freeEvs wf.t).2, dv,
        List.nil_append]
      exact (List.Perm.append_right _ (List.Perm.append_right _
        ((List.reverse_perm _).map Elem.vid))).trans v
    · have a1 : hs_AllocInv cfg { wf with log := dropEvs cfg wf.t.elems.reverse ++ wf.log } :=
        hs_allocInv_drops (w := wf) t.1 t.1 rfl (hs_dropOnly_dropEvs _) rfl a
      have hA : hs_AStep cfg { wf with log := dropEvs cfg wf.t.elems.reverse ++ wf.log } wd
          (freeEvs cfg wf.t) :=
        ⟨hlog', Or.inr (Or.inr ⟨by rw [ht]; rfl, rfl⟩)⟩
      have a2 := hs_allocInv_astep
        (w := { wf with log := dropEvs cfg wf.t.elems.reverse ++ wf.log }) (w' := wd) t.1
        (by rw [ht]; exact (TInv.new hc).1) hA a1
      obtain ⟨f, l⟩ := a2
      refine ⟨?_, f⟩
      rw [l, ht]; rfl
  | panic c w' =>
    rw [hr] at hsp
    obtain ⟨_, _, _, _, ds, e, rest, _, _, hp⟩ := hsp
    rw [hdp] at hp; cases hp
  | abort => rw [hr] at hsp; exact hsp.elim
  | fault f => rw [hr] at hsp; exact hsp.elim

/-- With pairwise distinct identities passed in, no object is dropped twice, none is both dropped
    and returned, none is both stored and dropped / returned. -/
theorem runX_no_double_drop (hc : CfgOk cfg) (hnd : cfg.needsDrop = true) (env : Env)
    (ops : List MapOpX) (w0 : World) (h0 : w0.t = Raw.new cfg.W) (hl0 : w0.log = [])
    (hnf : hx_NoForget ops) {obs : List Map.ObsX} {wf : World}
    (hrun : Map.runX cfg env ops w0 = some (obs, wf)) (hret : ∀ o ∈ obs, ∃ r, o = .ret r)
    (hK : (insertedKXs ops).Nodup) (hV : (insertedVXs ops).Nodup) :
    (droppedK wf.log).Nodup ∧ (droppedV wf.log).Nodup ∧
    (∀ x ∈ returnedKX (ops.zip obs), x ∉ droppedK wf.log ∧ x ∉ kidsOf wf.t.elems) ∧
    (∀ x ∈ returnedVX (ops.zip obs), x ∉ droppedV wf.log ∧ x ∉ vidsOf wf.t.elems) ∧
    (∀ x ∈ droppedK wf.log, x ∉ kidsOf wf.t.elems) ∧
    (∀ x ∈ droppedV wf.log, x ∉ vidsOf wf.t.elems) := by
  obtain ⟨k, v, _, _⟩ := runX_ledger hc hnd env ops w0 h0 hl0 hnf hrun hret
  obtain ⟨_, k2, _, k4, k5⟩ := hs_nodup_parts k hK
  obtain ⟨_, v2, _, v4, v5⟩ := hs_nodup_parts v hV
  exact ⟨k2, v2, k4, v4, k5, v5⟩

/-! ## 9. non-vacuity: an evaluated extended history (SSE2 scanner, `hsExEnv` of `History.lean`) -/

/-- 19 calls, all returning, pairwise distinct identities: `insert`; `entry().or_insert` on a vacant
    and on an occupied key; `entry_ref().insert` (vacant: key object 30 is made and stored);
    `entry_ref` + `OccupiedEntry::insert` (identity 31 never materialises, value 300 comes back);
    `rustc_entry` + `VacantEntry::insert` at full load; `rustc_entry` + `remove_entry`;
    `raw_entry_mut().insert` (vacant), then `insert_key` (key object 50 comes back, 51 is stored);
    `raw_entry`; `try_insert` of a present key (value 202 comes back in the error) and of a new
    key; `extend` (one new key, one present: key 23 and the replaced value 200 are dropped);
    `entry().remove()`; `VacantEntry::into_key`; `replace_entry_with` on a vacant entry;
    `get_many_mut`; `Index`; `get`. -/
def lxExOps : List MapOpX :=
  [ .base (.insert ⟨1, 10, 100, 0⟩),
    .entry 2 20 (.orInsert 200 7),
    .entry 2 21 (.orInsert 201 8),
    .entryRef 3 30 (.insert 300 9),
    .entryRef 3 31 (.occInsert 301 1),
    .rustcEntry 4 40 (.vacInsert 400 1),
    .rustcEntry 1 11 .occRemoveEntry,
    .rawEntry .fromKey 0 5 (.insert 50 500 3),
    .rawEntry .fromKey 0 5 (.occInsertKey 51),
    .rawGet .fromKey 0 5,
    .tryInsert ⟨2, 22, 202, 8⟩,
    .tryInsert ⟨6, 60, 600, 8⟩,
    .extend [⟨7, 70, 700, 0⟩, ⟨2, 23, 203, 4⟩],
    .entry 3 32 .occRemove,
    .entry 9 90 .vacIntoKey,
    .entry 8 80 (.replaceEntryWith false 0),
    .getManyMut [2, 9, 4],
    .index 2,
    .base (.get 4) ]

/-- (no panic observed; key objects stored / dropped / returned / passed in; value objects stored /
    dropped / returned / passed in; live blocks). -/
def lxExSummary (ops : List MapOpX) :
    Option (Bool × List Nat × List Nat × List Nat × List Nat × List Nat × List Nat × List Nat ×
      List Nat × List (Nat × Nat)) :=
  match Map.runX { ops := Sse2.ops } hsExEnv ops { t := Raw.new 16 } with
  | some (obs, wf) =>
    some (obs.all (fun o => match o with | Map.ObsX.ret _ => true | Map.ObsX.panic _ => false),
      kidsOf wf.t.elems, droppedK wf.log, returnedKX (ops.zip obs), insertedKXs ops,
      vidsOf wf.t.elems, droppedV wf.log, returnedVX (ops.zip obs), insertedVXs ops,
      liveBlocks wf.log)
  | none => none

/-- The evaluated ledger: 16 key identities = 5 stored + 7 dropped + 4 handed back (31: the
    `entry_ref` identity that never materialised; 10: `remove_entry`; 50: `insert_key`; 90:
    `into_key`); 11 value objects = 5 stored + 2 dropped + 4 handed back; one live block. -/
theorem lx_example :
    lxExSummary lxExOps =
      some (true, [51, 40, 20, 60, 70], [80, 30, 32, 23, 22, 11, 21], [31, 10, 50, 90],
        [10, 20, 21, 30, 31, 40, 11, 50, 51, 22, 60, 70, 23, 32, 90, 80],
        [500, 400, 203, 600, 700], [200, 201], [300, 100, 202, 301],
        [100, 200, 201, 300, 301, 400, 500, 202, 600, 700, 203], [(88, 16)]) := by
  rfl

theorem lxEx_noForget : hx_NoForget lxExOps := by
  have : ∀ op ∈ lxExOps, op.ledgerCovered = true := by decide
  exact fun op ho => (MapOpX.ledgerCovered_iff op).1 (this op ho)

/-- The hypotheses of `runX_ledger` / `dropAllX_ledger` are satisfiable: instantiated on `lxExOps`.
    `hs` is `sse2_groupSpec` of `Hb/Proofs/Group.lean` (not imported here, to keep its `bv_decide`
    axioms out of this file). -/
theorem lx_example_ledger (hs : GroupSpec Sse2.ops) :
    ∃ obs wf, Map.runX { ops := Sse2.ops } hsExEnv lxExOps { t := Raw.new 16 } = some (obs, wf) ∧
      List.Perm (kidsOf wf.t.elems ++ droppedK wf.log ++ returnedKX (lxExOps.zip obs))
        (insertedKXs lxExOps) ∧
      List.Perm (vidsOf wf.t.elems ++ droppedV wf.log ++ returnedVX (lxExOps.zip obs))
        (insertedVXs lxExOps) ∧
      hs_AllocInv { ops := Sse2.ops } wf ∧
      ∃ wd, dropInnerTable { ops := Sse2.ops } hsExEnv wf.t { wf with t := Raw.new 16 } = .ok wd ∧
        List.Perm (droppedK wd.log ++ returnedKX (lxExOps.zip obs)) (insertedKXs lxExOps) ∧
        List.Perm (droppedV wd.log ++ returnedVX (lxExOps.zip obs)) (insertedVXs lxExOps) ∧
        liveBlocks wd.log = [] ∧ freesMatched wd.log := by
  have hc : CfgOk { ops := Sse2.ops } := ⟨hs, by decide⟩
  have hex := lx_example
  unfold lxExSummary at hex
  cases hrun : Map.runX { ops := Sse2.ops } hsExEnv lxExOps { t := Raw.new 16 } with
  | none => rw [hrun] at hex; cases hex
  | some pr =>
    obtain ⟨obs, wf⟩ := pr
    rw [hrun] at hex
    simp only [Option.some.injEq, Prod.mk.injEq] at hex
    have hret : ∀ o ∈ obs, ∃ r, o = .ret r := by
      intro o ho
      have := List.all_eq_true.1 hex.1 o ho
      cases o with
      | ret r => exact ⟨r, rfl⟩
      | panic c => cases this
    obtain ⟨k, v, a, _⟩ := runX_ledger hc rfl hsExEnv lxExOps { t := Raw.new 16 } rfl rfl
      lxEx_noForget hrun hret
    obtain ⟨wd, d1, _, d3, d4, d5, d6⟩ := dropAllX_ledger hc rfl hsExEnv (fun _ _ => rfl) lxExOps
      { t := Raw.new 16 } rfl rfl lxEx_noForget hrun hret
    exact ⟨obs, wf, rfl, k, v, a, wd, d1, d3, d4, d5, d6⟩

#print axioms lx_chainOcc
#print axioms lx_chainVac
#print axioms lx_entry
#print axioms lx_tryInsert
#print axioms lx_entryRef
#print axioms lx_rustcEntry
#print axioms lx_rawEntry
#print axioms lx_rawGet
#print axioms lx_index
#print axioms lx_getManyMut
#print axioms lx_extend
#print axioms stepX_ledger
#print axioms stepX_ledger_partial
#print axioms runX_ledger_from
#print axioms runX_ledger
#print axioms dropAllX_ledger
#print axioms runX_no_double_drop
#print axioms lx_example
#print axioms lx_example_ledger

end Hb
