/-
Shared definitions for the proofs: what a scanner back-end must satisfy (`GroupSpec`), the
structural invariant of a table (`Inv`), and executable checkers for both (used by the driver to
test the definitions on every state of every correspondence run).
-/
import Hb.Model.Api
namespace Hb

/-- A byte that can occur in the control array: a 7-bit tag, `DELETED` or `EMPTY`. -/
def ValidCtrl (b : Nat) : Prop := b < 128 ∨ b = DELETED ∨ b = EMPTY

instance (b : Nat) : Decidable (ValidCtrl b) := by unfold ValidCtrl; infer_instance

def ValidGroup (W : Nat) (g : List Nat) : Prop := g.length = W ∧ ∀ b ∈ g, ValidCtrl b

/-- What the table layer assumes about a scanner back-end. Everything is the byte-wise definition,
    except `matchTag`, which may over-report a byte differing from the tag in its lowest bit at a
    lane above a true match (the caveat of the portable scanner, property C18). -/
structure GroupSpec (ops : GroupOps) : Prop where
  width : ops.W = 8 ∨ ops.W = 16
  matchEmpty : ∀ g, ValidGroup ops.W g → ops.matchEmpty g = Spec.matchEmpty g
  matchSpecial : ∀ g, ValidGroup ops.W g → ops.matchSpecial g = Spec.matchSpecial g
  matchFull : ∀ g, ValidGroup ops.W g → ops.matchFull g = Spec.matchFull g
  lz : ∀ g, ValidGroup ops.W g → ops.emptyLeadingZeros g = Spec.emptyLeadingZeros g
  tz : ∀ g, ValidGroup ops.W g → ops.emptyTrailingZeros g = Spec.emptyTrailingZeros g
  convert : ∀ g, ValidGroup ops.W g → ops.convert g = Spec.convert g
  tagSorted : ∀ g t, ValidGroup ops.W g → t < 128 → (ops.matchTag g t).Pairwise (· < ·)
  tagComplete : ∀ g t, ValidGroup ops.W g → t < 128 →
    ∀ i, i < ops.W → g.getD i 0 = t → i ∈ ops.matchTag g t
  tagSound : ∀ g t, ValidGroup ops.W g → t < 128 →
    ∀ i ∈ ops.matchTag g t, i < ops.W ∧
      (g.getD i 0 = t ∨ (g.getD i 0 = t ^^^ 1 ∧ ∃ j, j < i ∧ g.getD j 0 = t))

/-! ### table invariant -/

def Raw.ctrlAt (t : Raw) (i : Nat) : Nat := t.ctrl.getD i 0

/-- Number of real buckets whose control byte satisfies `p`. -/
def Raw.countCtrl (t : Raw) (p : Nat → Bool) : Nat :=
  (List.range t.buckets).countP fun i => p (t.ctrlAt i)

/-- The unallocated singleton. -/
def Raw.IsSingleton (cfg : Cfg) (t : Raw) : Prop :=
  t.alloc = false ∧ t.mask = 0 ∧ t.ctrl = Array.replicate cfg.W EMPTY ∧ t.slots = #[] ∧
  t.items = 0 ∧ t.gl = 0

/-- Geometry of an allocated table. -/
def Raw.IsAllocated (cfg : Cfg) (t : Raw) : Prop :=
  t.alloc = true ∧ (∃ k, 2 ≤ k ∧ t.buckets = 2 ^ k) ∧ t.ctrl.size = t.buckets + cfg.W ∧
  t.slots.size = t.buckets ∧ t.buckets + cfg.W < 2 ^ cfg.bits

structure Inv (cfg : Cfg) (t : Raw) : Prop where
  geom : t.IsSingleton cfg ∨ t.IsAllocated cfg
  valid : ∀ i, i < t.ctrl.size → ValidCtrl (t.ctrlAt i)
  /-- trailing bytes mirror the first group (`n ≥ W`), or pad + mirror (`n < W`) -/
  mirror : t.alloc = true →
    (cfg.W ≤ t.buckets → ∀ j, j < cfg.W → t.ctrlAt (t.buckets + j) = t.ctrlAt j) ∧
    (t.buckets < cfg.W →
      (∀ j, t.buckets ≤ j → j < cfg.W → t.ctrlAt j = EMPTY) ∧
      (∀ j, j < t.buckets → t.ctrlAt (cfg.W + j) = t.ctrlAt j))
  items_eq : t.items = t.countCtrl isFull
  count : t.alloc = true →
    t.gl + t.countCtrl isFull + t.countCtrl (· == DELETED) = bucketMaskToCapacity t.mask
  live : ∀ i, i < t.slots.size → ((t.slots[i]?.join).isSome ↔ isFull (t.ctrlAt i) = true)
  smallClean : t.buckets < cfg.W → t.countCtrl (· == DELETED) = 0

/-- Executable version of `Inv` (same clauses), for run-time testing of the definition. -/
def invB (cfg : Cfg) (t : Raw) : Bool :=
  let n := t.buckets
  let W := cfg.W
  let geom :=
    (!t.alloc && t.mask == 0 && t.ctrl == Array.replicate W EMPTY && t.slots.size == 0 &&
      t.items == 0 && t.gl == 0) ||
    (t.alloc && (List.range 64).any (fun k => 2 ≤ k && n == 2 ^ k) && t.ctrl.size == n + W &&
      t.slots.size == n && n + W < 2 ^ cfg.bits)
  let valid := (List.range t.ctrl.size).all fun i => decide (ValidCtrl (t.ctrlAt i))
  let mirror := !t.alloc ||
    ((W > n || (List.range W).all fun j => t.ctrlAt (n + j) == t.ctrlAt j) &&
     (n ≥ W || ((List.range W).all (fun j => j < n || t.ctrlAt j == EMPTY) &&
                (List.range n).all fun j => t.ctrlAt (W + j) == t.ctrlAt j)))
  let full := t.countCtrl isFull
  let del := t.countCtrl (· == DELETED)
  let count := !t.alloc || t.gl + full + del == bucketMaskToCapacity t.mask
  let live := (List.range t.slots.size).all fun i =>
    (t.slots[i]?.join).isSome == isFull (t.ctrlAt i)
  let small := n ≥ W || del == 0
  geom && valid && mirror && t.items == full && count && live && small

/-- Which clause of `invB` fails (diagnostics). -/
def invWhy (cfg : Cfg) (t : Raw) : String :=
  let n := t.buckets
  let W := cfg.W
  let full := t.countCtrl isFull
  let del := t.countCtrl (· == DELETED)
  if t.items != full then s!"items={t.items} but {full} full control bytes"
  else if t.alloc && t.gl + full + del != bucketMaskToCapacity t.mask then
    s!"growth_left={t.gl} + full={full} + deleted={del} ≠ capacity {bucketMaskToCapacity t.mask}"
  else if !(n ≥ W || del == 0) then "DELETED byte in a table smaller than a group"
  else if !((List.range t.slots.size).all fun i => (t.slots[i]?.join).isSome == isFull (t.ctrlAt i)) then
    "live slots ≠ full control bytes"
  else "geometry / valid bytes / mirror"

/-! ### hash-dependent invariant (lawful environments) -/

/-- Bucket indices covered by the group loaded at `pos` (cyclic for `n ≥ W`; for `n < W` the
    trailing bytes decode to indices again through `& mask`). -/
def window (cfg : Cfg) (t : Raw) (pos : Nat) : List Nat :=
  (List.range cfg.W).map fun j => (pos + j) &&& t.mask

/-- The group loaded at `pos` contains an EMPTY byte. -/
def windowHasEmpty (cfg : Cfg) (t : Raw) (pos : Nat) : Bool :=
  (List.range cfg.W).any fun j => t.ctrlAt (pos + j) == EMPTY

/-- Standing assumptions on the configuration: a scanner meeting `GroupSpec`, a sane `usize`. -/
structure CfgOk (cfg : Cfg) : Prop where
  spec : GroupSpec cfg.ops
  bits : 16 ≤ cfg.bits

/-- Every bucket is covered by one of the first `n / W` (at least one) probe windows, whatever the
    hash. Proved for both group widths in `Hb/Proofs/Probe.lean` (`probe_covers`). -/
def ProbeCovers (cfg : Cfg) : Prop :=
  ∀ (t : Raw) (hash i : Nat), (∃ k, t.buckets = 2 ^ k) → i < t.buckets →
    ∃ s, s < max 1 (t.buckets / cfg.W) ∧
      i ∈ window cfg t (probePos cfg.W cfg.bits t.mask hash s).pos

/-- Slot `i` is reachable by the probe sequence of `hash`: it is covered by some probe window, and
    no earlier window contains an EMPTY byte. -/
def Reachable (cfg : Cfg) (t : Raw) (hash i : Nat) : Prop :=
  ∃ s, s < t.buckets ∧ i ∈ window cfg t (probePos cfg.W cfg.bits t.mask hash s).pos ∧
    ∀ s', s' < s → windowHasEmpty cfg t (probePos cfg.W cfg.bits t.mask hash s').pos = false

/-- `InvL cfg H t`: `Inv`, plus every stored element carries the tag of its hash `H e.k` and is
    reachable, plus keys are pairwise distinct. -/
structure InvL (cfg : Cfg) (H : Nat → Nat) (t : Raw) : Prop extends Inv cfg t where
  tag : ∀ (i : Nat) (e : Elem), t.slots[i]?.join = some e → t.ctrlAt i = tagFull cfg.bits (H e.k)
  reach : ∀ (i : Nat) (e : Elem), t.slots[i]?.join = some e → Reachable cfg t (H e.k) i
  nodup : ∀ (i j : Nat) (e e2 : Elem), t.slots[i]?.join = some e → t.slots[j]?.join = some e2 → e.k = e2.k → i = j

def reachB (cfg : Cfg) (t : Raw) (hash i : Nat) : Bool :=
  let rec go (fuel s : Nat) : Bool :=
    match fuel with
    | 0 => false
    | fuel + 1 =>
      let pos := (probePos cfg.W cfg.bits t.mask hash s).pos
      if (window cfg t pos).contains i then true
      else if windowHasEmpty cfg t pos then false
      else go fuel (s + 1)
  go t.buckets 0

def invLB (cfg : Cfg) (H : Nat → Nat) (t : Raw) : Bool :=
  invB cfg t &&
  (List.range t.slots.size).all fun i =>
    match t.slots[i]?.join with
    | none => true
    | some e =>
      t.ctrlAt i == tagFull cfg.bits (H e.k) && reachB cfg t (H e.k) i &&
      (List.range t.slots.size).all fun j =>
        match t.slots[j]?.join with
        | none => true
        | some e' => i == j || e.k != e'.k

/-- Abstraction: the stored elements in bucket order. -/
def Raw.elems (t : Raw) : List Elem := t.slots.toList.filterMap id

end Hb
