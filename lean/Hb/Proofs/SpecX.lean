/-
Reference semantics of the EXTENDED `HashMap` calls (`MapOpX`, `Hb/Model/MapOpsX.lean`) on the
association list `AL` of `Hb/Model/Spec.lean`: `AL.StepX P H op l obs l'` = "on the abstract map `l`,
call `op` may be observed as `obs` (a return value or a documented panic) and leave `l'`".

* basic calls: `AL.Step` (plus the `"capacity"` panic of `insert` / `reserve`, map untouched);
* `entry` / `rustc_entry` + chain: the per-chain tables `Map.EChain.occSpec` / `vacSpec` of
  `Hb/Proofs/EntrySpec.lean` (first component = what is handed back, second = the map afterwards; the
  third component — destructor events — and with it the `cfg` argument are irrelevant here, see
  `sx_occSpec_cfg` …); `entry_ref`: `refOccSpec` / `refVacSpec`; `raw_entry_mut`: `Map.RawChain.occSpec` /
  `vacSpec`; `extend`: `AL.insertAll`; `try_insert`, `raw_entry`, `Index`: `AL.find`;
* `get_many_mut`: panics `"dup"` iff two requests name the same PRESENT key (`AL.DupHit`), else
  returns `find` of every request and the `j`-th write `v += 1000 * (j + 1)` lands in the entry of
  request `j` (`AL.bumpMany`);
* `"capacity"` (capacity overflow in a `reserve`) is allowed exactly where the call may have to grow:
  a chain / `try_insert` that inserts on an absent key (`rustc_entry`: any chain on an absent key,
  its `reserve(1)` runs first), with the map untouched; `extend`, with a prefix of the items inserted.
* raw entries with a caller-supplied hash are specified under their documented contract
  `MapOpX.contract H` (`ph = H k`).
-/
import Hb.Model.MapOpsX
import Hb.Proofs.EntrySpec
namespace Hb
open Map (EChain RawChain RawMode EOut)

/-- Basic calls must be among those covered by the basic theorem (`MapOp.basic`). -/
def MapOpX.basicOk : MapOpX → Bool
  | .base op => op.basic
  | _ => true

/-- Documented contract of the raw-entry builders that take a caller-supplied hash
    (`from_key_hashed_nocheck`, `from_hash`, `insert_hashed_nocheck` / `insert_with_hasher`): the hash
    is the key's hash. `True` for every other call. -/
def MapOpX.contract (H : Nat → Nat) : MapOpX → Prop
  | .rawEntry mode ph k c => (mode = .fromKey ∨ ph = H k) ∧ (c.UsesHash → ph = H k)
  | .rawGet mode ph k => mode = .fromKey ∨ ph = H k
  | _ => True

namespace AL

/-- Index of the first request naming key `k`. -/
def firstIdx : List Nat → Nat → Option Nat
  | [], _ => none
  | a :: rest, k => if a = k then some 0 else (firstIdx rest k).map (· + 1)

/-- The writes of a successful `get_many_mut(ks)`: the entry of request `j` gets `v += 1000 * (j + 1)`
    (each present key is requested at most once, so "the first request naming it" is "the" request). -/
def bumpMany (l : AL) (ks : List Nat) : AL :=
  l.map fun x =>
    match firstIdx ks x.k with
    | some j => { x with v := x.v + 1000 * (j + 1) }
    | none => x

/-- Two requests of `get_many_mut(ks)` name the same PRESENT key. -/
def DupHit (l : AL) (ks : List Nat) : Prop :=
  ∃ (j1 j2 k : Nat), j1 < j2 ∧ ks[j1]? = some k ∧ ks[j2]? = some k ∧ l.find k ≠ none

/-- One extended call on the abstract map. -/
inductive StepX (P : Pred) (H : Nat → Nat) : MapOpX → AL → Map.ObsX → AL → Prop where
  /- basic calls -/
  | base {op : MapOp} {l l' : AL} {r : Ret} (hs : Step P op l r l') :
      StepX P H (.base op) l (.ret (.base r)) l'
  | baseOverflow {op : MapOp} (l : AL) (ho : op.mayOverflow = true) :
      StepX P H (.base op) l (.panic "capacity") l
  /- `entry(key)` + chain -/
  | entryOcc (cfg : Cfg) {k : Nat} (kid : Nat) (c : EChain) {l : AL} {old : Elem}
      (hf : l.find k = some old) :
      StepX P H (.entry k kid c) l (.ret (.ent true (c.occSpec cfg old l).1)) (c.occSpec cfg old l).2.1
  | entryVac (cfg : Cfg) {k : Nat} (kid : Nat) (c : EChain) {l : AL} (hf : l.find k = none) :
      StepX P H (.entry k kid c) l (.ret (.ent false (c.vacSpec cfg k kid l).1))
        (c.vacSpec cfg k kid l).2.1
  | entryOverflow {k kid : Nat} {c : EChain} {l : AL} {e : Elem} (hf : l.find k = none)
      (hi : c.inserted k kid = some e) : StepX P H (.entry k kid c) l (.panic "capacity") l
  /- `entry_ref(&key)` + chain -/
  | entryRefOcc (cfg : Cfg) {k : Nat} (newkid : Nat) (c : EChain) {l : AL} {old : Elem}
      (hf : l.find k = some old) :
      StepX P H (.entryRef k newkid c) l (.ret (.ent true (c.refOccSpec cfg k old l).1))
        (c.refOccSpec cfg k old l).2.1
  | entryRefVac (cfg : Cfg) {k : Nat} (newkid : Nat) (c : EChain) {l : AL} (hf : l.find k = none) :
      StepX P H (.entryRef k newkid c) l (.ret (.ent false (c.refVacSpec cfg k newkid l).1))
        (c.refVacSpec cfg k newkid l).2.1
  | entryRefOverflow {k newkid : Nat} {c : EChain} {l : AL} {e : Elem} (hf : l.find k = none)
      (hi : c.refInserted k newkid = some e) : StepX P H (.entryRef k newkid c) l (.panic "capacity") l
  /- `rustc_entry(key)` + chain: the tables of `entry`; `reserve(1)` runs before ANY vacant chain -/
  | rustcOcc (cfg : Cfg) {k : Nat} (kid : Nat) (c : EChain) {l : AL} {old : Elem}
      (hf : l.find k = some old) :
      StepX P H (.rustcEntry k kid c) l (.ret (.ent true (c.occSpec cfg old l).1))
        (c.occSpec cfg old l).2.1
  | rustcVac (cfg : Cfg) {k : Nat} (kid : Nat) (c : EChain) {l : AL} (hf : l.find k = none) :
      StepX P H (.rustcEntry k kid c) l (.ret (.ent false (c.vacSpec cfg k kid l).1))
        (c.vacSpec cfg k kid l).2.1
  | rustcOverflow {k : Nat} (kid : Nat) (c : EChain) {l : AL} (hf : l.find k = none) :
      StepX P H (.rustcEntry k kid c) l (.panic "capacity") l
  /- `raw_entry_mut().from_*(..)` + chain, under the contract on a caller-supplied hash -/
  | rawOcc (cfg : Cfg) {mode : RawMode} {ph k : Nat} (c : RawChain) {l : AL} {old : Elem}
      (hct : (MapOpX.rawEntry mode ph k c).contract H) (hf : l.find k = some old) :
      StepX P H (.rawEntry mode ph k c) l (.ret (.ent true (c.occSpec cfg old l).1))
        (c.occSpec cfg old l).2.1
  | rawVac (cfg : Cfg) {mode : RawMode} {ph k : Nat} (c : RawChain) {l : AL}
      (hct : (MapOpX.rawEntry mode ph k c).contract H) (hf : l.find k = none) :
      StepX P H (.rawEntry mode ph k c) l (.ret (.ent false (c.vacSpec cfg k l).1))
        (c.vacSpec cfg k l).2.1
  | rawOverflow {mode : RawMode} {ph k : Nat} {c : RawChain} {l : AL} {e : Elem}
      (hct : (MapOpX.rawEntry mode ph k c).contract H) (hf : l.find k = none)
      (hi : c.inserted k = some e) : StepX P H (.rawEntry mode ph k c) l (.panic "capacity") l
  /- `raw_entry().from_*(..)` = `get_key_value` -/
  | rawGet {mode : RawMode} {ph : Nat} (k : Nat) (l : AL)
      (hct : (MapOpX.rawGet mode ph k).contract H) :
      StepX P H (.rawGet mode ph k) l (.ret (.elem (l.find k))) l
  /- `try_insert` -/
  | tryInsertOcc {e cur : Elem} {l : AL} (hf : l.find e.k = some cur) :
      StepX P H (.tryInsert e) l (.ret (.ent false (.elem cur))) l
  | tryInsertVac {e : Elem} {l : AL} (hf : l.find e.k = none) :
      StepX P H (.tryInsert e) l (.ret (.ent true (.elem e))) (e :: l)
  | tryInsertOverflow {e : Elem} {l : AL} (hf : l.find e.k = none) :
      StepX P H (.tryInsert e) l (.panic "capacity") l
  /- `extend` = fold of `insert`; a capacity overflow leaves a prefix of the items inserted -/
  | extend (items : List Elem) (l : AL) : StepX P H (.extend items) l (.ret .unit) (l.insertAll items)
  | extendOverflow (items : List Elem) (l : AL) (n : Nat) :
      StepX P H (.extend items) l (.panic "capacity") (l.insertAll (items.take n))
  /- `get_many_mut` -/
  | getManyDup {ks : List Nat} {l : AL} (hd : DupHit l ks) :
      StepX P H (.getManyMut ks) l (.panic "dup") l
  | getManyOk {ks : List Nat} {l : AL} (hd : ¬ DupHit l ks) :
      StepX P H (.getManyMut ks) l (.ret (.many (ks.map l.find))) (l.bumpMany ks)
  /- `map[&k]` -/
  | indexOk {k : Nat} {l : AL} {e : Elem} (hf : l.find k = some e) :
      StepX P H (.index k) l (.ret (.val e.vid e.v)) l
  | indexMissing {k : Nat} {l : AL} (hf : l.find k = none) :
      StepX P H (.index k) l (.panic "nokey") l

/-- A history on the abstract map: one `StepX` per call, panics included (they are observations). -/
inductive TraceX (P : Pred) (H : Nat → Nat) : List MapOpX → AL → List Map.ObsX → AL → Prop where
  | nil (l : AL) : TraceX P H [] l [] l
  | cons {op : MapOpX} {ops : List MapOpX} {l l' lf : AL} {o : Map.ObsX} {os : List Map.ObsX}
      (hs : StepX P H op l o l') (ht : TraceX P H ops l' os lf) :
      TraceX P H (op :: ops) l (o :: os) lf

end AL

/-! ## the destructor-event component (and `cfg`) of the chain tables plays no role here -/

theorem sx_occSpec_cfg (cfg cfg' : Cfg) (c : EChain) (old : Elem) (l : AL) :
    (c.occSpec cfg old l).1 = (c.occSpec cfg' old l).1 ∧
    (c.occSpec cfg old l).2.1 = (c.occSpec cfg' old l).2.1 := by
  cases c <;> first | exact ⟨rfl, rfl⟩ | (rename_i keep nv; cases keep <;> exact ⟨rfl, rfl⟩)

theorem sx_vacSpec_cfg (cfg cfg' : Cfg) (k kid : Nat) (c : EChain) (l : AL) :
    (c.vacSpec cfg k kid l).1 = (c.vacSpec cfg' k kid l).1 ∧
    (c.vacSpec cfg k kid l).2.1 = (c.vacSpec cfg' k kid l).2.1 := by
  cases c <;> exact ⟨rfl, rfl⟩

theorem sx_refOccSpec_cfg (cfg cfg' : Cfg) (k : Nat) (c : EChain) (old : Elem) (l : AL) :
    (c.refOccSpec cfg k old l).1 = (c.refOccSpec cfg' k old l).1 ∧
    (c.refOccSpec cfg k old l).2.1 = (c.refOccSpec cfg' k old l).2.1 := by
  cases c <;> first | exact ⟨rfl, rfl⟩ | (rename_i keep nv; cases keep <;> exact ⟨rfl, rfl⟩)

theorem sx_refVacSpec_cfg (cfg cfg' : Cfg) (k newkid : Nat) (c : EChain) (l : AL) :
    (c.refVacSpec cfg k newkid l).1 = (c.refVacSpec cfg' k newkid l).1 ∧
    (c.refVacSpec cfg k newkid l).2.1 = (c.refVacSpec cfg' k newkid l).2.1 := by
  cases c <;> exact ⟨rfl, rfl⟩

theorem sx_rawOccSpec_cfg (cfg cfg' : Cfg) (c : RawChain) (old : Elem) (l : AL) :
    (c.occSpec cfg old l).1 = (c.occSpec cfg' old l).1 ∧
    (c.occSpec cfg old l).2.1 = (c.occSpec cfg' old l).2.1 := by
  cases c <;> first | exact ⟨rfl, rfl⟩ | (rename_i keep nv; cases keep <;> exact ⟨rfl, rfl⟩)

theorem sx_rawVacSpec_cfg (cfg cfg' : Cfg) (k : Nat) (c : RawChain) (l : AL) :
    (c.vacSpec cfg k l).1 = (c.vacSpec cfg' k l).1 ∧
    (c.vacSpec cfg k l).2.1 = (c.vacSpec cfg' k l).2.1 := by
  cases c <;> exact ⟨rfl, rfl⟩


/-! ## the specification does not depend on the order of the abstract list -/

theorem sx_occSpec_perm (cfg : Cfg) (c : EChain) (old : Elem) {l l' : AL} (hp : List.Perm l l') :
    (c.occSpec cfg old l).1 = (c.occSpec cfg old l').1 ∧
    List.Perm (c.occSpec cfg old l).2.1 (c.occSpec cfg old l').2.1 := by
  cases c <;>
    first
    | exact ⟨rfl, hp⟩
    | exact ⟨rfl, AL.perm_setVal hp _ _ _⟩
    | exact ⟨rfl, AL.perm_setPayload hp _ _⟩
    | exact ⟨rfl, AL.perm_erase hp _⟩
    | (rename_i keep nv; cases keep
       · exact ⟨rfl, AL.perm_erase hp _⟩
       · exact ⟨rfl, AL.perm_setPayload hp _ _⟩)

theorem sx_vacSpec_perm (cfg : Cfg) (k kid : Nat) (c : EChain) {l l' : AL} (hp : List.Perm l l') :
    (c.vacSpec cfg k kid l).1 = (c.vacSpec cfg k kid l').1 ∧
    List.Perm (c.vacSpec cfg k kid l).2.1 (c.vacSpec cfg k kid l').2.1 := by
  cases c <;> first | exact ⟨rfl, hp⟩ | exact ⟨rfl, hp.cons _⟩

theorem sx_refOccSpec_perm (cfg : Cfg) (k : Nat) (c : EChain) (old : Elem) {l l' : AL}
    (hp : List.Perm l l') :
    (c.refOccSpec cfg k old l).1 = (c.refOccSpec cfg k old l').1 ∧
    List.Perm (c.refOccSpec cfg k old l).2.1 (c.refOccSpec cfg k old l').2.1 := by
  cases c <;>
    first
    | exact ⟨rfl, hp⟩
    | exact ⟨rfl, AL.perm_setVal hp _ _ _⟩
    | exact ⟨rfl, AL.perm_setPayload hp _ _⟩
    | exact ⟨rfl, AL.perm_erase hp _⟩
    | (rename_i keep nv; cases keep
       · exact ⟨rfl, AL.perm_erase hp _⟩
       · exact ⟨rfl, AL.perm_setPayload hp _ _⟩)

theorem sx_refVacSpec_perm (cfg : Cfg) (k newkid : Nat) (c : EChain) {l l' : AL} (hp : List.Perm l l') :
    (c.refVacSpec cfg k newkid l).1 = (c.refVacSpec cfg k newkid l').1 ∧
    List.Perm (c.refVacSpec cfg k newkid l).2.1 (c.refVacSpec cfg k newkid l').2.1 := by
  cases c <;> first | exact ⟨rfl, hp⟩ | exact ⟨rfl, hp.cons _⟩

theorem AL.perm_setKid {l l' : AL} (hp : List.Perm l l') (k kid : Nat) :
    List.Perm (l.setKid k kid) (l'.setKid k kid) := hp.map _

theorem sx_rawOccSpec_perm (cfg : Cfg) (c : RawChain) (old : Elem) {l l' : AL} (hp : List.Perm l l') :
    (c.occSpec cfg old l).1 = (c.occSpec cfg old l').1 ∧
    List.Perm (c.occSpec cfg old l).2.1 (c.occSpec cfg old l').2.1 := by
  cases c <;>
    first
    | exact ⟨rfl, hp⟩
    | exact ⟨rfl, AL.perm_setVal hp _ _ _⟩
    | exact ⟨rfl, AL.perm_setPayload hp _ _⟩
    | exact ⟨rfl, AL.perm_erase hp _⟩
    | exact ⟨rfl, AL.perm_setKid hp _ _⟩
    | (rename_i keep nv; cases keep
       · exact ⟨rfl, AL.perm_erase hp _⟩
       · exact ⟨rfl, AL.perm_setPayload hp _ _⟩)

theorem sx_rawVacSpec_perm (cfg : Cfg) (k : Nat) (c : RawChain) {l l' : AL} (hp : List.Perm l l') :
    (c.vacSpec cfg k l).1 = (c.vacSpec cfg k l').1 ∧
    List.Perm (c.vacSpec cfg k l).2.1 (c.vacSpec cfg k l').2.1 := by
  cases c <;> first | exact ⟨rfl, hp⟩ | exact ⟨rfl, hp.cons _⟩

namespace AL

theorem dupHit_perm {l l' : AL} (hp : List.Perm l l') (hn : l.keysNodup) (ks : List Nat) :
    DupHit l ks ↔ DupHit l' ks := by
  unfold DupHit
  constructor
  · rintro ⟨j1, j2, k, a, b, c, d⟩
    exact ⟨j1, j2, k, a, b, c, by rw [← perm_find hp hn]; exact d⟩
  · rintro ⟨j1, j2, k, a, b, c, d⟩
    exact ⟨j1, j2, k, a, b, c, by rw [perm_find hp hn]; exact d⟩

theorem perm_bumpMany {l l' : AL} (hp : List.Perm l l') (ks : List Nat) :
    List.Perm (l.bumpMany ks) (l'.bumpMany ks) := hp.map _

/-- An extended step from `l` can be replayed from any permutation of `l`: same observation, result
    up to permutation. -/
theorem StepX.perm {P : Pred} {H : Nat → Nat} {op : MapOpX} {l l1 l' : AL} {o : Map.ObsX}
    (hs : StepX P H op l o l1) (hp : List.Perm l l') (hn : l.keysNodup) :
    ∃ l1', StepX P H op l' o l1' ∧ List.Perm l1 l1' := by
  have hfind : ∀ k, l'.find k = l.find k := fun k => (perm_find hp hn k).symm
  cases hs with
  | base hs =>
    obtain ⟨l1', hs', hp'⟩ := hs.perm hp hn
    exact ⟨l1', .base hs', hp'⟩
  | baseOverflow _ ho => exact ⟨l', .baseOverflow l' ho, hp⟩
  | entryOcc cfg kid c hf =>
    refine ⟨_, ?_, (sx_occSpec_perm cfg c _ hp).2⟩
    rw [(sx_occSpec_perm cfg c _ hp).1]
    exact .entryOcc cfg kid c (by rw [hfind]; exact hf)
  | entryVac cfg kid c hf =>
    refine ⟨_, ?_, (sx_vacSpec_perm cfg _ kid c hp).2⟩
    rw [(sx_vacSpec_perm cfg _ kid c hp).1]
    exact .entryVac cfg kid c (by rw [hfind]; exact hf)
  | entryOverflow hf hi => exact ⟨l', .entryOverflow (by rw [hfind]; exact hf) hi, hp⟩
  | entryRefOcc cfg newkid c hf =>
    refine ⟨_, ?_, (sx_refOccSpec_perm cfg _ c _ hp).2⟩
    rw [(sx_refOccSpec_perm cfg _ c _ hp).1]
    exact .entryRefOcc cfg newkid c (by rw [hfind]; exact hf)
  | entryRefVac cfg newkid c hf =>
    refine ⟨_, ?_, (sx_refVacSpec_perm cfg _ newkid c hp).2⟩
    rw [(sx_refVacSpec_perm cfg _ newkid c hp).1]
    exact .entryRefVac cfg newkid c (by rw [hfind]; exact hf)
  | entryRefOverflow hf hi => exact ⟨l', .entryRefOverflow (by rw [hfind]; exact hf) hi, hp⟩
  | rustcOcc cfg kid c hf =>
    refine ⟨_, ?_, (sx_occSpec_perm cfg c _ hp).2⟩
    rw [(sx_occSpec_perm cfg c _ hp).1]
    exact .rustcOcc cfg kid c (by rw [hfind]; exact hf)
  | rustcVac cfg kid c hf =>
    refine ⟨_, ?_, (sx_vacSpec_perm cfg _ kid c hp).2⟩
    rw [(sx_vacSpec_perm cfg _ kid c hp).1]
    exact .rustcVac cfg kid c (by rw [hfind]; exact hf)
  | rustcOverflow kid c hf => exact ⟨l', .rustcOverflow kid c (by rw [hfind]; exact hf), hp⟩
  | rawOcc cfg c hct hf =>
    refine ⟨_, ?_, (sx_rawOccSpec_perm cfg c _ hp).2⟩
    rw [(sx_rawOccSpec_perm cfg c _ hp).1]
    exact .rawOcc cfg c hct (by rw [hfind]; exact hf)
  | rawVac cfg c hct hf =>
    refine ⟨_, ?_, (sx_rawVacSpec_perm cfg _ c hp).2⟩
    rw [(sx_rawVacSpec_perm cfg _ c hp).1]
    exact .rawVac cfg c hct (by rw [hfind]; exact hf)
  | rawOverflow hct hf hi => exact ⟨l', .rawOverflow hct (by rw [hfind]; exact hf) hi, hp⟩
  | rawGet k _ hct =>
    rw [← hfind]
    exact ⟨l', .rawGet k l' hct, hp⟩
  | tryInsertOcc hf => exact ⟨l', .tryInsertOcc (by rw [hfind]; exact hf), hp⟩
  | tryInsertVac hf => exact ⟨_, .tryInsertVac (by rw [hfind]; exact hf), hp.cons _⟩
  | tryInsertOverflow hf => exact ⟨l', .tryInsertOverflow (by rw [hfind]; exact hf), hp⟩
  | extend items _ =>
    exact ⟨_, .extend items l', (en_insertAll_perm (cfg := { ops := Sse2.ops }) items hp hn).1⟩
  | extendOverflow items _ n =>
    exact ⟨_, .extendOverflow items l' n,
      (en_insertAll_perm (cfg := { ops := Sse2.ops }) (items.take n) hp hn).1⟩
  | getManyDup hd => exact ⟨l', .getManyDup ((dupHit_perm hp hn _).mp hd), hp⟩
  | getManyOk hd =>
    rename_i ks
    refine ⟨_, ?_, perm_bumpMany hp ks⟩
    have hm : ks.map l.find = ks.map l'.find := by
      apply List.map_congr_left; intro k _; exact (hfind k).symm
    rw [hm]
    exact .getManyOk (fun hd' => hd ((dupHit_perm hp hn _).mpr hd'))
  | indexOk hf => exact ⟨l', .indexOk (by rw [hfind]; exact hf), hp⟩
  | indexMissing hf => exact ⟨l', .indexMissing (by rw [hfind]; exact hf), hp⟩

end AL


/-! ## sanity: the specification is pinned down -/

namespace AL

/-- The basic specification is functional, except for the result of `try_reserve`. -/
theorem Step.functional {P : Pred} {op : MapOp} {l l1 l2 : AL} {r1 r2 : Ret}
    (h1 : Step P op l r1 l1) (h2 : Step P op l r2 l2) :
    l1 = l2 ∧ ((∀ n, op ≠ .tryReserve n) → r1 = r2) := by
  cases h1 with
  | insertNew e _ hf =>
    cases h2 with
    | insertNew _ _ _ => exact ⟨rfl, fun _ => rfl⟩
    | insertOld _ old _ hf' => rw [hf] at hf'; cases hf'
  | insertOld e old _ hf =>
    cases h2 with
    | insertNew _ _ hf' => rw [hf] at hf'; cases hf'
    | insertOld _ old' _ hf' => rw [hf] at hf'; cases hf'; exact ⟨rfl, fun _ => rfl⟩
  | get k => cases h2; exact ⟨rfl, fun _ => rfl⟩
  | getMut k nv => cases h2; exact ⟨rfl, fun _ => rfl⟩
  | remove k => cases h2; exact ⟨rfl, fun _ => rfl⟩
  | removeEntry k => cases h2; exact ⟨rfl, fun _ => rfl⟩
  | clear => cases h2; exact ⟨rfl, fun _ => rfl⟩
  | reserve n => cases h2; exact ⟨rfl, fun _ => rfl⟩
  | tryReserve n r => cases h2; exact ⟨rfl, fun hne => absurd rfl (hne n)⟩
  | shrinkTo m => cases h2; exact ⟨rfl, fun _ => rfl⟩
  | retain => cases h2; exact ⟨rfl, fun _ => rfl⟩

/-- **`StepX` is functional on returning calls**: two returning outcomes of the same call on the same
    abstract map leave the same map and — except for `try_reserve`, whose result the basic
    specification leaves open — return the same value. (The only other freedom of `StepX` is the
    `"capacity"` panic in place of a return, see `StepX.panic_inv`.) -/
theorem StepX.ret_functional {P : Pred} {H : Nat → Nat} {op : MapOpX} {l l1 l2 : AL} {r1 r2 : RetX}
    (h1 : StepX P H op l (.ret r1) l1) (h2 : StepX P H op l (.ret r2) l2) :
    l1 = l2 ∧ ((∀ n, op ≠ .base (.tryReserve n)) → r1 = r2) := by
  cases h1 with
  | base hs1 =>
    cases h2 with
    | base hs2 =>
      obtain ⟨a, b⟩ := hs1.functional hs2
      exact ⟨a, fun hne => by rw [b (fun n hn => hne n (by rw [hn]))]⟩
  | entryOcc cfg1 kid c hf1 =>
    cases h2 with
    | entryOcc cfg2 _ _ hf2 =>
      rw [hf1] at hf2; cases hf2
      obtain ⟨a, b⟩ := sx_occSpec_cfg cfg1 cfg2 c _ l
      exact ⟨b, fun _ => by rw [a]⟩
    | entryVac cfg2 _ _ hf2 => rw [hf1] at hf2; cases hf2
  | entryVac cfg1 kid c hf1 =>
    cases h2 with
    | entryOcc cfg2 _ _ hf2 => rw [hf1] at hf2; cases hf2
    | entryVac cfg2 _ _ hf2 =>
      obtain ⟨a, b⟩ := sx_vacSpec_cfg cfg1 cfg2 _ kid c l
      exact ⟨b, fun _ => by rw [a]⟩
  | entryRefOcc cfg1 newkid c hf1 =>
    cases h2 with
    | entryRefOcc cfg2 _ _ hf2 =>
      rw [hf1] at hf2; cases hf2
      obtain ⟨a, b⟩ := sx_refOccSpec_cfg cfg1 cfg2 _ c _ l
      exact ⟨b, fun _ => by rw [a]⟩
    | entryRefVac cfg2 _ _ hf2 => rw [hf1] at hf2; cases hf2
  | entryRefVac cfg1 newkid c hf1 =>
    cases h2 with
    | entryRefOcc cfg2 _ _ hf2 => rw [hf1] at hf2; cases hf2
    | entryRefVac cfg2 _ _ hf2 =>
      obtain ⟨a, b⟩ := sx_refVacSpec_cfg cfg1 cfg2 _ newkid c l
      exact ⟨b, fun _ => by rw [a]⟩
  | rustcOcc cfg1 kid c hf1 =>
    cases h2 with
    | rustcOcc cfg2 _ _ hf2 =>
      rw [hf1] at hf2; cases hf2
      obtain ⟨a, b⟩ := sx_occSpec_cfg cfg1 cfg2 c _ l
      exact ⟨b, fun _ => by rw [a]⟩
    | rustcVac cfg2 _ _ hf2 => rw [hf1] at hf2; cases hf2
  | rustcVac cfg1 kid c hf1 =>
    cases h2 with
    | rustcOcc cfg2 _ _ hf2 => rw [hf1] at hf2; cases hf2
    | rustcVac cfg2 _ _ hf2 =>
      obtain ⟨a, b⟩ := sx_vacSpec_cfg cfg1 cfg2 _ kid c l
      exact ⟨b, fun _ => by rw [a]⟩
  | rawOcc cfg1 c hct1 hf1 =>
    cases h2 with
    | rawOcc cfg2 _ _ hf2 =>
      rw [hf1] at hf2; cases hf2
      obtain ⟨a, b⟩ := sx_rawOccSpec_cfg cfg1 cfg2 c _ l
      exact ⟨b, fun _ => by rw [a]⟩
    | rawVac cfg2 _ _ hf2 => rw [hf1] at hf2; cases hf2
  | rawVac cfg1 c hct1 hf1 =>
    cases h2 with
    | rawOcc cfg2 _ _ hf2 => rw [hf1] at hf2; cases hf2
    | rawVac cfg2 _ _ hf2 =>
      obtain ⟨a, b⟩ := sx_rawVacSpec_cfg cfg1 cfg2 _ c l
      exact ⟨b, fun _ => by rw [a]⟩
  | rawGet k _ hct => cases h2; exact ⟨rfl, fun _ => rfl⟩
  | tryInsertOcc hf1 =>
    cases h2 with
    | tryInsertOcc hf2 => rw [hf1] at hf2; cases hf2; exact ⟨rfl, fun _ => rfl⟩
    | tryInsertVac hf2 => rw [hf1] at hf2; cases hf2
  | tryInsertVac hf1 =>
    cases h2 with
    | tryInsertOcc hf2 => rw [hf1] at hf2; cases hf2
    | tryInsertVac hf2 => exact ⟨rfl, fun _ => rfl⟩
  | extend items _ => cases h2; exact ⟨rfl, fun _ => rfl⟩
  | getManyOk hd => cases h2; exact ⟨rfl, fun _ => rfl⟩
  | indexOk hf1 =>
    cases h2 with
    | indexOk hf2 => rw [hf1] at hf2; cases hf2; exact ⟨rfl, fun _ => rfl⟩

/-- Calls that may end in the `"capacity"` panic: the growing basic calls, an inserting chain /
    `try_insert` (on an absent key), any `rustc_entry` chain (on an absent key), `extend`. -/
def _root_.Hb.MapOpX.mayOverflow : MapOpX → Bool
  | .base op => op.mayOverflow
  | .entry k kid c => (c.inserted k kid).isSome
  | .entryRef k newkid c => (c.refInserted k newkid).isSome
  | .rustcEntry _ _ _ => true
  | .rawEntry _ _ k c => (c.inserted k).isSome
  | .tryInsert _ => true
  | .extend _ => true
  | _ => false

/-- The key an entry-style call looks up. -/
def _root_.Hb.MapOpX.lookKey : MapOpX → Option Nat
  | .entry k _ _ | .entryRef k _ _ | .rustcEntry k _ _ | .rawEntry _ _ k _ => some k
  | .tryInsert e => some e.k
  | _ => none

/-- **The panics of `StepX`**: `"capacity"` only for a call that may have to grow (for the entry-style
    calls only when the key is absent), the map untouched — for `extend`: a prefix of the items
    inserted —; `"dup"` only for `get_many_mut` with two requests naming one present key; `"nokey"`
    only for `Index` of an absent key; the latter two leave the map untouched. -/
theorem StepX.panic_inv {P : Pred} {H : Nat → Nat} {op : MapOpX} {l l' : AL} {c : String}
    (h : StepX P H op l (.panic c) l') :
    (c = "capacity" ∧ op.mayOverflow = true ∧ (∀ k, op.lookKey = some k → l.find k = none) ∧
      ((∀ items, op ≠ .extend items) → l' = l) ∧
      (∀ items, op = .extend items → ∃ n, l' = l.insertAll (items.take n))) ∨
    (c = "dup" ∧ l' = l ∧ ∃ ks, op = .getManyMut ks ∧ DupHit l ks) ∨
    (c = "nokey" ∧ l' = l ∧ ∃ k, op = .index k ∧ l.find k = none) := by
  cases h with
  | baseOverflow _ ho =>
    refine .inl ⟨rfl, ho, ?_, fun _ => rfl, ?_⟩
    · intro k hk; cases hk
    · intro items hi; cases hi
  | entryOverflow hf hi =>
    refine .inl ⟨rfl, ?_, ?_, fun _ => rfl, ?_⟩
    · simp only [MapOpX.mayOverflow, hi, Option.isSome_some]
    · intro k hk; cases hk; exact hf
    · intro items hi; cases hi
  | entryRefOverflow hf hi =>
    refine .inl ⟨rfl, ?_, ?_, fun _ => rfl, ?_⟩
    · simp only [MapOpX.mayOverflow, hi, Option.isSome_some]
    · intro k hk; cases hk; exact hf
    · intro items hi; cases hi
  | rustcOverflow kid c hf =>
    refine .inl ⟨rfl, rfl, ?_, fun _ => rfl, ?_⟩
    · intro k hk; cases hk; exact hf
    · intro items hi; cases hi
  | rawOverflow hct hf hi =>
    refine .inl ⟨rfl, ?_, ?_, fun _ => rfl, ?_⟩
    · simp only [MapOpX.mayOverflow, hi, Option.isSome_some]
    · intro k hk; cases hk; exact hf
    · intro items hi; cases hi
  | tryInsertOverflow hf =>
    refine .inl ⟨rfl, rfl, ?_, fun _ => rfl, ?_⟩
    · intro k hk; cases hk; exact hf
    · intro items hi; cases hi
  | extendOverflow items _ n =>
    refine .inl ⟨rfl, rfl, ?_, fun hne => absurd rfl (hne items), ?_⟩
    · intro k hk; cases hk
    · intro items' hi; cases hi; exact ⟨n, rfl⟩
  | getManyDup hd => exact .inr (.inl ⟨rfl, rfl, _, rfl, hd⟩)
  | indexMissing hf => exact .inr (.inr ⟨rfl, rfl, _, rfl, hf⟩)

/-- The only freedom between returning and panicking is the capacity overflow: if a call may both
    return and panic on the same abstract map, the panic is `"capacity"`. In particular
    `get_many_mut` and `Index` are deterministic. -/
theorem StepX.ret_and_panic {P : Pred} {H : Nat → Nat} {op : MapOpX} {l l1 l2 : AL} {r : RetX}
    {c : String} (h1 : StepX P H op l (.ret r) l1) (h2 : StepX P H op l (.panic c) l2) :
    c = "capacity" := by
  rcases h2.panic_inv with ⟨hc, _⟩ | ⟨_, _, ks, rfl, hd⟩ | ⟨_, _, k, rfl, hf⟩
  · exact hc
  · cases h1 with
    | getManyOk hnd => exact absurd hd hnd
  · cases h1 with
    | indexOk hf' => rw [hf] at hf'; cases hf'

/-- Two panicking outcomes of the same call on the same abstract map carry the same message and —
    except for `extend`, which may stop after any prefix — leave the same map. -/
theorem StepX.panic_functional {P : Pred} {H : Nat → Nat} {op : MapOpX} {l l1 l2 : AL}
    {c1 c2 : String} (h1 : StepX P H op l (.panic c1) l1) (h2 : StepX P H op l (.panic c2) l2) :
    c1 = c2 ∧ ((∀ items, op ≠ .extend items) → l1 = l2) := by
  rcases h1.panic_inv with ⟨a1, ao, _, a4, _⟩ | ⟨a1, a2, ks, rfl, _⟩ | ⟨a1, a2, k, rfl, _⟩ <;>
    rcases h2.panic_inv with ⟨b1, bo, _, b4, _⟩ | ⟨b1, b2, ks', hb, _⟩ | ⟨b1, b2, k', hb, _⟩
  · exact ⟨a1.trans b1.symm, fun hne => (a4 hne).trans (b4 hne).symm⟩
  · subst hb; cases ao
  · subst hb; cases ao
  · cases bo
  · exact ⟨a1.trans b1.symm, fun _ => a2.trans b2.symm⟩
  · cases hb
  · cases bo
  · cases hb
  · exact ⟨a1.trans b1.symm, fun _ => a2.trans b2.symm⟩

/-- `entry(k).or_insert(v)`: the map is unchanged when `k` is present (the stored value is handed
    back), else the pair `(k, v)` — with the key object passed to `entry` — is added. -/
theorem StepX.entry_orInsert {P : Pred} {H : Nat → Nat} {k kid vid v : Nat} {l l' : AL} {r : RetX}
    (h : StepX P H (.entry k kid (.orInsert vid v)) l (.ret r) l') :
    match l.find k with
    | some old => r = .ent true (.val old.vid old.v) ∧ l' = l
    | none => r = .ent false (.val vid v) ∧ l' = ⟨k, kid, vid, v⟩ :: l := by
  cases h with
  | entryOcc cfg _ _ hf => rw [hf]; exact ⟨rfl, rfl⟩
  | entryVac cfg _ _ hf => rw [hf]; exact ⟨rfl, rfl⟩

/-- `entry(k).insert(v)` ≡ `insert(k, v)` on the contents: value replaced under the STORED key object
    when present, pair added when absent. -/
theorem StepX.entry_insert {P : Pred} {H : Nat → Nat} {k kid vid v : Nat} {l l' : AL} {r : RetX}
    (h : StepX P H (.entry k kid (.insert vid v)) l (.ret r) l') :
    l' = l.insertOne ⟨k, kid, vid, v⟩ := by
  unfold insertOne
  cases h with
  | entryOcc cfg _ _ hf =>
    rename_i old
    have hk : old.k = k := by
      have := List.find?_some (show List.find? (·.k == k) l = some old from hf)
      simpa using this
    rw [hf]
    show l.setVal old.k vid v = l.setVal k vid v
    rw [hk]
  | entryVac cfg _ _ hf => rw [hf]; rfl

/-- `try_insert`: a present key leaves the map unchanged and reports the STORED element (inside the
    error); an absent key is inserted. -/
theorem StepX.tryInsert_ret {P : Pred} {H : Nat → Nat} {e : Elem} {l l' : AL} {r : RetX}
    (h : StepX P H (.tryInsert e) l (.ret r) l') :
    match l.find e.k with
    | some cur => r = .ent false (.elem cur) ∧ l' = l
    | none => r = .ent true (.elem e) ∧ l' = e :: l := by
  cases h with
  | tryInsertOcc hf => rw [hf]; exact ⟨rfl, rfl⟩
  | tryInsertVac hf => rw [hf]; exact ⟨rfl, rfl⟩

/-- `extend(items)` = the fold of `insert` over the items. -/
theorem StepX.extend_ret {P : Pred} {H : Nat → Nat} {items : List Elem} {l l' : AL} {r : RetX}
    (h : StepX P H (.extend items) l (.ret r) l') :
    l' = items.foldl (fun l e =>
      match l.find e.k with
      | some _ => l.setVal e.k e.vid e.v
      | none => e :: l) l := by
  cases h; rfl

/-- `get_many_mut` panics iff two requests hit the same present key; otherwise it returns the
    `find` of every request, in request order, and performs the writes. -/
theorem StepX.getManyMut_panics_iff {P : Pred} {H : Nat → Nat} {ks : List Nat} {l l' : AL}
    {o : Map.ObsX} (h : StepX P H (.getManyMut ks) l o l') :
    (DupHit l ks → o = .panic "dup" ∧ l' = l) ∧
    (¬ DupHit l ks → o = .ret (.many (ks.map l.find)) ∧ l' = l.bumpMany ks) := by
  cases h with
  | getManyDup hd => exact ⟨fun _ => ⟨rfl, rfl⟩, fun hn => absurd hd hn⟩
  | getManyOk hd => exact ⟨fun hy => absurd hy hd, fun _ => ⟨rfl, rfl⟩⟩

/-- `map[&k]`: the value stored under `k`, or the `"nokey"` panic. -/
theorem StepX.index_inv {P : Pred} {H : Nat → Nat} {k : Nat} {l l' : AL} {o : Map.ObsX}
    (h : StepX P H (.index k) l o l') :
    l' = l ∧ match l.find k with
      | some e => o = .ret (.val e.vid e.v)
      | none => o = .panic "nokey" := by
  cases h with
  | indexOk hf => rw [hf]; exact ⟨rfl, rfl⟩
  | indexMissing hf => rw [hf]; exact ⟨rfl, rfl⟩

end AL


/-! ## the specification keeps the keys pairwise distinct -/

namespace AL

theorem setKid_keys (l : AL) (k kid : Nat) : (l.setKid k kid).map (·.k) = l.map (·.k) := by
  unfold setKid
  rw [List.map_map]
  apply List.map_congr_left
  intro x _
  simp only [Function.comp]
  split <;> rfl

theorem keysNodup_setKid {l : AL} (hn : l.keysNodup) (k kid : Nat) : (l.setKid k kid).keysNodup := by
  unfold keysNodup; rw [setKid_keys]; exact hn

theorem bumpMany_keys (l : AL) (ks : List Nat) : (l.bumpMany ks).map (·.k) = l.map (·.k) := by
  unfold bumpMany
  rw [List.map_map]
  apply List.map_congr_left
  intro x _
  simp only [Function.comp]
  split <;> rfl

theorem keysNodup_bumpMany {l : AL} (hn : l.keysNodup) (ks : List Nat) : (l.bumpMany ks).keysNodup := by
  unfold keysNodup; rw [bumpMany_keys]; exact hn

theorem keysNodup_insertAll (items : List Elem) : ∀ {l : AL}, l.keysNodup → (l.insertAll items).keysNodup := by
  induction items with
  | nil => intro l hn; exact hn
  | cons e rest ih => intro l hn; exact ih (en_insertOne_nodup hn e)

end AL

theorem sx_occSpec_nodup (cfg : Cfg) (c : EChain) (old : Elem) {l : AL} (hn : l.keysNodup) :
    (c.occSpec cfg old l).2.1.keysNodup := by
  cases c <;>
    first
    | exact hn
    | exact AL.keysNodup_setVal hn _ _ _
    | exact AL.keysNodup_setPayload hn _ _
    | exact AL.keysNodup_erase hn _
    | (rename_i keep nv; cases keep
       · exact AL.keysNodup_erase hn _
       · exact AL.keysNodup_setPayload hn _ _)

theorem sx_vacSpec_nodup (cfg : Cfg) (k kid : Nat) (c : EChain) {l : AL} (hn : l.keysNodup)
    (hf : l.find k = none) : (c.vacSpec cfg k kid l).2.1.keysNodup := by
  cases c <;> first | exact hn | exact AL.keysNodup_cons (e := ⟨k, kid, _, _⟩) hn hf

theorem sx_refOccSpec_nodup (cfg : Cfg) (k : Nat) (c : EChain) (old : Elem) {l : AL} (hn : l.keysNodup) :
    (c.refOccSpec cfg k old l).2.1.keysNodup := by
  cases c <;>
    first
    | exact hn
    | exact AL.keysNodup_setVal hn _ _ _
    | exact AL.keysNodup_setPayload hn _ _
    | exact AL.keysNodup_erase hn _
    | (rename_i keep nv; cases keep
       · exact AL.keysNodup_erase hn _
       · exact AL.keysNodup_setPayload hn _ _)

theorem sx_refVacSpec_nodup (cfg : Cfg) (k newkid : Nat) (c : EChain) {l : AL} (hn : l.keysNodup)
    (hf : l.find k = none) : (c.refVacSpec cfg k newkid l).2.1.keysNodup := by
  cases c <;> first | exact hn | exact AL.keysNodup_cons (e := ⟨k, newkid, _, _⟩) hn hf

theorem sx_rawOccSpec_nodup (cfg : Cfg) (c : RawChain) (old : Elem) {l : AL} (hn : l.keysNodup) :
    (c.occSpec cfg old l).2.1.keysNodup := by
  cases c <;>
    first
    | exact hn
    | exact AL.keysNodup_setVal hn _ _ _
    | exact AL.keysNodup_setPayload hn _ _
    | exact AL.keysNodup_erase hn _
    | exact AL.keysNodup_setKid hn _ _
    | (rename_i keep nv; cases keep
       · exact AL.keysNodup_erase hn _
       · exact AL.keysNodup_setPayload hn _ _)

theorem sx_rawVacSpec_nodup (cfg : Cfg) (k : Nat) (c : RawChain) {l : AL} (hn : l.keysNodup)
    (hf : l.find k = none) : (c.vacSpec cfg k l).2.1.keysNodup := by
  cases c <;> first | exact hn | exact AL.keysNodup_cons (e := ⟨k, _, _, _⟩) hn hf

/-- Every outcome of the specification — panics included — leaves each key at most once. -/
theorem AL.StepX.keysNodup {P : AL.Pred} {H : Nat → Nat} {op : MapOpX} {l l' : AL} {o : Map.ObsX}
    (hs : AL.StepX P H op l o l') (hn : l.keysNodup) : l'.keysNodup := by
  cases hs with
  | base hs => exact hs.keysNodup hn
  | baseOverflow _ _ => exact hn
  | entryOcc cfg kid c hf => exact sx_occSpec_nodup cfg c _ hn
  | entryVac cfg kid c hf => exact sx_vacSpec_nodup cfg _ kid c hn hf
  | entryOverflow _ _ => exact hn
  | entryRefOcc cfg newkid c hf => exact sx_refOccSpec_nodup cfg _ c _ hn
  | entryRefVac cfg newkid c hf => exact sx_refVacSpec_nodup cfg _ newkid c hn hf
  | entryRefOverflow _ _ => exact hn
  | rustcOcc cfg kid c hf => exact sx_occSpec_nodup cfg c _ hn
  | rustcVac cfg kid c hf => exact sx_vacSpec_nodup cfg _ kid c hn hf
  | rustcOverflow _ _ _ => exact hn
  | rawOcc cfg c _ hf => exact sx_rawOccSpec_nodup cfg c _ hn
  | rawVac cfg c _ hf => exact sx_rawVacSpec_nodup cfg _ c hn hf
  | rawOverflow _ _ _ => exact hn
  | rawGet _ _ _ => exact hn
  | tryInsertOcc _ => exact hn
  | tryInsertVac hf => exact AL.keysNodup_cons hn hf
  | tryInsertOverflow _ => exact hn
  | extend items _ => exact AL.keysNodup_insertAll items hn
  | extendOverflow items _ n => exact AL.keysNodup_insertAll _ hn
  | getManyDup _ => exact hn
  | getManyOk _ => exact AL.keysNodup_bumpMany hn _
  | indexOk _ => exact hn
  | indexMissing _ => exact hn

end Hb
