/-
The rayon CONSUMER side (`Hb/Model/ParCollect.lean`) against the sequential operations (property
C19, second half: "`par_extend` / `from_par_iter` / `par_eq` / the parallel set operations give the
same result as their sequential counterparts").

Quantification: EVERY split tree (`CTree` over a sequence source — arbitrary split positions;
`Par.Tree` over a hash-table source — the real `RawIterRange::split`), every table satisfying the
invariant (`RI` for the target of `par_extend`, `InvL` / `Inv` for tables that are only read), both
scanners (`CfgOk`), every hash function `H`. Setting as in `C14.extend_spec`: lawful environment
(`Lawful env H`), allocator never refuses, destructors do not panic.

1. `collectTree_flatten`, `collect_len`: the chunks in list order are the input (order kept, nothing
   lost or duplicated), the reported length is the input length.
2. `parExtend_spec` (+ `parExtendList_spec` for any chunk list, `parExtend_eq_sequential`,
   `parExtend_any_two_trees`, `parExtend_last_wins`, `fromParIter_spec`, `setParExtend_spec`,
   `parExtendFrom_spec`): contents `Perm (AL.insertAll l items)`, same destructor events as the
   sequential call, invariant kept, `len ≤ capacity`; `parExtend_reserve_contract`: what the up-front
   `reserve` guarantees. The CAPACITY is not the sequential one in general:
   `capacity_differs_from_sequential` (evaluated).
3. Set predicates / operations and `HashMap::par_eq` over producer trees: `parIsSubset_spec`,
   `parIsSuperset_spec`, `parIsDisjoint_spec`, `parSetEq_spec`, `parMapEq_spec` (same Boolean as
   `Set.isSubset` … `Map.mapEq`, under every stop pattern `StopsOk` that `all`'s early exit can
   produce; `stopsOk_nil`: "no early exit" is one), `parDifference_spec`, `parUnion_spec`,
   `parSymmetricDifference_spec` (leaf outputs concatenate to exactly the sequential iterator's
   output), `parIntersection_spec` (same multiset of keys; the parallel version always iterates `self`).
4. `reversed_reduce_violates_last_wins`: with the reduce the wrong way round the stored value is the
   first one — the theorems are not vacuous. `parExtend_three_leaves` etc.: evaluated examples.

Trusted (not modelled): rayon's scheduler — that it drives a source along SOME tree, folds every
leaf once, and that its reducers (`reduce`, `chain`) combine neighbouring results left-before-right.
-/
import Hb.Model.ParCollect
import Hb.Proofs.EntrySpec
import Hb.Proofs.SetSpec
import Hb.Proofs.ParSpec
import Hb.Proofs.EqSpec
namespace Hb.ParCollect
open Hb

variable {cfg : Cfg} {env : Env} {H : Nat → Nat}

/-! ## 1. `helpers::collect`: for every split tree the chunks, in list order, are the input -/

/-- Order preserved, nothing lost, nothing duplicated. -/
theorem collectTree_flatten {α : Type} (tr : CTree) :
    ∀ xs : List α, (collectTree tr xs).flatten = xs := by
  induction tr with
  | leaf => intro xs; simp [collectTree]
  | node k l r ihl ihr =>
    intro xs
    simp only [collectTree, List.flatten_append, ihl, ihr, List.take_append_drop]

theorem collectLen_eq {α : Type} (list : List (List α)) : collectLen list = list.flatten.length := by
  rw [collectLen, List.length_flatten]

/-- The `len` that `helpers::collect` returns is the length of the input. -/
theorem collect_len {α : Type} (tr : CTree) (xs : List α) : (collect tr xs).2 = xs.length := by
  rw [collect, collectLen_eq, collectTree_flatten]

theorem collect_spec {α : Type} (tr : CTree) (xs : List α) :
    (collect tr xs).1.flatten = xs ∧ (collect tr xs).2 = xs.length ∧
      ((collect tr xs).1.map List.length).sum = xs.length :=
  ⟨collectTree_flatten tr xs, collect_len tr xs, collect_len tr xs⟩

/-- The buggy reduce delivers the chunks of the mirrored tree in reverse order. -/
theorem collectTree'_flatten_reverse {α : Type} (tr : CTree) :
    ∀ xs : List α, ((collectTree' tr xs).reverse).flatten = xs := by
  induction tr with
  | leaf => intro xs; simp [collectTree']
  | node k l r ihl ihr =>
    intro xs
    simp only [collectTree', List.reverse_append, List.flatten_append, ihl, ihr,
      List.take_append_drop]

/-! ## 2. `par_extend` refines the association list like the sequential `extend` -/

theorem insertAll_append (l : AL) (a b : List Elem) :
    AL.insertAll l (a ++ b) = AL.insertAll (AL.insertAll l a) b := by
  unfold AL.insertAll; rw [List.foldl_append]

theorem insertDrops_append (cfg : Cfg) : ∀ (a : List Elem) (l : AL) (b : List Elem),
    AL.insertDrops cfg l (a ++ b) =
      AL.insertDrops cfg (AL.insertAll l a) b ++ AL.insertDrops cfg l a := by
  intro a
  induction a with
  | nil => intro l b; simp [AL.insertDrops, AL.insertAll]
  | cons e a ih =>
    intro l b
    show AL.insertDrops cfg (l.insertOne e) (a ++ b) ++ _ =
      AL.insertDrops cfg (AL.insertAll (l.insertOne e) a) b ++ (AL.insertDrops cfg (l.insertOne e) a ++ _)
    rw [ih, List.append_assoc]

/-- "`e`'s value is what is stored under `e`'s key". -/
def Wins (l : AL) (e : Elem) : Prop := ∃ s, AL.find l e.k = some s ∧ s.vid = e.vid ∧ s.v = e.v

theorem find_setVal (l : AL) (k k' vid v : Nat) :
    AL.find (l.setVal k' vid v) k =
      (AL.find l k).map fun x => if x.k == k' then { x with vid := vid, v := v } else x := by
  unfold AL.find AL.setVal
  rw [List.find?_map]
  have : ((fun x : Elem => x.k == k) ∘
      fun x : Elem => if x.k == k' then { x with vid := vid, v := v } else x) =
      fun x : Elem => x.k == k := by
    funext x
    simp only [Function.comp]
    split <;> rfl
  rw [this]

theorem wins_insertOne_self (l : AL) (e : Elem) : Wins (l.insertOne e) e := by
  unfold Wins AL.insertOne
  cases hf : AL.find l e.k with
  | none => exact ⟨e, by simp [AL.find], rfl, rfl⟩
  | some old =>
    have hk : old.k = e.k := by
      have := List.find?_some hf
      simpa using this
    simp only
    rw [find_setVal, hf]
    refine ⟨_, rfl, ?_, ?_⟩ <;> simp [hk]

theorem wins_insertOne_other (l : AL) (e x : Elem) (hx : x.k ≠ e.k) (h : Wins l e) :
    Wins (l.insertOne x) e := by
  obtain ⟨s, hs, h1, h2⟩ := h
  have hk : s.k = e.k := by
    have := List.find?_some hs
    simpa using this
  unfold Wins AL.insertOne
  cases hf : AL.find l x.k with
  | none =>
    refine ⟨s, ?_, h1, h2⟩
    show List.find? _ (x :: l) = _
    rw [List.find?_cons]
    have : (x.k == e.k) = false := by simpa using hx
    simp only [this]
    exact hs
  | some old =>
    simp only
    rw [find_setVal, hs]
    have hne : s.k ≠ x.k := by rw [hk]; exact fun h => hx h.symm
    exact ⟨s, by simp [hne], h1, h2⟩

theorem wins_insertAll (e : Elem) : ∀ (post : List Elem) (l : AL), (∀ x ∈ post, x.k ≠ e.k) →
    Wins l e → Wins (AL.insertAll l post) e := by
  intro post
  induction post with
  | nil => intro l _ h; exact h
  | cons x rest ih =>
    intro l hp h
    exact ih (l.insertOne x) (fun y hy => hp y (List.mem_cons_of_mem _ hy))
      (wins_insertOne_other l e x (hp x List.mem_cons_self) h)

/-- In `AL.insertAll`, the last occurrence of a key determines the stored value. -/
theorem insertAll_last_wins (l : AL) (pre post : List Elem) (e : Elem)
    (hlast : ∀ x ∈ post, x.k ≠ e.k) :
    ∃ s, AL.find (AL.insertAll l (pre ++ e :: post)) e.k = some s ∧ s.vid = e.vid ∧ s.v = e.v := by
  rw [insertAll_append]
  exact wins_insertAll e post _ hlast (wins_insertOne_self _ e)

theorem insertOne_keys (l : AL) (e : Elem) (k : Nat) :
    k ∈ (l.insertOne e).map (·.k) ↔ k ∈ l.map (·.k) ∨ k = e.k := by
  unfold AL.insertOne
  cases hf : AL.find l e.k with
  | none => simp only [List.map_cons, List.mem_cons]; tauto
  | some old =>
    simp only
    rw [AL.setVal_keys]
    have hk : old.k = e.k := by
      have := List.find?_some hf
      simpa using this
    have hm : e.k ∈ l.map (·.k) := hk ▸ List.mem_map_of_mem (List.mem_of_find?_eq_some hf)
    constructor
    · exact Or.inl
    · rintro (h | rfl)
      · exact h
      · exact hm

/-- The key set after `insertAll`: old keys and item keys. -/
theorem insertAll_keys (l : AL) (items : List Elem) (k : Nat) :
    k ∈ (AL.insertAll l items).map (·.k) ↔ k ∈ l.map (·.k) ∨ k ∈ items.map (·.k) := by
  induction items generalizing l with
  | nil => simp [AL.insertAll]
  | cons e rest ih =>
    show k ∈ (AL.insertAll (l.insertOne e) rest).map (·.k) ↔ _
    rw [ih, insertOne_keys, List.map_cons, List.mem_cons]
    tauto

/-- The chunk loop `for vec in list { map.extend(vec) }` = folding `insert` over the concatenation
    of the chunks, whatever the chunk boundaries. -/
theorem extendChunks_spec (hc : CfgOk cfg) (hl : Lawful env H)
    (halloc : ∀ j, env.allocOk j = true) (hnd : ∀ c e, env.dropPanics c e = false) :
    ∀ (list : List (List Elem)) (w : World), RI cfg H w.t →
      (∃ w', extendChunks cfg env list w = .ok w' ∧ RI cfg H w'.t ∧
        List.Perm w'.t.elems (AL.insertAll w.t.elems list.flatten) ∧
        dropsOf w'.log = AL.insertDrops cfg w.t.elems list.flatten ++ dropsOf w.log) ∨
      (∃ w', extendChunks cfg env list w = .panic "capacity" w' ∧ RI cfg H w'.t) := by
  intro list
  induction list with
  | nil => intro w h; exact Or.inl ⟨w, rfl, h, List.Perm.refl _, rfl⟩
  | cons c rest ih =>
    intro w h
    rw [extendChunks]
    rcases extend_spec hc hl halloc hnd c w h with ⟨w1, hr, hRI1, hp1, hd1⟩ | ⟨w', hr, hRI'⟩
    · rw [hr]
      simp only
      rcases ih w1 hRI1 with ⟨w', hr', hRI', hp', hd'⟩ | ⟨w', hr', hRI'⟩
      · left
        have htr := en_insertAll_perm (cfg := cfg) rest.flatten hp1 (elems_keysNodup hRI1.1)
        refine ⟨w', hr', hRI', ?_, ?_⟩
        · rw [List.flatten_cons, insertAll_append]; exact hp'.trans htr.1
        · rw [List.flatten_cons, insertDrops_append, hd', htr.2, hd1, List.append_assoc]
      · exact Or.inr ⟨w', hr', hRI'⟩
    · right
      rw [hr]
      exact ⟨_, rfl, by rw [en_dropAllQuiet_t]; exact hRI'⟩

/-- `extend(map, par_iter)` for an arbitrary chunk list. -/
theorem parExtendList_spec (hc : CfgOk cfg) (hl : Lawful env H)
    (halloc : ∀ j, env.allocOk j = true) (hnd : ∀ c e, env.dropPanics c e = false)
    (list : List (List Elem)) (w : World) (h : RI cfg H w.t) :
    (∃ w', parExtendList cfg env list w = .ok w' ∧ RI cfg H w'.t ∧
      List.Perm w'.t.elems (AL.insertAll w.t.elems list.flatten) ∧
      dropsOf w'.log = AL.insertDrops cfg w.t.elems list.flatten ++ dropsOf w.log) ∨
    (∃ w', parExtendList cfg env list w = .panic "capacity" w' ∧ RI cfg H w'.t) := by
  unfold parExtendList
  rcases reserve_RI hc (growthLawful hc hc.probe) hl halloc
      (parReserve w.t (collectLen list)) w h with ⟨w1, hr, hRI1, hp1, _, hd1⟩ | hr
  · rw [hr]
    simp only [Res.onPanic, en_bind_ok]
    rcases extendChunks_spec hc hl halloc hnd list w1 hRI1 with
      ⟨w', hr', hRI', hp', hd'⟩ | ⟨w', hr', hRI'⟩
    · left
      have htr := en_insertAll_perm (cfg := cfg) list.flatten hp1 (elems_keysNodup hRI1.1)
      exact ⟨w', hr', hRI', hp'.trans htr.1, by rw [hd', htr.2, hd1]⟩
    · exact Or.inr ⟨w', hr', hRI'⟩
  · right
    rw [hr]
    exact ⟨_, rfl, by rw [en_dropAllQuiet_t]; exact h⟩

/-- **`par_extend`, every split tree.** `map.par_extend(items)` with the source split along ANY tree
    `tr` ends — exactly like the sequential `map.extend(items)` (`C14.extend_spec`) — in a table that
    satisfies the invariant `RI` and whose contents are a permutation of `AL.insertAll l items`, the
    fold of `insert` over the items IN SOURCE ORDER (for a key occurring several times, in the same or
    in different leaves, the LAST value wins and the first key object is kept). The destructor events
    (spare key objects, replaced values) are the same sequence as in the sequential call.
    `len` = number of distinct keys afterwards, and it never exceeds the capacity.
    The capacity itself is NOT claimed to equal that of the sequential call: besides the common
    up-front `reserve`, every chunk's `extend` reserves again from its own length (see
    `capacity_differs_from_sequential` below). (Other outcome: `usize` overflow in a `reserve`.) -/
theorem parExtend_spec (hc : CfgOk cfg) (hl : Lawful env H)
    (halloc : ∀ j, env.allocOk j = true) (hnd : ∀ c e, env.dropPanics c e = false)
    (tr : CTree) (items : List Elem) (w : World) (h : RI cfg H w.t) :
    (∃ w', parExtend cfg env tr items w = .ok w' ∧ RI cfg H w'.t ∧
      List.Perm w'.t.elems (AL.insertAll w.t.elems items) ∧
      dropsOf w'.log = AL.insertDrops cfg w.t.elems items ++ dropsOf w.log ∧
      w'.t.items = (AL.insertAll w.t.elems items).length ∧ w'.t.items ≤ w'.t.capacity) ∨
    (∃ w', parExtend cfg env tr items w = .panic "capacity" w' ∧ RI cfg H w'.t) := by
  have hsp := parExtendList_spec hc hl halloc hnd (collectTree tr items) w h
  rw [collectTree_flatten] at hsp
  rcases hsp with ⟨w', hr, hRI', hp', hd'⟩ | hr
  · left
    refine ⟨w', hr, hRI', hp', hd', ?_, Nat.le_add_right _ _⟩
    rw [ss_items_eq_length hc hRI'.1.toInv, hp'.length_eq]
  · exact Or.inr hr

/-- Same statement with the sequential call next to it: whenever both return, the two tables hold
    the same pairs (same key objects, same value objects) and the same destructors have run, in the
    same order. -/
theorem parExtend_eq_sequential (hc : CfgOk cfg) (hl : Lawful env H)
    (halloc : ∀ j, env.allocOk j = true) (hnd : ∀ c e, env.dropPanics c e = false)
    (tr : CTree) (items : List Elem) (w : World) (h : RI cfg H w.t) (wp ws : World)
    (hpar : parExtend cfg env tr items w = .ok wp) (hseq : Map.extend cfg env items w = .ok ws) :
    List.Perm wp.t.elems ws.t.elems ∧ dropsOf wp.log = dropsOf ws.log ∧
      wp.t.items = ws.t.items ∧ RI cfg H wp.t ∧ RI cfg H ws.t := by
  rcases parExtend_spec hc hl halloc hnd tr items w h with ⟨w', hr, hRI', hp', hd', hit, _⟩ | ⟨w', hr, _⟩
  · rw [hpar] at hr; cases hr
    rcases extend_spec hc hl halloc hnd items w h with ⟨w'', hr2, hRI2, hp2, hd2⟩ | ⟨w'', hr2, _⟩
    · rw [hseq] at hr2; cases hr2
      refine ⟨hp'.trans hp2.symm, by rw [hd', hd2], ?_, hRI', hRI2⟩
      rw [hit, ss_items_eq_length hc hRI2.1.toInv, hp2.length_eq]
    · rw [hseq] at hr2; cases hr2
  · rw [hpar] at hr; cases hr

/-- Any two split trees give the same map. -/
theorem parExtend_any_two_trees (hc : CfgOk cfg) (hl : Lawful env H)
    (halloc : ∀ j, env.allocOk j = true) (hnd : ∀ c e, env.dropPanics c e = false)
    (tr1 tr2 : CTree) (items : List Elem) (w : World) (h : RI cfg H w.t) (w1 w2 : World)
    (h1 : parExtend cfg env tr1 items w = .ok w1) (h2 : parExtend cfg env tr2 items w = .ok w2) :
    List.Perm w1.t.elems w2.t.elems ∧ dropsOf w1.log = dropsOf w2.log := by
  rcases parExtend_spec hc hl halloc hnd tr1 items w h with ⟨w', hr, _, hp', hd', _⟩ | ⟨w', hr, _⟩
  · rw [h1] at hr; cases hr
    rcases parExtend_spec hc hl halloc hnd tr2 items w h with ⟨w'', hr2, _, hp2, hd2, _⟩ | ⟨w'', hr2, _⟩
    · rw [h2] at hr2; cases hr2
      exact ⟨hp'.trans hp2.symm, by rw [hd', hd2]⟩
    · rw [h2] at hr2; cases hr2
  · rw [h1] at hr; cases hr

/-- LAST value wins across leaves, spelled out: after `par_extend`, looking up a key that occurs in
    the items finds the value of its LAST occurrence in source order (`items = pre ++ e :: post`, no
    later occurrence in `post`), in whichever leaves the occurrences ended up. -/
theorem parExtend_last_wins (hc : CfgOk cfg) (hl : Lawful env H)
    (halloc : ∀ j, env.allocOk j = true) (hnd : ∀ c e, env.dropPanics c e = false)
    (tr : CTree) (pre post : List Elem) (e : Elem) (w w' : World) (h : RI cfg H w.t)
    (hlast : ∀ x ∈ post, x.k ≠ e.k)
    (hr : parExtend cfg env tr (pre ++ e :: post) w = .ok w') :
    ∃ s, AL.find w'.t.elems e.k = some s ∧ s.vid = e.vid ∧ s.v = e.v := by
  rcases parExtend_spec hc hl halloc hnd tr (pre ++ e :: post) w h with
    ⟨w'', hr2, hRI', hp', _⟩ | ⟨w'', hr2, _⟩
  · rw [hr] at hr2; cases hr2
    rw [AL.perm_find hp' (elems_keysNodup hRI'.1) e.k]
    exact insertAll_last_wins w.t.elems pre post e hlast
  · rw [hr] at hr2; cases hr2

/-- The capacity contract that does hold: the up-front `reserve` leaves room for the announced
    number of insertions (`growth_left ≥ parReserve`), so `capacity ≥ len + parReserve` before the
    first chunk; afterwards `capacity ≥ len` (`parExtend_spec`). -/
theorem parExtend_reserve_contract (hc : CfgOk cfg) (hl : Lawful env H)
    (halloc : ∀ j, env.allocOk j = true) (items : List Elem) (tr : CTree) (w : World)
    (h : RI cfg H w.t) :
    (∃ w1, Hb.reserve cfg env (parReserve w.t (collect tr items).2) w = .ok w1 ∧ RI cfg H w1.t ∧
      List.Perm w1.t.elems w.t.elems ∧ w1.t.items = w.t.items ∧
      w1.t.items + parReserve w.t items.length ≤ w1.t.capacity ∧
      parReserve w.t items.length = extendReserve (w.t.items == 0) items.length) ∨
    Hb.reserve cfg env (parReserve w.t (collect tr items).2) w = .panic "capacity" w := by
  rw [collect_len]
  rcases reserve_RI hc (growthLawful hc hc.probe) hl halloc (parReserve w.t items.length) w h with
    ⟨w1, hr, hRI1, hp1, hgl, _⟩ | hr
  · left
    refine ⟨w1, hr, hRI1, hp1, ?_, ?_, ?_⟩
    · rw [ss_items_eq_length hc hRI1.1.toInv, ss_items_eq_length hc h.1.toInv, hp1.length_eq]
    · unfold Raw.capacity; omega
    · unfold parReserve extendReserve
      by_cases h0 : w.t.items = 0 <;> simp [h0]
  · exact Or.inr hr

/-! ### `from_par_iter` -/

theorem new_RI (hc : CfgOk cfg) : RI cfg H (Raw.new cfg.W) :=
  ⟨ss_new_invL hc, Raw.new_layoutOk cfg⟩

theorem new_elems (W : Nat) : (Raw.new W).elems = [] := by
  simp [Raw.elems, Raw.new]

/-- **`from_par_iter`, every split tree** (`*m = HashMap::from_par_iter(items)`): the previous map is
    dropped (each element once), the new map is the fold of `insert` over the items in source order
    from the empty map — the same contents and destructor events as `Map.fromIter`
    (`C14.fromIter_spec`). -/
theorem fromParIterList_spec (hc : CfgOk cfg) (hl : Lawful env H)
    (halloc : ∀ j, env.allocOk j = true) (hnd : ∀ c e, env.dropPanics c e = false)
    (list : List (List Elem)) (w : World) (h : RI cfg H w.t) :
    (∃ w', fromParIterList cfg env list w = .ok w' ∧ RI cfg H w'.t ∧
      List.Perm w'.t.elems (AL.insertAll [] list.flatten) ∧
      dropsOf w'.log =
        AL.insertDrops cfg [] list.flatten ++ dropEvs cfg w.t.elems.reverse ++ dropsOf w.log) ∨
    (∃ w', fromParIterList cfg env list w = .panic "capacity" w' ∧ w'.t = Raw.new cfg.W) := by
  simp only [fromParIterList]
  have hsp := dropInnerTable_spec hc env w.t { w with t := Raw.new cfg.W } ⟨h.1.toInv, h.2⟩
  cases hr : dropInnerTable cfg env w.t { w with t := Raw.new cfg.W } with
  | ok w1 =>
    rw [hr] at hsp
    obtain ⟨ht1, hlog1, _⟩ := hsp
    have ht1' : w1.t = Raw.new cfg.W := ht1
    have hd1 : dropsOf w1.log = dropEvs cfg w.t.elems.reverse ++ dropsOf w.log := by
      rw [hlog1]
      have hfree : ∀ l : List Ev, dropsOf ((if w.t.alloc = true then
          [Ev.free (layoutOf cfg w.t.buckets).size (layoutOf cfg w.t.buckets).align] else []) ++ l) =
          dropsOf l := by
        intro l; split <;> simp [dropsOf]
      rw [List.append_assoc, hfree, en_dropsOf_append]
      congr 1
      unfold dropEvs dropsOf
      split
      · rw [List.filter_eq_self]
        intro ev hev
        obtain ⟨x, _, hx⟩ := List.mem_flatMap.mp hev
        simp only [List.mem_cons, List.not_mem_nil, or_false] at hx
        rcases hx with rfl | rfl <;> rfl
      · rfl
    simp only [Res.onPanic, en_bind_ok]
    have hRI1 : RI cfg H w1.t := by rw [ht1']; exact new_RI hc
    rcases parExtendList_spec hc hl halloc hnd list w1 hRI1 with
      ⟨w', hr', hRI', hp', hd'⟩ | ⟨w', hr', hRI'⟩
    · left
      rw [hr']
      rw [ht1', new_elems] at hp' hd'
      exact ⟨w', rfl, hRI', hp', by rw [hd', hd1, List.append_assoc]⟩
    · right
      rw [hr']
      have hsp2 := dropInnerTable_spec hc (Map.quietEnv env) w'.t { w' with t := Raw.new cfg.W }
        ⟨hRI'.1.toInv, hRI'.2⟩
      cases hr3 : dropInnerTable cfg (Map.quietEnv env) w'.t { w' with t := Raw.new cfg.W } with
      | ok w'' =>
        rw [hr3] at hsp2
        refine ⟨w'', ?_, hsp2.1⟩
        simp only [hr3]
      | panic c w'' =>
        rw [hr3] at hsp2
        obtain ⟨_, _, _, _, ds, e, rest, _, _, hpan⟩ := hsp2
        simp [Map.quietEnv] at hpan
      | abort => rw [hr3] at hsp2; exact hsp2.elim
      | fault f => rw [hr3] at hsp2; exact hsp2.elim
  | panic c w1 =>
    rw [hr] at hsp
    obtain ⟨_, _, _, _, ds, e, rest, _, _, hpan⟩ := hsp
    rw [hnd] at hpan; cases hpan
  | abort => rw [hr] at hsp; exact hsp.elim
  | fault f => rw [hr] at hsp; exact hsp.elim

theorem fromParIter_spec (hc : CfgOk cfg) (hl : Lawful env H)
    (halloc : ∀ j, env.allocOk j = true) (hnd : ∀ c e, env.dropPanics c e = false)
    (tr : CTree) (items : List Elem) (w : World) (h : RI cfg H w.t) :
    (∃ w', fromParIter cfg env tr items w = .ok w' ∧ RI cfg H w'.t ∧
      List.Perm w'.t.elems (AL.insertAll [] items) ∧
      dropsOf w'.log =
        AL.insertDrops cfg [] items ++ dropEvs cfg w.t.elems.reverse ++ dropsOf w.log) ∨
    (∃ w', fromParIter cfg env tr items w = .panic "capacity" w' ∧ w'.t = Raw.new cfg.W) := by
  have hsp := fromParIterList_spec hc hl halloc hnd (collectTree tr items) w h
  rw [collectTree_flatten] at hsp
  exact hsp

/-- `from_par_iter` and `from_iter` build the same map whenever both return. -/
theorem fromParIter_eq_sequential (hc : CfgOk cfg) (hl : Lawful env H)
    (halloc : ∀ j, env.allocOk j = true) (hnd : ∀ c e, env.dropPanics c e = false)
    (tr : CTree) (items : List Elem) (w : World) (h : RI cfg H w.t) (wp ws : World)
    (hpar : fromParIter cfg env tr items w = .ok wp) (hseq : Map.fromIter cfg env items w = .ok ws) :
    List.Perm wp.t.elems ws.t.elems ∧ dropsOf wp.log = dropsOf ws.log := by
  rcases fromParIter_spec hc hl halloc hnd tr items w h with ⟨w', hr, _, hp', hd'⟩ | ⟨w', hr, _⟩
  · rw [hpar] at hr; cases hr
    rcases fromIter_spec hc hl halloc hnd items w h with ⟨w'', hr2, _, hp2, hd2⟩ | ⟨w'', hr2, _⟩
    · rw [hseq] at hr2; cases hr2
      exact ⟨hp'.trans hp2.symm, by rw [hd', hd2]⟩
    · rw [hseq] at hr2; cases hr2
  · rw [hpar] at hr; cases hr

/-- `set.par_extend`: instance of `parExtend_spec` for elements `(k, ())`. -/
theorem setParExtend_spec (hc : CfgOk cfg) (hl : Lawful env H)
    (halloc : ∀ j, env.allocOk j = true) (hnd : ∀ c e, env.dropPanics c e = false)
    (tr : CTree) (ks : List (Nat × Nat)) (w : World) (h : RI cfg H w.t) :
    (∃ w', setParExtend cfg env tr ks w = .ok w' ∧ RI cfg H w'.t ∧
      List.Perm w'.t.elems (AL.insertAll w.t.elems (ks.map fun p => Set.elemOf p.1 p.2)) ∧
      (∀ k, k ∈ keys w'.t ↔ k ∈ keys w.t ∨ k ∈ ks.map (·.1))) ∨
    (∃ w', setParExtend cfg env tr ks w = .panic "capacity" w' ∧ RI cfg H w'.t) := by
  rcases parExtend_spec hc hl halloc hnd tr (ks.map fun p => Set.elemOf p.1 p.2) w h with
    ⟨w', hr, hRI', hp', _⟩ | hr
  · left
    refine ⟨w', hr, hRI', hp', fun k => ?_⟩
    unfold keys
    rw [(hp'.map (·.k)).mem_iff, insertAll_keys]
    simp [Set.elemOf, Function.comp_def]
  · exact Or.inr hr

/-! ## 3. a hash table as the parallel source: producer tree + consumer -/

theorem leafElems_spec (t : Raw) : ∀ l : List Nat, (∀ i ∈ l, ∃ e, t.slots[i]?.join = some e) →
    leafElems t l = .ok (l.filterMap fun i => t.slots[i]?.join) := by
  intro l
  induction l with
  | nil => intro _; rfl
  | cons i rest ih =>
    intro hl
    obtain ⟨e, he⟩ := hl i List.mem_cons_self
    rw [leafElems, slotGet_ok he, ih (fun j hj => hl j (List.mem_cons_of_mem _ hj)),
      List.filterMap_cons, he]

theorem elemLeaves_spec (t : Raw) : ∀ ls : List (List Nat),
    (∀ l ∈ ls, ∀ i ∈ l, ∃ e, t.slots[i]?.join = some e) →
    elemLeaves t ls = .ok (ls.map fun l => l.filterMap fun i => t.slots[i]?.join) := by
  intro ls
  induction ls with
  | nil => intro _; rfl
  | cons l rest ih =>
    intro hl
    rw [elemLeaves, leafElems_spec t l (hl l List.mem_cons_self),
      ih (fun m hm => hl m (List.mem_cons_of_mem _ hm))]
    rfl

/-- `par_iter()` over any producer tree: the leaves' elements, concatenated, are the stored
    elements in bucket order, each once (`C19.every_element_once` carried from buckets to elements). -/
theorem parLeaves_spec (hc : CfgOk cfg) {t : Raw} (h : Inv cfg t) (tr : Par.Tree) :
    ∃ ls, parLeaves cfg t tr = .ok ls ∧ ls.flatten = t.elems := by
  obtain ⟨ns, h1, h2⟩ := Par.splitTree_exact hc h tr
  have hlive : ∀ l ∈ ns, ∀ i ∈ l, ∃ e, t.slots[i]?.join = some e := fun l hl i hi =>
    ss_fullList_live hc h (h2 ▸ List.mem_flatten.mpr ⟨l, hl, hi⟩)
  refine ⟨_, by rw [parLeaves, h1]; exact elemLeaves_spec t ns hlive, ?_⟩
  rw [← List.filterMap_flatten, h2, elems_eq_fullList h]

/-- `map.par_extend(&src)`: any producer tree over `src`, then `collect` + chunk-wise `extend`
    = sequential `extend` over `src.iter()`. -/
theorem parExtendFrom_spec (hc : CfgOk cfg) (hl : Lawful env H)
    (halloc : ∀ j, env.allocOk j = true) (hnd : ∀ c e, env.dropPanics c e = false)
    {src : Raw} (hs : Inv cfg src) (tr : Par.Tree) (w : World) (h : RI cfg H w.t) :
    (∃ w', parExtendFrom cfg env src tr w = .ok w' ∧ RI cfg H w'.t ∧
      List.Perm w'.t.elems (AL.insertAll w.t.elems src.elems) ∧
      dropsOf w'.log = AL.insertDrops cfg w.t.elems src.elems ++ dropsOf w.log) ∨
    (∃ w', parExtendFrom cfg env src tr w = .panic "capacity" w' ∧ RI cfg H w'.t) := by
  obtain ⟨ls, h1, h2⟩ := parLeaves_spec hc hs tr
  have hsp := parExtendList_spec hc hl halloc hnd ls w h
  rw [h2] at hsp
  unfold parExtendFrom
  rw [h1]
  exact hsp

/-! ### `all` and its early exit -/

theorem prefixes_nil_stops {α : Type} : ∀ ls : List (List α), prefixes ls [] = ls := by
  intro ls
  induction ls with
  | nil => rfl
  | cons l rest ih => simp [prefixes, ih]

/-- "Nobody ever sees `full()`" is a legal stop pattern. -/
theorem stopsOk_nil {α : Type} (p : α → Bool) (ls : List (List α)) : StopsOk p ls [] :=
  fun hne => absurd (prefixes_nil_stops ls) hne

theorem mem_prefixes {α : Type} : ∀ (ls : List (List α)) (stops : List Nat) (pre : List α),
    pre ∈ prefixes ls stops → ∀ e ∈ pre, e ∈ ls.flatten := by
  intro ls
  induction ls with
  | nil => intro stops pre h; cases h
  | cons l rest ih =>
    intro stops pre h e he
    rw [prefixes, List.mem_cons] at h
    rw [List.flatten_cons, List.mem_append]
    rcases h with rfl | h
    · exact Or.inl (List.mem_of_mem_take he)
    · exact Or.inr (ih _ _ h e he)

/-- Under a legal stop pattern the conjunction over what the leaves examined is the conjunction over
    all items. -/
theorem all_prefixes {α : Type} (p : α → Bool) (ls : List (List α)) (stops : List Nat)
    (h : StopsOk p ls stops) :
    (prefixes ls stops).all (fun l => l.all p) = ls.flatten.all p := by
  by_cases heq : prefixes ls stops = ls
  · rw [heq, List.all_flatten]
  · obtain ⟨pre, hm, hv⟩ := h heq
    obtain ⟨e, he, hpe⟩ := List.any_eq_true.mp hv
    have hpe' : ¬ (p e = true) := by simpa using hpe
    have h1 : (prefixes ls stops).all (fun l => l.all p) = false := by
      rw [List.all_eq_false]
      refine ⟨pre, hm, ?_⟩
      rw [Bool.not_eq_true, List.all_eq_false]
      exact ⟨e, he, hpe'⟩
    have h2 : ls.flatten.all p = false := by
      rw [List.all_eq_false]
      exact ⟨e, mem_prefixes ls stops pre hm e he, hpe'⟩
    rw [h1, h2]

/-- The hypothesis is needed: a leaf cut short although nobody found a counterexample loses one. -/
example : (prefixes [[1], [2]] [0]).all (fun l => l.all (· != 1)) = true ∧
    ([[1], [2]] : List (List Nat)).flatten.all (· != 1) = false := by decide

theorem allProbe_spec (hc : CfgOk cfg) (hl : Lawful env H) {b : Raw} (h : InvL cfg H b)
    (want : Bool) : ∀ (xs : List Elem) (w : World),
    ∃ w', allProbe cfg env b want xs w =
        .ok (xs.all (fun e => decide (e.k ∈ keys b) == want), w') ∧ w'.t = w.t ∧ w'.log = w.log := by
  intro xs
  induction xs with
  | nil => intro w; exact ⟨w, rfl, rfl, rfl⟩
  | cons e rest ih =>
    intro w
    obtain ⟨w1, h1, h2, h3⟩ := containsIn_spec hc hc.probe hl h e.k w
    rw [allProbe, h1, List.all_cons]
    dsimp only
    cases hd : (decide (e.k ∈ keys b) == want) with
    | false => exact ⟨w1, by simp, h2, h3⟩
    | true =>
      obtain ⟨w2, k1, k2, k3⟩ := ih w1
      exact ⟨w2, by simpa using k1, k2.trans h2, k3.trans h3⟩

/-- With `want = true` a leaf is the loop of the sequential `is_subset`. -/
theorem allProbe_true_eq_allIn (b : Raw) : ∀ (xs : List Elem) (w : World),
    allProbe cfg env b true xs w = Set.allIn cfg env b xs w := by
  intro xs
  induction xs with
  | nil => intro w; rfl
  | cons e rest ih =>
    intro w
    rw [allProbe, ss_allIn_cons]
    cases hci : Set.containsIn cfg env b e.k w with
    | ok r =>
      obtain ⟨r, w1⟩ := r
      cases r <;> simp [ih]
    | panic c w1 => rfl
    | abort => rfl
    | fault f => rfl

theorem parAll_spec (hc : CfgOk cfg) (hl : Lawful env H) {b : Raw} (h : InvL cfg H b)
    (want : Bool) : ∀ (ls : List (List Elem)) (w : World),
    ∃ w', parAll cfg env b want ls w =
        .ok (ls.all (fun l => l.all (fun e => decide (e.k ∈ keys b) == want)), w') ∧
      w'.t = w.t ∧ w'.log = w.log := by
  intro ls
  induction ls with
  | nil => intro w; exact ⟨w, rfl, rfl, rfl⟩
  | cons l rest ih =>
    intro w
    obtain ⟨w1, h1, h2, h3⟩ := allProbe_spec hc hl h want l w
    obtain ⟨w2, k1, k2, k3⟩ := ih w1
    exact ⟨w2, by rw [parAll, h1]; simp only [k1, List.all_cons], k2.trans h2, k3.trans h3⟩

/-- `.all(|x| b.contains(x) == want)` over `a.par_iter()`: every producer tree, every legal stop
    pattern — the answer is the conjunction over all stored elements of `a`. -/
theorem parAll_table (hc : CfgOk cfg) (hl : Lawful env H) {a b : Raw} (ha : Inv cfg a)
    (hb : InvL cfg H b) (want : Bool) (tr : Par.Tree) (stops : List Nat) (w : World)
    (hs : ∀ ls, parLeaves cfg a tr = .ok ls →
      StopsOk (fun e : Elem => decide (e.k ∈ keys b) == want) ls stops) :
    ∃ ls w', parLeaves cfg a tr = .ok ls ∧
      parAll cfg env b want (prefixes ls stops) w =
        .ok (a.elems.all (fun e => decide (e.k ∈ keys b) == want), w') ∧
      w'.t = w.t ∧ w'.log = w.log := by
  obtain ⟨ls, h1, h2⟩ := parLeaves_spec hc ha tr
  obtain ⟨w', k1, k2, k3⟩ := parAll_spec hc hl hb want (prefixes ls stops) w
  refine ⟨ls, w', h1, ?_, k2, k3⟩
  rw [k1, all_prefixes _ ls stops (hs ls h1), h2]

/-! ### the set predicates: same Boolean as the sequential counterpart -/

/-- **`a.par_is_subset(b)`** = `a.is_subset(b)` = "`keys a ⊆ keys b`", for every producer tree and
    every legal stop pattern. -/
theorem parIsSubsetOf_spec (hc : CfgOk cfg) (hl : Lawful env H) {a b : Raw} (ha : InvL cfg H a)
    (hb : InvL cfg H b) (tr : Par.Tree) (stops : List Nat) (w : World)
    (hs : ∀ ls, parLeaves cfg a tr = .ok ls →
      StopsOk (fun e : Elem => decide (e.k ∈ keys b) == true) ls stops) :
    ∃ r w' w'', parIsSubsetOf cfg env a b tr stops w = .ok (r, w') ∧
      Set.isSubsetOf cfg env a b w = .ok (r, w'') ∧ w'.t = w.t ∧ w'.log = w.log ∧
      (r = true ↔ ∀ k ∈ keys a, k ∈ keys b) := by
  obtain ⟨r2, w2, hseq, _, _, hiff2⟩ := ss_isSubsetOf hc hc.probe hl ha hb w
  unfold parIsSubsetOf
  by_cases hle : a.items ≤ b.items
  · rw [if_pos hle]
    obtain ⟨ls, w', h1, h2, h3, h4⟩ := parAll_table hc hl ha.toInv hb true tr stops w hs
    rw [h1]
    have hiff : (a.elems.all fun e => decide (e.k ∈ keys b) == true) = true ↔
        ∀ k ∈ keys a, k ∈ keys b := by simp [keys]
    have hr : (a.elems.all fun e => decide (e.k ∈ keys b) == true) = r2 := by
      rw [Bool.eq_iff_iff, hiff, hiff2]
    exact ⟨_, w', w2, h2, hr ▸ hseq, h3, h4, hiff⟩
  · rw [if_neg hle]
    have hseq' := hseq
    unfold Set.isSubsetOf at hseq'
    rw [if_neg hle] at hseq'
    cases hseq'
    exact ⟨false, w, w, rfl, hseq, rfl, rfl, hiff2⟩

theorem parIsSubset_spec (hc : CfgOk cfg) (hl : Lawful env H) {b : Raw} (w : World)
    (ha : InvL cfg H w.t) (hb : InvL cfg H b) (tr : Par.Tree) (stops : List Nat)
    (hs : ∀ ls, parLeaves cfg w.t tr = .ok ls →
      StopsOk (fun e : Elem => decide (e.k ∈ keys b) == true) ls stops) :
    ∃ r w' w'', parIsSubset cfg env b tr stops w = .ok (r, w') ∧
      Set.isSubset cfg env b w = .ok (r, w'') ∧ w'.t = w.t ∧ w'.log = w.log ∧
      (r = true ↔ ∀ k ∈ keys w.t, k ∈ keys b) :=
  parIsSubsetOf_spec hc hl ha hb tr stops w hs

/-- **`a.par_is_superset(b)`** = `a.is_superset(b)` (the tree is over `b`). -/
theorem parIsSuperset_spec (hc : CfgOk cfg) (hl : Lawful env H) {b : Raw} (w : World)
    (ha : InvL cfg H w.t) (hb : InvL cfg H b) (tr : Par.Tree) (stops : List Nat)
    (hs : ∀ ls, parLeaves cfg b tr = .ok ls →
      StopsOk (fun e : Elem => decide (e.k ∈ keys w.t) == true) ls stops) :
    ∃ r w' w'', parIsSuperset cfg env b tr stops w = .ok (r, w') ∧
      Set.isSuperset cfg env b w = .ok (r, w'') ∧ w'.t = w.t ∧ w'.log = w.log ∧
      (r = true ↔ ∀ k ∈ keys b, k ∈ keys w.t) :=
  parIsSubsetOf_spec hc hl hb ha tr stops w hs

/-- **`a.par_is_disjoint(b)`** = `a.is_disjoint(b)` (which iterates the smaller set and stops at the
    first common element; the parallel version always iterates `a`). -/
theorem parIsDisjoint_spec (hc : CfgOk cfg) (hl : Lawful env H) {b : Raw} (w : World)
    (ha : InvL cfg H w.t) (hb : InvL cfg H b) (tr : Par.Tree) (stops : List Nat)
    (hs : ∀ ls, parLeaves cfg w.t tr = .ok ls →
      StopsOk (fun e : Elem => decide (e.k ∈ keys b) == false) ls stops) :
    ∃ r w' w'', parIsDisjoint cfg env b tr stops w = .ok (r, w') ∧
      Set.isDisjoint cfg env b w = .ok (r, w'') ∧ w'.t = w.t ∧ w'.log = w.log ∧
      (r = true ↔ ∀ k ∈ keys w.t, k ∉ keys b) := by
  obtain ⟨r2, w2, hseq, _, _, hiff2⟩ := isDisjoint_spec hc hc.probe hl w ha hb
  obtain ⟨ls, w', h1, h2, h3, h4⟩ := parAll_table hc hl ha.toInv hb false tr stops w hs
  have hiff : (w.t.elems.all fun e => decide (e.k ∈ keys b) == false) = true ↔
      ∀ k ∈ keys w.t, k ∉ keys b := by simp [keys]
  have hr : (w.t.elems.all fun e => decide (e.k ∈ keys b) == false) = r2 := by
    rw [Bool.eq_iff_iff, hiff, hiff2]
  refine ⟨_, w', w2, ?_, hr ▸ hseq, h3, h4, hiff⟩
  unfold parIsDisjoint
  rw [h1]
  exact h2

/-- **`a.par_eq(b)`** = `a == b` = "same key set". -/
theorem parSetEq_spec (hc : CfgOk cfg) (hl : Lawful env H) {b : Raw} (w : World)
    (ha : InvL cfg H w.t) (hb : InvL cfg H b) (tr : Par.Tree) (stops : List Nat)
    (hs : ∀ ls, parLeaves cfg w.t tr = .ok ls →
      StopsOk (fun e : Elem => decide (e.k ∈ keys b) == true) ls stops) :
    ∃ r w' w'', parSetEq cfg env b tr stops w = .ok (r, w') ∧
      Set.setEq cfg env b w = .ok (r, w'') ∧ w'.t = w.t ∧ w'.log = w.log ∧
      (r = true ↔ ∀ k, k ∈ keys w.t ↔ k ∈ keys b) := by
  obtain ⟨r2, w2, hseq, _, _, hiff2⟩ := setEq_spec hc hc.probe hl w ha hb
  unfold parSetEq
  by_cases heq : w.t.items = b.items
  · rw [if_pos heq]
    obtain ⟨r, w', w'', h1, h2, h3, h4, _⟩ := parIsSubset_spec hc hl w ha hb tr stops hs
    have hsame : Set.setEq cfg env b w = Set.isSubset cfg env b w := by
      unfold Set.setEq Set.isSubset Set.isSubsetOf
      rw [if_neg (by simpa using heq), if_pos (by omega)]
    have h2' : Set.setEq cfg env b w = .ok (r, w'') := by rw [hsame]; exact h2
    have hrr : r2 = r := by
      have := hseq.symm.trans h2'
      simp only [Res.ok.injEq, Prod.mk.injEq] at this
      exact this.1
    exact ⟨r, w', w'', h1, h2', h3, h4, hrr ▸ hiff2⟩
  · rw [if_neg heq]
    have hseq' := hseq
    unfold Set.setEq at hseq'
    rw [if_pos heq] at hseq'
    cases hseq'
    exact ⟨false, w, w, rfl, hseq, rfl, rfl, hiff2⟩

/-! ### the set operations: what the leaves yield, concatenated in leaf order -/

theorem parFilter_spec (hc : CfgOk cfg) (hl : Lawful env H) {b : Raw} (h : InvL cfg H b)
    (want : Bool) : ∀ (ls : List (List Elem)) (w : World),
    ∃ w', parFilter cfg env b want ls w =
        .ok (ls.map fun l => l.filter fun e => decide (e.k ∈ keys b) == want, w') ∧
      w'.t = w.t ∧ w'.log = w.log := by
  intro ls
  induction ls with
  | nil => intro w; exact ⟨w, rfl, rfl, rfl⟩
  | cons l rest ih =>
    intro w
    obtain ⟨w1, h1, h2, h3⟩ := ss_yieldAll_filtered hc hc.probe hl h want l w []
    obtain ⟨w2, k1, k2, k3⟩ := ih w1
    refine ⟨w2, ?_, k2.trans h2, k3.trans h3⟩
    rw [parFilter, h1]
    simp only [k1, List.reverse_nil, List.nil_append, List.map_cons]

/-- `a.par_iter().filter(|x| b.contains(x) == want)`, any producer tree: the leaves' outputs
    concatenate to the stored elements of `a`, in bucket order, filtered — each qualifying element
    exactly once. -/
theorem parFilterOf_spec (hc : CfgOk cfg) (hl : Lawful env H) {a b : Raw} (ha : Inv cfg a)
    (hb : InvL cfg H b) (want : Bool) (tr : Par.Tree) (w : World) :
    ∃ yss w', parFilterOf cfg env a b want tr w = .ok (yss, w') ∧
      yss.flatten = a.elems.filter (fun e => decide (e.k ∈ keys b) == want) ∧
      w'.t = w.t ∧ w'.log = w.log := by
  obtain ⟨ls, h1, h2⟩ := parLeaves_spec hc ha tr
  obtain ⟨w', k1, k2, k3⟩ := parFilter_spec hc hl hb want ls w
  refine ⟨_, w', by rw [parFilterOf, h1]; exact k1, ?_, k2, k3⟩
  rw [← List.filter_flatten, h2]

/-- **`par_difference`** yields exactly what `difference` yields, in the same order. -/
theorem parDifference_spec (hc : CfgOk cfg) (hl : Lawful env H) {b : Raw} (w : World)
    (ha : InvL cfg H w.t) (hb : InvL cfg H b) (tr : Par.Tree) :
    ∃ yss w' w'', parDifference cfg env b tr w = .ok (yss, w') ∧
      Set.difference cfg env b w = .ok (yss.flatten, w'') ∧ yss.flatten = ss_diff w.t b ∧
      w'.t = w.t ∧ w'.log = w.log := by
  obtain ⟨yss, w', h1, h2, h3, h4⟩ := parFilterOf_spec hc hl ha.toInv hb false tr w
  obtain ⟨w'', hseq, _, _⟩ := difference_spec hc hc.probe hl w ha hb
  have hy : yss.flatten = ss_diff w.t b := by rw [h2, ss_filter_false]; rfl
  exact ⟨yss, w', w'', h1, hy ▸ hseq, hy, h3, h4⟩

/-- **`par_intersection`** (always iterates `self`) yields the elements of `self` whose key is in
    `other`; the sequential `intersection` iterates the smaller set, so the two agree as multisets of
    keys (the key OBJECTS come from `self` resp. from the smaller set). -/
theorem parIntersection_spec (hc : CfgOk cfg) (hl : Lawful env H) {b : Raw} (w : World)
    (ha : InvL cfg H w.t) (hb : InvL cfg H b) (tr : Par.Tree) :
    ∃ yss w' ys w'', parIntersection cfg env b tr w = .ok (yss, w') ∧
      Set.intersection cfg env b w = .ok (ys, w'') ∧
      (yss.flatten.map (·.k)).Perm (ys.map (·.k)) ∧
      yss.flatten = w.t.elems.filter (fun e => decide (e.k ∈ keys b)) ∧
      (yss.flatten.map (·.k)).Nodup ∧ w'.t = w.t ∧ w'.log = w.log := by
  obtain ⟨yss, w', h1, h2, h3, h4⟩ := parFilterOf_spec hc hl ha.toInv hb true tr w
  obtain ⟨w'', hseq, _, _⟩ := intersection_spec hc hc.probe hl w ha hb
  have hy : yss.flatten = w.t.elems.filter (fun e => decide (e.k ∈ keys b)) := by
    rw [h2, ss_filter_true]
  have hk : yss.flatten.map (·.k) = (keys w.t).filter fun k => decide (k ∈ keys b) := by
    rw [hy]; exact ss_map_filter_k w.t.elems fun k => decide (k ∈ keys b)
  refine ⟨yss, w', _, w'', h1, hseq, ?_, hy, ?_, h3, h4⟩
  · rw [hk]; exact (ss_inter_perm ha hb).symm
  · rw [hk]; exact (ss_keys_nodup ha).filter _

/-- **`par_union`** yields exactly what `union` yields, in the same order (both iterate the larger
    set, then the smaller one filtered), for every pair of producer trees. -/
theorem parUnion_spec (hc : CfgOk cfg) (hl : Lawful env H) {b : Raw} (w : World)
    (ha : InvL cfg H w.t) (hb : InvL cfg H b) (tr1 tr2 : Par.Tree) :
    ∃ yss w' w'', parUnion cfg env b tr1 tr2 w = .ok (yss, w') ∧
      Set.union cfg env b w = .ok (yss.flatten, w'') ∧ yss.flatten = ss_union w.t b ∧
      (yss.flatten.map (·.k)).Nodup ∧ w'.t = w.t ∧ w'.log = w.log := by
  obtain ⟨w'', hseq, _, _⟩ := union_spec hc hc.probe hl w ha hb
  unfold parUnion Set.smallerLarger
  by_cases hle : w.t.items ≤ b.items
  · simp only [hle, if_true]
    obtain ⟨xs, x1, x2⟩ := parLeaves_spec hc hb.toInv tr1
    obtain ⟨yss, w', h1, h2, h3, h4⟩ := parFilterOf_spec hc hl ha.toInv hb false tr2 w
    have hy : (xs ++ yss).flatten = ss_union w.t b := by
      rw [List.flatten_append, x2, h2, ss_filter_false, ss_union, if_pos hle]; rfl
    refine ⟨xs ++ yss, w', w'', by rw [x1]; simp only [h1], hy ▸ hseq, hy, ?_, h3, h4⟩
    rw [hy]; exact ss_union_nodup ha hb
  · simp only [hle, if_false]
    obtain ⟨xs, x1, x2⟩ := parLeaves_spec hc ha.toInv tr1
    obtain ⟨yss, w', h1, h2, h3, h4⟩ := parFilterOf_spec hc hl hb.toInv ha false tr2 w
    have hy : (xs ++ yss).flatten = ss_union w.t b := by
      rw [List.flatten_append, x2, h2, ss_filter_false, ss_union, if_neg hle]; rfl
    refine ⟨xs ++ yss, w', w'', by rw [x1]; simp only [h1], hy ▸ hseq, hy, ?_, h3, h4⟩
    rw [hy]; exact ss_union_nodup ha hb

/-- **`par_symmetric_difference`** yields exactly what `symmetric_difference` yields, in the same
    order, for every pair of producer trees. -/
theorem parSymmetricDifference_spec (hc : CfgOk cfg) (hl : Lawful env H) {b : Raw} (w : World)
    (ha : InvL cfg H w.t) (hb : InvL cfg H b) (tr1 tr2 : Par.Tree) :
    ∃ yss w' w'', parSymmetricDifference cfg env b tr1 tr2 w = .ok (yss, w') ∧
      Set.symmetricDifference cfg env b w = .ok (yss.flatten, w'') ∧
      yss.flatten = ss_symdiff w.t b ∧ (yss.flatten.map (·.k)).Nodup ∧
      w'.t = w.t ∧ w'.log = w.log := by
  obtain ⟨w'', hseq, _, _⟩ := symmetricDifference_spec hc hc.probe hl w ha hb
  obtain ⟨xss, w1, h1, h2, h3, h4⟩ := parFilterOf_spec hc hl ha.toInv hb false tr1 w
  obtain ⟨yss, w2, k1, k2, k3, k4⟩ := parFilterOf_spec hc hl hb.toInv ha false tr2 w1
  have hy : (xss ++ yss).flatten = ss_symdiff w.t b := by
    rw [List.flatten_append, h2, k2, ss_filter_false, ss_filter_false]; rfl
  refine ⟨xss ++ yss, w2, w'', ?_, hy ▸ hseq, hy, ?_, k3.trans h3, k4.trans h4⟩
  · unfold parSymmetricDifference
    rw [h1]; simp only [k1]
  · rw [hy]; exact ss_symdiff_nodup ha hb

/-! ### `HashMap::par_eq` -/

/-- "`b` holds the key of `a`'s bucket `i` with an equal value". -/
def eqAt (a b : Raw) (i : Nat) : Bool :=
  b.elems.any fun e' => e'.k == (ab_elem a i).k && e'.v == (ab_elem a i).v

theorem eqAt_iff (a b : Raw) (i : Nat) :
    eqAt a b i = true ↔ ∃ e' ∈ b.elems, e'.k = (ab_elem a i).k ∧ e'.v = (ab_elem a i).v := by
  simp [eqAt]

theorem parEqLeaves_spec (hc : CfgOk cfg) (hl : Lawful env H) (a b : Raw) (hb : InvL cfg H b) :
    ∀ (ls : List (List Nat)) (w : World), (∀ l ∈ ls, ∀ i ∈ l, ∃ e, ab_slot a i = some e) →
      ∃ w', parEqLeaves cfg env a b ls w = .ok (ls.all (fun l => l.all (eqAt a b)), w') ∧
        w'.log = w.log := by
  intro ls
  induction ls with
  | nil => intro w _; exact ⟨w, rfl, rfl⟩
  | cons l rest ih =>
    intro w hlive
    obtain ⟨r, w1, h1, h2, h3⟩ := eq_eqLoop_lawful hc hl a b hb l w (hlive l List.mem_cons_self)
    obtain ⟨w2, k1, k2⟩ := ih w1 (fun m hm => hlive m (List.mem_cons_of_mem _ hm))
    have hr : r = l.all (eqAt a b) := by
      rw [Bool.eq_iff_iff, h3, List.all_eq_true]
      exact ⟨fun h i hi => (eqAt_iff a b i).mpr (h i hi), fun h i hi => (eqAt_iff a b i).mp (h i hi)⟩
    refine ⟨w2, ?_, k2.trans h2⟩
    rw [parEqLeaves, h1]
    simp only [k1, List.all_cons, hr]

/-- **`a.par_eq(b)`** for maps = `a == b` (`Map.mapEq`, `PartialEq for HashMap`): equal lengths and
    every `(k, v)` of `a` occurs in `b` — for every producer tree and every legal stop pattern. -/
theorem parMapEq_spec (hc : CfgOk cfg) (hl : Lawful env H) (a b : Raw) (w : World)
    (ha : Inv cfg a) (hb : InvL cfg H b) (tr : Par.Tree) (stops : List Nat)
    (hs : ∀ ls, Par.splitLeaves cfg a tr = .ok ls → StopsOk (eqAt a b) ls stops) :
    ∃ r w' w'', parMapEq cfg env b tr stops { w with t := a } = .ok (r, w') ∧
      Map.mapEq cfg env b { w with t := a } = .ok (r, w'') ∧ w'.t = a ∧ w'.log = w.log ∧
      (r = true ↔ a.elems.length = b.elems.length ∧
        ∀ e ∈ a.elems, ∃ e' ∈ b.elems, e'.k = e.k ∧ e'.v = e.v) := by
  obtain ⟨r2, w2, hseq, _, _, hiff2⟩ := eq_spec hc hl a b w ha hb
  have hla := ab_elems_length hc ha
  have hlb := ab_elems_length hc hb.toInv
  by_cases hit : a.items ≠ b.items
  · have hres : parMapEq cfg env b tr stops { w with t := a } = .ok (false, { w with t := a }) := by
      simp only [parMapEq]
      rw [if_pos hit]
    have hr2 : r2 = false := by
      rw [Bool.eq_false_iff]
      intro h
      have := (hiff2.mp h).1
      rw [hla, hlb] at this
      exact hit this
    exact ⟨false, _, w2, hres, hr2 ▸ hseq, rfl, rfl, hr2 ▸ hiff2⟩
  · obtain ⟨ls, h1, h2⟩ := Par.splitTree_exact hc ha tr
    have hlive : ∀ l ∈ prefixes ls stops, ∀ i ∈ l, ∃ e, ab_slot a i = some e := fun l hl i hi =>
      ⟨_, ha.ab_full hc (h2 ▸ mem_prefixes ls stops l hl i hi)⟩
    obtain ⟨w', k1, k2⟩ := parEqLeaves_spec hc hl a b hb (prefixes ls stops) { w with t := a } hlive
    have hres : parMapEq cfg env b tr stops { w with t := a } =
        .ok ((prefixes ls stops).all (fun l => l.all (eqAt a b)), { w' with t := a }) := by
      simp only [parMapEq]
      rw [if_neg hit, h1]
      simp only [k1]
    rw [all_prefixes _ ls stops (hs ls h1), h2] at hres
    have hiff : (a.fullList.all (eqAt a b)) = true ↔ a.elems.length = b.elems.length ∧
        ∀ e ∈ a.elems, ∃ e' ∈ b.elems, e'.k = e.k ∧ e'.v = e.v := by
      rw [List.all_eq_true, hla, hlb, ab_elems_map hc ha]
      constructor
      · intro hall
        refine ⟨by_contra fun hne => hit hne, ?_⟩
        intro e he
        obtain ⟨i, hi, rfl⟩ := List.mem_map.mp he
        exact (eqAt_iff a b i).mp (hall i hi)
      · rintro ⟨_, hall⟩ i hi
        exact (eqAt_iff a b i).mpr (hall _ (List.mem_map_of_mem hi))
    have hr : a.fullList.all (eqAt a b) = r2 := by rw [Bool.eq_iff_iff, hiff, hiff2]
    exact ⟨_, _, w2, hres, hr ▸ hseq, rfl, k2, hiff⟩

/-! ## 4. non-vacuity: evaluated examples (SSE2 scanner, `H k = k`, lawful `glEnv`) -/

/-- Contents `(k, key object, value object, payload)` in bucket order. -/
def exKV (r : Res World) : Option (List (Nat × Nat × Nat × Nat)) :=
  match r with
  | .ok w => some (w.t.elems.map fun e => (e.k, e.kid, e.vid, e.v))
  | _ => none

/-- `(buckets, len, capacity, destructor events — newest first)`. -/
def exCap (r : Res World) : Option (Nat × Nat × Nat × List Ev) :=
  match r with
  | .ok w => some (w.t.buckets, w.t.items, w.t.capacity, dropsOf w.log)
  | _ => none

/-- Five pairs; key 1 occurs at positions 0 and 2, key 2 at positions 1 and 4. -/
def items5 : List Elem :=
  [⟨1, 11, 21, 100⟩, ⟨2, 12, 22, 200⟩, ⟨1, 13, 23, 300⟩, ⟨3, 14, 24, 400⟩, ⟨2, 15, 25, 500⟩]

/-- Three leaves: `[0, 2)`, `[2, 3)`, `[3, 5)`. -/
def tr3 : CTree := .node 2 .leaf (.node 1 .leaf .leaf)

/-- `helpers::collect` over the 3-leaf tree (shown on the key-object ids): key 1 sits in leaves 0
    and 1, key 2 in leaves 0 and 2. -/
theorem collect_three_leaves :
    collect tr3 (items5.map (·.kid)) = ([[11, 12], [13], [14, 15]], 5) := by decide

/-- `par_extend` of `items5` into an empty map along the 3-leaf tree, next to the sequential
    `extend` and the specification: for both duplicate keys the LAST value (300 / 500, objects 23 /
    25) is stored with the FIRST key object (11 / 12); the spare keys 13, 15 and the replaced values
    21, 22 are dropped, in the same order as sequentially. -/
theorem parExtend_three_leaves :
    exKV (parExtend enCfg glEnv tr3 items5 { t := Raw.new 16 }) =
      some [(1, 11, 23, 300), (2, 12, 25, 500), (3, 14, 24, 400)] ∧
    exKV (Map.extend enCfg glEnv items5 { t := Raw.new 16 }) =
      some [(1, 11, 23, 300), (2, 12, 25, 500), (3, 14, 24, 400)] ∧
    (AL.insertAll [] items5).map (fun e => (e.k, e.kid, e.vid, e.v)) =
      [(3, 14, 24, 400), (2, 12, 25, 500), (1, 11, 23, 300)] ∧
    exCap (parExtend enCfg glEnv tr3 items5 { t := Raw.new 16 }) =
      some (8, 3, 7, [.dropV 22, .dropK 15, .dropV 21, .dropK 13]) ∧
    exCap (Map.extend enCfg glEnv items5 { t := Raw.new 16 }) =
      some (8, 3, 7, [.dropV 22, .dropK 15, .dropV 21, .dropK 13]) ∧
    AL.insertDrops enCfg [] items5 = [.dropV 22, .dropK 15, .dropV 21, .dropK 13] :=
  ⟨by decide +kernel, by decide +kernel, by decide +kernel, by decide +kernel, by decide +kernel,
   by decide +kernel⟩

/-- The same key twice, one occurrence per leaf. -/
def dupItems : List Elem := [⟨1, 11, 21, 100⟩, ⟨1, 12, 22, 200⟩]

/-- **ORDER MATTERS.** With the reduce written the wrong way round (`collectTree'`:
    `list2.append(&mut list1)`), the same `extend` loop stores the FIRST value (100) under key 1,
    where `AL.insertAll` / the sequential `extend` / the real reduce store the last one (200): the
    theorem `parExtend_spec` distinguishes the two reducers, it is not vacuous. -/
theorem reversed_reduce_violates_last_wins :
    collectTree' (.node 1 .leaf .leaf) dupItems = [[⟨1, 12, 22, 200⟩], [⟨1, 11, 21, 100⟩]] ∧
    exKV (parExtendList enCfg glEnv (collectTree' (.node 1 .leaf .leaf) dupItems)
      { t := Raw.new 16 }) = some [(1, 12, 21, 100)] ∧
    exKV (parExtend enCfg glEnv (.node 1 .leaf .leaf) dupItems { t := Raw.new 16 }) =
      some [(1, 11, 22, 200)] ∧
    exKV (Map.extend enCfg glEnv dupItems { t := Raw.new 16 }) = some [(1, 11, 22, 200)] ∧
    AL.insertAll [] dupItems = [⟨1, 11, 22, 200⟩] ∧
    AL.insertAll [] (collectTree' (.node 1 .leaf .leaf) dupItems).flatten ≠
      AL.insertAll [] dupItems :=
  ⟨by decide +kernel, by decide +kernel, by decide +kernel, by decide +kernel, by decide +kernel,
   by decide +kernel⟩

/-- A map holding one pair, in its smallest allocation (4 buckets). -/
def capW0 : World :=
  match Map.insert enCfg glEnv ⟨0, 1, 2, 3⟩ { t := Raw.new 16 } with
  | .ok (_, w) => w
  | _ => { t := Raw.new 16 }

/-- Three new keys, then nine more pairs for key 1. -/
def capItems : List Elem :=
  [⟨1, 11, 21, 100⟩, ⟨2, 12, 22, 200⟩, ⟨3, 13, 23, 300⟩] ++
    (List.range 9).map fun i => ⟨1, 30 + i, 40 + i, 500 + i⟩

/-- **The capacity is NOT the sequential one.** Same start, same items: split after the third item,
    the second chunk's own `reserve((9 + 1) / 2)` grows the table to 16 buckets (capacity 14); the
    sequential `extend` — and the unsplit parallel one — stays at 8 buckets (capacity 7). Contents and
    `len` agree. -/
theorem capacity_differs_from_sequential :
    invLB enCfg (fun k => k) capW0.t = true ∧
    (capW0.t.buckets, capW0.t.items, capW0.t.capacity) = (4, 1, 3) ∧
    (exCap (parExtend enCfg glEnv (.node 3 .leaf .leaf) capItems capW0)).map
      (fun r => (r.1, r.2.1, r.2.2.1)) = some (16, 4, 14) ∧
    (exCap (parExtend enCfg glEnv .leaf capItems capW0)).map
      (fun r => (r.1, r.2.1, r.2.2.1)) = some (8, 4, 7) ∧
    (exCap (Map.extend enCfg glEnv capItems capW0)).map
      (fun r => (r.1, r.2.1, r.2.2.1)) = some (8, 4, 7) ∧
    exKV (parExtend enCfg glEnv (.node 3 .leaf .leaf) capItems capW0) =
      exKV (Map.extend enCfg glEnv capItems capW0) ∧
    (exCap (parExtend enCfg glEnv (.node 3 .leaf .leaf) capItems capW0)).map (·.2.2.2) =
      (exCap (Map.extend enCfg glEnv capItems capW0)).map (·.2.2.2) := by
  decide +kernel

/-- Producer + consumer on the concrete 64-bucket table of `ParSpec.lean` (3 producer leaves):
    `par_iter` leaves as elements, and `par_extend(&table64)` into an empty map. -/
theorem parExtendFrom_example :
    (parLeaves Par.sse Par.table64 Par.tree3).map (fun ls => ls.map fun l => l.map (·.k)) =
      .ok [[100, 115], [116, 130], [148, 163]] ∧
    (exKV (parExtendFrom enCfg glEnv Par.table64 Par.tree3 { t := Raw.new 16 })).map
      (fun l => l.map (·.1)) = (exKV (Map.extend enCfg glEnv Par.table64.elems { t := Raw.new 16 })).map
      (fun l => l.map (·.1)) := by
  decide +kernel

/-! ### sets and maps as parallel sources: tables built by the model itself -/

/-- `reserve(cap)` + one `insert` per element, from the empty table. -/
def exTable (cap : Nat) (es : List Elem) : Raw :=
  match (Hb.reserve enCfg glEnv cap { t := Raw.new 16 }).bind
      (fun w => Map.insertMany enCfg glEnv es w) with
  | .ok w => w.t
  | _ => Raw.new 16

def exSet (cap : Nat) (ks : List Nat) : Raw := exTable cap (ks.map fun k => Set.elemOf k (100 + k))

/-- 32 buckets = two SSE2 groups: keys 1, 4 in group 0 and 17, 20, 31 in group 1. -/
def exA : Raw := exSet 20 [1, 4, 17, 20, 31]
def exB : Raw := exSet 0 [4, 17, 40]
def exC : Raw := exSet 0 [31, 20, 17, 4, 1, 50]
def exD : Raw := exSet 0 [2, 3]
def tr2 : Par.Tree := .node .leaf .leaf

def exOut (r : Res (List (List Elem) × World)) : Option (List (List Nat)) :=
  match r with
  | .ok (l, _) => some (l.map fun x => x.map (·.k))
  | _ => none

/-- The hypotheses of the set theorems hold for these tables; `exA.par_iter()` has two leaves. -/
theorem exSets_lawful :
    invLB enCfg (fun k => k) exA = true ∧ invLB enCfg (fun k => k) exB = true ∧
    invLB enCfg (fun k => k) exC = true ∧ invLB enCfg (fun k => k) exD = true ∧
    (exA.buckets, exB.buckets, exC.buckets, exD.buckets) = (32, 4, 8, 4) ∧
    (parLeaves enCfg exA tr2).map (fun ls => ls.map fun l => l.map (·.k)) =
      .ok [[1, 4], [17, 20, 31]] :=
  ⟨by decide +kernel, by decide +kernel, by decide +kernel, by decide +kernel, by decide +kernel,
   by decide +kernel⟩

/-- Parallel predicates next to the sequential ones (`self = exA`, two leaves). In the fourth line
    leaf 0 finds the common key 4 as its second item and leaf 1 is cut before its first item
    (`stops = [2, 0]`, legal). The last line is an ILLEGAL stop pattern (`[1, 0]`: both leaves cut
    although nobody has found a common key): the answer is wrong, so `StopsOk` cannot be dropped. -/
theorem parSet_predicates_example :
    (ssAns (parIsSubset enCfg glEnv exC tr2 [] { t := exA }),
      ssAns (Set.isSubset enCfg glEnv exC { t := exA })) = (some true, some true) ∧
    (ssAns (parIsSuperset enCfg glEnv exB tr2 [] { t := exA }),
      ssAns (Set.isSuperset enCfg glEnv exB { t := exA })) = (some false, some false) ∧
    ssAns (parIsDisjoint enCfg glEnv exD tr2 [] { t := exA }) = some true ∧
    (ssAns (parIsDisjoint enCfg glEnv exB tr2 [2, 0] { t := exA }),
      ssAns (Set.isDisjoint enCfg glEnv exB { t := exA })) = (some false, some false) ∧
    (ssAns (parSetEq enCfg glEnv exA tr2 [] { t := exA }),
      ssAns (Set.setEq enCfg glEnv exA { t := exA })) = (some true, some true) ∧
    ssAns (parIsDisjoint enCfg glEnv exB tr2 [1, 0] { t := exA }) = some true :=
  ⟨by decide +kernel, by decide +kernel, by decide +kernel, by decide +kernel, by decide +kernel,
   by decide +kernel⟩

/-- Parallel set operations (per-leaf outputs) next to the sequential iterators. -/
theorem parSet_operations_example :
    exOut (parDifference enCfg glEnv exB tr2 { t := exA }) = some [[1], [20, 31]] ∧
    ssOut (Set.difference enCfg glEnv exB { t := exA }) = some [(1, 101), (20, 120), (31, 131)] ∧
    exOut (parIntersection enCfg glEnv exB tr2 { t := exA }) = some [[4], [17]] ∧
    ssOut (Set.intersection enCfg glEnv exB { t := exA }) = some [(4, 104), (17, 117)] ∧
    exOut (parUnion enCfg glEnv exB tr2 .leaf { t := exA }) = some [[1, 4], [17, 20, 31], [40]] ∧
    ssOut (Set.union enCfg glEnv exB { t := exA }) =
      some [(1, 101), (4, 104), (17, 117), (20, 120), (31, 131), (40, 140)] ∧
    exOut (parSymmetricDifference enCfg glEnv exB tr2 tr2 { t := exA }) =
      some [[1], [20, 31], [40]] ∧
    ssOut (Set.symmetricDifference enCfg glEnv exB { t := exA }) =
      some [(1, 101), (20, 120), (31, 131), (40, 140)] :=
  ⟨by decide +kernel, by decide +kernel, by decide +kernel, by decide +kernel, by decide +kernel,
   by decide +kernel, by decide +kernel, by decide +kernel⟩

def exM1 : Raw := exTable 20 [⟨1, 11, 21, 100⟩, ⟨4, 12, 22, 200⟩, ⟨17, 13, 23, 300⟩, ⟨20, 14, 24, 400⟩]
def exM2 : Raw := exTable 0 [⟨20, 34, 44, 400⟩, ⟨17, 33, 43, 300⟩, ⟨4, 32, 42, 200⟩, ⟨1, 31, 41, 100⟩]
def exM3 : Raw := exTable 0 [⟨20, 34, 44, 400⟩, ⟨17, 33, 43, 301⟩, ⟨4, 32, 42, 200⟩, ⟨1, 31, 41, 100⟩]

/-- `HashMap::par_eq` next to `==`: equal maps built in different orders and sizes; a map differing
    in the value of key 17 (also when leaf 0 is cut before its first item because leaf 1 has found
    the difference). -/
theorem parMapEq_example :
    Par.splitLeaves enCfg exM1 tr2 = .ok [[1, 4], [17, 20]] ∧
    (ssAns (parMapEq enCfg glEnv exM2 tr2 [] { t := exM1 }),
      ssAns (Map.mapEq enCfg glEnv exM2 { t := exM1 })) = (some true, some true) ∧
    (ssAns (parMapEq enCfg glEnv exM3 tr2 [] { t := exM1 }),
      ssAns (parMapEq enCfg glEnv exM3 tr2 [0, 1] { t := exM1 }),
      ssAns (Map.mapEq enCfg glEnv exM3 { t := exM1 })) = (some false, some false, some false) :=
  ⟨by decide +kernel, by decide +kernel, by decide +kernel⟩

#print axioms collectTree_flatten
#print axioms collect_spec
#print axioms extendChunks_spec
#print axioms parExtendList_spec
#print axioms parExtend_spec
#print axioms parExtend_eq_sequential
#print axioms parExtend_any_two_trees
#print axioms parExtend_last_wins
#print axioms parExtend_reserve_contract
#print axioms fromParIter_spec
#print axioms fromParIter_eq_sequential
#print axioms setParExtend_spec
#print axioms parLeaves_spec
#print axioms parExtendFrom_spec
#print axioms all_prefixes
#print axioms parIsSubsetOf_spec
#print axioms parIsSubset_spec
#print axioms parIsSuperset_spec
#print axioms parIsDisjoint_spec
#print axioms parSetEq_spec
#print axioms parDifference_spec
#print axioms parIntersection_spec
#print axioms parUnion_spec
#print axioms parSymmetricDifference_spec
#print axioms parMapEq_spec
#print axioms collect_three_leaves
#print axioms parExtend_three_leaves
#print axioms reversed_reduce_violates_last_wins
#print axioms capacity_differs_from_sequential
#print axioms parExtendFrom_example
#print axioms exSets_lawful
#print axioms parSet_predicates_example
#print axioms parSet_operations_example
#print axioms parMapEq_example

end Hb.ParCollect
