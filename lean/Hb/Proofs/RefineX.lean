/-
C01, extended — ONE refinement theorem over histories of ALL modelled `HashMap` calls (`MapOpX`,
`Hb/Model/MapOpsX.lean`): the basic calls of `MapOp` plus `entry` / `entry_ref` / `rustc_entry` /
`raw_entry_mut` chains, `raw_entry` look-ups, `try_insert`, `extend`, `get_many_mut`, `Index`.

For every lawful environment (`LawfulP env H P`: `Hash` is the function `H`, colliding or not, `Eq` is
key equality, pure predicate `P`, allocator never refuses, destructors do not panic), every `CfgOk`
configuration, every history from `new()`: each call is observed (return value, or the documented
panic) exactly as the association-list specification `AL.StepX` (`Hb/Proofs/SpecX.lean`) prescribes,
and the table afterwards holds a permutation of the reference's pairs, keys pairwise distinct,
invariant `RI cfg H`.

* `stepX_refines` — one call from any state satisfying `RI`;
* `historyX_refines` — whole histories from `new()` (`AL.TraceX`);
* sanity lemmas pinning `AL.StepX` down live in `Hb/Proofs/SpecX.lean` (pure association-list
  facts): `AL.StepX.ret_functional`, `AL.StepX.panic_inv`, `AL.StepX.ret_and_panic`,
  `AL.StepX.panic_functional`, `AL.StepX.entry_orInsert`, `AL.StepX.entry_insert`,
  `AL.StepX.tryInsert_ret`, `AL.StepX.extend_ret`, `AL.StepX.getManyMut_panics_iff`,
  `AL.StepX.index_inv`, `AL.StepX.keysNodup`, `AL.StepX.perm`;
* a concrete mixed history evaluated through `Map.runX` on both scanners (`rxOps`, `rxObs`).

Per-call facts are taken from `step_refines'` (basic calls), `entry_chain_spec`, `entryRef_chain_spec`,
`rustcEntry_chain_spec`, `rawEntry_chain_spec`, `rawLook_spec`, `tryInsert_spec`, `get_refines`,
`Map.getManyMut_lawful`; only `extend` needed a strengthening (`insertMany_prefix`: on the capacity
overflow panic a PREFIX of the items has been inserted — `extend_spec` only kept the invariant).
-/
import Hb.Proofs.SpecX
import Hb.Proofs.TableSpec
import Hb.Proofs.Probe
namespace Hb
open Map (EChain RawChain RawMode EOut)

variable {cfg : Cfg}

/-- "Call `op` from world `w` refines one `AL.StepX`": it returns or panics, the observation and the
    table afterwards are those of the specification (contents up to bucket order), invariant kept. -/
def RefX (cfg : Cfg) (env : Env) (P : AL.Pred) (H : Nat → Nat) (op : MapOpX) (w : World) : Prop :=
  (∃ r w' l', Map.stepX cfg env op w = .ok (r, w') ∧ AL.StepX P H op w.t.elems (.ret r) l' ∧
    List.Perm w'.t.elems l' ∧ RI cfg H w'.t) ∨
  (∃ c w' l', Map.stepX cfg env op w = .panic c w' ∧ AL.StepX P H op w.t.elems (.panic c) l' ∧
    List.Perm w'.t.elems l' ∧ RI cfg H w'.t)

/-! ## 1. per call family -/

theorem refX_base (hc : CfgOk cfg) {env : Env} {H : Nat → Nat} {P : AL.Pred}
    (hlp : LawfulP env H P) (op : MapOp) (hop : op.basic = true) (w : World) (h : RI cfg H w.t) :
    RefX cfg env P H (.base op) w := by
  rcases step_refines' hc hlp op hop w h with ⟨r, w', l', hr, hs, hp, hRI⟩ | ⟨w', hr, ht, ho⟩
  · exact .inl ⟨.base r, w', l', by simp only [Map.stepX, hr], .base hs, hp, hRI⟩
  · exact .inr ⟨_, w', _, by simp only [Map.stepX, hr], .baseOverflow _ ho, by rw [ht],
      by rw [ht]; exact h⟩

theorem refX_entry (hc : CfgOk cfg) {env : Env} {H : Nat → Nat} {P : AL.Pred}
    (hlp : LawfulP env H P) (k kid : Nat) (c : EChain) (w : World) (h : RI cfg H w.t) :
    RefX cfg env P H (.entry k kid c) w := by
  have hs := entry_chain_spec hc hlp.toLawful hlp.alloc hlp.nodropPanic k kid c w h
  cases hf : AL.find w.t.elems k with
  | some old =>
    rw [hf] at hs
    obtain ⟨w', hr, hRI, hp, _⟩ := hs
    exact .inl ⟨_, w', _, by simp only [Map.stepX, hr], .entryOcc cfg kid c hf, hp, hRI⟩
  | none =>
    rw [hf] at hs
    rcases hs with ⟨w', hr, hRI, hp, _⟩ | ⟨e, w', hi, hr, ht, _⟩
    · exact .inl ⟨_, w', _, by simp only [Map.stepX, hr], .entryVac cfg kid c hf, hp, hRI⟩
    · exact .inr ⟨_, w', _, by simp only [Map.stepX, hr], .entryOverflow hf hi, by rw [ht],
        by rw [ht]; exact h⟩

theorem refX_entryRef (hc : CfgOk cfg) {env : Env} {H : Nat → Nat} {P : AL.Pred}
    (hlp : LawfulP env H P) (k newkid : Nat) (c : EChain) (w : World) (h : RI cfg H w.t) :
    RefX cfg env P H (.entryRef k newkid c) w := by
  have hs := entryRef_chain_spec hc hlp.toLawful hlp.alloc hlp.nodropPanic k newkid c w h
  cases hf : AL.find w.t.elems k with
  | some old =>
    rw [hf] at hs
    obtain ⟨w', hr, hRI, hp, _⟩ := hs
    exact .inl ⟨_, w', _, by simp only [Map.stepX, hr], .entryRefOcc cfg newkid c hf, hp, hRI⟩
  | none =>
    rw [hf] at hs
    rcases hs with ⟨w', hr, hRI, hp, _⟩ | ⟨e, w', hi, hr, ht, _⟩
    · exact .inl ⟨_, w', _, by simp only [Map.stepX, hr], .entryRefVac cfg newkid c hf, hp, hRI⟩
    · exact .inr ⟨_, w', _, by simp only [Map.stepX, hr], .entryRefOverflow hf hi, by rw [ht],
        by rw [ht]; exact h⟩

theorem refX_rustcEntry (hc : CfgOk cfg) {env : Env} {H : Nat → Nat} {P : AL.Pred}
    (hlp : LawfulP env H P) (k kid : Nat) (c : EChain) (w : World) (h : RI cfg H w.t) :
    RefX cfg env P H (.rustcEntry k kid c) w := by
  have hs := rustcEntry_chain_spec hc hlp.toLawful hlp.alloc hlp.nodropPanic k kid c w h
  cases hf : AL.find w.t.elems k with
  | some old =>
    rw [hf] at hs
    obtain ⟨w', hr, hRI, hp, _⟩ := hs
    exact .inl ⟨_, w', _, by simp only [Map.stepX, hr], .rustcOcc cfg kid c hf, hp, hRI⟩
  | none =>
    rw [hf] at hs
    rcases hs with ⟨w', hr, hRI, hp, _⟩ | ⟨w', hr, ht, _⟩
    · exact .inl ⟨_, w', _, by simp only [Map.stepX, hr], .rustcVac cfg kid c hf, hp, hRI⟩
    · exact .inr ⟨_, w', _, by simp only [Map.stepX, hr], .rustcOverflow kid c hf, by rw [ht],
        by rw [ht]; exact h⟩

theorem refX_rawEntry (hc : CfgOk cfg) {env : Env} {H : Nat → Nat} {P : AL.Pred}
    (hlp : LawfulP env H P) (mode : RawMode) (ph k : Nat) (c : RawChain)
    (hct : (MapOpX.rawEntry mode ph k c).contract H) (w : World) (h : RI cfg H w.t) :
    RefX cfg env P H (.rawEntry mode ph k c) w := by
  have hs := rawEntry_chain_spec hc hlp.toLawful hlp.alloc hlp.nodropPanic mode ph k c hct.1 hct.2 w h
  cases hf : AL.find w.t.elems k with
  | some old =>
    rw [hf] at hs
    obtain ⟨w', hr, hRI, hp, _⟩ := hs
    exact .inl ⟨_, w', _, by simp only [Map.stepX, hr], .rawOcc cfg c hct hf, hp, hRI⟩
  | none =>
    rw [hf] at hs
    rcases hs with ⟨w', hr, hRI, hp, _⟩ | ⟨e, w', hi, hr, ht, _⟩
    · exact .inl ⟨_, w', _, by simp only [Map.stepX, hr], .rawVac cfg c hct hf, hp, hRI⟩
    · exact .inr ⟨_, w', _, by simp only [Map.stepX, hr], .rawOverflow hct hf hi, by rw [ht],
        by rw [ht]; exact h⟩

theorem refX_rawGet (hc : CfgOk cfg) {env : Env} {H : Nat → Nat} {P : AL.Pred}
    (hlp : LawfulP env H P) (mode : RawMode) (ph k : Nat)
    (hct : (MapOpX.rawGet mode ph k).contract H) (w : World) (h : RI cfg H w.t) :
    RefX cfg env P H (.rawGet mode ph k) w := by
  have hs := rawLook_spec hc hlp.toLawful mode ph k hct w h.1
  left
  cases hf : AL.find w.t.elems k with
  | some e =>
    rw [hf] at hs
    obtain ⟨idx, w1, hlk, ht, he, _, _⟩ := hs
    have he1 : w1.t.slots[idx]?.join = some e := by rw [ht]; exact he
    refine ⟨.elem (some e), w1, _, ?_, hf ▸ AL.StepX.rawGet k _ hct, by rw [ht], by rw [ht]; exact h⟩
    simp only [Map.stepX, Map.rawGet, hlk, rf_bind_ok, slotGet_ok he1, liftE, rf_pure]
  | none =>
    rw [hf] at hs
    obtain ⟨w1, hlk, ht, _⟩ := hs
    refine ⟨.elem none, w1, _, ?_, hf ▸ AL.StepX.rawGet k _ hct, by rw [ht], by rw [ht]; exact h⟩
    simp only [Map.stepX, Map.rawGet, hlk, rf_bind_ok, rf_pure]

theorem refX_tryInsert (hc : CfgOk cfg) {env : Env} {H : Nat → Nat} {P : AL.Pred}
    (hlp : LawfulP env H P) (e : Elem) (w : World) (h : RI cfg H w.t) :
    RefX cfg env P H (.tryInsert e) w := by
  have hs := tryInsert_spec hc hlp.toLawful hlp.alloc hlp.nodropPanic e w h
  cases hf : AL.find w.t.elems e.k with
  | some cur =>
    rw [hf] at hs
    obtain ⟨w', hr, ht, _⟩ := hs
    exact .inl ⟨_, w', _, by simp only [Map.stepX, hr], .tryInsertOcc hf, by rw [ht],
      by rw [ht]; exact h⟩
  | none =>
    rw [hf] at hs
    rcases hs with ⟨w', hr, hRI, hp, _⟩ | ⟨w', hr, ht, _⟩
    · exact .inl ⟨_, w', _, by simp only [Map.stepX, hr], .tryInsertVac hf, hp, hRI⟩
    · exact .inr ⟨_, w', _, by simp only [Map.stepX, hr], .tryInsertOverflow hf, by rw [ht],
        by rw [ht]; exact h⟩

theorem refX_index (hc : CfgOk cfg) {env : Env} {H : Nat → Nat} {P : AL.Pred}
    (hlp : LawfulP env H P) (k : Nat) (w : World) (h : RI cfg H w.t) :
    RefX cfg env P H (.index k) w := by
  obtain ⟨w', hr, ht, _⟩ := get_refines hc hlp.toLawful k w h
  cases hf : AL.find w.t.elems k with
  | some e =>
    rw [hf] at hr
    refine .inl ⟨.val e.vid e.v, w', _, ?_, .indexOk hf, by rw [ht], by rw [ht]; exact h⟩
    simp only [Map.stepX, Map.index, hr, rf_bind_ok, rf_pure]
  | none =>
    rw [hf] at hr
    refine .inr ⟨"nokey", w', _, ?_, .indexMissing hf, by rw [ht], by rw [ht]; exact h⟩
    simp only [Map.stepX, Map.index, hr, rf_bind_ok]

/-! ### `extend`: on capacity overflow a prefix of the items has been inserted -/

theorem rx_insertAll_cons (l : AL) (e : Elem) (rest : List Elem) :
    AL.insertAll l (e :: rest) = AL.insertAll (l.insertOne e) rest := rfl

/-- The `insert` loop of `extend`, contents only, with the panic case made precise. -/
theorem insertMany_prefix (hc : CfgOk cfg) {env : Env} {H : Nat → Nat} (hl : Lawful env H)
    (halloc : ∀ j, env.allocOk j = true) (hnd : ∀ c e, env.dropPanics c e = false) :
    ∀ (items : List Elem) (w : World), RI cfg H w.t →
      (∃ w', Map.insertMany cfg env items w = .ok w' ∧ RI cfg H w'.t ∧
        List.Perm w'.t.elems (AL.insertAll w.t.elems items)) ∨
      (∃ w' n, Map.insertMany cfg env items w = .panic "capacity" w' ∧ RI cfg H w'.t ∧
        List.Perm w'.t.elems (AL.insertAll w.t.elems (items.take n))) := by
  intro items
  induction items with
  | nil => intro w h; exact Or.inl ⟨w, rfl, h, List.Perm.refl _⟩
  | cons e rest ih =>
    intro w h
    rw [Map.insertMany]
    rcases insert_refines hc (growthLawful hc hc.probe) hl halloc hnd e w h with
      ⟨r, w1, hr, hRI1, hm⟩ | ⟨w', hr, ht, _⟩
    · rw [hr]
      simp only
      have hstep : List.Perm (Map.dropValOpt cfg (r.map (·.1)) w1).t.elems
          (AL.insertOne w.t.elems e) := by
        rw [en_dropValOpt_t]
        unfold AL.insertOne
        cases hf : AL.find w.t.elems e.k with
        | none => rw [hf] at hm; exact hm.2.1
        | some old => rw [hf] at hm; exact hm.2.1
      have hRI1' : RI cfg H (Map.dropValOpt cfg (r.map (·.1)) w1).t := by
        rw [en_dropValOpt_t]; exact hRI1
      have hkn := elems_keysNodup hRI1'.1
      rcases ih _ hRI1' with ⟨w', hr', hRI', hp'⟩ | ⟨w', n, hr', hRI', hp'⟩
      · exact .inl ⟨w', hr', hRI', hp'.trans (en_insertAll_perm (cfg := cfg) rest hstep hkn).1⟩
      · refine .inr ⟨w', n + 1, hr', hRI', ?_⟩
        rw [List.take_succ_cons, rx_insertAll_cons]
        exact hp'.trans (en_insertAll_perm (cfg := cfg) (rest.take n) hstep hkn).1
    · right
      rw [hr]
      refine ⟨_, 0, rfl, by rw [en_dropAllQuiet_t, ht]; exact h, ?_⟩
      rw [en_dropAllQuiet_t, ht]
      exact List.Perm.refl _

theorem extend_prefix (hc : CfgOk cfg) {env : Env} {H : Nat → Nat} (hl : Lawful env H)
    (halloc : ∀ j, env.allocOk j = true) (hnd : ∀ c e, env.dropPanics c e = false)
    (items : List Elem) (w : World) (h : RI cfg H w.t) :
    (∃ w', Map.extend cfg env items w = .ok w' ∧ RI cfg H w'.t ∧
      List.Perm w'.t.elems (AL.insertAll w.t.elems items)) ∨
    (∃ w' n, Map.extend cfg env items w = .panic "capacity" w' ∧ RI cfg H w'.t ∧
      List.Perm w'.t.elems (AL.insertAll w.t.elems (items.take n))) := by
  rw [en_extend_eq]
  rcases reserve_RI hc (growthLawful hc hc.probe) hl halloc
      (extendReserve (w.t.items == 0) items.length) w h with ⟨w1, hr, hRI1, hp1, _, _⟩ | hr
  · rw [hr]
    simp only [Res.onPanic, en_bind_ok]
    have hkn := elems_keysNodup hRI1.1
    rcases insertMany_prefix hc hl halloc hnd items w1 hRI1 with
      ⟨w', hr', hRI', hp'⟩ | ⟨w', n, hr', hRI', hp'⟩
    · exact .inl ⟨w', hr', hRI', hp'.trans (en_insertAll_perm (cfg := cfg) items hp1 hkn).1⟩
    · exact .inr ⟨w', n, hr', hRI',
        hp'.trans (en_insertAll_perm (cfg := cfg) (items.take n) hp1 hkn).1⟩
  · right
    rw [hr]
    refine ⟨_, 0, rfl, by rw [en_dropAllQuiet_t]; exact h, ?_⟩
    rw [en_dropAllQuiet_t]
    exact List.Perm.refl _

theorem refX_extend (hc : CfgOk cfg) {env : Env} {H : Nat → Nat} {P : AL.Pred}
    (hlp : LawfulP env H P) (items : List Elem) (w : World) (h : RI cfg H w.t) :
    RefX cfg env P H (.extend items) w := by
  rcases extend_prefix hc hlp.toLawful hlp.alloc hlp.nodropPanic items w h with
    ⟨w', hr, hRI, hp⟩ | ⟨w', n, hr, hRI, hp⟩
  · exact .inl ⟨.unit, w', _, by simp only [Map.stepX, hr], .extend items _, hp, hRI⟩
  · exact .inr ⟨_, w', _, by simp only [Map.stepX, hr], .extendOverflow items _ n, hp, hRI⟩


/-! ### `get_many_mut` -/

theorem AL.firstIdx_some : ∀ {ks : List Nat} {k j : Nat}, AL.firstIdx ks k = some j → ks[j]? = some k
  | [], _, _, h => by simp [AL.firstIdx] at h
  | a :: rest, k, j, h => by
    unfold AL.firstIdx at h
    split at h
    · cases h; simp [*]
    · cases hr : AL.firstIdx rest k with
      | none => rw [hr] at h; cases h
      | some j' =>
        rw [hr] at h; cases h
        simpa using AL.firstIdx_some hr

theorem AL.firstIdx_none : ∀ {ks : List Nat} {k : Nat}, AL.firstIdx ks k = none → k ∉ ks
  | [], _, _ => by simp
  | a :: rest, k, h => by
    unfold AL.firstIdx at h
    split at h
    · cases h
    · rename_i hne
      cases hr : AL.firstIdx rest k with
      | some j' => rw [hr] at h; cases h
      | none =>
        have := AL.firstIdx_none hr
        simp only [List.mem_cons, not_or]
        exact ⟨fun hk => hne hk.symm, this⟩

/-- Slot-wise image ⇒ image of the stored elements. -/
theorem rx_filterMap_pointwise (f : Elem → Elem) : ∀ (la lb : List (Option Elem)),
    la.length = lb.length → (∀ i : Nat, lb[i]?.join = (la[i]?.join).map f) →
    lb.filterMap id = (la.filterMap id).map f := by
  intro la
  induction la with
  | nil =>
    intro lb hlen _
    have : lb = [] := List.eq_nil_of_length_eq_zero hlen.symm
    subst this; rfl
  | cons a la ih =>
    intro lb hlen hpt
    cases lb with
    | nil => cases hlen
    | cons b lb =>
      have h0 := hpt 0
      have htl := ih lb (by simpa using hlen) (fun i => by simpa using hpt (i + 1))
      cases a with
      | none =>
        have hb : b = none := by simpa using h0
        subst hb
        simpa using htl
      | some x =>
        have hb : b = some (f x) := by simpa using h0
        subst hb
        show f x :: List.filterMap id lb = f x :: List.map f (List.filterMap id la)
        rw [htl]

theorem rx_slots_size {t : Raw} {s' : Array (Option Elem)} (h : Inv cfg t)
    (h' : Inv cfg { t with slots := s' }) : s'.size = t.slots.size := by
  rcases h.geom with hs | ha <;> rcases h'.geom with hs' | ha'
  · have e1 : t.slots = #[] := hs.2.2.2.1
    have e2 : s' = #[] := hs'.2.2.2.1
    rw [e1, e2]
  · have e1 : t.alloc = false := hs.1
    have e2 : t.alloc = true := ha'.1
    rw [e1] at e2; cases e2
  · have e1 : t.alloc = true := ha.1
    have e2 : t.alloc = false := hs'.1
    rw [e1] at e2; cases e2
  · have e1 : t.slots.size = t.buckets := ha.2.2.2.1
    have e2 : s'.size = t.buckets := ha'.2.2.2.1
    rw [e1, e2]

theorem refX_getManyMut (hc : CfgOk cfg) {env : Env} {H : Nat → Nat} {P : AL.Pred}
    (hlp : LawfulP env H P) (ks : List Nat) (w : World) (h : RI cfg H w.t) :
    RefX cfg env P H (.getManyMut ks) w := by
  obtain ⟨w1, ht1, _, hcase⟩ := Map.getManyMut_lawful hc hc.probe env H hlp.toLawful ks w h.1
  have hdupiff : (∃ (j1 j2 k : Nat), j1 < j2 ∧ ks[j1]? = some k ∧ ks[j2]? = some k ∧
      ∃ e ∈ w.t.elems, e.k = k) ↔ AL.DupHit w.t.elems ks := by
    unfold AL.DupHit
    constructor
    · rintro ⟨j1, j2, k, a, b, c, e, he, hk⟩
      exact ⟨j1, j2, k, a, b, c, fun hn => AL.find_none_iff.mp hn e he hk⟩
    · rintro ⟨j1, j2, k, a, b, c, hne⟩
      refine ⟨j1, j2, k, a, b, c, ?_⟩
      by_contra hno
      exact hne (AL.find_none_iff.mpr fun e he hk => hno ⟨e, he, hk⟩)
  rcases hcase with ⟨hd, hr⟩ | ⟨hnd, rs, s', hr, hlen, hmiss, hhit, hframe, hinvL⟩
  · exact .inr ⟨"dup", w1, _, by simp only [Map.stepX, hr], .getManyDup (hdupiff.mp hd),
      by rw [ht1], by rw [ht1]; exact h⟩
  · left
    -- what is returned
    have hrs : rs = ks.map (AL.find w.t.elems) := by
      apply List.ext_getElem?
      intro j
      rw [List.getElem?_map]
      by_cases hj : j < ks.length
      · rw [List.getElem?_eq_getElem hj]
        simp only [Option.map_some]
        cases hf : AL.find w.t.elems ks[j] with
        | none =>
          exact hmiss j ks[j] (List.getElem?_eq_getElem hj) (AL.find_none_iff.mp hf)
        | some e =>
          obtain ⟨i, hi, hk⟩ := (elems_find h.1).mp hf
          exact (hhit j ks[j] i e (List.getElem?_eq_getElem hj) hi hk).1
      · rw [List.getElem?_eq_none (by omega), List.getElem?_eq_none (by omega)]
        rfl
    -- what is stored afterwards
    have hsz := rx_slots_size h.1.toInv hinvL.toInv
    have hpt : ∀ i : Nat, s'[i]?.join = (w.t.slots[i]?.join).map fun x =>
        match AL.firstIdx ks x.k with
        | some j => { x with v := x.v + 1000 * (j + 1) }
        | none => x := by
      intro i
      cases hsi : w.t.slots[i]?.join with
      | some e =>
        simp only [Option.map_some]
        cases hfi : AL.firstIdx ks e.k with
        | some j => exact (hhit j e.k i e (AL.firstIdx_some hfi) hsi rfl).2
        | none =>
          simp only
          rw [hframe i e hsi (AL.firstIdx_none hfi), hsi]
      | none =>
        simp only [Option.map_none]
        by_cases hi : i < s'.size
        · have hl' := hinvL.toInv.live i hi
          have hl := h.1.toInv.live i (by rw [← hsz]; exact hi)
          have hc' : (({ w.t with slots := s' } : Raw).ctrlAt i) = w.t.ctrlAt i := rfl
          rw [hc'] at hl'
          have hs'' : ({ w.t with slots := s' } : Raw).slots = s' := rfl
          rw [hs''] at hl'
          rw [hsi] at hl
          cases hx : s'[i]?.join with
          | none => rfl
          | some x =>
            rw [hx] at hl'
            have := hl.mpr (hl'.mp rfl)
            cases this
        · rw [Array.getElem?_eq_none (by omega)]; rfl
    have hel : ({ w.t with slots := s' } : Raw).elems = AL.bumpMany w.t.elems ks := by
      unfold Raw.elems AL.bumpMany
      apply rx_filterMap_pointwise
      · simp only [Array.length_toList]; exact hsz.symm
      · intro i
        rw [Array.getElem?_toList, Array.getElem?_toList]
        exact hpt i
    refine ⟨.many rs, { w1 with t := { w.t with slots := s' } }, AL.bumpMany w.t.elems ks,
      by simp only [Map.stepX, hr],
      ?_, ?_, ⟨hinvL, fun ha => h.2 ha⟩⟩
    · rw [hrs]; exact .getManyOk (fun hd => hnd (hdupiff.mpr hd))
    · show List.Perm ({ w.t with slots := s' } : Raw).elems _
      rw [hel]

/-! ## 2. one call -/

/-- **One extended call refines one `AL.StepX`.** Hypotheses: those of `step_refines'` (`CfgOk cfg`,
    `LawfulP env H P` — which contains the allocator / destructor hypotheses `halloc`, `hnd` of the
    C14 specifications as its fields `alloc`, `nodropPanic`), the documented hash contract of the raw
    builders (`op.contract H`), and `basic` for the basic calls (`op.basicOk`). The call returns or
    panics — never `fault`, never `abort` —, the observation is the specified one, the table holds the
    specified pairs up to bucket order, and the invariant holds again. -/
theorem stepX_refines (hc : CfgOk cfg) {env : Env} {H : Nat → Nat} {P : AL.Pred}
    (hlp : LawfulP env H P) (op : MapOpX) (hct : op.contract H) (hb : op.basicOk = true)
    (w : World) (h : RI cfg H w.t) :
    (∃ r w' l', Map.stepX cfg env op w = .ok (r, w') ∧ AL.StepX P H op w.t.elems (.ret r) l' ∧
      List.Perm w'.t.elems l' ∧ RI cfg H w'.t) ∨
    (∃ c w' l', Map.stepX cfg env op w = .panic c w' ∧ AL.StepX P H op w.t.elems (.panic c) l' ∧
      List.Perm w'.t.elems l' ∧ RI cfg H w'.t) := by
  cases op with
  | base op => exact refX_base hc hlp op hb w h
  | entry k kid c => exact refX_entry hc hlp k kid c w h
  | entryRef k newkid c => exact refX_entryRef hc hlp k newkid c w h
  | rustcEntry k kid c => exact refX_rustcEntry hc hlp k kid c w h
  | rawEntry mode ph k c => exact refX_rawEntry hc hlp mode ph k c hct w h
  | rawGet mode ph k => exact refX_rawGet hc hlp mode ph k hct w h
  | tryInsert e => exact refX_tryInsert hc hlp e w h
  | extend items => exact refX_extend hc hlp items w h
  | getManyMut ks => exact refX_getManyMut hc hlp ks w h
  | index k => exact refX_index hc hlp k w h

/-! ## 3. whole histories -/

/-- Histories from any good state related to an abstract map `l`. -/
theorem historyX_refines_from (hc : CfgOk cfg) {env : Env} {H : Nat → Nat} {P : AL.Pred}
    (hlp : LawfulP env H P) :
    ∀ (ops : List MapOpX) (w : World) (l : AL), (∀ op ∈ ops, op.contract H) →
      (∀ op ∈ ops, op.basicOk = true) → RI cfg H w.t → List.Perm w.t.elems l →
      ∃ os wf lf, Map.runX cfg env ops w = some (os, wf) ∧ AL.TraceX P H ops l os lf ∧
        List.Perm wf.t.elems lf ∧ lf.keysNodup ∧ RI cfg H wf.t := by
  intro ops
  induction ops with
  | nil =>
    intro w l _ _ hRI hp
    exact ⟨[], w, l, rfl, .nil l, hp, AL.keysNodup_perm hp (elems_keysNodup hRI.1), hRI⟩
  | cons op ops ih =>
    intro w l hct hb hRI hp
    have hkn := elems_keysNodup hRI.1
    rcases stepX_refines hc hlp op (hct op List.mem_cons_self) (hb op List.mem_cons_self) w hRI with
      ⟨r, w', l', hstep, hs, hp', hRI'⟩ | ⟨c, w', l', hstep, hs, hp', hRI'⟩
    · obtain ⟨l1, hs1, hp1⟩ := hs.perm hp hkn
      obtain ⟨os, wf, lf, hrun, htr, hpf, hnf, hRIf⟩ :=
        ih w' l1 (fun o ho => hct o (List.mem_cons_of_mem _ ho))
          (fun o ho => hb o (List.mem_cons_of_mem _ ho)) hRI' (hp'.trans hp1)
      exact ⟨.ret r :: os, wf, lf, by simp only [Map.runX, hstep, hrun, Option.map_some],
        .cons hs1 htr, hpf, hnf, hRIf⟩
    · obtain ⟨l1, hs1, hp1⟩ := hs.perm hp hkn
      obtain ⟨os, wf, lf, hrun, htr, hpf, hnf, hRIf⟩ :=
        ih w' l1 (fun o ho => hct o (List.mem_cons_of_mem _ ho))
          (fun o ho => hb o (List.mem_cons_of_mem _ ho)) hRI' (hp'.trans hp1)
      exact ⟨.panic c :: os, wf, lf, by simp only [Map.runX, hstep, hrun, Option.map_some],
        .cons hs1 htr, hpf, hnf, hRIf⟩

/-- **C01 over ALL modelled `HashMap` calls.** Every finite history of `MapOpX` calls on a fresh map
    — insert, get…, remove…, clear, reserve / try_reserve / shrink, retain, `try_insert`, the `entry`,
    `entry_ref`, `rustc_entry`, `raw_entry_mut` chains, `raw_entry`, `extend`, `get_many_mut`, `Index` —
    for every deterministic hash function `H` (lawful environment), either scanner, any table-size
    history: the run never faults or aborts; what each call returns (or the documented panic it
    raises) is what the reference association list prescribes, call by call; the final contents are,
    up to bucket order, the final abstract map, whose keys are pairwise distinct. -/
theorem historyX_refines (hc : CfgOk cfg) {env : Env} {H : Nat → Nat} {P : AL.Pred}
    (hlp : LawfulP env H P) (ops : List MapOpX) (hct : ∀ op ∈ ops, op.contract H)
    (hb : ∀ op ∈ ops, op.basicOk = true) (w0 : World) (h0 : w0.t = Raw.new cfg.W) :
    ∃ os wf lf, Map.runX cfg env ops w0 = some (os, wf) ∧ AL.TraceX P H ops [] os lf ∧
      List.Perm wf.t.elems lf ∧ lf.keysNodup ∧ RI cfg H wf.t := by
  apply historyX_refines_from hc hlp ops w0 [] hct hb
  · rw [h0]; exact RI_new hc H
  · rw [h0]; exact List.Perm.refl _

/-! ## 4. non-vacuity: a mixed history, evaluated -/

/-- insert 1; `entry(2).or_insert` (vacant); `entry(1).or_insert` (occupied, default dropped);
    `try_insert(1, ..)` (rejected); `entry_ref(&3).insert` (vacant, key object 30 created);
    `rustc_entry(2)` + `remove`; `raw_entry_mut().from_key(&1)` + `insert_key` (stored key object
    10 → 13); `extend [(4, ..), (1, ..)]`; `get_many_mut [1, 5, 3]`; `get_many_mut [4, 4]` (panics);
    `map[&9]` (panics); `map[&4]`; `raw_entry().from_hash(H 3, ..)`; `retain` (odd payloads, +1). -/
def rxOps : List MapOpX :=
  [.base (.insert ⟨1, 10, 100, 7⟩),
   .entry 2 20 (.orInsert 200 8),
   .entry 1 11 (.orInsert 101 9),
   .tryInsert ⟨1, 12, 102, 5⟩,
   .entryRef 3 30 (.insert 300 3),
   .rustcEntry 2 21 .occRemove,
   .rawEntry .fromKey 0 1 (.occInsertKey 13),
   .extend [⟨4, 40, 400, 4⟩, ⟨1, 14, 103, 6⟩],
   .getManyMut [1, 5, 3],
   .getManyMut [4, 4],
   .index 9,
   .index 4,
   .rawGet .fromHash (rfH 3) 3,
   .base .retain]

/-- What the specification says these calls are observed as. -/
def rxObs : List Map.ObsX :=
  [.ret (.base (.val none)),
   .ret (.ent false (.val 200 8)),
   .ret (.ent true (.val 100 7)),
   .ret (.ent false (.elem ⟨1, 10, 100, 7⟩)),
   .ret (.ent false (.elem ⟨3, 30, 300, 3⟩)),
   .ret (.ent true (.val 200 8)),
   .ret (.ent true (.key 1 10)),
   .ret .unit,
   .ret (.many [some ⟨1, 13, 103, 6⟩, none, some ⟨3, 30, 300, 3⟩]),
   .panic "dup",
   .panic "nokey",
   .ret (.val 400 4),
   .ret (.elem (some ⟨3, 30, 300, 3003⟩)),
   .ret (.base .unit)]

/-- Flat encodings (the model types have no decidable equality). -/
def rxOut : EOut → List Nat
  | .none => [0]
  | .val a b => [1, a, b]
  | .elem e => [2, e.k, e.kid, e.vid, e.v]
  | .key a b => [3, a, b]
  | .qkey a => [4, a]
  | .entOcc e => [5, e.k, e.kid, e.vid, e.v]
  | .entVac a b => [6, a, b]
  | .entVacRaw => [7]

def rxOpt : Option Elem → List Nat
  | none => [0]
  | some e => [1, e.k, e.kid, e.vid, e.v]

def rxCode : Map.ObsX → List Nat
  | .ret (.base r) => 10 :: rfCode (.ret r)
  | .ret (.ent b o) => 11 :: (if b then 1 else 0) :: rxOut o
  | .ret (.elem e) => 12 :: rxOpt e
  | .ret (.many l) => 13 :: l.flatMap rxOpt
  | .ret (.val a b) => [14, a, b]
  | .ret .unit => [15]
  | .panic c => 16 :: c.toList.map Char.toNat

theorem rxOps_contract : ∀ op ∈ rxOps, op.contract rfH := by
  intro op hop
  simp only [rxOps, List.mem_cons, List.mem_nil_iff, or_false] at hop
  rcases hop with rfl | rfl | rfl | rfl | rfl | rfl | rfl | rfl | rfl | rfl | rfl | rfl | rfl | rfl <;>
    first
    | trivial
    | exact ⟨.inl rfl, fun h => h.elim⟩
    | exact .inr rfl

theorem rxOps_basicOk : ∀ op ∈ rxOps, op.basicOk = true := by
  intro op hop
  simp only [rxOps, List.mem_cons, List.mem_nil_iff, or_false] at hop
  rcases hop with rfl | rfl | rfl | rfl | rfl | rfl | rfl | rfl | rfl | rfl | rfl | rfl | rfl | rfl <;>
    rfl

/-- The history on the abstract map: the observations are `rxObs`, the final map is the single pair
    `(3 ↦ 3004)` under the key object created by `entry_ref`. -/
theorem rxTrace : AL.TraceX rfP rfH rxOps [] rxObs [⟨3, 30, 300, 3004⟩] := by
  have cfg : Cfg := { ops := Sse2.ops }
  refine .cons (.base (.insertNew _ _ rfl)) ?_
  refine .cons (.entryVac cfg 20 _ rfl) ?_
  refine .cons (.entryOcc cfg 11 _ (old := ⟨1, 10, 100, 7⟩) rfl) ?_
  refine .cons (.tryInsertOcc (cur := ⟨1, 10, 100, 7⟩) rfl) ?_
  refine .cons (.entryRefVac cfg 30 _ rfl) ?_
  refine .cons (.rustcOcc cfg 21 _ (old := ⟨2, 20, 200, 8⟩) rfl) ?_
  refine .cons (.rawOcc cfg _ (old := ⟨1, 10, 100, 7⟩) ⟨.inl rfl, fun h => h.elim⟩ rfl) ?_
  refine .cons (.extend _ _) ?_
  refine .cons (.getManyOk ?_) ?_
  · rintro ⟨j1, j2, k, hlt, h1, h2, _⟩
    rcases j1 with _ | _ | _ | j1 <;> rcases j2 with _ | _ | _ | j2 <;>
      simp at h1 h2 <;> omega
  refine .cons (.getManyDup ⟨0, 1, 4, by decide, rfl, rfl, fun h => by cases h⟩) ?_
  refine .cons (.indexMissing rfl) ?_
  refine .cons (.indexOk (e := ⟨4, 40, 400, 4⟩) rfl) ?_
  refine .cons (.rawGet 3 _ (.inr rfl)) ?_
  refine .cons (.base (.retain _)) ?_
  exact .nil _

/-- The same history through the model with the SSE2 scanner: same observations, and the final table
    holds exactly the final abstract map; every other key / value object created along the way has
    been dropped exactly once (newest first). -/
theorem rxRun_sse2 :
    (match Map.runX { ops := Sse2.ops } rfEnv rxOps { t := Raw.new 16 } with
     | some (os, wf) => some (os.map rxCode, wf.t.elems, dropsOf wf.log)
     | none => none) =
    some (rxObs.map rxCode, [⟨3, 30, 300, 3004⟩],
      [.dropV 400, .dropK 40, .dropV 103, .dropK 13, .dropV 100, .dropK 14, .dropK 20, .dropK 21,
       .dropK 12, .dropV 101, .dropK 11]) := by
  decide +kernel

/-- ... and with the portable (generic) scanner. -/
theorem rxRun_generic :
    (match Map.runX { ops := Generic.ops } rfEnv rxOps { t := Raw.new 8 } with
     | some (os, wf) => some (os.map rxCode, wf.t.elems)
     | none => none) =
    some (rxObs.map rxCode, [⟨3, 30, 300, 3004⟩]) := by
  decide +kernel

/-- The general theorem applies to this history (its hypotheses are satisfiable). -/
example (cfg : Cfg) (hc : CfgOk cfg) (w0 : World) (h0 : w0.t = Raw.new cfg.W) :
    ∃ os wf lf, Map.runX cfg rfEnv rxOps w0 = some (os, wf) ∧ AL.TraceX rfP rfH rxOps [] os lf ∧
      List.Perm wf.t.elems lf ∧ lf.keysNodup ∧ RI cfg rfH wf.t :=
  historyX_refines hc rfEnv_lawfulP rxOps rxOps_contract rxOps_basicOk w0 h0

#print axioms stepX_refines
#print axioms AL.StepX.perm
#print axioms AL.StepX.keysNodup
#print axioms AL.StepX.ret_functional
#print axioms AL.StepX.panic_inv
#print axioms AL.StepX.ret_and_panic
#print axioms AL.StepX.panic_functional
#print axioms AL.StepX.entry_orInsert
#print axioms AL.StepX.entry_insert
#print axioms AL.StepX.tryInsert_ret
#print axioms AL.StepX.extend_ret
#print axioms AL.StepX.getManyMut_panics_iff
#print axioms AL.StepX.index_inv
#print axioms historyX_refines
#print axioms extend_prefix
#print axioms rxTrace
#print axioms rxRun_sse2
#print axioms rxRun_generic

end Hb
