/-
C04 / C14 / C02 — a user closure that PANICS inside an entry method (`Hb/Model/EntryPanic.lean`):
`OccupiedEntry::replace_entry_with` / `Entry::and_replace_entry_with` (`Map.entryReplacePanic`), the same
through `raw_entry_mut()` (`Map.rawReplacePanic`), `Entry::or_insert_with` (`Map.entryOrInsertWithPanic`)
and `Entry::and_modify` (`Map.entryAndModifyPanic`).

Everything in parts 0–3 holds for EVERY environment (arbitrary, call-number dependent `Hash` / `Eq`
answers which may themselves panic, destructors that may panic), every `cfg` with `CfgOk cfg`, every
world whose table satisfies the API invariant `TInv cfg w.t`, every key / key object / supplied hash.

 0. look-ups with panic class and exact log: `ep_search_total`, `ep_EntryLook` / `ep_entryLook`
    (`map.entry(key)`: an occupied entry has ALREADY dropped the key object passed in),
    `ep_RawLook` / `ep_rawLook` (`raw_entry_mut().from_*`: no key object, `from_key` is the only builder
    that calls `Hash`).
 1. `entryReplacePanic_spec`, `rawReplacePanic_spec`, `entryOrInsertWithPanic_spec`,
    `entryAndModifyPanic_spec`: never `.fault` / `.abort`; exact table and exact log of every outcome.
    REMARK (third panic class): besides `"hash"` / `"eq"` (look-up) and `"pred"` (the closure) the four
    functions can unwind with class `"drop"` — the destructor of the probe key object panics, either
    at the end of `entry()` on the occupied side or when the unused `VacantEntry` is dropped. The table
    is unchanged and the key object has been logged exactly once in that case too; it is listed with
    the look-up panics in the statements.
    The removed element `x` of a `"pred"` unwinding is one the user's `Eq` answered `true` for
    (`∃ c', env.eq c' k x = some true`); `*_lawful` corollaries: `x.k = k` under `Lawful env H`.
 2. lawful environments (`Lawful env H`, `InvL` / `RI`): present ⇔ the closure runs:
    `entryReplacePanic_lawful_spec`, `rawReplacePanic_lawful_spec`, `entryOrInsertWithPanic_lawful_spec`,
    `entryAndModifyPanic_lawful_spec`.
 3. `EPanicOp` (the four protocol operations), `ep_Eff` (what every outcome looks like),
    `closure_panic_effect`, `closure_panic_then_any_history_safe` (`Forget.Usable`),
    `closure_panic_ledger` (exact ledger of identities), `closure_panic_no_double_drop`.
-/
import Hb.Model.EntryPanic
import Hb.Proofs.ForgetSpec
import Hb.Proofs.LedgerPanic
namespace Hb

variable {cfg : Cfg}

/-! ## 0. look-ups for every environment: panic class, log, and what `Eq` said -/

/-- hash + `find` for every environment, with the panic class and the `Eq` answer for the hit. -/
theorem ep_search_total (hc : CfgOk cfg) (env : Env) (k : Nat) (w : World) (h : Inv cfg w.t) :
    (∃ hv w2, en_search cfg env k w = .ok (hv, none, w2) ∧ w2.t = w.t ∧ w2.log = w.log) ∨
    (∃ hv idx w2 e c, en_search cfg env k w = .ok (hv, some idx, w2) ∧ w2.t = w.t ∧ w2.log = w.log ∧
      w.t.slots[idx]?.join = some e ∧ env.eq c k e = some true) ∨
    (∃ c w', en_search cfg env k w = .panic c w' ∧ (c = "hash" ∨ c = "eq") ∧ w'.t = w.t ∧
      w'.log = w.log) := by
  unfold en_search
  cases hh : env.hash w.hc k with
  | none =>
    simp only [ag_makeHash_none hh, Res.bind]
    exact .inr (.inr ⟨_, _, rfl, .inl rfl, rfl, rfl⟩)
  | some hv =>
    simp only [ag_makeHash_some hh, Res.bind]
    rcases find_run hc hc.probe env hv k { w with hc := w.hc + 1 } h with
      ⟨idx, w', k1, k2, _, _, e, c, k5, k6⟩ | ⟨w', k1, k2, _⟩ | ⟨w', k1, k2, _⟩
    · rw [k1]
      exact .inr (.inl ⟨hv, idx, w', e, c, rfl, k2.t, k2.log, k5, k6⟩)
    · rw [k1]
      exact .inl ⟨hv, w', rfl, k2.t, k2.log⟩
    · rw [k1]
      exact .inr (.inr ⟨_, w', rfl, .inr rfl, k2.t, k2.log⟩)

/-- How `map.entry(K(k, kid))` ends, for every environment. `occupied`: the key object passed in has
    already been dropped by `entry()` (logged once), bucket `idx` holds an element the user's `Eq`
    answered `true` for. `vacant`: nothing logged, the `VacantEntry` owns the key object. `unwound`:
    `Hash` / `Eq` panicked (the key object is dropped by the unwinding) or the key's own destructor
    panicked at the end of `entry()` on the occupied side; the key object is logged once. -/
inductive ep_EntryLook (cfg : Cfg) (env : Env) (k kid : Nat) (w : World) :
    Res ((Nat × Option Nat) × World) → Prop
  | occupied (hv idx : Nat) (e : Elem) (c : Nat) (w1 : World) :
      w1.t = w.t → w1.log = keyDropEv cfg kid ++ w.log → w.t.slots[idx]?.join = some e →
      env.eq c k e = some true → ep_EntryLook cfg env k kid w (.ok ((hv, some idx), w1))
  | vacant (hv : Nat) (w1 : World) : w1.t = w.t → w1.log = w.log →
      ep_EntryLook cfg env k kid w (.ok ((hv, none), w1))
  | unwound (c : String) (w1 : World) : (c = "hash" ∨ c = "eq" ∨ c = "drop") → w1.t = w.t →
      w1.log = keyDropEv cfg kid ++ w.log → ep_EntryLook cfg env k kid w (.panic c w1)

theorem ep_entryLook (hc : CfgOk cfg) (env : Env) (k kid : Nat) (w : World) (h : Inv cfg w.t) :
    ep_EntryLook cfg env k kid w (Map.entryLook cfg env k kid w) := by
  rw [en_entryLook_eq]
  rcases ep_search_total hc env k w h with
    ⟨hv, w2, k1, k2, k3⟩ | ⟨hv, idx, w2, e, c, k1, k2, k3, k4, k5⟩ | ⟨c, w', k1, kc, k2, k3⟩
  · rw [k1]
    simp only [Res.onPanic, Res.bind]
    exact .vacant hv w2 k2 k3
  · rw [k1]
    simp only [Res.onPanic, Res.bind]
    rcases ag_dropKeyR (cfg := cfg) env kid w2 with ⟨w3, d1, d2, d3⟩ | ⟨w3, d1, d2, d3⟩
    · rw [d1]
      exact .occupied hv idx e c w3 (by rw [d2, k2]) (by rw [d3, k3]; rfl) k4 k5
    · rw [d1]
      exact .unwound "drop" w3 (.inr (.inr rfl)) (by rw [d2, k2]) (by rw [d3, k3]; rfl)
  · rw [k1]
    simp only [Res.onPanic, Res.bind]
    refine .unwound c _ ?_ (by rw [en_dropKeyQuiet_t, k2]) (by rw [en_dropKeyQuiet_log, k3])
    rcases kc with rfl | rfl
    · exact .inl rfl
    · exact .inr (.inl rfl)

/-- Number of `Hash` calls a `raw_entry_mut()` builder makes: only `from_key` hashes. -/
def ep_rawHashCalls (mode : Map.RawMode) : Nat := if mode = .fromKey then 1 else 0

/-- How `raw_entry_mut().from_key(&k)` / `.from_key_hashed_nocheck(ph, &k)` / `.from_hash(ph, ..)` ends,
    for every environment and ANY caller-supplied hash: no key object is involved, nothing is logged;
    `Hash` is called once by `from_key` and never by the other two builders. -/
inductive ep_RawLook (cfg : Cfg) (env : Env) (mode : Map.RawMode) (k : Nat) (w : World) :
    Res (Option Nat × World) → Prop
  | occupied (idx : Nat) (e : Elem) (c : Nat) (w1 : World) :
      w1.t = w.t → w1.log = w.log → w1.hc = w.hc + ep_rawHashCalls mode →
      w.t.slots[idx]?.join = some e → env.eq c k e = some true →
      ep_RawLook cfg env mode k w (.ok (some idx, w1))
  | vacant (w1 : World) : w1.t = w.t → w1.log = w.log → w1.hc = w.hc + ep_rawHashCalls mode →
      ep_RawLook cfg env mode k w (.ok (none, w1))
  | unwound (c : String) (w1 : World) : (c = "eq" ∨ (c = "hash" ∧ mode = .fromKey)) → w1.t = w.t →
      w1.log = w.log → w1.hc = w.hc + ep_rawHashCalls mode →
      ep_RawLook cfg env mode k w (.panic c w1)

theorem ep_rawLook (hc : CfgOk cfg) (env : Env) (mode : Map.RawMode) (ph k : Nat) (w : World)
    (h : Inv cfg w.t) : ep_RawLook cfg env mode k w (Map.rawLook cfg env mode ph k w) := by
  have key : ∀ (hv : Nat) (w0 : World), w0.t = w.t → w0.log = w.log →
      w0.hc = w.hc + ep_rawHashCalls mode → ep_RawLook cfg env mode k w (find cfg env hv k w0) := by
    intro hv w0 h0 hl0 hh0
    rcases find_run hc hc.probe env hv k w0 (by rw [h0]; exact h) with
      ⟨idx, w', k1, k2, _, _, e, c, k5, k6⟩ | ⟨w', k1, k2, _⟩ | ⟨w', k1, k2, _⟩
    · rw [k1]
      exact .occupied idx e c w' (k2.t.trans h0) (k2.log.trans hl0) (k2.hc.trans hh0)
        (by rw [← h0]; exact k5) k6
    · rw [k1]
      exact .vacant w' (k2.t.trans h0) (k2.log.trans hl0) (k2.hc.trans hh0)
    · rw [k1]
      exact .unwound "eq" w' (.inl rfl) (k2.t.trans h0) (k2.log.trans hl0) (k2.hc.trans hh0)
  unfold Map.rawLook
  by_cases hm : mode = .fromKey
  · simp only [hm, if_true]
    cases hh : env.hash w.hc k with
    | none =>
      simp only [ag_makeHash_none hh, rf_bind_panic]
      exact .unwound "hash" _ (.inr ⟨rfl, rfl⟩) rfl rfl (by simp [ep_rawHashCalls])
    | some hv =>
      simp only [ag_makeHash_some hh, rf_bind_ok]
      have := key hv { w with hc := w.hc + 1 } rfl rfl (by simp [ep_rawHashCalls, hm])
      rw [hm] at this
      exact this
  · simp only [hm, if_false, rf_pure, rf_bind_ok]
    exact key ph w rfl rfl (by simp [ep_rawHashCalls, hm])

/-! ## 1. the four functions, every environment -/

theorem ep_dropElemQuiet_removed (w1 : World) (t' : Raw) (x : Elem) :
    ((({ w1 with t := t' } : World).dropElemQuiet cfg x).t = t') ∧
    ((({ w1 with t := t' } : World).dropElemQuiet cfg x).log = dropEvs cfg [x] ++ w1.log) :=
  ⟨dropElemQuiet_t _ _, dropElemQuiet_log _ _⟩

/-- **1. `OccupiedEntry::replace_entry_with` / `Entry::and_replace_entry_with` whose closure panics.**
    Never a fault or abort. Vacant (`.ok (false, _)`): table unchanged, the unused entry's key object
    dropped (logged once). Unwinding with a look-up class (`"hash"`, `"eq"`, or `"drop"` = the probe
    key's own destructor): table unchanged, the probe key logged once. Unwinding with `"pred"` (the
    closure): the table is valid, has exactly one element less — an element `x` the user's `Eq`
    answered `true` for — and the log gained exactly the drop of `x`'s value and key object (once
    each, by the unwinding) on top of the probe key dropped by `entry()`. -/
theorem entryReplacePanic_spec (hc : CfgOk cfg) (env : Env) (k kid : Nat) (w : World)
    (h : TInv cfg w.t) :
    match Map.entryReplacePanic cfg env k kid w with
    | .ok (b, w') => b = false ∧ w'.t = w.t ∧ w'.log = keyDropEv cfg kid ++ w.log
    | .panic c w' =>
      ((c = "hash" ∨ c = "eq" ∨ c = "drop") ∧ w'.t = w.t ∧ w'.log = keyDropEv cfg kid ++ w.log) ∨
      (c = "pred" ∧ TInv cfg w'.t ∧ w'.t.items + 1 = w.t.items ∧
        ∃ x, (∃ c', env.eq c' k x = some true) ∧ (x :: w'.t.elems).Perm w.t.elems ∧
          w'.log = dropEvs cfg [x] ++ (keyDropEv cfg kid ++ w.log))
    | .abort => False
    | .fault _ => False := by
  have hL := ep_entryLook hc env k kid w h.1
  unfold Map.entryReplacePanic
  generalize Map.entryLook cfg env k kid w = r at hL
  cases hL with
  | occupied hv idx e c w1 a1 a2 a3 a4 =>
    obtain ⟨t', hr, hT', hit, hp⟩ := en_removeAt_TInv hc h a3
    simp only [Res.bind, a1, hr]
    obtain ⟨q1, q2⟩ := ep_dropElemQuiet_removed (cfg := cfg) w1 t' e
    refine .inr ⟨trivial, by rw [q1]; exact hT', by rw [q1]; exact hit, e, ⟨c, a4⟩, by rw [q1]; exact hp, ?_⟩
    rw [q2, a2]
  | vacant hv w1 a1 a2 =>
    simp only [Res.bind]
    rcases ag_dropKeyR (cfg := cfg) env kid w1 with ⟨w3, d1, d2, d3⟩ | ⟨w3, d1, d2, d3⟩
    · rw [d1]
      exact ⟨rfl, by rw [d2, a1], by rw [d3, a2]; rfl⟩
    · rw [d1]
      exact .inl ⟨.inr (.inr rfl), by rw [d2, a1], by rw [d3, a2]; rfl⟩
  | unwound c w1 a0 a1 a2 =>
    simp only [Res.bind]
    exact .inl ⟨a0, a1, a2⟩

/-- Corollary for lawful `Hash` / `Eq`: the element removed (and dropped) by the unwinding closure is
    stored under the probed key. -/
theorem entryReplacePanic_lawful (hc : CfgOk cfg) {env : Env} {H : Nat → Nat} (hl : Lawful env H)
    (k kid : Nat) (w : World) (h : TInv cfg w.t) {w' : World}
    (hr : Map.entryReplacePanic cfg env k kid w = .panic "pred" w') :
    TInv cfg w'.t ∧ w'.t.items + 1 = w.t.items ∧
      ∃ x, x.k = k ∧ (x :: w'.t.elems).Perm w.t.elems ∧
        w'.log = dropEvs cfg [x] ++ (keyDropEv cfg kid ++ w.log) := by
  have hs := entryReplacePanic_spec hc env k kid w h
  rw [hr] at hs
  rcases hs with ⟨hcl, _⟩ | ⟨_, b1, b2, x, ⟨c', b3⟩, b4, b5⟩
  · rcases hcl with hcl | hcl | hcl <;> exact absurd hcl (by decide)
  · exact ⟨b1, b2, x, hl.eq_true b3, b4, b5⟩

/-- **2. `RawOccupiedEntryMut::replace_entry_with` / `RawEntryMut::and_replace_entry_with` whose closure
    panics**, for the three builders and ANY caller-supplied hash `ph`. A raw entry owns no key
    object: nothing but the removed pair is ever logged. `"hash"` can only be observed with
    `from_key`; the other two builders never call `Hash` (`hc` unchanged). -/
theorem rawReplacePanic_spec (hc : CfgOk cfg) (env : Env) (mode : Map.RawMode) (ph k : Nat) (w : World)
    (h : TInv cfg w.t) :
    match Map.rawReplacePanic cfg env mode ph k w with
    | .ok (b, w') => b = false ∧ w'.t = w.t ∧ w'.log = w.log ∧ w'.hc = w.hc + ep_rawHashCalls mode
    | .panic c w' =>
      ((c = "eq" ∨ (c = "hash" ∧ mode = .fromKey)) ∧ w'.t = w.t ∧ w'.log = w.log ∧
        w'.hc = w.hc + ep_rawHashCalls mode) ∨
      (c = "pred" ∧ TInv cfg w'.t ∧ w'.t.items + 1 = w.t.items ∧
        w'.hc = w.hc + ep_rawHashCalls mode ∧
        ∃ x, (∃ c', env.eq c' k x = some true) ∧ (x :: w'.t.elems).Perm w.t.elems ∧
          w'.log = dropEvs cfg [x] ++ w.log)
    | .abort => False
    | .fault _ => False := by
  have hL := ep_rawLook hc env mode ph k w h.1
  unfold Map.rawReplacePanic
  generalize Map.rawLook cfg env mode ph k w = r at hL
  cases hL with
  | occupied idx e c w1 a1 a2 ah a3 a4 =>
    obtain ⟨t', hr, hT', hit, hp⟩ := en_removeAt_TInv hc h a3
    simp only [Res.bind, a1, hr]
    obtain ⟨q1, q2⟩ := ep_dropElemQuiet_removed (cfg := cfg) w1 t' e
    refine .inr ⟨trivial, by rw [q1]; exact hT', by rw [q1]; exact hit, ?_, e, ⟨c, a4⟩,
      by rw [q1]; exact hp, by rw [q2, a2]⟩
    rw [← ah]
    unfold World.dropElemQuiet
    split <;> rfl
  | vacant w1 a1 a2 ah =>
    simp only [Res.bind]
    exact ⟨trivial, a1, a2, ah⟩
  | unwound c w1 a0 a1 a2 ah =>
    simp only [Res.bind]
    exact .inl ⟨a0, a1, a2, ah⟩

theorem rawReplacePanic_lawful (hc : CfgOk cfg) {env : Env} {H : Nat → Nat} (hl : Lawful env H)
    (mode : Map.RawMode) (ph k : Nat) (w : World) (h : TInv cfg w.t) {w' : World}
    (hr : Map.rawReplacePanic cfg env mode ph k w = .panic "pred" w') :
    TInv cfg w'.t ∧ w'.t.items + 1 = w.t.items ∧
      ∃ x, x.k = k ∧ (x :: w'.t.elems).Perm w.t.elems ∧ w'.log = dropEvs cfg [x] ++ w.log := by
  have hs := rawReplacePanic_spec hc env mode ph k w h
  rw [hr] at hs
  rcases hs with ⟨hcl, _⟩ | ⟨_, b1, b2, _, x, ⟨c', b3⟩, b4, b5⟩
  · rcases hcl with hcl | ⟨hcl, _⟩ <;> exact absurd hcl (by decide)
  · exact ⟨b1, b2, x, hl.eq_true b3, b4, b5⟩

/-- **3. `Entry::or_insert_with` whose closure panics.** Never a fault or abort. `.ok (true, _)` — the
    entry was occupied (an element the user's `Eq` answered `true` for is stored), the closure is not
    called, the table is unchanged, `entry()` has dropped the key object passed in. Every unwinding —
    `"pred"` (vacant entry, the closure ran), `"hash"` / `"eq"` / `"drop"` (look-up) — leaves the table
    literally unchanged (nothing was inserted, and no growth either: `entry()` does not reserve) and
    has logged the drop of the key object exactly once. -/
theorem entryOrInsertWithPanic_spec (hc : CfgOk cfg) (env : Env) (k kid : Nat) (w : World)
    (h : TInv cfg w.t) :
    match Map.entryOrInsertWithPanic cfg env k kid w with
    | .ok (b, w') => b = true ∧ w'.t = w.t ∧ w'.log = keyDropEv cfg kid ++ w.log ∧
        ∃ x ∈ w.t.elems, ∃ c', env.eq c' k x = some true
    | .panic c w' => (c = "pred" ∨ c = "hash" ∨ c = "eq" ∨ c = "drop") ∧ w'.t = w.t ∧
        w'.log = keyDropEv cfg kid ++ w.log
    | .abort => False
    | .fault _ => False := by
  have hL := ep_entryLook hc env k kid w h.1
  unfold Map.entryOrInsertWithPanic
  generalize Map.entryLook cfg env k kid w = r at hL
  cases hL with
  | occupied hv idx e c w1 a1 a2 a3 a4 =>
    simp only [Res.bind]
    exact ⟨trivial, a1, a2, e, mem_elems.mpr ⟨idx, a3⟩, c, a4⟩
  | vacant hv w1 a1 a2 =>
    simp only [Res.bind]
    exact ⟨.inl trivial, by rw [en_dropKeyQuiet_t, a1], by rw [en_dropKeyQuiet_log, a2]⟩
  | unwound c w1 a0 a1 a2 =>
    simp only [Res.bind]
    exact ⟨.inr a0, a1, a2⟩

/-- **4. `Entry::and_modify` whose closure panics.** Never a fault or abort. `"pred"` is observed only
    if the key was found (an element the user's `Eq` answered `true` for is stored); the table is as it
    was and the key object passed to `entry()` had already been dropped by `entry()` itself (logged
    once). `.ok (false, _)`: vacant, the closure is not called, table unchanged, the unused entry's key
    dropped. Look-up unwinding: as before. -/
theorem entryAndModifyPanic_spec (hc : CfgOk cfg) (env : Env) (k kid : Nat) (w : World)
    (h : TInv cfg w.t) :
    match Map.entryAndModifyPanic cfg env k kid w with
    | .ok (b, w') => b = false ∧ w'.t = w.t ∧ w'.log = keyDropEv cfg kid ++ w.log
    | .panic c w' =>
      (c = "pred" ∨ c = "hash" ∨ c = "eq" ∨ c = "drop") ∧ w'.t = w.t ∧
        w'.log = keyDropEv cfg kid ++ w.log ∧
        (c = "pred" → ∃ x ∈ w.t.elems, ∃ c', env.eq c' k x = some true)
    | .abort => False
    | .fault _ => False := by
  have hL := ep_entryLook hc env k kid w h.1
  unfold Map.entryAndModifyPanic
  generalize Map.entryLook cfg env k kid w = r at hL
  cases hL with
  | occupied hv idx e c w1 a1 a2 a3 a4 =>
    simp only [Res.bind]
    exact ⟨.inl trivial, a1, a2, fun _ => ⟨e, mem_elems.mpr ⟨idx, a3⟩, c, a4⟩⟩
  | vacant hv w1 a1 a2 =>
    simp only [Res.bind]
    rcases ag_dropKeyR (cfg := cfg) env kid w1 with ⟨w3, d1, d2, d3⟩ | ⟨w3, d1, d2, d3⟩
    · rw [d1]
      exact ⟨rfl, by rw [d2, a1], by rw [d3, a2]; rfl⟩
    · rw [d1]
      exact ⟨.inr (.inr (.inr rfl)), by rw [d2, a1], by rw [d3, a2]; rfl, fun hcl => absurd hcl (by decide)⟩
  | unwound c w1 a0 a1 a2 =>
    simp only [Res.bind]
    refine ⟨.inr a0, a1, a2, fun hcl => ?_⟩
    subst hcl
    rcases a0 with a0 | a0 | a0 <;> exact absurd a0 (by decide)

/-! ## 2. lawful `Hash` / `Eq`: the closure runs exactly when the key is present -/

theorem ep_RI_TInv {H : Nat → Nat} {t : Raw} (h : RI cfg H t) : TInv cfg t := ⟨h.1.toInv, h.2⟩

/-- `map.entry(K(k, kid))` under a lawful hasher, destructors may still panic: Occupied ⇔ present. -/
theorem ep_entryLook_lawful (hc : CfgOk cfg) {env : Env} {H : Nat → Nat} (hl : Lawful env H)
    (k kid : Nat) (w : World) (h : InvL cfg H w.t) :
    match AL.find w.t.elems k with
    | some e => e.k = k ∧ ∃ idx, w.t.slots[idx]?.join = some e ∧
        ((∃ w1, Map.entryLook cfg env k kid w = .ok ((H k, some idx), w1) ∧ w1.t = w.t ∧
            w1.log = keyDropEv cfg kid ++ w.log) ∨
         (∃ w1, Map.entryLook cfg env k kid w = .panic "drop" w1 ∧ w1.t = w.t ∧
            w1.log = keyDropEv cfg kid ++ w.log))
    | none => ∃ w1, Map.entryLook cfg env k kid w = .ok ((H k, none), w1) ∧ w1.t = w.t ∧
        w1.log = w.log := by
  obtain ⟨r, w2, hs, ht, hlog, hor⟩ := en_search_spec hc hl k w h
  rw [en_entryLook_eq, hs]
  rcases hor with ⟨idx, e, rfl, he, hk, hfind⟩ | ⟨rfl, hfind⟩
  · rw [hfind]
    refine ⟨hk, idx, he, ?_⟩
    simp only [Res.onPanic, Res.bind]
    rcases ag_dropKeyR (cfg := cfg) env kid w2 with ⟨w3, d1, d2, d3⟩ | ⟨w3, d1, d2, d3⟩
    · exact .inl ⟨w3, by rw [d1], by rw [d2, ht], by rw [d3, hlog]; rfl⟩
    · exact .inr ⟨w3, by rw [d1], by rw [d2, ht], by rw [d3, hlog]; rfl⟩
  · rw [hfind]
    exact ⟨w2, rfl, ht, hlog⟩

/-- **`replace_entry_with` / `and_replace_entry_with` with a panicking closure, lawful hasher.**
    Present key: the closure runs and unwinds (`"pred"`) — the stored pair `x` of that key is out of
    the map (`AL.erase`), dropped exactly once, the table still satisfies the full lawful invariant —
    unless the destructor of the probe key object panicked first (`"drop"`, table unchanged).
    Absent key: the closure is not called, the unused entry is dropped. -/
theorem entryReplacePanic_lawful_spec (hc : CfgOk cfg) {env : Env} {H : Nat → Nat} (hl : Lawful env H)
    (k kid : Nat) (w : World) (h : RI cfg H w.t) :
    match AL.find w.t.elems k with
    | some x =>
      (∃ w', Map.entryReplacePanic cfg env k kid w = .panic "pred" w' ∧ RI cfg H w'.t ∧
        List.Perm w'.t.elems (AL.erase w.t.elems k) ∧ w'.t.items + 1 = w.t.items ∧
        w'.log = dropEvs cfg [x] ++ (keyDropEv cfg kid ++ w.log)) ∨
      (∃ w', Map.entryReplacePanic cfg env k kid w = .panic "drop" w' ∧ w'.t = w.t ∧
        w'.log = keyDropEv cfg kid ++ w.log)
    | none =>
      (∃ w', Map.entryReplacePanic cfg env k kid w = .ok (false, w') ∧ w'.t = w.t ∧
        w'.log = keyDropEv cfg kid ++ w.log) ∨
      (∃ w', Map.entryReplacePanic cfg env k kid w = .panic "drop" w' ∧ w'.t = w.t ∧
        w'.log = keyDropEv cfg kid ++ w.log) := by
  have hL := ep_entryLook_lawful hc hl k kid w h.1
  unfold Map.entryReplacePanic
  cases hf : AL.find w.t.elems k with
  | some x =>
    rw [hf] at hL
    obtain ⟨hk, idx, he, ⟨w1, e1, e2, e3⟩ | ⟨w1, e1, e2, e3⟩⟩ := hL
    · obtain ⟨t', hr, hRI, hp, hit⟩ := en_removeAt_RI hc h he
      obtain ⟨q1, q2⟩ := ep_dropElemQuiet_removed (cfg := cfg) w1 t' x
      refine .inl ⟨({ w1 with t := t' } : World).dropElemQuiet cfg x,
        by simp only [e1, Res.bind, e2, hr], by rw [q1]; exact hRI,
        by rw [q1, ← hk]; exact hp, by rw [q1]; exact hit, by rw [q2, e3]⟩
    · exact .inr ⟨w1, by simp only [e1, Res.bind], e2, e3⟩
  | none =>
    rw [hf] at hL
    obtain ⟨w1, e1, e2, e3⟩ := hL
    rcases ag_dropKeyR (cfg := cfg) env kid w1 with ⟨w3, d1, d2, d3⟩ | ⟨w3, d1, d2, d3⟩
    · exact .inl ⟨w3, by simp only [e1, Res.bind, d1], by rw [d2, e2], by rw [d3, e3]; rfl⟩
    · exact .inr ⟨w3, by simp only [e1, Res.bind, d1], by rw [d2, e2], by rw [d3, e3]; rfl⟩

/-- **The same through `raw_entry_mut()`**, the caller-supplied hash being the key's hash for the two
    `…hash…` builders (their documented contract): present ⇒ `"pred"` with the pair removed and
    dropped once; absent ⇒ `.ok (false, _)`, nothing logged. No other outcome. -/
theorem rawReplacePanic_lawful_spec (hc : CfgOk cfg) {env : Env} {H : Nat → Nat} (hl : Lawful env H)
    (mode : Map.RawMode) (ph k : Nat) (hph : mode = .fromKey ∨ ph = H k) (w : World)
    (h : RI cfg H w.t) :
    match AL.find w.t.elems k with
    | some x =>
      ∃ w', Map.rawReplacePanic cfg env mode ph k w = .panic "pred" w' ∧ RI cfg H w'.t ∧
        List.Perm w'.t.elems (AL.erase w.t.elems k) ∧ w'.t.items + 1 = w.t.items ∧
        w'.log = dropEvs cfg [x] ++ w.log
    | none => ∃ w', Map.rawReplacePanic cfg env mode ph k w = .ok (false, w') ∧ w'.t = w.t ∧
        w'.log = w.log := by
  have hL := rawLook_spec hc hl mode ph k hph w h.1
  unfold Map.rawReplacePanic
  cases hf : AL.find w.t.elems k with
  | some x =>
    rw [hf] at hL
    obtain ⟨idx, w1, e1, e2, he, hk, e3⟩ := hL
    obtain ⟨t', hr, hRI, hp, hit⟩ := en_removeAt_RI hc h he
    obtain ⟨q1, q2⟩ := ep_dropElemQuiet_removed (cfg := cfg) w1 t' x
    exact ⟨({ w1 with t := t' } : World).dropElemQuiet cfg x,
      by simp only [e1, Res.bind, e2, hr], by rw [q1]; exact hRI,
      by rw [q1, ← hk]; exact hp, by rw [q1]; exact hit, by rw [q2, e3]⟩
  | none =>
    rw [hf] at hL
    obtain ⟨w1, e1, e2, e3⟩ := hL
    exact ⟨w1, by simp only [e1, Res.bind], e2, e3⟩

/-- **`or_insert_with` with a panicking closure, lawful hasher.** Absent key: the closure runs and
    unwinds, nothing is inserted, the key object is dropped once. Present key: the closure is not
    called (or the probe key's destructor panics). The table is unchanged in every case. -/
theorem entryOrInsertWithPanic_lawful_spec (hc : CfgOk cfg) {env : Env} {H : Nat → Nat}
    (hl : Lawful env H) (k kid : Nat) (w : World) (h : InvL cfg H w.t) :
    match AL.find w.t.elems k with
    | some _ =>
      ∃ w', (Map.entryOrInsertWithPanic cfg env k kid w = .ok (true, w') ∨
          Map.entryOrInsertWithPanic cfg env k kid w = .panic "drop" w') ∧ w'.t = w.t ∧
        w'.log = keyDropEv cfg kid ++ w.log
    | none => ∃ w', Map.entryOrInsertWithPanic cfg env k kid w = .panic "pred" w' ∧ w'.t = w.t ∧
        w'.log = keyDropEv cfg kid ++ w.log := by
  have hL := ep_entryLook_lawful hc hl k kid w h
  unfold Map.entryOrInsertWithPanic
  cases hf : AL.find w.t.elems k with
  | some x =>
    rw [hf] at hL
    obtain ⟨_, idx, _, ⟨w1, e1, e2, e3⟩ | ⟨w1, e1, e2, e3⟩⟩ := hL
    · exact ⟨w1, .inl (by simp only [e1, Res.bind]), e2, e3⟩
    · exact ⟨w1, .inr (by simp only [e1, Res.bind]), e2, e3⟩
  | none =>
    rw [hf] at hL
    obtain ⟨w1, e1, e2, e3⟩ := hL
    exact ⟨w1.dropKeyQuiet cfg kid, by simp only [e1, Res.bind], by rw [en_dropKeyQuiet_t, e2],
      by rw [en_dropKeyQuiet_log, e3]⟩

/-- **`and_modify` with a panicking closure, lawful hasher.** Present key: the closure runs and
    unwinds (`"pred"`; or `"drop"` if the probe key's destructor panicked first). Absent key: the
    closure is not called. The table is unchanged in every case, the key object dropped once. -/
theorem entryAndModifyPanic_lawful_spec (hc : CfgOk cfg) {env : Env} {H : Nat → Nat}
    (hl : Lawful env H) (k kid : Nat) (w : World) (h : InvL cfg H w.t) :
    match AL.find w.t.elems k with
    | some _ =>
      ∃ w', (Map.entryAndModifyPanic cfg env k kid w = .panic "pred" w' ∨
          Map.entryAndModifyPanic cfg env k kid w = .panic "drop" w') ∧ w'.t = w.t ∧
        w'.log = keyDropEv cfg kid ++ w.log
    | none =>
      ∃ w', (Map.entryAndModifyPanic cfg env k kid w = .ok (false, w') ∨
          Map.entryAndModifyPanic cfg env k kid w = .panic "drop" w') ∧ w'.t = w.t ∧
        w'.log = keyDropEv cfg kid ++ w.log := by
  have hL := ep_entryLook_lawful hc hl k kid w h
  unfold Map.entryAndModifyPanic
  cases hf : AL.find w.t.elems k with
  | some x =>
    rw [hf] at hL
    obtain ⟨_, idx, _, ⟨w1, e1, e2, e3⟩ | ⟨w1, e1, e2, e3⟩⟩ := hL
    · exact ⟨w1, .inl (by simp only [e1, Res.bind]), e2, e3⟩
    · exact ⟨w1, .inr (by simp only [e1, Res.bind]), e2, e3⟩
  | none =>
    rw [hf] at hL
    obtain ⟨w1, e1, e2, e3⟩ := hL
    rcases ag_dropKeyR (cfg := cfg) env kid w1 with ⟨w3, d1, d2, d3⟩ | ⟨w3, d1, d2, d3⟩
    · exact ⟨w3, .inl (by simp only [e1, Res.bind, d1]), by rw [d2, e2], by rw [d3, e3]; rfl⟩
    · exact ⟨w3, .inr (by simp only [e1, Res.bind, d1]), by rw [d2, e2], by rw [d3, e3]; rfl⟩

/-! ## 3. summary: effect, further histories, ledger -/

/-- The four closure-panic protocol operations (`entry_replace_panic` / `entry_and_replace_panic`,
    `raw_replace_panic`, `entry_or_insert_with_panic`, `entry_and_modify_panic`). -/
inductive EPanicOp where
  | entryReplace (k kid : Nat)
  | rawReplace (mode : Map.RawMode) (ph k : Nat)
  | orInsertWith (k kid : Nat)
  | andModify (k kid : Nat)

def EPanicOp.run (cfg : Cfg) (env : Env) : EPanicOp → World → Res (Bool × World)
  | .entryReplace k kid, w => Map.entryReplacePanic cfg env k kid w
  | .rawReplace mode ph k, w => Map.rawReplacePanic cfg env mode ph k w
  | .orInsertWith k kid, w => Map.entryOrInsertWithPanic cfg env k kid w
  | .andModify k kid, w => Map.entryAndModifyPanic cfg env k kid w

/-- Key objects the caller hands to the call (the argument of `entry()`; a raw entry owns none). -/
def EPanicOp.probe : EPanicOp → List Nat
  | .entryReplace _ kid => [kid]
  | .rawReplace _ _ _ => []
  | .orInsertWith _ kid => [kid]
  | .andModify _ kid => [kid]

def keyDropEvs (cfg : Cfg) (l : List Nat) : List Ev := l.flatMap (keyDropEv cfg)

theorem ep_keyDropEvs_one (kid : Nat) : keyDropEvs cfg [kid] = keyDropEv cfg kid := by
  simp [keyDropEvs]

/-- What every outcome (return or unwinding) of the four operations looks like: a valid table that
    lost at most one element; the log gained exactly the destructor events of that element (value
    and key, once each) and of the key objects handed in (once each). -/
structure ep_Eff (cfg : Cfg) (probe : List Nat) (w w' : World) : Prop where
  inv : TInv cfg w'.t
  gone : ∃ ds : List Elem, ds.length ≤ 1 ∧ (ds ++ w'.t.elems).Perm w.t.elems ∧
    w'.t.items + ds.length = w.t.items ∧
    w'.log = dropEvs cfg ds ++ (keyDropEvs cfg probe ++ w.log)

theorem ep_Eff.same {probe : List Nat} {w w' : World} (h : TInv cfg w.t) (ht : w'.t = w.t)
    (hl : w'.log = keyDropEvs cfg probe ++ w.log) : ep_Eff cfg probe w w' :=
  ⟨by rw [ht]; exact h, [], by simp, by rw [ht]; simp, by rw [ht]; rfl,
    by rw [hl, dropEvs_nil]; rfl⟩

theorem ep_Eff.removed {probe : List Nat} {w w' : World} {x : Elem} (h' : TInv cfg w'.t)
    (hit : w'.t.items + 1 = w.t.items) (hp : (x :: w'.t.elems).Perm w.t.elems)
    (hl : w'.log = dropEvs cfg [x] ++ (keyDropEvs cfg probe ++ w.log)) : ep_Eff cfg probe w w' :=
  ⟨h', [x], by simp, hp, hit, hl⟩

/-- **Every outcome of every one of the four operations**, for every environment. -/
theorem closure_panic_effect (hc : CfgOk cfg) (env : Env) (op : EPanicOp) (w : World)
    (h : TInv cfg w.t) :
    match op.run cfg env w with
    | .ok (_, w') => ep_Eff cfg op.probe w w'
    | .panic _ w' => ep_Eff cfg op.probe w w'
    | .abort => False
    | .fault _ => False := by
  cases op with
  | entryReplace k kid =>
    have hs := entryReplacePanic_spec hc env k kid w h
    show match Map.entryReplacePanic cfg env k kid w with
      | .ok (_, w') => ep_Eff cfg [kid] w w'
      | .panic _ w' => ep_Eff cfg [kid] w w'
      | .abort => False
      | .fault _ => False
    generalize Map.entryReplacePanic cfg env k kid w = r at hs
    match r, hs with
    | .ok (_, w'), ⟨_, a1, a2⟩ => exact .same h a1 (by rw [ep_keyDropEvs_one]; exact a2)
    | .panic _ w', .inl ⟨_, a1, a2⟩ => exact .same h a1 (by rw [ep_keyDropEvs_one]; exact a2)
    | .panic _ w', .inr ⟨_, a1, a2, x, _, a3, a4⟩ =>
      exact .removed a1 a2 a3 (by rw [ep_keyDropEvs_one]; exact a4)
    | .abort, hs => exact hs
    | .fault _, hs => exact hs
  | rawReplace mode ph k =>
    have hs := rawReplacePanic_spec hc env mode ph k w h
    show match Map.rawReplacePanic cfg env mode ph k w with
      | .ok (_, w') => ep_Eff cfg [] w w'
      | .panic _ w' => ep_Eff cfg [] w w'
      | .abort => False
      | .fault _ => False
    generalize Map.rawReplacePanic cfg env mode ph k w = r at hs
    match r, hs with
    | .ok (_, w'), ⟨_, a1, a2, _⟩ => exact .same h a1 a2
    | .panic _ w', .inl ⟨_, a1, a2, _⟩ => exact .same h a1 a2
    | .panic _ w', .inr ⟨_, a1, a2, _, x, _, a3, a4⟩ => exact .removed a1 a2 a3 a4
    | .abort, hs => exact hs
    | .fault _, hs => exact hs
  | orInsertWith k kid =>
    have hs := entryOrInsertWithPanic_spec hc env k kid w h
    show match Map.entryOrInsertWithPanic cfg env k kid w with
      | .ok (_, w') => ep_Eff cfg [kid] w w'
      | .panic _ w' => ep_Eff cfg [kid] w w'
      | .abort => False
      | .fault _ => False
    generalize Map.entryOrInsertWithPanic cfg env k kid w = r at hs
    match r, hs with
    | .ok (_, w'), ⟨_, a1, a2, _⟩ => exact .same h a1 (by rw [ep_keyDropEvs_one]; exact a2)
    | .panic _ w', ⟨_, a1, a2⟩ => exact .same h a1 (by rw [ep_keyDropEvs_one]; exact a2)
    | .abort, hs => exact hs
    | .fault _, hs => exact hs
  | andModify k kid =>
    have hs := entryAndModifyPanic_spec hc env k kid w h
    show match Map.entryAndModifyPanic cfg env k kid w with
      | .ok (_, w') => ep_Eff cfg [kid] w w'
      | .panic _ w' => ep_Eff cfg [kid] w w'
      | .abort => False
      | .fault _ => False
    generalize Map.entryAndModifyPanic cfg env k kid w = r at hs
    match r, hs with
    | .ok (_, w'), ⟨_, a1, a2⟩ => exact .same h a1 (by rw [ep_keyDropEvs_one]; exact a2)
    | .panic _ w', ⟨_, a1, a2, _⟩ => exact .same h a1 (by rw [ep_keyDropEvs_one]; exact a2)
    | .abort, hs => exact hs
    | .fault _, hs => exact hs

/-- **5. After a closure panic (or any other outcome) of the four operations the collection is a
    valid collection whose `len()` is the number of stored elements, and ANY further history of
    `MapOpX` calls, against ANY environment, never faults** (`Forget.Usable`: `runXFaults = false`,
    `TInv` and `items = elems.length` after every call, the run is cut short only by
    `handle_alloc_error`). -/
theorem closure_panic_then_any_history_safe (hc : CfgOk cfg) (hg : GuardRuns cfg) (env : Env)
    (op : EPanicOp) (w : World) (h : TInv cfg w.t) :
    match op.run cfg env w with
    | .ok (_, w') => Forget.Usable cfg w'
    | .panic _ w' => Forget.Usable cfg w'
    | .abort => False
    | .fault _ => False := by
  have hs := closure_panic_effect hc env op w h
  generalize op.run cfg env w = r at hs
  match r, hs with
  | .ok (_, w'), hs => exact fg_usable hc hg hs.inv
  | .panic _ w', hs => exact fg_usable hc hg hs.inv
  | .abort, hs => exact hs
  | .fault _, hs => exact hs

/-! ### ledger of identities -/

theorem ep_dropped_keyDropEvs (hnd : cfg.needsDrop = true) (l : List Nat) :
    droppedK (keyDropEvs cfg l) = l ∧ droppedV (keyDropEvs cfg l) = [] := by
  induction l with
  | nil => exact ⟨rfl, rfl⟩
  | cons a r ih =>
    have h1 : keyDropEvs cfg (a :: r) = Ev.dropK a :: keyDropEvs cfg r := by
      simp [keyDropEvs, keyDropEv, hnd]
    rw [h1]
    exact ⟨by rw [droppedK, ih.1], by rw [droppedV, ih.2]⟩

theorem ep_keyDropEvs_noglue (hnd : cfg.needsDrop = false) (l : List Nat) : keyDropEvs cfg l = [] := by
  induction l with
  | nil => rfl
  | cons a r ih =>
    have : keyDropEvs cfg (a :: r) = keyDropEv cfg a ++ keyDropEvs cfg r := by simp [keyDropEvs]
    rw [this, ih]
    simp [keyDropEv, hnd]

theorem ep_dropOnly_keyDropEvs (l : List Nat) : hs_DropOnly (keyDropEvs cfg l) := by
  intro ev hev
  simp only [keyDropEvs, List.mem_flatMap] at hev
  obtain ⟨a, _, ha⟩ := hev
  unfold keyDropEv at ha
  split at ha
  · simp only [List.mem_singleton] at ha
    exact ⟨a, .inl ha⟩
  · simp at ha

/-- Element types without drop glue: nothing is logged at all. -/
theorem ep_Eff.noglue {probe : List Nat} {w w' : World} (h : ep_Eff cfg probe w w')
    (hnd : cfg.needsDrop = false) : w'.log = w.log := by
  obtain ⟨ds, _, _, _, hl⟩ := h.gone
  rw [hl, ep_keyDropEvs_noglue hnd]
  simp [dropEvs, hnd]

/-- The exact ledger of an outcome: the log gained `new`, only destructor events; the key objects
    still stored together with those dropped are EXACTLY (as a multiset) those stored before plus the
    ones handed in; the same for value objects (none handed in). -/
def ep_Ledger (probe : List Nat) (w w' : World) : Prop :=
  ∃ new, w'.log = new ++ w.log ∧ hs_DropOnly new ∧
    (kidsOf w'.t.elems ++ droppedK new).Perm (probe ++ kidsOf w.t.elems) ∧
    (vidsOf w'.t.elems ++ droppedV new).Perm (vidsOf w.t.elems)

theorem ep_Eff.ledger {probe : List Nat} {w w' : World} (h : ep_Eff cfg probe w w')
    (hnd : cfg.needsDrop = true) : ep_Ledger probe w w' := by
  obtain ⟨ds, _, hp, _, hl⟩ := h.gone
  refine ⟨dropEvs cfg ds ++ keyDropEvs cfg probe, by rw [hl, List.append_assoc], ?_, ?_, ?_⟩
  · intro ev hev
    rcases List.mem_append.mp hev with hev | hev
    · exact hs_dropOnly_dropEvs ds ev hev
    · exact ep_dropOnly_keyDropEvs probe ev hev
  · rw [hs_droppedK_append, (hs_dropped_dropEvs hnd ds).1, (ep_dropped_keyDropEvs hnd probe).1]
    have hk : (kidsOf ds ++ kidsOf w'.t.elems).Perm (kidsOf w.t.elems) := by
      rw [kidsOf, kidsOf, kidsOf, ← List.map_append]; exact hp.map _
    rw [← List.append_assoc]
    refine List.perm_append_comm.trans (List.Perm.append_left probe ?_)
    exact List.perm_append_comm.trans hk
  · rw [hs_droppedV_append, (hs_dropped_dropEvs hnd ds).2, (ep_dropped_keyDropEvs hnd probe).2,
      List.append_nil]
    have hv : (vidsOf ds ++ vidsOf w'.t.elems).Perm (vidsOf w.t.elems) := by
      rw [vidsOf, vidsOf, vidsOf, ← List.map_append]; exact hp.map _
    exact List.perm_append_comm.trans hv

/-- **6a. Ledger of every outcome** ("every element that was in it is either still present or has been
    dropped exactly once"), element types with drop glue. -/
theorem closure_panic_ledger (hc : CfgOk cfg) (env : Env) (op : EPanicOp) (w : World)
    (h : TInv cfg w.t) (hnd : cfg.needsDrop = true) :
    match op.run cfg env w with
    | .ok (_, w') => ep_Ledger op.probe w w'
    | .panic _ w' => ep_Ledger op.probe w w'
    | .abort => False
    | .fault _ => False := by
  have hs := closure_panic_effect hc env op w h
  generalize op.run cfg env w = r at hs
  match r, hs with
  | .ok (_, w'), hs => exact hs.ledger hnd
  | .panic _ w', hs => exact hs.ledger hnd
  | .abort, hs => exact hs
  | .fault _, hs => exact hs

/-- No object is dropped twice and nothing dropped is still stored. -/
def ep_NoDoubleDrop (w w' : World) : Prop :=
  ∃ new, w'.log = new ++ w.log ∧
    (droppedK new).Nodup ∧ (droppedV new).Nodup ∧
    (∀ i ∈ droppedK new, i ∉ kidsOf w'.t.elems) ∧ (∀ i ∈ droppedV new, i ∉ vidsOf w'.t.elems) ∧
    (kidsOf w'.t.elems).Nodup ∧ (vidsOf w'.t.elems).Nodup

theorem ep_Ledger.noDoubleDrop {probe : List Nat} {w w' : World} (h : ep_Ledger probe w w')
    (hK : (probe ++ kidsOf w.t.elems).Nodup) (hV : (vidsOf w.t.elems).Nodup) :
    ep_NoDoubleDrop w w' := by
  obtain ⟨new, hl, _, pK, pV⟩ := h
  obtain ⟨k1, k2, k3⟩ := List.nodup_append.mp (pK.nodup_iff.mpr hK)
  obtain ⟨v1, v2, v3⟩ := List.nodup_append.mp (pV.nodup_iff.mpr hV)
  exact ⟨new, hl, k2, v2, fun i hi hm => k3 i hm i hi rfl, fun i hi hm => v3 i hm i hi rfl, k1, v1⟩

/-- **6b. No double drop.** Element types with drop glue; if the key-object identities stored before
    together with the probe key object are pairwise distinct, and so are the stored value-object
    identities, then after ANY outcome of any of the four operations: the key objects dropped by the
    call are pairwise distinct, the value objects dropped are pairwise distinct, none of them is
    still stored, and the stored identities are still pairwise distinct. -/
theorem closure_panic_no_double_drop (hc : CfgOk cfg) (env : Env) (op : EPanicOp) (w : World)
    (h : TInv cfg w.t) (hnd : cfg.needsDrop = true)
    (hK : (op.probe ++ kidsOf w.t.elems).Nodup) (hV : (vidsOf w.t.elems).Nodup) :
    match op.run cfg env w with
    | .ok (_, w') => ep_NoDoubleDrop w w'
    | .panic _ w' => ep_NoDoubleDrop w w'
    | .abort => False
    | .fault _ => False := by
  have hs := closure_panic_ledger hc env op w h hnd
  generalize op.run cfg env w = r at hs
  match r, hs with
  | .ok (_, w'), hs => exact hs.noDoubleDrop hK hV
  | .panic _ w', hs => exact hs.noDoubleDrop hK hV
  | .abort, hs => exact hs
  | .fault _, hs => exact hs

#print axioms entryReplacePanic_spec
#print axioms entryReplacePanic_lawful
#print axioms rawReplacePanic_spec
#print axioms rawReplacePanic_lawful
#print axioms entryOrInsertWithPanic_spec
#print axioms entryAndModifyPanic_spec
#print axioms entryReplacePanic_lawful_spec
#print axioms rawReplacePanic_lawful_spec
#print axioms entryOrInsertWithPanic_lawful_spec
#print axioms entryAndModifyPanic_lawful_spec
#print axioms closure_panic_effect
#print axioms closure_panic_then_any_history_safe
#print axioms closure_panic_ledger
#print axioms closure_panic_no_double_drop

end Hb
