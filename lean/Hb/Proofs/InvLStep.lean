/-
Elementary mutators preserve the hash-dependent invariant `InvL` (tags, reachability, distinct keys).

Main results
  erase_branch          which byte `erase` writes (DELETED iff `lz(before) + tz(at) ≥ W`)
  erase_keeps_windows   `remove` never changes which probe windows contain an EMPTY byte
  removeAt_invL         `remove` preserves `InvL`
  insertInSlot_invL     `insert_in_slot` at the slot found by `find_insert_slot` preserves `InvL`
  value_update_invL     replacing the value of a stored element preserves `InvL`
-/
import Hb.Proofs.InvStep
import Hb.Proofs.FindSlot
import Hb.Proofs.Probe
namespace Hb

variable {cfg : Cfg} {t : Raw}

/-! ### windows -/

theorem windowHasEmpty_true_iff {pos : Nat} :
    windowHasEmpty cfg t pos = true ↔ ∃ j, j < cfg.W ∧ t.ctrlAt (pos + j) = EMPTY := by
  simp [windowHasEmpty]

/-- For `W ≤ n` every byte a group load can touch is the byte of the bucket it wraps to. -/
theorem ctrlAt_wrap (h : Inv cfg t) (ha : t.alloc = true) (hWn : cfg.W ≤ t.buckets) {k : Nat}
    (hk : k < t.buckets + cfg.W) :
    t.ctrlAt k = t.ctrlAt (if k < t.buckets then k else k - t.buckets) := by
  split
  · rfl
  · have := (h.mirror ha).1 hWn (k - t.buckets) (by omega)
    rw [← this]; congr 1; omega

/-- A table smaller than a group: every loaded group contains EMPTY padding. -/
theorem windowHasEmpty_small (h : Inv cfg t) (ha : t.alloc = true) (hs : t.buckets < cfg.W)
    {pos : Nat} (hp : pos < t.buckets) : windowHasEmpty cfg t pos = true := by
  rw [windowHasEmpty_true_iff]
  refine ⟨t.buckets - pos, by omega, ?_⟩
  have := ((h.mirror ha).2 hs).1 t.buckets (Nat.le_refl _) hs
  rw [show pos + (t.buckets - pos) = t.buckets by omega]; exact this

/-- If every EMPTY bucket of `t'` is EMPTY in `t`, every window with an EMPTY byte in `t'` has one
    in `t`. -/
theorem windowHasEmpty_mono {t t' : Raw} (h : Inv cfg t) (h' : Inv cfg t') (ha : t.alloc = true)
    (ha' : t'.alloc = true) (hm : t'.mask = t.mask)
    (hb : ∀ k, k < t.buckets → t'.ctrlAt k = EMPTY → t.ctrlAt k = EMPTY) {pos : Nat}
    (hp : pos < t.buckets) (hw : windowHasEmpty cfg t' pos = true) :
    windowHasEmpty cfg t pos = true := by
  have hbk : t'.buckets = t.buckets := by simp only [Raw.buckets_eq, hm]
  by_cases hWn : cfg.W ≤ t.buckets
  · rw [windowHasEmpty_true_iff] at hw ⊢
    obtain ⟨j, hj, he⟩ := hw
    refine ⟨j, hj, ?_⟩
    rw [ctrlAt_wrap h' ha' (by rw [hbk]; exact hWn) (by rw [hbk]; omega), hbk] at he
    rw [ctrlAt_wrap h ha hWn (by omega)]
    exact hb _ (by split <;> omega) he
  · exact windowHasEmpty_small h ha (by omega) hp

/-! ### leading / trailing zeros: where the EMPTY byte is -/

theorem spec_tz_lt {g : List Nat} (h : Spec.emptyTrailingZeros g < g.length) :
    g.getD (Spec.emptyTrailingZeros g) 0 = EMPTY := by
  unfold Spec.emptyTrailingZeros at h ⊢
  cases hh : (Spec.matchEmpty g).head? with
  | none => rw [hh] at h; simp at h
  | some i =>
    have := List.mem_of_head? hh
    simp only [Spec.matchEmpty, Spec.lanesWhere, List.mem_filter, List.mem_range, beq_iff_eq] at this
    exact this.2

theorem spec_lz_lt {g : List Nat} (h : Spec.emptyLeadingZeros g < g.length) :
    g.getD (g.length - 1 - Spec.emptyLeadingZeros g) 0 = EMPTY := by
  unfold Spec.emptyLeadingZeros at h ⊢
  cases hh : (Spec.matchEmpty g).getLast? with
  | none => rw [hh] at h; simp at h
  | some i =>
    have := List.mem_of_getLast? hh
    simp only [Spec.matchEmpty, Spec.lanesWhere, List.mem_filter, List.mem_range, beq_iff_eq] at this
    simp only
    rw [show g.length - 1 - (g.length - 1 - i) = i by omega]
    exact this.2

/-! ### `erase`: which branch -/

/-- `erase_ok` (InvStep) with the branch condition exposed: DELETED is written iff the run of
    non-EMPTY bytes around `idx` (as seen through the two group loads) is at least a group long. -/
theorem erase_branch (hc : CfgOk cfg) (h : Inv cfg t) {idx : Nat} (hi : idx < t.buckets)
    (hf : isFull (t.ctrlAt idx) = true) :
    ∃ t' c, erase cfg t idx = .ok t' ∧ (c = EMPTY ∨ c = DELETED) ∧
      (c = DELETED ↔
        Spec.emptyLeadingZeros ((List.range cfg.W).map fun j =>
            t.ctrlAt (indexBefore cfg.bits cfg.W t.mask idx + j)) +
          Spec.emptyTrailingZeros ((List.range cfg.W).map fun j => t.ctrlAt (idx + j)) ≥ cfg.W) ∧
      t'.mask = t.mask ∧ t'.slots = t.slots ∧ t'.items + 1 = t.items ∧
      t'.gl = (if c = EMPTY then t.gl + 1 else t.gl) ∧ t'.alloc = t.alloc ∧
      t'.ctrl.size = t.ctrl.size ∧
      (∀ j, t'.ctrlAt j = if j = idx ∨ j = index2 cfg.bits cfg.W t.mask idx then c else t.ctrlAt j) := by
  have ha := h.alloc_of_full hc hi hf
  have hall := h.allocated ha
  have hsz := hall.2.2.1
  have hib := indexBefore_lt hc hall hi
  have hitems : t.items ≠ 0 := by
    have := countCtrl_pos hi isFull hf
    rw [h.items_eq]; omega
  have hl1 := loadGroup_eq (t := t) (W := cfg.W) (pos := indexBefore cfg.bits cfg.W t.mask idx)
    (by omega)
  have hl2 := loadGroup_eq (t := t) (W := cfg.W) (pos := idx) (by omega)
  have hv1 := group_valid h (pos := indexBefore cfg.bits cfg.W t.mask idx) (by omega)
  have hv2 := group_valid h (pos := idx) (by omega)
  rw [← hc.spec.lz _ hv1, ← hc.spec.tz _ hv2]
  by_cases hbr : cfg.ops.emptyLeadingZeros
        ((List.range cfg.W).map fun j => t.ctrlAt (indexBefore cfg.bits cfg.W t.mask idx + j)) +
      cfg.ops.emptyTrailingZeros ((List.range cfg.W).map fun j => t.ctrlAt (idx + j)) ≥ cfg.W
  · obtain ⟨t1, he, h1, h2, h3, h4, h5, h6, h7⟩ := setCtrl_ok hc hall hi DELETED
    refine ⟨{ t1 with items := t1.items - 1 }, DELETED, ?_, Or.inr rfl, ⟨fun _ => hbr, fun _ => rfl⟩,
      h1, h2, ?_, ?_, h5, h6, h7⟩
    · simp only [erase, hl1, hl2, hitems, if_false, hbr, if_true, he]
    · show t1.items - 1 + 1 = t.items
      rw [h3]; omega
    · show t1.gl = _
      rw [h4, if_neg (by decide)]
  · have hall0 : Raw.IsAllocated cfg { t with gl := t.gl + 1 } := hall
    obtain ⟨t1, he, h1, h2, h3, h4, h5, h6, h7⟩ := setCtrl_ok hc hall0 (i := idx) hi EMPTY
    simp only at h1 h2 h3 h4 h5 h6 h7
    refine ⟨{ t1 with items := t1.items - 1 }, EMPTY, ?_, Or.inl rfl,
      ⟨fun hcd => absurd hcd (by decide), fun hge => absurd hge hbr⟩, h1, h2, ?_, ?_, h5, h6, h7⟩
    · simp only [erase, hl1, hl2, hitems, if_false, hbr, he]
    · show t1.items - 1 + 1 = t.items
      rw [h3]; omega
    · show t1.gl = _
      rw [h4, if_pos rfl]

/-- `removeAt` with the byte written and the branch condition exposed. -/
theorem removeAt_branch (hc : CfgOk cfg) (h : Inv cfg t) {idx : Nat} (hi : idx < t.buckets)
    (hf : isFull (t.ctrlAt idx) = true) :
    ∃ e t' c, removeAt cfg t idx = .ok (e, t') ∧ (c = EMPTY ∨ c = DELETED) ∧
      (c = DELETED ↔
        Spec.emptyLeadingZeros ((List.range cfg.W).map fun j =>
            t.ctrlAt (indexBefore cfg.bits cfg.W t.mask idx + j)) +
          Spec.emptyTrailingZeros ((List.range cfg.W).map fun j => t.ctrlAt (idx + j)) ≥ cfg.W) ∧
      t'.mask = t.mask ∧
      (∀ j, t'.ctrlAt j = if j = idx ∨ j = index2 cfg.bits cfg.W t.mask idx then c else t.ctrlAt j) := by
  have ha := h.alloc_of_full hc hi hf
  have hall := h.allocated ha
  have hsz : idx < t.ctrl.size := by have := hall.2.2.1; omega
  have hssz : idx < t.slots.size := by have := hall.2.2.2.1; omega
  obtain ⟨e, hslot⟩ := (slot_of_live h hssz).2 hf
  obtain ⟨t1, c, he, hcc, hbr, h1, h2, _, _, _, _, h7⟩ := erase_branch hc h hi hf
  refine ⟨e, { t1 with slots := t1.slots.setIfInBounds idx none }, c, ?_, hcc, hbr, h1, h7⟩
  simp only [removeAt, ctrlRd_eq hsz, hf, Bool.not_true, Bool.false_eq_true, if_false, he,
    slotTake, h2, hslot]

/-! ### tombstones keep windows -/

/-- The arithmetic heart: EMPTY bytes `a` lanes after `idx` and `b + 1` lanes before it with
    `a + b < W` put an EMPTY byte into every window that covers `idx`. -/
theorem erase_window_core (h : Inv cfg t) (ha : t.alloc = true) (hWn : cfg.W ≤ t.buckets)
    {idx a b ib pos j : Nat} (hi : idx < t.buckets) (hab : a + b < cfg.W)
    (hA : t.ctrlAt (idx + a) = EMPTY)
    (hib : ib = if idx < cfg.W then t.buckets + idx - cfg.W else idx - cfg.W)
    (hB : t.ctrlAt (ib + (cfg.W - 1 - b)) = EMPTY)
    (hp : pos < t.buckets) (hj : j < cfg.W)
    (hcov : (if pos + j < t.buckets then pos + j else pos + j - t.buckets) = idx) :
    windowHasEmpty cfg t pos = true := by
  rw [windowHasEmpty_true_iff]
  rw [ctrlAt_wrap h ha hWn (by omega)] at hA
  rw [ctrlAt_wrap h ha hWn (by subst hib; split <;> omega)] at hB
  by_cases hja : j + a < cfg.W
  · refine ⟨j + a, hja, ?_⟩
    rw [ctrlAt_wrap h ha hWn (by omega)]
    rw [← hA]; congr 1
    split at hcov <;> split <;> split <;> omega
  · refine ⟨j - 1 - b, by omega, ?_⟩
    rw [ctrlAt_wrap h ha hWn (by omega)]
    rw [← hB]; congr 1
    subst hib
    split at hcov <;> split <;> split <;> split <;> omega

/-- **Tombstones keep windows.** Removing an element never changes whether a probe window
    contains an EMPTY byte: `erase` writes EMPTY only if every window covering `idx` already
    contained another EMPTY byte. -/
theorem erase_keeps_windows (hc : CfgOk cfg) (h : Inv cfg t) {idx : Nat} (hi : idx < t.buckets)
    (hf : isFull (t.ctrlAt idx) = true) {e : Elem} {t' : Raw}
    (hr : removeAt cfg t idx = .ok (e, t')) :
    ∀ pos, pos < t.buckets → windowHasEmpty cfg t' pos = windowHasEmpty cfg t pos := by
  intro pos hp
  have ha := h.alloc_of_full hc hi hf
  have hall := h.allocated ha
  obtain ⟨e1, t1, hr1, _, h', hm, hal, _⟩ := removeAt_inv hc h hi hf
  obtain ⟨e2, t2, c, hr2, hcc, hbr, _, hct⟩ := removeAt_branch hc h hi hf
  rw [hr] at hr1 hr2
  cases hr1
  cases hr2
  have ha' : t'.alloc = true := by rw [hal, ha]
  have hbk : t'.buckets = t.buckets := by simp only [Raw.buckets_eq, hm]
  have hctn := ctrlAt_bucket hc hall hi hct
  have hne : t.ctrlAt idx ≠ EMPTY := by
    intro he; rw [he] at hf; exact absurd hf (by decide)
  apply Bool.eq_iff_iff.mpr
  constructor
  · intro hw
    rcases hcc with rfl | rfl
    · -- EMPTY written
      by_cases hWn : cfg.W ≤ t.buckets
      · have hw' := hw
        rw [windowHasEmpty_true_iff] at hw'
        obtain ⟨j, hj, he⟩ := hw'
        rw [ctrlAt_wrap h' ha' (by rw [hbk]; exact hWn) (by rw [hbk]; omega), hbk,
          hctn _ (by split <;> omega)] at he
        by_cases hk : (if pos + j < t.buckets then pos + j else pos + j - t.buckets) = idx
        · have hlt : ¬ (Spec.emptyLeadingZeros ((List.range cfg.W).map fun j =>
                t.ctrlAt (indexBefore cfg.bits cfg.W t.mask idx + j)) +
              Spec.emptyTrailingZeros ((List.range cfg.W).map fun j => t.ctrlAt (idx + j)) ≥ cfg.W) :=
            fun hge => absurd (hbr.mpr hge) (by decide)
          have hlen : ∀ p, ((List.range cfg.W).map fun j => t.ctrlAt (p + j)).length = cfg.W := by
            intro p; simp
          have hA := spec_tz_lt (g := (List.range cfg.W).map fun j => t.ctrlAt (idx + j))
            (by rw [hlen]; omega)
          rw [group_getD _ _ _ _ (by omega)] at hA
          have hB := spec_lz_lt (g := (List.range cfg.W).map fun j =>
            t.ctrlAt (indexBefore cfg.bits cfg.W t.mask idx + j)) (by rw [hlen]; omega)
          rw [hlen, group_getD _ _ _ _ (by omega)] at hB
          have hib : indexBefore cfg.bits cfg.W t.mask idx =
              if idx < cfg.W then t.buckets + idx - cfg.W else idx - cfg.W := by
            rw [indexBefore, wsub_and hc hall hi, if_pos hWn]
          exact erase_window_core h ha hWn hi (by omega) hA hib hB hp hj hk
        · rw [if_neg hk] at he
          rw [windowHasEmpty_true_iff]
          exact ⟨j, hj, by rw [ctrlAt_wrap h ha hWn (by omega)]; exact he⟩
      · exact windowHasEmpty_small h ha (by omega) hp
    · -- DELETED written
      refine windowHasEmpty_mono h h' ha ha' hm (fun k hk he => ?_) hp hw
      rw [hctn k hk] at he
      split at he
      · exact absurd he (by decide)
      · exact he
  · intro hw
    refine windowHasEmpty_mono h' h ha' ha hm.symm (fun k hk he => ?_) (by rw [hbk]; exact hp) hw
    rw [hbk] at hk
    rw [hctn k hk]
    split
    · rename_i hki; subst hki; exact absurd he hne
    · exact he

/-! ### slots -/

theorem slot_some_lt {a : Array (Option Elem)} {i : Nat} {e : Elem} (h : a[i]?.join = some e) :
    i < a.size := by
  apply Nat.lt_of_not_le
  intro hle
  rw [Array.getElem?_eq_none hle] at h
  cases h

theorem slots_set_none {a : Array (Option Elem)} {idx i : Nat} {e : Elem}
    (h : (a.setIfInBounds idx none)[i]?.join = some e) : i ≠ idx ∧ a[i]?.join = some e := by
  rw [Array.getElem?_setIfInBounds] at h
  by_cases hii : idx = i
  · rw [if_pos hii] at h
    split at h <;> cases h
  · rw [if_neg hii] at h
    exact ⟨fun x => hii x.symm, h⟩

theorem slots_set_some {a : Array (Option Elem)} {idx i : Nat} {e e' : Elem}
    (h : (a.setIfInBounds idx (some e))[i]?.join = some e') :
    (i = idx ∧ e' = e ∧ idx < a.size) ∨ (i ≠ idx ∧ a[i]?.join = some e') := by
  rw [Array.getElem?_setIfInBounds] at h
  by_cases hii : idx = i
  · rw [if_pos hii] at h
    split at h
    · rename_i hlt
      left
      simp only [Option.join_some, Option.some.injEq] at h
      exact ⟨hii.symm, h.symm, hlt⟩
    · cases h
  · rw [if_neg hii] at h
    exact Or.inr ⟨fun x => hii x.symm, h⟩

theorem window_congr {t t' : Raw} (hm : t'.mask = t.mask) (pos : Nat) :
    window cfg t' pos = window cfg t pos := by
  simp only [window, hm]

/-- A window all of whose loaded bytes are FULL contains no EMPTY byte. -/
theorem windowHasEmpty_false_of_full {pos : Nat}
    (hfull : ∀ j, j < cfg.W → isFull (t.ctrlAt (pos + j)) = true) :
    windowHasEmpty cfg t pos = false := by
  cases hw : windowHasEmpty cfg t pos
  · rfl
  · rw [windowHasEmpty_true_iff] at hw
    obtain ⟨j, hj, he⟩ := hw
    have := hfull j hj
    rw [he] at this
    exact absurd this (by decide)

/-! ### `remove` -/

/-- `removeAt_invL` with the window fact as a parameter. -/
theorem removeAt_invL_of_windows (hc : CfgOk cfg) (H : Nat → Nat) (h : InvL cfg H t) {idx : Nat}
    (hi : idx < t.buckets) (hf : isFull (t.ctrlAt idx) = true)
    (hw : ∀ e t', removeAt cfg t idx = .ok (e, t') →
      ∀ pos, pos < t.buckets → windowHasEmpty cfg t' pos = windowHasEmpty cfg t pos) :
    ∃ e t', removeAt cfg t idx = .ok (e, t') ∧ t.slots[idx]?.join = some e ∧ InvL cfg H t' ∧
      t'.slots = t.slots.setIfInBounds idx none ∧ t'.mask = t.mask ∧ t'.items + 1 = t.items := by
  have hinv := h.toInv
  obtain ⟨e, t', hr, hse, h', hm, hal, hit, hsl, hoth, _, _⟩ := removeAt_inv hc hinv hi hf
  have hw := hw e t' hr
  have ha := hinv.alloc_of_full hc hi hf
  have hall := hinv.allocated ha
  have hbk : t'.buckets = t.buckets := by simp only [Raw.buckets_eq, hm]
  refine ⟨e, t', hr, hse, ⟨h', ?_, ?_, ?_⟩, hsl, hm, hit⟩
  · intro i e' hs
    rw [hsl] at hs
    obtain ⟨hne, hs'⟩ := slots_set_none hs
    have hlt : i < t.buckets := by
      have := slot_some_lt hs'
      rw [hall.2.2.2.1] at this; exact this
    rw [hoth i hlt hne]
    exact h.tag i e' hs'
  · intro i e' hs
    rw [hsl] at hs
    obtain ⟨hne, hs'⟩ := slots_set_none hs
    obtain ⟨s, hs1, hs2, hs3⟩ := h.reach i e' hs'
    refine ⟨s, by rw [hbk]; exact hs1, ?_, ?_⟩
    · rw [hm, window_congr hm]; exact hs2
    · intro s' hs'
      rw [hm, hw _ (probePos_lt ..)]
      exact hs3 s' hs'
  · intro i j e1 e2 h1 h2 hk
    rw [hsl] at h1 h2
    exact h.nodup i j e1 e2 (slots_set_none h1).2 (slots_set_none h2).2 hk

/-- **`remove` preserves `InvL`.** -/
theorem removeAt_invL (hc : CfgOk cfg) (H : Nat → Nat) (h : InvL cfg H t) {idx : Nat}
    (hi : idx < t.buckets) (hf : isFull (t.ctrlAt idx) = true) :
    ∃ e t', removeAt cfg t idx = .ok (e, t') ∧ t.slots[idx]?.join = some e ∧ InvL cfg H t' ∧
      t'.slots = t.slots.setIfInBounds idx none ∧ t'.mask = t.mask ∧ t'.items + 1 = t.items :=
  removeAt_invL_of_windows hc H h hi hf
    (fun _ _ hr => erase_keeps_windows hc h.toInv hi hf hr)

/-! ### `insert_in_slot` -/

/-- **`insert_in_slot` at the slot chosen by `find_insert_slot` preserves `InvL`**, for a key not
    yet in the table. -/
theorem insertInSlot_invL (hc : CfgOk cfg) (hp : ProbeCovers cfg) (H : Nat → Nat)
    (h : InvL cfg H t) (ha : t.alloc = true) (e : Elem)
    (hfresh : ∀ (i : Nat) (e' : Elem), t.slots[i]?.join = some e' → e'.k ≠ e.k) {idx : Nat}
    (hs : findInsertSlot cfg t (H e.k) = .ok idx) (hg : t.ctrlAt idx = EMPTY → 0 < t.gl) :
    ∃ t', insertInSlot cfg t (H e.k) idx e = .ok t' ∧ InvL cfg H t' ∧
      t'.slots = t.slots.setIfInBounds idx (some e) ∧ t'.mask = t.mask ∧
      t'.items = t.items + 1 := by
  have hinv := h.toInv
  have hall := hinv.allocated ha
  obtain ⟨idx', s, hfs, hsn, hfull, hwin, hlt, hsp⟩ := findInsertSlot_first hc hp hinv (H e.k)
  rw [hs] at hfs
  cases hfs
  obtain ⟨t', hins, h', hm, hal, hit, hsl, hct, _⟩ :=
    insertInSlot_inv hc hinv ha hlt hsp hg e (H e.k)
  have hbk : t'.buckets = t.buckets := by simp only [Raw.buckets_eq, hm]
  have htag := tagFull_lt cfg.bits (H e.k)
  -- a FULL byte more can only remove EMPTY bytes from windows
  have hmono : ∀ pos, pos < t.buckets → windowHasEmpty cfg t pos = false →
      windowHasEmpty cfg t' pos = false := by
    intro pos hpos hw
    cases hw' : windowHasEmpty cfg t' pos
    · rfl
    · have := windowHasEmpty_mono hinv h' ha hal hm (fun k hk he => ?_) hpos hw'
      · rw [hw] at this; cases this
      · rw [hct k hk] at he
        split at he
        · rw [EMPTY] at he; omega
        · exact he
  have hslt : ∀ i e', t.slots[i]?.join = some e' → i < t.buckets := by
    intro i e' hs'
    have := slot_some_lt hs'
    rw [hall.2.2.2.1] at this; exact this
  refine ⟨t', hins, ⟨h', ?_, ?_, ?_⟩, hsl, hm, hit⟩
  · intro i e' hs'
    rw [hsl] at hs'
    rcases slots_set_some hs' with ⟨rfl, rfl, _⟩ | ⟨hne, hs''⟩
    · rw [hct i hlt, if_pos rfl]
    · rw [hct i (hslt i e' hs''), if_neg hne]
      exact h.tag i e' hs''
  · intro i e' hs'
    rw [hsl] at hs'
    rcases slots_set_some hs' with ⟨rfl, rfl, _⟩ | ⟨hne, hs''⟩
    · refine ⟨s, by rw [hbk]; exact hsn, ?_, ?_⟩
      · rw [hm, window_congr hm]; exact hwin
      · intro s' hs'
        rw [hm]
        exact hmono _ (probePos_lt ..) (windowHasEmpty_false_of_full (hfull s' hs'))
    · obtain ⟨s2, hs1, hs2, hs3⟩ := h.reach i e' hs''
      refine ⟨s2, by rw [hbk]; exact hs1, ?_, ?_⟩
      · rw [hm, window_congr hm]; exact hs2
      · intro s' hs'
        rw [hm]
        exact hmono _ (probePos_lt ..) (hs3 s' hs')
  · intro i j e1 e2 h1 h2 hk
    rw [hsl] at h1 h2
    rcases slots_set_some h1 with ⟨rfl, rfl, _⟩ | ⟨hne1, h1'⟩
    · rcases slots_set_some h2 with ⟨rfl, rfl, _⟩ | ⟨hne2, h2'⟩
      · rfl
      · exact absurd hk.symm (hfresh j e2 h2')
    · rcases slots_set_some h2 with ⟨rfl, rfl, _⟩ | ⟨hne2, h2'⟩
      · exact absurd hk (hfresh i e1 h1')
      · exact h.nodup i j e1 e2 h1' h2' hk

/-! ### value replacement -/

/-- Replacing the value of a stored element in place (key and control bytes untouched) preserves
    `InvL`. -/
theorem value_update_invL {H : Nat → Nat} (h : InvL cfg H t) {i : Nat} {e : Elem}
    (he : t.slots[i]?.join = some e) (a b : Nat) :
    InvL cfg H { t with slots := t.slots.setIfInBounds i (some { e with vid := a, v := b }) } := by
  have hinv := h.toInv
  refine ⟨⟨?_, hinv.valid, hinv.mirror, hinv.items_eq, hinv.count, ?_, hinv.smallClean⟩, ?_, ?_, ?_⟩
  · rcases hinv.geom with hs | hal
    · left
      obtain ⟨h1, h2, h3, h4, h5, h6⟩ := hs
      refine ⟨h1, h2, h3, ?_, h5, h6⟩
      show t.slots.setIfInBounds i _ = #[]
      rw [h4]; rfl
    · right
      obtain ⟨h1, h2, h3, h4, h5⟩ := hal
      refine ⟨h1, h2, h3, ?_, h5⟩
      show (t.slots.setIfInBounds i _).size = _
      rw [Array.size_setIfInBounds]; exact h4
  · intro j hj
    show ((t.slots.setIfInBounds i _)[j]?.join).isSome ↔ isFull (t.ctrlAt j) = true
    have hj' : j < t.slots.size := by
      have : j < (t.slots.setIfInBounds i (some { e with vid := a, v := b })).size := hj
      rw [Array.size_setIfInBounds] at this; exact this
    have hl := hinv.live j hj'
    rw [Array.getElem?_setIfInBounds]
    by_cases hij : i = j
    · subst hij
      rw [he] at hl
      rw [if_pos rfl, if_pos hj']
      exact hl
    · rw [if_neg hij]; exact hl
  · intro j e' hs
    have hs' : (t.slots.setIfInBounds i (some { e with vid := a, v := b }))[j]?.join = some e' := hs
    show t.ctrlAt j = _
    rcases slots_set_some hs' with ⟨rfl, rfl, _⟩ | ⟨_, hs''⟩
    · exact h.tag j e he
    · exact h.tag j e' hs''
  · intro j e' hs
    have hs' : (t.slots.setIfInBounds i (some { e with vid := a, v := b }))[j]?.join = some e' := hs
    show Reachable cfg t _ j
    rcases slots_set_some hs' with ⟨rfl, rfl, _⟩ | ⟨_, hs''⟩
    · exact h.reach j e he
    · exact h.reach j e' hs''
  · intro j1 j2 e1 e2 h1 h2 hk
    have h1' : (t.slots.setIfInBounds i (some { e with vid := a, v := b }))[j1]?.join = some e1 := h1
    have h2' : (t.slots.setIfInBounds i (some { e with vid := a, v := b }))[j2]?.join = some e2 := h2
    rcases slots_set_some h1' with ⟨rfl, rfl, _⟩ | ⟨_, h1''⟩
    · rcases slots_set_some h2' with ⟨rfl, rfl, _⟩ | ⟨_, h2''⟩
      · rfl
      · exact h.nodup j1 j2 e e2 he h2'' hk
    · rcases slots_set_some h2' with ⟨rfl, rfl, _⟩ | ⟨_, h2''⟩
      · exact h.nodup j1 j2 e1 e h1'' he hk
      · exact h.nodup j1 j2 e1 e2 h1'' h2'' hk

/-! ### non-vacuity -/

/-- 8 buckets, SSE2 width 16, `H k = k`: three keys with the same home bucket 1 (tags 0, 0, 1)
    stored in buckets 1, 2, 3. -/
def exTableL : Raw :=
  { mask := 7
    ctrl := #[255, 0, 0, 1, 255, 255, 255, 255, 255, 255, 255, 255, 255, 255, 255, 255,
              255, 0, 0, 1, 255, 255, 255, 255]
    slots := #[none, some ⟨1, 10, 20, 30⟩, some ⟨9, 11, 21, 31⟩,
               some ⟨144115188075855873, 12, 22, 32⟩, none, none, none, none]
    items := 3, gl := 4, alloc := true }

example : invLB { ops := Sse2.ops } (fun k => k) exTableL = true := by decide

/-- Both branches of `erase` on tables at least a group long.
    16 buckets, portable width 8, `H k = k` (all tags 0, home bucket `k`): buckets 0–13 full. -/
def exTableT : Raw :=
  { mask := 15
    ctrl := #[0,0,0,0,0,0,0,0,0,0,0,0,0,0,255,255, 0,0,0,0,0,0,0,0]
    slots := #[some ⟨0,0,0,0⟩, some ⟨1,0,0,0⟩, some ⟨2,0,0,0⟩, some ⟨3,0,0,0⟩, some ⟨4,0,0,0⟩,
      some ⟨5,0,0,0⟩, some ⟨6,0,0,0⟩, some ⟨7,0,0,0⟩, some ⟨8,0,0,0⟩, some ⟨9,0,0,0⟩,
      some ⟨10,0,0,0⟩, some ⟨11,0,0,0⟩, some ⟨12,0,0,0⟩, some ⟨13,0,0,0⟩, none, none]
    items := 14, gl := 0, alloc := true }

/-- The same with bucket 6 EMPTY. -/
def exTableE : Raw :=
  { mask := 15
    ctrl := #[0,0,0,0,0,0,255,0,0,0,0,0,0,0,255,255, 0,0,0,0,0,0,255,0]
    slots := #[some ⟨0,0,0,0⟩, some ⟨1,0,0,0⟩, some ⟨2,0,0,0⟩, some ⟨3,0,0,0⟩, some ⟨4,0,0,0⟩,
      some ⟨5,0,0,0⟩, none, some ⟨7,0,0,0⟩, some ⟨8,0,0,0⟩, some ⟨9,0,0,0⟩,
      some ⟨10,0,0,0⟩, some ⟨11,0,0,0⟩, some ⟨12,0,0,0⟩, some ⟨13,0,0,0⟩, none, none]
    items := 13, gl := 1, alloc := true }

/-- `remove idx` writes byte `c`, re-establishes `invLB`, and leaves `windowHasEmpty` unchanged. -/
def exRemoveCheck (t : Raw) (idx c : Nat) : Bool :=
  invLB { ops := Generic.ops } (fun k => k) t &&
  match removeAt { ops := Generic.ops } t idx with
  | .ok (_, t') => t'.ctrlAt idx == c && invLB { ops := Generic.ops } (fun k => k) t' &&
      (List.range 16).all fun pos =>
        windowHasEmpty { ops := Generic.ops } t' pos == windowHasEmpty { ops := Generic.ops } t pos
  | _ => false

example : exRemoveCheck exTableT 5 DELETED = true := by decide
example : exRemoveCheck exTableE 5 EMPTY = true := by decide

#print axioms erase_branch
#print axioms erase_keeps_windows
#print axioms removeAt_invL
#print axioms insertInSlot_invL
#print axioms value_update_invL

end Hb
