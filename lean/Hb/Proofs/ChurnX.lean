/-
C13 over the EXTENDED API — memory bound under churn for histories of `MapOpX`
(`Hb/Model/MapOpsX.lean`): the basic churn calls of `Hb/Proofs/Churn.lean` (insert / get / get_mut /
remove / remove_entry) plus insertions and removals through `entry`, `entry_ref`, `raw_entry_mut`
(any chain), `try_insert`, and the look-ups `raw_entry`, `get_many_mut`, `Index`.

Why it holds: every one of these calls consists of a look-up that does not touch the table, at most
ONE `RawTable::insert` / `reserve(1)` (the only place where the bucket count can change, and it does
so only when `items + 1 > full_capacity / 2`, `ch_MaskStep` of `Churn.lean`), and in-place slot
updates / `erase` / destructor calls that keep the bucket count.

Main results, all for EVERY environment (arbitrary call-number dependent hasher / `Eq` / `Drop` /
allocator; panics are caught and the history goes on), `CfgOk cfg`, `GuardRuns cfg`:

* `cx_rawInsert_S`, `cx_insOwned_S`, `cx_chainOcc_K`, `cx_chainVac_S`, `cx_entry_S`,
  `cx_tryInsert_S`, `cx_entryRef_S`, `cx_rustcLook`, `cx_rustcEntry_S`, `cx_rawEntry_S`,
  `cx_rawGet_K`, `cx_getManyMut_K`, `cx_index_K`      per call: `TInv` and `ch_MaskStep`
* `cx_stepX`           one extended churn call (returned or unwound): `TInv ∧ ch_MaskStep`
* `churnX_bound`       `capacity ≤ max 14 (4 * peak)`, `peak = Map.runXPeak` (max `len()` over the run),
                       for histories of `ChurnOpX` from `new()`
* `churnXR_bound`      the SAME bound for `ChurnOpXR` = `ChurnOpX` + `rustc_entry` with any chain
                       (no `+ 1` is needed: `rustc_entry`'s explicit `reserve(1)` obeys the same
                       growth rule as the `reserve(1)` at the start of `insert`)
* `churnX_bound_n`, `churnX_bound_buckets`, `churnX_bound_buckets_rel`, `churnX_bound_bytes`
* `extend_breaks_churn_bound`   evaluated counterexample: why `extend` is excluded
* `churnX_example`, `churnX_example_bound`, `churnXR_example`   evaluated workloads
-/
import Hb.Proofs.Churn
import Hb.Proofs.HistoryX
namespace Hb

variable {cfg : Cfg}

/-! ## 0. outcome predicates -/

/-- No fault; on return and after an unwind the table is valid and its bucket mask is `m`. -/
def cx_K (cfg : Cfg) (m : Nat) {α : Type} (proj : α → World) (r : Res α) : Prop :=
  match r with
  | .ok a => TInv cfg (proj a).t ∧ (proj a).t.mask = m
  | .panic _ w' => TInv cfg w'.t ∧ w'.t.mask = m
  | .abort => True
  | .fault _ => False

/-- No fault; on return and after an unwind the table is valid and the geometry changed from `t` by
    at most one `ch_MaskStep`. -/
def cx_S (cfg : Cfg) (t : Raw) {α : Type} (proj : α → World) (r : Res α) : Prop :=
  match r with
  | .ok a => TInv cfg (proj a).t ∧ ch_MaskStep cfg t (proj a).t
  | .panic _ w' => TInv cfg w'.t ∧ ch_MaskStep cfg t w'.t
  | .abort => True
  | .fault _ => False

theorem cx_K.bind {α β : Type} {m : Nat} {pa : α → World} {pb : β → World} {r : Res α}
    {f : α → Res β} (hr : cx_K cfg m pa r)
    (hf : ∀ a, TInv cfg (pa a).t → (pa a).t.mask = m → cx_K cfg m pb (f a)) :
    cx_K cfg m pb (r.bind f) := by
  cases r with
  | ok a => exact hf a hr.1 hr.2
  | panic c w => exact hr
  | abort => trivial
  | fault f => exact hr.elim

theorem cx_K.onPanic {α : Type} {m : Nat} {pa : α → World} {r : Res α} {g : World → World}
    (hr : cx_K cfg m pa r) (hg : ∀ w, (g w).t = w.t) : cx_K cfg m pa (r.onPanic g) := by
  cases r with
  | ok a => exact hr
  | panic c w => show TInv cfg (g w).t ∧ (g w).t.mask = m; rw [hg]; exact hr
  | abort => trivial
  | fault f => exact hr.elim

theorem cx_K.toS {α : Type} {t0 : Raw} (t : Raw) {pa : α → World} {r : Res α}
    (hr : cx_K cfg t.mask pa r) (h0 : ch_MaskStep cfg t0 t) : cx_S cfg t0 pa r := by
  cases r with
  | ok a => exact ⟨hr.1, h0.of_mask_eq hr.2⟩
  | panic c w => exact ⟨hr.1, h0.of_mask_eq hr.2⟩
  | abort => trivial
  | fault f => exact hr.elim

theorem cx_S.bindK {α β : Type} {t : Raw} {pa : α → World} {pb : β → World} {r : Res α}
    {f : α → Res β} (hr : cx_S cfg t pa r)
    (hf : ∀ a, TInv cfg (pa a).t → cx_K cfg (pa a).t.mask pb (f a)) :
    cx_S cfg t pb (r.bind f) := by
  cases r with
  | ok a => exact (hf a hr.1).toS _ hr.2
  | panic c w => exact hr
  | abort => trivial
  | fault f => exact hr.elim

theorem cx_S.onPanic {α : Type} {t : Raw} {pa : α → World} {r : Res α} {g : World → World}
    (hr : cx_S cfg t pa r) (hg : ∀ w, (g w).t = w.t) : cx_S cfg t pa (r.onPanic g) := by
  cases r with
  | ok a => exact hr
  | panic c w => show TInv cfg (g w).t ∧ ch_MaskStep cfg t (g w).t; rw [hg]; exact hr
  | abort => trivial
  | fault f => exact hr.elim

theorem cx_S.of_eq {α : Type} {t t' : Raw} {pa : α → World} {r : Res α}
    (hr : cx_S cfg t pa r) (ht : t = t') : cx_S cfg t' pa r := ht ▸ hr

theorem cx_K.of_eq {α : Type} {m m' : Nat} {pa : α → World} {r : Res α}
    (hr : cx_K cfg m pa r) (hm : m = m') : cx_K cfg m' pa r := hm ▸ hr

theorem cx_K.ok {α : Type} {m : Nat} {pa : α → World} {a : α} {t : Raw} (ht : (pa a).t = t)
    (h1 : TInv cfg t) (h2 : t.mask = m) : cx_K cfg m pa (.ok a) := by
  show TInv cfg (pa a).t ∧ (pa a).t.mask = m
  rw [ht]; exact ⟨h1, h2⟩

theorem cx_dropKeyR_K (env : Env) (kid : Nat) (w : World) (h : TInv cfg w.t) :
    cx_K cfg w.t.mask id (dropKeyR cfg env kid w) := by
  rcases ag_dropKeyR (cfg := cfg) env kid w with ⟨w', d1, d2, _⟩ | ⟨w', d1, d2, _⟩
  · rw [d1]; show TInv cfg w'.t ∧ w'.t.mask = w.t.mask; rw [d2]; exact ⟨h, rfl⟩
  · rw [d1]; show TInv cfg w'.t ∧ w'.t.mask = w.t.mask; rw [d2]; exact ⟨h, rfl⟩

/-- `dropKeyR` followed by a return of the resulting world. -/
theorem cx_dropKeyR_ret {α : Type} (env : Env) (kid : Nat) (w : World) (h : TInv cfg w.t)
    (out : α) :
    cx_K cfg w.t.mask (·.2)
      ((dropKeyR cfg env kid w).bind fun w' => (.ok (out, w') : Res (α × World))) :=
  (cx_dropKeyR_K env kid w h).bind (fun _ ha hm => ⟨ha, hm⟩)

/-! ## 1. the one growth path: `RawTable::insert` -/

/-- `RawTable::insert`: whatever the outcome, the geometry changed only through its `reserve(1)`. -/
theorem cx_rawInsert_S (hc : CfgOk cfg) (hg : GuardRuns cfg) (env : Env) (hash : Nat) (e : Elem)
    (w : World) (h : TInv cfg w.t) : cx_S cfg w.t (·.2) (rawInsert cfg env hash e w) := by
  have hp := hc.probe
  obtain ⟨slot, hfs, hlt, hsp⟩ := findInsertSlot_ok hc hp h.1 hash
  have hsz : slot < w.t.ctrl.size := by have := h.1.buckets_le_size hc; omega
  unfold rawInsert
  simp only [hfs, ctrlRd_ok hsz]
  by_cases hbr : w.t.gl = 0 ∧ specialIsEmpty (w.t.ctrlAt slot) = true
  · rw [if_pos hbr]
    have hres := reserve_spec hc hp env 1 w h
    have hm := ch_reserve_mask hc hp env w h
    cases hr : reserve cfg env 1 w with
    | ok w1 =>
      rw [hr] at hres hm
      obtain ⟨a1, a2, a3, _, a5, a6, a7, _⟩ := hres
      obtain ⟨slot', hfs', hlt', hsp'⟩ := findInsertSlot_ok hc hp a1.1 hash
      obtain ⟨t', b1, b2, b3, _⟩ :=
        ag_insertInSlot hc a1 (a6 (by omega)) hlt' hsp' (fun _ => by omega) e hash
      simp only [hfs', b1]
      exact ⟨b2, ch_MaskStep.of_mask_eq hm b3⟩
    | panic c w' =>
      rw [hr] at hres hm
      refine ⟨?_, Or.inl hm⟩
      rcases hres with ⟨_, rfl⟩ | ⟨_, _, hres⟩
      · exact h
      · exact (hres hg).1
    | abort => trivial
    | fault f => rw [hr] at hres; exact hres.elim
  · rw [if_neg hbr]
    have hold := special_cases (h.1.validAt slot) hsp
    have hge : w.t.ctrlAt slot = EMPTY → 0 < w.t.gl := by
      intro he
      have : specialIsEmpty (w.t.ctrlAt slot) = true := by rw [he]; decide
      by_contra hn
      exact hbr ⟨by omega, this⟩
    have ha : w.t.alloc = true := by
      cases hal : w.t.alloc with
      | true => rfl
      | false =>
        exfalso
        have hs := ag_singleton_of_not_alloc h.1 hal
        have h0 : slot = 0 := by have := hs.2.1; simp only [Raw.buckets] at hlt; omega
        have hW : 0 < cfg.W := by rcases hc.W_cases with hW | hW <;> omega
        have hE : w.t.ctrlAt slot = EMPTY := by
          rw [h0]; simp [Raw.ctrlAt, hs.2.2.1, hW]
        have := hge hE
        have := hs.2.2.2.2.2
        omega
    obtain ⟨t', b1, b2, b3, _⟩ := ag_insertInSlot hc h ha hlt hsp hge e hash
    simp only [b1]
    exact ⟨b2, Or.inl b3⟩

/-- The insertion primitive of the vacant entries. -/
theorem cx_insOwned_S (hc : CfgOk cfg) (hg : GuardRuns cfg) (env : Env) (hash : Nat) (e : Elem)
    (w : World) (h : TInv cfg w.t) : cx_S cfg w.t (·.2) (Map.insOwned cfg env hash e w) :=
  (cx_rawInsert_S hc hg env hash e w h).onPanic (fun w' => dropElemQuiet_t w' e)

/-- `insOwned` followed by a return of the resulting world. -/
theorem cx_insOwned_ret (hc : CfgOk cfg) (hg : GuardRuns cfg) (env : Env) (hash : Nat) (e : Elem)
    (w : World) (h : TInv cfg w.t) (out : Bool × Map.EOut) :
    cx_S cfg w.t (·.2)
      ((Map.insOwned cfg env hash e w).bind fun x => (.ok (out, x.2) : Map.EntRes)) :=
  (cx_insOwned_S hc hg env hash e w h).bindK (fun _ ha => ⟨ha, rfl⟩)

/-! ## 2. chains -/

theorem cx_removeAt (hc : CfgOk cfg) {t : Raw} (h : TInv cfg t) {idx : Nat} {old : Elem}
    (he : t.slots[idx]?.join = some old) :
    ∃ t', removeAt cfg t idx = .ok (old, t') ∧ TInv cfg t' ∧ t'.mask = t.mask := by
  obtain ⟨hi, hf⟩ := en_live h.1 he
  obtain ⟨x, t', r1, r2, r3, r4, _⟩ := removeAt_inv hc h.1 hi hf
  rw [he] at r2
  cases r2
  exact ⟨t', r1, h.of_inv r3 r4, r4⟩

/-- Chains on an occupied entry never change the bucket count. -/
theorem cx_chainOcc_K (hc : CfgOk cfg) (env : Env) (idx : Nat) (c : Map.EChain) (w : World)
    (h : TInv cfg w.t) {old : Elem} (he : w.t.slots[idx]?.join = some old) :
    cx_K cfg w.t.mask (·.2) (Map.chainOcc cfg env idx c w) := by
  obtain ⟨hi, hf⟩ := en_live h.1 he
  have hsz : idx < w.t.ctrl.size := by have := h.1.buckets_le_size hc; omega
  obtain ⟨t', hr, hT', hm'⟩ := cx_removeAt hc h he
  have hset : ∀ e' : Elem, TInv cfg (Map.slotSet w.t idx e') := fun e' => en_slotSet_TInv h he e'
  have hdk : ∀ (kid : Nat) (w0 : World) (out : Bool × Map.EOut), TInv cfg w0.t →
      w0.t.mask = w.t.mask →
      cx_K cfg w.t.mask (·.2) ((dropKeyR cfg env kid w0).bind fun w2 =>
        (.ok (out, w2) : Map.EntRes)) :=
    fun kid w0 out h0 hm0 => (cx_dropKeyR_ret env kid w0 h0 out).of_eq hm0
  unfold Map.chainOcc
  simp only [slotGet_ok he, liftE, rf_bind_ok]
  cases c with
  | insert vid v => exact cx_K.ok (en_dropVal_t _ _) (hset _) rfl
  | orInsert vid v => exact cx_K.ok (en_dropVal_t _ _) h rfl
  | orInsertWithKey vid v => exact cx_K.ok (en_dropVal_t _ _) h rfl
  | andModifyOrInsert nv vid v => exact cx_K.ok (en_dropVal_t _ _) (hset _) rfl
  | key => exact cx_K.ok rfl h rfl
  | drop => exact cx_K.ok rfl h rfl
  | occRemove =>
    simp only [hr, rf_bind_ok]
    exact hdk _ _ _ hT' hm'
  | occRemoveEntry =>
    simp only [hr, rf_bind_ok]
    exact cx_K.ok rfl hT' hm'
  | occInsert vid v => exact cx_K.ok rfl (hset _) rfl
  | occGetMut nv => exact cx_K.ok rfl (hset _) rfl
  | replaceEntryWith keep nv =>
    cases keep with
    | true =>
      simp only [↓reduceIte, en_replace_keep hc h.1 he (fun it => { it with v := nv }), rf_bind_ok]
      exact cx_K.ok rfl (hset _) rfl
    | false =>
      simp only [Bool.false_eq_true, ↓reduceIte, en_replace_none hsz hr, rf_bind_ok]
      exact hdk _ _ _ (by rw [en_dropVal_t]; exact hT') (by rw [en_dropVal_t]; exact hm')
  | andReplaceEntryWith keep nv =>
    cases keep with
    | true =>
      simp only [↓reduceIte, en_replace_keep hc h.1 he (fun it => { it with v := nv }), rf_bind_ok]
      exact cx_K.ok rfl (hset _) rfl
    | false =>
      simp only [Bool.false_eq_true, ↓reduceIte, en_replace_none hsz hr, rf_bind_ok]
      exact hdk _ _ _ (by rw [en_dropVal_t]; exact hT') (by rw [en_dropVal_t]; exact hm')
  | vacInsert vid v => exact cx_K.ok (en_dropVal_t _ _) h rfl
  | vacInsertEntry vid v => exact cx_K.ok (en_dropVal_t _ _) h rfl
  | vacIntoKey => exact cx_K.ok rfl h rfl

/-- Chains on a vacant entry: the geometry changes at most through the insertion primitive. `t0` is
    the table at the start of the call (`w.t` for `entry`, the table before `reserve(1)` for
    `rustc_entry`). -/
theorem cx_chainVac_S (env : Env) (t0 : Raw) (ins : Elem → World → Res (Nat × World)) (k kid : Nat)
    (c : Map.EChain) (w : World) (h : TInv cfg w.t) (hw : ch_MaskStep cfg t0 w.t)
    (hins : ∀ e, cx_S cfg t0 (·.2) (ins e w)) :
    cx_S cfg t0 (·.2) (Map.chainVac cfg env ins k kid c w) := by
  have hput : ∀ (e : Elem) (out : Map.EOut),
      cx_S cfg t0 (·.2) ((ins e w).bind fun x => (.ok ((false, out), x.2) : Map.EntRes)) :=
    fun e out => (hins e).bindK (fun a ha => ⟨ha, rfl⟩)
  have hdrop : ∀ (out : Map.EOut) (w0 : World), w0.t = w.t →
      cx_S cfg t0 (·.2)
        ((dropKeyR cfg env kid w0).bind fun w' => (.ok ((false, out), w') : Map.EntRes)) :=
    fun out w0 h0 =>
      (cx_dropKeyR_ret env kid w0 (by rw [h0]; exact h) (false, out)).toS w0.t (by rw [h0]; exact hw)
  cases c <;> simp only [Map.chainVac]
  all_goals first
    | exact hput _ _
    | exact hdrop _ _ rfl
    | exact hdrop _ _ (en_dropVal_t _ _)
    | exact ⟨h, hw⟩

/-! ## 3. `entry`, `try_insert`, `entry_ref` -/

theorem cx_entry_S (hc : CfgOk cfg) (hg : GuardRuns cfg) (env : Env) (k kid : Nat)
    (c : Map.EChain) (w : World) (h : TInv cfg w.t) :
    cx_S cfg w.t (·.2) (Map.entry cfg env k kid c w) := by
  have hl := en_entryLook_total hc env k kid w h.1
  unfold Map.entry
  cases hr : Map.entryLook cfg env k kid w with
  | ok x =>
    obtain ⟨⟨hv, r⟩, w1⟩ := x
    rw [hr] at hl
    simp only [Res.onPanic, Res.bind]
    cases r with
    | none =>
      have a1 : TInv cfg w1.t := by rw [hl.1]; exact h
      exact cx_chainVac_S env w.t _ k kid c w1 a1 (Or.inl (by rw [hl.1]))
        (fun e => (cx_insOwned_S hc hg env hv e w1 a1).of_eq hl.1)
    | some idx =>
      obtain ⟨a1, e, a2⟩ := hl
      exact (cx_chainOcc_K hc env idx c w1 (by rw [a1]; exact h) (by rw [a1]; exact a2)).toS w1.t
        (Or.inl (by rw [a1]))
  | panic c' w' =>
    rw [hr] at hl
    simp only [Res.onPanic, Res.bind]
    show TInv cfg (Map.dropValOpt cfg _ w').t ∧ ch_MaskStep cfg w.t (Map.dropValOpt cfg _ w').t
    rw [en_dropValOpt_t, hl]; exact ⟨h, Or.inl rfl⟩
  | abort => rw [hr] at hl; exact hl.elim
  | fault f => rw [hr] at hl; exact hl.elim

theorem cx_tryInsert_S (hc : CfgOk cfg) (hg : GuardRuns cfg) (env : Env) (e : Elem) (w : World)
    (h : TInv cfg w.t) : cx_S cfg w.t (·.2) (Map.tryInsert cfg env e w) := by
  have hl := en_entryLook_total hc env e.k e.kid w h.1
  unfold Map.tryInsert
  cases hr : Map.entryLook cfg env e.k e.kid w with
  | ok x =>
    obtain ⟨⟨hv, r⟩, w1⟩ := x
    rw [hr] at hl
    simp only [Res.onPanic, Res.bind]
    cases r with
    | none =>
      have a1 : TInv cfg w1.t := by rw [hl.1]; exact h
      exact (cx_insOwned_ret hc hg env hv e w1 a1 _).of_eq hl.1
    | some idx =>
      obtain ⟨a1, x, a2⟩ := hl
      have a2' : w1.t.slots[idx]?.join = some x := by rw [a1]; exact a2
      simp only [slotGet_ok a2', liftE]
      show TInv cfg w1.t ∧ ch_MaskStep cfg w.t w1.t
      rw [a1]; exact ⟨h, Or.inl rfl⟩
  | panic c' w' =>
    rw [hr] at hl
    simp only [Res.onPanic, Res.bind]
    show TInv cfg (Map.dropVal cfg _ w').t ∧ ch_MaskStep cfg w.t (Map.dropVal cfg _ w').t
    rw [en_dropVal_t, hl]; exact ⟨h, Or.inl rfl⟩
  | abort => rw [hr] at hl; exact hl.elim
  | fault f => rw [hr] at hl; exact hl.elim

theorem cx_entryRef_S (hc : CfgOk cfg) (hg : GuardRuns cfg) (env : Env) (k newkid : Nat)
    (c : Map.EChain) (w : World) (h : TInv cfg w.t) :
    cx_S cfg w.t (·.2) (Map.entryRef cfg env k newkid c w) := by
  rw [en_entryRef_eq]
  rcases en_search_total hc env k w h.1 with ⟨hv, r, w1, k1, k2, _, k4⟩ | ⟨c', w', k1, k2, _⟩
  · rw [k1]
    simp only [Res.onPanic, en_bind_ok]
    have a1 : TInv cfg w1.t := by rw [k2]; exact h
    have hins : ∀ (e : Elem) (out : Bool × Map.EOut), cx_S cfg w.t (·.2)
        ((Map.insOwned cfg env hv e w1).bind fun x => (.ok (out, x.2) : Map.EntRes)) :=
      fun e out => (cx_insOwned_ret hc hg env hv e w1 a1 out).of_eq k2
    have hsame : ∀ (out : Bool × Map.EOut) (w0 : World), w0.t = w1.t →
        cx_S cfg w.t (·.2) (.ok (out, w0) : Map.EntRes) := by
      intro out w0 h0
      show TInv cfg w0.t ∧ ch_MaskStep cfg w.t w0.t
      rw [h0, k2]; exact ⟨h, Or.inl rfl⟩
    cases r with
    | some idx =>
      obtain ⟨x, hx⟩ := k4 idx rfl
      have hx1 : w1.t.slots[idx]?.join = some x := by rw [k2]; exact hx
      have hocc := (cx_chainOcc_K hc env idx c w1 a1 hx1).toS (t0 := w.t) w1.t (Or.inl (by rw [k2]))
      cases c
      case key =>
        simp only [en_refCont, slotGet_ok hx1, liftE, en_bind_ok]
        exact hsame _ _ rfl
      all_goals exact hocc
    | none =>
      cases c
      case key => exact hsame _ _ rfl
      case insert vid v => exact hins _ _
      case orInsert vid v => exact hins _ _
      case andModifyOrInsert nv vid v => exact hins _ _
      all_goals exact hsame _ _ (en_dropValOpt_t _ _)
  · rw [k1]
    show TInv cfg (Map.dropValOpt cfg _ w').t ∧ ch_MaskStep cfg w.t (Map.dropValOpt cfg _ w').t
    rw [en_dropValOpt_t, k2]; exact ⟨h, Or.inl rfl⟩

/-! ## 4. `rustc_entry` -/

/-- `rustc_entry()`'s look-up: on the vacant side `reserve(1)` has run (one `ch_MaskStep`). -/
theorem cx_rustcLook (hc : CfgOk cfg) (hg : GuardRuns cfg) (env : Env) (k kid : Nat) (w : World)
    (h : TInv cfg w.t) :
    match Map.rustcLook cfg env k kid w with
    | .ok ((_, some idx), w') => w'.t = w.t ∧ ∃ e, w.t.slots[idx]?.join = some e
    | .ok ((_, none), w') => TInv cfg w'.t ∧ 0 < w'.t.gl ∧ ch_MaskStep cfg w.t w'.t
    | .panic _ w' => TInv cfg w'.t ∧ w'.t.mask = w.t.mask
    | .abort => True
    | .fault _ => False := by
  rw [en_rustcLook_eq]
  rcases en_search_total hc env k w h.1 with ⟨hv, r, w2, k1, k2, k3, k4⟩ | ⟨c, w', k1, k2, _⟩
  · rw [k1]
    cases r with
    | none =>
      simp only [Res.bind]
      have h2 : TInv cfg w2.t := by rw [k2]; exact h
      have hres := reserve_spec hc hc.probe env 1 w2 h2
      have hm := ch_reserve_mask hc hc.probe env w2 h2
      cases hr : Hb.reserve cfg env 1 w2 with
      | ok w3 =>
        rw [hr] at hres hm
        obtain ⟨a1, a2, a3, _, a5, _⟩ := hres
        simp only [Res.onPanic]
        exact ⟨a1, by omega, by rw [← k2]; exact hm⟩
      | panic c w' =>
        rw [hr] at hres hm
        simp only [Res.onPanic]
        rw [en_dropKeyQuiet_t]
        refine ⟨?_, by rw [← k2]; exact hm⟩
        rcases hres with ⟨_, rfl⟩ | ⟨_, _, hres⟩
        · exact h2
        · exact (hres hg).1
      | abort => simp only [Res.onPanic]
      | fault f => rw [hr] at hres; exact hres.elim
    | some idx =>
      simp only [Res.onPanic, Res.bind]
      rcases ag_dropKeyR (cfg := cfg) env kid w2 with ⟨w3, d1, d2, _⟩ | ⟨w3, d1, d2, _⟩
      · rw [d1]; exact ⟨by rw [d2, k2], k4 idx rfl⟩
      · rw [d1]; show TInv cfg w3.t ∧ w3.t.mask = w.t.mask; rw [d2, k2]; exact ⟨h, rfl⟩
  · rw [k1]
    simp only [Res.onPanic, Res.bind]
    rw [en_dropKeyQuiet_t, k2]; exact ⟨h, rfl⟩

theorem cx_insNoGrow_K (hc : CfgOk cfg) (hash : Nat) (e : Elem) (w : World)
    (h : TInv cfg w.t) (hgl : 0 < w.t.gl) :
    cx_K cfg w.t.mask (·.2) (Map.insNoGrow cfg hash e w) := by
  obtain ⟨idx, t', hr, hT, hm, _⟩ := insertNoGrow_spec hc hc.probe h hgl hash e
  simp only [Map.insNoGrow, hr]
  exact ⟨hT, hm⟩

/-- `rustc_entry` + chain: its explicit `reserve(1)` is the only possible change of geometry, and
    it obeys the same growth rule as the one inside `insert`. -/
theorem cx_rustcEntry_S (hc : CfgOk cfg) (hg : GuardRuns cfg) (env : Env) (k kid : Nat)
    (c : Map.EChain) (w : World) (h : TInv cfg w.t) :
    cx_S cfg w.t (·.2) (Map.rustcEntry cfg env k kid c w) := by
  have hl := cx_rustcLook hc hg env k kid w h
  unfold Map.rustcEntry
  cases hr : Map.rustcLook cfg env k kid w with
  | ok x =>
    obtain ⟨⟨hv, r⟩, w1⟩ := x
    rw [hr] at hl
    simp only [Res.onPanic, Res.bind]
    cases r with
    | none =>
      obtain ⟨a1, a2, a3⟩ := hl
      exact cx_chainVac_S env w.t _ k kid c w1 a1 a3
        (fun e => (cx_insNoGrow_K hc hv e w1 a1 a2).toS w1.t a3)
    | some idx =>
      obtain ⟨a1, e, a2⟩ := hl
      exact (cx_chainOcc_K hc env idx c w1 (by rw [a1]; exact h) (by rw [a1]; exact a2)).toS w1.t
        (Or.inl (by rw [a1]))
  | panic c' w' =>
    rw [hr] at hl
    simp only [Res.onPanic, Res.bind]
    show TInv cfg (Map.dropValOpt cfg _ w').t ∧ ch_MaskStep cfg w.t (Map.dropValOpt cfg _ w').t
    rw [en_dropValOpt_t]; exact ⟨hl.1, Or.inl hl.2⟩
  | abort => trivial
  | fault f => rw [hr] at hl; exact hl.elim

/-! ## 5. `raw_entry_mut`, `raw_entry` -/

theorem cx_rawEntry_S (hc : CfgOk cfg) (hg : GuardRuns cfg) (env : Env) (mode : Map.RawMode)
    (ph k : Nat) (c : Map.RawChain) (w : World) (h : TInv cfg w.t) :
    cx_S cfg w.t (·.2) (Map.rawEntry cfg env mode ph k c w) := by
  have hl := en_rawLook_total hc env mode ph k w h.1
  unfold Map.rawEntry
  cases hr : Map.rawLook cfg env mode ph k w with
  | ok x =>
    obtain ⟨r, w1⟩ := x
    rw [hr] at hl
    simp only [Res.onPanic, en_bind_ok]
    cases r with
    | some idx =>
      obtain ⟨a1, old, a2⟩ := hl
      have hT : TInv cfg w1.t := by rw [a1]; exact h
      have he : w1.t.slots[idx]?.join = some old := by rw [a1]; exact a2
      obtain ⟨hi, hf⟩ := en_live hT.1 he
      have hsz : idx < w1.t.ctrl.size := by have := hT.1.buckets_le_size hc; omega
      obtain ⟨t', hrm, hT', hm'⟩ := cx_removeAt hc hT he
      have hset : ∀ e' : Elem, TInv cfg (Map.slotSet w1.t idx e') := fun e' => en_slotSet_TInv hT he e'
      have hst : ch_MaskStep cfg w.t w1.t := Or.inl (by rw [a1])
      have hdk : ∀ (kid : Nat) (w0 : World) (out : Bool × Map.EOut), TInv cfg w0.t →
          w0.t.mask = w1.t.mask →
          cx_S cfg w.t (·.2) ((dropKeyR cfg env kid w0).bind fun w2 =>
            (.ok (out, w2) : Map.EntRes)) :=
        fun kid w0 out h0 hm0 => ((cx_dropKeyR_ret env kid w0 h0 out).of_eq hm0).toS w1.t hst
      have hok : ∀ (out : Bool × Map.EOut) (w0 : World), TInv cfg w0.t → w0.t.mask = w1.t.mask →
          cx_S cfg w.t (·.2) (.ok (out, w0) : Map.EntRes) :=
        fun out w0 h0 hm0 => ⟨h0, hst.of_mask_eq hm0⟩
      simp only [slotGet_ok he, liftE, rf_bind_ok]
      cases c with
      | insert kid vid v =>
        exact hdk _ _ _ (by rw [en_dropVal_t]; exact hset _) (by rw [en_dropVal_t]; rfl)
      | orInsert kid vid v => exact hdk _ _ _ (by rw [en_dropVal_t]; exact hT) (by rw [en_dropVal_t])
      | vacInsert kid vid v => exact hdk _ _ _ (by rw [en_dropVal_t]; exact hT) (by rw [en_dropVal_t])
      | vacInsertHashed kid vid v =>
        exact hdk _ _ _ (by rw [en_dropVal_t]; exact hT) (by rw [en_dropVal_t])
      | occRemove =>
        simp only [hrm, rf_bind_ok]
        exact hdk _ _ _ hT' hm'
      | occRemoveEntry =>
        simp only [hrm, rf_bind_ok]
        exact hok _ _ hT' hm'
      | occInsert vid v => exact hok _ _ (hset _) rfl
      | occInsertKey kid => exact hok _ _ (hset _) rfl
      | andModify nv => exact hok _ _ (hset _) rfl
      | replaceEntryWith keep nv =>
        cases keep with
        | true =>
          simp only [↓reduceIte, en_replace_keep hc hT.1 he (fun it => { it with v := nv }), rf_bind_ok]
          exact hok _ _ (hset _) rfl
        | false =>
          simp only [Bool.false_eq_true, ↓reduceIte, en_replace_none hsz hrm, rf_bind_ok]
          exact hdk _ _ _ (by rw [en_dropVal_t]; exact hT') (by rw [en_dropVal_t]; exact hm')
      | drop => exact hok _ _ hT rfl
    | none =>
      have hT : TInv cfg w1.t := by rw [hl]; exact h
      have hst : ch_MaskStep cfg w.t w1.t := Or.inl (by rw [hl])
      have hok : ∀ (out : Bool × Map.EOut) (w0 : World), w0.t = w1.t →
          cx_S cfg w.t (·.2) (.ok (out, w0) : Map.EntRes) := by
        intro out w0 h0
        show TInv cfg w0.t ∧ ch_MaskStep cfg w.t w0.t
        rw [h0]; exact ⟨hT, hst⟩
      have hhash : ∀ (e : Elem), cx_S cfg w.t (·.2)
          (((makeHash env k w1).onPanic (·.dropElemQuiet cfg e)).bind fun x =>
            (Map.insOwned cfg env x.1 e x.2).bind fun y =>
              (.ok ((false, .elem e), y.2) : Map.EntRes)) := by
        intro e
        cases hh : env.hash w1.hc k with
        | none =>
          rw [ag_makeHash_none hh]
          show TInv cfg (World.dropElemQuiet cfg _ e).t ∧
            ch_MaskStep cfg w.t (World.dropElemQuiet cfg _ e).t
          rw [dropElemQuiet_t]; exact ⟨hT, hst⟩
        | some hv =>
          rw [ag_makeHash_some hh]
          simp only [Res.onPanic, en_bind_ok]
          exact (cx_insOwned_ret hc hg env hv e { w1 with hc := w1.hc + 1 } hT _).of_eq hl
      cases c with
      | insert kid vid v => exact hhash _
      | orInsert kid vid v => exact hhash _
      | vacInsert kid vid v => exact hhash _
      | vacInsertHashed kid vid v => exact (cx_insOwned_ret hc hg env ph _ w1 hT _).of_eq hl
      | occInsert vid v => exact hok _ _ (en_dropVal_t _ _)
      | occInsertKey kid => exact (cx_dropKeyR_ret env kid w1 hT _).toS w1.t hst
      | occRemove => exact hok _ _ rfl
      | occRemoveEntry => exact hok _ _ rfl
      | andModify nv => exact hok _ _ rfl
      | replaceEntryWith keep nv => exact hok _ _ rfl
      | drop => exact hok _ _ rfl
  | panic c' w' =>
    rw [hr] at hl
    simp only [Res.onPanic, Res.bind]
    show TInv cfg (Map.dropHeldQuiet cfg _ w').t ∧ ch_MaskStep cfg w.t (Map.dropHeldQuiet cfg _ w').t
    rw [en_dropHeldQuiet_t, hl]; exact ⟨h, Or.inl rfl⟩
  | abort => rw [hr] at hl; exact hl.elim
  | fault f => rw [hr] at hl; exact hl.elim

/-- `raw_entry().from_*(..)`: a pure look-up. -/
theorem cx_rawGet_K (hc : CfgOk cfg) (env : Env) (mode : Map.RawMode) (ph k : Nat) (w : World)
    (h : TInv cfg w.t) : cx_K cfg w.t.mask (·.2) (Map.rawGet cfg env mode ph k w) := by
  have hl := en_rawLook_total hc env mode ph k w h.1
  unfold Map.rawGet
  cases hr : Map.rawLook cfg env mode ph k w with
  | ok x =>
    obtain ⟨r, w1⟩ := x
    rw [hr] at hl
    simp only [bind, Res.bind]
    cases r with
    | none => show TInv cfg w1.t ∧ w1.t.mask = w.t.mask; rw [hl]; exact ⟨h, rfl⟩
    | some idx =>
      obtain ⟨a1, e, a2⟩ := hl
      have he : w1.t.slots[idx]?.join = some e := by rw [a1]; exact a2
      simp only [slotGet_ok he, liftE]
      show TInv cfg w1.t ∧ w1.t.mask = w.t.mask
      rw [a1]; exact ⟨h, rfl⟩
  | panic c' w' =>
    rw [hr] at hl
    simp only [bind, Res.bind]
    show TInv cfg w'.t ∧ w'.t.mask = w.t.mask
    rw [hl]; exact ⟨h, rfl⟩
  | abort => rw [hr] at hl; exact hl.elim
  | fault f => rw [hr] at hl; exact hl.elim

/-! ## 6. `get_many_mut`, `Index` -/

theorem cx_getManyMut_K (hc : CfgOk cfg) (env : Env) (ks : List Nat) (w : World)
    (h : TInv cfg w.t) : cx_K cfg w.t.mask (·.2) (Map.getManyMut cfg env ks w) := by
  rcases Map.getManyMut_spec hc hc.probe env ks w h.1 with
    ⟨c, w', a1, _, a3, _⟩ | ⟨hs, idxs, w1, _, _, _, _, b5, _, b7⟩
  · rw [a1]; show TInv cfg w'.t ∧ w'.t.mask = w.t.mask; rw [a3]; exact ⟨h, rfl⟩
  · rcases b7 with ⟨_, c1⟩ | ⟨_, rs, s', c1, _, _, c4⟩
    · rw [c1]; show TInv cfg w1.t ∧ w1.t.mask = w.t.mask; rw [b5]; exact ⟨h, rfl⟩
    · rw [c1]; exact ⟨h.of_inv c4 rfl, rfl⟩

theorem cx_index_K (hc : CfgOk cfg) (env : Env) (k : Nat) (w : World) (h : TInv cfg w.t) :
    cx_K cfg w.t.mask (·.2) (Map.index cfg env k w) := by
  have h1 := Map.get_inv hc hc.probe env k w h
  have h2 := ch_get_mask hc hc.probe env k w h
  unfold Map.index
  cases hr : Map.get cfg env k w with
  | ok pr =>
    obtain ⟨r, w'⟩ := pr
    rw [hr] at h1 h2
    simp only [bind, Res.bind]
    cases r with
    | none => exact ⟨h1.2.2.1, h2⟩
    | some e => exact ⟨h1.2.2.1, h2⟩
  | panic c w' => rw [hr] at h1 h2; simp only [bind, Res.bind]; exact ⟨h1.2.2.2, h2⟩
  | abort => rw [hr] at h1; exact h1.elim
  | fault f => rw [hr] at h1; exact h1.elim

/-! ## 7. one extended churn call -/

/-- The calls of an extended churn workload: the basic churn calls, `entry` / `entry_ref` /
    `raw_entry_mut` with any chain, `try_insert`, `raw_entry`, `get_many_mut`, `Index`.
    NOT `rustc_entry` (it reserves explicitly) and NOT `extend` (it reserves from a size hint). -/
def ChurnOpX : MapOpX → Prop
  | .base op => ChurnOp op
  | .entry _ _ _ => True
  | .entryRef _ _ _ => True
  | .rustcEntry _ _ _ => False
  | .rawEntry _ _ _ _ => True
  | .rawGet _ _ _ => True
  | .tryInsert _ => True
  | .extend _ => False
  | .getManyMut _ => True
  | .index _ => True

/-- `ChurnOpX` plus `rustc_entry` with any chain. -/
def ChurnOpXR : MapOpX → Prop
  | .base op => ChurnOp op
  | .extend _ => False
  | _ => True

theorem ChurnOpX.toR {op : MapOpX} (h : ChurnOpX op) : ChurnOpXR op := by
  cases op <;> first | exact h | trivial

/-- Outcome of one extended call relative to the table `t` it started from. -/
def cx_SX (cfg : Cfg) (t : Raw) : Res (RetX × World) → Prop
  | .ok (_, w') => TInv cfg w'.t ∧ ch_MaskStep cfg t w'.t
  | .panic _ w' => TInv cfg w'.t ∧ ch_MaskStep cfg t w'.t
  | .abort => True
  | .fault _ => False

/-- **One extended churn call** (returned or unwound), every environment: the table stays valid and
    its geometry changes by at most one `ch_MaskStep` (bucket count kept, or grown by `reserve(1)`
    while `items + 1 > full_capacity / 2`). -/
theorem cx_stepX (hc : CfgOk cfg) (hg : GuardRuns cfg) (env : Env) (op : MapOpX)
    (hop : ChurnOpXR op) (w : World) (h : TInv cfg w.t) :
    cx_SX cfg w.t (Map.stepX cfg env op w) := by
  cases op with
  | base op =>
    have hs := ch_step hc hc.probe hg env op hop w h
    simp only [Map.stepX]
    cases hr : Map.step cfg env op w with
    | ok pr => obtain ⟨r, w'⟩ := pr; rw [hr] at hs; exact hs
    | panic c w' => rw [hr] at hs; exact hs
    | abort => trivial
    | fault f => rw [hr] at hs; exact hs.elim
  | entry k kid c =>
    have hs := cx_entry_S hc hg env k kid c w h
    simp only [Map.stepX]
    cases hr : Map.entry cfg env k kid c w with
    | ok pr => obtain ⟨⟨b, o⟩, w'⟩ := pr; rw [hr] at hs; exact hs
    | panic c w' => rw [hr] at hs; exact hs
    | abort => trivial
    | fault f => rw [hr] at hs; exact hs.elim
  | entryRef k newkid c =>
    have hs := cx_entryRef_S hc hg env k newkid c w h
    simp only [Map.stepX]
    cases hr : Map.entryRef cfg env k newkid c w with
    | ok pr => obtain ⟨⟨b, o⟩, w'⟩ := pr; rw [hr] at hs; exact hs
    | panic c w' => rw [hr] at hs; exact hs
    | abort => trivial
    | fault f => rw [hr] at hs; exact hs.elim
  | rustcEntry k kid c =>
    have hs := cx_rustcEntry_S hc hg env k kid c w h
    simp only [Map.stepX]
    cases hr : Map.rustcEntry cfg env k kid c w with
    | ok pr => obtain ⟨⟨b, o⟩, w'⟩ := pr; rw [hr] at hs; exact hs
    | panic c w' => rw [hr] at hs; exact hs
    | abort => trivial
    | fault f => rw [hr] at hs; exact hs.elim
  | rawEntry mode ph k c =>
    have hs := cx_rawEntry_S hc hg env mode ph k c w h
    simp only [Map.stepX]
    cases hr : Map.rawEntry cfg env mode ph k c w with
    | ok pr => obtain ⟨⟨b, o⟩, w'⟩ := pr; rw [hr] at hs; exact hs
    | panic c w' => rw [hr] at hs; exact hs
    | abort => trivial
    | fault f => rw [hr] at hs; exact hs.elim
  | rawGet mode ph k =>
    have hs := (cx_rawGet_K hc env mode ph k w h).toS w.t (ch_MaskStep.refl _)
    simp only [Map.stepX]
    cases hr : Map.rawGet cfg env mode ph k w with
    | ok pr => obtain ⟨r, w'⟩ := pr; rw [hr] at hs; exact hs
    | panic c w' => rw [hr] at hs; exact hs
    | abort => trivial
    | fault f => rw [hr] at hs; exact hs.elim
  | tryInsert e =>
    have hs := cx_tryInsert_S hc hg env e w h
    simp only [Map.stepX]
    cases hr : Map.tryInsert cfg env e w with
    | ok pr => obtain ⟨⟨b, o⟩, w'⟩ := pr; rw [hr] at hs; exact hs
    | panic c w' => rw [hr] at hs; exact hs
    | abort => trivial
    | fault f => rw [hr] at hs; exact hs.elim
  | extend items => exact hop.elim
  | getManyMut ks =>
    have hs := (cx_getManyMut_K hc env ks w h).toS w.t (ch_MaskStep.refl _)
    simp only [Map.stepX]
    cases hr : Map.getManyMut cfg env ks w with
    | ok pr => obtain ⟨l, w'⟩ := pr; rw [hr] at hs; exact hs
    | panic c w' => rw [hr] at hs; exact hs
    | abort => trivial
    | fault f => rw [hr] at hs; exact hs.elim
  | index k =>
    have hs := (cx_index_K hc env k w h).toS w.t (ch_MaskStep.refl _)
    simp only [Map.stepX]
    cases hr : Map.index cfg env k w with
    | ok pr => obtain ⟨⟨vid, v⟩, w'⟩ := pr; rw [hr] at hs; exact hs
    | panic c w' => rw [hr] at hs; exact hs
    | abort => trivial
    | fault f => rw [hr] at hs; exact hs.elim

/-- One extended churn call in the shape of `grow_step_bound_sharp`: the capacity afterwards is at
    most the larger of the old capacity and `max 14 (4 * len)` (`len` taken before the call). -/
theorem growX_step_bound (hc : CfgOk cfg) (hg : GuardRuns cfg) (env : Env) (op : MapOpX)
    (hop : ChurnOpXR op) (w : World) (h : TInv cfg w.t) :
    match Map.stepX cfg env op w with
    | .ok (_, w') =>
      TInv cfg w'.t ∧ bucketMaskToCapacity w'.t.mask ≤
        max (bucketMaskToCapacity w.t.mask) (max 14 (4 * w.t.items))
    | .panic _ w' =>
      TInv cfg w'.t ∧ bucketMaskToCapacity w'.t.mask ≤
        max (bucketMaskToCapacity w.t.mask) (max 14 (4 * w.t.items))
    | .abort => True
    | .fault _ => False := by
  have hs := cx_stepX hc hg env op hop w h
  cases hr : Map.stepX cfg env op w with
  | ok pr => obtain ⟨r, w'⟩ := pr; rw [hr] at hs; exact ⟨hs.1, ch_maskStep_bound h.1 hs.2⟩
  | panic c w' => rw [hr] at hs; exact ⟨hs.1, ch_maskStep_bound h.1 hs.2⟩
  | abort => trivial
  | fault f => rw [hr] at hs; exact hs.elim

/-! ## 8. histories -/

/-- Peak live size of an extended history: the maximum of `len()` over all the worlds the run goes
    through (start, after every call — returned or unwound —, end). -/
def Map.runXPeak (cfg : Cfg) (env : Env) : List MapOpX → World → Nat
  | [], w => w.t.items
  | op :: rest, w =>
    match Map.stepX cfg env op w with
    | .ok (_, w') => max w.t.items (Map.runXPeak cfg env rest w')
    | .panic _ w' => max w.t.items (Map.runXPeak cfg env rest w')
    | .abort => w.t.items
    | .fault _ => w.t.items

theorem Map.runXPeak_ge_start (env : Env) (ops : List MapOpX) (w : World) :
    w.t.items ≤ Map.runXPeak cfg env ops w := by
  cases ops with
  | nil => exact Nat.le_refl _
  | cons op rest =>
    unfold Map.runXPeak
    split <;> omega

/-- `runXPeak` dominates `len()` at every intermediate point of the history. -/
theorem Map.runXPeak_ge_prefix (env : Env) (pre post : List MapOpX) (w0 wm : World)
    (obs : List Map.ObsX) (hrun : Map.runX cfg env pre w0 = some (obs, wm)) :
    wm.t.items ≤ Map.runXPeak cfg env (pre ++ post) w0 := by
  induction pre generalizing w0 obs with
  | nil =>
    simp only [Map.runX, Option.some.injEq, Prod.mk.injEq] at hrun
    rw [← hrun.2]
    exact Map.runXPeak_ge_start env _ _
  | cons op rest ih =>
    simp only [Map.runX] at hrun
    simp only [List.cons_append, Map.runXPeak]
    cases hs : Map.stepX cfg env op w0 with
    | ok pr =>
      obtain ⟨r, w1⟩ := pr
      rw [hs] at hrun
      simp only [Option.map_eq_some_iff] at hrun
      obtain ⟨⟨os, wf⟩, hr, heq⟩ := hrun
      simp only [Prod.mk.injEq] at heq
      have := ih w1 os (by rw [hr, heq.2])
      simp only
      omega
    | panic c w1 =>
      rw [hs] at hrun
      simp only [Option.map_eq_some_iff] at hrun
      obtain ⟨⟨os, wf⟩, hr, heq⟩ := hrun
      simp only [Prod.mk.injEq] at heq
      have := ih w1 os (by rw [hr, heq.2])
      simp only
      omega
    | abort => rw [hs] at hrun; cases hrun
    | fault f => rw [hs] at hrun; cases hrun

/-- Induction behind `churnX_bound`, from an arbitrary valid start. `P` is the peak "so far". -/
theorem cx_run_bound (hc : CfgOk cfg) (hg : GuardRuns cfg) (env : Env)
    (ops : List MapOpX) (hops : ∀ op ∈ ops, ChurnOpXR op) (w0 : World) (P : Nat)
    (h0 : TInv cfg w0.t) (hb : bucketMaskToCapacity w0.t.mask ≤ max 14 (4 * P))
    (obs : List Map.ObsX) (w : World) (hrun : Map.runX cfg env ops w0 = some (obs, w)) :
    TInv cfg w.t ∧
    bucketMaskToCapacity w.t.mask ≤ max 14 (4 * max P (Map.runXPeak cfg env ops w0)) := by
  induction ops generalizing w0 P obs with
  | nil =>
    simp only [Map.runX, Option.some.injEq, Prod.mk.injEq] at hrun
    rw [← hrun.2]
    exact ⟨h0, by omega⟩
  | cons op rest ih =>
    have hst := cx_stepX hc hg env op (hops op (List.mem_cons_self ..)) w0 h0
    have hrest : ∀ op ∈ rest, ChurnOpXR op := fun o ho => hops o (List.mem_cons_of_mem _ ho)
    simp only [Map.runX] at hrun
    simp only [Map.runXPeak]
    cases hs : Map.stepX cfg env op w0 with
    | ok pr =>
      obtain ⟨r, w1⟩ := pr
      rw [hs] at hrun hst
      simp only [Option.map_eq_some_iff] at hrun
      obtain ⟨⟨os, wf⟩, hr, heq⟩ := hrun
      simp only [Prod.mk.injEq] at heq
      have hb1 := ch_maskStep_bound h0.1 hst.2
      have := ih hrest w1 (max P w0.t.items) hst.1 (by omega) os (by rw [hr, heq.2])
      refine ⟨this.1, ?_⟩
      have h2 := this.2
      simp only
      omega
    | panic c w1 =>
      rw [hs] at hrun hst
      simp only [Option.map_eq_some_iff] at hrun
      obtain ⟨⟨os, wf⟩, hr, heq⟩ := hrun
      simp only [Prod.mk.injEq] at heq
      have hb1 := ch_maskStep_bound h0.1 hst.2
      have := ih hrest w1 (max P w0.t.items) hst.1 (by omega) os (by rw [hr, heq.2])
      refine ⟨this.1, ?_⟩
      have h2 := this.2
      simp only
      omega
    | abort => rw [hs] at hrun; cases hrun
    | fault f => rw [hs] at hrun; cases hrun

/-- **C13 over the extended API, `rustc_entry` included.** From `HashMap::new()`, after any history
    of insertions, look-ups and removals through the basic calls, `entry`, `entry_ref`,
    `rustc_entry`, `raw_entry_mut` (any chain), `try_insert`, `raw_entry`, `get_many_mut`, `Index`
    (any hasher / `Eq` / `Drop` / allocator behaviour, panics included), the capacity backing the
    table is at most `max 14 (4 * peak)`, `peak` = the largest `len()` ever reached. -/
theorem churnXR_bound (hc : CfgOk cfg) (hg : GuardRuns cfg) (env : Env)
    (ops : List MapOpX) (hops : ∀ op ∈ ops, ChurnOpXR op) (w0 : World) (h0 : w0.t = Raw.new cfg.W)
    (obs : List Map.ObsX) (w : World) (hrun : Map.runX cfg env ops w0 = some (obs, w)) :
    TInv cfg w.t ∧
    bucketMaskToCapacity w.t.mask ≤ max 14 (4 * Map.runXPeak cfg env ops w0) := by
  have hT : TInv cfg w0.t := by rw [h0]; exact TInv.new hc
  have hb : bucketMaskToCapacity w0.t.mask ≤ max 14 (4 * 0) := by
    rw [h0]; simp [Raw.new, bucketMaskToCapacity]
  have := cx_run_bound hc hg env ops hops w0 0 hT hb obs w hrun
  refine ⟨this.1, ?_⟩
  have h2 := this.2
  omega

/-- **C13 over the extended API** (the requested statement): histories of `ChurnOpX` from `new()`,
    every environment: `capacity ≤ max 14 (4 * peak)`. -/
theorem churnX_bound (hc : CfgOk cfg) (hg : GuardRuns cfg) (env : Env)
    (ops : List MapOpX) (hops : ∀ op ∈ ops, ChurnOpX op) (w0 : World) (h0 : w0.t = Raw.new cfg.W)
    (obs : List Map.ObsX) (w : World) (hrun : Map.runX cfg env ops w0 = some (obs, w)) :
    TInv cfg w.t ∧
    bucketMaskToCapacity w.t.mask ≤ max 14 (4 * Map.runXPeak cfg env ops w0) :=
  churnXR_bound hc hg env ops (fun op ho => (hops op ho).toR) w0 h0 obs w hrun

/-- The bound holds at every intermediate point of the history as well ("never exceeds"). -/
theorem churnXR_bound_prefix (hc : CfgOk cfg) (hg : GuardRuns cfg) (env : Env)
    (pre post : List MapOpX) (hops : ∀ op ∈ pre ++ post, ChurnOpXR op) (w0 : World)
    (h0 : w0.t = Raw.new cfg.W) (obs : List Map.ObsX) (wm : World)
    (hrun : Map.runX cfg env pre w0 = some (obs, wm)) :
    bucketMaskToCapacity wm.t.mask ≤ max 14 (4 * Map.runXPeak cfg env (pre ++ post) w0) := by
  have h1 := (churnXR_bound hc hg env pre
    (fun op ho => hops op (List.mem_append_left _ ho)) w0 h0 obs wm hrun).2
  have hT : TInv cfg w0.t := by rw [h0]; exact TInv.new hc
  have hb : bucketMaskToCapacity w0.t.mask ≤ max 14 (4 * 0) := by
    rw [h0]; simp [Raw.new, bucketMaskToCapacity]
  -- the peak of the prefix is at most the peak of the whole history
  have hmono : ∀ (pre : List MapOpX) (w0 : World),
      Map.runXPeak cfg env pre w0 ≤ Map.runXPeak cfg env (pre ++ post) w0 ∨
      Map.runX cfg env pre w0 = none := by
    intro pre
    induction pre with
    | nil => intro w0; exact Or.inl (Map.runXPeak_ge_start env _ _)
    | cons op rest ih =>
      intro w0
      simp only [List.cons_append, Map.runXPeak, Map.runX]
      cases hs : Map.stepX cfg env op w0 with
      | ok pr =>
        obtain ⟨r, w1⟩ := pr
        simp only
        rcases ih w1 with h | h
        · left; omega
        · right; rw [h]; rfl
      | panic c w1 =>
        simp only
        rcases ih w1 with h | h
        · left; omega
        · right; rw [h]; rfl
      | abort => right; rfl
      | fault f => right; rfl
  rcases hmono pre w0 with h | h
  · omega
  · rw [h] at hrun; cases hrun

/-- The same with the workload's bound `n` on the live size. -/
theorem churnX_bound_n (hc : CfgOk cfg) (hg : GuardRuns cfg) (env : Env)
    (ops : List MapOpX) (hops : ∀ op ∈ ops, ChurnOpXR op) (w0 : World) (h0 : w0.t = Raw.new cfg.W)
    (obs : List Map.ObsX) (w : World) (hrun : Map.runX cfg env ops w0 = some (obs, w))
    (n : Nat) (hn : Map.runXPeak cfg env ops w0 ≤ n) :
    bucketMaskToCapacity w.t.mask ≤ max 14 (4 * n) := by
  have := (churnXR_bound hc hg env ops hops w0 h0 obs w hrun).2
  omega

/-- Bucket-count form: `buckets ≤ max 16 (32 * peak / 7)`. -/
theorem churnX_bound_buckets (hc : CfgOk cfg) (hg : GuardRuns cfg)
    (env : Env) (ops : List MapOpX) (hops : ∀ op ∈ ops, ChurnOpXR op) (w0 : World)
    (h0 : w0.t = Raw.new cfg.W) (obs : List Map.ObsX) (w : World)
    (hrun : Map.runX cfg env ops w0 = some (obs, w)) :
    w.t.buckets ≤ max 16 (32 * Map.runXPeak cfg env ops w0 / 7) := by
  obtain ⟨hT, hb⟩ := churnXR_bound hc hg env ops hops w0 h0 obs w hrun
  exact ch_buckets_of_cap hT.1 hb

/-- Relative form: the fixed multiple is 4. If the live size never exceeds `n ≥ 1`, the table never
    has more than four times the buckets `with_capacity(n)` would allocate. -/
theorem churnX_bound_buckets_rel (hc : CfgOk cfg) (hg : GuardRuns cfg)
    (env : Env) (ops : List MapOpX) (hops : ∀ op ∈ ops, ChurnOpXR op) (w0 : World)
    (h0 : w0.t = Raw.new cfg.W) (obs : List Map.ObsX) (w : World)
    (hrun : Map.runX cfg env ops w0 = some (obs, w))
    (n b : Nat) (hn : n ≠ 0) (hpk : Map.runXPeak cfg env ops w0 ≤ n)
    (hb : capacityToBuckets cfg.bits cfg.W cfg.size n = some b) :
    w.t.buckets ≤ 4 * b := by
  have h1 := churnX_bound_buckets hc hg env ops hops w0 h0 obs w hrun
  have h2 := ch_rel_arith hc.bits hn hb
  have : 32 * Map.runXPeak cfg env ops w0 / 7 ≤ 32 * n / 7 :=
    Nat.div_le_div_right (Nat.mul_le_mul_left 32 hpk)
  omega

/-- Bytes form: `allocation_size()` is at most four times the size of the block `with_capacity(n)`
    allocates, and at most the size of a block of `4 * b` buckets. -/
theorem churnX_bound_bytes (hc : CfgOk cfg) (hg : GuardRuns cfg)
    (env : Env) (ops : List MapOpX) (hops : ∀ op ∈ ops, ChurnOpXR op) (w0 : World)
    (h0 : w0.t = Raw.new cfg.W) (obs : List Map.ObsX) (w : World)
    (hrun : Map.runX cfg env ops w0 = some (obs, w))
    (n b : Nat) (hn : n ≠ 0) (hpk : Map.runXPeak cfg env ops w0 ≤ n)
    (hb : capacityToBuckets cfg.bits cfg.W cfg.size n = some b) :
    ∃ s, allocationSize cfg w.t = .ok s ∧
      (∀ l, calculateLayoutFor cfg.bits cfg.W cfg.size (ctrlAlignOf cfg) b = some l →
        s ≤ 4 * l.size) ∧
      (∀ L, calculateLayoutFor cfg.bits cfg.W cfg.size (ctrlAlignOf cfg) (4 * b) = some L →
        s ≤ L.size) := by
  have hT := (churnXR_bound hc hg env ops hops w0 h0 obs w hrun).1
  have hbk := churnX_bound_buckets_rel hc hg env ops hops w0 h0 obs w hrun n b hn hpk hb
  refine ⟨_, allocationSize_spec hT, ?_, ?_⟩
  · intro l hl
    cases ha : w.t.alloc with
    | false => simp
    | true =>
      simp only [if_true]
      have hlo := hT.2 ha
      cases hcl : calculateLayoutFor cfg.bits cfg.W cfg.size (ctrlAlignOf cfg) w.t.buckets with
      | none => rw [hcl] at hlo; cases hlo
      | some l1 =>
        rw [layoutOf_eq hcl]
        exact ch_layout_size_le_mul (ch_ctrlAlign_pos hc) hbk hcl hl
  · intro L hL
    cases ha : w.t.alloc with
    | false => simp
    | true =>
      simp only [if_true]
      have hlo := hT.2 ha
      cases hcl : calculateLayoutFor cfg.bits cfg.W cfg.size (ctrlAlignOf cfg) w.t.buckets with
      | none => rw [hcl] at hlo; cases hlo
      | some l1 =>
        rw [layoutOf_eq hcl]
        exact layout_size_mono hbk hcl hL

/-! ## 9. non-vacuity: evaluated extended churn workloads; why `extend` is excluded -/

instance : DecidablePred ChurnOpX := fun op => by
  cases op <;> simp only [ChurnOpX] <;> infer_instance

instance : DecidablePred ChurnOpXR := fun op => by
  cases op <;> simp only [ChurnOpXR] <;> infer_instance

/-- `(mask, len, growth_left, #DELETED)` at the end of an extended run. -/
def cxSummary (cfg : Cfg) (env : Env) (ops : List MapOpX) (w0 : World) :
    Option (Nat × Nat × Nat × Nat) :=
  (Map.runX cfg env ops w0).map fun r =>
    (r.2.t.mask, r.2.t.items, r.2.t.gl, r.2.t.countCtrl (· == DELETED))

/-- 120 calls, live size ≤ 8: per round four insertions through `entry().or_insert`,
    `entry_ref().insert`, `try_insert`, `raw_entry_mut().from_key().insert`, three removals of the
    previous round's keys through `OccupiedEntry::remove`, `RawOccupiedEntryMut::remove_entry`,
    `remove`, one through `entry_ref().replace_entry_with(|| None)`, then `get_many_mut` and
    `Index`. -/
def cxOps : List MapOpX :=
  (List.range 12).flatMap fun i =>
    [ .entry (3 * i) (3 * i) (.orInsert (3 * i) 0),
      .entryRef (3 * i + 1) (3 * i + 1) (.insert (3 * i + 1) 0),
      .tryInsert (chElem (3 * i + 2)),
      .rawEntry .fromKey 0 (3 * i + 100) (.insert (3 * i + 100) (3 * i + 100) 0),
      .entry (3 * i - 3) 1000 .occRemove,
      .rawEntry .fromKey 0 (3 * i - 2) .occRemoveEntry,
      .base (.remove (3 * i - 1)),
      .entryRef (3 * i + 97) 0 (.replaceEntryWith false 0),
      .getManyMut [3 * i, 3 * i + 1],
      .index (3 * i + 2) ]

/-- Portable group width: 120 extended calls, peak live size 8; at the end 32 buckets
    (capacity 28 ≤ `max 14 (4 * 8)` = 32), 4 live keys, no tombstone. -/
theorem churnX_example :
    cxOps.length = 120 ∧ (∀ op ∈ cxOps, ChurnOpX op) ∧
    Map.runXPeak { ops := Generic.ops } chEnv cxOps { t := Raw.new 8 } = 8 ∧
    cxSummary { ops := Generic.ops } chEnv cxOps { t := Raw.new 8 } = some (31, 4, 24, 0) := by
  refine ⟨by decide +kernel, by decide +kernel, by decide +kernel, by decide +kernel⟩

/-- The hypotheses of `churnX_bound` are satisfiable: instantiated on `cxOps`. `hs` is
    `generic_groupSpec` of `Hb/Proofs/Group.lean` (not imported here, to keep its `bv_decide`
    axioms out of this file). -/
theorem churnX_example_bound (hs : GroupSpec Generic.ops) :
    ∀ obs w, Map.runX { ops := Generic.ops } chEnv cxOps { t := Raw.new 8 } = some (obs, w) →
      bucketMaskToCapacity w.t.mask ≤ 32 ∧ w.t.buckets ≤ 36 := by
  intro obs w hrun
  have hc : CfgOk { ops := Generic.ops } := ⟨hs, by decide⟩
  have hg : GuardRuns { ops := Generic.ops } := Or.inr rfl
  have hops := churnX_example.2.1
  have hpk := churnX_example.2.2.1
  have h1 := churnX_bound hc hg chEnv cxOps hops { t := Raw.new 8 } rfl obs w hrun
  have h2 := churnX_bound_buckets hc hg chEnv cxOps (fun op ho => (hops op ho).toR)
    { t := Raw.new 8 } rfl obs w hrun
  rw [hpk] at h1 h2
  exact ⟨by have := h1.2; omega, by omega⟩

/-- `rustc_entry` at full load: 14 insertions through `rustc_entry().insert` fill a 16-bucket table
    (capacity 14, `growth_left = 0`); a further `rustc_entry` of an absent key whose vacant entry is
    merely dropped grows the table to 32 buckets although nothing is inserted — still within
    `max 14 (4 * peak)` = 56 (`churnXR_bound`). -/
def cxROps : List MapOpX :=
  (List.range 14).map (fun i => MapOpX.rustcEntry i i (.insert i 0)) ++
    [.rustcEntry 99 99 .drop, .rustcEntry 98 98 .vacIntoKey]

theorem churnXR_example :
    (∀ op ∈ cxROps, ChurnOpXR op) ∧
    Map.runXPeak { ops := Generic.ops } chEnv cxROps { t := Raw.new 8 } = 14 ∧
    cxSummary { ops := Generic.ops } chEnv (cxROps.take 14) { t := Raw.new 8 } =
      some (15, 14, 0, 0) ∧
    cxSummary { ops := Generic.ops } chEnv (cxROps.take 15) { t := Raw.new 8 } =
      some (31, 14, 14, 0) ∧
    cxSummary { ops := Generic.ops } chEnv cxROps { t := Raw.new 8 } = some (31, 14, 14, 0) := by
  refine ⟨by decide +kernel, by decide +kernel, by decide +kernel, by decide +kernel,
    by decide +kernel⟩

/-- **Why `extend` is not a churn call.** One `extend` of 20 pairs that all carry the same key:
    `len()` never exceeds 1, but `extend` reserves for the iterator's size hint (20), so the table
    ends with 32 buckets, capacity 28 > `max 14 (4 * 1)`. -/
def cxExtOps : List MapOpX := [.extend ((List.range 20).map fun i => ⟨1, i, i, 0⟩)]

theorem extend_breaks_churn_bound :
    Map.runXPeak { ops := Generic.ops } chEnv cxExtOps { t := Raw.new 8 } = 1 ∧
    cxSummary { ops := Generic.ops } chEnv cxExtOps { t := Raw.new 8 } = some (31, 1, 27, 0) ∧
    ¬ bucketMaskToCapacity 31 ≤ max 14 (4 * 1) := by
  refine ⟨by decide +kernel, by decide +kernel, by decide +kernel⟩

#print axioms cx_rawInsert_S
#print axioms cx_chainOcc_K
#print axioms cx_chainVac_S
#print axioms cx_entry_S
#print axioms cx_tryInsert_S
#print axioms cx_entryRef_S
#print axioms cx_rustcEntry_S
#print axioms cx_rawEntry_S
#print axioms cx_rawGet_K
#print axioms cx_getManyMut_K
#print axioms cx_index_K
#print axioms cx_stepX
#print axioms growX_step_bound
#print axioms Map.runXPeak_ge_prefix
#print axioms cx_run_bound
#print axioms churnXR_bound
#print axioms churnX_bound
#print axioms churnXR_bound_prefix
#print axioms churnX_bound_n
#print axioms churnX_bound_buckets
#print axioms churnX_bound_buckets_rel
#print axioms churnX_bound_bytes
#print axioms churnX_example
#print axioms churnX_example_bound
#print axioms churnXR_example
#print axioms extend_breaks_churn_bound

end Hb
