/-
Proofs for property C20 (`src/external_trait_impls/serde.rs`, model `Hb/Model/Serde.lean`).

1. `cautious_le`, `reserved_buckets_le`, `layout_size_mono`, `withCapacity_cautious_*`:
   the reservation made before the first element is read.
2. `AL.feed` (fold of the abstract `insert`), `find_feed` / `last_wins` / `roundtrip_spec`:
   pure list lemmas about the reference association list of `Hb/Model/Spec.lean`.
3. `feed_refines` / `visit_last_wins`: bridge to the table model, parametrised by the per-step
   refinement of `Map.insert` (`InsertRefines`, property C01).
4. `error_midway_ledger` / `error_at_value_ledger`: what a failed `visit_map` leaves in the event
   log, parametrised by `InsertRefines` and the specification of `dropInnerTable` (`DropSpec`).
5. `serialize_eq_elems`: `collect_map` hands out exactly the stored elements.
The hypotheses are discharged in `Hb/Props/C20.lean` (`insertRefines_RI`, `dropSpec_RI`, `invOk_RI`).
Everything lives in namespace `Hb.Serde`.
-/
import Hb.Model.Serde
import Hb.Model.Spec
import Hb.Proofs.Arith
import Hb.Proofs.Resize
import Hb.Proofs.Rehash

namespace Hb.Serde
open Hb
set_option linter.unusedVariables false

/-! ### 1. the reservation -/

theorem cautious_le (hint : Option Nat) : cautious hint ≤ 4096 := by
  unfold cautious; exact Nat.min_le_right _ _

theorem cautious_none : cautious none = 0 := rfl
theorem cautious_zero : cautious (some 0) = 0 := rfl

theorem cautious_le_hint (n : Nat) : cautious (some n) ≤ n := by
  unfold cautious; exact Nat.min_le_left _ _

/-- Bucket count requested for a capacity of at most 4096: at most 8192, whatever the element size,
    the group width and the width of `usize`. -/
theorem buckets_le_of_cap_le (bits W size cap b : Nat) (hcap : cap ≤ 4096)
    (h : capacityToBuckets bits W size cap = some b) : b ≤ 8192 := by
  by_cases hc : cap < 15
  · unfold capacityToBuckets at h
    rw [if_pos hc] at h
    simp only [Option.some.injEq] at h
    subst h
    repeat' split
    all_goals omega
  · have := capacityToBuckets_minimal bits W size cap b (by omega) h 13 (by omega)
    omega

theorem reserved_buckets_le (bits W size : Nat) (hint : Option Nat) (b : Nat)
    (h : capacityToBuckets bits W size (cautious hint) = some b) : b ≤ 8192 :=
  buckets_le_of_cap_le bits W size _ b (cautious_le hint) h

/-- The bound is attained: a claimed length of 4096 or more reserves exactly 8192 buckets. -/
theorem reserved_buckets_max (W size : Nat) (n : Nat) (hn : 4096 ≤ n) :
    capacityToBuckets 64 W size (cautious (some n)) = some 8192 := by
  have : cautious (some n) = 4096 := by unfold cautious; simp; omega
  rw [this]
  unfold capacityToBuckets
  rw [if_neg (by decide)]
  decide +kernel

theorem alignDown_eq_mul_div (x a : Nat) : alignDown x a = a * (x / a) := by
  unfold alignDown
  have := Nat.div_add_mod x a
  omega

theorem alignDown_mono (x y a : Nat) (h : x ≤ y) : alignDown x a ≤ alignDown y a := by
  rw [alignDown_eq_mul_div, alignDown_eq_mul_div]
  exact Nat.mul_le_mul_left _ (Nat.div_le_div_right h)

/-- The size of the block grows with the number of buckets. -/
theorem layout_size_mono (bits W size ca b b' : Nat) (l l' : Layout) (hb : b ≤ b')
    (h : calculateLayoutFor bits W size ca b = some l)
    (h' : calculateLayoutFor bits W size ca b' = some l') : l.size ≤ l'.size := by
  obtain ⟨_, _, ho, _, hs, _, _⟩ := calculateLayoutFor_eq_some _ _ _ _ _ _ h
  obtain ⟨_, _, ho', _, hs', _, _⟩ := calculateLayoutFor_eq_some _ _ _ _ _ _ h'
  have hm : size * b ≤ size * b' := Nat.mul_le_mul_left _ hb
  have := alignDown_mono (size * b + (ca - 1)) (size * b' + (ca - 1)) ca (by omega)
  omega

/-- Explicit byte bound: at most `size * 8192` bytes of slots, alignment padding, and
    `8192 + W` control bytes. -/
theorem layout_size_le (bits W size ca b : Nat) (l : Layout) (hb : b ≤ 8192)
    (h : calculateLayoutFor bits W size ca b = some l) :
    l.size ≤ size * 8192 + (ca - 1) + 8192 + W := by
  obtain ⟨_, _, ho, _, hs, _, _⟩ := calculateLayoutFor_eq_some _ _ _ _ _ _ h
  have hm : size * b ≤ size * 8192 := Nat.mul_le_mul_left _ hb
  have := alignDown_le (size * b + (ca - 1)) ca
  omega

theorem capacity_le_of_buckets_le (b : Nat) (hb : b ≤ 8192) :
    bucketMaskToCapacity (b - 1) ≤ 7168 := by
  unfold bucketMaskToCapacity
  split <;> omega

/-- A claimed length of `0` (or none at all) allocates nothing. -/
theorem withCapacity_cautious_zero (cfg : Cfg) (env : Env) (hint : Option Nat) (w : World)
    (h : hint = none ∨ hint = some 0) :
    withCapacity cfg env (cautious hint) w = .ok { w with t := Raw.new cfg.W } := by
  rcases h with rfl | rfl <;> rfl

/-- What `with_capacity(cautious(hint))` does to the world: nothing (static singleton), or exactly
    one allocator request for a block of `b ≤ 8192` buckets, hence capacity `≤ 7168`. -/
theorem withCapacity_cautious_spec (cfg : Cfg) (env : Env) (hint : Option Nat) (w w0 : World)
    (h : withCapacity cfg env (cautious hint) w = .ok w0) :
    (w0 = { w with t := Raw.new cfg.W }) ∨
    ∃ b l, b ≤ 8192 ∧ capacityToBuckets cfg.bits cfg.W cfg.size (cautious hint) = some b ∧
      calculateLayoutFor cfg.bits cfg.W cfg.size (ctrlAlignOf cfg) b = some l ∧
      w0.log = .alloc l.size l.align :: w.log ∧ w0.ac = w.ac + 1 ∧
      w0.t.mask = b - 1 ∧ w0.t.items = 0 ∧ w0.t.gl = bucketMaskToCapacity (b - 1) ∧
      w0.t.slots = Array.replicate b none := by
  unfold withCapacity fallibleWithCapacity at h
  by_cases hz : cautious hint = 0
  · left
    rw [if_pos hz] at h
    simp only [Res.ok.injEq] at h
    exact h.symm
  · right
    rw [if_neg hz] at h
    cases hb : capacityToBuckets cfg.bits cfg.W cfg.size (cautious hint) with
    | none => simp only [hb, capacityOverflow] at h; cases h
    | some b =>
      simp only [hb] at h
      unfold newTable at h
      cases hl : calculateLayoutFor cfg.bits cfg.W cfg.size (ctrlAlignOf cfg) b with
      | none => simp only [hl, capacityOverflow] at h; cases h
      | some l =>
        simp only [hl] at h
        unfold doAlloc at h
        by_cases ha : env.allocOk w.ac = true
        · simp only [ha, if_true, Res.ok.injEq] at h
          subst h
          exact ⟨b, l, reserved_buckets_le _ _ _ _ _ hb, rfl, hl, rfl, rfl, rfl, rfl, rfl, rfl⟩
        · simp only [ha, allocErr] at h
          cases h

/-! ### 2. the reference association list: last value wins, first key object stays -/

/-- The deterministic content of `AL.Step (.insert e)`: the list afterwards … -/
def insertF (l : AL) (e : Elem) : AL :=
  match l.find e.k with
  | none => e :: l
  | some _ => l.setVal e.k e.vid e.v

/-- … and the value returned. -/
def insertRet (l : AL) (e : Elem) : Option (Nat × Nat) := (l.find e.k).map fun o => (o.vid, o.v)

theorem step_insert_iff (P : AL.Pred) (e : Elem) (l l' : AL) (r : Ret) :
    AL.Step P (.insert e) l r l' ↔ (r = .val (insertRet l e) ∧ l' = insertF l e) := by
  constructor
  · intro h
    cases h with
    | insertNew _ _ h => simp [insertRet, insertF, h]
    | insertOld _ old _ h => simp [insertRet, insertF, h]
  · rintro ⟨rfl, rfl⟩
    cases h : l.find e.k with
    | none =>
      have := AL.Step.insertNew (P := P) e l h
      simpa [insertRet, insertF, h] using this
    | some old =>
      have := AL.Step.insertOld (P := P) e old l h
      simpa [insertRet, insertF, h] using this

/-- Feeding a token sequence into the abstract map: `insert` per token, in order. -/
def feedAL (l : AL) (toks : List Elem) : AL := toks.foldl insertF l

theorem feedAL_nil (l : AL) : feedAL l [] = l := rfl
theorem feedAL_cons (l : AL) (e : Elem) (rest : List Elem) :
    feedAL l (e :: rest) = feedAL (insertF l e) rest := rfl

/-- `feedAL` is a chain of `AL.Step`s. -/
inductive Steps (P : AL.Pred) : AL → List Elem → AL → Prop where
  | nil (l : AL) : Steps P l [] l
  | cons {l l1 l2 : AL} {e : Elem} {rest : List Elem} {r : Ret} :
      AL.Step P (.insert e) l r l1 → Steps P l1 rest l2 → Steps P l (e :: rest) l2

theorem steps_iff_feedAL (P : AL.Pred) (toks : List Elem) (l l' : AL) :
    Steps P l toks l' ↔ l' = feedAL l toks := by
  induction toks generalizing l with
  | nil =>
    constructor
    · intro h; cases h; rfl
    · rintro rfl; exact .nil _
  | cons e rest ih =>
    constructor
    · intro h
      cases h with
      | cons hs hr =>
        rw [step_insert_iff] at hs
        rw [feedAL_cons, ← hs.2]
        exact (ih _).1 hr
    · rintro rfl
      exact .cons ((step_insert_iff P e l _ _).2 ⟨rfl, rfl⟩) ((ih _).2 rfl)

/-- First / last token carrying key `k`. -/
def firstOcc (toks : List Elem) (k : Nat) : Option Elem := toks.find? (·.k == k)
def lastOcc (toks : List Elem) (k : Nat) : Option Elem := toks.reverse.find? (·.k == k)

/-- `x` with the value (object and payload) of `o`, if any. -/
def upd (x : Elem) (o : Option Elem) : Elem :=
  match o with
  | some la => { x with vid := la.vid, v := la.v }
  | none => x

theorem find_k {l : AL} {k : Nat} {x : Elem} (h : l.find k = some x) : x.k = k := by
  have := List.find?_some h
  simpa using this

theorem find_mem {l : AL} {k : Nat} {x : Elem} (h : l.find k = some x) : x ∈ l :=
  List.mem_of_find?_eq_some h

theorem find_none_iff (l : AL) (k : Nat) : l.find k = none ↔ k ∉ l.map (·.k) := by
  unfold AL.find
  rw [List.find?_eq_none]
  simp only [List.mem_map, not_exists, not_and]
  constructor
  · intro h x hx hk
    exact h x hx (by simp [hk])
  · intro h x hx hk
    exact h x hx (by simpa using hk)

theorem keys_setVal (l : AL) (k vid v : Nat) : (l.setVal k vid v).map (·.k) = l.map (·.k) := by
  unfold AL.setVal
  rw [List.map_map]
  apply List.map_congr_left
  intro x _
  simp only [Function.comp]
  split <;> rfl

theorem find_setVal (l : AL) (k k' vid v : Nat) :
    (l.setVal k' vid v).find k =
      (l.find k).map fun x => if x.k == k' then { x with vid := vid, v := v } else x := by
  unfold AL.find AL.setVal
  rw [List.find?_map]
  have hf : ((fun x : Elem => x.k == k) ∘ fun x : Elem =>
      if x.k == k' then { x with vid := vid, v := v } else x) = fun x => x.k == k := by
    funext x
    simp only [Function.comp]
    split <;> rfl
  rw [hf]

theorem find_insertF (l : AL) (e : Elem) (k : Nat) :
    (insertF l e).find k =
      if e.k = k then
        some (match l.find k with
          | some x => { x with vid := e.vid, v := e.v }
          | none => e)
      else l.find k := by
  unfold insertF
  cases h : l.find e.k with
  | none =>
    simp only
    by_cases hk : e.k = k
    · subst hk
      simp [AL.find] at h ⊢
      rw [show List.find? (fun x => x.k == e.k) l = none from by
        rw [List.find?_eq_none]; simpa using h]
    · simp only [AL.find, List.find?_cons, if_neg hk]
      have : (e.k == k) = false := by simpa using hk
      rw [this]
  | some o =>
    simp only
    rw [find_setVal]
    by_cases hk : e.k = k
    · subst hk
      rw [if_pos rfl, h]
      have hok := find_k h
      simp [hok]
    · rw [if_neg hk]
      cases h2 : l.find k with
      | none => rfl
      | some x =>
        have hx := find_k h2
        have : (x.k == e.k) = false := by
          simp only [beq_eq_false_iff_ne, ne_eq]; omega
        simp only [Option.map_some, this]
        rfl

theorem firstOcc_cons (e : Elem) (rest : List Elem) (k : Nat) :
    firstOcc (e :: rest) k = if e.k = k then some e else firstOcc rest k := by
  unfold firstOcc
  rw [List.find?_cons]
  by_cases hk : e.k = k
  · simp [hk]
  · have : (e.k == k) = false := by simpa using hk
    simp [this, hk]

theorem lastOcc_cons (e : Elem) (rest : List Elem) (k : Nat) :
    lastOcc (e :: rest) k = (lastOcc rest k).or (if e.k = k then some e else none) := by
  unfold lastOcc
  rw [List.reverse_cons, List.find?_append]
  congr 1
  by_cases hk : e.k = k
  · simp [hk]
  · have : (e.k == k) = false := by simpa using hk
    simp [this, hk]

theorem upd_upd (x : Elem) (e : Elem) (o : Option Elem) :
    upd { x with vid := e.vid, v := e.v } o = upd x (o.or (some e)) := by
  cases o <;> rfl

theorem upd_self (e : Elem) (o : Option Elem) : upd e o = upd e (o.or (some e)) := by
  cases o <;> rfl

/-- The general fold: what `find` returns after feeding `toks` into `l`. -/
theorem find_feedAL (toks : List Elem) (l : AL) (k : Nat) :
    (feedAL l toks).find k =
      match l.find k with
      | some x => some (upd x (lastOcc toks k))
      | none => (firstOcc toks k).map fun f => upd f (lastOcc toks k) := by
  induction toks generalizing l with
  | nil =>
    rw [feedAL_nil]
    cases l.find k <;> rfl
  | cons e rest ih =>
    rw [feedAL_cons, ih, find_insertF, firstOcc_cons, lastOcc_cons]
    by_cases hk : e.k = k
    · simp only [if_pos hk]
      cases h : l.find k with
      | none => simp only [Option.map_some]; rw [upd_self]
      | some x => simp only; rw [upd_upd]
    · simp only [if_neg hk, Option.or_none]

/-- **Last value wins, first key object stays**: after feeding `toks` into the empty map, key `k` is
    present iff some token carries it; the stored key object is that of the *first* such token, the
    value (object and payload) that of the *last*. -/
theorem last_wins (toks : List Elem) (k : Nat) :
    (feedAL [] toks).find k = (firstOcc toks k).map fun f => upd f (lastOcc toks k) := by
  rw [find_feedAL]; rfl

theorem insertF_nodup (l : AL) (e : Elem) (h : l.keysNodup) : (insertF l e).keysNodup := by
  unfold insertF
  cases hf : l.find e.k with
  | none =>
    simp only [AL.keysNodup, List.map_cons, List.nodup_cons]
    exact ⟨(find_none_iff l e.k).1 hf, h⟩
  | some o =>
    simp only [AL.keysNodup, keys_setVal]
    exact h

theorem feedAL_nodup (toks : List Elem) (l : AL) (h : l.keysNodup) : (feedAL l toks).keysNodup := by
  induction toks generalizing l with
  | nil => exact h
  | cons e rest ih => exact ih _ (insertF_nodup l e h)

theorem feedAL_keys (toks : List Elem) (k : Nat) :
    k ∈ (feedAL [] toks).map (·.k) ↔ k ∈ toks.map (·.k) := by
  have h1 := find_none_iff (feedAL [] toks) k
  have h2 : firstOcc toks k = none ↔ k ∉ toks.map (·.k) := find_none_iff toks k
  rw [last_wins] at h1
  constructor
  · intro h
    apply Classical.byContradiction
    intro hn
    have := h2.2 hn
    rw [this] at h1
    exact (h1.1 rfl) h
  · intro h
    apply Classical.byContradiction
    intro hn
    have := h1.2 hn
    cases hf : firstOcc toks k with
    | none => exact (h2.1 hf) h
    | some f => rw [hf] at this; cases this

/-- Without repeated keys nothing is replaced: the map holds exactly the tokens. -/
theorem feedAL_of_nodup (toks : List Elem) (l : AL)
    (h : (toks.map (·.k) ++ l.map (·.k)).Nodup) : feedAL l toks = toks.reverse ++ l := by
  induction toks generalizing l with
  | nil => rfl
  | cons e rest ih =>
    simp only [List.map_cons, List.cons_append, List.nodup_cons, List.mem_append, not_or] at h
    have hf : l.find e.k = none := (find_none_iff l e.k).2 h.1.2
    have hi : insertF l e = e :: l := by simp [insertF, hf]
    rw [feedAL_cons, hi, ih, List.reverse_cons, List.append_assoc]
    · rfl
    · simp only [List.map_cons]
      have := h.2
      rw [List.nodup_append] at this ⊢
      refine ⟨this.1, ?_, ?_⟩
      · simp only [List.nodup_cons]; exact ⟨h.1.2, this.2.1⟩
      · intro a ha b hb
        simp only [List.mem_cons] at hb
        rcases hb with rfl | hb
        · intro hab; subst hab; exact h.1.1 ha
        · exact this.2.2 a ha b hb

/-- **Round trip at the specification level**: deserialising the elements of a map (any order —
    `ser` is the iteration order) into the empty map yields the same map. -/
theorem roundtrip_spec (l ser : AL) (hn : l.keysNodup) (hp : ser.Perm l) : (feedAL [] ser).Perm l := by
  have hn' : (l.map (·.k)).Nodup := hn
  have hk : (ser.map (·.k)).Nodup := (hp.map (·.k)).nodup_iff.2 hn'
  rw [feedAL_of_nodup ser [] (by simpa using hk), List.append_nil]
  exact (List.reverse_perm ser).trans hp

theorem relabel_k (s : Bool) (base : Nat) (j : Nat) (l : List Elem) :
    (relabel s base j l).map (fun e => (e.k, e.v)) = l.map (fun e => (e.k, e.v)) := by
  induction l generalizing j with
  | nil => rfl
  | cons e rest ih => simp only [relabel, List.map_cons, ih]

theorem relabel_keys (s : Bool) (base : Nat) (j : Nat) (l : List Elem) :
    (relabel s base j l).map (·.k) = l.map (·.k) := by
  induction l generalizing j with
  | nil => rfl
  | cons e rest ih => simp only [relabel, List.map_cons, ih]

/-- Round trip with the fresh identities a deserialiser creates: the same key ↦ payload
    association (`HashMap`'s `==`). -/
theorem roundtrip_spec_relabel (l ser : AL) (s : Bool) (base : Nat) (hn : l.keysNodup)
    (hp : ser.Perm l) :
    ((feedAL [] (relabel s base 0 ser)).map fun e => (e.k, e.v)).Perm (l.map fun e => (e.k, e.v)) := by
  have hn' : (l.map (·.k)).Nodup := hn
  have hk : ((relabel s base 0 ser).map (·.k)).Nodup := by
    rw [relabel_keys]; exact (hp.map (·.k)).nodup_iff.2 hn'
  rw [feedAL_of_nodup _ [] (by simpa using hk), List.append_nil]
  refine ((List.reverse_perm _).map _).trans ?_
  rw [relabel_k]
  exact hp.map _

/-! ### 3. bridge to the table model (parametrised by the refinement of `Map.insert`) -/

theorem mem_find {l : AL} (hn : l.keysNodup) {x : Elem} (hx : x ∈ l) : l.find x.k = some x := by
  induction l with
  | nil => cases hx
  | cons a t ih =>
    simp only [AL.keysNodup, List.map_cons, List.nodup_cons] at hn
    simp only [AL.find, List.find?_cons]
    rcases List.mem_cons.1 hx with rfl | hx
    · simp
    · have hne : (a.k == x.k) = false := by
        simp only [beq_eq_false_iff_ne, ne_eq]
        intro h
        exact hn.1 (h ▸ List.mem_map_of_mem hx)
      rw [hne]
      exact ih hn.2 hx

theorem find_perm {l1 l2 : AL} (hn : l1.keysNodup) (hp : l1.Perm l2) (k : Nat) :
    l1.find k = l2.find k := by
  have hn' : (l1.map (·.k)).Nodup := hn
  have hn2' : (l2.map (·.k)).Nodup := (hp.map (·.k)).nodup_iff.1 hn'
  have hn2 : l2.keysNodup := hn2'
  cases h : l1.find k with
  | none =>
    have := (find_none_iff l1 k).1 h
    exact ((find_none_iff l2 k).2 fun hm => this ((hp.map (·.k)).mem_iff.2 hm)).symm
  | some x =>
    have hk := find_k h
    have := mem_find hn2 (hp.mem_iff.1 (find_mem h))
    rw [hk] at this
    exact this.symm

theorem insertF_perm {l1 l2 : AL} (hn : l1.keysNodup) (hp : l1.Perm l2) (e : Elem) :
    (insertF l1 e).Perm (insertF l2 e) := by
  unfold insertF
  rw [← find_perm hn hp e.k]
  cases l1.find e.k with
  | none => exact hp.cons e
  | some _ => exact hp.map _

theorem feedAL_perm (toks : List Elem) {l1 l2 : AL} (hn : l1.keysNodup) (hp : l1.Perm l2) :
    (feedAL l1 toks).Perm (feedAL l2 toks) := by
  induction toks generalizing l1 l2 with
  | nil => exact hp
  | cons e rest ih => exact ih (insertF_nodup l1 e hn) (insertF_perm hn hp e)

/-- Destructor events of a log (the same function as `Hb.dropsOf` of `Hb/Proofs/Refine.lean`). -/
def dropsOf (l : List Ev) : List Ev :=
  l.filter fun ev => match ev with
    | .dropK _ => true
    | .dropV _ => true
    | _ => false

/-- Per-step refinement of `Map.insert` with respect to an invariant `I` of the table — the
    statement of `insert_refines` (property C01, `Hb/Proofs/Refine.lean`) in conditional form:
    *if* the call returns, the new table satisfies `I`, its contents are those of the abstract
    `insert` (`AL.Step`), and the only destructor that ran is that of the spare key. -/
def InsertRefines (cfg : Cfg) (env : Env) (I : Raw → Prop) : Prop :=
  ∀ (e : Elem) (w w' : World) (r : Option (Nat × Nat)), I w.t →
    Map.insert cfg env e w = .ok (r, w') →
    I w'.t ∧
    match AL.find w.t.elems e.k with
    | none => r = none ∧ List.Perm w'.t.elems (e :: w.t.elems) ∧ dropsOf w'.log = dropsOf w.log
    | some old => r = some (old.vid, old.v) ∧
        List.Perm w'.t.elems (AL.setVal w.t.elems e.k e.vid e.v) ∧
        dropsOf w'.log = (if cfg.needsDrop then [Ev.dropK e.kid] else []) ++ dropsOf w.log

/-- Specification of `dropInnerTable` (`dropInnerTable_spec`, `Hb/Proofs/ApiBulk.lean`), `ok` case. -/
def DropSpec (cfg : Cfg) (env : Env) (I : Raw → Prop) : Prop :=
  ∀ (old : Raw) (w w' : World), I old → dropInnerTable cfg env old w = .ok w' →
    w'.t = w.t ∧
    w'.log = (if old.alloc = true then
        [Ev.free (layoutOf cfg old.buckets).size (layoutOf cfg old.buckets).align] else []) ++
      dropEvs cfg old.elems.reverse ++ w.log

/-- What the abstract specification and the model need to know about the invariant. -/
structure InvOk (cfg : Cfg) (env : Env) (I : Raw → Prop) : Prop where
  nodup : ∀ t, I t → AL.keysNodup t.elems
  fresh : ∀ n w w0, withCapacity cfg env n w = .ok w0 → I w0.t

variable {cfg : Cfg} {env : Env} {I : Raw → Prop}

theorem InsertRefines.step (hI : InsertRefines cfg env I) {e : Elem} {w w' : World}
    {r : Option (Nat × Nat)} (hw : I w.t) (h : Map.insert cfg env e w = .ok (r, w')) :
    I w'.t ∧ r = insertRet w.t.elems e ∧ w'.t.elems.Perm (insertF w.t.elems e) ∧
      AL.Step (fun x => (true, x.v)) (.insert e) w.t.elems (.val r) (insertF w.t.elems e) := by
  obtain ⟨h1, h2⟩ := hI e w w' r hw h
  refine ⟨h1, ?_⟩
  cases hf : AL.find w.t.elems e.k with
  | none =>
    rw [hf] at h2
    have hr : r = insertRet w.t.elems e := by simp [insertRet, hf, h2.1]
    refine ⟨hr, by simpa [insertF, hf] using h2.2.1, ?_⟩
    rw [step_insert_iff]; exact ⟨by rw [hr], rfl⟩
  | some old =>
    rw [hf] at h2
    have hr : r = insertRet w.t.elems e := by simp [insertRet, hf, h2.1]
    refine ⟨hr, by simpa [insertF, hf] using h2.2.1, ?_⟩
    rw [step_insert_iff]; exact ⟨by rw [hr], rfl⟩

theorem discard_t (cfg : Cfg) (r : Option (Nat × Nat)) (w : World) : (discard cfg r w).t = w.t := by
  unfold discard dropVal
  split
  · split <;> rfl
  · rfl

theorem feed_never (hI : InsertRefines cfg env I) (hok : InvOk cfg env I) :
    ∀ (toks : List Elem) (i : Nat) (w w' : World) (x : Except Unit Unit), I w.t →
      feed cfg env .never i toks w = .ok (x, w') →
      x = .ok () ∧ I w'.t ∧ w'.t.elems.Perm (feedAL w.t.elems toks) := by
  intro toks
  induction toks with
  | nil =>
    intro i w w' x hw h
    simp only [feed, reduceCtorEq, if_false, Res.ok.injEq, Prod.mk.injEq] at h
    obtain ⟨rfl, rfl⟩ := h
    exact ⟨rfl, hw, List.Perm.refl _⟩
  | cons e rest ih =>
    intro i w w' x hw h
    simp only [feed, reduceCtorEq, if_false] at h
    cases hm : Map.insert cfg env e w with
    | ok p =>
      obtain ⟨r, w1⟩ := p
      rw [hm] at h
      simp only at h
      obtain ⟨h1, _, h3, _⟩ := hI.step hw hm
      have hw1 : I (discard cfg r w1).t := by rw [discard_t]; exact h1
      obtain ⟨hx, hi, hp⟩ := ih (i + 1) _ w' x hw1 h
      rw [discard_t] at hp
      exact ⟨hx, hi, hp.trans (feedAL_perm rest (hok.nodup _ h1) h3)⟩
    | panic c w2 => rw [hm] at h; cases h
    | abort => rw [hm] at h; cases h
    | fault f => rw [hm] at h; cases h

theorem filterMap_replicate_none {α} (n : Nat) :
    (List.replicate n (none : Option α)).filterMap id = [] := by
  induction n with
  | zero => rfl
  | succ n ih => simp

theorem withCapacity_cautious_elems (cfg : Cfg) (env : Env) (hint : Option Nat) (w w0 : World)
    (h : withCapacity cfg env (cautious hint) w = .ok w0) :
    w0.t.elems = [] ∧ dropsOf w0.log = dropsOf w.log := by
  rcases withCapacity_cautious_spec cfg env hint w w0 h with rfl | ⟨b, l, _, _, _, hlog, _, _, _, _, hs⟩
  · exact ⟨rfl, rfl⟩
  · refine ⟨?_, ?_⟩
    · rw [Raw.elems, hs, Array.toList_replicate, filterMap_replicate_none]
    · rw [hlog]; rfl

/-- **Last wins, table level.** If `visit_map` (no input error) returns, the deserialised table
    satisfies the invariant, holds exactly `feedAL [] toks` up to bucket order, and looking a key
    up yields the key object of its first and the value of its last occurrence in the input. -/
theorem visit_last_wins (hI : InsertRefines cfg env I) (hok : InvOk cfg env I)
    (hint : Option Nat) (toks : List Elem) (w w' : World)
    (h : visitMapGen cfg env hint toks .never w = .ok (.ok (), w')) :
    I w'.t ∧ w'.t.elems.Perm (feedAL [] toks) ∧
    ∀ k, AL.find w'.t.elems k = (firstOcc toks k).map fun f => upd f (lastOcc toks k) := by
  unfold visitMapGen at h
  cases hc : withCapacity cfg env (cautious hint) w with
  | ok w0 =>
    rw [hc] at h
    simp only at h
    have hw0 := hok.fresh _ _ _ hc
    have he0 := (withCapacity_cautious_elems cfg env hint w w0 hc).1
    cases hf : feed cfg env .never 0 toks w0 with
    | ok p =>
      obtain ⟨x, w1⟩ := p
      obtain ⟨hx, hi, hp⟩ := feed_never hI hok toks 0 w0 w1 x hw0 hf
      subst hx
      rw [hf] at h
      simp only [Res.ok.injEq, Prod.mk.injEq, true_and] at h
      subst h
      rw [he0] at hp
      refine ⟨hi, hp, fun k => ?_⟩
      rw [find_perm (hok.nodup _ hi) hp k, last_wins]
    | panic c w2 =>
      rw [hf] at h
      simp only at h
      split at h <;> cases h
    | abort => rw [hf] at h; cases h
    | fault f => rw [hf] at h; cases h
  | panic c w2 => rw [hc] at h; cases h
  | abort => rw [hc] at h; cases h
  | fault f => rw [hc] at h; cases h

/-! ### 4. ledger of a failed `visit_map` -/

theorem dropsOf_append (a b : List Ev) : dropsOf (a ++ b) = dropsOf a ++ dropsOf b := by
  unfold dropsOf; exact List.filter_append ..

theorem dropsOf_dropEvs (cfg : Cfg) (ds : List Elem) : dropsOf (dropEvs cfg ds) = dropEvs cfg ds := by
  unfold dropEvs
  split
  · induction ds with
    | nil => rfl
    | cons e t ih => simp only [List.flatMap_cons, dropsOf_append, ih]; rfl
  · rfl

/-- The events of dropping one value / one key object. -/
def vOf (cfg : Cfg) (vid : Nat) : List Ev := if cfg.needsDrop then [Ev.dropV vid] else []
def kOf (cfg : Cfg) (kid : Nat) : List Ev := if cfg.needsDrop then [Ev.dropK kid] else []

theorem dropEvs_single (cfg : Cfg) (e : Elem) : dropEvs cfg [e] = vOf cfg e.vid ++ kOf cfg e.kid := by
  unfold dropEvs vOf kOf; split <;> rfl

theorem dropEvs_cons (cfg : Cfg) (e : Elem) (ds : List Elem) :
    dropEvs cfg (e :: ds) = vOf cfg e.vid ++ kOf cfg e.kid ++ dropEvs cfg ds := by
  rw [← dropEvs_single]; exact dropEvs_append cfg [e] ds

theorem dropEvs_perm (cfg : Cfg) {a b : List Elem} (h : a.Perm b) :
    (dropEvs cfg a).Perm (dropEvs cfg b) := by
  unfold dropEvs; split
  · exact h.flatMap_right _
  · exact List.Perm.refl _

theorem setVal_of_not_mem (l : AL) (k vid v : Nat) (h : k ∉ l.map (·.k)) : l.setVal k vid v = l := by
  unfold AL.setVal
  conv => rhs; rw [← List.map_id l]
  apply List.map_congr_left
  intro x hx
  have : (x.k == k) = false := by
    simp only [beq_eq_false_iff_ne, ne_eq]
    intro hk; exact h (hk ▸ List.mem_map_of_mem hx)
  simp [this]

/-- Replacing the value stored under `k`: the value objects held change by exactly one. -/
theorem setVal_ledger (cfg : Cfg) (l : AL) (k vid v : Nat) (old : Elem) (hn : l.keysNodup)
    (hf : l.find k = some old) :
    (dropEvs cfg (l.setVal k vid v) ++ vOf cfg old.vid).Perm (vOf cfg vid ++ dropEvs cfg l) := by
  induction l with
  | nil => cases hf
  | cons a t ih =>
    have hn' : ((a :: t).map (·.k)).Nodup := hn
    simp only [List.map_cons, List.nodup_cons] at hn'
    by_cases hk : a.k = k
    · have hold : old = a := by
        simp only [AL.find, List.find?_cons, hk, beq_self_eq_true] at hf
        exact (Option.some.inj hf).symm
      subst hold
      have hset : AL.setVal (old :: t) k vid v = { old with vid := vid, v := v } :: t := by
        have ht := setVal_of_not_mem t k vid v (hk ▸ hn'.1)
        simp only [AL.setVal, List.map_cons, hk, beq_self_eq_true, if_true] at ht ⊢
        rw [ht]
      rw [hset, dropEvs_cons, dropEvs_cons, List.perm_iff_count]
      intro x
      simp only [List.count_append]
      omega
    · have hne : (a.k == k) = false := by simpa using hk
      have hf' : AL.find t k = some old := by
        simpa only [AL.find, List.find?_cons, hne] using hf
      have hset : AL.setVal (a :: t) k vid v = a :: AL.setVal t k vid v := by
        simp only [AL.setVal, List.map_cons, hne]; rfl
      have ih' := fun x => (ih hn'.2 hf').count_eq x
      rw [hset, dropEvs_cons, dropEvs_cons, List.perm_iff_count]
      intro x
      have := ih' x
      simp only [List.count_append] at this ⊢
      omega

theorem dropsOf_discard (cfg : Cfg) (r : Option (Nat × Nat)) (w : World) :
    dropsOf (discard cfg r w).log =
      (match r with | some p => vOf cfg p.1 | none => []) ++ dropsOf w.log := by
  unfold discard dropVal vOf
  cases r with
  | none => rfl
  | some p =>
    obtain ⟨vid, v⟩ := p
    simp only
    split <;> rfl

/-- Destructor events so far together with those still owed for the elements the table holds. -/
def ledgerOf (cfg : Cfg) (w : World) : List Ev := dropsOf w.log ++ dropEvs cfg w.t.elems

/-- One `values.insert(key, value);`: the ledger grows by exactly the new key and value object. -/
theorem insert_ledger (hI : InsertRefines cfg env I) (hok : InvOk cfg env I) {e : Elem}
    {w w1 : World} {r : Option (Nat × Nat)} (hw : I w.t)
    (h : Map.insert cfg env e w = .ok (r, w1)) :
    (ledgerOf cfg (discard cfg r w1)).Perm (dropEvs cfg [e] ++ ledgerOf cfg w) := by
  obtain ⟨_, h2⟩ := hI e w w1 r hw h
  unfold ledgerOf
  rw [dropsOf_discard, discard_t, dropEvs_single]
  cases hf : AL.find w.t.elems e.k with
  | none =>
    rw [hf] at h2
    obtain ⟨rfl, hp, hd⟩ := h2
    have hc := fun x => (dropEvs_perm cfg hp).count_eq x
    rw [dropEvs_cons] at hc
    rw [hd, List.perm_iff_count]
    intro x
    have := hc x
    simp only [List.count_append, List.count_nil] at this ⊢
    omega
  | some old =>
    rw [hf] at h2
    obtain ⟨rfl, hp, hd⟩ := h2
    have hc := fun x => (dropEvs_perm cfg hp).count_eq x
    have hs := fun x => (setVal_ledger cfg w.t.elems e.k e.vid e.v old (hok.nodup _ hw) hf).count_eq x
    rw [hd, List.perm_iff_count]
    intro x
    have h1 := hc x
    have h2 := hs x
    simp only [List.count_append, kOf, vOf] at h1 h2 ⊢
    omega

/-- The loop up to an input error at `next_key` call `j`: exactly the first `j` entries have been
    built and handed to `insert`. -/
theorem feed_error_ledger (hI : InsertRefines cfg env I) (hok : InvOk cfg env I) (j : Nat)
    (base : List Ev) :
    ∀ (toks : List Elem) (i : Nat) (w w1 : World) (built : List Elem), i ≤ j → I w.t →
      (ledgerOf cfg w).Perm (dropEvs cfg built ++ base) →
      feed cfg env (.atKey j) i toks w = .ok (.error (), w1) →
      I w1.t ∧ j - i ≤ toks.length ∧
      (ledgerOf cfg w1).Perm (dropEvs cfg (built ++ toks.take (j - i)) ++ base) ∧
      w1.t.elems.Perm (feedAL w.t.elems (toks.take (j - i))) := by
  intro toks
  induction toks with
  | nil =>
    intro i w w1 built hij hw hl h
    simp only [feed, Fail.atKey.injEq] at h
    split at h
    · rename_i hji
      simp only [Res.ok.injEq, Prod.mk.injEq, true_and] at h
      subst h
      subst hji
      simpa using ⟨hw, hl, List.Perm.refl _⟩
    · cases h
  | cons e rest ih =>
    intro i w w1 built hij hw hl h
    simp only [feed, Fail.atKey.injEq, reduceCtorEq, if_false] at h
    by_cases hji : j = i
    · rw [if_pos hji] at h
      simp only [Res.ok.injEq, Prod.mk.injEq, true_and] at h
      subst h
      subst hji
      simpa using ⟨hw, hl, List.Perm.refl _⟩
    · rw [if_neg hji] at h
      cases hm : Map.insert cfg env e w with
      | ok p =>
        obtain ⟨r, w2⟩ := p
        rw [hm] at h
        simp only at h
        obtain ⟨h1, _, h3, _⟩ := hI.step hw hm
        have hw2 : I (discard cfg r w2).t := by rw [discard_t]; exact h1
        have hl2 : (ledgerOf cfg (discard cfg r w2)).Perm (dropEvs cfg (built ++ [e]) ++ base) := by
          have hs := insert_ledger hI hok hw hm
          rw [dropEvs_append]
          rw [List.perm_iff_count] at hs hl ⊢
          intro x
          have a := hs x
          have b := hl x
          simp only [List.count_append] at a b ⊢
          omega
        obtain ⟨hi, hlen, hled, hel⟩ := ih (i + 1) _ w1 (built ++ [e]) (by omega) hw2 hl2 h
        have hsub : j - i = (j - (i + 1)) + 1 := by omega
        rw [discard_t] at hel
        refine ⟨hi, by simp only [List.length_cons]; omega, ?_, ?_⟩
        · rw [hsub, List.take_succ_cons]
          simpa [List.append_assoc] using hled
        · rw [hsub, List.take_succ_cons, feedAL_cons]
          exact hel.trans (feedAL_perm _ (hok.nodup _ h1) h3)
      | panic c w3 => rw [hm] at h; cases h
      | abort => rw [hm] at h; cases h
      | fault f => rw [hm] at h; cases h

/-- **Error part-way.** `visit_map` whose input reports an error at `next_key` call `j`
    (`j ≤ toks.length`; the entries before `j` have been built) and which returns that error:
    * the world's table is `NEW` again — the partially built map is gone;
    * the destructor events added to the log are, as a multiset, exactly one `dropK` and one `dropV`
      for every entry built (`toks.take j`): nothing leaks, nothing is dropped twice;
    * the log ends with the partially built table `t1` being torn down: its elements
      (`feedAL [] (toks.take j)` up to order) are dropped and its block, if it has one, is freed. -/
theorem error_midway_ledger (hI : InsertRefines cfg env I) (hD : DropSpec cfg env I)
    (hok : InvOk cfg env I) (hint : Option Nat) (toks : List Elem) (j : Nat) (w w' : World)
    (h : visitMap cfg env hint toks (some j) w = .ok (.error (), w')) :
    j ≤ toks.length ∧ w'.t = Raw.new cfg.W ∧
    (dropsOf w'.log).Perm (dropEvs cfg (toks.take j) ++ dropsOf w.log) ∧
    ∃ (t1 : Raw) (log1 : List Ev), I t1 ∧ t1.elems.Perm (feedAL [] (toks.take j)) ∧
      w'.log = (if t1.alloc = true then
          [Ev.free (layoutOf cfg t1.buckets).size (layoutOf cfg t1.buckets).align] else []) ++
        dropEvs cfg t1.elems.reverse ++ log1 := by
  unfold visitMap visitMapGen Fail.ofOption at h
  cases hc : withCapacity cfg env (cautious hint) w with
  | ok w0 =>
    rw [hc] at h
    simp only at h
    have hw0 := hok.fresh _ _ _ hc
    obtain ⟨he0, hd0⟩ := withCapacity_cautious_elems cfg env hint w w0 hc
    have hl0 : (ledgerOf cfg w0).Perm (dropEvs cfg [] ++ dropsOf w.log) := by
      unfold ledgerOf; rw [he0, hd0, dropEvs_nil]; simp
    cases hf : feed cfg env (.atKey j) 0 toks w0 with
    | ok p =>
      obtain ⟨x, w1⟩ := p
      rw [hf] at h
      cases x with
      | ok u => cases u; simp only at h; cases h
      | error u =>
        cases u
        simp only at h
        obtain ⟨hi, hlen, hled, hel⟩ := feed_error_ledger hI hok j (dropsOf w.log) toks 0 w0 w1 []
          (Nat.zero_le _) hw0 hl0 hf
        simp only [Nat.sub_zero, List.nil_append] at hlen hled hel
        rw [he0] at hel
        cases hdl : dropLocal cfg env w1 with
        | ok w2 =>
          rw [hdl] at h
          simp only [Res.ok.injEq, Prod.mk.injEq, true_and] at h
          subst h
          obtain ⟨ht, hlog⟩ := hD w1.t _ w2 hi hdl
          refine ⟨hlen, ht, ?_, w1.t, w1.log, hi, hel, hlog⟩
          rw [hlog, dropsOf_append, dropsOf_append, dropsOf_dropEvs]
          have hfree : dropsOf (if w1.t.alloc = true then
              [Ev.free (layoutOf cfg w1.t.buckets).size (layoutOf cfg w1.t.buckets).align] else []) = [] := by
            split <;> rfl
          have hrev := fun x => (dropEvs_perm cfg (List.reverse_perm w1.t.elems)).count_eq x
          rw [hfree, List.perm_iff_count]
          unfold ledgerOf at hled
          rw [List.perm_iff_count] at hled
          intro x
          have a := hled x
          have b := hrev x
          simp only [List.count_append, List.count_nil] at a b ⊢
          omega
        | panic c w3 => rw [hdl] at h; cases h
        | abort => rw [hdl] at h; cases h
        | fault f => rw [hdl] at h; cases h
    | panic c w2 =>
      rw [hf] at h
      simp only at h
      split at h <;> cases h
    | abort => rw [hf] at h; cases h
    | fault f => rw [hf] at h; cases h
  | panic c w2 => rw [hc] at h; cases h
  | abort => rw [hc] at h; cases h
  | fault f => rw [hc] at h; cases h

/-! #### error at the *value* of entry `j` (its key object exists already) -/

theorem dropKeyR_ok {cfg : Cfg} {env : Env} {kid : Nat} {w w1 : World}
    (h : dropKeyR cfg env kid w = .ok w1) :
    w1.t = w.t ∧ dropsOf w1.log = kOf cfg kid ++ dropsOf w.log := by
  unfold dropKeyR dropKey at h
  unfold kOf
  by_cases hn : cfg.needsDrop = true
  · simp only [hn, if_true] at h ⊢
    split at h
    · cases h
    · simp only [Res.ok.injEq] at h
      subst h
      exact ⟨rfl, rfl⟩
  · simp only [hn] at h ⊢
    simp only [Bool.false_eq_true, if_false, Res.ok.injEq] at h
    subst h
    exact ⟨rfl, rfl⟩

theorem feed_error_ledger_val (hI : InsertRefines cfg env I) (hok : InvOk cfg env I) (j : Nat)
    (base : List Ev) :
    ∀ (toks : List Elem) (i : Nat) (w w1 : World) (built : List Elem), i ≤ j → I w.t →
      (ledgerOf cfg w).Perm (dropEvs cfg built ++ base) →
      feed cfg env (.atVal j) i toks w = .ok (.error (), w1) →
      ∃ e, toks[j - i]? = some e ∧ I w1.t ∧
      (ledgerOf cfg w1).Perm (kOf cfg e.kid ++ (dropEvs cfg (built ++ toks.take (j - i)) ++ base)) ∧
      w1.t.elems.Perm (feedAL w.t.elems (toks.take (j - i))) := by
  intro toks
  induction toks with
  | nil =>
    intro i w w1 built hij hw hl h
    simp only [feed, reduceCtorEq, if_false, Res.ok.injEq, Prod.mk.injEq] at h
    cases h.1
  | cons e rest ih =>
    intro i w w1 built hij hw hl h
    simp only [feed, reduceCtorEq, if_false, Fail.atVal.injEq] at h
    by_cases hji : j = i
    · rw [if_pos hji] at h
      subst hji
      cases hd : dropKeyR cfg env e.kid w with
      | ok w2 =>
        rw [hd] at h
        simp only [Res.ok.injEq, Prod.mk.injEq, true_and] at h
        subst h
        obtain ⟨ht, hlog⟩ := dropKeyR_ok hd
        refine ⟨e, by simp, by rw [ht]; exact hw, ?_, by rw [ht]; simp [feedAL]⟩
        unfold ledgerOf at hl ⊢
        rw [ht, hlog]
        rw [List.perm_iff_count] at hl ⊢
        intro x
        have := hl x
        simp only [Nat.sub_self, List.take_zero, List.append_nil, List.count_append] at this ⊢
        omega
      | panic c w3 => rw [hd] at h; cases h
      | abort => rw [hd] at h; cases h
      | fault f => rw [hd] at h; cases h
    · rw [if_neg hji] at h
      cases hm : Map.insert cfg env e w with
      | ok p =>
        obtain ⟨r, w2⟩ := p
        rw [hm] at h
        simp only at h
        obtain ⟨h1, _, h3, _⟩ := hI.step hw hm
        have hw2 : I (discard cfg r w2).t := by rw [discard_t]; exact h1
        have hl2 : (ledgerOf cfg (discard cfg r w2)).Perm (dropEvs cfg (built ++ [e]) ++ base) := by
          have hs := insert_ledger hI hok hw hm
          rw [dropEvs_append]
          rw [List.perm_iff_count] at hs hl ⊢
          intro x
          have a := hs x
          have b := hl x
          simp only [List.count_append] at a b ⊢
          omega
        obtain ⟨e', hget, hi, hled, hel⟩ := ih (i + 1) _ w1 (built ++ [e]) (by omega) hw2 hl2 h
        have hsub : j - i = (j - (i + 1)) + 1 := by omega
        rw [discard_t] at hel
        refine ⟨e', by rw [hsub, List.getElem?_cons_succ]; exact hget, hi, ?_, ?_⟩
        · rw [hsub, List.take_succ_cons]
          simpa [List.append_assoc] using hled
        · rw [hsub, List.take_succ_cons, feedAL_cons]
          exact hel.trans (feedAL_perm _ (hok.nodup _ h1) h3)
      | panic c w3 => rw [hm] at h; cases h
      | abort => rw [hm] at h; cases h
      | fault f => rw [hm] at h; cases h

/-- **Error at a value.** `visit_map` whose input fails at `next_value` of entry `j`: the entries
    before `j` and the *key* of entry `j` were built; each of these objects is dropped exactly once. -/
theorem error_at_value_ledger (hI : InsertRefines cfg env I) (hD : DropSpec cfg env I)
    (hok : InvOk cfg env I) (hint : Option Nat) (toks : List Elem) (j : Nat) (w w' : World)
    (h : visitMapGen cfg env hint toks (.atVal j) w = .ok (.error (), w')) :
    ∃ e, toks[j]? = some e ∧ w'.t = Raw.new cfg.W ∧
    (dropsOf w'.log).Perm (kOf cfg e.kid ++ (dropEvs cfg (toks.take j) ++ dropsOf w.log)) := by
  unfold visitMapGen at h
  cases hc : withCapacity cfg env (cautious hint) w with
  | ok w0 =>
    rw [hc] at h
    simp only at h
    have hw0 := hok.fresh _ _ _ hc
    obtain ⟨he0, hd0⟩ := withCapacity_cautious_elems cfg env hint w w0 hc
    have hl0 : (ledgerOf cfg w0).Perm (dropEvs cfg [] ++ dropsOf w.log) := by
      unfold ledgerOf; rw [he0, hd0, dropEvs_nil]; simp
    cases hf : feed cfg env (.atVal j) 0 toks w0 with
    | ok p =>
      obtain ⟨x, w1⟩ := p
      rw [hf] at h
      cases x with
      | ok u => cases u; simp only at h; cases h
      | error u =>
        cases u
        simp only at h
        obtain ⟨e, hget, hi, hled, _⟩ := feed_error_ledger_val hI hok j (dropsOf w.log) toks 0 w0 w1 []
          (Nat.zero_le _) hw0 hl0 hf
        simp only [Nat.sub_zero, List.nil_append] at hget hled
        cases hdl : dropLocal cfg env w1 with
        | ok w2 =>
          rw [hdl] at h
          simp only [Res.ok.injEq, Prod.mk.injEq, true_and] at h
          subst h
          obtain ⟨ht, hlog⟩ := hD w1.t _ w2 hi hdl
          refine ⟨e, hget, ht, ?_⟩
          rw [hlog, dropsOf_append, dropsOf_append, dropsOf_dropEvs]
          have hfree : dropsOf (if w1.t.alloc = true then
              [Ev.free (layoutOf cfg w1.t.buckets).size (layoutOf cfg w1.t.buckets).align] else []) = [] := by
            split <;> rfl
          have hrev := fun x => (dropEvs_perm cfg (List.reverse_perm w1.t.elems)).count_eq x
          rw [hfree, List.perm_iff_count]
          unfold ledgerOf at hled
          rw [List.perm_iff_count] at hled
          intro x
          have a := hled x
          have b := hrev x
          simp only [List.count_append, List.count_nil] at a b ⊢
          omega
        | panic c w3 => rw [hdl] at h; cases h
        | abort => rw [hdl] at h; cases h
        | fault f => rw [hdl] at h; cases h
    | panic c w2 =>
      rw [hf] at h
      simp only at h
      split at h <;> cases h
    | abort => rw [hf] at h; cases h
    | fault f => rw [hf] at h; cases h
  | panic c w2 => rw [hc] at h; cases h
  | abort => rw [hc] at h; cases h
  | fault f => rw [hc] at h; cases h

/-! ### 5. serialisation yields the stored elements -/

theorem mapM_slotGet (t : Raw) (l : List Nat) (ser : List Elem)
    (h : l.mapM (slotGet t) = .ok ser) : ser = l.filterMap fun i => t.slots[i]?.join := by
  induction l generalizing ser with
  | nil =>
    simp only [List.mapM_nil, pure, Except.pure, Except.ok.injEq] at h
    subst h; rfl
  | cons a rest ih =>
    rw [List.mapM_cons] at h
    cases ha : slotGet t a with
    | error f => rw [ha] at h; cases h
    | ok e =>
      rw [ha] at h
      cases hr : rest.mapM (slotGet t) with
      | error f => rw [hr] at h; cases h
      | ok tl =>
        rw [hr] at h
        simp only [bind, Except.bind, pure, Except.pure, Except.ok.injEq] at h
        subst h
        have hj : t.slots[a]?.join = some e := by
          unfold slotGet at ha
          split at ha
          · rename_i x hx
            simp only [Except.ok.injEq] at ha
            subst ha
            rw [hx]; rfl
          · cases ha
          · cases ha
        rw [List.filterMap_cons, hj, ← ih tl hr]

/-- `collect_map(self)` hands the serialiser exactly the stored elements, in bucket order. -/
theorem serialize_eq_elems (hc : CfgOk cfg) {t : Raw} (h : Inv cfg t) (ser : List Elem)
    (hs : serialize cfg t = .ok ser) : ser = t.elems := by
  unfold serialize at hs
  rw [fullIndices_spec hc h] at hs
  simp only at hs
  rw [elems_eq_fullList h]
  exact mapM_slotGet t _ ser hs

end Hb.Serde
