import Hb.Model.Arith
import Hb.Model.Group
import Hb.Model.Raw
import Hb.Model.Iter
import Hb.Model.Api
