//! `hashbrown::HashTable<T>` (explicit-hash API, src/table.rs) for the line protocol.
//!
//! Conventions (mirrored by `lean/Hb/Model/Table.lean` / `lean/Hb/Driver/TableOps.lean`):
//! * the `hash` argument of every call is `tape::plan_hash(k)` (does not consume the hash tape);
//!   the `hasher` closure is `|e| tape::hash_of(e.k)` (consumes the tape, may panic);
//!   equality closures are `|e| tape::eq_of(q, e.k)`;
//! * elements are printed `k.id.0.v`; a zero-sized element has no fields: `k = id = v = 0`, writes
//!   to `v` are no-ops, and iterator observations print `0` for every yielded bucket (a `&Zst`
//!   carries no address);
//! * new elements of an operation are constructed before the call, i.e. they are owned by the
//!   operation: they are dropped when a callback unwinds or when the operation does not consume them.
use crate::elems::Pad;
use crate::elems::{A16, A32, A64, Big};
use crate::exec::{self, fmt_state, fmt_tre, inv_oracle, lawful, loud, nats, observe_iter, observe_iter_nc, panic_class, quiet, Runner};
use crate::tape::{self, TapeAlloc};
use hashbrown::hash_table::Entry;
use hashbrown::verif::Dump;
use hashbrown::HashTable;
use std::collections::HashMap as StdMap;
use std::panic::{catch_unwind, AssertUnwindSafe};

pub trait ItemT: Clone + 'static {
    const DROP: bool;
    const IDS: bool;
    const ZST: bool;
    fn new(k: u64, id: u64, v: u64) -> Self;
    fn k(&self) -> u64;
    fn id(&self) -> u64;
    fn v(&self) -> u64;
    fn set_v(&mut self, v: u64);
}

/// Element with drop glue.
pub struct ItemD<P: Pad = ()> {
    pub k: u64,
    pub id: u64,
    pub v: u64,
    pub pad: P,
}
impl<P: Pad> Drop for ItemD<P> {
    fn drop(&mut self) {
        tape::drop_key(self.id);
    }
}
impl<P: Pad> Clone for ItemD<P> {
    fn clone(&self) -> Self {
        ItemD { k: self.k, id: tape::clone_key(), v: self.v, pad: self.pad }
    }
}
impl<P: Pad> ItemT for ItemD<P> {
    const DROP: bool = true;
    const IDS: bool = true;
    const ZST: bool = false;
    fn new(k: u64, id: u64, v: u64) -> Self {
        ItemD { k, id, v, pad: P::default() }
    }
    fn k(&self) -> u64 {
        self.k
    }
    fn id(&self) -> u64 {
        self.id
    }
    fn v(&self) -> u64 {
        self.v
    }
    fn set_v(&mut self, v: u64) {
        self.v = v
    }
}

/// Element without drop glue.
#[derive(Copy)]
pub struct ItemC<P: Pad = ()> {
    pub k: u64,
    pub id: u64,
    pub v: u64,
    pub pad: P,
}
impl<P: Pad> Clone for ItemC<P> {
    fn clone(&self) -> Self {
        ItemC { k: self.k, id: tape::clone_key(), v: self.v, pad: self.pad }
    }
}
impl<P: Pad> ItemT for ItemC<P> {
    const DROP: bool = false;
    const IDS: bool = true;
    const ZST: bool = false;
    fn new(k: u64, id: u64, v: u64) -> Self {
        ItemC { k, id, v, pad: P::default() }
    }
    fn k(&self) -> u64 {
        self.k
    }
    fn id(&self) -> u64 {
        self.id
    }
    fn v(&self) -> u64 {
        self.v
    }
    fn set_v(&mut self, v: u64) {
        self.v = v
    }
}

/// Zero-sized element. `Clone` still consumes the clone tape (one call per element).
#[derive(Copy)]
pub struct Zst;
impl Clone for Zst {
    fn clone(&self) -> Self {
        let _ = tape::clone_key();
        Zst
    }
}
impl ItemT for Zst {
    const DROP: bool = false;
    const IDS: bool = false;
    const ZST: bool = true;
    fn new(_: u64, _: u64, _: u64) -> Self {
        Zst
    }
    fn k(&self) -> u64 {
        0
    }
    fn id(&self) -> u64 {
        0
    }
    fn v(&self) -> u64 {
        0
    }
    fn set_v(&mut self, _: u64) {}
}

pub type HT<T> = HashTable<T, TapeAlloc>;
/// Reference multiset: `(k, id, v)` per stored element.
pub type Ms = Vec<(u64, u64, u64)>;

fn new_table<T: ItemT>() -> HT<T> {
    HashTable::new_in(TapeAlloc)
}

fn fmt_item<T: ItemT>(e: &T) -> String {
    if T::IDS {
        format!("{}.{}.0.{}", e.k(), e.id(), e.v())
    } else {
        format!("{}.0.0.{}", e.k(), e.v())
    }
}

fn fmt_items<T: ItemT>(v: &[T]) -> String {
    v.iter().map(fmt_item).collect::<Vec<_>>().join(",")
}

fn full_buckets<T: ItemT>(m: &HT<T>) -> Vec<(usize, &T)> {
    let d = m.verif_dump();
    let mut out = Vec::new();
    if !d.is_singleton {
        for i in 0..=d.bucket_mask {
            if let Some(e) = m.verif_bucket(i) {
                out.push((i, e));
            }
        }
    }
    out
}

fn contents<T: ItemT>(m: &HT<T>) -> Ms {
    full_buckets(m).iter().map(|(_, e)| (e.k(), e.id(), e.v())).collect()
}

fn sorted(x: &Ms) -> Ms {
    let mut y = x.clone();
    y.sort();
    y
}

fn state_of<T: ItemT>(m: &HT<T>) -> String {
    let d = m.verif_dump();
    let slots: Vec<(usize, String)> = full_buckets(m).iter().map(|(i, e)| (*i, fmt_item(*e))).collect();
    format!(
        "{} len={} cap={} asz={}",
        fmt_state(&d, &slots),
        m.len(),
        m.capacity(),
        m.allocation_size()
    )
}

/// address of the element in bucket `i` ↦ `i` (useless for zero-sized elements)
fn addr_index<T: ItemT>(m: &HT<T>) -> StdMap<usize, usize> {
    full_buckets(m).iter().map(|(i, e)| (*e as *const T as usize, *i)).collect()
}

/// Independent walk of the probe sequence over a dump: the first bucket whose control byte carries
/// the tag of `hash` and which `pred` accepts (what `find` must return), using only the exported
/// group primitives.
fn tbl_probe_find(d: &Dump, hash: u64, mut pred: impl FnMut(usize) -> bool) -> Option<usize> {
    let w = hashbrown::verif::GROUP_WIDTH;
    let mask = d.bucket_mask;
    let steps = (mask + 1) / w + 2;
    let tag = hashbrown::verif::tag_full(hash);
    for pos in hashbrown::verif::probe_positions(hash, mask, steps) {
        let g = &d.ctrl[pos..pos + w];
        for lane in hashbrown::verif::group_match_tag(g, tag) {
            let i = (pos + lane) & mask;
            if pred(i) {
                return Some(i);
            }
        }
        if !hashbrown::verif::group_match_empty(g).is_empty() {
            return None;
        }
    }
    None
}

fn parse_elem(s: &str) -> Option<(u64, u64, u64)> {
    let p: Vec<u64> = s.split('.').filter_map(|x| x.parse().ok()).collect();
    if p.len() == 4 {
        Some((p[0], p[1], p[3]))
    } else {
        None
    }
}

fn take(r: &mut Ms, e: (u64, u64, u64)) -> bool {
    match r.iter().position(|x| *x == e) {
        Some(p) => {
            r.swap_remove(p);
            true
        }
        None => false,
    }
}

/// Elements handed back to the caller by an iterator. They belong to the harness: whenever they are
/// dropped — also while a later callback / destructor panic unwinds — it is done quietly (not an
/// observation of the table). Locals declared later (the iterator itself) are dropped before it.
struct QuietVec<T>(Vec<T>);
impl<T> Drop for QuietVec<T> {
    fn drop(&mut self) {
        quiet();
        self.0.clear();
    }
}

pub struct TableRunner<T: ItemT> {
    pub a: Option<HT<T>>,
    pub b: Option<HT<T>>,
    pub ra: Ms,
    pub rb: Ms,
    /// predicate decisions of the last retain/extract_if: (k, id, answer, new v)
    pub preds: std::rc::Rc<std::cell::RefCell<Vec<(u64, u64, bool, u64)>>>,
    pub live: std::collections::BTreeSet<String>,
    pub dead: std::collections::BTreeSet<String>,
    pub leak_ok: bool,
}

fn gmm<T: ItemT, const N: usize>(m: &mut HT<T>, ks: &[u64], any: bool) -> String {
    let hashes: [u64; N] = std::array::from_fn(|i| tape::plan_hash(ks[i]));
    let res = if any {
        m.get_many_mut(hashes, |_, _| true)
    } else {
        m.get_many_mut(hashes, |i, e| tape::eq_of(ks[i], e.k()))
    };
    let out: Vec<String> = res.iter().map(|o| o.as_ref().map_or("-".into(), |e| fmt_item::<T>(e))).collect();
    // direct oracle, valid for every hasher/eq: the returned `&mut` are pairwise disjoint
    let mut addrs: Vec<usize> = res.iter().flatten().map(|e| &**e as *const T as usize).collect();
    addrs.sort_unstable();
    let aliased = !T::ZST && addrs.windows(2).any(|w| w[0] == w[1]);
    for (i, o) in res.into_iter().enumerate() {
        if let Some(e) = o {
            e.set_v(e.v() + 1000 * (i as u64 + 1));
        }
    }
    if aliased {
        return format!("[{}] ORACLE-ALIAS(get_many_mut_returned_two_mutable_references_to_one_element)", out.join(","));
    }
    format!("[{}]", out.join(","))
}

impl<T: ItemT> TableRunner<T> {
    pub fn new() -> Self {
        TableRunner {
            a: Some(new_table()),
            b: Some(new_table()),
            ra: Vec::new(),
            rb: Vec::new(),
            preds: Default::default(),
            live: Default::default(),
            dead: Default::default(),
            leak_ok: false,
        }
    }
    fn get(&self, tgt: &str) -> &HT<T> {
        if tgt == "a" {
            self.a.as_ref().unwrap()
        } else {
            self.b.as_ref().unwrap()
        }
    }
    fn other_of(tgt: &str) -> &'static str {
        if tgt == "a" {
            "b"
        } else {
            "a"
        }
    }

    /// Element of the reference multiset standing for `(k, id, v)` of the protocol.
    fn el(k: u64, id: u64, v: u64) -> (u64, u64, u64) {
        if T::ZST {
            (0, 0, 0)
        } else {
            (k, id, v)
        }
    }

    /// Direct oracle for `get_many_mut*` (also when it panicked): an independent probe walk says
    /// which bucket every request must resolve to; a panic is legitimate iff two requests
    /// resolve to the same bucket.
    fn gmm_oracle(&self, tgt: &str, name: &str, a: &[&str], ret: &str) -> Option<String> {
        let m = self.get(tgt);
        let d = m.verif_dump();
        let any = name == "get_many_mut_any";
        let ks: Vec<u64> = a.iter().map(|s| s.parse().unwrap()).collect();
        let idxs: Vec<Option<usize>> = ks
            .iter()
            .map(|&k| {
                tbl_probe_find(&d, tape::plan_hash(k), |i| any || m.verif_bucket(i).map_or(false, |e| e.k() == k))
            })
            .collect();
        let mut clash = false;
        for i in 0..idxs.len() {
            for j in 0..i {
                if idxs[i].is_some() && idxs[i] == idxs[j] {
                    clash = true;
                }
            }
        }
        if ret.starts_with("panic:dup") {
            if !clash {
                return Some(format!(
                    "get_many_mut_panicked_for_distinct_entries: requests {:?} resolve to buckets {:?}",
                    ks, idxs
                ));
            }
            return None;
        }
        if ret.starts_with("panic") {
            return None;
        }
        if clash {
            return Some(format!("get_many_mut returned although requests {:?} resolve to buckets {:?}", ks, idxs));
        }
        let inner = ret.trim_start_matches('[').trim_end_matches(']');
        let got: Vec<&str> = if inner.is_empty() { vec![] } else { inner.split(',').collect() };
        if got.len() != ks.len() {
            return Some(format!("get_many_mut returned {} results for {} requests", got.len(), ks.len()));
        }
        for (i, g) in got.iter().enumerate() {
            match (idxs[i], parse_elem(g)) {
                (None, None) => {}
                (Some(ix), Some(e)) => {
                    // the element in that bucket now carries the increment written through the reference
                    let now = m.verif_bucket(ix).map(|x| (x.k(), x.id(), x.v()));
                    let add = if T::ZST { 0 } else { 1000 * (i as u64 + 1) };
                    if now != Some((e.0, e.1, e.2 + add)) {
                        return Some(format!("get_many_mut request {} returned {} but bucket {} holds {:?}", i, g, ix, now));
                    }
                }
                _ => return Some(format!("get_many_mut request {} returned {} but the probe walk says bucket {:?}", i, g, idxs[i])),
            }
        }
        None
    }

    /// Direct oracle: what a reference multiset says this op must return and leave behind.
    /// Only for lawful environments and operations that returned. Returns a complaint, or None.
    fn ref_step(&mut self, tgt: &str, name: &str, a: &[&str], ret: &str) -> Option<String> {
        let n = |i: usize| -> u64 { a[i].parse().unwrap() };
        let zst = T::ZST;
        let preds = self.preds.borrow().clone();
        let actual = contents(self.get(tgt));
        let other_actual = contents(self.get(Self::other_of(tgt)));
        let full: Vec<usize> = full_buckets(self.get(tgt)).iter().map(|(i, _)| *i).collect();
        let hash_buckets = |k: u64| -> Vec<usize> {
            full_buckets(self.get(tgt))
                .iter()
                .filter(|(_, e)| tape::plan_hash(e.k()) == tape::plan_hash(k))
                .map(|(i, _)| *i)
                .collect()
        };
        let hb: Vec<usize> = if name.starts_with("iter_hash") && a.len() == 1 { hash_buckets(n(0)) } else { vec![] };
        let (r, o) = if tgt == "a" { (&mut self.ra, &mut self.rb) } else { (&mut self.rb, &mut self.ra) };
        let mut expect: Option<String> = None;
        let fe = |e: &(u64, u64, u64)| {
            if T::IDS {
                format!("{}.{}.0.{}", e.0, e.1, e.2)
            } else {
                format!("{}.0.0.{}", e.0, e.2)
            }
        };
        let has_key = |r: &Ms, k: u64| r.iter().any(|e| e.0 == k);
        match (name, a.len()) {
            ("insert_unique", 3) => {
                r.push(Self::el(n(0), n(1), n(2)));
                expect = Some("()".into());
            }
            ("insert", 4) => {
                r.push(Self::el(n(0), n(1), n(3)));
                expect = Some("()".into());
            }
            ("find", 1) | ("get", 1) => {
                if !zst && !has_key(r, n(0)) {
                    expect = Some("-".into());
                } else if !zst || ret != "-" {
                    match parse_elem(ret) {
                        Some(e) if r.contains(&e) && (zst || e.0 == n(0)) => {}
                        _ => return Some(format!("{} returned {} which is not a stored element with that key", name, ret)),
                    }
                }
            }
            ("findmut", 2) => {
                if !zst && !has_key(r, n(0)) {
                    expect = Some("-".into());
                } else if !zst {
                    match parse_elem(ret) {
                        Some(e) if e.0 == n(0) && e.2 == n(1) => match r.iter_mut().find(|x| x.0 == e.0 && x.1 == e.1) {
                            Some(x) => x.2 = n(1),
                            None => return Some(format!("findmut returned {} which is not stored", ret)),
                        },
                        _ => return Some(format!("findmut returned {}", ret)),
                    }
                }
            }
            ("find_entry_remove", 1) | ("find_entry_remove_drop", 1) | ("remove", 1) | ("find_entry_remove_reinsert", 3) => {
                if !zst && !has_key(r, n(0)) {
                    expect = Some("-".into());
                } else if !zst || ret != "-" {
                    match parse_elem(ret) {
                        Some(e) if (zst || e.0 == n(0)) && take(r, e) => {
                            if a.len() == 3 {
                                r.push(Self::el(n(0), n(1), n(2)));
                            }
                        }
                        _ => return Some(format!("{} returned {} which is not a stored element with that key", name, ret)),
                    }
                }
            }
            ("entry_insert", 3) | ("entry_or_insert", 3) => {
                let occupied = if zst { ret == "occ" } else { has_key(r, n(0)) };
                expect = Some(if occupied { "occ".into() } else { "vac".into() });
                if !occupied {
                    r.push(Self::el(n(0), n(1), n(2)));
                } else if name == "entry_insert" && !zst {
                    // one of the elements with that key was replaced: the one no longer stored
                    let gone = r.iter().position(|e| e.0 == n(0) && !actual.contains(e));
                    match gone {
                        Some(p) => {
                            r.swap_remove(p);
                            r.push(Self::el(n(0), n(1), n(2)));
                        }
                        None => return Some("entry_insert on an occupied entry replaced nothing".into()),
                    }
                }
            }
            ("entry_and_modify", 2) => {
                let occupied = if zst { ret == "occ" } else { has_key(r, n(0)) };
                expect = Some(if occupied { "occ".into() } else { "vac".into() });
                if occupied && !zst {
                    let changed: Vec<usize> = (0..r.len())
                        .filter(|&p| r[p].0 == n(0) && !actual.contains(&r[p]) && actual.contains(&(r[p].0, r[p].1, n(1))))
                        .collect();
                    if changed.len() == 1 {
                        r[changed[0]].2 = n(1);
                    } else if changed.len() > 1 {
                        return Some("entry_and_modify changed several elements".into());
                    }
                }
            }
            ("clear", 0) => {
                r.clear();
                expect = Some("()".into());
            }
            ("reserve", 1) | ("shrink_to", 1) | ("shrink_to_fit", 0) | ("nop", 0) => expect = Some("()".into()),
            ("len", 0) => expect = Some(r.len().to_string()),
            ("try_reserve", 1) => {
                let refusing = tape::with(|t| t.p.afail.is_some() || t.p.afrom.is_some());
                if n(0) < (1 << 40) && !refusing {
                    expect = Some("ok".into())
                }
            }
            ("retain", 0) | ("extract_if", 1) => {
                let mut seen = std::collections::BTreeSet::new();
                let mut yielded = Vec::new();
                let mut gone = Vec::new();
                for (k, id, ans, nv) in &preds {
                    let p = (0..r.len()).find(|&p| !seen.contains(&p) && r[p].0 == *k && r[p].1 == *id);
                    match p {
                        None => return Some(format!("{} visited {}.{} which is not stored (or twice)", name, k, id)),
                        Some(p) => {
                            seen.insert(p);
                            r[p].2 = *nv;
                            let removed = if name == "retain" { !*ans } else { *ans };
                            if removed {
                                gone.push(p);
                                yielded.push(fe(&r[p]));
                            }
                        }
                    }
                }
                if name == "retain" && seen.len() != r.len() {
                    return Some("retain: predicate calls do not cover the table once".into());
                }
                gone.sort();
                for p in gone.into_iter().rev() {
                    r.remove(p);
                }
                expect = Some(if name == "retain" { "()".into() } else { yielded.join(",") });
            }
            ("drain", 2) | ("into_iter", 1) | ("drain_fold", 1) | ("into_iter_fold", 1) => {
                let got: Vec<&str> = if ret.is_empty() { vec![] } else { ret.split(',').collect() };
                let want = if name.ends_with("_fold") && n(0) == 0 { r.len() } else { std::cmp::min(n(0) as usize, r.len()) };
                if got.len() != want {
                    return Some(format!("{} yielded {} elements, expected {}", name, got.len(), want));
                }
                for g in &got {
                    match parse_elem(g) {
                        Some(e) if take(r, e) => {}
                        _ => return Some(format!("{} yielded {} which is not a stored element (or twice)", name, g)),
                    }
                }
                r.clear();
            }
            // `nth` variant: the prefix only (exhaustion is judged by ORACLE-ITER in the observation itself)
            ("iter", 3) => {}
            ("iter", _) => {
                // pre ++ fold visits every full bucket exactly once, ascending
                if !zst {
                    let field = |key: &str| -> Vec<usize> {
                        ret.split_whitespace()
                            .find_map(|t| t.strip_prefix(key))
                            .map(|s| s.split(',').filter_map(|x| x.parse().ok()).collect())
                            .unwrap_or_default()
                    };
                    let mut all = field("pre=");
                    all.extend(field("fold="));
                    if all != full {
                        return Some(format!("iteration visited buckets {:?} but the full buckets are {:?}", all, full));
                    }
                }
            }
            ("x_iter_hash", 1) => {}
            ("iter_hash", 1) | ("iter_hash_mut", 1) => {
                if !zst {
                    let got: Vec<usize> = ret.split(',').filter_map(|x| x.parse().ok()).collect();
                    let mut uniq = got.clone();
                    uniq.sort();
                    uniq.dedup();
                    if uniq.len() != got.len() || got.iter().any(|i| !full.contains(i)) {
                        return Some(format!("{} yielded {:?} (repeats or non-full buckets)", name, got));
                    }
                    if let Some(miss) = hb.iter().find(|i| !got.contains(i)) {
                        return Some(format!("{} did not yield bucket {} whose element has that hash", name, miss));
                    }
                }
            }
            ("get_many_mut", _) | ("get_many_mut_any", _) => {
                let inner = ret.trim_start_matches('[').trim_end_matches(']');
                let parts: Vec<&str> = if inner.is_empty() { vec![] } else { inner.split(',').collect() };
                for (i, g) in parts.into_iter().enumerate() {
                    if let Some(e) = parse_elem(g) {
                        if !zst {
                            match r.iter_mut().find(|x| **x == e) {
                                Some(x) => x.2 += 1000 * (i as u64 + 1),
                                None => return Some(format!("{} returned {} which is not stored", name, g)),
                            }
                            if name == "get_many_mut" && e.0 != n(i) {
                                return Some(format!("{} returned {} for key {}", name, g, n(i)));
                            }
                        }
                    } else if name == "get_many_mut" && !zst && has_key(r, n(i)) {
                        return Some(format!("{} did not find key {}", name, n(i)));
                    }
                }
            }
            ("with_capacity", 1) => {
                r.clear();
                expect = Some("()".into());
            }
            ("clone_to_other", 0) => {
                if !zst && other_actual.iter().any(|e| e.1 < 1_000_000) {
                    return Some("clone shares an identity with its source".into());
                }
                let x: Ms = sorted(&other_actual.iter().map(|e| (e.0, 0, e.2)).collect());
                let y: Ms = sorted(&r.iter().map(|e| (e.0, 0, e.2)).collect());
                if x != y {
                    return Some("clone differs from source".into());
                }
                *o = other_actual.clone();
                expect = Some("()".into());
            }
            ("clone_from", 0) => {
                if !zst && actual.iter().any(|e| e.1 < 1_000_000) {
                    return Some("clone_from shares an identity with its source".into());
                }
                let x: Ms = sorted(&actual.iter().map(|e| (e.0, 0, e.2)).collect());
                let y: Ms = sorted(&o.iter().map(|e| (e.0, 0, e.2)).collect());
                if x != y {
                    return Some("clone_from result differs from source".into());
                }
                *r = actual.clone();
                expect = Some("()".into());
            }
            _ => {}
        }
        if let Some(e) = expect {
            if e != ret {
                return Some(format!("{} returned {} but the reference multiset says {}", name, ret, e));
            }
        }
        if sorted(r) != sorted(&actual) {
            let (x, y) = (sorted(r), sorted(&actual));
            let missing: Vec<_> = x.iter().filter(|e| !y.contains(e)).collect();
            let extra: Vec<_> = y.iter().filter(|e| !x.contains(e)).collect();
            return Some(format!(
                "contents differ from the reference multiset after {} (missing {:?}, extra {:?}, or multiplicities)",
                name, missing, extra
            ));
        }
        None
    }

    /// Direct oracle for ownership: every object moved into a table is in exactly one of
    /// {a table, dropped once, handed back to the caller}.
    fn ledger_step(&mut self, name: &str, a: &[&str], events: &[String]) -> Option<String> {
        if !T::DROP || !T::IDS {
            return None;
        }
        match (name, a.len()) {
            ("insert_unique", 3) | ("insert", 4) | ("entry_insert", 3) | ("entry_or_insert", 3) | ("find_entry_remove_reinsert", 3) => {
                self.live.insert(format!("k{}", a[1]));
            }
            _ => {}
        }
        if name == "drain" && a.len() == 2 && a[1] == "1" {
            self.leak_ok = true;
        }
        if tape::with(|t| t.p.dpanic.is_some()) {
            self.leak_ok = true;
        }
        let mut held = std::collections::BTreeSet::new();
        for m in [self.a.as_ref().unwrap(), self.b.as_ref().unwrap()] {
            for e in contents(m) {
                let id = format!("k{}", e.1);
                if !held.insert(id.clone()) {
                    return Some(format!("object {} is held twice", id));
                }
            }
        }
        for id in &held {
            let n: u64 = id[1..].parse().unwrap();
            if n >= 1_000_000 {
                self.live.insert(id.clone());
            }
        }
        for ev in events {
            if let Some(id) = ev.strip_prefix('d') {
                let n: u64 = id[1..].parse().unwrap();
                // clones made and destroyed inside one operation are never seen in a table
                let transient = n >= 1_000_000 && !self.dead.contains(id);
                if !self.live.remove(id) && !transient {
                    return Some(format!("object {} dropped twice (or never owned)", id));
                }
                if !self.dead.insert(id.to_string()) {
                    return Some(format!("object {} dropped twice", id));
                }
            }
        }
        for id in tape::take_returned() {
            // probe keys / rejected arguments handed back are neither in `live` nor in `dead`; that is fine
            if self.live.remove(&id) {
                if !self.dead.insert(id.clone()) {
                    return Some(format!("object {} handed back after it was dropped", id));
                }
            } else if self.dead.contains(&id) {
                return Some(format!("object {} handed to the caller although the collection dropped it (or handed it out before)", id));
            }
        }
        for id in &held {
            if !self.live.contains(id) {
                return Some(format!("object {} is in a table but was dropped or returned", id));
            }
        }
        if !self.leak_ok {
            if let Some(id) = self.live.iter().find(|id| !held.contains(*id)) {
                return Some(format!("object {} leaked: owned by no table, never dropped, never returned", id));
            }
        } else {
            self.live = held;
        }
        None
    }

    fn run(&mut self, tgt: &str, name: &str, a: &[&str]) -> String {
        let n = |i: usize| -> u64 { a[i].parse().unwrap() };
        let rec = self.preds.clone();
        rec.borrow_mut().clear();
        let (m, other) = if tgt == "a" {
            (self.a.as_mut().unwrap(), self.b.as_mut().unwrap())
        } else {
            (self.b.as_mut().unwrap(), self.a.as_mut().unwrap())
        };
        let hasher = |e: &T| tape::hash_of(e.k());
        let pred = move |e: &mut T| {
            let (ans, mutate) = tape::pred_of();
            if mutate {
                e.set_v(e.v() + 7);
            }
            rec.borrow_mut().push((e.k(), e.id(), ans, e.v()));
            ans
        };
        let bad = usize::MAX;
        match (name, a.len()) {
            ("insert_unique", 3) | ("insert", 4) => {
                let v = if a.len() == 3 { n(2) } else { n(3) };
                let k = n(0);
                m.insert_unique(tape::plan_hash(k), T::new(k, n(1), v), hasher);
                "()".into()
            }
            ("find", 1) | ("get", 1) => {
                let k = n(0);
                m.find(tape::plan_hash(k), |e| tape::eq_of(k, e.k())).map_or("-".into(), fmt_item)
            }
            ("findmut", 2) => {
                let k = n(0);
                match m.find_mut(tape::plan_hash(k), |e| tape::eq_of(k, e.k())) {
                    None => "-".into(),
                    Some(e) => {
                        e.set_v(n(1));
                        fmt_item(e)
                    }
                }
            }
            ("find_entry_remove", 1) | ("remove", 1) => {
                let k = n(0);
                let r = match m.find_entry(tape::plan_hash(k), |e| tape::eq_of(k, e.k())) {
                    Ok(occ) => {
                        let (val, vac) = occ.remove();
                        let _ = vac.into_table().len();
                        Some(val)
                    }
                    Err(absent) => {
                        let _ = absent.into_table().len();
                        None
                    }
                };
                quiet();
                r.as_ref().map_or("-".into(), fmt_item)
            }
            ("find_entry_remove_drop", 1) => {
                let k = n(0);
                let r = match m.find_entry(tape::plan_hash(k), |e| tape::eq_of(k, e.k())) {
                    Ok(occ) => {
                        let (val, vac) = occ.remove();
                        drop(vac);
                        Some(val)
                    }
                    Err(_) => None,
                };
                quiet();
                r.as_ref().map_or("-".into(), fmt_item)
            }
            ("find_entry_remove_reinsert", 3) => {
                let k = n(0);
                let new = T::new(k, n(1), n(2));
                let r = match m.find_entry(tape::plan_hash(k), |e| tape::eq_of(k, e.k())) {
                    Ok(occ) => {
                        let (val, vac) = occ.remove();
                        let occ2 = vac.insert(new);
                        let _ = occ2.get().k();
                        Some(val)
                    }
                    Err(_) => {
                        // not consumed: dropped by the operation
                        drop(new);
                        None
                    }
                };
                quiet();
                r.as_ref().map_or("-".into(), fmt_item)
            }
            ("entry_insert", 3) => {
                let k = n(0);
                let new = T::new(k, n(1), n(2));
                match m.entry(tape::plan_hash(k), |e| tape::eq_of(k, e.k()), hasher) {
                    Entry::Occupied(mut occ) => {
                        *occ.get_mut() = new;
                        "occ".into()
                    }
                    Entry::Vacant(vac) => {
                        vac.insert(new);
                        "vac".into()
                    }
                }
            }
            ("entry_or_insert", 3) => {
                let k = n(0);
                let new = T::new(k, n(1), n(2));
                let ent = m.entry(tape::plan_hash(k), |e| tape::eq_of(k, e.k()), hasher);
                let was = if matches!(ent, Entry::Occupied(_)) { "occ" } else { "vac" };
                ent.or_insert(new);
                was.into()
            }
            ("entry_and_modify", 2) => {
                let k = n(0);
                let nv = n(1);
                let ent = m.entry(tape::plan_hash(k), |e| tape::eq_of(k, e.k()), hasher).and_modify(|e| e.set_v(nv));
                if matches!(ent, Entry::Occupied(_)) { "occ" } else { "vac" }.into()
            }
            ("clear", 0) => {
                m.clear();
                "()".into()
            }
            ("reserve", 1) => {
                m.reserve(n(0) as usize, hasher);
                "()".into()
            }
            ("try_reserve", 1) => fmt_tre(m.try_reserve(n(0) as usize, hasher)),
            ("shrink_to", 1) => {
                m.shrink_to(n(0) as usize, hasher);
                "()".into()
            }
            ("shrink_to_fit", 0) => {
                m.shrink_to_fit(hasher);
                "()".into()
            }
            ("retain", 0) => {
                m.retain(pred);
                "()".into()
            }
            ("extract_if", 1) => {
                let mut out = QuietVec(Vec::new());
                {
                    let mut e = m.extract_if(pred);
                    let mut ended = false;
                    for _ in 0..n(0) {
                        match e.next() {
                            Some(x) => out.0.push(x),
                            None => {
                                ended = true;
                                break;
                            }
                        }
                    }
                    // polled again after its end it stays at the end: no element, no further predicate call
                    // (a predicate call would show in the callback counters; an element is flagged here)
                    if ended && (e.next().is_some() || e.next().is_some()) {
                        crate::exec::own_flag("ORACLE-REF(extract_if_yielded_an_element_after_returning_None)");
                    }
                }
                quiet();
                fmt_items(&out.0)
            }
            ("drain", 2) => {
                let mut out = QuietVec(Vec::new());
                {
                    let total = m.len();
                    let mut d = m.drain();
                    for _ in 0..n(0) {
                        match crate::exec::next_exact(&mut d, total - out.0.len()) {
                            Some(x) => out.0.push(x),
                            None => break,
                        }
                    }
                    crate::exec::check_exact(&d, total - out.0.len());
                    if n(1) == 1 {
                        std::mem::forget(d);
                    }
                }
                quiet();
                fmt_items(&out.0)
            }
            ("drain_fold", 1) | ("into_iter_fold", 1) => {
                let mut out = QuietVec(Vec::new());
                let stop = n(0) as usize;
                let r = std::panic::catch_unwind(std::panic::AssertUnwindSafe(|| {
                    let eat = |x: T| {
                        out.0.push(x);
                        if out.0.len() == stop {
                            std::panic::panic_any(tape::TapePanic("consumer"));
                        }
                    };
                    if name == "drain_fold" {
                        m.drain().for_each(eat);
                    } else {
                        let old = std::mem::replace(m, new_table());
                        old.into_iter().for_each(eat);
                    }
                }));
                if let Err(p) = r {
                    match p.downcast_ref::<tape::TapePanic>() {
                        Some(tp) if tp.0 == "consumer" => {}
                        _ => std::panic::resume_unwind(p),
                    }
                }
                quiet();
                fmt_items(&out.0)
            }
            ("into_iter", 1) => {
                let old = std::mem::replace(m, new_table());
                let mut out = QuietVec(Vec::new());
                {
                    let total = old.len();
                    let mut it = old.into_iter();
                    for _ in 0..n(0) {
                        match crate::exec::next_exact(&mut it, total - out.0.len()) {
                            Some(x) => out.0.push(x),
                            None => break,
                        }
                    }
                    crate::exec::check_exact(&it, total - out.0.len());
                }
                quiet();
                fmt_items(&out.0)
            }
            ("iter", 3) => {
                let ix = addr_index(m);
                let p = n(0) as usize;
                let idx = |e: &T| if T::ZST { 0 } else { *ix.get(&(e as *const T as usize)).unwrap_or(&bad) };
                match a[1] {
                    "iter_mut" | "values_mut" => crate::exec::observe_iter_nth(m.iter_mut(), p, |e| idx(&**e)),
                    _ => crate::exec::observe_iter_nth(m.iter(), p, |e| idx(*e)),
                }
            }
            ("iter", 1) | ("iter", 2) => {
                let ix = addr_index(m);
                let p = n(0) as usize;
                let variant = if a.len() == 2 { a[1] } else { "iter" };
                let idx = |e: &T| if T::ZST { 0 } else { *ix.get(&(e as *const T as usize)).unwrap_or(&bad) };
                match variant {
                    "iter_mut" | "values_mut" => observe_iter_nc(m.iter_mut(), p, |e| idx(&**e)),
                    _ => observe_iter(m.iter(), p, |e| idx(*e)),
                }
            }
            ("iter_hash", 1) => {
                let ix = addr_index(m);
                let at = |e: &T| if T::ZST { 0 } else { *ix.get(&(e as *const T as usize)).unwrap_or(&bad) };
                let v: Vec<usize> = m.iter_hash(tape::plan_hash(n(0))).map(|e| at(e)).collect();
                // `fold` is overridden (table.rs): it must visit what `next` yields, also after a prefix
                let mut flag = "";
                for p in [0usize, 1, v.len()] {
                    if p > v.len() {
                        continue;
                    }
                    let mut it = m.iter_hash(tape::plan_hash(n(0)));
                    for _ in 0..p {
                        it.next();
                    }
                    let f = it.fold(Vec::new(), |mut acc, e| {
                        acc.push(at(e));
                        acc
                    });
                    if f[..] != v[p..] {
                        flag = " FOLD-MISMATCH";
                    }
                }
                format!("{}{}", nats(&v), flag)
            }
            ("iter_hash_mut", 1) => {
                let ix = addr_index(m);
                let at = |e: &T| if T::ZST { 0 } else { *ix.get(&(e as *const T as usize)).unwrap_or(&bad) };
                let v: Vec<usize> = m.iter_hash_mut(tape::plan_hash(n(0))).map(|e| at(&*e)).collect();
                let mut flag = "";
                for p in [0usize, 1, v.len()] {
                    if p > v.len() {
                        continue;
                    }
                    let mut it = m.iter_hash_mut(tape::plan_hash(n(0)));
                    for _ in 0..p {
                        it.next();
                    }
                    let f = it.fold(Vec::new(), |mut acc, e| {
                        acc.push(at(&*e));
                        acc
                    });
                    if f[..] != v[p..] {
                        flag = " FOLD-MISMATCH";
                    }
                }
                format!("{}{}", nats(&v), flag)
            }
            ("get_many_mut", cnt) | ("get_many_mut_any", cnt) => {
                let ks: Vec<u64> = (0..cnt).map(n).collect();
                let any = name == "get_many_mut_any";
                match cnt {
                    0 => gmm::<T, 0>(m, &ks, any),
                    1 => gmm::<T, 1>(m, &ks, any),
                    2 => gmm::<T, 2>(m, &ks, any),
                    3 => gmm::<T, 3>(m, &ks, any),
                    4 => gmm::<T, 4>(m, &ks, any),
                    _ => format!("bad-op {}", name),
                }
            }
            ("with_capacity", 1) => {
                let old = std::mem::replace(m, new_table());
                drop(old);
                *m = HashTable::with_capacity_in(n(0) as usize, TapeAlloc);
                "()".into()
            }
            ("clone_to_other", 0) => {
                let old = std::mem::replace(other, new_table());
                drop(old);
                *other = m.clone();
                "()".into()
            }
            ("clone_from", 0) => {
                // `HashTable` does not override `Clone::clone_from`: `*self = source.clone()`
                m.clone_from(other);
                "()".into()
            }
            ("len", 0) => m.len().to_string(),
            // cross-back-end form (never sent to the model): the elements with that hash as a sorted set
            ("x_iter_hash", 1) => {
                // (`iter_hash` may also yield elements of OTHER hashes whose tag collides — which ones depends on
                // the layout — so only the elements that do have this hash are compared)
                let h = tape::plan_hash(n(0));
                let mut v: Vec<String> = m.iter_hash(h).filter(|e| tape::plan_hash(e.k()) == h).map(fmt_item).collect();
                v.sort();
                let mut w: Vec<String> = m.iter_hash_mut(h).filter(|e| tape::plan_hash(e.k()) == h).map(|e| fmt_item(&*e)).collect();
                w.sort();
                format!("{}|{}", v.join(","), w.join(","))
            }
            ("nop", 0) => "()".into(),
            _ => format!("bad-op {}", name),
        }
    }
}

impl<T: ItemT> Runner for TableRunner<T> {
    fn layout(&self) -> (usize, usize, bool, bool) {
        let (size, _) = hashbrown::verif::table_layout_new::<T>();
        (size, std::mem::align_of::<T>(), T::DROP, T::IDS)
    }
    fn op(&mut self, tgt: &str, name: &str, args: &[&str]) -> String {
        let cc_before = tape::with(|t| t.cc);
        let clone_src_len = match name {
            "clone_to_other" => self.get(tgt).len(),
            "clone_from" => self.get(if tgt == "a" { "b" } else { "a" }).len(),
            _ => 0,
        };
        let cap_before = {
            let m = self.get(tgt);
            (m.len(), m.capacity(), m.allocation_size())
        };
        loud();
        tape::with(|t| t.events.clear());
        let ret = match catch_unwind(AssertUnwindSafe(|| self.run(tgt, name, args))) {
            Ok(s) => s,
            Err(p) => panic_class(p),
        };
        quiet();
        let mut ret = ret;
        let own_flags = crate::exec::own_flags_take();
        {
            let m = self.get(tgt);
            let cap_after = (m.len(), m.capacity(), m.allocation_size());
            if let Some(why) = crate::exec::cap_oracle(name, args, &ret, cap_before, cap_after) {
                ret.push_str(&format!(" ORACLE-CAP({})", why.replace([' ', '(', ')'], "_")));
            }
            if let Some(why) = crate::exec::clone_count_oracle(name, &ret, cc_before, clone_src_len) {
                ret.push_str(&format!(" ORACLE-REF({})", why.replace([' ', '(', ')'], "_")));
            }
        }
        let evs = tape::peek_events();
        if let Some(why) = self.ledger_step(name, args, &evs) {
            ret.push_str(&format!(" ORACLE-LEDGER({})", why.replace(' ', "_")));
            self.leak_ok = true;
        }
        if let Some(why) = inv_oracle(&self.get(tgt).verif_dump()) {
            ret.push_str(&format!(" ORACLE-INV({})", why.replace(' ', "_")));
        }
        if let Some(why) = inv_oracle(&self.get(Self::other_of(tgt)).verif_dump()) {
            ret.push_str(&format!(" ORACLE-INV(other:{})", why.replace(' ', "_")));
        }
        if lawful() && name.starts_with("get_many_mut") {
            let r0 = ret.clone();
            if let Some(why) = self.gmm_oracle(tgt, name, args, &r0) {
                ret.push_str(&format!(" ORACLE-REF({})", why.replace(' ', "_")));
            }
        }
        if lawful() && !ret.starts_with("panic") {
            if let Some(why) = self.ref_step(tgt, name, args, &ret.clone()) {
                ret.push_str(&format!(" ORACLE-REF({})", why.replace(' ', "_")));
                // do not cascade: continue from what the implementation holds
                self.ra = contents(self.get("a"));
                self.rb = contents(self.get("b"));
            }
        } else {
            self.ra = contents(self.get("a"));
            self.rb = contents(self.get("b"));
        }
        let st = state_of(self.get(tgt));
        ret.push_str(&own_flags);
        format!("{} ; {} ; {} ; {}", ret, st, tape::take_events(), tape::counters())
    }
    fn dump(&self, tgt: &str) -> Dump {
        self.get(tgt).verif_dump()
    }
    fn keys(&self, tgt: &str) -> Vec<u64> {
        full_buckets(self.get(tgt)).iter().map(|(_, e)| e.k()).collect()
    }
    fn finish(&mut self) -> Vec<String> {
        quiet();
        self.a = None;
        self.b = None;
        tape::with(|t| {
            let mut v = std::mem::take(&mut t.alloc_errors);
            let mut leaks: Vec<String> = t
                .live_blocks
                .drain()
                .map(|(_, (s, a))| format!("leaked block {}/{}", s, a))
                .collect();
            leaks.sort();
            v.extend(leaks);
            v
        })
    }
}

pub fn make(drop: bool, lay: &str) -> Box<dyn Runner> {
    let _ = exec::nats;
    match (drop, lay) {
        (_, "zst") => Box::new(TableRunner::<Zst>::new()),
        (true, "std") => Box::new(TableRunner::<ItemD<()>>::new()),
        (false, "std") => Box::new(TableRunner::<ItemC<()>>::new()),
        (true, "a16") => Box::new(TableRunner::<ItemD<A16>>::new()),
        (false, "a16") => Box::new(TableRunner::<ItemC<A16>>::new()),
        (true, "a32") => Box::new(TableRunner::<ItemD<A32>>::new()),
        (false, "a32") => Box::new(TableRunner::<ItemC<A32>>::new()),
        (true, "a64") => Box::new(TableRunner::<ItemD<A64>>::new()),
        (false, "a64") => Box::new(TableRunner::<ItemC<A64>>::new()),
        (true, "big") => Box::new(TableRunner::<ItemD<Big>>::new()),
        (false, "big") => Box::new(TableRunner::<ItemC<Big>>::new()),
        _ => panic!("no table_runner for drop={} lay={}", drop, lay),
    }
}
