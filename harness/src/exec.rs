//! Executes protocol operations on the real hashbrown collections and prints observations.
use crate::elems::*;
use crate::tape::{self, TapeAlloc, TapePanic};
use hashbrown::verif::Dump;
use hashbrown::{HashMap, TryReserveError};
use std::collections::HashMap as StdMap;
use std::panic::{catch_unwind, AssertUnwindSafe};

pub fn fnv64(s: &str) -> u64 {
    let mut h: u64 = 0xcbf29ce484222325;
    for b in s.bytes() {
        h = (h ^ b as u64).wrapping_mul(0x100000001b3);
    }
    h
}

pub fn fmt_state(d: &Dump, slots: &[(usize, String)]) -> String {
    let mut c = String::with_capacity(d.ctrl.len() * 2);
    for b in &d.ctrl {
        c.push_str(&format!("{:02x}", b));
    }
    let s: Vec<String> = slots.iter().map(|(i, e)| format!("{}:{}", i, e)).collect();
    let mut body = format!("c={} s={}", c, s.join(","));
    // HBV_FULL_DUMP=1: never abbreviate (used when two real builds are compared with each other)
    if body.len() > 600 && std::env::var_os("HBV_FULL_DUMP").is_none() {
        body = format!("#{:016x}", fnv64(&body));
    }
    format!("m={} i={} g={} {}", d.bucket_mask, d.items, d.growth_left, body)
}

/// Direct structural oracle on the real table (independent of the model): `items` = number of
/// FULL bytes, `growth_left + full + deleted = capacity`, mirror bytes, at least one EMPTY, no
/// DELETED in a table smaller than a group.
pub fn inv_oracle(d: &Dump) -> Option<String> {
    let w = hashbrown::verif::GROUP_WIDTH;
    if d.is_singleton {
        if d.items != 0 || d.growth_left != 0 || d.ctrl.iter().any(|&b| b != 0xFF) {
            return Some("static singleton modified".into());
        }
        return None;
    }
    let n = d.bucket_mask + 1;
    if !n.is_power_of_two() || d.ctrl.len() != n + w {
        return Some(format!("geometry n={} ctrl={}", n, d.ctrl.len()));
    }
    let full = d.ctrl[..n].iter().filter(|&&b| b & 0x80 == 0).count();
    let del = d.ctrl[..n].iter().filter(|&&b| b == 0x80).count();
    let emp = d.ctrl[..n].iter().filter(|&&b| b == 0xFF).count();
    if full + del + emp != n {
        return Some("invalid control byte".into());
    }
    if d.items != full {
        return Some(format!("items={} but {} full control bytes", d.items, full));
    }
    let cap = hashbrown::verif::bucket_mask_to_capacity(d.bucket_mask);
    if d.growth_left + full + del != cap {
        return Some(format!(
            "growth_left={} + full={} + deleted={} != capacity {}",
            d.growth_left, full, del, cap
        ));
    }
    if emp == 0 {
        return Some("no EMPTY bucket left".into());
    }
    if n >= w {
        for j in 0..w {
            if d.ctrl[n + j] != d.ctrl[j] {
                return Some(format!("mirror byte {} differs", j));
            }
        }
    } else {
        if del != 0 {
            return Some("DELETED byte in a table smaller than a group".into());
        }
        for j in n..w {
            if d.ctrl[j] != 0xFF {
                return Some(format!("padding byte {} not EMPTY", j));
            }
        }
        for j in 0..n {
            if d.ctrl[w + j] != d.ctrl[j] {
                return Some(format!("mirror byte {} differs", j));
            }
        }
    }
    None
}

pub fn fmt_tre(r: Result<(), TryReserveError>) -> String {
    match r {
        Ok(()) => "ok".into(),
        Err(TryReserveError::CapacityOverflow) => "err(CapacityOverflow)".into(),
        Err(TryReserveError::AllocError { layout }) => {
            format!("err(AllocError {} {})", layout.size(), layout.align())
        }
    }
}

pub fn panic_class(p: Box<dyn std::any::Any + Send>) -> String {
    if let Some(tp) = p.downcast_ref::<TapePanic>() {
        return format!("panic:{}", tp.0);
    }
    let msg = if let Some(s) = p.downcast_ref::<&str>() {
        s.to_string()
    } else if let Some(s) = p.downcast_ref::<String>() {
        s.clone()
    } else {
        "?".into()
    };
    if msg.contains("capacity overflow") {
        "panic:capacity".into()
    } else if msg.contains("duplicate keys") {
        "panic:dup".into()
    } else if msg.contains("no entry found for key") {
        "panic:nokey".into()
    } else if msg.contains("not equivalent") {
        "panic:notequiv".into()
    } else {
        format!("panic:other({})", msg.replace(' ', "_"))
    }
}

pub fn quiet() {
    tape::with(|t| t.logging = false);
}
pub fn loud() {
    tape::with(|t| t.logging = true);
}

pub trait Runner {
    /// Header facts: `(size, align, drop, ids)`.
    fn layout(&self) -> (usize, usize, bool, bool);
    fn op(&mut self, tgt: &str, name: &str, args: &[&str]) -> String;
    /// Raw dump of the target for generators that steer by state.
    fn dump(&self, tgt: &str) -> Dump;
    /// Keys currently stored in the target (by bucket order).
    fn keys(&self, tgt: &str) -> Vec<u64>;
    /// Drop both collections (end of scenario); returns allocator complaints.
    fn finish(&mut self) -> Vec<String>;
}

pub type M<K, V> = HashMap<K, V, IdBuild, TapeAlloc>;

/// Reference association list: key ↦ (kid, vid, v).
pub type RefMap = std::collections::BTreeMap<u64, (u64, u64, u64)>;

pub struct MapRunner<K: KeyT, V: ValT> {
    pub a: Option<M<K, V>>,
    pub b: Option<M<K, V>>,
    pub ra: RefMap,
    pub rb: RefMap,
    /// predicate decisions of the last retain/extract_if: (key, answer, new v)
    pub preds: std::rc::Rc<std::cell::RefCell<Vec<(u64, bool, u64)>>>,
    /// ownership ledger: ids of key/value objects that are owned by one of the collections
    pub live: std::collections::BTreeSet<String>,
    /// objects that have been dropped or handed back
    pub dead: std::collections::BTreeSet<String>,
    /// a leak is legitimate from here on (a drain was forgotten / a destructor panicked)
    pub leak_ok: bool,
    /// `Clone` calls accounted for so far (every clone created must end up stored, dropped or handed back)
    pub cc_seen: u64,
    /// elements handed out by extract_if / drain / into_iter during the current op; owned by the
    /// caller, so they must survive an unwind out of the op and be dropped quietly afterwards
    pub stash: Vec<(K, V)>,
    /// per collection (a, b): only insert/get/get_mut/remove/remove_entry/contains so far, and the
    /// peak `len()` seen — direct oracle for the churn bound (C13)
    pub churn_only: [bool; 2],
    pub peak: [usize; 2],
}

pub fn contents<K: KeyT, V: ValT>(m: &M<K, V>) -> RefMap {
    let d = m.verif_dump();
    let mut out = RefMap::new();
    if !d.is_singleton {
        for i in 0..=d.bucket_mask {
            if let Some((k, v)) = m.verif_bucket(i) {
                out.insert(k.k(), (k.id(), v.id(), v.v()));
            }
        }
    }
    out
}

pub fn lawful() -> bool {
    tape::with(|t| {
        let p = &t.p;
        !p.tainted
            && p.hash_mix.is_none()
            && p.eq_mix.is_none()
            && p.hpanic.is_none()
            && p.epanic.is_none()
            && p.cpanic.is_none()
            && p.ppanic.is_none()
            && p.dpanic.is_none()
    })
}

pub fn new_map<K: KeyT, V: ValT>() -> M<K, V> {
    HashMap::with_hasher_in(IdBuild, TapeAlloc)
}

pub fn fmt_kv<K: KeyT, V: ValT>(k: &K, v: &V) -> String {
    if K::IDS {
        format!("{}.{}.{}.{}", k.k(), k.id(), v.id(), v.v())
    } else {
        format!("{}.0.0.{}", k.k(), v.v())
    }
}
pub fn fmt_v<K: KeyT, V: ValT>(v: &V) -> String {
    if K::IDS {
        format!("{}.{}", v.id(), v.v())
    } else {
        format!("0.{}", v.v())
    }
}

/// Direct oracle for the machine-level layout facts the model cannot exhibit: every element slot is
/// aligned for its type, slots are pairwise distinct and below the control bytes, the control
/// bytes are group-aligned.
pub fn layout_oracle<K: KeyT, V: ValT>(m: &M<K, V>) -> Option<String> {
    let d = m.verif_dump();
    if d.is_singleton {
        return None;
    }
    let align = std::mem::align_of::<(K, V)>();
    let size = std::mem::size_of::<(K, V)>();
    let ctrl = m.verif_ctrl_addr();
    if ctrl % hashbrown::verif::GROUP_WIDTH != 0 {
        return Some(format!("control bytes at {:#x} are not group-aligned", ctrl));
    }
    for i in 0..=d.bucket_mask {
        let a = m.verif_bucket_addr(i);
        if a % align != 0 {
            return Some(format!("slot {} at {:#x} is not {}-byte aligned", i, a, align));
        }
        if size != 0 && a + size != ctrl - i * size {
            return Some(format!("slot {} at {:#x} is not at its place below the control bytes", i, a));
        }
    }
    None
}

pub fn state_of<K: KeyT, V: ValT>(m: &M<K, V>) -> String {
    let d = m.verif_dump();
    let mut slots = Vec::new();
    if !d.is_singleton {
        for i in 0..=d.bucket_mask {
            if let Some((k, v)) = m.verif_bucket(i) {
                slots.push((i, fmt_kv(k, v)));
            }
        }
    }
    format!(
        "{} len={} cap={} asz={}",
        fmt_state(&d, &slots),
        m.len(),
        m.capacity(),
        m.allocation_size()
    )
}

/// address of the key object in bucket `i` ↦ `i`
pub fn addr_index<K: KeyT, V: ValT>(m: &M<K, V>) -> (StdMap<usize, usize>, StdMap<usize, usize>) {
    let d = m.verif_dump();
    let mut ka = StdMap::new();
    let mut va = StdMap::new();
    if !d.is_singleton {
        for i in 0..=d.bucket_mask {
            if let Some((k, v)) = m.verif_bucket(i) {
                ka.insert(k as *const K as usize, i);
                va.insert(v as *const V as usize, i);
            }
        }
    }
    (ka, va)
}

pub fn nats(v: &[usize]) -> String {
    v.iter().map(|x| x.to_string()).collect::<Vec<_>>().join(",")
}

/// clone() / clone_from(): `Clone` of the element type runs exactly once per element of the source ("holds
/// independently owned clones of its elements", C11) — judged on the number of `Clone` calls the call made.
pub fn clone_count_oracle(name: &str, ret: &str, cc_before: u64, src_len: usize) -> Option<String> {
    if !matches!(name, "clone_to_other" | "clone_from") || ret.starts_with("panic") {
        return None;
    }
    let made = tape::with(|t| t.cc) - cc_before;
    if made != src_len as u64 {
        return Some(format!("{} of a collection with {} elements called Clone {} times", name, src_len, made));
    }
    None
}

/// "In any state inserting up to capacity()-len() keys that are not yet present performs no allocation" (C08),
/// judged on the public observables: a call that inserts ONE element (len grew by one) while the collection
/// advertised spare room must leave `allocation_size()` as it was.
pub fn insert_within_capacity(name: &str, before: (usize, usize, usize), after: (usize, usize, usize)) -> Option<String> {
    const SINGLE: &[&str] = &[
        "insert", "try_insert", "replace", "get_or_insert", "get_or_insert_with", "entry_insert", "entry_or_insert",
        "insert_unique", "entry", "entry_ref", "rustc_entry", "raw_from_key", "raw_from_hash", "raw_from_key_hashed",
        "entry_and_modify",
    ];
    let (blen, bcap, basz) = before;
    let (len, _cap, asz) = after;
    if SINGLE.contains(&name) && len == blen + 1 && bcap > blen && asz != basz {
        return Some(format!(
            "{} inserted one element while capacity()-len() was {} and the allocation changed {} -> {} bytes",
            name,
            bcap - blen,
            basz,
            asz
        ));
    }
    None
}

/// Direct oracle of the capacity contract (C08) for the HashSet / HashTable wrappers, evaluated on
/// `(len, capacity, allocation_size)` of the real collection before and after a call that returned.
pub fn cap_oracle(name: &str, args: &[&str], ret: &str, before: (usize, usize, usize), after: (usize, usize, usize)) -> Option<String> {
    let n = |i: usize| -> u128 { args.get(i).and_then(|x| x.parse::<u128>().ok()).unwrap_or(0) };
    let (blen, bcap, basz) = before;
    let (len, cap, asz) = after;
    if ret.starts_with("panic") {
        return None;
    }
    if cap < len {
        return Some(format!("capacity {} < len {} after {}", cap, len, name));
    }
    if let Some(why) = insert_within_capacity(name, before, after) {
        return Some(why);
    }
    match name {
        "reserve" => {
            if (cap as u128) < len as u128 + n(0) {
                return Some(format!("after reserve({}) capacity {} < len {} + n", n(0), cap, len));
            }
        }
        "try_reserve" if ret == "ok" => {
            if (cap as u128) < len as u128 + n(0) {
                return Some(format!("try_reserve({}) = Ok but capacity {} < len {} + n", n(0), cap, len));
            }
        }
        "with_capacity" => {
            if (cap as u128) < n(0) {
                return Some(format!("with_capacity({}) gives capacity {}", n(0), cap));
            }
        }
        "shrink_to" | "shrink_to_fit" => {
            let m = if name == "shrink_to" { n(0) } else { 0 };
            if len != blen {
                return Some(format!("{} changed len {} -> {}", name, blen, len));
            }
            if asz > basz {
                return Some(format!("{} enlarged the allocation {} -> {} bytes", name, basz, asz));
            }
            let floor = std::cmp::max(len as u128, std::cmp::min(m, bcap as u128));
            if (cap as u128) < floor {
                return Some(format!("after {}({}) capacity {} < max(len {}, min(m, old capacity {}))", name, m, cap, len, bcap));
            }
            if len == 0 && m == 0 && asz != 0 {
                return Some(format!("{} of an empty collection kept {} bytes", name, asz));
            }
        }
        "clear" => {
            if asz != basz || len != 0 {
                return Some("clear did not keep the allocation / empty the collection".into());
            }
        }
        _ => {}
    }
    None
}

thread_local! {
    /// Exactness / fusedness complaints about OWNING iterators (drain, into_iter, into_keys, into_values)
    /// collected while an operation runs; appended to its observation by the runner.
    static OWN_FLAGS: std::cell::RefCell<String> = std::cell::RefCell::new(String::new());
}

pub fn own_flags_take() -> String {
    OWN_FLAGS.with(|f| std::mem::take(&mut *f.borrow_mut()))
}

pub fn own_flag(what: &str) {
    OWN_FLAGS.with(|f| {
        let mut f = f.borrow_mut();
        if !f.contains(what) {
            f.push(' ');
            f.push_str(what);
        }
    })
}

/// Direct oracle of C09 for owning iterators: `size_hint()` and `len()` must equal the number of
/// elements still to come (`remaining`) at every point of a partial consumption.
pub fn check_exact<I: ExactSizeIterator>(it: &I, remaining: usize) {
    let (lo, hi) = it.size_hint();
    if lo != remaining || hi != Some(remaining) || it.len() != remaining {
        own_flag("SIZE-HINT-INEXACT");
    }
}

/// `next()` with the exactness check before it and a fusedness check once it has answered `None`.
pub fn next_exact<I: ExactSizeIterator>(it: &mut I, remaining: usize) -> Option<I::Item> {
    check_exact(it, remaining);
    let x = it.next();
    if x.is_none() {
        if remaining != 0 {
            own_flag("SIZE-HINT-INEXACT");
        }
        if it.next().is_some() || it.next().is_some() {
            own_flag("NOT-FUSED");
        }
    }
    x
}

/// Drive an `ExactSizeIterator + Clone` the way `Map.iterObserve` does; `idx` maps an item to its bucket.
pub fn observe_iter<I, T>(it: I, p: usize, idx: impl Fn(&T) -> usize) -> String
where
    I: Iterator<Item = T> + ExactSizeIterator + Clone,
{
    let mut it = it;
    let mut pre = Vec::new();
    let mut hints = Vec::new();
    let mut flags = String::new();
    let mut check = |it: &I, flags: &mut String| {
        let (lo, hi) = it.size_hint();
        if hi != Some(lo) || it.len() != lo {
            flags.push_str(" SIZE-HINT-INEXACT");
        }
        lo
    };
    for _ in 0..p {
        hints.push(check(&it, &mut flags));
        match it.next() {
            None => break,
            Some(x) => pre.push(idx(&x)),
        }
    }
    hints.push(check(&it, &mut flags));
    let mut cl = it.clone();
    let base = it.clone();
    let folded = it.fold(Vec::new(), |mut acc, x| {
        acc.push(idx(&x));
        acc
    });
    let mut rest = Vec::new();
    while let Some(x) = cl.next() {
        rest.push(idx(&x));
    }
    if cl.next().is_some() || cl.next().is_some() {
        flags.push_str(" NOT-FUSED");
    }
    // direct oracle (C09): the provided `Iterator` methods a type may override (`nth`, `count`, `last`, `skip`,
    // `step_by`, `find`, `position`, `any`, `all`, `max_by_key`, `min_by_key`) agree with repeated `next`, and
    // leave the iterator at the position the contract says, with an exact length
    {
        let n = rest.len();
        let mut bad: Option<&'static str> = None;
        for k in [0usize, 1, n / 2, n.saturating_sub(1), n, n + 3] {
            let mut d = base.clone();
            let x = d.nth(k).map(|x| idx(&x));
            let left = n.saturating_sub(k + 1);
            if x != rest.get(k).copied() || d.len() != left || d.size_hint() != (left, Some(left)) {
                bad = Some("nth");
            }
            let tail: Vec<usize> = d.map(|x| idx(&x)).collect();
            if tail[..] != rest[std::cmp::min(k + 1, n)..] {
                bad = Some("nth-tail");
            }
        }
        if base.clone().count() != n {
            bad = Some("count");
        }
        if base.clone().last().map(|x| idx(&x)) != rest.last().copied() {
            bad = Some("last");
        }
        for k in [1usize, n / 2 + 1] {
            let v: Vec<usize> = base.clone().skip(k).map(|x| idx(&x)).collect();
            if v[..] != rest[std::cmp::min(k, n)..] {
                bad = Some("skip");
            }
            let v: Vec<usize> = base.clone().step_by(k + 1).map(|x| idx(&x)).collect();
            let w: Vec<usize> = rest.iter().copied().step_by(k + 1).collect();
            if v != w {
                bad = Some("step_by");
            }
        }
        // (bucket indices of zero-sized elements all print as 0: the position-dependent checks need distinct ones)
        let distinct = rest.iter().collect::<std::collections::BTreeSet<_>>().len() == n;
        if n > 0 && distinct {
            let target = rest[n / 2];
            let mut d = base.clone();
            if d.find(|x| idx(x) == target).map(|x| idx(&x)) != Some(target) || d.len() != n - n / 2 - 1 {
                bad = Some("find");
            }
            if base.clone().position(|x| idx(&x) == target) != rest.iter().position(|&b| b == target) {
                bad = Some("position");
            }
            if !base.clone().any(|x| idx(&x) == target) || base.clone().all(|x| idx(&x) != target) {
                bad = Some("any/all");
            }
            let mx = base.clone().max_by_key(|x| idx(x)).map(|x| idx(&x));
            let mn = base.clone().min_by_key(|x| idx(x)).map(|x| idx(&x));
            if mx != rest.iter().copied().max() || mn != rest.iter().copied().min() {
                bad = Some("max/min");
            }
        }
        if let Some(m) = bad {
            flags.push_str(&format!(" ORACLE-ITER({}_disagrees_with_repeated_next)", m));
        }
    }
    // direct oracle (C09): fold = repeated next from the same point; next-prefix + fold visits exactly
    // as many elements as the iterator announced at the start
    // (bucket indices of zero-sized elements all print as 0, so distinctness is left to the reference oracle)
    if folded != rest || pre.len() + folded.len() != hints[0] {
        flags.push_str(" FOLD-MISMATCH");
    }
    format!(
        "pre={} fold={} rest={} sh={}{}",
        nats(&pre),
        nats(&folded),
        nats(&rest),
        nats(&hints),
        flags
    )
}

/// `next` x p, then `nth` far past the end: it must return `None` AND leave the iterator exhausted (length 0,
/// nothing left for `fold`) — for every iterator kind, clonable or not.
pub fn observe_iter_nth<I, T>(it: I, p: usize, idx: impl Fn(&T) -> usize) -> String
where
    I: Iterator<Item = T> + ExactSizeIterator,
{
    let mut it = it;
    let mut pre = Vec::new();
    let mut hints = Vec::new();
    let mut flags = String::new();
    let check = |it: &I, flags: &mut String| {
        let (lo, hi) = it.size_hint();
        if hi != Some(lo) || it.len() != lo {
            flags.push_str(" SIZE-HINT-INEXACT");
        }
        lo
    };
    for _ in 0..p {
        hints.push(check(&it, &mut flags));
        match it.next() {
            None => break,
            Some(x) => pre.push(idx(&x)),
        }
    }
    hints.push(check(&it, &mut flags));
    if it.nth(usize::MAX / 2).is_some() {
        flags.push_str(" ORACLE-ITER(nth_past_the_end_returned_an_element)");
    }
    hints.push(check(&it, &mut flags));
    let folded = it.fold(Vec::new(), |mut acc, x| {
        acc.push(idx(&x));
        acc
    });
    if !folded.is_empty() || *hints.last().unwrap() != 0 {
        flags.push_str(" ORACLE-ITER(nth_past_the_end_did_not_exhaust_the_iterator)");
    }
    format!("pre={} fold={} rest={} sh={}{}", nats(&pre), nats(&folded), nats(&folded), nats(&hints), flags)
}

/// Same for iterators that cannot be cloned (`iter_mut`, `values_mut`): the "clone" column
/// repeats the folded one.
pub fn observe_iter_nc<I, T>(it: I, p: usize, idx: impl Fn(&T) -> usize) -> String
where
    I: Iterator<Item = T> + ExactSizeIterator,
{
    let mut it = it;
    let mut pre = Vec::new();
    let mut hints = Vec::new();
    let mut flags = String::new();
    let check = |it: &I, flags: &mut String| {
        let (lo, hi) = it.size_hint();
        if hi != Some(lo) || it.len() != lo {
            flags.push_str(" SIZE-HINT-INEXACT");
        }
        lo
    };
    for _ in 0..p {
        hints.push(check(&it, &mut flags));
        match it.next() {
            None => break,
            Some(x) => pre.push(idx(&x)),
        }
    }
    hints.push(check(&it, &mut flags));
    let folded = it.fold(Vec::new(), |mut acc, x| {
        acc.push(idx(&x));
        acc
    });
    if pre.len() + folded.len() != hints[0] {
        flags.push_str(" FOLD-MISMATCH");
    }
    format!(
        "pre={} fold={} rest={} sh={}{}",
        nats(&pre),
        nats(&folded),
        nats(&folded),
        nats(&hints),
        flags
    )
}

impl<K: KeyT, V: ValT> MapRunner<K, V> {
    pub fn new() -> Self {
        MapRunner {
            a: Some(new_map()),
            // the two collections use distinct allocator instances (ownership of blocks is per instance)
            b: Some(HashMap::with_hasher_in(IdBuild, TapeAlloc { id: 1 })),
            ra: RefMap::new(),
            rb: RefMap::new(),
            preds: Default::default(),
            live: Default::default(),
            dead: Default::default(),
            leak_ok: false,
            cc_seen: 0,
            stash: Vec::new(),
            churn_only: [true, true],
            peak: [0, 0],
        }
    }
    fn sel(&mut self, tgt: &str) -> (&mut M<K, V>, &mut M<K, V>) {
        let (a, b) = (self.a.as_mut().unwrap(), self.b.as_mut().unwrap());
        if tgt == "a" {
            (a, b)
        } else {
            (b, a)
        }
    }
    fn get(&self, tgt: &str) -> &M<K, V> {
        if tgt == "a" {
            self.a.as_ref().unwrap()
        } else {
            self.b.as_ref().unwrap()
        }
    }


    /// Direct oracle: what a reference association list says this op must return and leave behind.
    /// Only for lawful environments. Returns a complaint, or None.
    fn ref_step(&mut self, tgt: &str, name: &str, a: &[&str], ret: &str) -> Option<String> {
        let n = |i: usize| -> u64 { a[i].parse().unwrap() };
        let fe = |k: u64, e: &(u64, u64, u64)| format!("{}.{}.{}.{}", k, e.0, e.1, e.2);
        let preds = self.preds.borrow().clone();
        let actual = contents(self.get(tgt));
        let other_actual = contents(self.get(if tgt == "a" { "b" } else { "a" }));
        let (r, o) = if tgt == "a" { (&mut self.ra, &mut self.rb) } else { (&mut self.rb, &mut self.ra) };
        let mut expect: Option<String> = None;
        let mut resync_ids = false;
        match (name, a.len()) {
            ("insert", 4) => {
                let (k, kid, vid, v) = (n(0), n(1), n(2), n(3));
                let (kid, vid) = if K::IDS { (kid, vid) } else { (0, 0) };
                match r.get(&k).copied() {
                    Some(old) => {
                        expect = Some(format!("{}.{}", old.1, old.2));
                        r.insert(k, (old.0, vid, v));
                    }
                    None => {
                        expect = Some("-".into());
                        r.insert(k, (kid, vid, v));
                    }
                }
            }
            ("get", 1) => expect = Some(r.get(&n(0)).map_or("-".into(), |e| fe(n(0), e))),
            ("contains", 1) => expect = Some(r.contains_key(&n(0)).to_string()),
            ("getmut", 2) => {
                if let Some(e) = r.get_mut(&n(0)) {
                    e.2 = n(1);
                }
                expect = Some(r.get(&n(0)).map_or("-".into(), |e| fe(n(0), e)));
            }
            ("remove", 1) => {
                expect = Some(r.remove(&n(0)).map_or("-".into(), |e| format!("{}.{}", e.1, e.2)))
            }
            ("remove_entry", 1) => {
                expect = Some(r.remove(&n(0)).map_or("-".into(), |e| fe(n(0), &e)))
            }
            ("clear", 0) => {
                r.clear();
                expect = Some("()".into());
            }
            ("reserve", 1) | ("shrink_to", 1) | ("shrink_to_fit", 0) | ("nop", 0) => {
                expect = Some("()".into())
            }
            ("try_reserve", 1) => {
                let refusing = tape::with(|t| t.p.afail.is_some() || t.p.afrom.is_some());
                if n(0) < (1 << 40) && !refusing {
                    expect = Some("ok".into())
                }
            }
            ("retain", 0) => {
                let mut seen = std::collections::BTreeSet::new();
                for (k, ans, nv) in &preds {
                    if !seen.insert(*k) {
                        return Some(format!("retain visited key {} twice", k));
                    }
                    match r.get_mut(k) {
                        None => return Some(format!("retain visited absent key {}", k)),
                        Some(e) => e.2 = *nv,
                    }
                    if !*ans {
                        r.remove(k);
                    }
                }
                if seen.len() != preds.len() || actual.len() != r.len() {
                    return Some("retain: predicate calls do not cover the map once".into());
                }
                expect = Some("()".into());
            }
            ("extract_if", 1) => {
                let mut yielded = Vec::new();
                let mut seen = std::collections::BTreeSet::new();
                for (k, ans, nv) in &preds {
                    if !seen.insert(*k) {
                        return Some(format!("extract_if visited key {} twice", k));
                    }
                    match r.get_mut(k) {
                        None => return Some(format!("extract_if visited absent key {}", k)),
                        Some(e) => e.2 = *nv,
                    }
                    if *ans {
                        let e = r.remove(k).unwrap();
                        yielded.push(fe(*k, &e));
                    }
                }
                expect = Some(yielded.join(","));
            }
            ("drain", 2) | ("into_iter", 1) | ("drain_fold", 1) | ("into_iter_fold", 1) => {
                let got: Vec<&str> = if ret.is_empty() { vec![] } else { ret.split(',').collect() };
                let want = if name.ends_with("_fold") && n(0) == 0 { r.len() } else { std::cmp::min(n(0) as usize, r.len()) };
                if got.len() != want {
                    return Some(format!("{} yielded {} elements, expected {}", name, got.len(), want));
                }
                let mut seen = std::collections::BTreeSet::new();
                for g in &got {
                    let k: u64 = g.split('.').next().unwrap().parse().unwrap();
                    match r.get(&k) {
                        Some(e) if fe(k, e) == *g && seen.insert(k) => {}
                        _ => return Some(format!("{} yielded {} which is not a stored element (or twice)", name, g)),
                    }
                }
                r.clear();
            }
            ("with_capacity", 1) => {
                r.clear();
                expect = Some("()".into());
            }
            ("clone_to_other", 0) => {
                *o = r.clone();
                // clones carry fresh identities
                for (k, e) in &other_actual {
                    if K::IDS && r.contains_key(k) && (e.0 < 1_000_000 || e.1 < 1_000_000) {
                        return Some(format!("clone shares identity of key {}", k));
                    }
                }
                let a: Vec<_> = other_actual.iter().map(|(k, e)| (*k, e.2)).collect();
                let b: Vec<_> = o.iter().map(|(k, e)| (*k, e.2)).collect();
                if a != b {
                    return Some("clone differs from source".into());
                }
                *o = other_actual.clone();
                expect = Some("()".into());
            }
            ("clone_from", 0) => {
                let a: Vec<_> = actual.iter().map(|(k, e)| (*k, e.2)).collect();
                let b: Vec<_> = o.iter().map(|(k, e)| (*k, e.2)).collect();
                if a != b {
                    return Some("clone_from result differs from source".into());
                }
                for (k, e) in &actual {
                    let _ = k;
                    if K::IDS && (e.0 < 1_000_000 || e.1 < 1_000_000) {
                        return Some("clone_from shares identity with source".into());
                    }
                }
                resync_ids = true;
                expect = Some("()".into());
            }
            ("eq", 0) => {
                let a: Vec<_> = r.iter().map(|(k, e)| (*k, e.2)).collect();
                let b: Vec<_> = o.iter().map(|(k, e)| (*k, e.2)).collect();
                expect = Some((a == b).to_string());
                // `==` on ONE object, and with values whose `==` is not reflexive (NaN): equal exactly when
                // every value equals itself
                let fm: hashbrown::HashMap<u64, f64> =
                    r.iter().map(|(k, e)| (*k, if e.2 % 3 == 0 { f64::NAN } else { e.2 as f64 })).collect();
                let want = fm.values().all(|v| v == v);
                let fc = fm.clone();
                if (fm == fm) != want || (fm == fc) != want || (fc == fm) != want {
                    return Some("== with non-reflexive values (same object / clone) is not `all values equal`".into());
                }
            }
            ("self_eq", 0) => expect = Some("true".into()),
            _ => match crate::entry_ops::ref_entry(r, o, name, a, ret, &actual) {
                Ok(e) => expect = e,
                Err(why) => return Some(why),
            },
        }
        if resync_ids {
            *r = actual.clone();
        }
        if let Some(e) = expect {
            if e != ret {
                return Some(format!("{} returned {} but the reference map says {}", name, ret, e));
            }
        }
        if *r != actual {
            let missing: Vec<_> = r.keys().filter(|k| !actual.contains_key(k)).collect();
            let extra: Vec<_> = actual.keys().filter(|k| !r.contains_key(k)).collect();
            return Some(format!(
                "contents differ from the reference map after {} (missing keys {:?}, extra keys {:?}, or key/value identity changed)",
                name, missing, extra
            ));
        }
        None
    }

    /// Direct oracle for ownership: every key/value object moved into a collection is in exactly one
    /// of {a collection, dropped once by the collection, handed back to the caller}.
    fn ledger_step(&mut self, name: &str, a: &[&str], events: &[String], panicked: bool) -> Option<String> {
        if !K::DROP || !K::IDS {
            return None;
        }
        if name == "insert" && a.len() == 4 {
            self.live.insert(format!("k{}", a[1]));
            self.live.insert(format!("v{}", a[2]));
        }
        for id in crate::entry_ops::moved_in(name, a) {
            self.live.insert(id);
        }
        if name == "drain" && a.len() == 2 && a[1] == "1" {
            self.leak_ok = true;
        }
        if events.iter().any(|_| false) || tape::with(|t| t.p.dpanic.is_some()) {
            self.leak_ok = true;
        }
        let _ = panicked;
        // clones appear with fresh ids
        let mut held = std::collections::BTreeSet::new();
        for m in [self.a.as_ref().unwrap(), self.b.as_ref().unwrap()] {
            // every bucket (an inconsistent Eq can store one key twice)
            let d = m.verif_dump();
            let n = if d.is_singleton { 0 } else { d.bucket_mask + 1 };
            let all: Vec<(u64, u64)> = (0..n).filter_map(|i| m.verif_bucket(i).map(|(k, v)| (k.id(), v.id()))).collect();
            for e in all {
                for id in [format!("k{}", e.0), format!("v{}", e.1)] {
                    if !held.insert(id.clone()) {
                        return Some(format!("object {} is held twice", id));
                    }
                }
            }
        }
        for id in &held {
            let n: u64 = id[1..].parse().unwrap();
            if n >= 1_000_000 {
                self.live.insert(id.clone());
            }
        }
        for ev in events {
            if let Some(id) = ev.strip_prefix('d') {
                let n: u64 = id[1..].parse().unwrap();
                // clones made and destroyed inside one operation are never seen in a collection
                let transient = n >= 1_000_000 && !self.dead.contains(id);
                if !self.live.remove(id) && !transient {
                    return Some(format!("object {} dropped twice (or never owned)", id));
                }
                if !self.dead.insert(id.to_string()) {
                    return Some(format!("object {} dropped twice", id));
                }
            }
        }
        for id in tape::take_returned() {
            // probe keys / rejected arguments handed back are neither in `live` nor in `dead`; that is fine
            if self.live.remove(&id) {
                if !self.dead.insert(id.clone()) {
                    return Some(format!("object {} handed back after it was dropped", id));
                }
            } else if self.dead.contains(&id) {
                return Some(format!("object {} handed to the caller although the collection dropped it (or handed it out before)", id));
            }
        }
        // every object `Clone` created during this call is stored, was dropped, or was handed back
        let (cc_now, cpanic) = tape::with(|t| (t.cc, t.p.cpanic));
        let cc_from = std::mem::replace(&mut self.cc_seen, cc_now);
        if !self.leak_ok {
            for c in cc_from..cc_now {
                if cpanic == Some(c) {
                    continue;
                }
                for id in [format!("k{}", 1_000_000 + 2 * c), format!("v{}", 1_000_001 + 2 * c)] {
                    if !held.contains(&id) && !self.dead.contains(&id) {
                        return Some(format!("clone {} leaked: created by this call, stored nowhere, never dropped", id));
                    }
                }
            }
        }
        for id in &held {
            if !self.live.contains(id) {
                return Some(format!("object {} is in a collection but was dropped or returned", id));
            }
        }
        if !self.leak_ok {
            if let Some(id) = self.live.iter().find(|id| !held.contains(*id)) {
                return Some(format!("object {} leaked: owned by no collection, never dropped, never returned", id));
            }
        } else {
            self.live = held;
        }
        None
    }

    /// Direct oracle for the capacity contract (C08) and try_reserve (C12) on the real collection.
    fn capacity_step(
        &self,
        tgt: &str,
        name: &str,
        a: &[&str],
        ret: &str,
        before: &(Dump, usize, usize, usize),
        events: &[String],
    ) -> Option<String> {
        let m = self.get(tgt);
        let (len, cap, asz) = (m.len(), m.capacity(), m.allocation_size());
        let (bd, blen, bcap, basz) = before;
        let n = |i: usize| -> u128 { a[i].parse::<u128>().unwrap() };
        if cap < len {
            return Some(format!("capacity {} < len {}", cap, len));
        }
        let allocs = events.iter().filter(|e| e.starts_with("al")).count();
        let refused = tape::with(|t| std::mem::take(&mut t.refused));
        if !ret.starts_with("panic") {
            if let Some(why) = insert_within_capacity(name, (*blen, *bcap, *basz), (len, cap, asz)) {
                return Some(why);
            }
        }
        match (name, a.len()) {
            ("reserve", 1) if ret == "()" => {
                if (cap as u128) < len as u128 + n(0) {
                    return Some(format!("after reserve({}) capacity {} < len {} + n", n(0), cap, len));
                }
                if n(0) <= bd.growth_left as u128 && (allocs > 0 || m.verif_dump() != *bd) {
                    return Some("reserve within existing capacity touched the table".into());
                }
            }
            ("with_capacity", 1) if ret == "()" => {
                if (cap as u128) < n(0) {
                    return Some(format!("with_capacity({}) gave capacity {}", n(0), cap));
                }
                if n(0) == 0 && (allocs > 0 || asz != 0) {
                    return Some("with_capacity(0) allocated".into());
                }
            }
            ("insert", 4) if !ret.starts_with("panic") => {
                if bd.growth_left > 0 && allocs > 0 {
                    return Some(format!(
                        "insert allocated although capacity()-len() was {}",
                        bd.growth_left
                    ));
                }
            }
            ("shrink_to", 1) | ("shrink_to_fit", 0) if ret == "()" => {
                let mm = if a.is_empty() { 0 } else { n(0) };
                if asz > *basz {
                    return Some(format!("shrink enlarged the allocation {} -> {}", basz, asz));
                }
                let want = std::cmp::max(*blen as u128, std::cmp::min(mm, *bcap as u128));
                if (cap as u128) < want {
                    return Some(format!("after shrink_to({}) capacity {} < {}", mm, cap, want));
                }
                if *blen == 0 && mm == 0 && asz != 0 {
                    return Some("shrink_to(0) of an empty collection kept its allocation".into());
                }
                let want_cap = std::cmp::max(*blen as u128, mm);
                if want_cap > 0 && want_cap < (1u128 << 40) {
                    let (size, ca) = hashbrown::verif::table_layout_new::<(K, V)>();
                    if let Some(b) = hashbrown::verif::capacity_to_buckets(want_cap as usize, size, ca) {
                        if let Some((fresh, _, _)) = hashbrown::verif::calculate_layout_for(size, ca, b) {
                            if asz > fresh {
                                return Some(format!(
                                    "after shrink_to({}) the allocation ({} bytes) is larger than a fresh with_capacity({}) ({} bytes)",
                                    mm, asz, want_cap, fresh
                                ));
                            }
                        }
                    }
                }
                if len != *blen {
                    return Some("shrink changed len".into());
                }
            }
            ("clear", 0) if !ret.starts_with("panic") => {
                if asz != *basz {
                    return Some("clear changed the allocation".into());
                }
            }
            ("drain", 2) | ("drain_fold", 1) if (a.len() == 1 || a[1] == "0") && !ret.starts_with("panic") => {
                if asz != *basz || len != 0 {
                    return Some("drain did not leave an empty collection with its allocation".into());
                }
            }
            ("try_reserve", 1) => {
                if ret == "ok" {
                    if (cap as u128) < len as u128 + n(0) {
                        return Some(format!("try_reserve({}) = Ok but capacity {} < len {} + n", n(0), cap, len));
                    }
                } else if ret.starts_with("err(") {
                    if m.verif_dump() != *bd || !events.is_empty() {
                        return Some("try_reserve returned an error but changed the collection".into());
                    }
                    if let Some(rest) = ret.strip_prefix("err(AllocError ") {
                        let want = refused.last().map(|(s, al)| format!("{} {})", s, al));
                        if want.as_deref() != Some(rest) {
                            return Some(format!("AllocError carries {} but the refused layout was {:?}", rest, refused.last()));
                        }
                    }
                } else if ret.starts_with("panic") && !ret.starts_with("panic:hash") {
                    return Some(format!("try_reserve panicked: {}", ret));
                }
            }
            _ => {}
        }
        None
    }

    fn run(&mut self, tgt: &str, name: &str, a: &[&str]) -> String {
        let n = |i: usize| -> u64 { a[i].parse().unwrap() };
        let rec = self.preds.clone();
        rec.borrow_mut().clear();
        let (m, other) = if tgt == "a" {
            (self.a.as_mut().unwrap(), self.b.as_mut().unwrap())
        } else {
            (self.b.as_mut().unwrap(), self.a.as_mut().unwrap())
        };
        let pred = move |k: &K, v: &mut V| {
            let (ans, mutate) = tape::pred_of();
            if mutate {
                v.set_v(v.v() + 7);
            }
            rec.borrow_mut().push((k.k(), ans, v.v()));
            ans
        };
        match (name, a.len()) {
            ("insert", 4) => {
                let r = m.insert(K::new(n(0), n(1)), V::new(n(2), n(3)));
                quiet();
                r.as_ref().map_or("-".into(), fmt_v::<K, V>)
            }
            ("get", 1) => m.get_key_value(&Q(n(0))).map_or("-".into(), |(k, v)| fmt_kv(k, v)),
            ("contains", 1) => m.contains_key(&Q(n(0))).to_string(),
            ("getmut", 2) => match m.get_key_value_mut(&Q(n(0))) {
                None => "-".into(),
                Some((k, v)) => {
                    v.set_v(n(1));
                    fmt_kv(k, v)
                }
            },
            ("remove", 1) => {
                let r = m.remove(&Q(n(0)));
                quiet();
                r.as_ref().map_or("-".into(), fmt_v::<K, V>)
            }
            ("remove_entry", 1) => {
                let r = m.remove_entry(&Q(n(0)));
                quiet();
                r.as_ref().map_or("-".into(), |(k, v)| fmt_kv(k, v))
            }
            ("clear", 0) => {
                m.clear();
                "()".into()
            }
            ("reserve", 1) => {
                m.reserve(n(0) as usize);
                "()".into()
            }
            ("try_reserve", 1) => fmt_tre(m.try_reserve(n(0) as usize)),
            ("shrink_to", 1) => {
                m.shrink_to(n(0) as usize);
                "()".into()
            }
            ("shrink_to_fit", 0) => {
                m.shrink_to_fit();
                "()".into()
            }
            ("retain", 0) => {
                m.retain(pred);
                "()".into()
            }
            ("extract_if", 1) => {
                let out = &mut self.stash;
                {
                    let mut e = m.extract_if(pred);
                    let mut ended = false;
                    for _ in 0..n(0) {
                        match e.next() {
                            Some(x) => out.push(x),
                            None => {
                                ended = true;
                                break;
                            }
                        }
                    }
                    // polled again after its end it stays at the end: no element, no further predicate call
                    // (a predicate call would show in the callback counters; an element is flagged here)
                    if ended && (e.next().is_some() || e.next().is_some()) {
                        crate::exec::own_flag("ORACLE-REF(extract_if_yielded_an_element_after_returning_None)");
                    }
                }
                quiet();
                out.iter().map(|(k, v)| fmt_kv(k, v)).collect::<Vec<_>>().join(",")
            }
            ("drain", 2) => {
                let out = &mut self.stash;
                {
                    let total = m.len();
                    let mut d = m.drain();
                    for _ in 0..n(0) {
                        match next_exact(&mut d, total - out.len()) {
                            Some(x) => out.push(x),
                            None => break,
                        }
                    }
                    check_exact(&d, total - out.len());
                    if n(1) == 1 {
                        std::mem::forget(d);
                    }
                }
                quiet();
                out.iter().map(|(k, v)| fmt_kv(k, v)).collect::<Vec<_>>().join(",")
            }
            // owning iterators consumed through `fold` (for_each) by a consumer that stops by panicking at the
            // n-th element (0 = runs to completion): the rest is dropped while unwinding
            ("drain_fold", 1) | ("into_iter_fold", 1) => {
                let out = &mut self.stash;
                let stop = n(0) as usize;
                let r = std::panic::catch_unwind(std::panic::AssertUnwindSafe(|| {
                    let eat = |x: (K, V)| {
                        out.push(x);
                        if out.len() == stop {
                            std::panic::panic_any(tape::TapePanic("consumer"));
                        }
                    };
                    if name == "drain_fold" {
                        m.drain().for_each(eat);
                    } else {
                        let old = std::mem::replace(m, new_map());
                        old.into_iter().for_each(eat);
                    }
                }));
                if let Err(p) = r {
                    match p.downcast_ref::<tape::TapePanic>() {
                        Some(tp) if tp.0 == "consumer" => {}
                        _ => std::panic::resume_unwind(p),
                    }
                }
                quiet();
                out.iter().map(|(k, v)| fmt_kv(k, v)).collect::<Vec<_>>().join(",")
            }
            ("into_iter", 1) => {
                let old = std::mem::replace(m, new_map());
                let out = &mut self.stash;
                {
                    let total = old.len();
                    let mut it = old.into_iter();
                    for _ in 0..n(0) {
                        match next_exact(&mut it, total - out.len()) {
                            Some(x) => out.push(x),
                            None => break,
                        }
                    }
                    check_exact(&it, total - out.len());
                }
                quiet();
                out.iter().map(|(k, v)| fmt_kv(k, v)).collect::<Vec<_>>().join(",")
            }
            ("iter", 3) => {
                let (ka, va) = addr_index(m);
                let p = n(0) as usize;
                let bad = usize::MAX;
                match a[1] {
                    "keys" => observe_iter_nth(m.keys(), p, |k| *ka.get(&(*k as *const K as usize)).unwrap_or(&bad)),
                    "values" => observe_iter_nth(m.values(), p, |v| *va.get(&(*v as *const V as usize)).unwrap_or(&bad)),
                    "values_mut" => observe_iter_nth(m.values_mut(), p, |v| *va.get(&(&**v as *const V as usize)).unwrap_or(&bad)),
                    "iter_mut" => observe_iter_nth(m.iter_mut(), p, |(k, _)| *ka.get(&(*k as *const K as usize)).unwrap_or(&bad)),
                    _ => observe_iter_nth(m.iter(), p, |(k, _)| *ka.get(&(*k as *const K as usize)).unwrap_or(&bad)),
                }
            }
            ("iter", 1) | ("iter", 2) => {
                let (ka, va) = addr_index(m);
                let p = n(0) as usize;
                let variant = if a.len() == 2 { a[1] } else { "iter" };
                let bad = usize::MAX;
                match variant {
                    "keys" => observe_iter(m.keys(), p, |k| *ka.get(&(*k as *const K as usize)).unwrap_or(&bad)),
                    "values" => observe_iter(m.values(), p, |v| *va.get(&(*v as *const V as usize)).unwrap_or(&bad)),
                    "values_mut" => observe_iter_nc(m.values_mut(), p, |v| *va.get(&(&**v as *const V as usize)).unwrap_or(&bad)),
                    "iter_mut" => observe_iter_nc(m.iter_mut(), p, |(k, _)| *ka.get(&(*k as *const K as usize)).unwrap_or(&bad)),
                    _ => observe_iter(m.iter(), p, |(k, _)| *ka.get(&(*k as *const K as usize)).unwrap_or(&bad)),
                }
            }
            ("with_capacity", 1) => {
                let old = std::mem::replace(m, new_map());
                drop(old);
                *m = HashMap::with_capacity_and_hasher_in(n(0) as usize, IdBuild, TapeAlloc);
                "()".into()
            }
            ("clone_to_other", 0) => {
                let old = std::mem::replace(other, new_map());
                drop(old);
                *other = m.clone();
                "()".into()
            }
            ("clone_from", 0) => {
                m.clone_from(other);
                "()".into()
            }
            ("eq", 0) => (*m == *other).to_string(),
            ("self_eq", 0) => {
                let s: &M<K, V> = &*m;
                (*s == *s).to_string()
            }
            ("nop", 0) => "()".into(),
            _ => crate::entry_ops::run_entry(m, other, name, a),
        }
    }
}

impl<K: KeyT, V: ValT> Runner for MapRunner<K, V> {
    fn layout(&self) -> (usize, usize, bool, bool) {
        let (size, _) = hashbrown::verif::table_layout_new::<(K, V)>();
        (size, std::mem::align_of::<(K, V)>(), K::DROP, K::IDS)
    }
    fn op(&mut self, tgt: &str, name: &str, args: &[&str]) -> String {
        let cc_before = tape::with(|t| t.cc);
        let clone_src_len = match name {
            "clone_to_other" => self.get(tgt).len(),
            "clone_from" => self.get(if tgt == "a" { "b" } else { "a" }).len(),
            _ => 0,
        };
        let before = {
            let m = self.get(tgt);
            (m.verif_dump(), m.len(), m.capacity(), m.allocation_size())
        };
        tape::with(|t| t.refused.clear());
        loud();
        tape::with(|t| t.events.clear());
        let ret = match catch_unwind(AssertUnwindSafe(|| self.run(tgt, name, args))) {
            Ok(s) => s,
            Err(p) => panic_class(p),
        };
        quiet();
        self.stash.clear();
        let clean = ret.clone();
        let mut ret = ret;
        ret.push_str(&own_flags_take());
        if (name == "drain" && args.len() == 2 && args[1] == "1") || tape::with(|t| t.p.dpanic.is_some()) {
            self.leak_ok = true;
        }
        let evs = tape::peek_events();
        let panicked = ret.starts_with("panic");
        if let Some(why) = self.ledger_step(name, args, &evs, panicked) {
            ret.push_str(&format!(" ORACLE-LEDGER({})", why.replace(' ', "_")));
            self.leak_ok = true;
        }
        {
            let i = if tgt == "a" { 0 } else { 1 };
            if !matches!(name, "insert" | "get" | "getmut" | "contains" | "remove" | "remove_entry" | "nop" | "iter" | "eq" | "self_eq") {
                self.churn_only[i] = false;
                if matches!(name, "clone_to_other") {
                    self.churn_only[1 - i] = false;
                }
            }
            let (len_now, d) = {
                let m = self.get(tgt);
                (m.len(), m.verif_dump())
            };
            self.peak[i] = self.peak[i].max(before.1).max(len_now);
            if self.churn_only[i] {
                let full = hashbrown::verif::bucket_mask_to_capacity(d.bucket_mask);
                let bound = std::cmp::max(14, 4 * self.peak[i]);
                if !d.is_singleton && full > bound {
                    ret.push_str(&format!(
                        " ORACLE-CHURN(capacity_{}_exceeds_max(14,4*peak={})_under_pure_insert/remove_churn)",
                        full, self.peak[i]
                    ));
                }
            }
        }
        if let Some(why) = self.capacity_step(tgt, name, args, &clean, &before, &evs) {
            ret.push_str(&format!(" ORACLE-CAP({})", why.replace([' ', '(', ')'], "_")));
        }
        if let Some(why) = clone_count_oracle(name, &clean, cc_before, clone_src_len) {
            ret.push_str(&format!(" ORACLE-REF({})", why.replace([' ', '(', ')'], "_")));
        }
        for why in tape::with(|t| std::mem::take(&mut t.alloc_errors)) {
            ret.push_str(&format!(" ORACLE-ALLOC({})", why.replace(' ', "_")));
        }
        if !self.leak_ok {
            let held: usize = tape::with(|t| t.live_blocks.values().map(|(s, _)| *s).sum());
            let claimed = self.a.as_ref().unwrap().allocation_size() + self.b.as_ref().unwrap().allocation_size();
            if held != claimed {
                ret.push_str(&format!(
                    " ORACLE-ASZ(allocation_size_reports_{}_bytes_but_{}_are_held_from_the_allocator)",
                    claimed, held
                ));
            }
        }
        if let Some(why) = layout_oracle(self.get(tgt)) {
            ret.push_str(&format!(" ORACLE-LAYOUT({})", why.replace(' ', "_")));
        }
        // direct oracles on the implementation, independent of the model
        if let Some(why) = inv_oracle(&self.get(tgt).verif_dump()) {
            ret.push_str(&format!(" ORACLE-INV({})", why.replace(' ', "_")));
        }
        if let Some(why) = inv_oracle(&self.get(if tgt == "a" { "b" } else { "a" }).verif_dump()) {
            ret.push_str(&format!(" ORACLE-INV(other:{})", why.replace(' ', "_")));
        }
        if lawful() && !clean.starts_with("panic") {
            if let Some(why) = self.ref_step(tgt, name, args, &clean) {
                ret.push_str(&format!(" ORACLE-REF({})", why.replace(' ', "_")));
                // do not cascade: continue from what the implementation holds
                self.ra = contents(self.get("a"));
                self.rb = contents(self.get("b"));
            }
        } else {
            self.ra = contents(self.get("a"));
            self.rb = contents(self.get("b"));
        }
        // `clone_to_other` modifies the other collection; the state printed is always the target's
        let st = state_of(self.get(tgt));
        format!("{} ; {} ; {} ; {}", ret, st, tape::take_events(), tape::counters())
    }
    fn dump(&self, tgt: &str) -> Dump {
        self.get(tgt).verif_dump()
    }
    fn keys(&self, tgt: &str) -> Vec<u64> {
        let m = self.get(tgt);
        let d = m.verif_dump();
        let mut out = Vec::new();
        if !d.is_singleton {
            for i in 0..=d.bucket_mask {
                if let Some((k, _)) = m.verif_bucket(i) {
                    out.push(k.k());
                }
            }
        }
        out
    }
    fn finish(&mut self) -> Vec<String> {
        quiet();
        self.a = None;
        self.b = None;
        tape::with(|t| {
            let mut v = std::mem::take(&mut t.alloc_errors);
            let mut leaks: Vec<String> = t
                .live_blocks
                .drain()
                .map(|(_, (s, a))| format!("leaked block {}/{}", s, a))
                .collect();
            leaks.sort();
            v.extend(leaks);
            v
        })
    }
}

pub fn make_runner(coll: &str, drop: bool, lay: &str) -> Box<dyn Runner> {
    match (coll, drop, lay) {
        ("map", true, "std") => Box::new(MapRunner::<KD<()>, VD>::new()),
        ("map", false, "std") => Box::new(MapRunner::<KC<()>, VC>::new()),
        ("map", true, "a16") => Box::new(MapRunner::<KD<A16>, VD>::new()),
        ("map", false, "a16") => Box::new(MapRunner::<KC<A16>, VC>::new()),
        ("map", true, "a32") => Box::new(MapRunner::<KD<A32>, VD>::new()),
        ("map", true, "a64") => Box::new(MapRunner::<KD<A64>, VD>::new()),
        ("map", false, "a64") => Box::new(MapRunner::<KC<A64>, VC>::new()),
        ("map", true, "big") => Box::new(MapRunner::<KD<Big>, VD>::new()),
        ("map", false, "big") => Box::new(MapRunner::<KC<Big>, VC>::new()),
        ("map", false, "odd5") => Box::new(MapRunner::<K3, V2>::new()),
        ("table", d, l) => crate::table_runner::make(d, l),
        ("set", d, l) => crate::set_runner::make(d, l),
        ("par", d, l) => crate::par_runner::make(d, l),
        ("serde", d, l) => crate::serde_runner::make(d, l),
        _ => panic!("no runner for coll={} drop={} lay={}", coll, drop, lay),
    }
}
