//! Executes protocol operations on the real hashbrown collections and prints observations.
use crate::elems::*;
use crate::tape::{self, TapeAlloc, TapePanic};
use hashbrown::verif::Dump;
use hashbrown::{HashMap, TryReserveError};
use std::collections::HashMap as StdMap;
use std::panic::{catch_unwind, AssertUnwindSafe};

pub fn fnv64(s: &str) -> u64 {
    let mut h: u64 = 0xcbf29ce484222325;
    for b in s.bytes() {
        h = (h ^ b as u64).wrapping_mul(0x100000001b3);
    }
    h
}

pub fn fmt_state(d: &Dump, slots: &[(usize, String)]) -> String {
    let mut c = String::with_capacity(d.ctrl.len() * 2);
    for b in &d.ctrl {
        c.push_str(&format!("{:02x}", b));
    }
    let s: Vec<String> = slots.iter().map(|(i, e)| format!("{}:{}", i, e)).collect();
    let mut body = format!("c={} s={}", c, s.join(","));
    if body.len() > 600 {
        body = format!("#{:016x}", fnv64(&body));
    }
    format!("m={} i={} g={} {}", d.bucket_mask, d.items, d.growth_left, body)
}

pub fn fmt_tre(r: Result<(), TryReserveError>) -> String {
    match r {
        Ok(()) => "ok".into(),
        Err(TryReserveError::CapacityOverflow) => "err(CapacityOverflow)".into(),
        Err(TryReserveError::AllocError { layout }) => {
            format!("err(AllocError {} {})", layout.size(), layout.align())
        }
    }
}

pub fn panic_class(p: Box<dyn std::any::Any + Send>) -> String {
    if let Some(tp) = p.downcast_ref::<TapePanic>() {
        return format!("panic:{}", tp.0);
    }
    let msg = if let Some(s) = p.downcast_ref::<&str>() {
        s.to_string()
    } else if let Some(s) = p.downcast_ref::<String>() {
        s.clone()
    } else {
        "?".into()
    };
    if msg.contains("capacity overflow") {
        "panic:capacity".into()
    } else if msg.contains("duplicate keys") {
        "panic:dup".into()
    } else {
        format!("panic:other({})", msg.replace(' ', "_"))
    }
}

pub fn quiet() {
    tape::with(|t| t.logging = false);
}
pub fn loud() {
    tape::with(|t| t.logging = true);
}

pub trait Runner {
    /// Header facts: `(size, align, drop, ids)`.
    fn layout(&self) -> (usize, usize, bool, bool);
    fn op(&mut self, tgt: &str, name: &str, args: &[&str]) -> String;
    /// Raw dump of the target for generators that steer by state.
    fn dump(&self, tgt: &str) -> Dump;
    /// Keys currently stored in the target (by bucket order).
    fn keys(&self, tgt: &str) -> Vec<u64>;
    /// Drop both collections (end of scenario); returns allocator complaints.
    fn finish(&mut self) -> Vec<String>;
}

type M<K, V> = HashMap<K, V, IdBuild, TapeAlloc>;

pub struct MapRunner<K: KeyT, V: ValT> {
    a: Option<M<K, V>>,
    b: Option<M<K, V>>,
}

fn new_map<K: KeyT, V: ValT>() -> M<K, V> {
    HashMap::with_hasher_in(IdBuild, TapeAlloc)
}

fn fmt_kv<K: KeyT, V: ValT>(k: &K, v: &V) -> String {
    if K::IDS {
        format!("{}.{}.{}.{}", k.k(), k.id(), v.id(), v.v())
    } else {
        format!("{}.0.0.{}", k.k(), v.v())
    }
}
fn fmt_v<K: KeyT, V: ValT>(v: &V) -> String {
    if K::IDS {
        format!("{}.{}", v.id(), v.v())
    } else {
        format!("0.{}", v.v())
    }
}

fn state_of<K: KeyT, V: ValT>(m: &M<K, V>) -> String {
    let d = m.verif_dump();
    let mut slots = Vec::new();
    if !d.is_singleton {
        for i in 0..=d.bucket_mask {
            if let Some((k, v)) = m.verif_bucket(i) {
                slots.push((i, fmt_kv(k, v)));
            }
        }
    }
    format!(
        "{} len={} cap={} asz={}",
        fmt_state(&d, &slots),
        m.len(),
        m.capacity(),
        m.allocation_size()
    )
}

/// address of the key object in bucket `i` ↦ `i`
fn addr_index<K: KeyT, V: ValT>(m: &M<K, V>) -> (StdMap<usize, usize>, StdMap<usize, usize>) {
    let d = m.verif_dump();
    let mut ka = StdMap::new();
    let mut va = StdMap::new();
    if !d.is_singleton {
        for i in 0..=d.bucket_mask {
            if let Some((k, v)) = m.verif_bucket(i) {
                ka.insert(k as *const K as usize, i);
                va.insert(v as *const V as usize, i);
            }
        }
    }
    (ka, va)
}

fn nats(v: &[usize]) -> String {
    v.iter().map(|x| x.to_string()).collect::<Vec<_>>().join(",")
}

/// Drive an `ExactSizeIterator + Clone` the way `Map.iterObserve` does; `idx` maps an item to its bucket.
fn observe_iter<I, T>(it: I, p: usize, idx: impl Fn(&T) -> usize) -> String
where
    I: Iterator<Item = T> + ExactSizeIterator + Clone,
{
    let mut it = it;
    let mut pre = Vec::new();
    let mut hints = Vec::new();
    let mut flags = String::new();
    let mut check = |it: &I, flags: &mut String| {
        let (lo, hi) = it.size_hint();
        if hi != Some(lo) || it.len() != lo {
            flags.push_str(" SIZE-HINT-INEXACT");
        }
        lo
    };
    for _ in 0..p {
        hints.push(check(&it, &mut flags));
        match it.next() {
            None => break,
            Some(x) => pre.push(idx(&x)),
        }
    }
    hints.push(check(&it, &mut flags));
    let mut cl = it.clone();
    let folded = it.fold(Vec::new(), |mut acc, x| {
        acc.push(idx(&x));
        acc
    });
    let mut rest = Vec::new();
    while let Some(x) = cl.next() {
        rest.push(idx(&x));
    }
    if cl.next().is_some() || cl.next().is_some() {
        flags.push_str(" NOT-FUSED");
    }
    format!(
        "pre={} fold={} rest={} sh={}{}",
        nats(&pre),
        nats(&folded),
        nats(&rest),
        nats(&hints),
        flags
    )
}

impl<K: KeyT, V: ValT> MapRunner<K, V> {
    pub fn new() -> Self {
        MapRunner { a: Some(new_map()), b: Some(new_map()) }
    }
    fn sel(&mut self, tgt: &str) -> (&mut M<K, V>, &mut M<K, V>) {
        let (a, b) = (self.a.as_mut().unwrap(), self.b.as_mut().unwrap());
        if tgt == "a" {
            (a, b)
        } else {
            (b, a)
        }
    }
    fn get(&self, tgt: &str) -> &M<K, V> {
        if tgt == "a" {
            self.a.as_ref().unwrap()
        } else {
            self.b.as_ref().unwrap()
        }
    }

    fn run(&mut self, tgt: &str, name: &str, a: &[&str]) -> String {
        let n = |i: usize| -> u64 { a[i].parse().unwrap() };
        let (m, other) = self.sel(tgt);
        let pred = |_k: &K, v: &mut V| {
            let (ans, mutate) = tape::pred_of();
            if mutate {
                v.set_v(v.v() + 7);
            }
            ans
        };
        match (name, a.len()) {
            ("insert", 4) => {
                let r = m.insert(K::new(n(0), n(1)), V::new(n(2), n(3)));
                quiet();
                r.as_ref().map_or("-".into(), fmt_v::<K, V>)
            }
            ("get", 1) => m.get_key_value(&Q(n(0))).map_or("-".into(), |(k, v)| fmt_kv(k, v)),
            ("contains", 1) => m.contains_key(&Q(n(0))).to_string(),
            ("getmut", 2) => match m.get_key_value_mut(&Q(n(0))) {
                None => "-".into(),
                Some((k, v)) => {
                    v.set_v(n(1));
                    fmt_kv(k, v)
                }
            },
            ("remove", 1) => {
                let r = m.remove(&Q(n(0)));
                quiet();
                r.as_ref().map_or("-".into(), fmt_v::<K, V>)
            }
            ("remove_entry", 1) => {
                let r = m.remove_entry(&Q(n(0)));
                quiet();
                r.as_ref().map_or("-".into(), |(k, v)| fmt_kv(k, v))
            }
            ("clear", 0) => {
                m.clear();
                "()".into()
            }
            ("reserve", 1) => {
                m.reserve(n(0) as usize);
                "()".into()
            }
            ("try_reserve", 1) => fmt_tre(m.try_reserve(n(0) as usize)),
            ("shrink_to", 1) => {
                m.shrink_to(n(0) as usize);
                "()".into()
            }
            ("shrink_to_fit", 0) => {
                m.shrink_to_fit();
                "()".into()
            }
            ("retain", 0) => {
                m.retain(pred);
                "()".into()
            }
            ("extract_if", 1) => {
                let mut out = Vec::new();
                {
                    let mut e = m.extract_if(pred);
                    for _ in 0..n(0) {
                        match e.next() {
                            Some(x) => out.push(x),
                            None => break,
                        }
                    }
                }
                quiet();
                out.iter().map(|(k, v)| fmt_kv(k, v)).collect::<Vec<_>>().join(",")
            }
            ("drain", 2) => {
                let mut out = Vec::new();
                {
                    let mut d = m.drain();
                    for _ in 0..n(0) {
                        match d.next() {
                            Some(x) => out.push(x),
                            None => break,
                        }
                    }
                    if n(1) == 1 {
                        std::mem::forget(d);
                    }
                }
                quiet();
                out.iter().map(|(k, v)| fmt_kv(k, v)).collect::<Vec<_>>().join(",")
            }
            ("into_iter", 1) => {
                let old = std::mem::replace(m, new_map());
                let mut out = Vec::new();
                {
                    let mut it = old.into_iter();
                    for _ in 0..n(0) {
                        match it.next() {
                            Some(x) => out.push(x),
                            None => break,
                        }
                    }
                }
                quiet();
                out.iter().map(|(k, v)| fmt_kv(k, v)).collect::<Vec<_>>().join(",")
            }
            ("iter", 1) | ("iter", 2) => {
                let (ka, va) = addr_index(m);
                let p = n(0) as usize;
                let variant = if a.len() == 2 { a[1] } else { "iter" };
                match variant {
                    "keys" => observe_iter(m.keys(), p, |k| ka[&(*k as *const K as usize)]),
                    "values" => observe_iter(m.values(), p, |v| va[&(*v as *const V as usize)]),
                    _ => observe_iter(m.iter(), p, |(k, _)| ka[&(*k as *const K as usize)]),
                }
            }
            ("with_capacity", 1) => {
                let old = std::mem::replace(m, new_map());
                drop(old);
                *m = HashMap::with_capacity_and_hasher_in(n(0) as usize, IdBuild, TapeAlloc);
                "()".into()
            }
            ("clone_to_other", 0) => {
                let old = std::mem::replace(other, new_map());
                drop(old);
                *other = m.clone();
                "()".into()
            }
            ("clone_from", 0) => {
                m.clone_from(other);
                "()".into()
            }
            ("eq", 0) => (*m == *other).to_string(),
            ("nop", 0) => "()".into(),
            _ => format!("bad-op {}", name),
        }
    }
}

impl<K: KeyT, V: ValT> Runner for MapRunner<K, V> {
    fn layout(&self) -> (usize, usize, bool, bool) {
        let (size, _) = hashbrown::verif::table_layout_new::<(K, V)>();
        (size, std::mem::align_of::<(K, V)>(), K::DROP, K::IDS)
    }
    fn op(&mut self, tgt: &str, name: &str, args: &[&str]) -> String {
        loud();
        tape::with(|t| t.events.clear());
        let ret = match catch_unwind(AssertUnwindSafe(|| self.run(tgt, name, args))) {
            Ok(s) => s,
            Err(p) => panic_class(p),
        };
        quiet();
        // `clone_to_other` modifies the other collection; the state printed is always the target's
        let st = state_of(self.get(tgt));
        format!("{} ; {} ; {} ; {}", ret, st, tape::take_events(), tape::counters())
    }
    fn dump(&self, tgt: &str) -> Dump {
        self.get(tgt).verif_dump()
    }
    fn keys(&self, tgt: &str) -> Vec<u64> {
        let m = self.get(tgt);
        let d = m.verif_dump();
        let mut out = Vec::new();
        if !d.is_singleton {
            for i in 0..=d.bucket_mask {
                if let Some((k, _)) = m.verif_bucket(i) {
                    out.push(k.k());
                }
            }
        }
        out
    }
    fn finish(&mut self) -> Vec<String> {
        quiet();
        self.a = None;
        self.b = None;
        tape::with(|t| {
            let mut v = std::mem::take(&mut t.alloc_errors);
            let mut leaks: Vec<String> = t
                .live_blocks
                .drain()
                .map(|(_, (s, a))| format!("leaked block {}/{}", s, a))
                .collect();
            leaks.sort();
            v.extend(leaks);
            v
        })
    }
}

pub fn make_runner(coll: &str, drop: bool, lay: &str) -> Box<dyn Runner> {
    match (coll, drop, lay) {
        ("map", true, "std") => Box::new(MapRunner::<KD<()>, VD>::new()),
        ("map", false, "std") => Box::new(MapRunner::<KC<()>, VC>::new()),
        ("map", true, "a16") => Box::new(MapRunner::<KD<A16>, VD>::new()),
        ("map", false, "a16") => Box::new(MapRunner::<KC<A16>, VC>::new()),
        ("map", true, "a32") => Box::new(MapRunner::<KD<A32>, VD>::new()),
        ("map", true, "a64") => Box::new(MapRunner::<KD<A64>, VD>::new()),
        ("map", false, "a64") => Box::new(MapRunner::<KC<A64>, VC>::new()),
        ("map", true, "big") => Box::new(MapRunner::<KD<Big>, VD>::new()),
        ("map", false, "big") => Box::new(MapRunner::<KC<Big>, VC>::new()),
        _ => panic!("no runner for coll={} drop={} lay={}", coll, drop, lay),
    }
}
