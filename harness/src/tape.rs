//! Deterministic oracles for user callbacks and the allocator, identical to `Hb/Driver.lean`.
use allocator_api2::alloc::{AllocError, Allocator, Global, Layout};
use std::cell::RefCell;
use std::collections::HashMap as StdMap;
use std::ptr::NonNull;

pub fn splitmix64(x: u64) -> u64 {
    let mut z = x.wrapping_add(0x9E3779B97F4A7C15);
    z = (z ^ (z >> 30)).wrapping_mul(0xBF58476D1CE4E5B9);
    z = (z ^ (z >> 27)).wrapping_mul(0x94D049BB133111EB);
    z ^ (z >> 31)
}

pub fn mix3(seed: u64, a: u64, b: u64) -> u64 {
    splitmix64(splitmix64(seed.wrapping_add(a)).wrapping_add(b))
}

/// Deterministic PRNG for generators.
#[derive(Clone)]
pub struct Rng(pub u64);
impl Rng {
    pub fn new(seed: u64) -> Self {
        Rng(splitmix64(seed ^ 0xA5A5_5A5A_1234_5678))
    }
    pub fn next(&mut self) -> u64 {
        self.0 = self.0.wrapping_add(0x9E3779B97F4A7C15);
        splitmix64(self.0)
    }
    pub fn below(&mut self, n: u64) -> u64 {
        if n == 0 {
            0
        } else {
            self.next() % n
        }
    }
    pub fn chance(&mut self, num: u64, den: u64) -> bool {
        self.below(den) < num
    }
    pub fn pick<'a, T>(&mut self, v: &'a [T]) -> &'a T {
        &v[self.below(v.len() as u64) as usize]
    }
}

#[derive(Clone, Default, Debug)]
pub struct EnvP {
    pub hash_mix: Option<u64>,
    pub hpanic: Option<u64>,
    pub eq_mix: Option<u64>,
    pub epanic: Option<u64>,
    pub cpanic: Option<u64>,
    pub pred_seed: u64,
    pub ppanic: Option<u64>,
    pub dpanic: Option<u64>,
    pub afail: Option<u64>,
    pub afrom: Option<u64>,
    /// an unlawful hasher or `Eq` was active at some point of this scenario
    pub tainted: bool,
}

impl EnvP {
    pub fn apply(&mut self, toks: &[&str]) {
        fn opt(v: &str) -> Option<u64> {
            if v == "-" {
                None
            } else {
                Some(v.parse().unwrap())
            }
        }
        for t in toks {
            let (k, v) = t.split_once('=').unwrap_or((t, ""));
            match k {
                "hash" => {
                    self.hash_mix = v.strip_prefix("mix:").map(|s| s.parse().unwrap());
                }
                "eq" => {
                    self.eq_mix = v.strip_prefix("mix:").map(|s| s.parse().unwrap());
                }
                "hpanic" => self.hpanic = opt(v),
                "epanic" => self.epanic = opt(v),
                "cpanic" => self.cpanic = opt(v),
                "ppanic" => self.ppanic = opt(v),
                "dpanic" => self.dpanic = opt(v),
                "pred" => self.pred_seed = v.parse().unwrap(),
                "afail" => self.afail = opt(v),
                "afrom" => self.afrom = opt(v),
                _ => {}
            }
        }
        if self.hash_mix.is_some() || self.eq_mix.is_some() {
            self.tainted = true;
        }
    }
}

#[derive(Default)]
pub struct Tape {
    pub p: EnvP,
    pub plan: StdMap<u64, u64>,
    pub hc: u64,
    pub ec: u64,
    pub cc: u64,
    pub pc: u64,
    pub ac: u64,
    pub dc: u64,
    pub last_clone: u64,
    pub events: Vec<String>,
    pub live_blocks: StdMap<usize, (usize, usize)>,
    /// which allocator instance handed out each live block
    pub block_owner: StdMap<usize, u8>,
    pub alloc_errors: Vec<String>,
    /// when false, drops are not logged (harness-side drops of returned values)
    pub logging: bool,
    /// ids of key/value objects dropped by the harness itself (they were returned to the caller)
    pub returned: Vec<String>,
    /// layouts refused by the allocator since the last reset of this list
    pub refused: Vec<(usize, usize)>,
}

thread_local! {
    pub static TAPE: RefCell<Tape> = RefCell::new(Tape::default());
}

/// Payload of panics raised by the oracles.
pub struct TapePanic(pub &'static str);

pub fn reset() {
    TAPE.with(|t| {
        let mut t = t.borrow_mut();
        let live = std::mem::take(&mut t.live_blocks);
        *t = Tape::default();
        // blocks of collections from a previous scenario that were deliberately leaked
        drop(live);
    });
}

pub fn with<R>(f: impl FnOnce(&mut Tape) -> R) -> R {
    TAPE.with(|t| f(&mut t.borrow_mut()))
}

pub fn hash_of(k: u64) -> u64 {
    let r = with(|t| {
        let c = t.hc;
        t.hc += 1;
        if t.p.hpanic == Some(c) {
            None
        } else if let Some(seed) = t.p.hash_mix {
            Some(mix3(seed, c, k))
        } else {
            Some(t.plan.get(&k).copied().unwrap_or_else(|| mix3(0x5eed, 0, k)))
        }
    });
    match r {
        Some(h) => h,
        None => std::panic::panic_any(TapePanic("hash")),
    }
}

/// Hash value the plan assigns to `k` without consuming the tape (for caller-supplied hashes).
pub fn plan_hash(k: u64) -> u64 {
    with(|t| t.plan.get(&k).copied().unwrap_or_else(|| mix3(0x5eed, 0, k)))
}

pub fn eq_of(probe: u64, stored_k: u64) -> bool {
    let r = with(|t| {
        let c = t.ec;
        t.ec += 1;
        if t.p.epanic == Some(c) {
            None
        } else if let Some(seed) = t.p.eq_mix {
            Some(mix3(seed, c, 0) % 2 == 1)
        } else {
            Some(probe == stored_k)
        }
    });
    match r {
        Some(b) => b,
        None => std::panic::panic_any(TapePanic("eq")),
    }
}

/// `Clone` of a key object: consumes one clone call, returns the fresh key id.
pub fn clone_key() -> u64 {
    let r = with(|t| {
        let c = t.cc;
        t.cc += 1;
        t.last_clone = c;
        if t.p.cpanic == Some(c) {
            None
        } else {
            Some(1_000_000 + 2 * c)
        }
    });
    match r {
        Some(id) => id,
        None => std::panic::panic_any(TapePanic("clone")),
    }
}

/// `Clone` of the value object belonging to the key cloned last.
pub fn clone_val() -> u64 {
    with(|t| 1_000_001 + 2 * t.last_clone)
}

/// Predicate oracle: `(answer, mutate?)`.
pub fn pred_of() -> (bool, bool) {
    let r = with(|t| {
        let c = t.pc;
        t.pc += 1;
        if t.p.ppanic == Some(c) {
            None
        } else {
            let r = mix3(t.p.pred_seed, c, 0);
            Some((r % 2 == 1, (r / 2) % 4 == 0))
        }
    });
    match r {
        Some(x) => x,
        None => std::panic::panic_any(TapePanic("pred")),
    }
}

/// Called by `Drop` of a key object (one drop call per element).
pub fn drop_key(id: u64) {
    let p = with(|t| {
        if !t.logging {
            t.returned.push(format!("k{}", id));
            return false;
        }
        let c = t.dc;
        t.dc += 1;
        t.events.push(format!("dk{}", id));
        t.p.dpanic == Some(c)
    });
    if p && !std::thread::panicking() {
        std::panic::panic_any(TapePanic("drop"));
    }
}

pub fn drop_val(id: u64) {
    with(|t| {
        if t.logging {
            t.events.push(format!("dv{}", id));
        } else {
            t.returned.push(format!("v{}", id));
        }
    });
}

pub fn take_events() -> String {
    with(|t| {
        let mut e = std::mem::take(&mut t.events);
        e.sort();
        e.join(",")
    })
}

pub fn peek_events() -> Vec<String> {
    with(|t| t.events.clone())
}

pub fn take_returned() -> Vec<String> {
    with(|t| std::mem::take(&mut t.returned))
}

pub fn counters() -> String {
    with(|t| {
        format!(
            "h={} e={} c={} p={} a={} d={}",
            t.hc, t.ec, t.cc, t.pc, t.ac, t.dc
        )
    })
}

/// Allocator driven by the tape; checks that every block is returned once, with its layout, to the
/// allocator INSTANCE that handed it out (`id`). `TapeAlloc` (the constant below) is instance 0.
#[derive(Clone, Copy, Default)]
pub struct TapeAlloc {
    pub id: u8,
}
#[allow(non_upper_case_globals)]
pub const TapeAlloc: TapeAlloc = TapeAlloc { id: 0 };

unsafe impl Allocator for TapeAlloc {
    fn allocate(&self, layout: Layout) -> Result<NonNull<[u8]>, AllocError> {
        let ok = with(|t| {
            let j = t.ac;
            t.ac += 1;
            let fail = t.p.afail == Some(j) || t.p.afrom.map_or(false, |f| j >= f);
            if !fail {
                t.events.push(format!("al{}/{}", layout.size(), layout.align()));
            }
            !fail
        });
        if !ok {
            with(|t| t.refused.push((layout.size(), layout.align())));
            return Err(AllocError);
        }
        if layout.size() == 0 || !layout.align().is_power_of_two() {
            with(|t| {
                t.alloc_errors
                    .push(format!("invalid layout requested {:?}", layout))
            });
        }
        let p = Global.allocate(layout)?;
        // poison fresh memory so that reads of uninitialised bytes are visible as garbage
        unsafe { std::ptr::write_bytes(p.as_ptr() as *mut u8, 0xA7, layout.size()) };
        let id = self.id;
        with(|t| {
            t.block_owner.insert(p.as_ptr() as *mut u8 as usize, id);
            t.live_blocks
                .insert(p.as_ptr() as *mut u8 as usize, (layout.size(), layout.align()))
        });
        Ok(p)
    }
    unsafe fn deallocate(&self, ptr: NonNull<u8>, layout: Layout) {
        let id = self.id;
        let known = with(|t| {
            t.events
                .push(format!("fr{}/{}", layout.size(), layout.align()));
            if let Some(owner) = t.block_owner.remove(&(ptr.as_ptr() as usize)) {
                if owner != id {
                    t.alloc_errors.push(format!(
                        "block of {} bytes allocated by allocator instance {} was freed through instance {}",
                        layout.size(),
                        owner,
                        id
                    ));
                }
            }
            t.live_blocks.remove(&(ptr.as_ptr() as usize))
        });
        match known {
            Some((s, a)) if s == layout.size() && a == layout.align() => {
                std::ptr::write_bytes(ptr.as_ptr(), 0xDD, layout.size());
                Global.deallocate(ptr, layout)
            }
            Some((s, a)) => with(|t| {
                t.alloc_errors.push(format!(
                    "dealloc layout mismatch: allocated {}/{} freed {}/{}",
                    s,
                    a,
                    layout.size(),
                    layout.align()
                ))
            }),
            None => with(|t| {
                t.alloc_errors
                    .push(format!("dealloc of unknown block {:p}", ptr.as_ptr()))
            }),
        }
    }
}
