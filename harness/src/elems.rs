//! Element types whose `Hash`/`Eq`/`Clone`/`Drop` are driven by the tape.
use crate::tape;
use std::hash::{BuildHasher, Hash, Hasher};

/// Identity hasher: the tape already produced the 64-bit hash.
#[derive(Clone, Copy, Default)]
pub struct IdBuild;
pub struct IdHasher(u64);
impl BuildHasher for IdBuild {
    type Hasher = IdHasher;
    fn build_hasher(&self) -> IdHasher {
        IdHasher(0)
    }
}
impl Hasher for IdHasher {
    fn finish(&self) -> u64 {
        self.0
    }
    fn write(&mut self, _: &[u8]) {
        unreachable!("only write_u64 is used")
    }
    fn write_u64(&mut self, x: u64) {
        self.0 = x;
    }
}

pub trait KeyT: Hash + Eq + Clone + 'static {
    const DROP: bool;
    const IDS: bool;
    fn new(k: u64, id: u64) -> Self;
    fn k(&self) -> u64;
    fn id(&self) -> u64;
}
pub trait ValT: PartialEq + Clone + 'static {
    fn new(id: u64, v: u64) -> Self;
    fn id(&self) -> u64;
    fn v(&self) -> u64;
    fn set_v(&mut self, v: u64);
}

/// Borrowed form used for look-ups (no destructor, so unwinding logs nothing for it).
#[derive(Clone, Copy)]
pub struct Q(pub u64);
impl Hash for Q {
    fn hash<H: Hasher>(&self, state: &mut H) {
        state.write_u64(tape::hash_of(self.0));
    }
}

impl<K: KeyT> hashbrown::Equivalent<K> for Q {
    fn equivalent(&self, key: &K) -> bool {
        tape::eq_of(self.0, key.k())
    }
}

macro_rules! key_common {
    ($name:ident $(<$p:ident>)?) => {
        impl$(<$p: Pad>)? Hash for $name$(<$p>)? {
            fn hash<H: Hasher>(&self, state: &mut H) {
                state.write_u64(tape::hash_of(self.k));
            }
        }
        impl$(<$p: Pad>)? PartialEq for $name$(<$p>)? {
            fn eq(&self, other: &Self) -> bool {
                tape::eq_of(self.k, other.k)
            }
        }
        impl$(<$p: Pad>)? Eq for $name$(<$p>)? {}
    };
}

/// Padding / alignment carriers for element layouts.
pub trait Pad: Copy + Default + 'static {}
impl Pad for () {}
#[derive(Clone, Copy, Default)]
#[repr(align(16))]
pub struct A16;
impl Pad for A16 {}
#[derive(Clone, Copy, Default)]
#[repr(align(32))]
pub struct A32;
impl Pad for A32 {}
#[derive(Clone, Copy, Default)]
#[repr(align(64))]
pub struct A64;
impl Pad for A64 {}
#[derive(Clone, Copy)]
pub struct Big(pub [u64; 21]);
impl Default for Big {
    fn default() -> Self {
        Big([0; 21])
    }
}
impl Pad for Big {}

/// Key with drop glue.
pub struct KD<P: Pad = ()> {
    pub k: u64,
    pub id: u64,
    pub pad: P,
}
key_common!(KD<P>);
impl<P: Pad> Drop for KD<P> {
    fn drop(&mut self) {
        tape::drop_key(self.id);
    }
}
impl<P: Pad> Clone for KD<P> {
    fn clone(&self) -> Self {
        KD { k: self.k, id: tape::clone_key(), pad: self.pad }
    }
}
impl<P: Pad> KeyT for KD<P> {
    const DROP: bool = true;
    const IDS: bool = true;
    fn new(k: u64, id: u64) -> Self {
        KD { k, id, pad: P::default() }
    }
    fn k(&self) -> u64 {
        self.k
    }
    fn id(&self) -> u64 {
        self.id
    }
}

/// Key without drop glue.
#[derive(Copy)]
pub struct KC<P: Pad = ()> {
    pub k: u64,
    pub id: u64,
    pub pad: P,
}
key_common!(KC<P>);
impl<P: Pad> Clone for KC<P> {
    fn clone(&self) -> Self {
        KC { k: self.k, id: tape::clone_key(), pad: self.pad }
    }
}
impl<P: Pad> KeyT for KC<P> {
    const DROP: bool = false;
    const IDS: bool = true;
    fn new(k: u64, id: u64) -> Self {
        KC { k, id, pad: P::default() }
    }
    fn k(&self) -> u64 {
        self.k
    }
    fn id(&self) -> u64 {
        self.id
    }
}

/// Value with drop glue.
pub struct VD {
    pub id: u64,
    pub v: u64,
}
impl Drop for VD {
    fn drop(&mut self) {
        tape::drop_val(self.id);
    }
}
impl Clone for VD {
    fn clone(&self) -> Self {
        VD { id: tape::clone_val(), v: self.v }
    }
}
impl PartialEq for VD {
    fn eq(&self, o: &Self) -> bool {
        self.v == o.v
    }
}
impl ValT for VD {
    fn new(id: u64, v: u64) -> Self {
        VD { id, v }
    }
    fn id(&self) -> u64 {
        self.id
    }
    fn v(&self) -> u64 {
        self.v
    }
    fn set_v(&mut self, v: u64) {
        self.v = v
    }
}

/// Value without drop glue.
#[derive(Copy)]
pub struct VC {
    pub id: u64,
    pub v: u64,
}
impl Clone for VC {
    fn clone(&self) -> Self {
        VC { id: tape::clone_val(), v: self.v }
    }
}
impl PartialEq for VC {
    fn eq(&self, o: &Self) -> bool {
        self.v == o.v
    }
}
impl ValT for VC {
    fn new(id: u64, v: u64) -> Self {
        VC { id, v }
    }
    fn id(&self) -> u64 {
        self.id
    }
    fn v(&self) -> u64 {
        self.v
    }
    fn set_v(&mut self, v: u64) {
        self.v = v
    }
}



/// Three-byte key without identity or drop glue (odd element sizes exercise layout padding).
#[derive(Copy)]
pub struct K3 {
    pub k: [u8; 3],
}
impl Clone for K3 {
    fn clone(&self) -> Self {
        let _ = tape::clone_key();
        K3 { k: self.k }
    }
}
impl Hash for K3 {
    fn hash<H: Hasher>(&self, state: &mut H) {
        state.write_u64(tape::hash_of(KeyT::k(self)));
    }
}
impl PartialEq for K3 {
    fn eq(&self, other: &Self) -> bool {
        tape::eq_of(KeyT::k(self), KeyT::k(other))
    }
}
impl Eq for K3 {}
impl KeyT for K3 {
    const DROP: bool = false;
    const IDS: bool = false;
    fn new(k: u64, _id: u64) -> Self {
        K3 { k: [k as u8, (k >> 8) as u8, (k >> 16) as u8] }
    }
    fn k(&self) -> u64 {
        self.k[0] as u64 | (self.k[1] as u64) << 8 | (self.k[2] as u64) << 16
    }
    fn id(&self) -> u64 {
        0
    }
}

/// Two-byte value without identity or drop glue.
#[derive(Copy)]
pub struct V2 {
    pub v: [u8; 2],
}
impl Clone for V2 {
    fn clone(&self) -> Self {
        let _ = tape::clone_val();
        V2 { v: self.v }
    }
}
impl PartialEq for V2 {
    fn eq(&self, o: &Self) -> bool {
        self.v == o.v
    }
}
impl ValT for V2 {
    fn new(_id: u64, v: u64) -> Self {
        V2 { v: [v as u8, (v >> 8) as u8] }
    }
    fn id(&self) -> u64 {
        0
    }
    fn v(&self) -> u64 {
        self.v[0] as u64 | (self.v[1] as u64) << 8
    }
    fn set_v(&mut self, v: u64) {
        self.v = [v as u8, (v >> 8) as u8]
    }
}
