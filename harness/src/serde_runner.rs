//! `coll=serde`: `Serialize` / `Deserialize` of `HashMap` and `HashSet` (C20).
//!
//! The collections use the tape allocator (`Deserialize` is generic in `A: Allocator + Default`),
//! so the reservation made before the first element is visible as an allocator event. The harness
//! owns both ends of serde: a hand-rolled `Serializer` that records `u64` tokens and a scripted
//! `Deserializer` whose `MapAccess` / `SeqAccess` claims an arbitrary `size_hint`, yields scripted
//! entries (objects with fresh identities) and reports an error at a scripted position.
//!
//! Layout key of the header: `std`, `a32`, `a64` = maps, `a16`, `big` = sets. Set ops carry the
//! suffix `_set`.
use crate::elems::*;
use crate::exec::{fmt_state, fnv64, inv_oracle, lawful, loud, panic_class, quiet, Runner};
use crate::gen::Gen;
use crate::tape::{self, TapeAlloc};
use hashbrown::verif::Dump;
use hashbrown::{HashMap, HashSet};
use serde::de::{self, Deserialize, DeserializeSeed, Deserializer, MapAccess, SeqAccess, Visitor};
use serde::ser::{self, Impossible, Serialize, SerializeMap, SerializeSeq, Serializer};
use std::cell::RefCell;
use std::collections::{BTreeMap, BTreeSet, VecDeque};
use std::fmt;
use std::panic::{catch_unwind, AssertUnwindSafe};

/* ---------- error type shared by both directions ---------- */

#[derive(Debug)]
pub struct SErr(pub String);
impl fmt::Display for SErr {
    fn fmt(&self, f: &mut fmt::Formatter<'_>) -> fmt::Result {
        f.write_str(&self.0)
    }
}
impl de::StdError for SErr {}
impl de::Error for SErr {
    fn custom<T: fmt::Display>(m: T) -> Self {
        SErr(m.to_string())
    }
}
impl ser::Error for SErr {
    fn custom<T: fmt::Display>(m: T) -> Self {
        SErr(m.to_string())
    }
}
fn unsupported<T>() -> Result<T, SErr> {
    Err(SErr("unsupported".into()))
}

/* ---------- Serializer: a flat list of u64 tokens ---------- */

#[derive(Default)]
pub struct Sink {
    pub vals: Vec<u64>,
    /// the `len` argument of `serialize_map` / `serialize_seq`
    pub declared: Option<Option<usize>>,
}
pub struct Ser<'a>(&'a mut Sink);
pub struct Comp<'a>(&'a mut Sink);

macro_rules! ser_unsupported {
    ($($name:ident($($t:ty),*);)*) => {
        $(fn $name(self $(, _: $t)*) -> Result<(), SErr> { unsupported() })*
    };
}

impl<'a> Serializer for Ser<'a> {
    type Ok = ();
    type Error = SErr;
    type SerializeSeq = Comp<'a>;
    type SerializeMap = Comp<'a>;
    type SerializeTuple = Impossible<(), SErr>;
    type SerializeTupleStruct = Impossible<(), SErr>;
    type SerializeTupleVariant = Impossible<(), SErr>;
    type SerializeStruct = Impossible<(), SErr>;
    type SerializeStructVariant = Impossible<(), SErr>;

    fn serialize_u64(self, v: u64) -> Result<(), SErr> {
        self.0.vals.push(v);
        Ok(())
    }
    fn serialize_seq(self, len: Option<usize>) -> Result<Comp<'a>, SErr> {
        self.0.declared = Some(len);
        Ok(Comp(self.0))
    }
    fn serialize_map(self, len: Option<usize>) -> Result<Comp<'a>, SErr> {
        self.0.declared = Some(len);
        Ok(Comp(self.0))
    }
    ser_unsupported! {
        serialize_bool(bool); serialize_i8(i8); serialize_i16(i16); serialize_i32(i32); serialize_i64(i64);
        serialize_u8(u8); serialize_u16(u16); serialize_u32(u32); serialize_f32(f32); serialize_f64(f64);
        serialize_char(char); serialize_str(&str); serialize_bytes(&[u8]); serialize_none(); serialize_unit();
        serialize_unit_struct(&'static str); serialize_unit_variant(&'static str, u32, &'static str);
    }
    fn serialize_some<T: ?Sized + Serialize>(self, _: &T) -> Result<(), SErr> {
        unsupported()
    }
    fn serialize_newtype_struct<T: ?Sized + Serialize>(self, _: &'static str, _: &T) -> Result<(), SErr> {
        unsupported()
    }
    fn serialize_newtype_variant<T: ?Sized + Serialize>(
        self,
        _: &'static str,
        _: u32,
        _: &'static str,
        _: &T,
    ) -> Result<(), SErr> {
        unsupported()
    }
    fn serialize_tuple(self, _: usize) -> Result<Self::SerializeTuple, SErr> {
        unsupported()
    }
    fn serialize_tuple_struct(self, _: &'static str, _: usize) -> Result<Self::SerializeTupleStruct, SErr> {
        unsupported()
    }
    fn serialize_tuple_variant(
        self,
        _: &'static str,
        _: u32,
        _: &'static str,
        _: usize,
    ) -> Result<Self::SerializeTupleVariant, SErr> {
        unsupported()
    }
    fn serialize_struct(self, _: &'static str, _: usize) -> Result<Self::SerializeStruct, SErr> {
        unsupported()
    }
    fn serialize_struct_variant(
        self,
        _: &'static str,
        _: u32,
        _: &'static str,
        _: usize,
    ) -> Result<Self::SerializeStructVariant, SErr> {
        unsupported()
    }
    fn collect_str<T: ?Sized + fmt::Display>(self, _: &T) -> Result<(), SErr> {
        unsupported()
    }
}
impl<'a> SerializeSeq for Comp<'a> {
    type Ok = ();
    type Error = SErr;
    fn serialize_element<T: ?Sized + Serialize>(&mut self, v: &T) -> Result<(), SErr> {
        v.serialize(Ser(&mut *self.0))
    }
    fn end(self) -> Result<(), SErr> {
        Ok(())
    }
}
impl<'a> SerializeMap for Comp<'a> {
    type Ok = ();
    type Error = SErr;
    fn serialize_key<T: ?Sized + Serialize>(&mut self, k: &T) -> Result<(), SErr> {
        k.serialize(Ser(&mut *self.0))
    }
    fn serialize_value<T: ?Sized + Serialize>(&mut self, v: &T) -> Result<(), SErr> {
        v.serialize(Ser(&mut *self.0))
    }
    fn end(self) -> Result<(), SErr> {
        Ok(())
    }
}

/* ---------- scripted Deserializer ---------- */

#[derive(Clone, Copy, PartialEq, Debug)]
pub enum Fail {
    Never,
    AtKey(usize),
    AtVal(usize),
}

pub struct Script {
    pub hint: Option<usize>,
    pub fail: Fail,
    /// `(k, kid, vid, v)`
    pub toks: Vec<(u64, u64, u64, u64)>,
    pub pos: usize,
    /// ids of the objects created so far (`k<id>` / `v<id>`)
    pub built: Vec<String>,
    /// size of the last block allocated before the first entry was requested
    pub asz0: Option<usize>,
    pub first_seen: bool,
}
impl Script {
    fn first(&mut self) {
        if !self.first_seen {
            self.first_seen = true;
            self.asz0 = tape::with(|t| {
                t.events.iter().rev().find_map(|e| {
                    e.strip_prefix("al").map(|s| s.split('/').next().unwrap().parse().unwrap())
                })
            });
        }
    }
}

/// One key or value object: `(payload << 64) | id`, resp. `(id << 64) | payload`.
struct ElemDe(u128);
impl<'de> Deserializer<'de> for ElemDe {
    type Error = SErr;
    fn deserialize_any<V: Visitor<'de>>(self, v: V) -> Result<V::Value, SErr> {
        v.visit_u128(self.0)
    }
    serde::forward_to_deserialize_any! {
        bool i8 i16 i32 i64 i128 u8 u16 u32 u64 u128 f32 f64 char str string bytes byte_buf option
        unit unit_struct newtype_struct seq tuple tuple_struct map struct enum identifier ignored_any
    }
}
struct U128Vis;
impl<'de> Visitor<'de> for U128Vis {
    type Value = u128;
    fn expecting(&self, f: &mut fmt::Formatter<'_>) -> fmt::Result {
        f.write_str("a packed (payload, identity) pair")
    }
    fn visit_u128<E: de::Error>(self, v: u128) -> Result<u128, E> {
        Ok(v)
    }
}

struct De<'a>(&'a mut Script);
struct Access<'a>(&'a mut Script);
impl<'de, 'a> Deserializer<'de> for De<'a> {
    type Error = SErr;
    fn deserialize_any<V: Visitor<'de>>(self, _: V) -> Result<V::Value, SErr> {
        unsupported()
    }
    fn deserialize_map<V: Visitor<'de>>(self, v: V) -> Result<V::Value, SErr> {
        v.visit_map(Access(self.0))
    }
    fn deserialize_seq<V: Visitor<'de>>(self, v: V) -> Result<V::Value, SErr> {
        v.visit_seq(Access(self.0))
    }
    serde::forward_to_deserialize_any! {
        bool i8 i16 i32 i64 i128 u8 u16 u32 u64 u128 f32 f64 char str string bytes byte_buf option
        unit unit_struct newtype_struct tuple tuple_struct struct enum identifier ignored_any
    }
}
impl<'de, 'a> MapAccess<'de> for Access<'a> {
    type Error = SErr;
    fn next_key_seed<S: DeserializeSeed<'de>>(&mut self, seed: S) -> Result<Option<S::Value>, SErr> {
        let s = &mut *self.0;
        s.first();
        let i = s.pos;
        if s.fail == Fail::AtKey(i) {
            return Err(SErr("scripted error at key".into()));
        }
        if i >= s.toks.len() {
            return Ok(None);
        }
        let t = s.toks[i];
        s.built.push(format!("k{}", t.1));
        seed.deserialize(ElemDe(((t.0 as u128) << 64) | t.1 as u128)).map(Some)
    }
    fn next_value_seed<S: DeserializeSeed<'de>>(&mut self, seed: S) -> Result<S::Value, SErr> {
        let s = &mut *self.0;
        let i = s.pos;
        s.pos += 1;
        if s.fail == Fail::AtVal(i) {
            return Err(SErr("scripted error at value".into()));
        }
        let t = s.toks[i];
        s.built.push(format!("v{}", t.2));
        seed.deserialize(ElemDe(((t.2 as u128) << 64) | t.3 as u128))
    }
    fn size_hint(&self) -> Option<usize> {
        self.0.hint
    }
}
impl<'de, 'a> SeqAccess<'de> for Access<'a> {
    type Error = SErr;
    fn next_element_seed<S: DeserializeSeed<'de>>(&mut self, seed: S) -> Result<Option<S::Value>, SErr> {
        let s = &mut *self.0;
        s.first();
        let i = s.pos;
        if s.fail == Fail::AtKey(i) {
            return Err(SErr("scripted error at element".into()));
        }
        if i >= s.toks.len() {
            return Ok(None);
        }
        s.pos += 1;
        let t = s.toks[i];
        s.built.push(format!("k{}", t.1));
        seed.deserialize(ElemDe(((t.0 as u128) << 64) | t.1 as u128)).map(Some)
    }
    fn size_hint(&self) -> Option<usize> {
        self.0.hint
    }
}

/* ---------- Serialize / Deserialize of the element types ---------- */

macro_rules! key_serde {
    ($t:ident) => {
        impl<P: Pad> Serialize for $t<P> {
            fn serialize<S: Serializer>(&self, s: S) -> Result<S::Ok, S::Error> {
                s.serialize_u64(self.k)
            }
        }
        impl<'de, P: Pad> Deserialize<'de> for $t<P> {
            fn deserialize<D: Deserializer<'de>>(d: D) -> Result<Self, D::Error> {
                let x = d.deserialize_u128(U128Vis)?;
                Ok(<$t<P> as KeyT>::new((x >> 64) as u64, x as u64))
            }
        }
    };
}
macro_rules! val_serde {
    ($t:ident) => {
        impl Serialize for $t {
            fn serialize<S: Serializer>(&self, s: S) -> Result<S::Ok, S::Error> {
                s.serialize_u64(self.v)
            }
        }
        impl<'de> Deserialize<'de> for $t {
            fn deserialize<D: Deserializer<'de>>(d: D) -> Result<Self, D::Error> {
                let x = d.deserialize_u128(U128Vis)?;
                Ok(<$t as ValT>::new((x >> 64) as u64, x as u64))
            }
        }
    };
}
key_serde!(KD);
key_serde!(KC);
val_serde!(VD);
val_serde!(VC);

pub trait SK: KeyT + Serialize + for<'de> Deserialize<'de> {}
impl<T: KeyT + Serialize + for<'de> Deserialize<'de>> SK for T {}
pub trait SV: ValT + Serialize + for<'de> Deserialize<'de> {}
impl<T: ValT + Serialize + for<'de> Deserialize<'de>> SV for T {}

/* ---------- the two collection kinds behind one interface ---------- */

pub trait Coll: Sized + 'static {
    const IS_SET: bool;
    const DROP: bool;
    fn new_empty() -> Self;
    fn layout() -> (usize, usize);
    fn dump(&self) -> Dump;
    /// `(k, kid, vid, v)` of bucket `i`
    fn bucket(&self, i: usize) -> Option<(u64, u64, u64, u64)>;
    fn len(&self) -> usize;
    fn capacity(&self) -> usize;
    fn allocation_size(&self) -> usize;
    fn insert(&mut self, a: &[u64]) -> String;
    fn remove(&mut self, k: u64) -> String;
    fn get(&self, k: u64) -> String;
    fn reserve(&mut self, n: usize);
    fn shrink_to_fit(&mut self);
    fn clear(&mut self);
    fn ser(&self, sink: &mut Sink) -> Result<(), SErr>;
    fn deser(s: &mut Script) -> Result<Self, SErr>;
    fn deser_in_place(&mut self, s: &mut Script) -> Result<(), SErr>;
    fn same(&self, other: &Self) -> bool;
}

type MS<K, V> = HashMap<K, V, IdBuild, TapeAlloc>;
type SS<K> = HashSet<K, IdBuild, TapeAlloc>;

impl<K: SK, V: SV> Coll for MS<K, V> {
    const IS_SET: bool = false;
    const DROP: bool = K::DROP;
    fn new_empty() -> Self {
        HashMap::with_hasher_in(IdBuild, TapeAlloc)
    }
    fn layout() -> (usize, usize) {
        (hashbrown::verif::table_layout_new::<(K, V)>().0, std::mem::align_of::<(K, V)>())
    }
    fn dump(&self) -> Dump {
        self.verif_dump()
    }
    fn bucket(&self, i: usize) -> Option<(u64, u64, u64, u64)> {
        self.verif_bucket(i).map(|(k, v)| (k.k(), k.id(), v.id(), v.v()))
    }
    fn len(&self) -> usize {
        HashMap::len(self)
    }
    fn capacity(&self) -> usize {
        HashMap::capacity(self)
    }
    fn allocation_size(&self) -> usize {
        HashMap::allocation_size(self)
    }
    fn insert(&mut self, a: &[u64]) -> String {
        let r = HashMap::insert(self, K::new(a[0], a[1]), V::new(a[2], a[3]));
        quiet();
        r.as_ref().map_or("-".into(), |v| format!("{}.{}", v.id(), v.v()))
    }
    fn remove(&mut self, k: u64) -> String {
        let r = HashMap::remove(self, &Q(k));
        quiet();
        r.as_ref().map_or("-".into(), |v| format!("{}.{}", v.id(), v.v()))
    }
    fn get(&self, k: u64) -> String {
        self.get_key_value(&Q(k))
            .map_or("-".into(), |(k, v)| format!("{}.{}.{}.{}", k.k(), k.id(), v.id(), v.v()))
    }
    fn reserve(&mut self, n: usize) {
        HashMap::reserve(self, n)
    }
    fn shrink_to_fit(&mut self) {
        HashMap::shrink_to_fit(self)
    }
    fn clear(&mut self) {
        HashMap::clear(self)
    }
    fn ser(&self, sink: &mut Sink) -> Result<(), SErr> {
        Serialize::serialize(self, Ser(sink))
    }
    fn deser(s: &mut Script) -> Result<Self, SErr> {
        <Self as Deserialize>::deserialize(De(s))
    }
    fn deser_in_place(&mut self, s: &mut Script) -> Result<(), SErr> {
        // no specialised impl for maps: serde's default (`*place = deserialize()?`)
        <Self as Deserialize>::deserialize_in_place(De(s), self)
    }
    fn same(&self, other: &Self) -> bool {
        *self == *other
    }
}

impl<K: SK> Coll for SS<K> {
    const IS_SET: bool = true;
    const DROP: bool = K::DROP;
    fn new_empty() -> Self {
        HashSet::with_hasher_in(IdBuild, TapeAlloc)
    }
    fn layout() -> (usize, usize) {
        (hashbrown::verif::table_layout_new::<(K, ())>().0, std::mem::align_of::<(K, ())>())
    }
    fn dump(&self) -> Dump {
        self.verif_dump()
    }
    fn bucket(&self, i: usize) -> Option<(u64, u64, u64, u64)> {
        self.verif_bucket(i).map(|k| (k.k(), k.id(), 0, 0))
    }
    fn len(&self) -> usize {
        HashSet::len(self)
    }
    fn capacity(&self) -> usize {
        HashSet::capacity(self)
    }
    fn allocation_size(&self) -> usize {
        HashSet::allocation_size(self)
    }
    fn insert(&mut self, a: &[u64]) -> String {
        HashSet::insert(self, K::new(a[0], a[1])).to_string()
    }
    fn remove(&mut self, k: u64) -> String {
        HashSet::remove(self, &Q(k)).to_string()
    }
    fn get(&self, k: u64) -> String {
        HashSet::get(self, &Q(k)).map_or("-".into(), |k| format!("{}.{}.0.0", k.k(), k.id()))
    }
    fn reserve(&mut self, n: usize) {
        HashSet::reserve(self, n)
    }
    fn shrink_to_fit(&mut self) {
        HashSet::shrink_to_fit(self)
    }
    fn clear(&mut self) {
        HashSet::clear(self)
    }
    fn ser(&self, sink: &mut Sink) -> Result<(), SErr> {
        Serialize::serialize(self, Ser(sink))
    }
    fn deser(s: &mut Script) -> Result<Self, SErr> {
        <Self as Deserialize>::deserialize(De(s))
    }
    fn deser_in_place(&mut self, s: &mut Script) -> Result<(), SErr> {
        <Self as Deserialize>::deserialize_in_place(De(s), self)
    }
    fn same(&self, other: &Self) -> bool {
        *self == *other
    }
}

/* ---------- runner ---------- */

/// key ↦ (kid, vid, v)
type Contents = BTreeMap<u64, (u64, u64, u64)>;

fn contents<C: Coll>(c: &C) -> Contents {
    let d = c.dump();
    let mut out = Contents::new();
    if !d.is_singleton {
        for i in 0..=d.bucket_mask {
            if let Some((k, kid, vid, v)) = c.bucket(i) {
                out.insert(k, (kid, vid, v));
            }
        }
    }
    out
}

fn fmt_contents<C: Coll>(c: &C) -> String {
    let d = c.dump();
    let mut es = Vec::new();
    if !d.is_singleton {
        for i in 0..=d.bucket_mask {
            if let Some(e) = c.bucket(i) {
                es.push(e);
            }
        }
    }
    es.sort_by_key(|e| (e.0, e.1));
    let s = es.iter().map(|e| format!("{}.{}.{}.{}", e.0, e.1, e.2, e.3)).collect::<Vec<_>>().join(",");
    if es.len() > 40 {
        format!("#{:016x}", fnv64(&s))
    } else {
        s
    }
}

fn state_of<C: Coll>(c: &C) -> String {
    let d = c.dump();
    let mut slots = Vec::new();
    if !d.is_singleton {
        for i in 0..=d.bucket_mask {
            if let Some(e) = c.bucket(i) {
                slots.push((i, format!("{}.{}.{}.{}", e.0, e.1, e.2, e.3)));
            }
        }
    }
    format!("{} len={} cap={} asz={}", fmt_state(&d, &slots), c.len(), c.capacity(), c.allocation_size())
}

/// Size of the block of a table with `b` buckets (independent re-computation).
fn block_size(b: usize, size: usize, align: usize) -> usize {
    let w = hashbrown::verif::GROUP_WIDTH;
    let ca = std::cmp::max(align, w);
    ((size * b + ca - 1) & !(ca - 1)) + b + w
}
fn cap_of_buckets(b: usize) -> usize {
    if b <= 8 {
        b - 1
    } else {
        b / 8 * 7
    }
}

pub struct SerdeRunner<C: Coll> {
    a: Option<C>,
    b: Option<C>,
    /// ids of the objects owned by `a` or `b`
    live: BTreeSet<String>,
    /// complaints of the direct oracles during the current op
    notes: Vec<String>,
    moved_in: Vec<String>,
}

impl<C: Coll> SerdeRunner<C> {
    pub fn new() -> Self {
        SerdeRunner { a: Some(C::new_empty()), b: Some(C::new_empty()), live: BTreeSet::new(), notes: Vec::new(), moved_in: Vec::new() }
    }
    fn get(&self, tgt: &str) -> &C {
        if tgt == "a" {
            self.a.as_ref().unwrap()
        } else {
            self.b.as_ref().unwrap()
        }
    }
    fn get_mut(&mut self, tgt: &str) -> &mut C {
        if tgt == "a" {
            self.a.as_mut().unwrap()
        } else {
            self.b.as_mut().unwrap()
        }
    }

    fn script(a: &[&str]) -> Script {
        let hint = if a[0] == "-" { None } else { Some(a[0].parse::<u64>().unwrap() as usize) };
        let fail = if a[1] == "-" {
            Fail::Never
        } else if let Some(j) = a[1].strip_suffix('v') {
            Fail::AtVal(j.parse().unwrap())
        } else {
            Fail::AtKey(a[1].parse().unwrap())
        };
        let base: u64 = a[2].parse().unwrap();
        let nums: Vec<u64> = a[3..].iter().map(|x| x.parse().unwrap()).collect();
        let mut toks = Vec::new();
        if C::IS_SET {
            for (i, k) in nums.iter().enumerate() {
                toks.push((*k, base + 2 * i as u64, 0, 0));
            }
        } else {
            for (i, kv) in nums.chunks(2).enumerate() {
                toks.push((kv[0], base + 2 * i as u64, base + 2 * i as u64 + 1, kv[1]));
            }
        }
        Script { hint, fail, toks, pos: 0, built: Vec::new(), asz0: None, first_seen: false }
    }

    /// Reference semantics of feeding `toks` into `start`: value of the last occurrence, key
    /// object of the first.
    fn fold_ref(start: Contents, toks: &[(u64, u64, u64, u64)]) -> Contents {
        let mut r = start;
        for &(k, kid, vid, v) in toks {
            match r.get_mut(&k) {
                Some(e) => {
                    e.1 = vid;
                    e.2 = v;
                }
                None => {
                    r.insert(k, (kid, vid, v));
                }
            }
        }
        r
    }

    /// `cap0=… asz0=…` plus the direct bound oracle.
    fn cap_before(&mut self, s: &Script, zero_tok_capacity: Option<usize>) -> String {
        let (size, align) = C::layout();
        let asz0 = s.asz0.unwrap_or(0);
        let mut cap0 = 0;
        if asz0 != 0 {
            let mut b = 1usize;
            cap0 = usize::MAX;
            while b <= (1 << 40) {
                if block_size(b, size, align) == asz0 {
                    cap0 = cap_of_buckets(b);
                    break;
                }
                b *= 2;
            }
        }
        if asz0 > block_size(8192, size, align) || cap0 > 7168 {
            self.notes.push(format!("ORACLE-CAP(reserved_{}_bytes_capacity_{}_for_hint_{:?})", asz0, cap0, s.hint));
        }
        if s.hint.unwrap_or(0) == 0 && asz0 != 0 {
            self.notes.push(format!("ORACLE-CAP(allocated_{}_bytes_for_hint_{:?})", asz0, s.hint));
        }
        if let Some(h) = s.hint {
            // the reservation is never smaller than the cautious hint
            if cap0 < std::cmp::min(h, 4096) {
                self.notes.push(format!("ORACLE-CAP(capacity_{}_below_cautious_hint_{})", cap0, h));
            }
        }
        if let Some(c) = zero_tok_capacity {
            if c != cap0 {
                self.notes.push(format!("ORACLE-CAP(capacity()_{}_but_block_says_{})", c, cap0));
            }
        }
        format!("cap0={} asz0={}", cap0, asz0)
    }

    fn run(&mut self, tgt: &str, name: &str, a: &[&str]) -> String {
        let n = |i: usize| -> u64 { a[i].parse().unwrap() };
        let name = name.strip_suffix("_set").unwrap_or(name);
        match (name, a.len()) {
            ("insert", 2) | ("insert", 4) => {
                let nums: Vec<u64> = a.iter().map(|x| x.parse().unwrap()).collect();
                self.moved_in.push(format!("k{}", nums[1]));
                if !C::IS_SET {
                    self.moved_in.push(format!("v{}", nums[2]));
                }
                self.get_mut(tgt).insert(&nums)
            }
            ("remove", 1) => self.get_mut(tgt).remove(n(0)),
            ("get", 1) => self.get(tgt).get(n(0)),
            ("reserve", 1) => {
                self.get_mut(tgt).reserve(n(0) as usize);
                "()".into()
            }
            ("shrink_to_fit", 0) => {
                self.get_mut(tgt).shrink_to_fit();
                "()".into()
            }
            ("clear", 0) => {
                self.get_mut(tgt).clear();
                "()".into()
            }
            ("nop", 0) => "()".into(),
            ("roundtrip", 1) => {
                let base = n(0);
                let before = contents(self.get(tgt));
                let mut sink = Sink::default();
                if let Err(e) = self.get(tgt).ser(&mut sink) {
                    return format!("ser-error({})", e.0);
                }
                let len = self.get(tgt).len();
                if sink.declared != Some(Some(len)) {
                    self.notes.push(format!("ORACLE-SER(declared_length_{:?}_for_{}_elements)", sink.declared, len));
                }
                let per = if C::IS_SET { 1 } else { 2 };
                if sink.vals.len() != per * len {
                    self.notes.push(format!("ORACLE-SER({}_tokens_for_{}_elements)", sink.vals.len(), len));
                }
                let mut args: Vec<String> = vec![len.to_string(), "-".into(), base.to_string()];
                args.extend(sink.vals.iter().map(|x| x.to_string()));
                let argr: Vec<&str> = args.iter().map(|s| s.as_str()).collect();
                let mut s = Self::script(&argr);
                let new = match C::deser(&mut s) {
                    Ok(c) => c,
                    Err(e) => {
                        self.moved_in.extend(s.built.drain(..));
                        return format!("deser-error({})", e.0);
                    }
                };
                self.moved_in.extend(s.built.drain(..));
                let eq = self.get(tgt).same(&new);
                // direct oracle: same key ↦ payload association, fresh identities
                let after = contents(&new);
                let strip = |c: &Contents| c.iter().map(|(k, e)| (*k, e.2)).collect::<Vec<_>>();
                if lawful() && (!eq || strip(&before) != strip(&after)) {
                    self.notes.push(format!("ORACLE-ROUNDTRIP(eq={}_before_{}_after_{})", eq, before.len(), after.len()));
                }
                let old = std::mem::replace(self.get_mut(tgt), new);
                drop(old);
                format!("eq={} len={}", eq, self.get(tgt).len())
            }
            ("deser", k) if k >= 3 => {
                let mut s = Self::script(a);
                let before = contents(self.get(tgt));
                let r = C::deser(&mut s);
                self.moved_in.extend(s.built.iter().cloned());
                match r {
                    Ok(new) => {
                        let zc = if s.toks.is_empty() { Some(new.capacity()) } else { None };
                        let cb = self.cap_before(&s, zc);
                        if lawful() && contents(&new) != Self::fold_ref(Contents::new(), &s.toks) {
                            self.notes.push("ORACLE-LASTWINS(deserialised_contents_differ_from_last-value/first-key_reference)".into());
                        }
                        let old = std::mem::replace(self.get_mut(tgt), new);
                        drop(old);
                        let c = self.get(tgt);
                        format!("ok len={} {} contents={}", c.len(), cb, fmt_contents(c))
                    }
                    Err(_) => {
                        let cb = self.cap_before(&s, None);
                        if s.fail == Fail::Never {
                            self.notes.push("ORACLE-ERR(error_without_scripted_failure)".into());
                        }
                        if contents(self.get(tgt)) != before {
                            self.notes.push("ORACLE-ERR(target_changed_by_failed_deserialisation)".into());
                        }
                        format!("err {}", cb)
                    }
                }
            }
            ("deser_in_place", k) if k >= 3 => {
                let mut s = Self::script(a);
                let before = contents(self.get(tgt));
                let cap_before = self.get(tgt).capacity();
                let r = self.get_mut(tgt).deser_in_place(&mut s);
                // C20: whatever length the input claims, the reservation made before reading is bounded by a
                // constant (at most 16384 buckets = capacity 14336, see Hb.C20S.in_place_reservation_bounded_partial);
                // the scripts deliver far fewer elements than that
                let cap_after = self.get(tgt).capacity();
                if cap_after > std::cmp::max(cap_before, 14336) {
                    self.notes.push(format!("ORACLE-CAP(in-place_deserialisation_left_capacity_{}_for_hint_{:?})", cap_after, s.hint));
                }
                self.moved_in.extend(s.built.iter().cloned());
                let consumed = match (&r, s.fail) {
                    (Ok(()), _) => s.toks.len(),
                    (Err(_), Fail::AtKey(j)) | (Err(_), Fail::AtVal(j)) => std::cmp::min(j, s.toks.len()),
                    (Err(_), Fail::Never) => {
                        self.notes.push("ORACLE-ERR(error_without_scripted_failure)".into());
                        0
                    }
                };
                // sets have their own in-place visitor (clear, then refill: a failed run leaves the elements read so
                // far); maps use serde's default (`*place = deserialize()?`: a failed run leaves the place untouched)
                let want = if C::IS_SET || r.is_ok() { Self::fold_ref(Contents::new(), &s.toks[..consumed]) } else { before };
                if lawful() && contents(self.get(tgt)) != want {
                    self.notes.push("ORACLE-LASTWINS(in-place_contents_differ_from_reference)".into());
                }
                let c = self.get(tgt);
                match r {
                    Ok(()) => format!("ok len={} contents={}", c.len(), fmt_contents(c)),
                    Err(_) => format!("err len={}", c.len()),
                }
            }
            _ => format!("bad-op {}", name),
        }
    }

    /// Ownership ledger: every object handed to hashbrown is held by a collection, or was dropped
    /// exactly once, or was handed back.
    fn ledger(&mut self, events: &[String]) -> Option<String> {
        if !C::DROP {
            return None;
        }
        for id in std::mem::take(&mut self.moved_in) {
            if !self.live.insert(id.clone()) {
                return Some(format!("identity {} used twice by the generator", id));
            }
        }
        for ev in events {
            if let Some(id) = ev.strip_prefix('d') {
                if !self.live.remove(id) {
                    return Some(format!("object {} dropped twice (or never owned)", id));
                }
            }
        }
        for id in tape::take_returned() {
            self.live.remove(&id);
        }
        let mut held = BTreeSet::new();
        for c in [self.a.as_ref().unwrap(), self.b.as_ref().unwrap()] {
            for (_, e) in contents(c) {
                let mut ids = vec![format!("k{}", e.0)];
                if !C::IS_SET {
                    ids.push(format!("v{}", e.1));
                }
                for id in ids {
                    if !held.insert(id.clone()) {
                        return Some(format!("object {} is held twice", id));
                    }
                }
            }
        }
        if let Some(id) = held.iter().find(|id| !self.live.contains(*id)) {
            return Some(format!("object {} is in a collection but was dropped or returned", id));
        }
        if let Some(id) = self.live.iter().find(|id| !held.contains(*id)) {
            return Some(format!("object {} leaked: owned by no collection, never dropped", id));
        }
        None
    }
}

impl<C: Coll> Runner for SerdeRunner<C> {
    fn layout(&self) -> (usize, usize, bool, bool) {
        let (s, a) = C::layout();
        (s, a, C::DROP, true)
    }
    fn op(&mut self, tgt: &str, name: &str, args: &[&str]) -> String {
        loud();
        tape::with(|t| t.events.clear());
        let _ = tape::take_returned();
        self.notes.clear();
        self.moved_in.clear();
        let ret = match catch_unwind(AssertUnwindSafe(|| self.run(tgt, name, args))) {
            Ok(s) => s,
            Err(p) => panic_class(p),
        };
        quiet();
        let mut ret = ret;
        for nte in std::mem::take(&mut self.notes) {
            ret.push(' ');
            ret.push_str(&nte);
        }
        let evs = tape::peek_events();
        let no_dpanic = tape::with(|t| t.p.dpanic.is_none());
        if no_dpanic {
            if let Some(why) = self.ledger(&evs) {
                ret.push_str(&format!(" ORACLE-LEDGER({})", why.replace(' ', "_")));
                self.live.clear();
            }
        }
        for t in ["a", "b"] {
            if let Some(why) = inv_oracle(&self.get(t).dump()) {
                ret.push_str(&format!(" ORACLE-INV({}:{})", t, why.replace(' ', "_")));
            }
        }
        let st = state_of(self.get(tgt));
        format!("{} ; {} ; {} ; {}", ret, st, tape::take_events(), tape::counters())
    }
    fn dump(&self, tgt: &str) -> Dump {
        self.get(tgt).dump()
    }
    fn keys(&self, tgt: &str) -> Vec<u64> {
        contents(self.get(tgt)).keys().copied().collect()
    }
    fn finish(&mut self) -> Vec<String> {
        quiet();
        self.a = None;
        self.b = None;
        tape::with(|t| {
            let mut v = std::mem::take(&mut t.alloc_errors);
            let mut leaks: Vec<String> =
                t.live_blocks.drain().map(|(_, (s, a))| format!("leaked block {}/{}", s, a)).collect();
            leaks.sort();
            v.extend(leaks);
            v
        })
    }
}

thread_local! {
    /// kind of the runner created last (the generator needs to know which op names to emit)
    static IS_SET: RefCell<bool> = RefCell::new(false);
    /// queued ops of a systematic failure sweep
    static QUEUE: RefCell<VecDeque<String>> = RefCell::new(VecDeque::new());
}

pub fn make(drop: bool, lay: &str) -> Box<dyn Runner> {
    let set = matches!(lay, "a16" | "big");
    IS_SET.with(|s| *s.borrow_mut() = set);
    QUEUE.with(|q| q.borrow_mut().clear());
    match (lay, drop) {
        ("std", true) => Box::new(SerdeRunner::<MS<KD<()>, VD>>::new()),
        ("std", false) => Box::new(SerdeRunner::<MS<KC<()>, VC>>::new()),
        ("a32", true) => Box::new(SerdeRunner::<MS<KD<A32>, VD>>::new()),
        ("a32", false) => Box::new(SerdeRunner::<MS<KC<A32>, VC>>::new()),
        ("a64", true) => Box::new(SerdeRunner::<MS<KD<A64>, VD>>::new()),
        ("a64", false) => Box::new(SerdeRunner::<MS<KC<A64>, VC>>::new()),
        ("a16", true) => Box::new(SerdeRunner::<SS<KD<A16>>>::new()),
        ("a16", false) => Box::new(SerdeRunner::<SS<KC<A16>>>::new()),
        ("big", true) => Box::new(SerdeRunner::<SS<KD<Big>>>::new()),
        ("big", false) => Box::new(SerdeRunner::<SS<KC<Big>>>::new()),
        _ => panic!("no serde runner for drop={} lay={}", drop, lay),
    }
}

/* ---------- generator ---------- */

fn hint_for(g: &mut Gen, n: u64) -> String {
    match g.rng.below(16) {
        0 => "-".into(),
        1 => "0".into(),
        2 => "1".into(),
        3 => "4095".into(),
        4 => "4096".into(),
        5 => "4097".into(),
        6 => (1u64 << 32).to_string(),
        7 => u64::MAX.to_string(),
        8 | 9 => n.to_string(),
        10 => (n + 1).to_string(),
        11 => (2 * n).to_string(),
        12 => n.saturating_sub(1).to_string(),
        // boundaries of `capacity_to_buckets`
        13 => g.rng.pick(&[3u64, 4, 7, 8, 14, 15, 28, 29, 56, 57, 112, 113]).to_string(),
        14 => (3584 + g.rng.below(3)).to_string(),
        _ => g.rng.below(300).to_string(),
    }
}

fn tokens(g: &mut Gen, set: bool, n: u64) -> (u64, String) {
    let base = g.next_id;
    g.next_id += 2 * n + 2;
    let mut s = String::new();
    for _ in 0..n {
        let k = g.key();
        if set {
            s.push_str(&format!(" {}", k));
        } else {
            s.push_str(&format!(" {} {}", k, 100 + g.rng.below(50)));
        }
    }
    (base, s)
}

/// Next op of the `serde` profile.
pub fn next_op(g: &mut Gen, r: &dyn Runner) -> String {
    if let Some(op) = QUEUE.with(|q| q.borrow_mut().pop_front()) {
        return op;
    }
    let set = IS_SET.with(|s| *s.borrow());
    let sfx = if set { "_set" } else { "" };
    let tgt = if g.rng.chance(1, 5) { "b" } else { "a" };
    let x = g.rng.below(100);
    let k = g.key();
    if x < 22 {
        let (kid, vid) = (g.id(), g.id());
        if set {
            format!("{} insert_set {} {}", tgt, k, kid)
        } else {
            format!("{} insert {} {} {} {}", tgt, k, kid, vid, 100 + g.rng.below(50))
        }
    } else if x < 30 {
        match g.present_key(r, tgt) {
            Some(k) if g.rng.chance(3, 4) => format!("{} remove{} {}", tgt, sfx, k),
            _ => format!("{} remove{} {}", tgt, sfx, k),
        }
    } else if x < 34 {
        format!("{} reserve{} {}", tgt, sfx, g.rng.below(80))
    } else if x < 37 {
        format!("{} shrink_to_fit{}", tgt, sfx)
    } else if x < 39 {
        format!("{} clear{}", tgt, sfx)
    } else if x < 55 {
        let base = g.next_id;
        g.next_id += 2 * (r.dump(tgt).items as u64) + 2;
        format!("{} roundtrip{} {}", tgt, sfx, base)
    } else {
        let n = *g.rng.pick(&[0u64, 0, 1, 2, 3, 4, 5, 7, 8, 13, 15, 20, 29, 40]);
        let in_place = g.rng.chance(2, 5);
        let name = if in_place { format!("deser_in_place{}", sfx) } else { format!("deser{}", sfx) };
        if x < 62 && n > 0 && n <= 8 {
            // systematic: the same input failing at every position (keys, values, end marker)
            let (_, toks) = tokens(g, set, n);
            let hint = hint_for(g, n);
            let mut fails: Vec<String> = (0..=n).map(|j| j.to_string()).collect();
            if !set {
                fails.extend((0..n).map(|j| format!("{}v", j)));
            }
            fails.push("-".into());
            QUEUE.with(|q| {
                let mut q = q.borrow_mut();
                for f in fails {
                    let base = g.next_id;
                    g.next_id += 2 * n + 2;
                    q.push_back(format!("{} {} {} {} {}{}", tgt, name, hint, f, base, toks));
                }
            });
            return QUEUE.with(|q| q.borrow_mut().pop_front()).unwrap();
        }
        let (base, toks) = tokens(g, set, n);
        let hint = hint_for(g, n);
        let fail = match g.rng.below(10) {
            0..=4 => "-".to_string(),
            5..=7 => g.rng.below(n + 1).to_string(),
            _ if !set && n > 0 => format!("{}v", g.rng.below(n)),
            _ => n.to_string(),
        };
        format!("{} {} {} {} {}{}", tgt, name, hint, fail, base, toks)
    }
}
